(* qpdf's hint-table ENCODER (libqpdf/QPDF_linearization.cc): nbits, calculateHPageOffset,
   calculateHSharedObject, calculateHOutline, write_vector_int, write_vector_vector,
   writeHPageOffset, writeHSharedObject, writeHGeneric, generateHintStream (before Pl_Flate),
   and the padding arithmetic of QPDFWriter::writeLinearized. Written from the C++. *)
From QV Require Import Base.Bytes Filters.Filters Lin.HintTypes Lin.BitIO File.WriterArith.
Local Open Scope N_scope.

(* static inline int nbits(int val) { return (val == 0 ? 0 : (1 + nbits(val >> 1))); }
   (val >= 0 at every call; a negative val never terminates). 32 levels suffice for an int. *)
Fixpoint nbits_fuel (fuel : nat) (v : N) : N :=
  match fuel with
  | O => 0
  | S f => if v =? 0 then 0 else 1 + nbits_fuel f (v / 2)
  end.
Definition nbits (v : N) : N := nbits_fuel 32 v.

Definition int_max : N := 2147483647.

(* ---- inputs: what calculateLinearizationData (counts) and pass 1 (lengths, offsets) provide ---- *)
Record lh_cpage := { cpg_nobjects : N; cpg_length : N (* outputLengthNextN *); cpg_shared : list N (* shared_identifiers *) }.

Definition lh_fold_min (f : lh_cpage -> N) (l : list lh_cpage) (init : N) : N := fold_left (fun m p => N.min m (f p)) l init.
Definition lh_fold_max (f : lh_cpage -> N) (l : list lh_cpage) (init : N) : N := fold_left (fun m p => N.max m (f p)) l init.

(* calculateHPageOffset. nshared_total is c_shared_object_data_.nshared_total. None = stopOnError
   ("found too small delta ...": cannot happen since min is the minimum). *)
Definition calc_hpage (pages : list lh_cpage) (first_page_offset nshared_total : N) : hp_table :=
  let min_nobjects := lh_fold_min cpg_nobjects pages int_max in
  let max_nobjects := lh_fold_max cpg_nobjects pages 0 in
  let min_length := lh_fold_min cpg_length pages int_max in
  let max_length := lh_fold_max cpg_length pages 0 in
  let max_shared := lh_fold_max (fun p => N.of_nat (length (cpg_shared p))) pages 0 in
  let nb_len := nbits (max_length - min_length) in
  {| hp_min_nobjects := min_nobjects;
     hp_first_page_offset := first_page_offset;
     hp_bits_nobjects := nbits (max_nobjects - min_nobjects);
     hp_min_length := min_length;
     hp_bits_length := nb_len;
     hp_min_content_offset := 0;
     hp_bits_content_offset := 0;
     hp_min_content_length := min_length;
     hp_bits_content_length := nb_len;
     hp_bits_nshared := nbits max_shared;
     hp_bits_identifier := nbits nshared_total;
     hp_bits_numerator := 0;
     hp_denominator := 4;
     hp_entries := map (fun p =>
        {| pe_nobjects_delta := cpg_nobjects p - min_nobjects;
           pe_length_delta := cpg_length p - min_length;
           pe_nshared := N.of_nat (length (cpg_shared p));
           pe_identifiers := cpg_shared p;
           pe_numerators := repeat 0 (length (cpg_shared p));
           pe_content_offset_delta := 0;
           pe_content_length_delta := cpg_length p - min_length |}) pages |}.

(* calculateHSharedObject: lengths of all entries (part 6 then part 8), nshared_first_page,
   renumbered first_shared_obj and its pass-1 offset. csoe.at(0) throws on an empty list: None. *)
Definition calc_hshared (lengths : list N) (nfirst first_obj first_offset : N) : option hs_table :=
  match lengths with
  | [] => None
  | l0 :: _ =>
      let min_length := fold_left N.min lengths l0 in
      let max_length := fold_left N.max lengths l0 in
      let ntotal := N.of_nat (length lengths) in
      let later := nfirst <? ntotal in
      Some {| hs_first_obj := if later then first_obj else 0;
              hs_first_offset := if later then first_offset else 0;
              hs_nfirst := nfirst;
              hs_ntotal := ntotal;
              hs_bits_nobjects := 0;
              hs_min_length := min_length;
              hs_bits_length := nbits (max_length - min_length);
              hs_entries := map (fun l => {| se_length_delta := l - min_length; se_signature := 0; se_nobjects_m1 := 0 |}) lengths |}
  end.

(* ---- writers ---- *)
(* write_vector_int: nitems times writeBits(vec.at(i).*field, bits), then flush.
   vec.at(i) throws when the vector is shorter than nitems: None. *)
Fixpoint lh_vec_ops {A} (nitems : nat) (vec : list A) (bits : N) (field : A -> N) : option (list bitop) :=
  match nitems with
  | O => Some [BFl]
  | S n => match vec with
           | [] => None
           | x :: t => match lh_vec_ops n t bits field with
                       | Some ops => Some (BWr (field x) bits :: ops)
                       | None => None
                       end
           end
  end.

(* inner loop of write_vector_vector: nitems2 items of vec2 *)
Fixpoint lh_items_ops (n2 : nat) (vec2 : list N) (bits : N) : option (list bitop) :=
  match n2 with
  | O => Some []
  | S n => match vec2 with
           | [] => None
           | x :: t => match lh_items_ops n t bits with
                       | Some ops => Some (BWr x bits :: ops)
                       | None => None
                       end
           end
  end.

Fixpoint lh_vecvec_ops {A} (nitems1 : nat) (vec1 : list A) (nitems2 : A -> N) (bits : N) (vec2 : A -> list N)
  : option (list bitop) :=
  match nitems1 with
  | O => Some [BFl]
  | S n => match vec1 with
           | [] => None
           | x :: t => match lh_items_ops (N.to_nat (nitems2 x)) (vec2 x) bits, lh_vecvec_ops n t nitems2 bits vec2 with
                       | Some a, Some b => Some (a ++ b)
                       | _, _ => None
                       end
           end
  end.

Definition lh_cat (l : list (option (list bitop))) : option (list bitop) :=
  fold_right (fun o acc => match o, acc with Some a, Some b => Some (a ++ b) | _, _ => None end) (Some []) l.

(* writeHPageOffset; npages = pages.size() *)
Definition hpage_ops (npages : nat) (t : hp_table) : option (list bitop) :=
  let e := hp_entries t in
  lh_cat [
    Some [BWr (hp_min_nobjects t) 32; BWr (hp_first_page_offset t) 32; BWr (hp_bits_nobjects t) 16;
          BWr (hp_min_length t) 32; BWr (hp_bits_length t) 16; BWr (hp_min_content_offset t) 32;
          BWr (hp_bits_content_offset t) 16; BWr (hp_min_content_length t) 32; BWr (hp_bits_content_length t) 16;
          BWr (hp_bits_nshared t) 16; BWr (hp_bits_identifier t) 16; BWr (hp_bits_numerator t) 16;
          BWr (hp_denominator t) 16];
    lh_vec_ops npages e (hp_bits_nobjects t) pe_nobjects_delta;
    lh_vec_ops npages e (hp_bits_length t) pe_length_delta;
    lh_vec_ops npages e (hp_bits_nshared t) pe_nshared;
    lh_vecvec_ops npages e pe_nshared (hp_bits_identifier t) pe_identifiers;
    lh_vecvec_ops npages e pe_nshared (hp_bits_numerator t) pe_numerators;
    lh_vec_ops npages e (hp_bits_content_offset t) pe_content_offset_delta;
    lh_vec_ops npages e (hp_bits_content_length t) pe_content_length_delta ].

(* writeHSharedObject; a set signature bit is stopOnError: None *)
Definition hshared_ops (t : hs_table) : option (list bitop) :=
  let e := hs_entries t in
  let n := N.to_nat (hs_ntotal t) in
  if existsb (fun x => negb (se_signature x =? 0)) (firstn n e) then None else
  lh_cat [
    Some [BWr (hs_first_obj t) 32; BWr (hs_first_offset t) 32; BWr (hs_nfirst t) 32; BWr (hs_ntotal t) 32;
          BWr (hs_bits_nobjects t) 16; BWr (hs_min_length t) 32; BWr (hs_bits_length t) 16];
    lh_vec_ops n e (hs_bits_length t) se_length_delta;
    lh_vec_ops n e 1 se_signature;
    lh_vec_ops n e (hs_bits_nobjects t) se_nobjects_m1 ].

(* writeHGeneric *)
Definition hgeneric_ops (t : hg_table) : list bitop :=
  [BWr (hg_first_obj t) 32; BWr (hg_first_offset t) 32; BWr (hg_nobjects t) 32; BWr (hg_length t) 32].

(* generateHintStream up to (not including) Pl_Flate: (hint_buffer, S, O) *)
Definition gen_hint_stream (npages : nat) (hp : hp_table) (hs : hs_table) (ho : hg_table) : option (list N * N * N) :=
  match hpage_ops npages hp, hshared_ops hs with
  | Some po, Some so =>
      match bs_run po bs_init with
      | None => None
      | Some s1 =>
          let S := bs_count s1 in
          match bs_run so s1 with
          | None => None
          | Some s2 =>
              if 0 <? hg_nobjects ho then
                match bs_run (hgeneric_ops ho) s2 with
                | Some s3 => Some (bs_bytes s3, S, bs_count s2)
                | None => None
                end
              else Some (bs_bytes s2, S, 0)
          end
      end
  | _, _ => None
  end.

(* whole encoder from the quantities measured in pass 1 *)
Definition lh_encode (pages : list lh_cpage) (first_page_offset : N) (shared_lengths : list N)
    (nfirst first_shared_obj first_shared_offset : N) (ho : hg_table) : option (list N * N * N) :=
  match calc_hshared shared_lengths nfirst first_shared_obj first_shared_offset with
  | None => None
  | Some hs => gen_hint_stream (length pages) (calc_hpage pages first_page_offset (hs_ntotal hs)) hs ho
  end.

(* ---- QPDFWriter::writeLinearized padding arithmetic ---- *)
(* parameter dictionary: pos .. pos+200 then "\n": write(pos - getCount() + pad, ' ');
   QIntC::to_size throws when the object is longer than pad: None *)
Definition lindict_pad : N := 200.
Definition lindict_padding (obj_len : N) : option N := if lindict_pad <? obj_len then None else Some (lindict_pad - obj_len).

(* pass-2 text of the parameter dictionary object (numbers as decimal) *)
Definition lindict_text (id L H0 H1 O E Np T : N) : list N :=
  dec_of_N id ++ [32; 48; 32; 111; 98; 106; 10; 60; 60] ++
  [32; 47; 76; 105; 110; 101; 97; 114; 105; 122; 101; 100; 32; 49; 32; 47; 76; 32] ++ dec_of_N L ++
  [32; 47; 72; 32; 91; 32] ++ dec_of_N H0 ++ [32] ++ dec_of_N H1 ++
  [32; 93; 32; 47; 79; 32] ++ dec_of_N O ++ [32; 47; 69; 32] ++ dec_of_N E ++
  [32; 47; 78; 32] ++ dec_of_N Np ++ [32; 47; 84; 32] ++ dec_of_N T ++
  [32; 62; 62; 10; 101; 110; 100; 111; 98; 106; 10].

(* header "%PDF-x.y\n%<4 bytes>\n" *)
Definition lin_header_len : N := 15.

(* writeTrailer t_lin_first: " /Prev " then the number then padding so that number + padding = 21 *)
Definition prev_pad : N := 21.
Definition prev_padding (prev : N) : option N :=
  let l := N.of_nat (length (dec_of_N prev)) in if prev_pad <? l then None else Some (prev_pad - l).

(* pass 2: write(first_xref_end - endpos, ' ') — QIntC::to_size throws when negative; then the
   logic_error test. room = what pass 1 reserved: its uncompressed size + calculateXrefStreamPadding *)
Definition xref_pass2_padding (pass1_size pass2_size : N) : option N :=
  let reserved := pass1_size + xref_stream_padding pass1_size in
  if reserved <? pass2_size then None else Some (reserved - pass2_size).

(* hint-table locations: offsets after the hint stream move by its length *)
Definition lh_pass2_offset (hint_offset hint_length off : N) (is_hint : bool) : N :=
  if negb is_hint && (hint_offset <=? off) then off + hint_length else off.

(* /T for the two kinds of main cross-reference section, as written:
   table: getCount() after "xref\n0 <n>"; stream: xref_offset - 1 *)
Definition lin_T_table (xref_kw_offset : N) (count_digits : N) : N := xref_kw_offset + 5 + 2 + count_digits.
Definition lin_T_stream (xref_obj_offset : N) : N := xref_obj_offset - 1.
