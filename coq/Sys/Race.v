(* C20 - threads: footprints, no_conflict, schedule independence.
   An execution is the list of (document, operation) events in the order a scheduler produced them.  Thread d is
   the sub-list of events of document d.  For the model of the code as it is ([sh = false], fresh nulls):
     * locality: what an operation of document a does, and what it returns, depends on document a's view only;
     * frame   : it changes document a's view only (C20Proofs.step_ok);
   hence for EVERY schedule each document ends in the state it reaches when its thread runs alone, every call
   returns what it returns alone, and two threads never write (or read-and-write) one cell. *)
From QV Require Import Base.Bytes Sys.Heap Sys.C20Proofs.
Local Open Scope N_scope.

(* ------------------------------------------------------------------ reads through equal views *)
Lemma view_cqpdf b w w' l : view_eq b w w' -> in_a b l -> cqpdf w' l = cqpdf w l.
Proof. intros V I. unfold cqpdf. rewrite (view_hget b w w' l V I). reflexivity. Qed.

Lemma view_target b w w' l : view_eq b w w' -> in_a b l -> target w' l = target w l.
Proof. intros V I. unfold target. rewrite (view_cval b w w' l V I). reflexivity. Qed.

Lemma view_arr_size b w w' l : view_eq b w w' -> in_a b l -> arr_size w' l = arr_size w l.
Proof. intros V I. unfold arr_size. rewrite (view_cval b w w' l V I). reflexivity. Qed.

Lemma view_tcval b w w' l : view_eq b w w' -> wf w -> in_a b l -> cval w' (target w' l) = cval w (target w l).
Proof.
  intros V W I. rewrite (view_target b w w' l V I). apply (view_cval b); auto. apply target_in; auto.
Qed.

Lemma view_is_arr b w w' l : view_eq b w w' -> wf w -> in_a b l -> is_arr_h w' l = is_arr_h w l.
Proof. intros V W I. unfold is_arr_h. rewrite (view_tcval b w w' l V W I). reflexivity. Qed.

Lemma view_is_dict b w w' l : view_eq b w w' -> wf w -> in_a b l -> is_dict_h w' l = is_dict_h w l.
Proof. intros V W I. unfold is_dict_h. rewrite (view_tcval b w w' l V W I). reflexivity. Qed.

Lemma view_dv_get a w w' : view_eq a w w' -> dv_get w' a = dv_get w a.
Proof. intros V. exact V. Qed.

Lemma view_alive a w w' : view_eq a w w' -> alive w' a = alive w a.
Proof. intros V. unfold alive. rewrite (view_dv_get a w w' V). reflexivity. Qed.

Lemma view_objcount a w w' : view_eq a w w' -> objcount w' a = objcount w a.
Proof. intros V. unfold objcount. rewrite (view_dv_get a w w' V). reflexivity. Qed.

(* ------------------------------------------------------------------ writes preserve equal views *)
Lemma set_dv_view a w w' dv : view_eq a w w' -> view_eq a (set_dv w a dv) (set_dv w' a dv).
Proof.
  intros V. unfold view_eq in *. simpl.
  destruct (nth_error (w_docs w) a) eqn:E.
  - rewrite !nth_error_set_nth_eq; auto; apply nth_error_Some; congruence.
  - rewrite !nth_error_set_nth_out; [congruence| |]; apply nth_error_None; congruence.
Qed.

Lemma hset_view a w w' l c : view_eq a w w' -> in_a a l -> view_eq a (hset w l c) (hset w' l c).
Proof.
  intros V I. destruct l as [i|d i]; simpl in *; [contradiction|]. subst d.
  assert (V' := V). unfold view_eq in V'. rewrite V'.
  destruct (nth_error (w_docs w) a); [|exact V]. apply set_dv_view. exact V.
Qed.

Lemma set_val_view a w w' l v : view_eq a w w' -> in_a a l -> view_eq a (set_val w l v) (set_val w' l v).
Proof.
  intros V I. unfold set_val. rewrite (view_hget a w w' l V I). destruct (hget w l); [|exact V]. apply hset_view; auto.
Qed.

Lemma set_cache_view a w w' id l : view_eq a w w' -> view_eq a (set_cache w a id l) (set_cache w' a id l).
Proof.
  intros V. unfold set_cache. rewrite (view_dv_get a w w' V). destruct (dv_get w a); [|exact V]. apply set_dv_view. exact V.
Qed.

Lemma set_root_view a w w' r l : view_eq a w w' -> view_eq a (set_root w a r l) (set_root w' a r l).
Proof.
  intros V. unfold set_root. rewrite (view_dv_get a w w' V). destruct (dv_get w a); [|exact V]. apply set_dv_view. exact V.
Qed.

Lemma halloc_view' a w w' c w1 l w1' l' :
  view_eq a w w' -> halloc w a c = (w1, l) -> halloc w' a c = (w1', l') -> l' = l /\ view_eq a w1 w1'.
Proof.
  intros V E E'. destruct (halloc_view a w w' c V) as [V1 El]. rewrite E, E' in *. simpl in *. auto.
Qed.

(* ------------------------------------------------------------------ two runs from equal views: results *)
Definition res2 (a : nat) (r r' : option (world * iloc)) : Prop :=
  match r, r' with
  | Some (w1, l1), Some (w1', l1') => l1' = l1 /\ view_eq a w1 w1'
  | None, None => True
  | _, _ => False
  end.

Lemma res2_alloc a w w' c : view_eq a w w' -> res2 a (Some (halloc w a c)) (Some (halloc w' a c)).
Proof.
  intros V. destruct (halloc w a c) as [w1 l] eqn:E. destruct (halloc w' a c) as [w1' l'] eqn:E'.
  exact (halloc_view' a w w' c _ _ _ _ V E E').
Qed.

Lemma nav1_view a w w' l s : view_eq a w w' -> wf w -> in_a a l -> res2 a (nav1 false a w l s) (nav1 false a w' l s).
Proof.
  intros V W I. unfold nav1.
  rewrite (view_arr_size a w w' l V I), (view_tcval a w w' l V W I), (view_cqpdf a w w' l V I).
  destruct s as [n|n|k].
  - destruct (negb (Nat.ltb n (arr_size w l))); [exact Logic.I|].
    destruct (cval w (target w l)); try exact Logic.I.
    + destruct (nth_error els n); simpl; auto.
    + destruct (Nat.ltb n size); [|exact Logic.I]. destruct (imap_get els n); simpl; auto. apply res2_alloc; auto.
  - destruct (negb (Nat.ltb n (arr_size w l))); [exact Logic.I|].
    destruct (cval w (target w l)); try exact Logic.I.
    + destruct (nth_error els n); simpl; auto.
    + destruct (Nat.ltb n size); [|exact Logic.I]. destruct (imap_get els n); simpl; auto. apply res2_alloc; auto.
  - destruct (cval w (target w l)); try exact Logic.I.
    destruct (nmap_get items k); simpl; auto. apply res2_alloc; auto.
Qed.

Lemma nav_view a p : forall w w' l, view_eq a w w' -> wf w -> wf w' -> in_a a l -> res2 a (nav false a w l p) (nav false a w' l p).
Proof.
  induction p as [|s p IH]; intros w w' l V W W' I; simpl; [auto|].
  pose proof (nav1_view a w w' l s V W I) as H. unfold res2 in H.
  destruct (nav1 false a w l s) as [[w1 l1]|] eqn:E; destruct (nav1 false a w' l s) as [[w1' l1']|] eqn:E'; try contradiction; auto.
  destruct H as [-> V1].
  destruct (nav1_ok _ _ _ _ _ _ W I E) as [O1 I1]. destruct (nav1_ok _ _ _ _ _ _ W' I E') as [O1' _].
  apply IH; auto; eapply ok_wf; eauto.
Qed.

Lemma eval_head_view a w w' h : view_eq a w w' -> res2 a (eval_head a w h) (eval_head a w' h).
Proof.
  intros V. unfold eval_head. rewrite (view_dv_get a w w' V).
  destruct h; try (apply res2_alloc; auto).
  - destruct (dv_get w a); [|exact Logic.I]. destruct (imap_get (dv_roots d) r); simpl; auto.
  - destruct (dv_get w a); [|exact Logic.I].
    destruct (dv_alive d && (3 <=? id) && (id <=? cache_max (dv_cache d))); [|exact Logic.I].
    destruct (nmap_get (dv_cache d) id); simpl; auto. apply res2_alloc; auto.
Qed.

Lemma eval_hx_view a w w' e : view_eq a w w' -> wf w -> wf w' -> res2 a (eval_hx false a w e) (eval_hx false a w' e).
Proof.
  intros V W W'. unfold eval_hx. rewrite (view_dv_get a w w' V). destruct (dv_get w a); [|exact Logic.I].
  pose proof (eval_head_view a w w' (fst e) V) as H. unfold res2 in H.
  destruct (eval_head a w (fst e)) as [[w1 l1]|] eqn:E; destruct (eval_head a w' (fst e)) as [[w1' l1']|] eqn:E'; try contradiction; auto.
  destruct H as [-> V1].
  destruct (eval_head_ok _ _ _ _ _ W E) as [O1 I1]. destruct (eval_head_ok _ _ _ _ _ W' E') as [O1' _].
  apply nav_view; auto; eapply ok_wf; eauto.
Qed.

Lemma eval_vx_view a w w' e : view_eq a w w' -> wf w -> wf w' -> res2 a (eval_vx false a w e) (eval_vx false a w' e).
Proof.
  intros V W W'. unfold eval_vx.
  pose proof (eval_hx_view a w w' e V W W') as H. unfold res2 in H.
  destruct (eval_hx false a w e) as [[w1 l1]|] eqn:E; destruct (eval_hx false a w' e) as [[w1' l1']|] eqn:E'; try contradiction; auto.
  destruct H as [-> V1].
  destruct (eval_hx_ok _ _ _ _ _ W E) as [O1 I1].
  pose proof (ok_wf _ _ _ O1 W) as W1.
  rewrite (view_is_arr a w1 w1' l1 V1 W1 I1), (view_is_dict a w1 w1' l1 V1 W1 I1), (view_cog a w1 w1' l1 V1 I1).
  destruct (fst e); simpl; auto; destruct ((is_arr_h w1 l1 || is_dict_h w1 l1) && (cog w1 l1 =? 0)); simpl; auto.
Qed.

Lemma obj_for_parser_view a w w' id : view_eq a w w' ->
  snd (obj_for_parser w' a id) = snd (obj_for_parser w a id) /\
  view_eq a (fst (obj_for_parser w a id)) (fst (obj_for_parser w' a id)).
Proof.
  intros V. unfold obj_for_parser. rewrite (view_dv_get a w w' V). destruct (dv_get w a); [|simpl; auto].
  destruct (nmap_get (dv_cache d) id); [simpl; auto|].
  destruct (halloc w a (mkCell HNull (Some a) id)) as [w1 l] eqn:E.
  destruct (halloc w' a (mkCell HNull (Some a) id)) as [w1' l'] eqn:E'.
  destruct (halloc_view' a w w' _ _ _ _ _ V E E') as [-> V1]. simpl. split; [reflexivity|].
  apply set_cache_view. exact V1.
Qed.

(* the parser, any context *)
Lemma parse_toks_view2 ctx a toks : forall w w' stack,
  view_eq a w w' -> wf w -> wf w' -> Forall (frame_in a) stack ->
  res2 a (parse_toks false ctx a w stack toks) (parse_toks false ctx a w' stack toks).
Proof.
  induction toks as [|t rest IH]; intros w w' stack V W W' S; simpl; [exact Logic.I|].
  assert (Hscalar : forall v, kids v = [] ->
     res2 a
       match stack with
       | [] => None
       | f :: st => let (w1, l) := halloc w a (mkCell v ctx 0) in
                    match frame_add f l with Some f' => parse_toks false ctx a w1 (f' :: st) rest | None => None end
       end
       match stack with
       | [] => None
       | f :: st => let (w1, l) := halloc w' a (mkCell v ctx 0) in
                    match frame_add f l with Some f' => parse_toks false ctx a w1 (f' :: st) rest | None => None end
       end).
  { intros v Hv. destruct stack as [|f st]; [exact Logic.I|].
    destruct (halloc w a (mkCell v ctx 0)) as [w2 l2] eqn:Ea.
    destruct (halloc w' a (mkCell v ctx 0)) as [w2' l2'] eqn:Ea'.
    destruct (halloc_view' a w w' _ _ _ _ _ V Ea Ea') as [-> V2].
    destruct (halloc_ok' a w _ _ _ (closed_nokids a v _ _ Hv) Ea) as [O2 I2].
    destruct (halloc_ok' a w' _ _ _ (closed_nokids a v _ _ Hv) Ea') as [O2' _].
    destruct (frame_add f l2) as [f'|] eqn:Ef; [|exact Logic.I].
    inversion S as [|? ? Hf Hst]; subst.
    apply IH; [exact V2|eapply ok_wf; eauto|eapply ok_wf; eauto|constructor; auto; eapply frame_add_in; eauto]. }
  destruct t.
  - destruct stack as [|f st]; [exact Logic.I|]. unfold parsed_null.
    destruct (halloc w a null_cell) as [w2 l2] eqn:Ea.
    destruct (halloc w' a null_cell) as [w2' l2'] eqn:Ea'.
    destruct (halloc_view' a w w' _ _ _ _ _ V Ea Ea') as [-> V2].
    destruct (halloc_ok' a w _ _ _ (closed_nokids a HNull _ _ eq_refl) Ea) as [O2 I2].
    destruct (halloc_ok' a w' _ _ _ (closed_nokids a HNull _ _ eq_refl) Ea') as [O2' _].
    destruct (frame_add f l2) as [f'|] eqn:Ef; [|exact Logic.I].
    inversion S as [|? ? Hf Hst]; subst.
    apply IH; [exact V2|eapply ok_wf; eauto|eapply ok_wf; eauto|
               constructor; auto; apply frame_null_in; eapply frame_add_in; eauto].
  - apply (Hscalar (HBool b)); auto.
  - apply (Hscalar (HInt z)); auto.
  - destruct stack as [|f st]; [exact Logic.I|].
    destruct (f_kind f) eqn:Ek; try (apply (Hscalar (HName k)); auto; fail).
    inversion S as [|? ? Hf Hst]; subst.
    apply IH; [exact V|exact W|exact W'|constructor; auto; destruct Hf; split; auto].
  - destruct ctx; [|exact Logic.I]. destruct stack as [|f st]; [exact Logic.I|].
    destruct (obj_for_parser_view a w w' id V) as [El V2].
    destruct (obj_for_parser w a id) as [w2 l2] eqn:Eo. destruct (obj_for_parser w' a id) as [w2' l2'] eqn:Eo'.
    simpl in El, V2. subst l2'.
    destruct (obj_for_parser_ok _ _ _ _ _ W Eo) as [O2 I2]. destruct (obj_for_parser_ok _ _ _ _ _ W' Eo') as [O2' _].
    destruct (frame_add f l2) as [f'|] eqn:Ef; [|exact Logic.I].
    inversion S as [|? ? Hf Hst]; subst.
    apply IH; [exact V2|eapply ok_wf; eauto|eapply ok_wf; eauto|constructor; auto; eapply frame_add_in; eauto].
  - apply IH; [exact V|exact W|exact W'|constructor; auto; split; constructor].
  - destruct stack as [|f st]; [exact Logic.I|]. destruct (f_kind f); try exact Logic.I.
    inversion S as [|? ? [Ho Hd] S']; subst.
    assert (Hels : Forall (in_a a) (rev' (f_olist f))).
    { rewrite rev'_rev. apply Forall_rev. auto. }
    rewrite (sparse_of_view a w w' _ _ V Hels).
    match goal with |- context [halloc w a (mkCell ?v ctx 0)] => set (v0 := v) in * end.
    assert (Hv : Forall (in_a a) (kids v0)).
    { unfold v0. destruct (Nat.ltb 100 (f_nulls f)); simpl; auto. apply sparse_of_in. auto. }
    destruct (halloc w a (mkCell v0 ctx 0)) as [w2 l2] eqn:Ea.
    destruct (halloc w' a (mkCell v0 ctx 0)) as [w2' l2'] eqn:Ea'.
    destruct (halloc_view' a w w' _ _ _ _ _ V Ea Ea') as [-> V2].
    destruct (halloc_ok' a w (mkCell v0 ctx 0) _ _ Hv Ea) as [O2 I2].
    destruct (halloc_ok' a w' (mkCell v0 ctx 0) _ _ Hv Ea') as [O2' _].
    destruct st as [|f2 st2]; [simpl; auto|].
    destruct (frame_add f2 l2) as [f'|] eqn:Ef; [|exact Logic.I].
    inversion S' as [|? ? Hf Hst]; subst.
    apply IH; [exact V2|eapply ok_wf; eauto|eapply ok_wf; eauto|constructor; auto; eapply frame_add_in; eauto].
  - apply IH; [exact V|exact W|exact W'|constructor; auto; split; constructor].
  - destruct stack as [|f st]; [exact Logic.I|]. destruct (f_kind f); try exact Logic.I.
    inversion S as [|? ? [Ho Hd] S']; subst.
    assert (Hv : closed_cell a (mkCell (HDict (f_dict f)) ctx 0)).
    { unfold closed_cell. simpl. apply Forall_map_snd. auto. }
    destruct (halloc w a (mkCell (HDict (f_dict f)) ctx 0)) as [w2 l2] eqn:Ea.
    destruct (halloc w' a (mkCell (HDict (f_dict f)) ctx 0)) as [w2' l2'] eqn:Ea'.
    destruct (halloc_view' a w w' _ _ _ _ _ V Ea Ea') as [-> V2].
    destruct (halloc_ok' a w _ _ _ Hv Ea) as [O2 I2].
    destruct (halloc_ok' a w' _ _ _ Hv Ea') as [O2' _].
    destruct st as [|f2 st2]; [simpl; auto|].
    destruct (frame_add f2 l2) as [f'|] eqn:Ef; [|exact Logic.I].
    inversion S' as [|? ? Hf Hst]; subst.
    apply IH; [exact V2|eapply ok_wf; eauto|eapply ok_wf; eauto|constructor; auto; eapply frame_add_in; eauto].
Qed.

Lemma parse_obj_view ctx a w w' toks : view_eq a w w' -> wf w -> wf w' ->
  res2 a (parse_obj false ctx a w toks) (parse_obj false ctx a w' toks).
Proof.
  intros V W W'. unfold parse_obj. destruct toks as [|t r]; [exact Logic.I|].
  destruct t; try exact Logic.I; apply parse_toks_view2; auto.
Qed.

(* ------------------------------------------------------------------ ~QPDF *)
Lemma fold_view {A} a (f : world -> A -> world) (l : list A) (P : A -> Prop) :
  (forall w x, P x -> wf w -> ok a w (f w x)) ->
  (forall w w' x, P x -> view_eq a w w' -> wf w -> wf w' -> view_eq a (f w x) (f w' x)) ->
  Forall P l -> forall w w', view_eq a w w' -> wf w -> wf w' -> view_eq a (fold_left f l w) (fold_left f l w').
Proof.
  intros Hok Hv Hl. induction Hl; intros w w' V W W'; simpl; [exact V|].
  apply IHHl; [apply Hv; auto| |]; eapply ok_wf; eauto.
Qed.

Lemma disconnect_view a fuel : forall od w w' l, view_eq a w w' -> wf w -> wf w' -> in_a a l ->
  view_eq a (disconnect fuel od w l) (disconnect fuel od w' l).
Proof.
  induction fuel as [|f IH]; intros od w w' l V W W' I; simpl; [exact V|].
  rewrite (view_hget a w w' l V I).
  destruct (hget w l) as [c|] eqn:E; [|exact V].
  destruct (od && negb (c_og c =? 0)); [exact V|].
  pose proof (hget_closed a w l c W I E) as K. unfold closed_cell in K.
  match goal with |- view_eq a (match hget ?w1 l with _ => _ end) (match hget ?w1' l with _ => _ end) =>
    set (wm := w1); set (wm' := w1') end.
  assert (H : view_eq a wm wm' /\ ok a w wm /\ ok a w' wm').
  { unfold wm, wm'. destruct (c_val c) eqn:Ev; try (split; [exact V|split; apply ok_refl]); simpl in K.
    - split; [|split].
      + apply (fold_view a (fun wa e => disconnect f true wa e) els (in_a a)); auto. intros. apply disconnect_ok; auto.
      + apply (fold_ok a (fun wa e => disconnect f true wa e) els (in_a a)); auto. intros. apply disconnect_ok; auto.
      + apply (fold_ok a (fun wa e => disconnect f true wa e) els (in_a a)); auto. intros. apply disconnect_ok; auto.
    - assert (K' : Forall (fun e : nat * iloc => in_a a (snd e)) els) by (apply Forall_map_snd; auto).
      split; [|split].
      + apply (fold_view a (fun wa e => disconnect f true wa (snd e)) els (fun e => in_a a (snd e))); auto.
        intros. apply disconnect_ok; auto.
      + apply (fold_ok a (fun wa e => disconnect f true wa (snd e)) els (fun e => in_a a (snd e))); auto.
        intros. apply disconnect_ok; auto.
      + apply (fold_ok a (fun wa e => disconnect f true wa (snd e)) els (fun e => in_a a (snd e))); auto.
        intros. apply disconnect_ok; auto.
    - assert (K' : Forall (fun e : N * iloc => in_a a (snd e)) items) by (apply Forall_map_snd; auto).
      split; [|split].
      + apply (fold_view a (fun wa e => disconnect f true wa (snd e)) items (fun e => in_a a (snd e))); auto.
        intros. apply disconnect_ok; auto.
      + apply (fold_ok a (fun wa e => disconnect f true wa (snd e)) items (fun e => in_a a (snd e))); auto.
        intros. apply disconnect_ok; auto.
      + apply (fold_ok a (fun wa e => disconnect f true wa (snd e)) items (fun e => in_a a (snd e))); auto.
        intros. apply disconnect_ok; auto. }
  destruct H as (Vm & Om & Om').
  rewrite (view_hget a wm wm' l Vm I). destruct (hget wm l); [|exact Vm]. apply hset_view; auto.
Qed.

Lemma destroy_entry_view a w w' l : view_eq a w w' -> wf w -> wf w' -> in_a a l ->
  view_eq a (destroy_entry w l) (destroy_entry w' l).
Proof.
  intros V W W' I. unfold destroy_entry.
  pose proof (disconnect_view a disc_fuel false w w' l V W W' I) as V1.
  rewrite (view_cval a _ _ l V1 I).
  destruct (cval (disconnect disc_fuel false w l) l); auto; apply set_val_view; auto.
Qed.

Lemma existsb_ext_Forall {A} (P : A -> Prop) (f g : A -> bool) l :
  Forall P l -> (forall x, P x -> f x = g x) -> existsb f l = existsb g l.
Proof. intros H E. induction H; simpl; auto. rewrite E, IHForall; auto. Qed.

(* ------------------------------------------------------------------ locality of every operation but NewDoc *)
Definition not_newdoc (op : iop) : Prop := match op with OpNewDoc => False | _ => True end.

Ltac two_runs H E E' w1 l1 w1' l1' :=
  unfold res2 in H;
  match type of H with
  | match ?x with _ => _ end => destruct x as [[w1 l1]|] eqn:E
  end;
  match type of H with
  | match ?y with _ => _ end => destruct y as [[w1' l1']|] eqn:E'
  end; try contradiction.

Lemma step_local a w w' op : not_newdoc op -> view_eq a w w' -> wf w -> wf w' ->
  view_eq a (fst (step false a w op)) (fst (step false a w' op)) /\ snd (step false a w' op) = snd (step false a w op).
Proof.
  intros Nn V W W'. destruct op; simpl in Nn; try contradiction; simpl.
  - (* OpParse *)
    rewrite (view_alive a w w' V). destruct (alive w a && root_ok a r); simpl; [|auto].
    pose proof (parse_obj_view (Some a) a w w' toks V W W') as H. two_runs H E E' w1 l1 w1' l1'; simpl; auto.
    destruct H as [-> V1]. split; [|reflexivity]. apply set_root_view. exact V1.
  - (* OpHold *)
    destruct (root_ok a r); simpl; [|auto].
    pose proof (eval_hx_view a w w' h V W W') as H. two_runs H E E' w1 l1 w1' l1'; simpl; auto.
    destruct H as [-> V1]. split; [|reflexivity]. apply set_root_view. exact V1.
  - (* OpMakeInd *)
    rewrite (view_alive a w w' V). destruct (alive w a); simpl; [|auto].
    pose proof (eval_hx_view a w w' h V W W') as H. two_runs H E E' w1 l1 w1' l1'; simpl; auto.
    destruct H as [-> V1]. split; [|reflexivity].
    destruct (eval_hx_ok _ _ _ _ _ W E) as [O1 I1].
    rewrite (view_objcount a w1 w1' V1).
    pose proof (set_cache_view a w1 w1' (objcount w1 a + 1) l1 V1) as V2.
    rewrite (view_hget a _ _ l1 V2 I1).
    destruct (hget (set_cache w1 a (objcount w1 a + 1) l1) l1); [|exact V2]. apply hset_view; auto.
  - (* OpReplaceKey *)
    pose proof (eval_hx_view a w w' h V W W') as H. two_runs H E E' w1 lh w1' lh'; simpl; auto.
    destruct H as [-> V1].
    destruct (eval_hx_ok _ _ _ _ _ W E) as [O1 I1]. destruct (eval_hx_ok _ _ _ _ _ W' E') as [O1' _].
    pose proof (ok_wf _ _ _ O1 W) as W1. pose proof (ok_wf _ _ _ O1' W') as W1'.
    rewrite (view_is_dict a w1 w1' lh V1 W1 I1). destruct (is_dict_h w1 lh); simpl; [|auto].
    pose proof (eval_vx_view a w1 w1' v V1 W1 W1') as H. two_runs H Ev Ev' w2 lv w2' lv'; simpl; auto.
    destruct H as [-> V2].
    destruct (eval_vx_ok _ _ _ _ _ W1 Ev) as [O2 I2].
    pose proof (ok_wf _ _ _ O2 W1) as W2.
    unfold own_clash. rewrite (view_cqpdf a w2 w2' lh V2 I1), (view_cqpdf a w2 w2' lv V2 I2).
    match goal with |- context [if ?c then _ else _] => destruct c end; simpl; [auto|].
    rewrite (view_tcval a w2 w2' lh V2 W2 I1), (view_target a w2 w2' lh V2 I1).
    pose proof (target_in a w2 lh W2 I1) as T.
    destruct (cval w2 (target w2 lh)); simpl; auto.
    rewrite (view_is_null a w2 w2' lv V2 W2 I2), (view_cog a w2 w2' lv V2 I2).
    destruct (is_null_h w2 lv && (cog w2 lv =? 0)); simpl; split; auto; apply set_val_view; auto.
  - (* OpRemoveKey *)
    pose proof (eval_hx_view a w w' h V W W') as H. two_runs H E E' w1 lh w1' lh'; simpl; auto.
    destruct H as [-> V1].
    destruct (eval_hx_ok _ _ _ _ _ W E) as [O1 I1].
    pose proof (ok_wf _ _ _ O1 W) as W1.
    rewrite (view_is_dict a w1 w1' lh V1 W1 I1). destruct (is_dict_h w1 lh); simpl; [|auto].
    rewrite (view_tcval a w1 w1' lh V1 W1 I1), (view_target a w1 w1' lh V1 I1).
    pose proof (target_in a w1 lh W1 I1) as T.
    destruct (cval w1 (target w1 lh)); simpl; auto. split; auto; apply set_val_view; auto.
  - (* OpAppend *)
    pose proof (eval_hx_view a w w' h V W W') as H. two_runs H E E' w1 lh w1' lh'; simpl; auto.
    destruct H as [-> V1].
    destruct (eval_hx_ok _ _ _ _ _ W E) as [O1 I1]. destruct (eval_hx_ok _ _ _ _ _ W' E') as [O1' _].
    pose proof (ok_wf _ _ _ O1 W) as W1. pose proof (ok_wf _ _ _ O1' W') as W1'.
    rewrite (view_is_arr a w1 w1' lh V1 W1 I1). destruct (is_arr_h w1 lh); simpl; [|auto].
    pose proof (eval_vx_view a w1 w1' v V1 W1 W1') as H. two_runs H Ev Ev' w2 lv w2' lv'; simpl; auto.
    destruct H as [-> V2].
    destruct (eval_vx_ok _ _ _ _ _ W1 Ev) as [O2 I2].
    pose proof (ok_wf _ _ _ O2 W1) as W2.
    unfold own_clash. rewrite (view_cqpdf a w2 w2' lh V2 I1), (view_cqpdf a w2 w2' lv V2 I2).
    match goal with |- context [if ?c then _ else _] => destruct c end; simpl; [auto|].
    rewrite (view_tcval a w2 w2' lh V2 W2 I1), (view_target a w2 w2' lh V2 I1).
    pose proof (target_in a w2 lh W2 I1) as T.
    destruct (cval w2 (target w2 lh)); simpl; auto; split; auto; apply set_val_view; auto.
  - (* OpSetItem *)
    pose proof (eval_hx_view a w w' h V W W') as H. two_runs H E E' w1 lh w1' lh'; simpl; auto.
    destruct H as [-> V1].
    destruct (eval_hx_ok _ _ _ _ _ W E) as [O1 I1]. destruct (eval_hx_ok _ _ _ _ _ W' E') as [O1' _].
    pose proof (ok_wf _ _ _ O1 W) as W1. pose proof (ok_wf _ _ _ O1' W') as W1'.
    rewrite (view_is_arr a w1 w1' lh V1 W1 I1), (view_arr_size a w1 w1' lh V1 I1).
    destruct (is_arr_h w1 lh && Nat.ltb n (arr_size w1 lh)); simpl; [|auto].
    pose proof (eval_vx_view a w1 w1' v V1 W1 W1') as H. two_runs H Ev Ev' w2 lv w2' lv'; simpl; auto.
    destruct H as [-> V2].
    destruct (eval_vx_ok _ _ _ _ _ W1 Ev) as [O2 I2].
    pose proof (ok_wf _ _ _ O2 W1) as W2.
    unfold own_clash. rewrite (view_cqpdf a w2 w2' lh V2 I1), (view_cqpdf a w2 w2' lv V2 I2).
    match goal with |- context [if ?c then _ else _] => destruct c end; simpl; [auto|].
    rewrite (view_tcval a w2 w2' lh V2 W2 I1), (view_target a w2 w2' lh V2 I1).
    pose proof (target_in a w2 lh W2 I1) as T.
    destruct (cval w2 (target w2 lh)); simpl; auto; split; auto; apply set_val_view; auto.
  - (* OpErase *)
    pose proof (eval_hx_view a w w' h V W W') as H. two_runs H E E' w1 lh w1' lh'; simpl; auto.
    destruct H as [-> V1].
    destruct (eval_hx_ok _ _ _ _ _ W E) as [O1 I1].
    pose proof (ok_wf _ _ _ O1 W) as W1.
    rewrite (view_is_arr a w1 w1' lh V1 W1 I1), (view_arr_size a w1 w1' lh V1 I1).
    destruct (is_arr_h w1 lh && Nat.ltb n (arr_size w1 lh)); simpl; [|auto].
    rewrite (view_tcval a w1 w1' lh V1 W1 I1), (view_target a w1 w1' lh V1 I1).
    pose proof (target_in a w1 lh W1 I1) as T.
    destruct (cval w1 (target w1 lh)); simpl; auto; split; auto; apply set_val_view; auto.
  - (* OpReplaceObj *)
    rewrite (view_alive a w w' V), (view_objcount a w w' V).
    destruct (alive w a && (3 <=? id) && (id <=? objcount w a)); simpl; [|auto].
    pose proof (eval_hx_view a w w' v V W W') as H. two_runs H E E' w1 lv w1' lv'; simpl; auto.
    destruct H as [-> V1].
    destruct (eval_hx_ok _ _ _ _ _ W E) as [O1 I1]. destruct (eval_hx_ok _ _ _ _ _ W' E') as [O1' _].
    pose proof (ok_wf _ _ _ O1 W) as W1. pose proof (ok_wf _ _ _ O1' W') as W1'.
    rewrite (view_cog a w1 w1' lv V1 I1). destruct (negb (cog w1 lv =? 0)); simpl; [auto|].
    rewrite (view_hget a w1 w1' lv V1 I1).
    match goal with |- view_eq a (fst (match dv_get ?x a with _ => _ end)) (fst (match dv_get ?y a with _ => _ end)) /\ _ =>
      set (wm := x); set (wm' := y) end.
    assert (Vm : view_eq a wm wm').
    { unfold wm, wm'. destruct (hget w1 lv); [|exact V1]. apply hset_view; auto. }
    assert (Wm : wf wm).
    { unfold wm. destruct (hget w1 lv) as [c|] eqn:Ec; [|exact W1].
      exact (ok_wf _ _ _ (hset_ok a w1 lv (mkCell (c_val c) (Some a) id) I1 (hget_closed a w1 lv c W1 I1 Ec)) W1). }
    rewrite (view_dv_get a wm wm' Vm).
    destruct (dv_get wm a) as [dv|] eqn:Ed; simpl; [|auto].
    destruct (nmap_get (dv_cache dv) id) as [lc|] eqn:Eg; simpl.
    + assert (Ic : in_a a lc).
      { destruct (Wm _ _ Ed) as (_ & H2 & _). apply nmap_get_in in Eg. rewrite Forall_forall in H2. apply (H2 _ Eg). }
      rewrite (view_cval a wm wm' lv Vm I1). split; auto.
      apply set_val_view; auto. apply hset_view; auto.
    + split; auto. apply set_cache_view. exact Vm.
  - (* OpDestroy *)
    rewrite (view_dv_get a w w' V). destruct (dv_get w a) as [dv|] eqn:Ed; simpl; [|auto].
    destruct (dv_alive dv); simpl; [|auto].
    match goal with |- view_eq a (fst (match dv_get ?x a with _ => _ end)) (fst (match dv_get ?y a with _ => _ end)) /\ _ =>
      set (wm := x); set (wm' := y) end.
    assert (Hc : Forall (fun e : N * iloc => in_a a (snd e)) (dv_cache dv)).
    { destruct (W _ _ Ed) as (_ & H2 & _). exact H2. }
    assert (Vm : view_eq a wm wm').
    { unfold wm, wm'. apply (fold_view a (fun wa e => destroy_entry wa (snd e)) (dv_cache dv) (fun e => in_a a (snd e))); auto.
      - intros. apply destroy_entry_ok; auto.
      - intros. apply destroy_entry_view; auto. }
    rewrite (view_dv_get a wm wm' Vm). destruct (dv_get wm a); simpl; [|auto].
    split; auto. apply set_dv_view. exact Vm.
  - (* OpObserve *)
    rewrite (view_alive a w w' V). destruct (alive w a); simpl; auto.
  - (* OpJson *)
    rewrite (view_dv_get a w w' V). destruct (dv_get w a) as [dv|] eqn:Ed; simpl; [|auto].
    destruct (dv_alive dv); simpl; [|auto].
    assert (Hc : Forall (fun e : N * iloc => in_a a (snd e)) (dv_cache dv)).
    { destruct (W _ _ Ed) as (_ & H2 & _). exact H2. }
    match goal with |- view_eq a (fold_left ?f0 _ w) _ /\ _ => set (f := f0) end.
    assert (Fok : forall w0 x, in_a a (snd x) -> wf w0 -> ok a w0 (f w0 x)).
    { intros w0 x Hx W0. unfold f. destruct (hget w0 (snd x)) as [c|] eqn:Ec; [|apply ok_refl].
      apply hset_ok; auto. apply (hget_closed a w0 _ c W0 Hx Ec). }
    assert (V1 : view_eq a (fold_left f (dv_cache dv) w) (fold_left f (dv_cache dv) w')).
    { apply (fold_view a f (dv_cache dv) (fun e => in_a a (snd e))); auto.
      intros w0 w0' x Hx V0 W0 W0'. unfold f. rewrite (view_hget a w0 w0' _ V0 Hx).
      destruct (hget w0 (snd x)); [|exact V0]. apply hset_view; auto. }
    assert (W1 : wf (fold_left f (dv_cache dv) w)).
    { eapply ok_wf; [|exact W]. apply (fold_ok a f (dv_cache dv) (fun e => in_a a (snd e))); auto. }
    split; [exact V1|].
    assert (E : json_unwritable (fold_left f (dv_cache dv) w') (dv_cache dv) =
                json_unwritable (fold_left f (dv_cache dv) w) (dv_cache dv)).
    { unfold json_unwritable. apply (existsb_ext_Forall (fun e : N * iloc => in_a a (snd e))); auto.
      intros x Hx. rewrite (unparse_res_view a _ _ V1 W1 _ _ Hx). reflexivity. }
    rewrite E. reflexivity.
Qed.

(* ================================================================== executions *)
Definition event := (nat * iop)%type.
Definition run_events (sh : bool) (w : world) (evs : list event) : world :=
  fold_left (fun wa e => fst (step sh (fst e) wa (snd e))) evs w.
Fixpoint results (sh : bool) (w : world) (evs : list event) : list ires :=
  match evs with
  | [] => []
  | e :: t => snd (step sh (fst e) w (snd e)) :: results sh (fst (step sh (fst e) w (snd e))) t
  end.
(* thread d = the events of document d, in program order *)
Definition thread (d : nat) (evs : list event) : list event := filter (fun e => Nat.eqb (fst e) d) evs.
Definition admissible (evs : list event) : Prop := Forall (fun e => not_newdoc (snd e) /\ fst e <> O) evs.

Lemma run_events_wf evs : forall w, wf w -> wf (run_events false w evs).
Proof. induction evs as [|e t IH]; intros w W; simpl; auto. apply IH. apply reachable_disjoint_preserved_lemma. auto. Qed.

(* a thread run from two worlds that agree on its document: same final view, same results *)
Lemma thread_local d evs : forall w w',
  Forall (fun e => fst e = d /\ not_newdoc (snd e)) evs -> view_eq d w w' -> wf w -> wf w' ->
  view_eq d (run_events false w evs) (run_events false w' evs) /\ results false w' evs = results false w evs.
Proof.
  induction evs as [|e t IH]; intros w w' F V W W'; simpl; [auto|].
  inversion F as [|? ? [Hd Hn] Ft]; subst.
  destruct (step_local (fst e) w w' (snd e) Hn V W W') as [V1 R1].
  destruct (IH _ _ Ft V1 (reachable_disjoint_preserved_lemma _ _ _ W) (reachable_disjoint_preserved_lemma _ _ _ W')) as [V2 R2].
  split; [exact V2|]. rewrite R1, R2. reflexivity.
Qed.

Lemma thread_all d evs : Forall (fun e => not_newdoc (snd e) /\ fst e <> O) evs ->
  Forall (fun e => fst e = d /\ not_newdoc (snd e)) (thread d evs).
Proof.
  intros H. unfold thread. induction H as [|e t [Hn _] Ht IH]; simpl; [constructor|].
  destruct (Nat.eqb (fst e) d) eqn:E; auto. constructor; auto. split; auto. apply Nat.eqb_eq. auto.
Qed.

(* the results that the events of document d return inside a schedule *)
Fixpoint results_of (d : nat) (w : world) (evs : list event) : list ires :=
  match evs with
  | [] => []
  | e :: t => let r := step false (fst e) w (snd e) in
              if Nat.eqb (fst e) d then snd r :: results_of d (fst r) t else results_of d (fst r) t
  end.

(* DESIGN section 5, threads_disjoint_footprints (second half), model of the code as it is:
   for EVERY schedule [evs] of the threads' events (each thread uses its own document; the documents exist when the
   threads start, i.e. no event creates one - document numbers are a global sequence in this model), document d
   ends with the view it has when thread d runs alone from the same initial world, and every call of thread d
   returns what it returns alone. *)
Lemma schedule_independent_lemma : forall (evs : list event) (w : world) (d : nat),
  wf w -> admissible evs ->
  nth_error (w_docs (run_events false w evs)) d = nth_error (w_docs (run_events false w (thread d evs))) d /\
  results_of d w evs = results false w (thread d evs).
Proof.
  induction evs as [|e t IH]; intros w d W A; simpl; [auto|].
  inversion A as [|? ? [Hn H0] At]; subst.
  pose proof (reachable_disjoint_preserved_lemma w (fst e) (snd e) W) as W1.
  destruct (Nat.eqb (fst e) d) eqn:E; simpl.
  - destruct (IH _ d W1 At) as [V R]. split; [exact V|]. rewrite R. reflexivity.
  - apply Nat.eqb_neq in E.
    destruct (IH _ d W1 At) as [V R]. rewrite V, R.
    (* the other document's step did not touch document d's view: run thread d from both worlds *)
    destruct (step_ok (fst e) w (snd e) W) as [[_ Ho] _].
    assert (V0 : view_eq d w (fst (step false (fst e) w (snd e)))) by (unfold view_eq; apply Ho; auto).
    destruct (thread_local d (thread d t) _ _ (thread_all d t At) V0 W W1) as [V2 R2].
    split; [exact V2|exact R2].
Qed.

(* first half: no two threads write one cell.  An event of document a changes document a's view only (and no
   static), so the cells written by events of different documents are disjoint - for every prefix of every schedule. *)
Lemma threads_disjoint_footprints_lemma : forall (evs : list event) (w : world) (a : nat) (op : iop) (b : nat),
  wf w -> a <> b ->
  let w1 := run_events false w evs in
  let w2 := fst (step false a w1 op) in
  nth_error (w_docs w2) b = nth_error (w_docs w1) b /\ w_stat w2 = w_stat w1.
Proof.
  intros evs w a op b W Hab. simpl.
  destruct (step_ok a (run_events false w evs) op (run_events_wf evs w W)) as [[Hs Ho] _]. split; auto.
Qed.

(* HISTORICAL (finding D6, tree before fix b456e5d1): with the shared cell ([sh = true]) an event of document 1
   writes a static cell, which every other thread's parses and destructors read and write.  Witness: D6. *)
Lemma shared_null_discipline_writes_static_lemma :
  exists (w : world) (a : nat) (op : iop), a <> O /\ w_stat (fst (step true a w op)) <> w_stat w.
Proof. exists (d6_world true), 1%nat, d6_op. split; [discriminate|]. vm_compute. discriminate. Qed.
