(* C06 proofs, part F: the per-object key cache of QPDF::getKeyForObject. Since fix d9735304 the cache is keyed by the
   object and by use_aes; it is then transparent (key_cache): a sequence of leaves read through it is decrypted exactly
   as each leaf on its own, so the round-trip theorem of part C carries over to sequences with no condition on the
   mixture of RC4 and AES methods. (Before the fix this was refuted: finding F11, a V 4 file whose /StrF and /StmF
   differ in kind.) *)
From QV Require Import Base.Bytes Crypto.Nib Filters.Filters Filters.C15ProofsB.
From QV Require Import Crypto.MD5 Crypto.SHA2Fast Crypto.AES Crypto.AesPdf Crypto.KeyDeriv Crypto.IsoRef Crypto.Perms.
From QV Require Import Crypto.C05Proofs Crypto.CbcProofs Crypto.AesInv Crypto.C05ProofsB Crypto.C05ProofsC.
From QV Require Import Crypto.IsoEnc Crypto.DecReader Crypto.C06ProofsB Crypto.C06ProofsC.
From Coq Require Import Arith.
Local Open Scope N_scope.

Lemma c06_apply_cipher : forall st ua num gen data,
  c06_apply st ua num gen data = c06_cipher ua (kd_compute_data_key (c6t_key st) num gen ua (c6t_V st)) data.
Proof. intros. unfold c06_apply, kd_decrypt_data, c06_cipher. destruct ua; reflexivity. Qed.

Lemma c06_decrypt_leaf_dec : forall st l,
  c06_decrypt_leaf st l =
  match c06_leaf_dec st l with
  | None => C6LeafOk (c6l_data l) false
  | Some (ua, w) => match c06_apply st ua (c6l_num l) (c6l_gen l) (c6l_data l) with
                    | Some r => C6LeafOk r w
                    | None => C6LeafError
                    end
  end.
Proof.
  intros st l. unfold c06_decrypt_leaf, c06_leaf_dec. destruct (c6l_kind l) as [w|s].
  - unfold c06_decrypt_string. destruct (c06_where_decrypts w); [|reflexivity].
    destruct (if 4 <=? c6t_V st then c06_switch (c6t_cf_string st) else Some (false, false)) as [[ua wn]|]; reflexivity.
  - unfold c06_decrypt_stream. destruct (c6d_xref s); [reflexivity|].
    destruct (if 4 <=? c6t_V st then c06_switch (c06_stream_method st s) else Some (false, false)) as [[ua wn]|]; reflexivity.
Qed.

(* a cache is sound when the key it holds is the key of the object and kind it is labelled with (the empty cache, and
   every cache getKeyForObject leaves behind) *)
Definition c06_cache_ok (st : c06_state) (cache : option c06_cache) : Prop :=
  match cache with
  | None => True
  | Some ch => c6c_key ch = kd_compute_data_key (c6t_key st) (c6c_num ch) (c6c_gen ch) (c6c_aes ch) (c6t_V st)
  end.

(* key_cache: the cache of getKeyForObject (keyed by object AND kind of key, fix d9735304) is transparent: from any
   sound cache, a sequence of leaves in any order, of any mixture of RC4 and AES methods, is decrypted exactly as
   each leaf on its own *)
Lemma key_cache_lemma : forall st ls cache,
  c06_cache_ok st cache ->
  c06_decrypt_seq st cache ls = map (c06_decrypt_leaf st) ls.
Proof.
  intros st. induction ls as [|l t IH]; intros cache Hc; [reflexivity|].
  cbn [c06_decrypt_seq map]. rewrite c06_decrypt_leaf_dec.
  destruct (c06_leaf_dec st l) as [[ua w]|] eqn:Ed.
  - rewrite c06_apply_cipher. unfold c06_key_for_object. destruct cache as [ch|].
    + destruct ((c6c_num ch =? c6l_num l) && (c6c_gen ch =? c6l_gen l) && Bool.eqb (c6c_aes ch) ua) eqn:Eh.
      * apply andb_true_iff in Eh. destruct Eh as [Eh E3]. apply andb_true_iff in Eh. destruct Eh as [E1 E2].
        apply N.eqb_eq in E1, E2. apply Bool.eqb_prop in E3.
        cbn [fst snd]. cbn [c06_cache_ok] in Hc. rewrite Hc, E1, E2, E3. f_equal. apply IH. exact Hc.
      * cbn [fst snd]. f_equal. apply IH. reflexivity.
    + cbn [fst snd]. f_equal. apply IH. reflexivity.
  - f_equal. apply IH. exact Hc.
Qed.

(* decrypt_of_reference_encrypt for a SEQUENCE of leaves read through the key cache, from the empty cache: under the
   hypotheses of the per-leaf theorem, the plaintext of every leaf (no condition on the mixture of methods any more) *)
Lemma decrypt_of_reference_encrypt_sequence_lemma : forall c key st leaves enc,
  c06_wf_cfg c -> c06_state_for c key st -> c06_key_fits c key -> Forall c06_leaf_wf leaves ->
  map (c06_iso_encrypt_leaf c key) leaves = map Some enc ->
  c06_decrypt_seq st None enc = map (fun l => C6LeafOk (c6l_data l) false) leaves.
Proof.
  intros c key st leaves enc Hwf Hst Hkf HF Henc.
  rewrite (key_cache_lemma st enc None I).
  apply (decrypt_of_reference_encrypt_data_lemma c key st leaves enc); assumption.
Qed.

(* the input that failed before the fix (finding F11, now fixed): V 4, /StrF = AESV2, /StmF = RC4 (V2); object 12: a
   string in the stream dictionary, then the stream data *)
Definition c06_f11_cfg : c06_cfg :=
  {| c6_V := 4; c6_R := 4; c6_keylen := 16; c6_P := 4294967292; c6_encmeta := true; c6_id := [];
     c6_cf := [([83], C6AESV2); ([84], C6V2)]; c6_stmf := [84]; c6_strf := [83] |}.
Definition c06_f11_state : c06_state :=
  {| c6t_V := 4; c6t_R := 4; c6t_P := (-4)%Z; c6t_encmeta := true; c6t_filters := [([83], C6eAes); ([84], C6eRc4)];
     c6t_cf_stream := C6eRc4; c6t_cf_string := C6eAes; c6t_cf_file := C6eRc4; c6t_key := repeat 7 16%nat;
     c6t_user_password := []; c6t_user_matched := true; c6t_owner_matched := false |}.
Definition c06_f11_leaves : list c06_leaf :=
  [ {| c6l_kind := C6String C6InObject; c6l_num := 12; c6l_gen := 0; c6l_iv := map N.of_nat (seq 1 16); c6l_data := [97; 98; 99] |};
    {| c6l_kind := C6Stream {| c6d_xref := false; c6d_filter := C6FlNone; c6d_dparms := C6DpOne C6PmNull; c6d_rootmeta := false |};
       c6l_num := 12; c6l_gen := 0; c6l_iv := map N.of_nat (seq 1 16); c6l_data := [100; 101; 102; 103] |} ].
Definition c06_f11_enc : list c06_leaf :=
  map (fun l => match c06_iso_encrypt_leaf c06_f11_cfg (repeat 7 16%nat) l with Some x => x | None => l end) c06_f11_leaves.

Print Assumptions key_cache_lemma.
Print Assumptions decrypt_of_reference_encrypt_sequence_lemma.
