(* handlers: Annex F checker (specification), hint-table encoder and BitWriter/BitStream (model) *)
open Qvmodel
open Runner

let ni = int_of_n
let jl f l = "[" ^ String.concat "," (List.map f l) ^ "]"
let jn x = string_of_int (ni x)
let jtriple ((c, a), b) = Printf.sprintf "[%d,%d,%d]" (ni c) (ni a) (ni b)

let json_hp (t : hp_table) : string =
  Printf.sprintf "{\"min_nobjects\":%d,\"first_page_offset\":%d,\"nbits_delta_nobjects\":%d,\"min_page_length\":%d,\"nbits_delta_page_length\":%d,\"min_content_offset\":%d,\"nbits_delta_content_offset\":%d,\"min_content_length\":%d,\"nbits_delta_content_length\":%d,\"nbits_nshared_objects\":%d,\"nbits_shared_identifier\":%d,\"nbits_shared_numerator\":%d,\"shared_denominator\":%d,\"entries\":%s}"
    (ni t.hp_min_nobjects) (ni t.hp_first_page_offset) (ni t.hp_bits_nobjects) (ni t.hp_min_length) (ni t.hp_bits_length)
    (ni t.hp_min_content_offset) (ni t.hp_bits_content_offset) (ni t.hp_min_content_length) (ni t.hp_bits_content_length)
    (ni t.hp_bits_nshared) (ni t.hp_bits_identifier) (ni t.hp_bits_numerator) (ni t.hp_denominator)
    (jl (fun e -> Printf.sprintf "{\"dn\":%d,\"dl\":%d,\"ns\":%d,\"ids\":%s,\"nums\":%s,\"dco\":%d,\"dcl\":%d}"
            (ni e.pe_nobjects_delta) (ni e.pe_length_delta) (ni e.pe_nshared) (jl jn e.pe_identifiers) (jl jn e.pe_numerators)
            (ni e.pe_content_offset_delta) (ni e.pe_content_length_delta)) t.hp_entries)

let json_hs (t : hs_table) : string =
  Printf.sprintf "{\"first_shared_obj\":%d,\"first_shared_offset\":%d,\"nshared_first_page\":%d,\"nshared_total\":%d,\"nbits_nobjects\":%d,\"min_group_length\":%d,\"nbits_delta_group_length\":%d,\"entries\":%s}"
    (ni t.hs_first_obj) (ni t.hs_first_offset) (ni t.hs_nfirst) (ni t.hs_ntotal) (ni t.hs_bits_nobjects) (ni t.hs_min_length) (ni t.hs_bits_length)
    (jl (fun e -> Printf.sprintf "[%d,%d,%d]" (ni e.se_length_delta) (ni e.se_signature) (ni e.se_nobjects_m1)) t.hs_entries)

let json_hg (t : hg_table) : string =
  Printf.sprintf "{\"first_object\":%d,\"first_object_offset\":%d,\"nobjects\":%d,\"group_length\":%d}"
    (ni t.hg_first_obj) (ni t.hg_first_offset) (ni t.hg_nobjects) (ni t.hg_length)

let lin_result (data : string) : string =
  let r = lin_check (bytes_of_string data) in
  let b = Buffer.create 4096 in
  Buffer.add_string b (Printf.sprintf "{\"errors\":%s,\"notes\":%s,\"params\":%s,\"S\":%d,\"O\":%d,\"pages\":%s,\"measured\":%s,\"hint_data\":\"%s\""
    (jl jtriple r.ar_errors) (jl jtriple r.ar_notes) (jl jn r.ar_params) (ni (fst r.ar_hint_SO)) (ni (snd r.ar_hint_SO))
    (jl jn r.ar_pages)
    (jl (fun ((a, l), s) -> Printf.sprintf "[%d,%d,%s]" (ni a) (ni l) (jl jn s)) r.ar_measured)
    (let h = hexbytes r.ar_hint_data in if h = "-" then "" else h));
  (match r.ar_tables with
   | Some ((hp, hs), hg) ->
     Buffer.add_string b (",\"page_table\":" ^ json_hp hp ^ ",\"shared_table\":" ^ json_hs hs);
     (match hg with Some g -> Buffer.add_string b (",\"outline_table\":" ^ json_hg g) | None -> ())
   | None -> ());
  (match lin_model_hint r with
   | Some ((bytes, s), o) ->
     Buffer.add_string b (Printf.sprintf ",\"model\":{\"data\":\"%s\",\"S\":%d,\"O\":%d}"
                            (let h = hexbytes bytes in if h = "-" then "" else h) (ni s) (ni o))
   | None -> Buffer.add_string b ",\"model\":null");
  Buffer.add_string b "}";
  Buffer.contents b

(* users -> category / part by the model of calculateLinearizationData; users: p<n> t<n> r<hexkey> k<hexkey> R *)
let user_of (s : string) : ouser =
  let rest = String.sub s 1 (String.length s - 1) in
  match s.[0] with
  | 'p' -> OuPage (n_of_int (int_of_string rest))
  | 't' -> OuThumb (n_of_int (int_of_string rest))
  | 'r' -> OuRootKey (unhexbytes rest)
  | 'k' -> OuTrailerKey (unhexbytes rest)
  | _ -> OuRoot

let cat_name (c : lcat) : string = match c with
  | LcRoot -> "root" | LcOutlines -> "outlines" | LcOpenDocument -> "open_document" | LcFirstPagePrivate -> "first_page_private"
  | LcFirstPageShared -> "first_page_shared" | LcOtherPagePrivate -> "other_page_private" | LcOtherPageShared -> "other_page_shared"
  | LcThumbPrivate -> "thumbnail_private" | LcThumbShared -> "thumbnail_shared" | LcOther -> "other"

(* "v:b,v:b,f,..." -> operations *)
let ops_of (s : string) : bitop list =
  if s = "-" then [] else
  List.map (fun t -> if t = "f" then BFl else
               match String.split_on_char ':' t with
               | [v; b] -> BWr (n_of_int (int_of_string v), n_of_int (int_of_string b))
               | _ -> failwith "op") (String.split_on_char ',' s)

let () =
  register "linf" (fun args -> match args with
    | [path] -> lin_result (H_file.read_file path)
    | _ -> "?args");
  register "linparts" (fun args -> match args with
    | [path] -> (match lin_parts_tie (bytes_of_string (H_file.read_file path)) with
        | Some (diffs, n) -> Printf.sprintf "%d %s" (ni n) (String.concat "," (List.map (fun ((o, m), p) -> Printf.sprintf "%d:%d:%d" (ni o) (ni m) (ni p)) diffs))
        | None -> "none")
    | _ -> "?args");
  (* shared-object identifiers per page: model of calculateLinearizationData's last loop on the users found in the file vs the file's table *)
  register "linshared" (fun args -> match args with
    | [path] -> (match lin_shared_tie (bytes_of_string (H_file.read_file path)) with
        | Some (diffs, n) -> Printf.sprintf "%d %s" (ni n)
                               (String.concat ";" (List.map (fun ((i, m), f) -> Printf.sprintf "%d:%s:%s" (ni i) (String.concat "," (List.map jn m)) (String.concat "," (List.map jn f))) diffs))
        | None -> "none")
    | _ -> "?args");
  (* identifiers of page i from an explicit object-to-users map: "uo i obj=users;obj=users;..." (users as for classify) *)
  register "sharedids" (fun args -> match args with
    | [uo; i; m] ->
      let um = if m = "-" then [] else List.map (fun e -> match String.split_on_char '=' e with
          | [o; us] -> (n_of_int (int_of_string o), List.map user_of (String.split_on_char ',' us))
          | _ -> failwith "entry") (String.split_on_char ';' m) in
      String.concat "," (List.map jn (lsi_page_ids (uo = "1") um (n_of_int (int_of_string i))))
    | _ -> "?args");
  register "classify" (fun args -> match args with
    | [uo; us] ->
      let users = if us = "-" then [] else List.map user_of (String.split_on_char ',' us) in
      let c = lc_classify users in
      Printf.sprintf "%s %d" (cat_name c) (ni (lc_part (uo = "1") c))
    | _ -> "?args");
  register "lin" (fun args -> match args with
    | [h] -> lin_result (unhex h)
    | _ -> "?args");
  (* BitWriter: operations -> bytes, or exc *)
  register "bitw" (fun args -> match args with
    | [ops] -> (match lin_run_ops (ops_of ops) with Some o -> hexbytes o | None -> "exc")
    | _ -> "?args");
  (* BitStream: bytes, widths (negative = signed read) -> values *)
  register "bitr" (fun args -> match args with
    | [h; ws] ->
      let r = ref { br_bytes = unhexbytes h; br_off = n_of_int 7 } in
      let out = ref [] in
      (try
         List.iter (fun w ->
             if w >= 0 then
               (match read_bits !r (n_of_int w) with
                | Some (r', v) -> r := r'; out := string_of_int (ni v) :: !out
                | None -> out := "exc" :: !out; raise Exit)
             else
               (match get_bits_signed !r (n_of_int (- w)) with
                | Some (r', v) -> r := r'; out := string_of_int (int_of_z v) :: !out
                | None -> out := "exc" :: !out; raise Exit)) (ints_of ws)
       with Exit -> ());
      String.concat "," (List.rev !out)
    | _ -> "?args");
  (* the annex-F field reader on the same input: bytes, widths -> values *)
  register "affields" (fun args -> match args with
    | [h; ws] ->
      let bs = ref (af_bits (unhexbytes h)) in
      let out = ref [] in
      (try List.iter (fun w -> match af_field (nat_of_int w) !bs N0 with
           | Some (v, r) -> bs := r; out := string_of_int (ni v) :: !out
           | None -> out := "exc" :: !out; raise Exit) (ints_of ws)
       with Exit -> ());
      String.concat "," (List.rev !out)
    | _ -> "?args");
  register "linarith" (fun args -> match args with
    | ["nbits"; v] -> string_of_int (ni (nbits (n_of_int (int_of_string v))))
    | ["lindict_padding"; l] -> (match lindict_padding (n_of_int (int_of_string l)) with Some p -> string_of_int (ni p) | None -> "exc")
    | ["prev_padding"; p] -> (match prev_padding (n_of_int (int_of_string p)) with Some p -> string_of_int (ni p) | None -> "exc")
    | ["xref_padding"; x] -> string_of_int (ni (xref_stream_padding (n_of_int (int_of_string x))))
    | ["xref_pass2"; a; b] -> (match xref_pass2_padding (n_of_int (int_of_string a)) (n_of_int (int_of_string b)) with Some p -> string_of_int (ni p) | None -> "exc")
    | ["T_table"; x; d] -> string_of_int (ni (lin_T_table (n_of_int (int_of_string x)) (n_of_int (int_of_string d))))
    | ["T_stream"; x] -> string_of_int (ni (lin_T_stream (n_of_int (int_of_string x))))
    | ["lindict_text"; id; l; h0; h1; o; e; np; t] ->
      let f x = n_of_int (int_of_string x) in
      hexbytes (lindict_text (f id) (f l) (f h0) (f h1) (f o) (f e) (f np) (f t))
    | _ -> "?args")
