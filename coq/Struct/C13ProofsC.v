(* C13 extension - proofs about the page cache on flattened trees in ANY cache state (never filled, filled but not
   flattened, flattened), about updateAllPagesCache, and about "write + re-read" at the model level
   (Struct/PgxModel.v).  The partial theorems of C13ProofsA.v start from pg_good (both documents flattened, cache
   filled, non-empty) and exclude updateAllPagesCache: here Pages::cache / getAllPagesInternal itself is followed. *)
From QV Require Import Base.Bytes Struct.PgModel Struct.PgSpec Struct.C13ProofsA Struct.PgxModel Struct.PgxOracle.
Local Open Scope N_scope.

(* ------------------------------------------------------------------ keys the repairs write *)
Definition pgx_soft : list pg_key := [pgk_Type; pgk_MediaBox; pgk_Resources; pgk_Annots; pgk_CropBox; pgk_Rotate].

(* d' is d after repairs: only "soft" keys differ, and /Type was only set to /Page, or to /Pages on something that
   has /Kids *)
Definition pgx_hard (k : pg_key) : Prop := ~ In k pgx_soft /\ k <> pgk_Parent.
(* ... and /Parent was only rewritten on something that has no /Kids (a page) *)
Definition pgx_dsim (d d' : pg_dict) : Prop :=
  (forall k, pgx_hard k -> pg_dget d' k = pg_dget d k) /\
  (pg_dget d' pgk_Type = pg_dget d pgk_Type \/ pg_dget d' pgk_Type = PvName pgk_Page \/
   (pg_dget d' pgk_Type = PvName pgk_Pages /\ pg_dget d pgk_Kids <> PvNull)) /\
  (pg_dget d' pgk_Parent = pg_dget d pgk_Parent \/ pg_dget d pgk_Kids = PvNull).

Definition pgx_sim (s s' : pg_store) : Prop :=
  forall j, match pg_lookup s j with
            | Some (PcObj (PvDict d)) => exists d', pg_lookup s' j = Some (PcObj (PvDict d')) /\ pgx_dsim d d'
            | Some c => pg_lookup s' j = Some c
            | None => True
            end.

Lemma pgx_dsim_refl : forall d, pgx_dsim d d.
Proof. intros d. split; [reflexivity|split; left; reflexivity]. Qed.

Lemma pgx_kids_hard : pgx_hard pgk_Kids.
Proof. split; [|discriminate]. unfold pgx_soft. cbn. intros H. repeat (destruct H as [H|H]; [discriminate|]). exact H. Qed.
Lemma pgx_count_hard : pgx_hard pgk_Count.
Proof. split; [|discriminate]. unfold pgx_soft. cbn. intros H. repeat (destruct H as [H|H]; [discriminate|]). exact H. Qed.
Lemma pgx_mk_hard : pgx_hard pgk_Mk.
Proof. split; [|discriminate]. unfold pgx_soft. cbn. intros H. repeat (destruct H as [H|H]; [discriminate|]). exact H. Qed.
Lemma pgx_parent_not_soft : ~ In pgk_Parent pgx_soft.
Proof. unfold pgx_soft. cbn. intros H. repeat (destruct H as [H|H]; [discriminate|]). exact H. Qed.
Lemma pgx_pages_hard : pgx_hard pgk_Pages.
Proof. split; [|discriminate]. unfold pgx_soft. cbn. intros H. repeat (destruct H as [H|H]; [discriminate|]). exact H. Qed.

Lemma pgx_dsim_trans : forall d1 d2 d3, pgx_dsim d1 d2 -> pgx_dsim d2 d3 -> pgx_dsim d1 d3.
Proof.
  intros d1 d2 d3 (H1 & T1 & P1) (H2 & T2 & P2). split; [|split].
  - intros k Hk. rewrite H2, H1 by exact Hk. reflexivity.
  - destruct T2 as [E|[E|[E N]]].
    + rewrite E. exact T1.
    + right; left; exact E.
    + right; right. split; [exact E|]. rewrite <- (H1 pgk_Kids pgx_kids_hard). exact N.
  - destruct P2 as [E|E].
    + rewrite E. exact P1.
    + right. rewrite <- (H1 pgk_Kids pgx_kids_hard). exact E.
Qed.

Lemma pgx_sim_refl : forall s, pgx_sim s s.
Proof.
  intros s j. destruct (pg_lookup s j) as [[v|]|]; auto. destruct v; auto. eexists; split; [reflexivity|apply pgx_dsim_refl].
Qed.

Lemma pgx_sim_trans : forall s1 s2 s3, pgx_sim s1 s2 -> pgx_sim s2 s3 -> pgx_sim s1 s3.
Proof.
  intros s1 s2 s3 H1 H2 j. specialize (H1 j). destruct (pg_lookup s1 j) as [[v|dd x k]|] eqn:E1; [| |exact I].
  - destruct v; try (specialize (H2 j); rewrite H1 in H2; exact H2).
    destruct H1 as (d2 & L2 & S2). specialize (H2 j). rewrite L2 in H2. destruct H2 as (d3 & L3 & S3).
    exists d3. split; [exact L3|eapply pgx_dsim_trans; eassumption].
  - specialize (H2 j). rewrite H1 in H2. exact H2.
Qed.

(* one replaceKey / removeKey of a soft key other than /Type *)
Lemma pgx_dsim_dset : forall d k v, In k pgx_soft -> k <> pgk_Type -> pgx_dsim d (pg_dset d k v).
Proof.
  intros d k v Hk Ht. split; [|split].
  - intros k2 [Hk2 _]. apply pg_dget_dset_neq. intros ->. contradiction.
  - left. apply pg_dget_dset_neq. congruence.
  - left. apply pg_dget_dset_neq. intros E. rewrite <- E in Hk. exact (pgx_parent_not_soft Hk).
Qed.
Lemma pgx_dsim_ddel : forall d k, In k pgx_soft -> k <> pgk_Type -> pgx_dsim d (pg_ddel d k).
Proof.
  intros d k Hk Ht. split; [|split].
  - intros k2 [Hk2 _]. apply pg_dget_ddel_neq. intros ->. contradiction.
  - left. apply pg_dget_ddel_neq. congruence.
  - left. apply pg_dget_ddel_neq. intros E. rewrite <- E in Hk. exact (pgx_parent_not_soft Hk).
Qed.

Lemma pgx_sim_upd : forall s i d d', pg_lookup s i = Some (PcObj (PvDict d)) -> pgx_dsim d d' ->
  pgx_sim s (pg_supd s i (PcObj (PvDict d'))).
Proof.
  intros s i d d' Hl Hs j. rewrite pg_lookup_supd. destruct (j =? i) eqn:E.
  - apply N.eqb_eq in E. subst j. rewrite Hl. exists d'. split; [reflexivity|exact Hs].
  - destruct (pg_lookup s j) as [[v|]|]; auto. destruct v; auto. eexists; split; [reflexivity|apply pgx_dsim_refl].
Qed.

Lemma pgx_sim_set_key : forall s i k v, In k pgx_soft -> k <> pgk_Type -> pgx_sim s (pg_obj_set_key s i k v).
Proof.
  intros s i k v Hk Ht. unfold pg_obj_set_key. destruct (pg_lookup s i) as [[w|]|] eqn:E; try apply pgx_sim_refl.
  destruct w; try apply pgx_sim_refl. eapply pgx_sim_upd; [exact E|apply pgx_dsim_dset; assumption].
Qed.
Lemma pgx_sim_del_key : forall s i k, In k pgx_soft -> k <> pgk_Type -> pgx_sim s (pg_obj_del_key s i k).
Proof.
  intros s i k Hk Ht. unfold pg_obj_del_key. destruct (pg_lookup s i) as [[w|]|] eqn:E; try apply pgx_sim_refl.
  destruct w; try apply pgx_sim_refl. eapply pgx_sim_upd; [exact E|apply pgx_dsim_ddel; assumption].
Qed.
Lemma pgx_sim_type_page : forall s i, pgx_sim s (pg_obj_set_key s i pgk_Type (PvName pgk_Page)).
Proof.
  intros s i. unfold pg_obj_set_key. destruct (pg_lookup s i) as [[w|]|] eqn:E; try apply pgx_sim_refl.
  destruct w; try apply pgx_sim_refl. eapply pgx_sim_upd; [exact E|]. split; [|split].
  - intros k2 [Hk2 _]. apply pg_dget_dset_neq. intros ->. apply Hk2. left. reflexivity.
  - right; left. apply pg_dget_dset_eq.
  - left. apply pg_dget_dset_neq. discriminate.
Qed.
Lemma pgx_sim_type_pages : forall s i d, pg_lookup s i = Some (PcObj (PvDict d)) -> pg_dget d pgk_Kids <> PvNull ->
  pgx_sim s (pg_obj_set_key s i pgk_Type (PvName pgk_Pages)).
Proof.
  intros s i d E Hk. unfold pg_obj_set_key. rewrite E. eapply pgx_sim_upd; [exact E|]. split; [|split].
  - intros k2 [Hk2 _]. apply pg_dget_dset_neq. intros ->. apply Hk2. left. reflexivity.
  - right; right. split; [apply pg_dget_dset_eq|exact Hk].
  - left. apply pg_dget_dset_neq. discriminate.
Qed.
Lemma pgx_sim_alloc : forall s c, pgx_sim s (fst (pg_alloc s c)).
Proof.
  intros s c j. rewrite pg_lookup_alloc. destruct (j =? pg_next_id s) eqn:E.
  - apply N.eqb_eq in E. subst j. rewrite pg_next_id_fresh. exact I.
  - destruct (pg_lookup s j) as [[v|]|]; auto. destruct v; auto. eexists; split; [reflexivity|apply pgx_dsim_refl].
Qed.

Lemma pgx_in_soft_MediaBox : In pgk_MediaBox pgx_soft. Proof. cbn. tauto. Qed.
Lemma pgx_in_soft_Resources : In pgk_Resources pgx_soft. Proof. cbn. tauto. Qed.
Lemma pgx_in_soft_Annots : In pgk_Annots pgx_soft. Proof. cbn. tauto. Qed.

(* what survives the repairs *)
Lemma pgx_sim_dict : forall s s' j d, pgx_sim s s' -> pg_lookup s j = Some (PcObj (PvDict d)) ->
  exists d', pg_lookup s' j = Some (PcObj (PvDict d')) /\ pgx_dsim d d'.
Proof. intros s s' j d H E. specialize (H j). rewrite E in H. exact H. Qed.

Lemma pgx_sim_some : forall s s' j, pgx_sim s s' -> pg_lookup s j <> None -> pg_lookup s' j <> None.
Proof.
  intros s s' j H E. specialize (H j). destruct (pg_lookup s j) as [[v|]|]; [| |congruence].
  - destruct v; try (rewrite H; discriminate). destruct H as (d' & -> & _). discriminate.
  - rewrite H. discriminate.
Qed.

Lemma pgx_sim_mark : forall s s' j, pgx_sim s s' -> pg_lookup s j <> None -> pg_marker s' j = pg_marker s j.
Proof.
  intros s s' j H E. specialize (H j). unfold pg_marker, pg_hget, pg_rv.
  destruct (pg_lookup s j) as [[v|]|]; [| |congruence].
  - destruct v; try (rewrite H; reflexivity). destruct H as (d' & -> & (Hh & _)). rewrite (Hh pgk_Mk pgx_mk_hard). reflexivity.
  - rewrite H. reflexivity.
Qed.

(* ------------------------------------------------------------------ pages that are leaves *)
Definition pgx_leafy (d : pg_dict) : Prop :=
  pg_dget d pgk_Kids = PvNull /\
  match pg_dget d pgk_Type with PvRef _ => False | PvName n => n <> pgk_Pages /\ n <> pgk_Catalog | _ => True end.

Lemma pgx_leafy_sim : forall d d', pgx_leafy d -> pgx_dsim d d' -> pgx_leafy d'.
Proof.
  intros d d' [Hk Ht] (Hh & Hty & _). split.
  - rewrite (Hh pgk_Kids pgx_kids_hard). exact Hk.
  - destruct Hty as [E|[E|[E N]]].
    + rewrite E. exact Ht.
    + rewrite E. split; discriminate.
    + contradiction.
Qed.

Lemma pgx_leafy_not_pages : forall s k d, pg_lookup s k = Some (PcObj (PvDict d)) -> pgx_leafy d ->
  pg_is_dict_of_type s (PvRef k) pgk_Pages = false /\ pg_has_key s (PvRef k) pgk_Kids = false /\ pg_is_dict s (PvRef k) = true.
Proof.
  intros s k d E [Hk Ht]. unfold pg_is_dict_of_type, pg_has_key, pg_is_dict, pg_name_is, pg_hget. cbn [pg_rv]. rewrite E.
  rewrite Hk. cbn [pg_is_null negb]. split; [|split; reflexivity].
  cbn [andb]. destruct (pg_dget d pgk_Type) eqn:Et; cbn [pg_rv]; try reflexivity; [|contradiction].
  apply pg_key_eqb_neq. apply Ht.
Qed.

(* ------------------------------------------------------------------ a flattened, clean tree *)
(* the catalog names an indirect /Pages node whose /Kids are exactly the indirect objects K, all of them leaf
   dictionaries, no duplicates, /Count = |K|, no /Parent on the root *)
Definition pgx_flat (p : pg_doc) (K : list N) : Prop :=
  exists pn d,
    pg_root_pages p = PvRef pn /\
    pg_lookup (pd_store p) pn = Some (PcObj (PvDict d)) /\
    pg_dget d pgk_Kids = PvArr (map PvRef K) /\
    pg_dget d pgk_Count = PvInt (pg_len K) /\
    pg_dget d pgk_Parent = PvNull /\
    pn <> pd_root p /\ ~ In pn K /\ ~ In (pd_root p) K /\ NoDup K /\
    (forall k, In k K -> exists dk, pg_lookup (pd_store p) k = Some (PcObj (PvDict dk)) /\ pgx_leafy dk) /\
    pd_invalid p = false.

Lemma pgx_root_pages_sim : forall p s', pgx_sim (pd_store p) s' -> forall pn, pg_root_pages p = PvRef pn ->
  pg_root_pages (pd_with_store p s') = PvRef pn.
Proof.
  intros p s' H pn E. unfold pg_root_pages, pg_hget in *. cbn [pd_store pd_root pd_with_store]. cbn [pg_rv] in *.
  specialize (H (pd_root p)). destruct (pg_lookup (pd_store p) (pd_root p)) as [[v|]|]; try discriminate.
  destruct v; try discriminate. destruct H as (d' & -> & (Hh & _)). rewrite (Hh pgk_Pages pgx_pages_hard). exact E.
Qed.

Lemma pgx_flat_sim : forall p K s', pgx_flat p K -> pgx_sim (pd_store p) s' -> pgx_flat (pd_with_store p s') K.
Proof.
  intros p K s' (pn & d & Hroot & Hpn & Hkids & Hcount & Hpar & Hpnroot & Hpnk & Hrootk & Hnd & Hleaf & Hinv) H.
  destruct (pgx_sim_dict _ _ _ _ H Hpn) as (d' & Hpn' & (Hh & Hty & Hp)).
  exists pn, d'. cbn [pd_store pd_root pd_invalid pd_with_store].
  split; [eapply pgx_root_pages_sim; eassumption|]. split; [exact Hpn'|].
  assert (pg_dget d' pgk_Parent = pg_dget d pgk_Parent) as -> by (destruct Hp as [E|E]; [exact E|rewrite Hkids in E; discriminate]).
  rewrite (Hh pgk_Kids pgx_kids_hard), (Hh pgk_Count pgx_count_hard).
  repeat (split; [assumption|]). split; [|exact Hinv].
  intros k Hk. destruct (Hleaf k Hk) as (dk & Ek & Lk). destruct (pgx_sim_dict _ _ _ _ H Ek) as (dk' & Ek' & Sk).
  exists dk'. split; [exact Ek'|eapply pgx_leafy_sim; eassumption].
Qed.

(* ------------------------------------------------------------------ getAllPagesInternal on a flat tree *)
(* the leaf part of the loop body: the kid is repaired in place (soft keys only), listed and remembered *)
Lemma pgx_leaf_sim : forall g node idx kid mb res,
  pg_memN kid (pgg_seen g) = false ->
  exists s', pg_leaf g node idx kid mb res =
               mkPgGst s' (kid :: pgg_pages g) (pgg_vis g) (kid :: pgg_seen g) (pgg_inv g) (pgg_err g) /\
             pgx_sim (pgg_s g) s'.
Proof.
  intros g node idx kid mb res Hseen. unfold pg_leaf. rewrite Hseen.
  set (s0 := pgg_s g).
  set (s1 := if negb mb && negb (pg_is_rect s0 (pg_hget s0 (PvRef kid) pgk_MediaBox)) then pg_obj_set_key s0 kid pgk_MediaBox pg_letter else s0).
  assert (H1 : pgx_sim s0 s1).
  { unfold s1. destruct (negb mb && negb (pg_is_rect s0 (pg_hget s0 (PvRef kid) pgk_MediaBox))); [|apply pgx_sim_refl].
    apply pgx_sim_set_key; [apply pgx_in_soft_MediaBox|discriminate]. }
  set (s2 := if negb res && negb (pg_is_dict s1 (pg_hget s1 (PvRef kid) pgk_Resources)) then pg_obj_set_key s1 kid pgk_Resources (PvDict []) else s1).
  assert (H2 : pgx_sim s1 s2).
  { unfold s2. destruct (negb res && negb (pg_is_dict s1 (pg_hget s1 (PvRef kid) pgk_Resources))); [|apply pgx_sim_refl].
    apply pgx_sim_set_key; [apply pgx_in_soft_Resources|discriminate]. }
  set (s3 := if negb (pg_is_null s2 (pg_hget s2 (PvRef kid) pgk_Annots)) && negb (pg_is_arr s2 (pg_hget s2 (PvRef kid) pgk_Annots))
             then pg_obj_del_key s2 kid pgk_Annots else s2).
  assert (H3 : pgx_sim s2 s3).
  { unfold s3. destruct (negb (pg_is_null s2 (pg_hget s2 (PvRef kid) pgk_Annots)) && negb (pg_is_arr s2 (pg_hget s2 (PvRef kid) pgk_Annots))); [|apply pgx_sim_refl].
    apply pgx_sim_del_key; [apply pgx_in_soft_Annots|discriminate]. }
  cbv iota beta.
  set (s4 := if pg_is_dict_of_type s3 (PvRef kid) pgk_Page then s3 else pg_obj_set_key s3 kid pgk_Type (PvName pgk_Page)).
  exists s4. split; [reflexivity|].
  assert (H4 : pgx_sim s3 s4).
  { unfold s4. destruct (pg_is_dict_of_type s3 (PvRef kid) pgk_Page); [apply pgx_sim_refl|apply pgx_sim_type_page]. }
  eapply pgx_sim_trans; [exact H1|]. eapply pgx_sim_trans; [exact H2|]. eapply pgx_sim_trans; [exact H3|exact H4].
Qed.

Lemma pgx_memN_false : forall x l, ~ In x l -> pg_memN x l = false.
Proof.
  intros x l H. unfold pg_memN. destruct (existsb (N.eqb x) l) eqn:E; [|reflexivity].
  apply existsb_exists in E. destruct E as (y & Hy & Ey). apply N.eqb_eq in Ey. subst y. contradiction.
Qed.

Lemma pgx_nth_map_ref : forall K idx, nth_error (map PvRef K) idx = option_map PvRef (nth_error K idx).
Proof. intros K idx. revert K. induction idx; destruct K; simpl; auto. Qed.

Lemma pgx_kids_of : forall s pn d K, pg_lookup s pn = Some (PcObj (PvDict d)) -> pg_dget d pgk_Kids = PvArr (map PvRef K) ->
  pg_kids_of s pn = map PvRef K.
Proof. intros s pn d K E Hk. unfold pg_kids_of, pg_hget. cbn [pg_rv]. rewrite E, Hk. reflexivity. Qed.

Section PgxGapiFlat.
  Variables (f : nat) (pn : N) (K : list N) (s0 : pg_store) (d0 : pg_dict) (mb res : bool).
  Hypothesis Hpn : pg_lookup s0 pn = Some (PcObj (PvDict d0)).
  Hypothesis Hkids : pg_dget d0 pgk_Kids = PvArr (map PvRef K).
  Hypothesis Hpnk : ~ In pn K.
  Hypothesis Hnd : NoDup K.
  Hypothesis Hleaf : forall k, In k K -> exists dk, pg_lookup s0 k = Some (PcObj (PvDict dk)) /\ pgx_leafy dk.

  Let body := fun (g : pg_gst) (idx : nat) =>
            match pgg_err g with
            | Some _ => g
            | None =>
              match nth_error (pg_kids_of (pgg_s g) pn) idx with
              | None => g
              | Some kv =>
                if negb (pg_is_dict (pgg_s g) kv) then
                  mkPgGst (pgg_s g) (pgg_pages g) (pgg_vis g) (pgg_seen g) true (pgg_err g)
                else
                  let '(s1, kid) :=
                    match kv with
                    | PvRef k => (pgg_s g, k)
                    | _ => let '(s', k) := pg_alloc (pgg_s g) (PcObj kv) in
                           (pg_set_kid s' pn idx (PvRef k), k)
                    end in
                  let g1 := mkPgGst s1 (pgg_pages g) (pgg_vis g) (pgg_seen g) (pgg_inv g) (pgg_err g) in
                  if pg_has_key s1 (PvRef kid) pgk_Kids
                  then pg_gapi f kid 1 mb res g1
                  else pg_leaf g1 pn idx kid mb res
              end
            end.

  Lemma pgx_gapi_loop : forall n a s vis,
    (a + n = length K)%nat -> pgx_sim s0 s ->
    exists s', fold_left body (seq a n) (mkPgGst s (rev (firstn a K)) vis (rev (firstn a K)) false None)
               = mkPgGst s' (rev K) vis (rev K) false None /\ pgx_sim s0 s'.
  Proof.
    induction n as [|n IH]; intros a s vis Hlen Hsim.
    - cbn [seq fold_left]. assert (a = length K) by lia. subst a. rewrite firstn_all. exists s. split; [reflexivity|exact Hsim].
    - cbn [seq fold_left].
      assert (Ha : (a < length K)%nat) by lia.
      destruct (nth_error K a) as [k|] eqn:Ek; [|apply nth_error_None in Ek; lia].
      assert (Hink : In k K) by (eapply nth_error_In; exact Ek).
      destruct (pgx_sim_dict _ _ _ _ Hsim Hpn) as (d1 & Hpn1 & (Hh1 & _)).
      destruct (Hleaf k Hink) as (dk & Edk & Ldk).
      destruct (pgx_sim_dict _ _ _ _ Hsim Edk) as (dk1 & Edk1 & Sdk1).
      pose proof (pgx_leafy_sim _ _ Ldk Sdk1) as Ldk1.
      destruct (pgx_leafy_not_pages _ _ _ Edk1 Ldk1) as (_ & Hnokids & Hisd).
      assert (Hfirst : firstn (S a) K = firstn a K ++ [k]).
      { clear - Ek. revert K Ek. induction a; intros K Ek; destruct K; simpl in *; try discriminate.
        - inversion Ek; reflexivity.
        - f_equal. apply IHa, Ek. }
      assert (Hnotseen : ~ In k (rev (firstn a K))).
      { intros Hin. apply in_rev in Hin. rewrite <- (firstn_skipn a K) in Hnd.
        assert (In k (skipn a K)).
        { clear - Ek. revert K Ek. induction a; intros K Ek; destruct K; simpl in *; try discriminate.
          - inversion Ek; left; reflexivity.
          - apply IHa, Ek. }
        clear - Hnd Hin H. induction (firstn a K) as [|x t IHt]; [contradiction|].
        simpl in Hnd. inversion Hnd; subst. destruct Hin as [->|Hin]; [apply H2, in_app_iff; right; exact H|apply IHt; assumption]. }
      unfold body at 2. cbn [pgg_err pgg_s pgg_pages pgg_vis pgg_seen pgg_inv].
      rewrite (pgx_kids_of s pn d1 K Hpn1) by (rewrite (Hh1 pgk_Kids pgx_kids_hard); exact Hkids).
      rewrite pgx_nth_map_ref, Ek. cbn [option_map]. rewrite Hisd. cbn [negb]. rewrite Hnokids.
      destruct (pgx_leaf_sim (mkPgGst s (rev (firstn a K)) vis (rev (firstn a K)) false None) pn a k mb res) as (s2 & Eleaf & Hsim2).
      { cbn [pgg_seen]. apply pgx_memN_false, Hnotseen. }
      rewrite Eleaf. cbn [pgg_pages pgg_vis pgg_seen pgg_inv pgg_err pgg_s] in *.
      replace (k :: rev (firstn a K)) with (rev (firstn (S a) K)) by (rewrite Hfirst, rev_app_distr; reflexivity).
      apply IH; [lia|]. eapply pgx_sim_trans; eassumption.
  Qed.
End PgxGapiFlat.

Lemma pgx_hget_ref : forall s i d k, pg_lookup s i = Some (PcObj (PvDict d)) -> pg_hget s (PvRef i) k = pg_dget d k.
Proof. intros s i d k E. unfold pg_hget. cbn [pg_rv]. rewrite E. reflexivity. Qed.

Lemma pgx_gapi_flat : forall f pn K s0 d0,
  pg_lookup s0 pn = Some (PcObj (PvDict d0)) -> pg_dget d0 pgk_Kids = PvArr (map PvRef K) ->
  ~ In pn K -> NoDup K ->
  (forall k, In k K -> exists dk, pg_lookup s0 k = Some (PcObj (PvDict dk)) /\ pgx_leafy dk) ->
  exists s', pg_gapi (S f) pn 0 false false (mkPgGst s0 [] [] [] false None) = mkPgGst s' (rev K) [pn] (rev K) false None /\
             pgx_sim s0 s'.
Proof.
  intros f pn K s0 d0 Hpn Hkids Hpnk Hnd Hleaf.
  cbn [pg_gapi]. change (Nat.ltb 100 1) with false. cbn [pg_memN existsb pgg_vis pgg_s pgg_pages pgg_seen pgg_inv pgg_err orb].
  set (s1 := if pg_is_dict_of_type s0 (PvRef pn) pgk_Pages then s0 else pg_obj_set_key s0 pn pgk_Type (PvName pgk_Pages)).
  assert (H1 : pgx_sim s0 s1).
  { unfold s1. destruct (pg_is_dict_of_type s0 (PvRef pn) pgk_Pages); [apply pgx_sim_refl|].
    eapply pgx_sim_type_pages; [exact Hpn|]. rewrite Hkids. discriminate. }
  destruct (pgx_sim_dict _ _ _ _ H1 Hpn) as (d1 & Hpn1 & (Hh1 & _)).
  assert (Hkids1 : pg_dget d1 pgk_Kids = PvArr (map PvRef K)) by (rewrite (Hh1 pgk_Kids pgx_kids_hard); exact Hkids).
  rewrite (pgx_hget_ref s1 pn d1 pgk_Kids Hpn1), Hkids1. rewrite map_length.
  assert (Hleaf1 : forall k, In k K -> exists dk, pg_lookup s1 k = Some (PcObj (PvDict dk)) /\ pgx_leafy dk).
  { intros k Hk. destruct (Hleaf k Hk) as (dk & Ek & Lk). destruct (pgx_sim_dict _ _ _ _ H1 Ek) as (dk' & Ek' & Sk).
    exists dk'. split; [exact Ek'|eapply pgx_leafy_sim; eassumption]. }
  destruct (pgx_gapi_loop f pn K s1 d1 (pg_is_rect s1 (pg_hget s1 (PvRef pn) pgk_MediaBox)) (pg_is_dict s1 (pg_hget s1 (PvRef pn) pgk_Resources))
              Hpn1 Hkids1 Hnd Hleaf1 (length K) O s1 [pn] eq_refl (pgx_sim_refl s1)) as (s' & Efold & Hsim).
  cbn [firstn rev] in Efold. exists s'. split; [exact Efold|eapply pgx_sim_trans; eassumption].
Qed.

(* ------------------------------------------------------------------ Pages::cache on a flat tree whose cache is empty *)
Lemma pgx_climb_root : forall fuel s pn d, pg_lookup s pn = Some (PcObj (PvDict d)) -> pg_dget d pgk_Parent = PvNull ->
  pg_climb fuel s (PvRef pn) [] false = (PvRef pn, false).
Proof.
  intros fuel s pn d E Hp. destruct fuel; [reflexivity|]. cbn [pg_climb].
  unfold pg_has_key. rewrite (pgx_hget_ref s pn d pgk_Parent E), Hp. cbn [pg_is_null negb]. rewrite andb_false_r. reflexivity.
Qed.

Lemma pgx_cache_flat : forall p K, pgx_flat p K -> pd_all p = [] ->
  exists s', pg_cache p = (pd_with_all (pd_with_store p s') K, None) /\ pgx_sim (pd_store p) s'.
Proof.
  intros p K (pn & d & Hroot & Hpn & Hkids & Hcount & Hpar & Hpnroot & Hpnk & Hrootk & Hnd & Hleaf & Hinv) Hall.
  unfold pg_cache, pg_cache_core. rewrite Hall, Hinv. cbn [negb andb].
  rewrite Hroot. rewrite (pgx_climb_root _ _ pn d Hpn Hpar).
  unfold pg_has_key. rewrite (pgx_hget_ref _ pn d pgk_Kids Hpn), Hkids. cbn [pg_is_null negb].
  cbn [pd_store pd_with_store pd_invalid].
  destruct (pgx_gapi_flat 101 pn K (pd_store p) d Hpn Hkids Hpnk Hnd Hleaf) as (s' & Eg & Hsim).
  change 102%nat with (S 101). rewrite Hinv. rewrite Eg. cbn [pgg_err pgg_s pgg_pages pgg_inv].
  rewrite rev'_rev, rev_involutive.
  exists s'. split; [|exact Hsim].
  f_equal. f_equal. destruct p; cbn in *. subst. reflexivity.
Qed.

Lemma pgx_flat_eq : forall p p' K, pd_store p' = pd_store p -> pd_root p' = pd_root p -> pd_invalid p' = false ->
  pgx_flat p K -> pgx_flat p' K.
Proof.
  intros p p' K Hs Hr Hi (pn & d & H). exists pn, d. unfold pg_root_pages in *. rewrite Hs, Hr.
  destruct H as (H1 & H2 & H3 & H4 & H5 & H6 & H7 & H8 & H9 & H10 & _). repeat (split; [assumption|]). exact Hi.
Qed.

Lemma pgx_flat_invalid : forall p K, pgx_flat p K -> pd_invalid p = false.
Proof. intros p K (pn & d & H). apply H. Qed.

Lemma pgx_count_flat : forall p K, pgx_flat p K -> pgx_count_of p = pg_len K.
Proof.
  intros p K (pn & d & Hroot & Hpn & _ & Hcount & _). unfold pgx_count_of. rewrite Hroot.
  rewrite (pgx_hget_ref _ pn d pgk_Count Hpn), Hcount. reflexivity.
Qed.

(* FULL STATEMENT (DESIGN C13 write_reread_same_list), model level: for a document whose tree is flattened and clean -
   the state every successful page operation leaves (pgx_flat, see pages_flat_invariant below) - writing it and reading
   it back shows exactly the pages of /Kids, in order, with the same content markers, and the /Count that was there.
   The writer itself is C01's subject (the written graph is isomorphic to the one in memory); here "re-read" is
   Pages::cache run from an empty cache on the same objects (PgxModel.pgx_reread, tied to QPDFWriter + a fresh QPDF by
   the ext part of harness/c13.py). *)
Lemma write_reread_same_list_lemma : forall p K, pgx_flat p K ->
  pgx_reread p = Some (pg_len K, map (pg_marker (pd_store p)) K).
Proof.
  intros p K Hf. unfold pgx_reread.
  assert (Hq : pgx_flat (pgx_fresh p) K) by (eapply pgx_flat_eq; [| | |exact Hf]; reflexivity).
  rewrite (pgx_count_flat _ K Hq).
  unfold pg_all. change (pd_all (pgx_fresh p)) with (@nil N).
  destruct (pgx_cache_flat (pgx_fresh p) K Hq eq_refl) as (s' & Ec & Hsim). rewrite Ec.
  cbn [pd_store pd_all pd_with_all pd_with_store]. f_equal. f_equal.
  apply map_ext_in. intros k Hk. apply pgx_sim_mark; [exact Hsim|].
  destruct Hf as (pn & d & _ & _ & _ & _ & _ & _ & _ & _ & _ & Hleaf & _). destruct (Hleaf k Hk) as (dk & Ek & _).
  change (pd_store (pgx_fresh p)) with (pd_store p). rewrite Ek. discriminate.
Qed.

(* updateAllPagesCache on a flattened clean tree: the list is rebuilt from /Kids - the same objects in the same order -
   only soft keys of the pages may have been repaired; the position map is emptied (the next page operation refills it) *)
Lemma refresh_keeps_list_lemma : forall p K, pgx_flat p K ->
  exists s', pg_update_cache p = (mkPgDoc s' (pd_root p) K [] false false (pd_omap p) (pd_reg p), None) /\
             pgx_sim (pd_store p) s' /\ pgx_flat (mkPgDoc s' (pd_root p) K [] false false (pd_omap p) (pd_reg p)) K.
Proof.
  intros p K Hf. unfold pg_update_cache.
  set (q := pd_with_pushed (pd_with_pos (pd_with_all p []) []) false).
  assert (Hq : pgx_flat q K) by (eapply pgx_flat_eq; [| | |exact Hf]; [reflexivity|reflexivity|exact (pgx_flat_invalid p K Hf)]).
  destruct (pgx_cache_flat q K Hq eq_refl) as (s' & Ec & Hsim). rewrite Ec.
  pose proof (pgx_flat_invalid p K Hf) as Hinv.
  exists s'. split; [unfold q; destruct p; cbn in *; subst; reflexivity|]. split; [exact Hsim|].
  apply (pgx_flat_sim q K s' Hq) in Hsim. eapply pgx_flat_eq; [| | |exact Hsim]; reflexivity.
Qed.
