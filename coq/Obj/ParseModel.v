(* Model of libqpdf/QPDFParser.cc (qpdf::impl::Parser) for the object parser proper: parse_first,
   parse_remainder with the two-slot integer buffer for "n g R", the container stack, missing-key repair,
   duplicate keys, the bad-token budget (check_too_many_bad_tokens) and the limits, driven by the
   tokenizer model Lex/TokModel.v; and of QPDFObjectHandle::parse(QPDF* context, std::string) with its
   trailing-data check.  Modes: content_stream and sanity_checks are parameters; no decrypter (strings
   are taken as they are); a context is always present (warnings are collected, never thrown).
   Offsets are modelled only where they decide behaviour (tell() after the object, the seek back on an
   empty object); parsed offsets in descriptions are not.  Warnings are classes, not texts.
   No proofs in this file. *)
From QV Require Import Base.Bytes Lex.TokModel.
Local Open Scope N_scope.

Inductive mobj :=
| MoNull
| MoBool (b : bool)
| MoInt (z : Z)
| MoReal (text : list N)                       (* QPDF_Real keeps the spelling *)
| MoStr (s : list N)
| MoName (n : list N)                          (* with the leading '/' as QPDF_Name stores it *)
| MoArr (items : list mobj)
| MoDict (entries : list (list N * mobj))      (* std::map order: keys sorted bytewise *)
| MoRef (id gen : Z)
| MoOp (w : list N).

Inductive pwarn :=
| PW_tok (e : terr) | PW_eof | PW_brace | PW_arr_close | PW_dict_close | PW_empty | PW_unknown_str
| PW_unknown_null | PW_unknown_type | PW_parse_error | PW_bad_ref | PW_premature | PW_nonname_ignored
| PW_fake_key | PW_dup_key | PW_too_many | PW_limit_nesting | PW_limit_container_damaged
| PW_limit_container | PW_limit_errors | PW_giveup_arr | PW_giveup_dict | PW_giveup_endobj | PW_exception.

(* ---- std::map<std::string, ...> as a key-sorted association list ---- *)
Fixpoint bytes_ltb (a b : list N) : bool :=
  match a, b with
  | [], [] => false
  | [], _ :: _ => true
  | _ :: _, [] => false
  | x :: a', y :: b' => if x <? y then true else if y <? x then false else bytes_ltb a' b'
  end.

(* insert_or_assign: (new map, true if the key was inserted, false if assigned) *)
Fixpoint map_put (k : list N) (v : mobj) (m : list (list N * mobj)) : list (list N * mobj) * bool :=
  match m with
  | [] => ([(k, v)], true)
  | (k', v') :: r =>
      if list_eqb N.eqb k k' then ((k, v) :: r, false)
      else if bytes_ltb k k' then ((k, v) :: m, true)
      else let '(r', ins) := map_put k v r in ((k', v') :: r', ins)
  end.

Fixpoint map_has (k : list N) (m : list (list N * mobj)) : bool :=
  match m with
  | [] => false
  | (k', _) :: r => list_eqb N.eqb k k' || map_has k r
  end.

(* ---- parser state ---- *)
Inductive pfstate := PF_dict_key | PF_dict_value | PF_array.

Record pframe := mkFrame {
  pf_state : pfstate;
  pf_olist : list mobj;                 (* reversed *)
  pf_dict : list (list N * mobj);
  pf_key : list N;
  pf_nulls : N }.

Record pstate := mkPstate {
  ps_stack : list pframe;               (* head = frame_ *)
  ps_int_count : N;
  ps_int0 : Z;                          (* int_buffer_[0] *)
  ps_int1 : Z;                          (* int_buffer_[1] *)
  ps_bad : Z;                           (* bad_count_ *)
  ps_good : Z;                          (* good_count_ *)
  ps_max_bad : N;                       (* max_bad_count_ *)
  ps_warn : list pwarn }.               (* reversed *)

Definition parser_max_nesting : N := 499.
Definition parser_max_errors : N := 15.
Definition parser_max_container : N := 4294967295.
Definition parser_max_container_damaged : N := 5000.

(* how a step ends *)
Inductive pstep :=
| PS_continue (p : pstate)
| PS_return (p : pstate) (o : option mobj)       (* return object / return {} *)
| PS_error (p : pstate)                          (* throw Error() *)
| PS_exception (p : pstate).                     (* a std::exception (range_error of string_to_ll / QIntC) *)

Definition pwarnp (w : pwarn) (p : pstate) : pstate :=
  mkPstate (ps_stack p) (ps_int_count p) (ps_int0 p) (ps_int1 p) (ps_bad p) (ps_good p) (ps_max_bad p) (w :: ps_warn p).
Definition set_stack (s : list pframe) (p : pstate) : pstate :=
  mkPstate s (ps_int_count p) (ps_int0 p) (ps_int1 p) (ps_bad p) (ps_good p) (ps_max_bad p) (ps_warn p).
Definition set_ints (c : N) (i0 i1 : Z) (p : pstate) : pstate :=
  mkPstate (ps_stack p) c i0 i1 (ps_bad p) (ps_good p) (ps_max_bad p) (ps_warn p).
Definition set_counts (bad good : Z) (mx : N) (p : pstate) : pstate :=
  mkPstate (ps_stack p) (ps_int_count p) (ps_int0 p) (ps_int1 p) bad good mx (ps_warn p).

Definition cur_frame (p : pstate) : pframe :=
  match ps_stack p with f :: _ => f | [] => mkFrame PF_array [] [] [] 0 end.
Definition set_frame (f : pframe) (p : pstate) : pstate :=
  match ps_stack p with _ :: r => set_stack (f :: r) p | [] => p end.

Definition len {A} (l : list A) : N := N.of_nat (length l).

(* Parser::check_too_many_bad_tokens: None = returns normally *)
Definition check_too_many (sanity : bool) (p : pstate) : pstate * bool (* threw Error *) :=
  let f := cur_frame p in
  let limit := if (negb (ps_bad p =? 0)%Z) || sanity then parser_max_container_damaged else parser_max_container in
  if (limit <=? len (pf_olist f)) || (limit <=? len (pf_dict f)) then
    if negb (ps_bad p =? 0)%Z then (pwarnp PW_limit_container_damaged p, true)
    else (pwarnp PW_limit_container p, true)
  else
    let mx := if ps_max_bad p =? 0 then 0 else ps_max_bad p - 1 in
    if negb (ps_max_bad p =? 0) && (mx =? 0) then (pwarnp PW_limit_errors (set_counts (ps_bad p) (ps_good p) mx p), true)
    else
      let p1 := set_counts (ps_bad p) (ps_good p) mx p in
      if (4 <? ps_good p1)%Z then (set_counts 1 0 mx p1, false)
      else
        let bad' := (ps_bad p1 + 1)%Z in
        let p2 := set_counts bad' (ps_good p1) mx p1 in
        if (5 <? bad')%Z || (match pf_state f with PF_array => false | _ => mx <? len (pf_olist f) end)
        then (pwarnp PW_too_many p2, true)
        else (set_counts bad' 0 mx p2, false).

(* Parser::add / add_null.  The result says whether warn_duplicate_key's check threw. *)
Definition add_obj (sanity : bool) (is_null : bool) (o : mobj) (p : pstate) : pstate * bool :=
  let f := cur_frame p in
  let bump (f' : pframe) := if is_null then mkFrame (pf_state f') (pf_olist f') (pf_dict f') (pf_key f') (pf_nulls f' + 1) else f' in
  match pf_state f with
  | PF_dict_value =>
      let '(d', inserted) := map_put (pf_key f) o (pf_dict f) in
      let f1 := mkFrame PF_dict_value (pf_olist f) d' (pf_key f) (pf_nulls f) in
      if inserted then (set_frame (bump (mkFrame PF_dict_key (pf_olist f1) d' (pf_key f1) (pf_nulls f1))) p, false)
      else
        let '(p1, threw) := check_too_many sanity (pwarnp PW_dup_key (set_frame f1 p)) in
        if threw then (p1, true)
        else
          let f2 := cur_frame p1 in
          (set_frame (bump (mkFrame PF_dict_key (pf_olist f2) (pf_dict f2) (pf_key f2) (pf_nulls f2))) p1, false)
  | st => (set_frame (bump (mkFrame st (o :: pf_olist f) (pf_dict f) (pf_key f) (pf_nulls f))) p, false)
  end.

Definition step_of (r : pstate * bool) : pstep := let '(p, threw) := r in if threw then PS_error p else PS_continue p.

(* Parser::add_bad_null(msg) *)
Definition add_bad_null (sanity : bool) (w : pwarn) (p : pstate) : pstep :=
  let '(p1, threw) := check_too_many sanity (pwarnp w p) in
  if threw then PS_error p1 else step_of (add_obj sanity true MoNull p1).

(* Parser::add_scalar<T> *)
Definition add_scalar (sanity : bool) (o : mobj) (p : pstate) : pstep :=
  let f := cur_frame p in
  let limit := if (negb (ps_bad p =? 0)%Z) || sanity then parser_max_container_damaged else parser_max_container in
  if (limit <=? len (pf_olist f)) || (limit <=? len (pf_dict f)) then
    (* max_bad_count_ = 1; check_too_many_bad_tokens() always throws *)
    PS_error (fst (check_too_many sanity (set_counts (ps_bad p) (ps_good p) 1 p)))
  else step_of (add_obj sanity false o p).

(* value of an integer token: QUtil::string_to_ll; None = std::range_error *)
Definition text_to_ll (s : list N) : option Z :=
  let '(neg, ds) := match s with
                    | b :: r => if b =? 45 then (true, r) else if b =? 43 then (false, r) else (false, s)
                    | [] => (false, [])
                    end in
  let v := Z.of_N (dec_value ds) in
  let z := if neg then (- v)%Z else v in
  if ((-9223372036854775808 <=? z) && (z <=? 9223372036854775807))%Z then Some z else None.

Definition int_slot (p : pstate) (count : N) : Z := if count mod 2 =? 0 then ps_int0 p else ps_int1 p.
Definition put_slot (count : N) (z : Z) (p : pstate) : pstate :=
  if count mod 2 =? 0 then set_ints (ps_int_count p) z (ps_int1 p) p else set_ints (ps_int_count p) (ps_int0 p) z p.

(* Parser::add_int(count) *)
Definition add_int (sanity : bool) (count : N) (p : pstate) : pstate * bool :=
  add_obj sanity false (MoInt (int_slot p count)) p.

(* "/QPDFFake" ++ decimal *)
Definition fake_key (n : N) : list N := [47; 81; 80; 68; 70; 70; 97; 107; 101] ++ dec_of_N n.

Fixpoint names_of (l : list mobj) : list (list N) :=
  match l with
  | [] => []
  | MoName n :: r => n :: names_of r
  | _ :: r => names_of r
  end.

Fixpoint find_fake (fuel : nat) (next : N) (d : list (list N * mobj)) (names : list (list N)) : N :=
  match fuel with
  | O => next
  | S f => if negb (map_has (fake_key next) d) && negb (existsb (list_eqb N.eqb (fake_key next)) names) then next
           else find_fake f (next + 1) d names
  end.

(* Parser::fix_missing_keys (olist given in order) *)
Fixpoint fix_missing (items : list mobj) (next : N) (names : list (list N)) (d : list (list N * mobj)) (w : list pwarn)
  : list (list N * mobj) * list pwarn :=
  match items with
  | [] => (d, w)
  | it :: r =>
      let k := find_fake (S (length d + length names)) next d names in
      fix_missing r (k + 1) names (fst (map_put (fake_key k) it d)) (PW_fake_key :: w)
  end.

Definition is_word_R (t : token) : bool :=
  match tok_type t with TT_word => list_eqb N.eqb (tok_value t) [82] | _ => false end.
Definition str_endobj : list N := [101; 110; 100; 111; 98; 106].
Definition str_endstream : list N := [101; 110; 100; 115; 116; 114; 101; 97; 109].

(* pop the finished container and add it to the parent, or return it *)
Definition close_container (sanity : bool) (o : mobj) (p : pstate) : pstep :=
  match ps_stack p with
  | _ :: (_ :: _) as rest => step_of (add_obj sanity false o (set_stack rest p))
  | _ => PS_return p (Some o)
  end.

(* the switch of parse_remainder on the token type (after the integer-buffer handling) *)
Definition remainder_switch (cs sanity : bool) (tok : token) (p : pstate) : pstep :=
  let f := cur_frame p in
  match tok_type tok with
  | TT_eof =>
      let p1 := pwarnp PW_parse_error p in
      if cs then PS_return p1 None else PS_return (pwarnp PW_eof p1) None
  | TT_bad =>
      let '(p1, threw) := check_too_many sanity p in
      if threw then PS_error p1 else step_of (add_obj sanity true MoNull p1)
  | TT_brace_open | TT_brace_close => add_bad_null sanity PW_brace p
  | TT_array_close =>
      match pf_state f with
      | PF_array => close_container sanity (MoArr (rev' (pf_olist f))) p
      | _ => if sanity then PS_return (pwarnp PW_giveup_arr p) None else add_bad_null sanity PW_arr_close p
      end
  | TT_dict_close =>
      match pf_state f with
      | PF_array => if sanity then PS_return (pwarnp PW_giveup_dict p) None else add_bad_null sanity PW_dict_close p
      | st =>
          let '(d1, p1) := match st with
                           | PF_dict_value => (fst (map_put (pf_key f) MoNull (pf_dict f)), pwarnp PW_premature p)
                           | _ => (pf_dict f, p)
                           end in
          let '(d2, p2) :=
            match pf_olist f with
            | [] => (d1, p1)
            | _ => if sanity then (d1, pwarnp PW_nonname_ignored p1)
                   else let items := rev' (pf_olist f) in
                        let '(d', w') := fix_missing items 1 (names_of items) d1 (ps_warn p1) in
                        (d', mkPstate (ps_stack p1) (ps_int_count p1) (ps_int0 p1) (ps_int1 p1) (ps_bad p1) (ps_good p1)
                                      (ps_max_bad p1) w')
            end in
          close_container sanity (MoDict d2) p2
      end
  | TT_array_open | TT_dict_open =>
      if parser_max_nesting <? len (ps_stack p) then PS_error (pwarnp PW_limit_nesting p)
      else
        let st := match tok_type tok with TT_array_open => PF_array | _ => PF_dict_key end in
        PS_continue (set_stack (mkFrame st [] [] [] 0 :: ps_stack p) p)
  | TT_bool => add_scalar sanity (MoBool (list_eqb N.eqb (tok_value tok) str_true)) p
  | TT_null => step_of (add_obj sanity true MoNull p)
  | TT_integer =>
      match text_to_ll (tok_value tok) with
      | None => PS_exception p
      | Some z => if cs then add_scalar sanity (MoInt z) p
                  else PS_continue (set_ints 1 (ps_int0 p) z p)
      end
  | TT_real => add_scalar sanity (MoReal (tok_value tok)) p
  | TT_name =>
      match pf_state f with
      | PF_dict_key => PS_continue (set_frame (mkFrame PF_dict_value (pf_olist f) (pf_dict f) (tok_value tok) (pf_nulls f)) p)
      | _ => add_scalar sanity (MoName (tok_value tok)) p
      end
  | TT_word =>
      if cs then add_scalar sanity (MoOp (tok_value tok)) p
      else if sanity then
        if list_eqb N.eqb (tok_value tok) str_endobj || list_eqb N.eqb (tok_value tok) str_endstream
        then PS_return (pwarnp PW_giveup_endobj p) None
        else add_bad_null sanity PW_unknown_null p
      else
        let '(p1, threw) := check_too_many sanity (pwarnp PW_unknown_str p) in
        if threw then PS_error p1 else add_scalar sanity (MoStr (tok_value tok)) p1
  | TT_string => add_scalar sanity (MoStr (tok_value tok)) p
  | _ => add_bad_null sanity PW_unknown_type p
  end.

Definition in_int_range (z : Z) : bool := ((-2147483648 <=? z) && (z <=? 2147483647))%Z.

(* one iteration of the while(true) of parse_remainder, for the token just read *)
Definition remainder_step (cs sanity : bool) (tok : token) (p0 : pstate) : pstep :=
  let p := set_counts (ps_bad p0) (ps_good p0 + 1)%Z (ps_max_bad p0) p0 in
  let ic := ps_int_count p in
  if negb (ic =? 0) then
    match tok_type tok with
    | TT_integer =>
        let ic1 := ic + 1 in
        let r := if 2 <? ic1 then add_int sanity ic1 (set_ints ic1 (ps_int0 p) (ps_int1 p) p)
                 else (set_ints ic1 (ps_int0 p) (ps_int1 p) p, false) in
        let '(p1, threw) := r in
        if threw then PS_error p1
        else match text_to_ll (tok_value tok) with
             | None => PS_exception p1
             | Some z => PS_continue (put_slot ic1 z p1)
             end
    | _ =>
        if (2 <=? ic) && is_word_R tok then
          let id := int_slot p (ic - 1) in
          let gen := int_slot p ic in
          if negb (in_int_range id) || negb (in_int_range gen) then PS_exception p
          else
            let p1 := set_ints 0 (ps_int0 p) (ps_int1 p) in
            if negb ((id <? 1) || (gen <? 0) || (65535 <=? gen))%Z
            then match add_obj sanity false (MoRef id gen) p with
                 | (p2, threw) => if threw then PS_error p2 else PS_continue (p1 p2)
                 end
            else match add_bad_null sanity PW_bad_ref p with
                 | PS_continue p2 => PS_continue (p1 p2)
                 | other => other
                 end
        else
          let '(pa, t1) := if 1 <? ic then add_int sanity (ic - 1) p else (p, false) in
          if t1 then PS_error pa
          else let '(pb, t2) := add_int sanity ic pa in
               if t2 then PS_error pb
               else remainder_switch cs sanity tok (set_ints 0 (ps_int0 pb) (ps_int1 pb) pb)
    end
  else remainder_switch cs sanity tok p.

(* result of a parse: object (None = "{}"), warnings in order, tokenizer, rest of input, tell() *)
Record presult := mkPresult {
  pr_obj : option mobj; pr_empty : bool; pr_warn : list pwarn; pr_tk : tk; pr_rest : list N; pr_pos : N }.

Definition tok_warn (t1 : tk) (p : pstate) : pstate :=
  match t_err t1 with TE_none => p | e => pwarnp (PW_tok e) p end.

Fixpoint remainder_loop (fuel : nat) (cs sanity : bool) (p : pstate) (t : tk) (inp : list N) (pos : N) : presult :=
  match fuel with
  | O => mkPresult None false (rev' (ps_warn p)) t inp pos
  | S f =>
      let '(t1, rest, newpos, _) := next_token 0 t inp pos in
      let p1 := tok_warn t1 p in
      match remainder_step cs sanity (tk_token t1) p1 with
      | PS_continue p2 => remainder_loop f cs sanity p2 t1 rest newpos
      | PS_return p2 o => mkPresult o false (rev' (ps_warn p2)) t1 rest newpos
      | PS_error p2 => mkPresult None false (rev' (ps_warn p2)) t1 rest newpos
      | PS_exception p2 => mkPresult None false (rev' (PW_exception :: ps_warn p2)) t1 rest newpos
      end
  end.

Definition pstate0 : pstate := mkPstate [] 0 0%Z 0%Z 0%Z 0%Z parser_max_errors [].

(* Parser::parse(content_stream) = parse_first + the catch clauses *)
Definition parse_object (cs sanity : bool) (t : tk) (inp : list N) (pos : N) : presult :=
  let '(t1, rest, newpos, last) := next_token 0 t inp pos in
  let p := tok_warn t1 pstate0 in
  let tok := tk_token t1 in
  let ret (o : option mobj) (p' : pstate) := mkPresult o false (rev' (ps_warn p')) t1 rest newpos in
  match tok_type tok with
  | TT_eof => if cs then mkPresult None true (rev' (ps_warn p)) t1 rest newpos else ret None (pwarnp PW_eof p)
  | TT_bad => ret None p
  | TT_brace_open | TT_brace_close => ret None (pwarnp PW_brace p)
  | TT_array_close => ret None (pwarnp PW_arr_close p)
  | TT_dict_close => ret None (pwarnp PW_dict_close p)
  | TT_array_open | TT_dict_open =>
      let st := match tok_type tok with TT_array_open => PF_array | _ => PF_dict_key end in
      (* fuel: every iteration consumes at least one byte (next_token_progress) except at the end of input, where each
         further iteration is a bad token and the budget of parser_max_errors = 15 stops the loop *)
      remainder_loop (length rest + 20) cs sanity (set_stack [mkFrame st [] [] [] 0] p) t1 rest newpos
  | TT_bool => ret (Some (MoBool (list_eqb N.eqb (tok_value tok) str_true))) p
  | TT_null => ret (Some MoNull) p
  | TT_integer =>
      match text_to_ll (tok_value tok) with
      | Some z => ret (Some (MoInt z)) p
      | None => ret None (pwarnp PW_exception p)
      end
  | TT_real => ret (Some (MoReal (tok_value tok))) p
  | TT_name => ret (Some (MoName (tok_value tok))) p
  | TT_word =>
      if cs then ret (Some (MoOp (tok_value tok))) p
      else if list_eqb N.eqb (tok_value tok) str_endobj then
        (* empty object: seek back to the start of the token *)
        mkPresult None true (rev' (PW_empty :: ps_warn p)) t1 (skipn (N.to_nat (last - pos)) inp) last
      else ret (Some (MoStr (tok_value tok))) (pwarnp PW_unknown_str p)
  | TT_string => ret (Some (MoStr (tok_value tok))) p
  | _ => ret None (pwarnp PW_unknown_type p)
  end.

(* QPDFObjectHandle::parse(QPDF* context, std::string const&): (object, warnings), or the
   "trailing data found" QPDFExc.  isspace is the C-locale one: SP HT LF VT FF CR. *)
Definition c_isspace (b : N) : bool := (b =? 32) || ((9 <=? b) && (b <=? 13)).

Inductive parse_string_result :=
| PSR_ok (o : mobj) (w : list pwarn)
| PSR_trailing (w : list pwarn).

Definition parse_string (inp : list N) : parse_string_result :=
  (* Parser::parse(input, description, context) uses a fresh qpdf::Tokenizer: allowEOF() is not called *)
  let r := parse_object false false (tk_new false false) inp 0 in
  let o := match pr_obj r with Some o => o | None => MoNull end in
  if forallb c_isspace (pr_rest r) then PSR_ok o (pr_warn r) else PSR_trailing (pr_warn r).
