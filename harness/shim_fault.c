/* LD_PRELOAD fault shim of the C10 / C11 checks.
 *
 * glibc's stdio does not reach write(2) through the PLT, so interposing write() would miss the
 * flushes that matter.  The shim interposes the calls qpdf (and libstdc++'s std::cout, which is a
 * stdio_sync_filebuf over `stdout`) make themselves: fopen, fwrite, fputc/putc/fputs, fflush,
 * fclose, rename, unlink, remove.  It tracks the output streams (paths containing QV_SHIM_MATCH,
 * opened for writing; `stdout` when QV_SHIM_STDOUT=1), numbers the operations on them 1,2,3...,
 * logs each one, and at operation number QV_SHIM_K injects the fault selected by QV_SHIM_MODE:
 *
 *   full      immediately before the operation a descriptor of /dev/full is dup2'ed over the
 *             stream's descriptor: the real libc then meets a kernel-level ENOSPC at its next
 *             flush (fopen: the file is created, then its descriptor is replaced; rename/unlink:
 *             the call fails with ENOSPC without being performed)
 *   diskfull  as `full`, and every later operation's stream is replaced too (a disk that stays full)
 *   fail      fopen/rename/unlink/remove fail with EACCES without being performed; stream
 *             operations behave as `full`
 *   killb     the process is SIGKILLed immediately before the operation
 *   killa     the operation is performed, then the process is SIGKILLed
 *
 * QV_SHIM_FSIZE=<bytes> sets RLIMIT_FSIZE and ignores SIGXFSZ (EFBIG from the kernel, nothing interposed).
 *
 * Log (QV_SHIM_LOG = path, or QV_SHIM_LOGFD = inherited descriptor; raw write(2)): one line per operation
 *   <n> <op> <stream-id> <name> <arg> <ret> <errno> <size>
 * size = st_size of the path (of the saved descriptor for stdout) after the operation, i.e. what
 * the kernel has accepted so far; this is how the harness observes libc's chunking.
 */
#define _GNU_SOURCE
#include <dlfcn.h>
#include <errno.h>
#include <fcntl.h>
#include <signal.h>
#include <stdarg.h>
#include <stdio.h>
#include <stdlib.h>
#include <string.h>
#include <sys/resource.h>
#include <sys/stat.h>
#include <sys/syscall.h>
#include <unistd.h>

#define MAXS 256

static FILE* (*r_fopen)(const char*, const char*);
static FILE* (*r_fopen64)(const char*, const char*);
static size_t (*r_fwrite)(const void*, size_t, size_t, FILE*);
static int (*r_fputc)(int, FILE*);
static int (*r_putc)(int, FILE*);
static int (*r_fputs)(const char*, FILE*);
static int (*r_fflush)(FILE*);
static int (*r_fclose)(FILE*);
static int (*r_rename)(const char*, const char*);
static int (*r_unlink)(const char*);
static int (*r_remove)(const char*);

struct ent { FILE* f; int id; int open; char name[512]; };
static struct ent tab[MAXS];
static int ntab = 0;
static int inited = 0;
static int log_fd = -1;
static long opno = 0;
static long K = -1;
static int mode = 0; /* 0 none 1 full 2 diskfull 3 fail 4 killb 5 killa */
static const char* match = NULL;
static int track_stdout = 0;
static int saved_stdout = -1;
static int tripped = 0;

__attribute__((constructor)) static void init(void) {
    if (inited) return;
    inited = 1;
    r_fopen = dlsym(RTLD_NEXT, "fopen");
    r_fopen64 = dlsym(RTLD_NEXT, "fopen64");
    r_fwrite = dlsym(RTLD_NEXT, "fwrite");
    r_fputc = dlsym(RTLD_NEXT, "fputc");
    r_putc = dlsym(RTLD_NEXT, "putc");
    r_fputs = dlsym(RTLD_NEXT, "fputs");
    r_fflush = dlsym(RTLD_NEXT, "fflush");
    r_fclose = dlsym(RTLD_NEXT, "fclose");
    r_rename = dlsym(RTLD_NEXT, "rename");
    r_unlink = dlsym(RTLD_NEXT, "unlink");
    r_remove = dlsym(RTLD_NEXT, "remove");
    const char* l = getenv("QV_SHIM_LOG");
    if (l) log_fd = open(l, O_WRONLY | O_CREAT | O_APPEND | O_CLOEXEC, 0644);
    const char* lf = getenv("QV_SHIM_LOGFD"); /* an inherited pipe: not subject to RLIMIT_FSIZE */
    if (lf) { log_fd = atoi(lf); fcntl(log_fd, F_SETFD, FD_CLOEXEC); }
    if (log_fd >= 0 && log_fd < 200) { /* keep it out of the way of the descriptors qpdf gets */
        int n = fcntl(log_fd, F_DUPFD_CLOEXEC, 200);
        if (n >= 0) { close(log_fd); log_fd = n; }
    }
    const char* k = getenv("QV_SHIM_K");
    if (k) K = atol(k);
    const char* m = getenv("QV_SHIM_MODE");
    if (m) {
        if (!strcmp(m, "full")) mode = 1;
        else if (!strcmp(m, "diskfull")) mode = 2;
        else if (!strcmp(m, "fail")) mode = 3;
        else if (!strcmp(m, "killb")) mode = 4;
        else if (!strcmp(m, "killa")) mode = 5;
    }
    const char* fs = getenv("QV_SHIM_FSIZE"); /* kernel-level EFBIG: RLIMIT_FSIZE with SIGXFSZ ignored */
    if (fs) {
        struct rlimit rl; rl.rlim_cur = rl.rlim_max = (rlim_t)atol(fs);
        signal(SIGXFSZ, SIG_IGN);
        setrlimit(RLIMIT_FSIZE, &rl);
    }
    match = getenv("QV_SHIM_MATCH");
    const char* so = getenv("QV_SHIM_STDOUT");
    track_stdout = so && so[0] == '1';
    if (track_stdout) {
        saved_stdout = fcntl(1, F_DUPFD_CLOEXEC, 210);
        tab[ntab].f = stdout; tab[ntab].id = ntab; tab[ntab].open = 1;
        strcpy(tab[ntab].name, "<stdout>");
        ntab++;
    }
}

static struct ent* find(FILE* f) {
    for (int i = 0; i < ntab; ++i)
        if (tab[i].open && tab[i].f == f) return &tab[i];
    return NULL;
}

static int path_tracked(const char* p) { return match && match[0] && p && strstr(p, match) != NULL; }

static long size_of(struct ent* e) {
    struct stat st;
    if (e && e->f == stdout && !strcmp(e->name, "<stdout>")) {
        if (saved_stdout >= 0 && fstat(saved_stdout, &st) == 0) return (long)st.st_size;
        return -1;
    }
    if (e && stat(e->name, &st) == 0) return (long)st.st_size;
    return -1;
}

static void logop(long n, const char* op, int id, const char* name, long arg, long ret, int err, long size) {
    if (log_fd < 0) return;
    char buf[1400];
    int len = snprintf(buf, sizeof buf, "%ld %s %d %s %ld %ld %d %ld\n", n, op, id, name, arg, ret, err, size);
    if (len > 0) { ssize_t r = write(log_fd, buf, (size_t)len); (void)r; }
}

static void make_full(int fd) {
    int d = open("/dev/full", O_WRONLY | O_CLOEXEC);
    if (d >= 0) { dup2(d, fd); close(d); }
}

static void die(void) { syscall(SYS_kill, getpid(), SIGKILL); for (;;) pause(); }

/* returns 1 when the fault of this operation number is "fail the call without performing it" */
static int before(long n, struct ent* e) {
    if (mode == 0 || K < 0) return 0;
    if (n == K) {
        tripped = 1;
        if (mode == 4) { logop(n, "KILLB", e ? e->id : -1, e ? e->name : "-", 0, 0, 0, -1); die(); }
        if (mode == 1 || mode == 2 || mode == 3) {
            if (e) { make_full(fileno(e->f)); return 0; }
            return 1;
        }
    } else if (n > K && mode == 2 && e) {
        make_full(fileno(e->f));
    }
    return 0;
}

static void after(long n) {
    if (mode == 5 && n == K) { logop(n, "KILLA", -1, "-", 0, 0, 0, -1); die(); }
}

static FILE* do_fopen(FILE* (*real)(const char*, const char*), const char* path, const char* m) {
    init();
    if (!path_tracked(path) || !m || !(strchr(m, 'w') || strchr(m, 'a') || strchr(m, '+')))
        return real(path, m);
    long n = ++opno;
    int failcall = before(n, NULL);
    if (failcall && mode == 3) {
        logop(n, "fopen", -1, path, 0, 0, EACCES, -1);
        errno = EACCES;
        return NULL;
    }
    FILE* f = real(path, m);
    int e = errno;
    struct ent* t = NULL;
    if (f && ntab < MAXS) {
        t = &tab[ntab];
        t->f = f; t->id = ntab; t->open = 1;
        strncpy(t->name, path, sizeof t->name - 1);
        ntab++;
        if (failcall || (mode == 2 && K >= 0 && n > K)) make_full(fileno(f));
    }
    logop(n, "fopen", t ? t->id : -1, path, 0, f ? 1 : 0, f ? 0 : e, t ? size_of(t) : -1);
    after(n);
    errno = e;
    return f;
}

FILE* fopen(const char* path, const char* m) { init(); return do_fopen(r_fopen, path, m); }
FILE* fopen64(const char* path, const char* m) { init(); return do_fopen(r_fopen64 ? r_fopen64 : r_fopen, path, m); }

size_t fwrite(const void* p, size_t sz, size_t cnt, FILE* f) {
    init();
    struct ent* e = find(f);
    if (!e) return r_fwrite(p, sz, cnt, f);
    long n = ++opno;
    before(n, e);
    errno = 0;
    size_t r = r_fwrite(p, sz, cnt, f);
    int er = errno;
    logop(n, "fwrite", e->id, e->name, (long)(sz * cnt), (long)(r * sz), er, size_of(e));
    after(n);
    errno = er;
    return r;
}

static int do_putc(int (*real)(int, FILE*), int c, FILE* f) {
    init();
    struct ent* e = find(f);
    if (!e) return real(c, f);
    long n = ++opno;
    before(n, e);
    errno = 0;
    int r = real(c, f);
    int er = errno;
    logop(n, "fwrite", e->id, e->name, 1, r == EOF ? 0 : 1, er, size_of(e));
    after(n);
    errno = er;
    return r;
}
int fputc(int c, FILE* f) { init(); return do_putc(r_fputc, c, f); }
#undef putc
int putc(int c, FILE* f) { init(); return do_putc(r_putc, c, f); }

int fputs(const char* s, FILE* f) {
    init();
    struct ent* e = find(f);
    if (!e) return r_fputs(s, f);
    long n = ++opno;
    before(n, e);
    errno = 0;
    int r = r_fputs(s, f);
    int er = errno;
    logop(n, "fwrite", e->id, e->name, (long)strlen(s), r == EOF ? 0 : (long)strlen(s), er, size_of(e));
    after(n);
    errno = er;
    return r;
}

int fflush(FILE* f) {
    init();
    struct ent* e = f ? find(f) : NULL;
    if (!e) return r_fflush(f);
    long n = ++opno;
    before(n, e);
    errno = 0;
    int r = r_fflush(f);
    int er = errno;
    logop(n, "fflush", e->id, e->name, 0, r, er, size_of(e));
    after(n);
    errno = er;
    return r;
}

int fclose(FILE* f) {
    init();
    struct ent* e = find(f);
    if (!e) return r_fclose(f);
    long n = ++opno;
    before(n, e);
    errno = 0;
    int r = r_fclose(f);
    int er = errno;
    e->open = 0;
    logop(n, "fclose", e->id, e->name, 0, r, er, size_of(e));
    after(n);
    errno = er;
    return r;
}

static int do_path2(const char* op, const char* a, const char* b) {
    init();
    int tracked = path_tracked(a) || (b && path_tracked(b));
    if (!tracked) {
        if (!strcmp(op, "rename")) return r_rename(a, b);
        if (!strcmp(op, "unlink")) return r_unlink(a);
        return r_remove(a);
    }
    long n = ++opno;
    char nm[1100];
    snprintf(nm, sizeof nm, "%s%s%s", a, b ? ">" : "", b ? b : "");
    if (before(n, NULL)) {
        int er = mode == 3 ? EACCES : ENOSPC;
        logop(n, op, -1, nm, 0, -1, er, -1);
        errno = er;
        return -1;
    }
    errno = 0;
    int r = !strcmp(op, "rename") ? r_rename(a, b) : (!strcmp(op, "unlink") ? r_unlink(a) : r_remove(a));
    int er = errno;
    logop(n, op, -1, nm, 0, r, er, -1);
    after(n);
    errno = er;
    return r;
}

int rename(const char* a, const char* b) { return do_path2("rename", a, b); }
int unlink(const char* a) { return do_path2("unlink", a, NULL); }
int remove(const char* a) { return do_path2("remove", a, NULL); }
