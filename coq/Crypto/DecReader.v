(* C06 model: the decision logic of qpdf's READER for encrypted input, written from the C++ of
   /repo as it is now:
     libqpdf/QPDF_encryption.cc  QPDF::EncryptionParameters::initialize, interpretCF, QPDF::decryptString,
                                 QPDF::decryptStream, QPDF::trim_user_password, QPDF::allowXxx,
     libqpdf/QPDF_objects.cc     Objects::readObject (a StringDecrypter only for indirect objects read after
                                 `encrypted` was set; none for members of object streams, none for the trailer),
     libqpdf/QPDFJob.cc          QPDFJob::doProcess (password candidates), createQPDF, getExitCode, showEncryption.
   The key derivation itself is the model of KeyDeriv.v (C05); Pl_AES_PDF is AesPdf.v; RC4 is Filters.v.
   No proofs here. *)
From QV Require Import Base.Bytes Crypto.Nib Filters.Filters Crypto.MD5 Crypto.SHA2Fast Crypto.AES Crypto.AesPdf
  Crypto.KeyDeriv Crypto.IsoRef Crypto.IsoEnc.
Local Open Scope N_scope.

(* ------------------------------------------------------------------ what initialize() reads *)

(* QPDF::encryption_method_e *)
Inductive c06_method := C6eNone | C6eUnknown | C6eRc4 | C6eAes | C6eAesv3.

(* one value of the /CF dictionary: not a dictionary (skipped) / a dictionary with its /CFM when that is a name *)
Inductive c06_cfentry :=
| C6CfNotDict
| C6CfDict (cfm : option (list N)).

(* the encryption dictionary as the accessors of initialize() see it: None = absent or of another type *)
Record c06_rdict := {
  c6r_filter : option (list N);          (* Name(/Filter) *)
  c6r_subfilter : bool;                  (* /SubFilter present and not null *)
  c6r_V : option Z;
  c6r_R : option Z;
  c6r_O : option (list N);
  c6r_U : option (list N);
  c6r_P : option Z;                      (* getIntValue(): long long *)
  c6r_OE : option (list N);
  c6r_UE : option (list N);
  c6r_Perms : option (list N);
  c6r_Length : option Z;
  c6r_encmeta : option bool;
  c6r_CF : list (list N * c06_cfentry);  (* in key order *)
  c6r_StmF : option (list N);
  c6r_StrF : option (list N);
  c6r_EFF : option (list N)
}.

Inductive c06_warn :=
| C6WInvalidID             (* 'invalid /ID in trailer dictionary' *)
| C6WSubFilter             (* 'file uses encryption SubFilters' *)
| C6WPerms                 (* '/Perms field in encryption dictionary doesn't match expected value' *)
| C6WUnknownStrF           (* 'unknown encryption filter for strings' *)
| C6WUnknownStmF.          (* 'unknown encryption filter for streams' *)

Inductive c06_err :=
| C6EPassword              (* qpdf_e_password 'invalid password' *)
| C6EUnsupported           (* qpdf_e_unsupported *)
| C6EDamaged.              (* qpdf_e_damaged_pdf *)

(* EncryptionParameters after initialize() *)
Record c06_state := {
  c6t_V : N;
  c6t_R : N;
  c6t_P : Z;                                  (* P(): the signed 32-bit reading *)
  c6t_encmeta : bool;
  c6t_filters : list (list N * c06_method);   (* crypt_filters *)
  c6t_cf_stream : c06_method;
  c6t_cf_string : c06_method;
  c6t_cf_file : c06_method;
  c6t_key : list N;                           (* encryption_key *)
  c6t_user_password : list N;                 (* user_password (padded when recovered from /O) *)
  c6t_user_matched : bool;
  c6t_owner_matched : bool
}.

Inductive c06_opened :=
| C6Ok (st : c06_state) (ws : list c06_warn)
| C6Err (e : c06_err) (ws : list c06_warn).

Definition c06_name_standard : list N := [83; 116; 97; 110; 100; 97; 114; 100].
Definition c06_name_V2 : list N := [86; 50].
Definition c06_name_AESV2 : list N := [65; 69; 83; 86; 50].
Definition c06_name_AESV3 : list N := [65; 69; 83; 86; 51].

(* the loop over /CF: 'if (cdict.isDictionary()) { method = e_none; if (Name CFM = cdict['/CFM']) ... }' *)
Definition c06_cfm_method (cfm : option (list N)) : c06_method :=
  match cfm with
  | None => C6eNone
  | Some n => if bytes_eqb n c06_name_V2 then C6eRc4
              else if bytes_eqb n c06_name_AESV2 then C6eAes
              else if bytes_eqb n c06_name_AESV3 then C6eAesv3
              else C6eUnknown
  end.

Fixpoint c06_read_CF (cf : list (list N * c06_cfentry)) : list (list N * c06_method) :=
  match cf with
  | [] => []
  | (n, C6CfNotDict) :: t => c06_read_CF t
  | (n, C6CfDict cfm) :: t => (n, c06_cfm_method cfm) :: c06_read_CF t
  end.

Fixpoint c06_filters_find (fs : list (list N * c06_method)) (name : list N) : option c06_method :=
  match fs with
  | [] => None
  | (n, m) :: t => if bytes_eqb n name then Some m else c06_filters_find t name
  end.

(* EncryptionParameters::interpretCF: null -> e_none; the map first; then /Identity; else unknown *)
Definition c06_interpretCF (fs : list (list N * c06_method)) (cf : option (list N)) : c06_method :=
  match cf with
  | None => C6eNone
  | Some n =>
      match c06_filters_find fs n with
      | Some m => m
      | None => if bytes_eqb n c06_name_identity then C6eNone else C6eUnknown
      end
  end.

(* static_cast<int>(long long): the low 32 bits read as signed; std::bitset<32>(unsigned long long) *)
Definition c06_to_int32 (z : Z) : Z :=
  let u := Z.modulo z 4294967296 in if Z.ltb u 2147483648 then u else Z.sub u 4294967296.
Definition c06_to_u32 (z : Z) : N := Z.to_N (Z.modulo z 4294967296).

(* QPDF::trim_user_password *)
Fixpoint c06_is_prefix (s p : list N) : bool :=
  match s, p with
  | [], _ => true
  | x :: s', y :: p' => (x =? y) && c06_is_prefix s' p'
  | _ :: _, [] => false
  end.
Fixpoint c06_trim_scan (l : list N) : list N :=
  match l with
  | [] => []
  | x :: t => if (x =? 40) && c06_is_prefix l kd_padding_string then [] else x :: c06_trim_scan t
  end.
Definition c06_trim_user_password (pw : list N) : list N :=
  if Nat.ltb (length pw) kd_key_bytes then pw else c06_trim_scan pw.

(* the /Length logic: 'int Length = 128; if (V <= 1) 40 else if (V == 4) 128 else if (V == 5) 256 else
   { if /Length is an integer { Length = it; if (Length % 8 || Length < 40 || Length > 128) Length = 128; } }' *)
Definition c06_length_bits (V : Z) (len : option Z) : Z :=
  if Z.leb V 1 then 40%Z
  else if Z.eqb V 4 then 128%Z
  else if Z.eqb V 5 then 256%Z
  else match len with
       | Some l => if negb (Z.eqb (Z.rem l 8) 0) || Z.ltb l 40 || Z.ltb 128 l then 128%Z else l
       | None => 128%Z
       end.

Definition c06_ws (b : bool) (w : c06_warn) : list c06_warn := if b then [w] else [].

(* what the caller supplies: the password bytes, or the file key when --password-is-hex-key is in effect *)
Inductive c06_secret :=
| C6Password (pw : list N)
| C6HexKey (key : list N).      (* QUtil::hex_decode(provided_password) *)

(* EncryptionParameters::initialize for a trailer that has /Encrypt with a dictionary value.
   id = Some id1 when /ID is an array of two elements whose first is a string. *)
Definition c06_initialize (d : c06_rdict) (id : option (list N)) (secret : c06_secret) : c06_opened :=
  let w0 := c06_ws (match id with None => true | Some _ => false end) C6WInvalidID in
  let id1 := match id with Some i => i | None => [] end in
  if negb (match c6r_filter d with Some n => bytes_eqb n c06_name_standard | None => false end)
  then C6Err C6EUnsupported w0 else
  let w1 := w0 ++ c06_ws (c6r_subfilter d) C6WSubFilter in
  match c6r_V d, c6r_R d, c6r_O d, c6r_U d, c6r_P d with
  | Some V, Some R, Some Ov, Some Uv, Some P =>
      if negb (Z.leb 2 R && Z.leb R 6 && (Z.eqb V 1 || Z.eqb V 2 || Z.eqb V 4 || Z.eqb V 5))
      then C6Err C6EUnsupported w1 else
      let p := c06_to_int32 P in
      let pu := c06_to_u32 P in
      (* /O /U (/OE /UE /Perms): padded with zero bytes when short; V < 5: must then be exactly 32 bytes *)
      let params : option (list N * list N * list N * list N * list N) :=
        if Z.ltb V 5 then
          let O' := kd_pad_short Ov kd_key_bytes in
          let U' := kd_pad_short Uv kd_key_bytes in
          if Nat.eqb (length O') kd_key_bytes && Nat.eqb (length U') kd_key_bytes
          then Some (O', U', [], [], []) else None
        else
          match c6r_OE d, c6r_UE d, c6r_Perms d with
          | Some OE, Some UE, Some Perms =>
              Some (kd_pad_short Ov 48, kd_pad_short Uv 48, kd_pad_short OE 32, kd_pad_short UE 32, kd_pad_short Perms 16)
          | _, _, _ => None
          end in
      match params with
      | None => C6Err C6EDamaged w1
      | Some (O', U', OE', UE', Perms') =>
          let Length := c06_length_bits V (c6r_Length d) in
          let encmeta := if Z.leb 4 V then match c6r_encmeta d with Some b => b | None => true end else true in
          let has_cf := Z.eqb V 4 || Z.eqb V 5 in
          let filters := if has_cf then c06_read_CF (c6r_CF d) else [] in
          let cf_stream := if has_cf then c06_interpretCF filters (c6r_StmF d) else C6eNone in
          let cf_string := if has_cf then c06_interpretCF filters (c6r_StrF d) else C6eNone in
          let cf_file := if has_cf then match c6r_EFF d with Some n => c06_interpretCF filters (Some n) | None => cf_stream end
                         else C6eNone in
          let ed := {| ed_V := Z.to_N V; ed_R := Z.to_N R; ed_len := Z.to_N (Z.quot Length 8); ed_P := pu;
                       ed_O := O'; ed_U := U'; ed_OE := OE'; ed_UE := UE'; ed_Perms := Perms'; ed_id1 := id1;
                       ed_encmeta := encmeta |} in
          let mk key upw um om :=
            {| c6t_V := Z.to_N V; c6t_R := Z.to_N R; c6t_P := p; c6t_encmeta := encmeta; c6t_filters := filters;
               c6t_cf_stream := cf_stream; c6t_cf_string := cf_string; c6t_cf_file := cf_file; c6t_key := key;
               c6t_user_password := upw; c6t_user_matched := um; c6t_owner_matched := om |} in
          match secret with
          | C6HexKey key => C6Ok (mk key [] false false) w1          (* 'ignore passwords in file' *)
          | C6Password pw =>
              if Z.ltb V 5 then
                (* owner check first; it leaves the recovered (padded) user password in user_password *)
                match kd_check_owner_V4 ed pw with
                | Some recovered =>
                    let um := bytes_eqb (c06_trim_user_password recovered) pw in
                    C6Ok (mk (kd_key_from_password ed recovered) recovered um true) w1
                | None =>
                    if kd_check_user_V4 ed pw
                    then C6Ok (mk (kd_key_from_password ed pw) pw true false) w1
                    else C6Err C6EPassword w1
                end
              else
                let om := kd_check_owner_V5 ed pw in
                let um := kd_check_user_V5 ed pw in
                if negb (om || um) then C6Err C6EPassword w1 else
                let '(key, perms_valid) := kd_recover_key_V5 ed pw in
                C6Ok (mk key (if um then pw else []) um om) (w1 ++ c06_ws (negb perms_valid) C6WPerms)
          end
      end
  | _, _, _, _, _ => C6Err C6EDamaged w1
  end.

(* ------------------------------------------------------------------ decryptString *)

(* the use_aes decision shared by decryptString and decryptStream: None = leave the data alone;
   Some (use_aes, warn) *)
Definition c06_switch (m : c06_method) : option (bool * bool) :=
  match m with
  | C6eNone => None
  | C6eAes | C6eAesv3 => Some (true, false)
  | C6eRc4 => Some (false, false)
  | C6eUnknown => Some (true, true)          (* 'Assume we'd want to use AES'; warning; cf_* reset to e_aes *)
  end.

(* getKeyForObject + Pl_AES_PDF(decrypt) / RC4: None = std::runtime_error (unsupported AES key length) *)
Definition c06_apply (st : c06_state) (use_aes : bool) (num gen : N) (data : list N) : option (list N) :=
  kd_decrypt_data (c6t_key st) (c6t_V st) use_aes num gen data.

(* result of decrypting one leaf: the bytes the rest of qpdf sees, and whether a warning was issued.
   C6LeafError = the exception path of decryptString ('error decrypting string for object ...') *)
Inductive c06_leaf_result :=
| C6LeafOk (data : list N) (warned : bool)
| C6LeafError.

(* where: C6InObject = a string token of an indirect object read by Objects::readObject once `encrypted` is
   set; C6InObjStm = parsed by the object-stream overload of Parser::parse (no decrypter); C6InTrailer =
   og is not indirect (direct in the trailer) *)
(* does a string token at this place go through the StringDecrypter (and stay decrypted)?
   C6InSigContents: QPDFParser remembers the raw /Contents string of every dictionary it parses with a decrypter and
   puts it back when the finished dictionary has /Type /Sig, a /ByteRange and a string /Contents (QPDFParser.cc,
   'contents_string'); a signature dictionary without /Type is not recognised and its /Contents stays 'decrypted' *)
Definition c06_where_decrypts (w : c06_where) : bool :=
  match w with
  | C6InObject => true
  | C6InObjStm | C6InTrailer => false
  | C6InSigContents typed => negb typed
  end.

Definition c06_decrypt_string (st : c06_state) (w : c06_where) (num gen : N) (s : list N) : c06_leaf_result :=
  match c06_where_decrypts w with
  | false => C6LeafOk s false
  | true =>
      let dec := if 4 <=? c6t_V st then c06_switch (c6t_cf_string st) else Some (false, false) in
      match dec with
      | None => C6LeafOk s false
      | Some (use_aes, warn) =>
          match c06_apply st use_aes num gen s with
          | Some r => C6LeafOk r warn
          | None => C6LeafError
          end
      end
  end.

(* ------------------------------------------------------------------ decryptStream *)

(* QPDFObjectHandle::isOrHasName('/Crypt') *)
Definition c06_is_crypt (n : option (list N)) : bool :=
  match n with Some x => bytes_eqb x c06_name_crypt | None => false end.
Definition c06_is_or_has_crypt (f : c06_filter) : bool :=
  match f with
  | C6FlNone => false
  | C6FlName n => bytes_eqb n c06_name_crypt
  | C6FlArray l => existsb c06_is_crypt l
  end.

(* 'Array filter = stream_dict['/Filter']; Array decode = stream_dict.getKey('/DecodeParms')': an Array made
   of a non-array has size 0 and iterates over nothing *)
Definition c06_filter_items (f : c06_filter) : list (option (list N)) :=
  match f with C6FlArray l => l | _ => [] end.
Definition c06_decode_items (p : c06_dparms) : list c06_parm :=
  match p with C6DpArray l => l | _ => [] end.

(* the loop 'for (Name item: filter) { if (item == '/Crypt') { if (Name name = decode[i]['/Name']) {...} break; } ++i; }' *)
Fixpoint c06_array_crypt_name (items : list (option (list N))) (decode : list c06_parm) (i : nat) : option (list N) :=
  match items with
  | [] => None
  | x :: t =>
      if c06_is_crypt x then
        match nth i decode C6PmNull with
        | C6PmDict _ (Some n) => Some n
        | _ => None
        end
      else c06_array_crypt_name t decode (S i)
  end.

(* the method decryptStream arrives at before the switch (V >= 4) *)
Definition c06_stream_method (st : c06_state) (s : c06_sdict) : c06_method :=
  let from_parms :=
    if c06_is_or_has_crypt (c6d_filter s) then
      match c6d_dparms s with
      | C6DpOne (C6PmDict has_type name) =>
          (* 'if (Dictionary decode_parms = ...) { if (Name(decode_parms['/Type']) == '/CryptFilterDecodeParms') ...' *)
          if has_type then c06_interpretCF (c6t_filters st) name else C6eUnknown
      | dp =>
          let items := c06_filter_items (c6d_filter s) in
          let decode := c06_decode_items dp in
          if Nat.eqb (length items) (length decode) then
            match c06_array_crypt_name items decode 0 with
            | Some n => c06_interpretCF (c6t_filters st) (Some n)
            | None => C6eUnknown
            end
          else C6eUnknown
      end
    else C6eUnknown in
  match from_parms with
  | C6eUnknown => if negb (c6t_encmeta st) && c6d_rootmeta s then C6eNone else c6t_cf_stream st
  | m => m
  end.

Definition c06_decrypt_stream (st : c06_state) (s : c06_sdict) (num gen : N) (data : list N) : c06_leaf_result :=
  if c6d_xref s then C6LeafOk data false else
  let dec := if 4 <=? c6t_V st then c06_switch (c06_stream_method st s) else Some (false, false) in
  match dec with
  | None => C6LeafOk data false
  | Some (use_aes, warn) =>
      match c06_apply st use_aes num gen data with
      | Some r => C6LeafOk r warn
      | None => C6LeafError
      end
  end.

Definition c06_decrypt_leaf (st : c06_state) (l : c06_leaf) : c06_leaf_result :=
  match c6l_kind l with
  | C6String w => c06_decrypt_string st w (c6l_num l) (c6l_gen l) (c6l_data l)
  | C6Stream s => c06_decrypt_stream st s (c6l_num l) (c6l_gen l) (c6l_data l)
  end.

(* the method (as a crypt filter method of the standard) the reader ends up undoing for a leaf; used to state
   the method-selection theorems. AESV2 and AESV3 are the same pipeline; the key differs through V. *)
Definition c06_method_cfm (V : N) (dec : option (bool * bool)) : c06_cfm :=
  match dec with
  | None => C6None
  | Some (false, _) => C6V2
  | Some (true, _) => if 5 <=? V then C6AESV3 else C6AESV2
  end.
Definition c06_reader_string_cfm (st : c06_state) (w : c06_where) : c06_cfm :=
  match c06_where_decrypts w with
  | false => C6None
  | true => c06_method_cfm (c6t_V st) (if 4 <=? c6t_V st then c06_switch (c6t_cf_string st) else Some (false, false))
  end.
Definition c06_reader_stream_cfm (st : c06_state) (s : c06_sdict) : c06_cfm :=
  if c6d_xref s then C6None else
  c06_method_cfm (c6t_V st) (if 4 <=? c6t_V st then c06_switch (c06_stream_method st s) else Some (false, false)).

(* ------------------------------------------------------------------ permissions (QPDF::allowXxx) *)
Definition c06_Pbit (st : c06_state) (bit : N) : bool := N.testbit (c06_to_u32 (c6t_P st)) (bit - 1).
Definition c06_allow_accessibility st := if c6t_R st <? 3 then c06_Pbit st 5 else c06_Pbit st 10.
Definition c06_allow_extract_all st := c06_Pbit st 5.
Definition c06_allow_print_low st := c06_Pbit st 3.
Definition c06_allow_print_high st := c06_allow_print_low st && (if c6t_R st <? 3 then true else c06_Pbit st 12).
Definition c06_allow_modify_assembly st := if c6t_R st <? 3 then c06_Pbit st 4 else c06_Pbit st 11.
Definition c06_allow_modify_form st := if c6t_R st <? 3 then c06_Pbit st 6 else c06_Pbit st 9.
Definition c06_allow_modify_annotation st := c06_Pbit st 6.
Definition c06_allow_modify_other st := c06_Pbit st 4.
Definition c06_allow_modify_all st :=
  c06_allow_modify_annotation st && c06_allow_modify_other st &&
  (if c6t_R st <? 3 then true else c06_allow_modify_form st && c06_allow_modify_assembly st).
(* the eight lines of showEncryption, in its order *)
Definition c06_show_perms (st : c06_state) : list bool :=
  [c06_allow_accessibility st; c06_allow_extract_all st; c06_allow_print_low st; c06_allow_print_high st;
   c06_allow_modify_assembly st; c06_allow_modify_form st; c06_allow_modify_annotation st; c06_allow_modify_other st].

(* ------------------------------------------------------------------ QPDFJob: candidates, exit codes, output *)

(* QPDFJob::doProcess: `supplied` = --password given; candidates = QUtil::possible_repaired_encodings(password)
   (the supplied password first); with more than one candidate the supplied password is tried once more at the
   end so that its exception is the one reported. No recovery with --suppress-password-recovery,
   --password-is-hex-key, or when no password was given. *)
Definition c06_candidates (recovery : bool) (encodings : list (list N)) (pw : list N) : list (list N) :=
  if recovery then
    match encodings with
    | _ :: _ :: _ => encodings ++ [pw]
    | _ => [pw]            (* possible_repaired_encodings always returns the supplied password first *)
    end
  else [pw].

(* the try loop: the first candidate that opens wins; otherwise the result of the last attempt *)
Fixpoint c06_try (open : list N -> c06_opened) (cands : list (list N)) (last : c06_opened) : c06_opened :=
  match cands with
  | [] => last
  | pw :: t => match open pw with
               | C6Ok st ws => C6Ok st ws
               | C6Err e ws => c06_try open t (C6Err e ws)
               end
  end.

Definition c06_job_open (d : c06_rdict) (id : option (list N)) (hexkey : option (list N)) (recovery : bool)
           (encodings : list (list N)) (pw : list N) : c06_opened :=
  match hexkey with
  | Some k => c06_initialize d id (C6HexKey k)
  | None => c06_try (fun p => c06_initialize d id (C6Password p)) (c06_candidates recovery encodings pw)
                    (C6Err C6EPassword [])
  end.

(* what the process does that is visible from outside *)
Inductive c06_event :=
| C6EvOpenInput
| C6EvOpenOutput            (* the output file is created / truncated *)
| C6EvWriteOutput
| C6EvMessage (e : c06_err).

Inductive c06_action :=
| C6ActWrite                (* an output file was named: --decrypt, default preservation, --json-output, ... *)
| C6ActQuery (q : c06_query)
| C6ActShowEncryption.

(* QPDFJob::run -> createQPDF -> (writeOutfile | doInspection); getExitCode; qpdf.cc's handler for exceptions
   (exit 2). `input` = None: the input has no /Encrypt. warnings = the reader warned (exit 3). *)
Definition c06_job (act : c06_action) (input : option c06_opened) (more_warnings : bool) : list c06_event * N :=
  match input with
  | None =>
      match act with
      | C6ActQuery _ => ([C6EvOpenInput], 2)                        (* EXIT_IS_NOT_ENCRYPTED for both queries *)
      | C6ActWrite => ([C6EvOpenInput; C6EvOpenOutput; C6EvWriteOutput], if more_warnings then 3 else 0)
      | C6ActShowEncryption => ([C6EvOpenInput], if more_warnings then 3 else 0)
      end
  | Some (C6Err C6EPassword _) =>
      match act with
      | C6ActQuery _ => ([C6EvOpenInput], 0)      (* encrypted | password_incorrect: 0 for both queries *)
      | C6ActShowEncryption => ([C6EvOpenInput; C6EvMessage C6EPassword], 2)
      | C6ActWrite => ([C6EvOpenInput; C6EvMessage C6EPassword], 2)
      end
  | Some (C6Err e _) => ([C6EvOpenInput; C6EvMessage e], 2)
  | Some (C6Ok st ws) =>
      match act with
      | C6ActQuery C6QIsEncrypted => ([C6EvOpenInput], 0)
      | C6ActQuery C6QRequiresPassword => ([C6EvOpenInput], 3)      (* EXIT_CORRECT_PASSWORD *)
      | C6ActShowEncryption =>
          ([C6EvOpenInput], match ws with [] => if more_warnings then 3 else 0 | _ => 3 end)
      | C6ActWrite =>
          ([C6EvOpenInput; C6EvOpenOutput; C6EvWriteOutput], match ws with [] => if more_warnings then 3 else 0 | _ => 3 end)
      end
  end.

(* ------------------------------------------------------------------ the per-object key cache (QPDF::getKeyForObject) *)
(* 'if (og != encp->cached_key_og || use_aes != encp->cached_key_use_aes) { encp->cached_object_encryption_key =
   compute_data_key(key, obj, gen, use_aes, V, R); encp->cached_key_og = og; encp->cached_key_use_aes = use_aes; }
   return encp->cached_object_encryption_key;'  -- since fix d9735304 the cache is keyed by the object AND the kind of
   key (before, by the object only: a stream whose dictionary held a string of the other kind got the string's key).
   The decrypt functions above describe one leaf on its own; the functions below describe a sequence of leaves in the
   order qpdf meets them (an object read lazily: the strings of its dictionary at parse time, then its stream data). *)
Record c06_cache := { c6c_num : N; c6c_gen : N; c6c_aes : bool; c6c_key : list N }.

Definition c06_key_for_object (st : c06_state) (cache : option c06_cache) (num gen : N) (use_aes : bool)
  : list N * option c06_cache :=
  let fresh := kd_compute_data_key (c6t_key st) num gen use_aes (c6t_V st) in
  let filled := Some {| c6c_num := num; c6c_gen := gen; c6c_aes := use_aes; c6c_key := fresh |} in
  match cache with
  | Some ch => if (c6c_num ch =? num) && (c6c_gen ch =? gen) && Bool.eqb (c6c_aes ch) use_aes then (c6c_key ch, cache)
               else (fresh, filled)
  | None => (fresh, filled)
  end.

(* the (use_aes, warn) decision for a leaf: None = the data is left alone (the same case analysis as
   c06_decrypt_string / c06_decrypt_stream) *)
Definition c06_leaf_dec (st : c06_state) (l : c06_leaf) : option (bool * bool) :=
  match c6l_kind l with
  | C6String w =>
      if c06_where_decrypts w then (if 4 <=? c6t_V st then c06_switch (c6t_cf_string st) else Some (false, false)) else None
  | C6Stream s =>
      if c6d_xref s then None
      else if 4 <=? c6t_V st then c06_switch (c06_stream_method st s) else Some (false, false)
  end.

Definition c06_cipher (use_aes : bool) (k data : list N) : option (list N) :=
  if use_aes then pl_aes_decrypt k true (IvWritten []) true data else Some (rc4 k data).

Fixpoint c06_decrypt_seq (st : c06_state) (cache : option c06_cache) (ls : list c06_leaf) : list c06_leaf_result :=
  match ls with
  | [] => []
  | l :: t =>
      match c06_leaf_dec st l with
      | None => C6LeafOk (c6l_data l) false :: c06_decrypt_seq st cache t
      | Some (use_aes, warn) =>
          let kc := c06_key_for_object st cache (c6l_num l) (c6l_gen l) use_aes in
          (match c06_cipher use_aes (fst kc) (c6l_data l) with
           | Some r => C6LeafOk r warn
           | None => C6LeafError
           end) :: c06_decrypt_seq st (snd kc) t
      end
  end.
