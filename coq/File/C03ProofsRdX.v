(* C03 - reader model on the classic cross-reference table the writer model prints: read_xrefEntry (optimistic path)
   on WriterArith.xref_line, parse_xrefFirst on the subsection header, read_xrefTable's loops.
   Step (2) of rd_reads_writer_output (see the end of File/C03ProofsRdW.v). *)
From QV Require Import Base.Bytes Lex.TokModel Lex.LexSpec Lex.TokInterp Lex.LexRun Lex.LexProofs
     Obj.Unparse Obj.UnparseProofs Obj.SynSpec Obj.ParseModel Obj.ParseProofs Obj.ParseSim Obj.Queue File.WriterArith Obj.WriterModel Obj.WmPrinters
     File.C02Proofs Obj.C01FileProofs File.XrefModel File.RdModel File.C03ProofsRd File.C03ProofsRdW.
From Coq Require Import Lia.
Local Open Scope N_scope.

(* read_xrefEntry on an in-use line of writeXRefTable *)
Lemma rd_xref_entry_line_lemma : forall off, off < 10 ^ 10 -> rd_xref_entry (xref_line off) = RdeOk off 0 110.
Proof. Abort.

(* ... and on the line of object 0 *)
Lemma rd_xref_entry_free_lemma : rd_xref_entry s_free = RdeOk 0 65535 102.
Proof. Abort.

(* the in-use entries of the table are inserted in order: object i, i+1, ... at the recorded offsets, generation 0 *)
Fixpoint rdx_insert (max_id : N) (st : c3_state) (i : N) (offs : list (N * N)) : c3_state :=
  match offs with
  | [] => st
  | ko :: r => rdx_insert max_id (c3_entry max_id st (i, C3Use (snd ko) 0)) (i + 1) r
  end.

Lemma rd_table_entries_lines_lemma : forall offs file pos i max_id st free w rest,
  rd_at file pos = flat_map (fun ko : N * N => xref_line (snd ko)) offs ++ rest ->
  Forall (fun ko : N * N => snd ko < 10 ^ 10) offs ->
  rd_table_entries (length offs) file pos i max_id st free w
  = RdGo (pos + 20 * N.of_nat (length offs), rdx_insert max_id st i offs, free, w).
Proof. Abort.

(* parse_xrefFirst on the 50-byte buffer at `0 <n+1> LF` followed by the line of object 0 *)
Lemma rd_xref_first_model_lemma : forall n X, n < 2147483647 ->
  rd_xref_first (rd_cstr (firstn 50 ([48; 32] ++ dec_of_N (n + 1) ++ [10] ++ s_free ++ X)))
  = Some (0%Z, Z.of_N (n + 1), 3 + rd_len (dec_of_N (n + 1))).
Proof. Abort.

(* read_xrefTable's loops on the whole table of the writer model, up to and including the `trailer` keyword:
   one subsection `0 n+1`, object 0 free (recorded for later), the n in-use entries inserted, and the input left
   just after the keyword.  [rest] is what follows the keyword (in the writer's output: ` << ...`). *)
Lemma rd_table_section_model_lemma : forall file pos offs rest max_id st,
  let n := N.of_nat (length offs) in
  rd_at file pos = [48; 32] ++ dec_of_N (n + 1) ++ [10] ++ s_free
                   ++ flat_map (fun ko : N * N => xref_line (snd ko)) offs ++ rd_s_trailer ++ rest ->
  n < 2147483647 -> Forall (fun ko : N * N => snd ko < 10 ^ 10) offs ->
  bytes_ok rest -> ends_cleanly rest ->
  exists tpos,
    rd_table_subsections (S (length file)) file pos max_id st [] []
    = RdGo (rest, tpos, rdx_insert max_id st 1 offs, [(0, C3Free 65535)], []).
Proof. Abort.
