(* The inverse cipher of AES.v undoes the cipher (and conversely), for any list of 16-byte round
   keys; the key schedule of a 16- or 32-byte key consists of 16-byte round keys.
   MixColumns is inverted by GF(2)-linearity of xtime (checked by a finite sweep) plus the
   per-byte coefficient identities of the matrix product (256 cases each). *)
From QV Require Import Base.Bytes Crypto.Nib Crypto.AES.
From Coq Require Import Ring.

Local Notation L16 := (fun rk : list hb => length rk = 16%nat).
Local Notation L4 := (fun w : list hb => length w = 4%nat).

(* ---------- bytes as N / as nibble pairs ---------- *)

Lemma hb_of_N_of_hb : forall x, hb_of_N (N_of_hb x) = x.
Proof. intros [[] []]; reflexivity. Qed.

Lemma N_of_hb_byte : forall x, (N_of_hb x < 256)%N.
Proof. intros [[] []]; reflexivity. Qed.

Lemma N_of_hb_of_N : forall n, (n < 256)%N -> N_of_hb (hb_of_N n) = n.
Proof.
  intros n Hn. apply N.eqb_eq.
  apply (byte_sweep (fun n => N.eqb (N_of_hb (hb_of_N n)) n)); [vm_compute; reflexivity | exact Hn].
Qed.

Lemma N_of_hb_inj : forall x y, N_of_hb x = N_of_hb y -> x = y.
Proof. intros x y H. rewrite <- (hb_of_N_of_hb x), H. apply hb_of_N_of_hb. Qed.

(* ---------- the Boolean ring of nibbles and of bytes ---------- *)

Lemma hex_ring : ring_theory X0 XF hex_xor hex_and hex_xor (fun x => x) (@eq nibble).
Proof.
  constructor.
  - intros []; reflexivity.
  - intros [] []; reflexivity.
  - intros [] [] []; reflexivity.
  - intros []; reflexivity.
  - intros [] []; reflexivity.
  - intros [] [] []; reflexivity.
  - intros [] [] []; reflexivity.
  - reflexivity.
  - intros []; reflexivity.
Qed.

Definition hb_and (x y : hb) : hb := (hex_and (fst x) (fst y), hex_and (snd x) (snd y)).
Definition hb_one : hb := (XF, XF).

Lemma hb_ring : ring_theory hb_zero hb_one hb_xor hb_and hb_xor (fun x => x) (@eq hb).
Proof.
  constructor.
  - intros [a b]. unfold hb_xor, hb_zero; cbn [fst snd]. f_equal; apply (Radd_0_l hex_ring).
  - intros [a b] [c d]. unfold hb_xor; cbn [fst snd]. f_equal; apply (Radd_comm hex_ring).
  - intros [a b] [c d] [e f]. unfold hb_xor; cbn [fst snd]. f_equal; apply (Radd_assoc hex_ring).
  - intros [a b]. unfold hb_and, hb_one; cbn [fst snd]. f_equal; apply (Rmul_1_l hex_ring).
  - intros [a b] [c d]. unfold hb_and; cbn [fst snd]. f_equal; apply (Rmul_comm hex_ring).
  - intros [a b] [c d] [e f]. unfold hb_and; cbn [fst snd]. f_equal; apply (Rmul_assoc hex_ring).
  - intros [a b] [c d] [e f]. unfold hb_and, hb_xor; cbn [fst snd]. f_equal; apply (Rdistr_l hex_ring).
  - reflexivity.
  - intros [a b]. unfold hb_xor, hb_zero; cbn [fst snd]. f_equal; apply (Ropp_def hex_ring).
Qed.

(* coefficients in bool, so that ring knows x + x = 0 *)
Definition hb_of_bool (b : bool) : hb := if b then hb_one else hb_zero.
Lemma hb_morph : ring_morph hb_zero hb_one hb_xor hb_and hb_xor (fun x => x) (@eq hb)
  false true xorb andb xorb (fun b => b) Bool.eqb hb_of_bool.
Proof.
  constructor; try reflexivity; try (intros [] []; reflexivity); try (intros []; reflexivity).
  intros [] []; simpl; intros; try discriminate; reflexivity.
Qed.

Add Ring hbring : hb_ring (morphism hb_morph).

Lemma hb_xor_cancel : forall x y, hb_xor (hb_xor x y) y = x.
Proof. intros. ring. Qed.

(* ---------- xtime and the gmul's are additive ---------- *)

Definition all_nibbles : list nibble := [X0; X1; X2; X3; X4; X5; X6; X7; X8; X9; XA; XB; XC; XD; XE; XF].
Lemma all_hex_in : forall h, In h all_nibbles.
Proof. intros []; simpl; auto 20. Qed.

Definition hb_eqb (x y : hb) : bool := N.eqb (N_of_hb x) (N_of_hb y).
Lemma hb_eqb_eq : forall x y, hb_eqb x y = true -> x = y.
Proof. intros x y H. apply N_of_hb_inj, N.eqb_eq, H. Qed.

Lemma xtime_lin_check :
  forallb (fun a1 => forallb (fun a2 => forallb (fun b1 => forallb (fun b2 =>
    hb_eqb (xtime (hb_xor (a1, a2) (b1, b2))) (hb_xor (xtime (a1, a2)) (xtime (b1, b2))))
    all_nibbles) all_nibbles) all_nibbles) all_nibbles = true.
Proof. vm_compute. reflexivity. Qed.

Definition additive (f : hb -> hb) : Prop := forall a b, f (hb_xor a b) = hb_xor (f a) (f b).

Lemma xtime_lin : additive xtime.
Proof.
  intros [a1 a2] [b1 b2]. apply hb_eqb_eq.
  pose proof xtime_lin_check as H.
  rewrite forallb_forall in H. specialize (H a1 (all_hex_in a1)). cbv beta in H.
  rewrite forallb_forall in H. specialize (H a2 (all_hex_in a2)). cbv beta in H.
  rewrite forallb_forall in H. specialize (H b1 (all_hex_in b1)). cbv beta in H.
  rewrite forallb_forall in H. specialize (H b2 (all_hex_in b2)). cbv beta in H.
  exact H.
Qed.

Definition idf (x : hb) : hb := x.
Lemma idf_lin : additive idf.
Proof. intros a b. reflexivity. Qed.
Lemma gmul2_lin : additive gmul2.
Proof. exact xtime_lin. Qed.
Lemma gmul3_lin : additive gmul3.
Proof. intros a b. unfold gmul3. rewrite !xtime_lin. ring. Qed.
Lemma gmul9_lin : additive gmul9.
Proof. intros a b. unfold gmul9. rewrite !xtime_lin. ring. Qed.
Lemma gmul11_lin : additive gmul11.
Proof. intros a b. unfold gmul11. rewrite !xtime_lin. ring. Qed.
Lemma gmul13_lin : additive gmul13.
Proof. intros a b. unfold gmul13. rewrite !xtime_lin. ring. Qed.
Lemma gmul14_lin : additive gmul14.
Proof. intros a b. unfold gmul14. rewrite !xtime_lin. ring. Qed.

Local Hint Resolve idf_lin gmul2_lin gmul3_lin gmul9_lin gmul11_lin gmul13_lin gmul14_lin : aeslin.

(* ---------- MixColumns: a 4x4 matrix of additive maps ---------- *)

Definition lin4 (f0 f1 f2 f3 : hb -> hb) (a0 a1 a2 a3 : hb) : hb :=
  hb_xor (f0 a0) (hb_xor (f1 a1) (hb_xor (f2 a2) (f3 a3))).

Lemma lin4_compose : forall g0 g1 g2 g3 f00 f01 f02 f03 f10 f11 f12 f13 f20 f21 f22 f23 f30 f31 f32 f33
                            a0 a1 a2 a3,
  additive g0 -> additive g1 -> additive g2 -> additive g3 ->
  lin4 g0 g1 g2 g3 (lin4 f00 f01 f02 f03 a0 a1 a2 a3) (lin4 f10 f11 f12 f13 a0 a1 a2 a3)
                   (lin4 f20 f21 f22 f23 a0 a1 a2 a3) (lin4 f30 f31 f32 f33 a0 a1 a2 a3) =
  lin4 (fun x => lin4 g0 g1 g2 g3 (f00 x) (f10 x) (f20 x) (f30 x))
       (fun x => lin4 g0 g1 g2 g3 (f01 x) (f11 x) (f21 x) (f31 x))
       (fun x => lin4 g0 g1 g2 g3 (f02 x) (f12 x) (f22 x) (f32 x))
       (fun x => lin4 g0 g1 g2 g3 (f03 x) (f13 x) (f23 x) (f33 x)) a0 a1 a2 a3.
Proof.
  intros until a3. intros H0 H1 H2 H3. unfold additive in *. unfold lin4.
  rewrite !H0, !H1, !H2, !H3. ring.
Qed.

Lemma lin4_sel0 : forall h0 h1 h2 h3,
  (forall x, h0 x = x) -> (forall x, h1 x = hb_zero) -> (forall x, h2 x = hb_zero) -> (forall x, h3 x = hb_zero) ->
  forall a0 a1 a2 a3, lin4 h0 h1 h2 h3 a0 a1 a2 a3 = a0.
Proof. intros h0 h1 h2 h3 E0 E1 E2 E3 a0 a1 a2 a3. unfold lin4. rewrite E0, E1, E2, E3. ring. Qed.
Lemma lin4_sel1 : forall h0 h1 h2 h3,
  (forall x, h0 x = hb_zero) -> (forall x, h1 x = x) -> (forall x, h2 x = hb_zero) -> (forall x, h3 x = hb_zero) ->
  forall a0 a1 a2 a3, lin4 h0 h1 h2 h3 a0 a1 a2 a3 = a1.
Proof. intros h0 h1 h2 h3 E0 E1 E2 E3 a0 a1 a2 a3. unfold lin4. rewrite E0, E1, E2, E3. ring. Qed.
Lemma lin4_sel2 : forall h0 h1 h2 h3,
  (forall x, h0 x = hb_zero) -> (forall x, h1 x = hb_zero) -> (forall x, h2 x = x) -> (forall x, h3 x = hb_zero) ->
  forall a0 a1 a2 a3, lin4 h0 h1 h2 h3 a0 a1 a2 a3 = a2.
Proof. intros h0 h1 h2 h3 E0 E1 E2 E3 a0 a1 a2 a3. unfold lin4. rewrite E0, E1, E2, E3. ring. Qed.
Lemma lin4_sel3 : forall h0 h1 h2 h3,
  (forall x, h0 x = hb_zero) -> (forall x, h1 x = hb_zero) -> (forall x, h2 x = hb_zero) -> (forall x, h3 x = x) ->
  forall a0 a1 a2 a3, lin4 h0 h1 h2 h3 a0 a1 a2 a3 = a3.
Proof. intros h0 h1 h2 h3 E0 E1 E2 E3 a0 a1 a2 a3. unfold lin4. rewrite E0, E1, E2, E3. ring. Qed.

Definition mc0 := lin4 gmul2 gmul3 idf idf.
Definition mc1 := lin4 idf gmul2 gmul3 idf.
Definition mc2 := lin4 idf idf gmul2 gmul3.
Definition mc3 := lin4 gmul3 idf idf gmul2.
Definition imc0 := lin4 gmul14 gmul11 gmul13 gmul9.
Definition imc1 := lin4 gmul9 gmul14 gmul11 gmul13.
Definition imc2 := lin4 gmul13 gmul9 gmul14 gmul11.
Definition imc3 := lin4 gmul11 gmul13 gmul9 gmul14.

Lemma mix_col_eq : forall a0 a1 a2 a3,
  mix_col a0 a1 a2 a3 = [mc0 a0 a1 a2 a3; mc1 a0 a1 a2 a3; mc2 a0 a1 a2 a3; mc3 a0 a1 a2 a3].
Proof. reflexivity. Qed.
Lemma inv_mix_col_eq : forall a0 a1 a2 a3,
  inv_mix_col a0 a1 a2 a3 = [imc0 a0 a1 a2 a3; imc1 a0 a1 a2 a3; imc2 a0 a1 a2 a3; imc3 a0 a1 a2 a3].
Proof. reflexivity. Qed.

Ltac byte_cases := intros [[] []]; reflexivity.

Lemma imc0_mc : forall a0 a1 a2 a3,
  imc0 (mc0 a0 a1 a2 a3) (mc1 a0 a1 a2 a3) (mc2 a0 a1 a2 a3) (mc3 a0 a1 a2 a3) = a0.
Proof.
  intros. unfold imc0, mc0, mc1, mc2, mc3. rewrite lin4_compose by auto with aeslin.
  apply lin4_sel0; byte_cases.
Qed.
Lemma imc1_mc : forall a0 a1 a2 a3,
  imc1 (mc0 a0 a1 a2 a3) (mc1 a0 a1 a2 a3) (mc2 a0 a1 a2 a3) (mc3 a0 a1 a2 a3) = a1.
Proof.
  intros. unfold imc1, mc0, mc1, mc2, mc3. rewrite lin4_compose by auto with aeslin.
  apply lin4_sel1; byte_cases.
Qed.
Lemma imc2_mc : forall a0 a1 a2 a3,
  imc2 (mc0 a0 a1 a2 a3) (mc1 a0 a1 a2 a3) (mc2 a0 a1 a2 a3) (mc3 a0 a1 a2 a3) = a2.
Proof.
  intros. unfold imc2, mc0, mc1, mc2, mc3. rewrite lin4_compose by auto with aeslin.
  apply lin4_sel2; byte_cases.
Qed.
Lemma imc3_mc : forall a0 a1 a2 a3,
  imc3 (mc0 a0 a1 a2 a3) (mc1 a0 a1 a2 a3) (mc2 a0 a1 a2 a3) (mc3 a0 a1 a2 a3) = a3.
Proof.
  intros. unfold imc3, mc0, mc1, mc2, mc3. rewrite lin4_compose by auto with aeslin.
  apply lin4_sel3; byte_cases.
Qed.

Lemma mc0_imc : forall a0 a1 a2 a3,
  mc0 (imc0 a0 a1 a2 a3) (imc1 a0 a1 a2 a3) (imc2 a0 a1 a2 a3) (imc3 a0 a1 a2 a3) = a0.
Proof.
  intros. unfold mc0, imc0, imc1, imc2, imc3. rewrite lin4_compose by auto with aeslin.
  apply lin4_sel0; byte_cases.
Qed.
Lemma mc1_imc : forall a0 a1 a2 a3,
  mc1 (imc0 a0 a1 a2 a3) (imc1 a0 a1 a2 a3) (imc2 a0 a1 a2 a3) (imc3 a0 a1 a2 a3) = a1.
Proof.
  intros. unfold mc1, imc0, imc1, imc2, imc3. rewrite lin4_compose by auto with aeslin.
  apply lin4_sel1; byte_cases.
Qed.
Lemma mc2_imc : forall a0 a1 a2 a3,
  mc2 (imc0 a0 a1 a2 a3) (imc1 a0 a1 a2 a3) (imc2 a0 a1 a2 a3) (imc3 a0 a1 a2 a3) = a2.
Proof.
  intros. unfold mc2, imc0, imc1, imc2, imc3. rewrite lin4_compose by auto with aeslin.
  apply lin4_sel2; byte_cases.
Qed.
Lemma mc3_imc : forall a0 a1 a2 a3,
  mc3 (imc0 a0 a1 a2 a3) (imc1 a0 a1 a2 a3) (imc2 a0 a1 a2 a3) (imc3 a0 a1 a2 a3) = a3.
Proof.
  intros. unfold mc3, imc0, imc1, imc2, imc3. rewrite lin4_compose by auto with aeslin.
  apply lin4_sel3; byte_cases.
Qed.

(* the key lemma: inv_mix_col applied to the four outputs of mix_col gives back the inputs *)
Lemma inv_mix_columns_step : forall a0 a1 a2 a3 t,
  inv_mix_columns (mix_col a0 a1 a2 a3 ++ t) = a0 :: a1 :: a2 :: a3 :: inv_mix_columns t.
Proof.
  intros. rewrite mix_col_eq. cbn [app inv_mix_columns]. rewrite inv_mix_col_eq.
  rewrite imc0_mc, imc1_mc, imc2_mc, imc3_mc. reflexivity.
Qed.
Lemma mix_columns_step : forall a0 a1 a2 a3 t,
  mix_columns (inv_mix_col a0 a1 a2 a3 ++ t) = a0 :: a1 :: a2 :: a3 :: mix_columns t.
Proof.
  intros. rewrite inv_mix_col_eq. cbn [app mix_columns]. rewrite mix_col_eq.
  rewrite mc0_imc, mc1_imc, mc2_imc, mc3_imc. reflexivity.
Qed.

(* ---------- states of 16 bytes ---------- *)

Lemma list16 : forall {A} (l : list A), length l = 16%nat ->
  exists a0 a1 a2 a3 a4 a5 a6 a7 a8 a9 a10 a11 a12 a13 a14 a15,
    l = [a0; a1; a2; a3; a4; a5; a6; a7; a8; a9; a10; a11; a12; a13; a14; a15].
Proof.
  intros A l H.
  do 16 (destruct l as [|? l]; [simpl in H; lia|]).
  destruct l; [|simpl in H; lia].
  repeat eexists.
Qed.

Ltac explode16 st H :=
  destruct (list16 st H) as (?&?&?&?&?&?&?&?&?&?&?&?&?&?&?&?&->).

Lemma inv_shift_rows_shift_rows : forall st, length st = 16%nat -> inv_shift_rows (shift_rows st) = st.
Proof. intros st H. explode16 st H. reflexivity. Qed.
Lemma shift_rows_inv_shift_rows : forall st, length st = 16%nat -> shift_rows (inv_shift_rows st) = st.
Proof. intros st H. explode16 st H. reflexivity. Qed.
Lemma shift_rows_len16 : forall st, length st = 16%nat -> length (shift_rows st) = 16%nat.
Proof. intros st H. explode16 st H. reflexivity. Qed.
Lemma inv_shift_rows_len16 : forall st, length st = 16%nat -> length (inv_shift_rows st) = 16%nat.
Proof. intros st H. explode16 st H. reflexivity. Qed.

Lemma inv_mix_columns_mix_columns : forall st, length st = 16%nat -> inv_mix_columns (mix_columns st) = st.
Proof.
  intros st H. explode16 st H. cbn [mix_columns]. rewrite !inv_mix_columns_step. reflexivity.
Qed.
Lemma mix_columns_inv_mix_columns : forall st, length st = 16%nat -> mix_columns (inv_mix_columns st) = st.
Proof.
  intros st H. explode16 st H. cbn [inv_mix_columns]. rewrite !mix_columns_step. reflexivity.
Qed.
Lemma mix_columns_len16 : forall st, length st = 16%nat -> length (mix_columns st) = 16%nat.
Proof. intros st H. explode16 st H. reflexivity. Qed.
Lemma inv_mix_columns_len16 : forall st, length st = 16%nat -> length (inv_mix_columns st) = 16%nat.
Proof. intros st H. explode16 st H. reflexivity. Qed.

Lemma aes_isbox_sbox : forall x, aes_isbox (aes_sbox x) = x.
Proof. intros [[] []]; reflexivity. Qed.
Lemma aes_sbox_isbox : forall x, aes_sbox (aes_isbox x) = x.
Proof. intros [[] []]; reflexivity. Qed.

Lemma inv_sub_bytes_sub_bytes : forall st, inv_sub_bytes (sub_bytes st) = st.
Proof.
  intros st. unfold inv_sub_bytes, sub_bytes. rewrite map_map.
  rewrite (map_ext _ (fun x => x)) by apply aes_isbox_sbox. apply map_id.
Qed.
Lemma sub_bytes_inv_sub_bytes : forall st, sub_bytes (inv_sub_bytes st) = st.
Proof.
  intros st. unfold inv_sub_bytes, sub_bytes. rewrite map_map.
  rewrite (map_ext _ (fun x => x)) by apply aes_sbox_isbox. apply map_id.
Qed.
Lemma sub_bytes_len16 : forall st, length st = 16%nat -> length (sub_bytes st) = 16%nat.
Proof. intros st H. unfold sub_bytes. rewrite map_length. exact H. Qed.
Lemma inv_sub_bytes_len16 : forall st, length st = 16%nat -> length (inv_sub_bytes st) = 16%nat.
Proof. intros st H. unfold inv_sub_bytes. rewrite map_length. exact H. Qed.

Lemma xor_hbs_length : forall a b, length (xor_hbs a b) = Nat.min (length a) (length b).
Proof.
  induction a as [|x a IH]; intros [|y b]; cbn [xor_hbs length Nat.min]; try reflexivity.
  f_equal. apply IH.
Qed.
Lemma xor_hbs_cancel : forall a b, length a = length b -> xor_hbs (xor_hbs a b) b = a.
Proof.
  induction a as [|x a IH]; intros [|y b] H; cbn [xor_hbs length] in *; try reflexivity; try discriminate.
  rewrite hb_xor_cancel. f_equal. apply IH. injection H as H. exact H.
Qed.
Lemma xor_hbs_len16 : forall a b, length a = 16%nat -> length b = 16%nat -> length (xor_hbs a b) = 16%nat.
Proof. intros a b Ha Hb. rewrite xor_hbs_length, Ha, Hb. reflexivity. Qed.
Lemma xor_hbs_cancel16 : forall a b, length a = 16%nat -> length b = 16%nat -> xor_hbs (xor_hbs a b) b = a.
Proof. intros a b Ha Hb. apply xor_hbs_cancel. rewrite Ha, Hb. reflexivity. Qed.

Local Hint Resolve shift_rows_len16 inv_shift_rows_len16 mix_columns_len16 inv_mix_columns_len16
  sub_bytes_len16 inv_sub_bytes_len16 xor_hbs_len16 : len16.

(* ---------- rounds ---------- *)

Lemma aes_rounds_one : forall rk st, aes_rounds [rk] st = xor_hbs (shift_rows (sub_bytes st)) rk.
Proof. reflexivity. Qed.
Lemma aes_rounds_cons2 : forall rk r2 rest st,
  aes_rounds (rk :: r2 :: rest) st =
  aes_rounds (r2 :: rest) (xor_hbs (mix_columns (shift_rows (sub_bytes st))) rk).
Proof. reflexivity. Qed.
Lemma aes_inv_rounds_one : forall rk st,
  aes_inv_rounds [rk] st = inv_sub_bytes (inv_shift_rows (xor_hbs st rk)).
Proof. reflexivity. Qed.
Lemma aes_inv_rounds_cons2 : forall rk r2 rest st,
  aes_inv_rounds (rk :: r2 :: rest) st =
  inv_sub_bytes (inv_shift_rows (inv_mix_columns (xor_hbs (aes_inv_rounds (r2 :: rest) st) rk))).
Proof. reflexivity. Qed.

Lemma aes_rounds_len16 : forall rks st,
  Forall L16 rks -> length st = 16%nat -> length (aes_rounds rks st) = 16%nat.
Proof.
  induction rks as [|rk rest IH]; intros st HF Hst; [exact Hst|].
  inversion HF as [|? ? Hrk HF']; subst.
  destruct rest as [|r2 rest].
  - rewrite aes_rounds_one. auto 10 with len16.
  - rewrite aes_rounds_cons2. apply IH; auto 10 with len16.
Qed.
Lemma aes_inv_rounds_len16 : forall rks st,
  Forall L16 rks -> length st = 16%nat -> length (aes_inv_rounds rks st) = 16%nat.
Proof.
  induction rks as [|rk rest IH]; intros st HF Hst; [exact Hst|].
  inversion HF as [|? ? Hrk HF']; subst.
  destruct rest as [|r2 rest].
  - rewrite aes_inv_rounds_one. auto 10 with len16.
  - rewrite aes_inv_rounds_cons2. auto 10 with len16.
Qed.

Lemma aes_inv_rounds_rounds : forall rks st,
  Forall L16 rks -> length st = 16%nat -> aes_inv_rounds rks (aes_rounds rks st) = st.
Proof.
  induction rks as [|rk rest IH]; intros st HF Hst; [reflexivity|].
  inversion HF as [|? ? Hrk HF']; subst.
  destruct rest as [|r2 rest].
  - rewrite aes_rounds_one, aes_inv_rounds_one.
    rewrite xor_hbs_cancel16 by auto 10 with len16.
    rewrite inv_shift_rows_shift_rows by auto 10 with len16.
    apply inv_sub_bytes_sub_bytes.
  - rewrite aes_rounds_cons2, aes_inv_rounds_cons2.
    rewrite IH by auto 10 with len16.
    rewrite xor_hbs_cancel16 by auto 10 with len16.
    rewrite inv_mix_columns_mix_columns by auto 10 with len16.
    rewrite inv_shift_rows_shift_rows by auto 10 with len16.
    apply inv_sub_bytes_sub_bytes.
Qed.

Lemma aes_rounds_inv_rounds : forall rks st,
  Forall L16 rks -> length st = 16%nat -> aes_rounds rks (aes_inv_rounds rks st) = st.
Proof.
  induction rks as [|rk rest IH]; intros st HF Hst; [reflexivity|].
  inversion HF as [|? ? Hrk HF']; subst.
  destruct rest as [|r2 rest].
  - rewrite aes_rounds_one, aes_inv_rounds_one.
    rewrite sub_bytes_inv_sub_bytes.
    rewrite shift_rows_inv_shift_rows by auto 10 with len16.
    apply xor_hbs_cancel16; assumption.
  - rewrite aes_rounds_cons2, aes_inv_rounds_cons2.
    assert (Hl : length (aes_inv_rounds (r2 :: rest) st) = 16%nat)
      by (apply aes_inv_rounds_len16; assumption).
    rewrite sub_bytes_inv_sub_bytes.
    rewrite shift_rows_inv_shift_rows by auto 10 with len16.
    rewrite mix_columns_inv_mix_columns by auto 10 with len16.
    rewrite xor_hbs_cancel16 by assumption.
    apply IH; assumption.
Qed.

(* ---------- the cipher on nibble-pair bytes ---------- *)

Lemma aes_cipher_hb_length : forall rks st,
  Forall (fun rk => length rk = 16%nat) rks -> length st = 16%nat ->
  length (aes_cipher_hb rks st) = 16%nat.
Proof.
  intros [|rk0 rest] st HF Hst; [exact Hst|].
  inversion HF as [|? ? Hrk HF']; subst.
  unfold aes_cipher_hb. apply aes_rounds_len16; auto with len16.
Qed.
Lemma aes_inv_cipher_hb_length : forall rks st,
  Forall (fun rk => length rk = 16%nat) rks -> length st = 16%nat ->
  length (aes_inv_cipher_hb rks st) = 16%nat.
Proof.
  intros [|rk0 rest] st HF Hst; [exact Hst|].
  inversion HF as [|? ? Hrk HF']; subst.
  unfold aes_inv_cipher_hb. apply xor_hbs_len16; [apply aes_inv_rounds_len16|]; assumption.
Qed.

Lemma aes_inv_cipher_hb_cipher : forall rks st,
  Forall (fun rk => length rk = 16%nat) rks -> length st = 16%nat ->
  aes_inv_cipher_hb rks (aes_cipher_hb rks st) = st.
Proof.
  intros [|rk0 rest] st HF Hst; [reflexivity|].
  inversion HF as [|? ? Hrk HF']; subst.
  unfold aes_inv_cipher_hb, aes_cipher_hb.
  rewrite aes_inv_rounds_rounds by auto with len16.
  apply xor_hbs_cancel16; assumption.
Qed.
Lemma aes_cipher_hb_inv_cipher : forall rks st,
  Forall (fun rk => length rk = 16%nat) rks -> length st = 16%nat ->
  aes_cipher_hb rks (aes_inv_cipher_hb rks st) = st.
Proof.
  intros [|rk0 rest] st HF Hst; [reflexivity|].
  inversion HF as [|? ? Hrk HF']; subst.
  unfold aes_inv_cipher_hb, aes_cipher_hb.
  rewrite xor_hbs_cancel16 by (try apply aes_inv_rounds_len16; assumption).
  apply aes_rounds_inv_rounds; assumption.
Qed.

(* ---------- key schedule: every round key has 16 bytes ---------- *)

Lemma list_ind4 : forall {A} (P : list A -> Prop),
  P [] -> (forall a, P [a]) -> (forall a b, P [a; b]) -> (forall a b c, P [a; b; c]) ->
  (forall a b c d t, P t -> P (a :: b :: c :: d :: t)) -> forall l, P l.
Proof.
  intros A P H0 H1 H2 H3 H4. fix IH 1.
  intros [|a [|b [|c [|d t]]]]; [apply H0 | apply H1 | apply H2 | apply H3 | apply H4, IH].
Qed.

Lemma chunk4_len4 : forall l, Forall L4 (chunk4 l).
Proof.
  intros l. induction l using list_ind4; cbn [chunk4]; constructor; [reflexivity | assumption].
Qed.
Lemma chunk4_length : forall n l, length l = (4 * n)%nat -> length (chunk4 l) = n.
Proof.
  induction n as [|n IH]; intros l H.
  - destruct l; [reflexivity | simpl in H; lia].
  - destruct l as [|a [|b [|c [|d t]]]]; simpl in H; try lia.
    cbn [chunk4 length]. f_equal. apply IH. lia.
Qed.

Lemma group_round_keys_len16 : forall ws, Forall L4 ws -> Forall L16 (group_round_keys ws).
Proof.
  intros ws. induction ws as [| | | |a b c d t IH] using list_ind4; intros HF; cbn [group_round_keys];
    try constructor.
  - inversion HF as [|? ? Ha HF1]; subst. inversion HF1 as [|? ? Hb HF2]; subst.
    inversion HF2 as [|? ? Hc HF3]; subst. inversion HF3 as [|? ? Hd HF4]; subst.
    rewrite !app_length, Ha, Hb, Hc, Hd. reflexivity.
  - apply IH. inversion HF as [|? ? Ha HF1]; subst. inversion HF1 as [|? ? Hb HF2]; subst.
    inversion HF2 as [|? ? Hc HF3]; subst. inversion HF3 as [|? ? Hd HF4]; subst. exact HF4.
Qed.

Lemma xor_hbs_len4 : forall a b, length a = 4%nat -> length b = 4%nat -> length (xor_hbs a b) = 4%nat.
Proof. intros a b Ha Hb. rewrite xor_hbs_length, Ha, Hb. reflexivity. Qed.
Lemma sub_word_len4 : forall w, length w = 4%nat -> length (sub_word w) = 4%nat.
Proof. intros w H. unfold sub_word. rewrite map_length. exact H. Qed.
Lemma rot_word_len4 : forall w, length w = 4%nat -> length (rot_word w) = 4%nat.
Proof.
  intros w H. destruct w as [|a [|b [|c [|d [|e t]]]]]; simpl in H; try lia. reflexivity.
Qed.

Lemma key_expand_loop_len4 : forall n nk i rcon ws,
  Forall L4 ws -> (nk - 1 < length ws)%nat -> Forall L4 (key_expand_loop nk n i rcon ws).
Proof.
  induction n as [|n IH]; intros nk i rcon ws HF Hlen; [exact HF|].
  cbn [key_expand_loop].
  assert (Htemp : length (hd [] ws) = 4%nat).
  { destruct ws as [|w ws']; [simpl in Hlen; lia|]. inversion HF; assumption. }
  assert (Hold : length (nth (nk - 1) ws []) = 4%nat).
  { apply (proj1 (Forall_nth L4 ws) HF). exact Hlen. }
  assert (Hstep : forall w, length w = 4%nat ->
            forall i' rc, Forall L4 (key_expand_loop nk n i' rc (w :: ws))).
  { intros w Hw i' rc. apply IH; [constructor; assumption | simpl; lia]. }
  destruct (Nat.eqb (Nat.modulo i nk) 0); [|destruct (Nat.ltb 6 nk && Nat.eqb (Nat.modulo i nk) 4)];
    apply Hstep; repeat first [assumption | reflexivity | apply xor_hbs_len4 | apply sub_word_len4 | apply rot_word_len4].
Qed.

Lemma aes_key_schedule_lengths : forall key, (length key = 16 \/ length key = 32)%nat ->
  Forall (fun rk => length rk = 16%nat) (aes_key_schedule key).
Proof.
  intros key H. unfold aes_key_schedule. cbv zeta.
  apply group_round_keys_len16. rewrite rev'_rev. apply Forall_rev.
  apply key_expand_loop_len4.
  - rewrite rev'_rev. apply Forall_rev. apply chunk4_len4.
  - rewrite rev'_rev, rev_length.
    destruct H as [H|H]; rewrite H.
    + rewrite (chunk4_length 4) by (rewrite map_length; exact H). cbv. lia.
    + rewrite (chunk4_length 8) by (rewrite map_length; exact H). cbv. lia.
Qed.

(* ---------- the cipher on bytes (N) ---------- *)

Lemma map_hb_of_N_of_hb : forall l, map hb_of_N (map N_of_hb l) = l.
Proof.
  intros l. rewrite map_map. rewrite (map_ext _ (fun x => x)) by apply hb_of_N_of_hb. apply map_id.
Qed.
Lemma map_N_of_hb_of_N : forall l, Forall (fun b => (b < 256)%N) l -> map N_of_hb (map hb_of_N l) = l.
Proof.
  intros l H. induction H as [|b l Hb Hl IH]; [reflexivity|].
  cbn [map]. rewrite N_of_hb_of_N by exact Hb. f_equal. exact IH.
Qed.
Lemma map_N_of_hb_bytes : forall l, Forall (fun b => (b < 256)%N) (map N_of_hb l).
Proof. intros l. induction l as [|x l IH]; cbn [map]; constructor; [apply N_of_hb_byte | exact IH]. Qed.

Lemma aes_cipher_length : forall rks blk,
  Forall (fun rk => length rk = 16%nat) rks -> length blk = 16%nat -> length (aes_cipher rks blk) = 16%nat.
Proof.
  intros rks blk HF Hb. unfold aes_cipher. rewrite map_length.
  apply aes_cipher_hb_length; [exact HF | rewrite map_length; exact Hb].
Qed.
Lemma aes_inv_cipher_length : forall rks blk,
  Forall (fun rk => length rk = 16%nat) rks -> length blk = 16%nat -> length (aes_inv_cipher rks blk) = 16%nat.
Proof.
  intros rks blk HF Hb. unfold aes_inv_cipher. rewrite map_length.
  apply aes_inv_cipher_hb_length; [exact HF | rewrite map_length; exact Hb].
Qed.

Lemma aes_cipher_bytes : forall rks blk, Forall (fun b => (b < 256)%N) (aes_cipher rks blk).
Proof. intros. apply map_N_of_hb_bytes. Qed.
Lemma aes_inv_cipher_bytes : forall rks blk, Forall (fun b => (b < 256)%N) (aes_inv_cipher rks blk).
Proof. intros. apply map_N_of_hb_bytes. Qed.

Lemma aes_inv_cipher_cipher : forall rks blk,
  Forall (fun rk => length rk = 16%nat) rks -> length blk = 16%nat -> Forall (fun b => (b < 256)%N) blk ->
  aes_inv_cipher rks (aes_cipher rks blk) = blk.
Proof.
  intros rks blk HF Hl Hb. unfold aes_inv_cipher, aes_cipher.
  rewrite map_hb_of_N_of_hb.
  rewrite aes_inv_cipher_hb_cipher by (try rewrite map_length; assumption).
  apply map_N_of_hb_of_N, Hb.
Qed.
Lemma aes_cipher_inv_cipher : forall rks blk,
  Forall (fun rk => length rk = 16%nat) rks -> length blk = 16%nat -> Forall (fun b => (b < 256)%N) blk ->
  aes_cipher rks (aes_inv_cipher rks blk) = blk.
Proof.
  intros rks blk HF Hl Hb. unfold aes_inv_cipher, aes_cipher.
  rewrite map_hb_of_N_of_hb.
  rewrite aes_cipher_hb_inv_cipher by (try rewrite map_length; assumption).
  apply map_N_of_hb_of_N, Hb.
Qed.

(* corollary at the level of keys *)
Lemma aes_decrypt_encrypt_block : forall key blk,
  (length key = 16 \/ length key = 32)%nat -> length blk = 16%nat -> Forall (fun b => (b < 256)%N) blk ->
  aes_decrypt_block key (aes_encrypt_block key blk) = blk.
Proof.
  intros key blk Hk Hl Hb. unfold aes_decrypt_block, aes_encrypt_block.
  apply aes_inv_cipher_cipher; [apply aes_key_schedule_lengths, Hk | exact Hl | exact Hb].
Qed.
Lemma aes_encrypt_decrypt_block : forall key blk,
  (length key = 16 \/ length key = 32)%nat -> length blk = 16%nat -> Forall (fun b => (b < 256)%N) blk ->
  aes_encrypt_block key (aes_decrypt_block key blk) = blk.
Proof.
  intros key blk Hk Hl Hb. unfold aes_decrypt_block, aes_encrypt_block.
  apply aes_cipher_inv_cipher; [apply aes_key_schedule_lengths, Hk | exact Hl | exact Hb].
Qed.
