(* Model of how qpdf combines cross-reference sections (libqpdf/QPDF_objects.cc: read_xref,
   read_xrefTable, read_xrefStream/processXRefStream, insertXrefEntry, insertFreeXrefEntry, the final
   "keep the highest generation" pass), on abstract sections, and the ISO 32000-1 7.5.4-7.5.8
   lookup rule as specification. Sections are listed newest first, as qpdf reads them. *)
From QV Require Import Base.Bytes.
Local Open Scope N_scope.

Inductive c3_xe := C3Free (gen : N) | C3Use (off gen : N) | C3Comp (stm idx : N).

(* one cross-reference section: its own entries (classic table or xref stream) and, for a
   hybrid-reference section, the entries of the stream named by /XRefStm *)
Record c3_section := { c3_is_table : bool; c3_table : list (N * c3_xe); c3_stm : list (N * c3_xe) }.

Record c3_state := { c3_tbl : list (N * N * c3_xe) (* (obj, gen) -> entry, insertion order *); c3_deleted : list N }.

Definition c3_has (st : c3_state) (obj gen : N) : bool :=
  existsb (fun e => (fst (fst e) =? obj) && (snd (fst e) =? gen)) (c3_tbl st).
Definition c3_is_deleted (st : c3_state) (obj : N) : bool := existsb (N.eqb obj) (c3_deleted st).

(* insertFreeXrefEntry *)
Definition c3_insert_free (max_id : N) (st : c3_state) (obj gen : N) : c3_state :=
  if negb (c3_has st obj gen) && (obj <=? max_id)
  then {| c3_tbl := c3_tbl st; c3_deleted := obj :: c3_deleted st |} else st.

(* insertXrefEntry for f0 = 1 / 2 *)
Definition c3_insert_use (max_id : N) (st : c3_state) (obj : N) (e : c3_xe) : c3_state :=
  match e with
  | C3Free _ => st
  | C3Use off gen =>
      if negb ((0 <? obj) && (obj <=? max_id) && (gen <? 65535)) then st
      else if c3_is_deleted st obj then st
      else if c3_has st obj gen then st
      else {| c3_tbl := c3_tbl st ++ [(obj, gen, e)]; c3_deleted := c3_deleted st |}
  | C3Comp stm idx =>
      if negb ((0 <? obj) && (obj <=? max_id)) then st
      else if c3_is_deleted st obj then st
      else if stm =? obj then st
      else if max_id <? stm then st
      else if c3_has st obj 0 then st
      else {| c3_tbl := c3_tbl st ++ [(obj, 0, e)]; c3_deleted := c3_deleted st |}
  end.

Definition c3_entry (max_id : N) (st : c3_state) (oe : N * c3_xe) : c3_state :=
  match snd oe with
  | C3Free gen => c3_insert_free max_id st (fst oe) gen
  | e => c3_insert_use max_id st (fst oe) e
  end.

(* one section. Classic table (read_xrefTable): the in-use entries in file order, then the entries of the stream
   named by /XRefStm, and only then the table's free entries (they are collected while the table is read and
   recorded after the /XRefStm: hidden objects of a hybrid-reference section are listed free in the table).
   Cross-reference stream (processXRefStream): all entries in file order. *)
Definition c3_is_free (oe : N * c3_xe) : bool := match snd oe with C3Free _ => true | _ => false end.
Definition c3_read_section (max_id : N) (st : c3_state) (s : c3_section) : c3_state :=
  if c3_is_table s then
    fold_left (c3_entry max_id) (filter c3_is_free (c3_table s))
      (fold_left (c3_entry max_id) (c3_stm s)
         (fold_left (c3_entry max_id) (filter (fun oe => negb (c3_is_free oe)) (c3_table s)) st))
  else
    fold_left (c3_entry max_id) (c3_stm s) (fold_left (c3_entry max_id) (c3_table s) st).

(* the final pass keeps, for every object number, the entry with the highest generation *)
Definition c3_best (tbl : list (N * N * c3_xe)) (obj : N) : option (N * c3_xe) :=
  fold_left (fun acc e =>
               if fst (fst e) =? obj then
                 match acc with
                 | Some (g, _) => if g <? snd (fst e) then Some (snd (fst e), snd e) else acc
                 | None => Some (snd (fst e), snd e)
                 end
               else acc) tbl None.

Definition c3_qpdf_view (max_id : N) (chain : list c3_section) (obj : N) : option (N * c3_xe) :=
  c3_best (c3_tbl (fold_left (c3_read_section max_id) chain {| c3_tbl := []; c3_deleted := [] |})) obj.

(* ---- specification: 7.5.8.4 lookup: newest section first; in a section the table, then (if the
   table has no in-use entry for the object) the stream named by /XRefStm, then the older sections.
   A free entry ends the search: the object is free (reads as null). *)
Fixpoint c3_find (l : list (N * c3_xe)) (obj : N) : option c3_xe :=
  match l with
  | [] => None
  | (k, e) :: t => if k =? obj then Some e else c3_find t obj
  end.

Fixpoint c3_spec_view (chain : list c3_section) (obj : N) : option (N * c3_xe) :=
  match chain with
  | [] => None
  | s :: older =>
      match c3_find (c3_table s) obj with
      | Some (C3Use off gen) => Some (gen, C3Use off gen)
      | Some (C3Comp stm idx) => Some (0, C3Comp stm idx)
      | Some (C3Free g) =>
          (* hidden object of a hybrid-reference section: listed free in the table, present in /XRefStm *)
          match c3_find (c3_stm s) obj with
          | Some (C3Comp stm idx) => Some (0, C3Comp stm idx)
          | Some (C3Use off gen) => Some (gen, C3Use off gen)
          | _ => None
          end
      | None =>
          match c3_find (c3_stm s) obj with
          | Some (C3Comp stm idx) => Some (0, C3Comp stm idx)
          | Some (C3Use off gen) => Some (gen, C3Use off gen)
          | Some (C3Free _) => None
          | None => c3_spec_view older obj
          end
      end
  end.

(* well-formed chains: what a conforming writer produces *)
Definition c3_entry_ok (max_id : N) (oe : N * c3_xe) : Prop :=
  let obj := fst oe in
  obj <= max_id /\
  match snd oe with
  | C3Free _ => True
  | C3Use _ gen => 0 < obj /\ gen < 65535
  | C3Comp stm _ => 0 < obj /\ stm <> obj /\ stm <= max_id
  end.
Definition c3_section_ok (max_id : N) (s : c3_section) : Prop :=
  Forall (c3_entry_ok max_id) (c3_table s) /\ Forall (c3_entry_ok max_id) (c3_stm s)
  /\ NoDup (map fst (c3_table s)) /\ NoDup (map fst (c3_stm s)).
(* no object is both listed free in a table and present in that same section's /XRefStm *)
Definition c3_no_hidden_free (s : c3_section) : Prop :=
  forall obj g, c3_find (c3_table s) obj = Some (C3Free g) -> c3_find (c3_stm s) obj = None.
(* one generation per object number over the whole history (no reuse of freed numbers) *)
Definition c3_single_gen (chain : list c3_section) : Prop :=
  forall s1 s2 obj o1 g1 o2 g2, In s1 chain -> In s2 chain ->
    (In (obj, C3Use o1 g1) (c3_table s1 ++ c3_stm s1)) -> (In (obj, C3Use o2 g2) (c3_table s2 ++ c3_stm s2)) -> g1 = g2.
