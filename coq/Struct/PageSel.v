(* C12 (extension) - page-list level of QPDFJob::handlePageSpecs (libqpdf/QPDFJob.cc), written from the C++:
     for (page : main_input.orig_pages) pdf.removePage(page);            -- every page of the primary leaves the tree
     optional collation of the selections (Struct/PageOps.v: collate), a single --collate value is broadcast
     for (selection) for (page : selection.selected_pages):
        to_copy = input.orig_pages.at(page.idx);
        if (input.copied_pages[page.idx]) to_copy = to_copy.shallowCopyPage();   -- a NEW page object
        else input.copied_pages[page.idx] = true;
        pdf.addPage(to_copy, false);                                      -- appended at the end
   An output page object is PsOrig f i (page i of input f itself - for a foreign file its one foreign copy) or
   PsCopy f i n (the n-th shallow copy made during the job).  Inputs are identified by file name: two
   selections from the same file share copied_pages.  Input 0 is the primary.  No proofs in this file. *)
From QV Require Import Base.Bytes Struct.PageOps.
From Coq Require Import List Arith Bool.
Import ListNotations.

Inductive ps_pg : Type :=
| PsOrig (f i : nat)
| PsCopy (f i n : nat).

Definition ps_src (p : ps_pg) : nat * nat :=
  match p with PsOrig f i => (f, i) | PsCopy f i _ => (f, i) end.

Definition ps_pg_eqb (a b : ps_pg) : bool :=
  match a, b with
  | PsOrig f i, PsOrig g j => (f =? g) && (i =? j)
  | PsCopy f i n, PsCopy g j m => (f =? g) && (i =? j) && (n =? m)
  | _, _ => false
  end.

Definition ps_key_eqb (a b : nat * nat) : bool := (fst a =? fst b) && (snd a =? snd b).

(* removePage: the page leaves the list (kids.eraseItem(pos) of the flat tree) *)
Fixpoint ps_remove (p : ps_pg) (l : list ps_pg) : list ps_pg :=
  match l with
  | [] => []
  | x :: l' => if ps_pg_eqb p x then l' else x :: ps_remove p l'
  end.

Record ps_st : Type := PsSt {
  ps_rout : list ps_pg;            (* the output page list, newest first *)
  ps_copied : list (nat * nat);    (* copied_pages of all inputs: (input, idx) already used *)
  ps_fresh : nat                   (* number of shallow copies made so far *)
}.

Definition ps_add (st : ps_st) (p : nat * nat) : ps_st :=
  if existsb (ps_key_eqb p) (ps_copied st)
  then PsSt (PsCopy (fst p) (snd p) (ps_fresh st) :: ps_rout st) (ps_copied st) (S (ps_fresh st))
  else PsSt (PsOrig (fst p) (snd p) :: ps_rout st) (p :: ps_copied st) (ps_fresh st).

(* a --collate list with one value stands for that value for every selection *)
Definition ps_broadcast (cs : list nat) (n : nat) : list nat :=
  match cs with [c] => repeat c n | _ => cs end.

(* the order in which pages are added: the selections one after the other, or collated *)
Definition ps_order (sels : list (nat * list nat)) (cs : list nat) : list (nat * nat) :=
  let seqs := map (fun s => map (pair (fst s)) (snd s)) sels in
  if (0 <? length cs) && (1 <? length sels) then collate seqs (ps_broadcast cs (length sels)) else concat seqs.

Definition ps_handle (n0 : nat) (sels : list (nat * list nat)) (cs : list nat) : list ps_pg :=
  let primary := map (PsOrig 0) (seq 0 n0) in
  let out0 := fold_left (fun out p => ps_remove p out) primary primary in
  rev' (ps_rout (fold_left ps_add (ps_order sels cs) (PsSt (rev' out0) [] 0))).
