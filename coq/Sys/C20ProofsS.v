(* C20 - proofs about the shared-storage heap model (Sys/HeapShare.v). *)
From QV Require Import Base.Bytes Sys.Heap Sys.HeapShare Sys.C20Proofs.
Local Open Scope N_scope.
Local Opaque xfuel.

(* ================================================================== what an observation reads of one cell *)
(* the value with a stream's data source replaced by the bytes it delivers, and the object id *)
Definition xnorm (w : hxworld) (v : hxval) : hxval :=
  match v with XStream d s => XStream d (XsFile (xdata w s)) | _ => v end.
Definition xcellobs (w : hxworld) (l : nat) : hxval * N := (xnorm w (xval w l), xog w l).

Lemma xnorm_inv w w' v v' : xnorm w' v' = xnorm w v ->
  match v with
  | XStream d s => exists s', v' = XStream d s' /\ xdata w' s' = xdata w s
  | _ => v' = v
  end.
Proof.
  destruct v, v'; simpl; intros H; try discriminate; try (inversion H; subst; reflexivity).
  injection H as H1 H2. subst. eexists; split; [reflexivity|exact H2].
Qed.

Lemma xcellobs_og w w' l : xcellobs w' l = xcellobs w l -> xog w' l = xog w l.
Proof. unfold xcellobs. intros H. inversion H. reflexivity. Qed.

Lemma xcellobs_val w w' l : xcellobs w' l = xcellobs w l ->
  match xval w l with
  | XStream d s => exists s', xval w' l = XStream d s' /\ xdata w' s' = xdata w s
  | v => xval w' l = v
  end.
Proof. unfold xcellobs. intros H. inversion H as [[H1 H2]]. apply xnorm_inv in H1. destruct (xval w l); exact H1. Qed.

Definition xagree (w w' : hxworld) (ls : list nat) : Prop := Forall (fun l => xcellobs w' l = xcellobs w l) ls.

Lemma flat_map_ext_in' {A B} (f g : A -> list B) l : (forall x, In x l -> f x = g x) -> flat_map f l = flat_map g l.
Proof. induction l; simpl; intros H; [reflexivity|]. rewrite H by auto. rewrite IHl; auto. Qed.

Lemma Forall_flat_map' {A B} (P : B -> Prop) (f : A -> list B) l :
  Forall P (flat_map f l) -> forall x, In x l -> Forall P (f x).
Proof.
  induction l; simpl; intros H x Hx; [contradiction|]. apply Forall_app in H. destruct H as [H1 H2].
  destruct Hx as [->|Hx]; auto.
Qed.

Lemma xclos_head f w l : In l (xclos f w l).
Proof. destruct f; simpl; auto. Qed.

(* the closure and the text only depend on what the closure's cells show *)
Lemma xclos_agree w w' : forall f l, xagree w w' (xclos f w l) -> xclos f w' l = xclos f w l.
Proof.
  induction f as [|f IH]; intros l H; simpl; [reflexivity|]. f_equal.
  simpl in H. inversion H as [|? ? Hl Hr]; subst.
  pose proof (xcellobs_val _ _ _ Hl) as Hv.
  assert (Hkid : forall e, xagree w w' (if xog w e =? 0 then xclos f w e else [e]) ->
                 (if xog w' e =? 0 then xclos f w' e else [e]) = (if xog w e =? 0 then xclos f w e else [e])).
  { intros e He. assert (Hog : xog w' e = xog w e).
    { apply xcellobs_og. unfold xagree in He. rewrite Forall_forall in He. apply He.
      destruct (xog w e =? 0); [apply xclos_head|left; reflexivity]. }
    rewrite Hog. destruct (xog w e =? 0); [apply IH; exact He|reflexivity]. }
  destruct (xval w l) eqn:E; try (rewrite Hv; reflexivity).
  - rewrite Hv. apply flat_map_ext_in'. intros e He. apply Hkid. eapply Forall_flat_map' in Hr; eauto.
  - rewrite Hv. apply flat_map_ext_in'. intros e He. apply Hkid.
    apply (Forall_flat_map' _ (fun kv => if xog w (snd kv) =? 0 then xclos f w (snd kv) else [snd kv]) items Hr e He).
  - destruct Hv as (s' & -> & _). apply IH. exact Hr.
Qed.

Lemma xunparse_agree w w' : forall f l, xagree w w' (xclos f w l) -> xunparse f w' l = xunparse f w l.
Proof.
  induction f as [|f IH]; intros l H; simpl; [reflexivity|].
  simpl in H. inversion H as [|? ? Hl Hr]; subst.
  pose proof (xcellobs_val _ _ _ Hl) as Hv. pose proof (xcellobs_og _ _ _ Hl) as Hog.
  assert (Hitem : forall e, xagree w w' (if xog w e =? 0 then xclos f w e else [e]) ->
                 (if xog w' e =? 0 then xunparse f w' e else Some (s_ref (xog w' e))) =
                 (if xog w e =? 0 then xunparse f w e else Some (s_ref (xog w e))) /\ xcellobs w' e = xcellobs w e).
  { intros e He. assert (Hc : xcellobs w' e = xcellobs w e).
    { unfold xagree in He. rewrite Forall_forall in He. apply He.
      destruct (xog w e =? 0); [apply xclos_head|left; reflexivity]. }
    split; [|exact Hc]. rewrite (xcellobs_og _ _ _ Hc). destruct (xog w e =? 0); [apply IH; exact He|reflexivity]. }
  destruct (xval w l) eqn:E; try (rewrite Hv; reflexivity).
  - rewrite Hv. erewrite map_ext_in; [reflexivity|]. intros e He. simpl.
    destruct (Hitem e (Forall_flat_map' _ _ _ Hr e He)) as [-> _]. reflexivity.
  - rewrite Hv. erewrite map_ext_in; [reflexivity|]. intros e He. simpl.
    destruct (Hitem (snd e) (Forall_flat_map' _ (fun kv => if xog w (snd kv) =? 0 then xclos f w (snd kv) else [snd kv]) items Hr e He)) as [Hi Hc].
    rewrite Hi. pose proof (xcellobs_val _ _ _ Hc) as Hv2.
    destruct (xval w (snd e)) eqn:E2; try (rewrite Hv2; reflexivity).
    destruct Hv2 as (s' & -> & _). reflexivity.
  - destruct Hv as (s' & -> & _). rewrite Hog. reflexivity.
Qed.

Lemma xshow_agree w w' l : xagree w w' (xclos (S xfuel) w l) -> xshow w' l = xshow w l.
Proof.
  unfold xshow. generalize xfuel. intros F H.
  assert (Hl : xcellobs w' l = xcellobs w l).
  { unfold xagree in H. rewrite Forall_forall in H. apply H. apply xclos_head. }
  pose proof (xcellobs_val _ _ _ Hl) as Hv.
  destruct (xval w l) eqn:E; try (rewrite Hv; rewrite (xunparse_agree w w' _ _ H); reflexivity).
  destruct Hv as (s' & -> & Hd). rewrite Hd.
  cbn [xclos] in H. rewrite E in H. inversion H; subst. rewrite (xunparse_agree w w' F dict); auto.
Qed.

Lemma xunparse_h_agree w w' l : xagree w w' (xclos (S xfuel) w l) -> xunparse_h w' l = xunparse_h w l.
Proof.
  unfold xunparse_h. generalize xfuel. intros F H.
  assert (Hl : xcellobs w' l = xcellobs w l).
  { unfold xagree in H. rewrite Forall_forall in H. apply H. apply xclos_head. }
  rewrite (xcellobs_og _ _ _ Hl), (xunparse_agree w w' _ _ H). reflexivity.
Qed.

(* ================================================================== a party's observation depends on its cells only *)
Lemma in_flat_map_Forall {A B} (P : B -> Prop) (f : A -> list B) l x : Forall P (flat_map f l) -> In x l -> Forall P (f x).
Proof. intros H Hx. eapply Forall_flat_map'; eauto. Qed.

Lemma xagree_app w w' l1 l2 : xagree w w' (l1 ++ l2) -> xagree w w' l1 /\ xagree w w' l2.
Proof. unfold xagree. apply Forall_app. Qed.

Lemma xobs_agree w w' p :
  xdoc w' p = xdoc w p -> xroots_of w' p = xroots_of w p -> xagree w w' (xparty_cells w p) -> xobs w' p = xobs w p.
Proof.
  intros Hd Hr Ha. unfold xparty_cells in Ha. apply xagree_app in Ha. destruct Ha as [Hc Hro].
  unfold xobs, xobs_objects, xobs_roots. rewrite Hd, Hr. f_equal.
  - destruct (xdoc w p) as [dv|]; [|reflexivity]. destruct (xd_alive dv); [|reflexivity].
    apply map_ext. intros id. f_equal. destruct (nmap_get (xd_cache dv) id) as [l|] eqn:E; [|reflexivity].
    apply xshow_agree. apply nmap_get_in in E.
    apply (in_flat_map_Forall _ (fun e => xclos (S xfuel) w (snd e)) _ (id, l) Hc E).
  - apply map_ext_in. intros e He. f_equal. f_equal.
    + f_equal. apply xunparse_h_agree. apply (in_flat_map_Forall _ (fun e => xclos (S xfuel) w (snd (snd e))) _ e Hro He).
    + apply xshow_agree. apply (in_flat_map_Forall _ (fun e => xclos (S xfuel) w (snd (snd e))) _ e Hro He).
Qed.

Lemma xparty_cells_agree w w' p :
  xdoc w' p = xdoc w p -> xroots_of w' p = xroots_of w p -> xagree w w' (xparty_cells w p) -> xparty_cells w' p = xparty_cells w p.
Proof.
  intros Hd Hr Ha. unfold xparty_cells in *. apply xagree_app in Ha. destruct Ha as [Hc Hro]. rewrite Hd, Hr. apply (f_equal2 (@app nat)).
  - destruct (xdoc w p) as [dv|]; [|reflexivity]. apply flat_map_ext_in'. intros e He. apply xclos_agree.
    apply (in_flat_map_Forall _ (fun e => xclos (S xfuel) w (snd e)) _ e Hc He).
  - apply flat_map_ext_in'. intros e He. apply xclos_agree.
    apply (in_flat_map_Forall _ (fun e => xclos (S xfuel) w (snd (snd e))) _ e Hro He).
Qed.

(* ================================================================== ranges: every index points at something *)
Definition xkids (v : hxval) : list nat :=
  match v with XArr els => els | XDict items => map snd items | XStream d _ => [d] | _ => [] end.
Definition xbuf_of (v : hxval) : list nat := match v with XStream _ (XsBuf b) => [b] | _ => [] end.

Record xinr (w : hxworld) : Prop := {
  xr_kids : forall l c, xget w l = Some c -> Forall (fun k => (k < length (xw_cells w))%nat) (xkids (xc_val c));
  xr_bufs : forall l c, xget w l = Some c -> Forall (fun b => (b < length (xw_bufs w))%nat) (xbuf_of (xc_val c));
  xr_cache : forall d dv, xdoc w d = Some dv -> Forall (fun e => (snd e < length (xw_cells w))%nat) (xd_cache dv);
  xr_cmap : forall d dv, xdoc w d = Some dv -> Forall (fun e => (snd e < length (xw_cells w))%nat) (xd_cmap dv);
  xr_roots : Forall (fun e => (snd (snd e) < length (xw_cells w))%nat /\ xroot_ok (fst (snd e)) (fst e) = true
                              /\ (fst (snd e) < length (xw_docs w))%nat) (xw_roots w);
  xr_held : Forall (fun e => (xh_buf (snd e) < length (xw_bufs w))%nat) (xw_held w);
  xr_docs0 : (0 < length (xw_docs w))%nat
}.

Lemma xval_kids w l : xinr w -> Forall (fun k => (k < length (xw_cells w))%nat) (xkids (xval w l)).
Proof. intros R. unfold xval. destruct (xget w l) eqn:E; [eapply xr_kids; eauto|constructor]. Qed.

Lemma xclos_inr w : xinr w -> forall f l, (l < length (xw_cells w))%nat -> Forall (fun k => (k < length (xw_cells w))%nat) (xclos f w l).
Proof.
  intros R. induction f as [|f IH]; intros l Hl; simpl; [repeat constructor; auto|]. constructor; [auto|].
  pose proof (xval_kids w l R) as K.
  assert (Hkid : forall e, (e < length (xw_cells w))%nat ->
            Forall (fun k => (k < length (xw_cells w))%nat) (if xog w e =? 0 then xclos f w e else [e])).
  { intros e He. destruct (xog w e =? 0); [apply IH; auto|repeat constructor; auto]. }
  destruct (xval w l); simpl in K; try constructor.
  - induction K; simpl; [constructor|]. apply Forall_app. split; auto.
  - induction items as [|[k e] t IHt]; simpl in *; [constructor|]. inversion K; subst. apply Forall_app. split; auto.
  - inversion K; subst. apply IH. auto.
Qed.

Lemma xparty_cells_inr w p : xinr w -> Forall (fun k => (k < length (xw_cells w))%nat) (xparty_cells w p).
Proof.
  intros R. unfold xparty_cells. apply Forall_app. split.
  - destruct (xdoc w p) as [dv|] eqn:E; [|constructor]. pose proof (xr_cache w R p dv E) as C.
    induction C; cbn [flat_map]; [constructor|]. apply Forall_app. split; auto. apply xclos_inr; auto.
  - pose proof (xr_roots w R) as C. unfold xroots_of.
    induction C as [|e t He Ht IH]; cbn [filter flat_map]; [constructor|].
    destruct (Nat.eqb (fst (snd e)) p); cbn [flat_map]; auto. apply Forall_app. split; auto. apply xclos_inr; auto. apply He.
Qed.

(* ================================================================== what an operation of party a may do *)
(* Wr: the cells whose observable content may change *)
Record xkeeps (Wr : nat -> Prop) (a : nat) (w w' : hxworld) : Prop := {
  xk_cells : forall l, (l < length (xw_cells w))%nat -> ~ Wr l -> xcellobs w' l = xcellobs w l;
  xk_len : (length (xw_cells w) <= length (xw_cells w'))%nat;
  xk_docs : forall p, p <> a -> xdoc w' p = xdoc w p;
  xk_ndocs : (length (xw_docs w) <= length (xw_docs w'))%nat;
  xk_nbufs : (length (xw_bufs w) <= length (xw_bufs w'))%nat;
  xk_roots : forall p, p <> a -> xroots_of w' p = xroots_of w p
}.

Lemma xkeeps_refl Wr a w : xkeeps Wr a w w.
Proof. constructor; auto. Qed.

Lemma xkeeps_trans Wr a w1 w2 w3 : xkeeps Wr a w1 w2 -> xkeeps Wr a w2 w3 -> xkeeps Wr a w1 w3.
Proof.
  intros [C1 L1 D1 N1 B1 R1] [C2 L2 D2 N2 B2 R2]. constructor.
  - intros l Hl Hw. rewrite C2, C1; auto. lia.
  - lia.
  - intros p Hp. rewrite D2, D1; auto.
  - lia.
  - lia.
  - intros p Hp. rewrite R2, R1; auto.
Qed.

Lemma xkeeps_weaken (Wr Wr' : nat -> Prop) a w w' : (forall l, Wr l -> Wr' l) -> xkeeps Wr a w w' -> xkeeps Wr' a w w'.
Proof. intros H [C L D N Bf R]. constructor; auto. Qed.

(* the frame argument: cells of another party that are not written *)
Lemma xframe_core Wr a w w' p :
  xinr w -> xkeeps Wr a w w' -> p <> a -> (forall l, In l (xparty_cells w p) -> ~ Wr l) -> xobs w' p = xobs w p.
Proof.
  intros R [C L D Nd Bf Ro] Hp Hn. apply xobs_agree; auto.
  pose proof (xparty_cells_inr w p R) as I. unfold xagree. rewrite Forall_forall in *. intros l Hl. apply C; auto.
Qed.

Lemma xparty_cells_keeps Wr a w w' p :
  xinr w -> xkeeps Wr a w w' -> p <> a -> (forall l, In l (xparty_cells w p) -> ~ Wr l) -> xparty_cells w' p = xparty_cells w p.
Proof.
  intros R [C L D Nd Bf Ro] Hp Hn. apply xparty_cells_agree; auto.
  pose proof (xparty_cells_inr w p R) as I. unfold xagree. rewrite Forall_forall in *. intros l Hl. apply C; auto.
Qed.

(* ================================================================== primitives *)
Definition xnone : nat -> Prop := fun _ => False.
Definition xok (Wr : nat -> Prop) (a : nat) (w w' : hxworld) : Prop := xinr w -> xkeeps Wr a w w' /\ xinr w'.

Lemma xok_refl Wr a w : xok Wr a w w.
Proof. intros R. split; [apply xkeeps_refl|exact R]. Qed.

Lemma xok_trans Wr a w1 w2 w3 : xok Wr a w1 w2 -> xok Wr a w2 w3 -> xok Wr a w1 w3.
Proof. intros H1 H2 R. destruct (H1 R) as [K1 R2]. destruct (H2 R2) as [K2 R3]. split; [eapply xkeeps_trans; eauto|auto]. Qed.

Lemma xok_weaken (Wr Wr' : nat -> Prop) a w w' : (forall l, Wr l -> Wr' l) -> xok Wr a w w' -> xok Wr' a w w'.
Proof. intros H O R. destruct (O R). split; [eapply xkeeps_weaken; eauto|auto]. Qed.

Lemma xget_lt w l c : xget w l = Some c -> (l < length (xw_cells w))%nat.
Proof. unfold xget. intros H. apply nth_error_Some. congruence. Qed.

Lemma Forall_lt_le (n m : nat) l : (n <= m)%nat -> Forall (fun k => (k < n)%nat) l -> Forall (fun k => (k < m)%nat) l.
Proof. intros H F. eapply Forall_impl; [|exact F]. simpl. intros; lia. Qed.

Lemma Forall_snd_lt_le {A} (n m : nat) (l : list (A * nat)) :
  (n <= m)%nat -> Forall (fun e => (snd e < n)%nat) l -> Forall (fun e => (snd e < m)%nat) l.
Proof. intros H F. eapply Forall_impl; [|exact F]. simpl. intros; lia. Qed.

(* the same cells list except appended / rewritten entries: a generic constructor for xinr after a change of cells only *)
Lemma xinr_cells w cs :
  xinr w -> (length (xw_cells w) <= length cs)%nat ->
  (forall l c, nth_error cs l = Some c ->
     Forall (fun k => (k < length cs)%nat) (xkids (xc_val c)) /\ Forall (fun b => (b < length (xw_bufs w))%nat) (xbuf_of (xc_val c))) ->
  xinr (xset_cells w cs).
Proof.
  intros R L H. constructor; simpl.
  - intros l c E. apply (H l c E).
  - intros l c E. apply (H l c E).
  - intros d dv E. eapply Forall_snd_lt_le; [exact L|]. apply (xr_cache w R d dv E).
  - intros d dv E. eapply Forall_snd_lt_le; [exact L|]. apply (xr_cmap w R d dv E).
  - eapply Forall_impl; [|apply (xr_roots w R)]. simpl. intros e (H1 & H2 & H3). repeat split; auto. lia.
  - apply (xr_held w R).
  - apply (xr_docs0 w R).
Qed.

Lemma xcellobs_same_cell w w' l :
  xget w' l = xget w l -> (forall c b, xget w l = Some c -> In b (xbuf_of (xc_val c)) -> nth b (xw_bufs w') [] = nth b (xw_bufs w) []) ->
  xcellobs w' l = xcellobs w l.
Proof.
  intros E B. unfold xcellobs, xval, xog. rewrite E. destruct (xget w l) as [c|] eqn:Ec; [|reflexivity].
  f_equal. destruct (xc_val c) eqn:Ev; simpl; try reflexivity. destruct src; simpl; try reflexivity.
  f_equal. f_equal. apply (B c b eq_refl). rewrite Ev. simpl. auto.
Qed.

Lemma xalloc_ok a w c :
  (xinr w -> Forall (fun k => (k < length (xw_cells w))%nat) (xkids (xc_val c)) /\
             Forall (fun b => (b < length (xw_bufs w))%nat) (xbuf_of (xc_val c))) ->
  xok xnone a w (fst (xalloc w c)) /\ snd (xalloc w c) = length (xw_cells w).
Proof.
  intros Hc. split; [|reflexivity]. intros R. destruct (Hc R) as [Hk Hb]. split.
  - constructor; simpl; auto.
    + intros l Hl _. apply xcellobs_same_cell; [|reflexivity]. unfold xget. simpl. apply nth_error_app1. exact Hl.
    + rewrite app_length. simpl. lia.
  - change (fst (xalloc w c)) with (xset_cells w (xw_cells w ++ [c])). apply xinr_cells; auto.
    + rewrite app_length. simpl. lia.
    + intros l c0 E. rewrite app_length. simpl.
      destruct (Nat.lt_ge_cases l (length (xw_cells w))) as [Hl|Hl].
      * rewrite nth_error_app1 in E by exact Hl. split; [|eapply xr_bufs; eauto].
        eapply Forall_lt_le; [|eapply xr_kids; eauto]. lia.
      * rewrite nth_error_app2 in E by exact Hl. destruct (l - length (xw_cells w))%nat as [|k] eqn:Ek.
        -- simpl in E. inversion E; subst. split; [eapply Forall_lt_le; [|exact Hk]; lia|exact Hb].
        -- simpl in E. destruct k; discriminate.
Qed.

Lemma xalloc_len w c : length (xw_cells (fst (xalloc w c))) = S (length (xw_cells w)).
Proof. simpl. rewrite app_length. simpl. lia. Qed.

Lemma xget_set_eq w l c : (l < length (xw_cells w))%nat -> xget (xset w l c) l = Some c.
Proof. intros H. unfold xget. simpl. apply nth_error_set_nth_eq. exact H. Qed.
Lemma xget_set_ne w l c l' : l <> l' -> xget (xset w l c) l' = xget w l'.
Proof. intros H. unfold xget. simpl. apply nth_error_set_nth_ne. exact H. Qed.

Lemma set_nth_length {A} (l : list A) n x : length (set_nth l n x) = length l.
Proof. revert n. induction l; intros [|n]; simpl; auto. Qed.

Lemma xset_ok a w l c :
  (xinr w -> Forall (fun k => (k < length (xw_cells w))%nat) (xkids (xc_val c)) /\
             Forall (fun b => (b < length (xw_bufs w))%nat) (xbuf_of (xc_val c))) ->
  xok (eq l) a w (xset w l c).
Proof.
  intros Hc R. destruct (Hc R) as [Hk Hb]. split.
  - constructor; simpl; auto.
    + intros l' Hl Hn. apply xcellobs_same_cell; [|reflexivity]. apply xget_set_ne. congruence.
    + rewrite set_nth_length. lia.
  - change (xset w l c) with (xset_cells w (set_nth (xw_cells w) l c)). apply xinr_cells; auto.
    + rewrite set_nth_length. lia.
    + intros l' c0 E. rewrite set_nth_length. destruct (Nat.eq_dec l l') as [->|Hne].
      * destruct (Nat.lt_ge_cases l' (length (xw_cells w))) as [Hl|Hl].
        -- rewrite nth_error_set_nth_eq in E by exact Hl. inversion E; subst. auto.
        -- rewrite nth_error_set_nth_out in E by exact Hl. split; [eapply xr_kids; eauto|eapply xr_bufs; eauto].
      * rewrite nth_error_set_nth_ne in E by exact Hne. split; [eapply xr_kids; eauto|eapply xr_bufs; eauto].
Qed.

(* a rewrite that leaves value and object id alone (only the owner changes) is invisible *)
Lemma xset_owner_ok a w l c q :
  xget w l = Some c -> xok xnone a w (xset w l (mkXc (xc_val c) q (xc_og c))).
Proof.
  intros E R. pose proof (xget_lt _ _ _ E) as Hl.
  destruct (xset_ok a w l (mkXc (xc_val c) q (xc_og c))) as [K R']; [|exact R|].
  { intros _. simpl. split; [eapply xr_kids; eauto|eapply xr_bufs; eauto]. }
  split; [|exact R']. destruct K as [C L D Nd Bf Ro]. constructor; auto.
  intros l' Hl' _. destruct (Nat.eq_dec l l') as [<-|Hne]; [|apply C; auto].
  unfold xcellobs, xval, xog. rewrite xget_set_eq by exact Hl. rewrite E. reflexivity.
Qed.

Lemma xsetval_ok a w l v :
  (xinr w -> Forall (fun k => (k < length (xw_cells w))%nat) (xkids v) /\ Forall (fun b => (b < length (xw_bufs w))%nat) (xbuf_of v)) ->
  xok (eq l) a w (xsetval w l v).
Proof. intros H. unfold xsetval. destruct (xget w l); [|apply xok_refl]. apply xset_ok. exact H. Qed.

Lemma xballoc_ok a w bs : xok xnone a w (fst (xballoc w bs)) /\ snd (xballoc w bs) = length (xw_bufs w).
Proof.
  split; [|reflexivity]. intros R. split.
  - constructor; simpl; auto; [|rewrite app_length; lia]. intros l Hl _. apply xcellobs_same_cell; [reflexivity|].
    intros c b E Hb. simpl. apply app_nth1. pose proof (xr_bufs w R l c E) as F. rewrite Forall_forall in F. apply F. exact Hb.
  - constructor; simpl; try apply R.
    + intros l c E. rewrite app_length. eapply Forall_lt_le; [|eapply (xr_bufs w R); eauto]. lia.
    + rewrite app_length. eapply Forall_impl; [|apply (xr_held w R)]. simpl. intros; lia.
Qed.

Lemma filter_imap_set_other {A} (f : nat * A -> bool) m r v :
  f (r, v) = false -> (forall v', In (r, v') m -> f (r, v') = false) -> filter f (imap_set m r v) = filter f m.
Proof.
  intros Hv Hm. induction m as [|[k x] m IH]; simpl; [rewrite Hv; reflexivity|].
  destruct (Nat.ltb r k); [simpl; rewrite Hv; reflexivity|].
  destruct (Nat.eqb k r) eqn:E.
  - apply Nat.eqb_eq in E. subst k. simpl. rewrite Hv. rewrite (Hm x (or_introl eq_refl)). reflexivity.
  - simpl. rewrite IH; [reflexivity|]. intros v' Hi. apply Hm. right. exact Hi.
Qed.

Lemma Forall_imap_set' {A} (P : nat * A -> Prop) m k v : Forall P m -> P (k, v) -> Forall P (imap_set m k v).
Proof.
  intros H Hx. induction H as [|[k' v'] m Hh Ht IH]; simpl; auto.
  destruct (Nat.ltb k k'); [auto|]. destruct (Nat.eqb k' k); auto.
Qed.

Lemma xsetroot_ok a w r l :
  (xinr w -> (l < length (xw_cells w))%nat) -> xroot_ok a r = true -> (a < length (xw_docs w))%nat -> xok xnone a w (xsetroot w r a l).
Proof.
  intros Hl Hr Ha R. specialize (Hl R). split.
  - constructor; simpl; auto. intros p Hp. unfold xroots_of. simpl. apply filter_imap_set_other.
    + simpl. apply Nat.eqb_neq. congruence.
    + intros [p' l'] Hi. simpl. pose proof (xr_roots w R) as F. rewrite Forall_forall in F. destruct (F _ Hi) as (_ & H2 & _). simpl in H2.
      unfold xroot_ok in *. apply Nat.eqb_eq in H2, Hr. apply Nat.eqb_neq. congruence.
  - constructor; simpl; try apply R. apply Forall_imap_set'; [apply R|]. simpl. auto.
Qed.

Lemma xsetheld_ok a w br h : (xinr w -> (xh_buf h < length (xw_bufs w))%nat) -> xok xnone a w (xsetheld w br h).
Proof.
  intros Hb R. split.
  - constructor; simpl; auto.
  - constructor; simpl; try apply R. apply Forall_imap_set'; [apply R|]. simpl. auto.
Qed.

Lemma xdoc_setdoc_ne w a dv p : p <> a -> xdoc (xsetdoc w a dv) p = xdoc w p.
Proof. intros H. unfold xdoc. simpl. apply nth_error_set_nth_ne. congruence. Qed.

Lemma xsetdoc_ok a w dv :
  (xinr w -> Forall (fun e => (snd e < length (xw_cells w))%nat) (xd_cache dv) /\ Forall (fun e => (snd e < length (xw_cells w))%nat) (xd_cmap dv)) ->
  xok xnone a w (xsetdoc w a dv).
Proof.
  intros H R. destruct (H R) as [H1 H2]. split.
  - constructor; simpl; auto; [intros p Hp; apply xdoc_setdoc_ne; exact Hp|rewrite set_nth_length; lia].
  - constructor; simpl; try apply R.
    + intros d dv' E. unfold xdoc in E. simpl in E. destruct (Nat.eq_dec a d) as [->|Hne].
      * destruct (Nat.lt_ge_cases d (length (xw_docs w))) as [Hl|Hl].
        -- rewrite nth_error_set_nth_eq in E by exact Hl. inversion E; subst. exact H1.
        -- rewrite nth_error_set_nth_out in E by exact Hl. eapply xr_cache; eauto.
      * rewrite nth_error_set_nth_ne in E by exact Hne. eapply xr_cache; eauto.
    + intros d dv' E. unfold xdoc in E. simpl in E. destruct (Nat.eq_dec a d) as [->|Hne].
      * destruct (Nat.lt_ge_cases d (length (xw_docs w))) as [Hl|Hl].
        -- rewrite nth_error_set_nth_eq in E by exact Hl. inversion E; subst. exact H2.
        -- rewrite nth_error_set_nth_out in E by exact Hl. eapply xr_cmap; eauto.
      * rewrite nth_error_set_nth_ne in E by exact Hne. eapply xr_cmap; eauto.
    + rewrite set_nth_length. apply R.
    + rewrite set_nth_length. apply R.
Qed.

Lemma xsetcache_ok a w id l : (xinr w -> (l < length (xw_cells w))%nat) -> xok xnone a w (xsetcache w a id l).
Proof.
  intros Hl. unfold xsetcache. destruct (xdoc w a) as [dv|] eqn:E; [|apply xok_refl].
  apply xsetdoc_ok. intros R. simpl. split; [|eapply xr_cmap; eauto]. apply Forall_nmap_set; [eapply xr_cache; eauto|]. simpl. auto.
Qed.

Lemma xsetcmap_ok a w s id l : (xinr w -> (l < length (xw_cells w))%nat) -> xok xnone a w (xsetcmap w a s id l).
Proof.
  intros Hl. unfold xsetcmap. destruct (xdoc w a) as [dv|] eqn:E; [|apply xok_refl].
  apply xsetdoc_ok. intros R. simpl. split; [eapply xr_cache; eauto|]. constructor; [simpl; auto|eapply xr_cmap; eauto].
Qed.

(* ================================================================== navigation, parsing, copying: allocation only *)
Local Arguments xalloc : simpl never.
Local Arguments xballoc : simpl never.
Local Arguments xset : simpl never.
Local Arguments xsetval : simpl never.
Local Arguments xsetroot : simpl never.
Local Arguments xsetheld : simpl never.
Local Arguments xsetdoc : simpl never.
Local Arguments xsetcache : simpl never.
Local Arguments xsetcmap : simpl never.
Local Arguments xbset : simpl never.
Definition xres_ok (a : nat) (w : hxworld) (r : option (hxworld * nat)) : Prop :=
  match r with Some (w1, l) => xok xnone a w w1 /\ (xinr w -> (l < length (xw_cells w1))%nat) | None => True end.

Lemma xok_len Wr a w w' : xok Wr a w w' -> xinr w -> (length (xw_cells w) <= length (xw_cells w'))%nat.
Proof. intros O R. destruct (O R) as [K _]. apply K. Qed.

Lemma xalloc_scalar_ok a w c : xkids (xc_val c) = [] -> xbuf_of (xc_val c) = [] ->
  xok xnone a w (fst (xalloc w c)) /\ (snd (xalloc w c) < length (xw_cells (fst (xalloc w c))))%nat.
Proof.
  intros Hk Hb. split.
  - apply xalloc_ok. intros _. rewrite Hk, Hb. split; constructor.
  - rewrite xalloc_len. simpl. lia.
Qed.

Lemma xnav1_ok a w l s : (l < length (xw_cells w))%nat -> xres_ok a w (xnav1 w l s).
Proof.
  intros Hl. unfold xnav1. destruct s.
  - destruct (xval w l) eqn:E; simpl; auto. destruct (nth_error els n) eqn:En; simpl; auto.
    split; [apply xok_refl|]. intros R. pose proof (xval_kids w l R) as K. rewrite E in K. simpl in K.
    apply (Forall_nth_error _ _ _ _ K En).
  - destruct (xval w l) eqn:E; simpl; auto. destruct (nmap_get items k) eqn:En.
    + simpl. split; [apply xok_refl|]. intros R. pose proof (xval_kids w l R) as K. rewrite E in K. simpl in K.
      apply nmap_get_in in En. rewrite Forall_forall in K. apply K. apply in_map_iff. exists (k, n). auto.
    + destruct (xalloc_scalar_ok a w (mkXc XNull (xqp w l) 0) eq_refl eq_refl) as [O L].
      destruct (xalloc w (mkXc XNull (xqp w l) 0)) as [w1 l1]. split; auto.
  - destruct (xval w l) eqn:E; simpl; auto.
    split; [apply xok_refl|]. intros R. pose proof (xval_kids w l R) as K. rewrite E in K. simpl in K. inversion K; auto.
Qed.

Lemma xnavs_ok a p : forall w l, (xinr w -> (l < length (xw_cells w))%nat) -> xinr w -> xres_ok a w (xnavs w l p).
Proof.
  induction p as [|s p IH]; intros w l Hl R; simpl.
  - split; [apply xok_refl|auto].
  - pose proof (xnav1_ok a w l s (Hl R)) as H1. destruct (xnav1 w l s) as [[w1 l1]|]; simpl in *; auto.
    destruct H1 as [O1 L1]. destruct (O1 R) as [_ R1].
    pose proof (IH w1 l1 (fun _ => L1 R) R1) as H2. destruct (xnavs w1 l1 p) as [[w2 l2]|]; simpl in *; auto.
    destruct H2 as [O2 L2]. split; [eapply xok_trans; eauto|auto].
Qed.

Lemma imap_get_in' {A} (m : list (nat * A)) k v : imap_get m k = Some v -> In (k, v) m.
Proof. apply imap_get_in. Qed.

Definition xres3_ok (a : nat) (w : hxworld) (r : option (hxworld * nat * bool)) : Prop :=
  match r with Some (w1, l, _) => xok xnone a w w1 /\ (xinr w -> (l < length (xw_cells w1))%nat) | None => True end.

Lemma xres3_alloc b w c f : xkids (xc_val c) = [] -> xbuf_of (xc_val c) = [] ->
  xres3_ok b w (let (w1, l) := xalloc w c in Some (w1, l, f)).
Proof.
  intros Hk Hb. destruct (xalloc_scalar_ok b w c Hk Hb) as [O L].
  destruct (xalloc w c) as [w1 l1]. simpl in *. auto.
Qed.

Lemma xeval_head_ok any a b w h : xinr w -> xres3_ok b w (xeval_head any a w h).
Proof.
  intros R. unfold xeval_head. destruct h; try (apply xres3_alloc; reflexivity).
  - destruct (imap_get (xw_roots w) r) as [[p l]|] eqn:E; [|exact I].
    assert (Hl : (l < length (xw_cells w))%nat).
    { apply imap_get_in in E. pose proof (xr_roots w R) as F. rewrite Forall_forall in F. apply (F _ E). }
    destruct (Nat.eqb p a); [split; [apply xok_refl|auto]|]. destruct any; [|exact I]. split; [apply xok_refl|auto].
  - destruct (xdoc w a) as [dv|] eqn:E; [|exact I].
    destruct (xd_alive dv && (3 <=? id) && (id <=? xcache_max (xd_cache dv))); [|exact I].
    destruct (nmap_get (xd_cache dv) id) as [l|] eqn:Eg; [|apply xres3_alloc; reflexivity].
    split; [apply xok_refl|]. intros _. apply nmap_get_in in Eg. pose proof (xr_cache w R a dv E) as F.
    rewrite Forall_forall in F. apply (F _ Eg).
Qed.

(* b: the party on whose account the allocations are booked (allocation touches no party's view) *)
Lemma xeval_ok any a b w e : xinr w -> xres3_ok b w (xeval any a w e).
Proof.
  intros R. unfold xeval. pose proof (xeval_head_ok any a b w (fst e) R) as H1.
  destruct (xeval_head any a w (fst e)) as [[[w1 l] c]|]; simpl in *; auto.
  destruct H1 as [O1 L1]. destruct (O1 R) as [_ R1].
  pose proof (xnavs_ok b (snd e) w1 l (fun _ => L1 R) R1) as H2.
  destruct (xnavs w1 l (snd e)) as [[w2 l2]|]; simpl in *; auto.
  destruct H2 as [O2 L2]. split; [eapply xok_trans; eauto|auto].
Qed.

Definition xpair_ok (a : nat) (w : hxworld) (r : hxworld * nat) : Prop :=
  xinr w -> xkeeps xnone a w (fst r) /\ xinr (fst r) /\ (snd r < length (xw_cells (fst r)))%nat.

Lemma xpair_alloc a w c :
  (xinr w -> Forall (fun k => (k < length (xw_cells w))%nat) (xkids (xc_val c)) /\
             Forall (fun b => (b < length (xw_bufs w))%nat) (xbuf_of (xc_val c))) ->
  xpair_ok a w (xalloc w c).
Proof.
  intros Hc R. destruct (xalloc_ok a w c Hc) as [O2 E]. destruct (O2 R) as [K R2]. split; [exact K|split; [exact R2|]].
  rewrite E, xalloc_len. lia.
Qed.

Lemma xpair_trans a w w1 r :
  xkeeps xnone a w w1 -> xinr w1 -> xpair_ok a w1 r -> xkeeps xnone a w (fst r) /\ xinr (fst r) /\ (snd r < length (xw_cells (fst r)))%nat.
Proof. intros K R1 P. destruct (P R1) as (K2 & R2 & L). split; [eapply xkeeps_trans; eauto|split; auto]. Qed.

Lemma xkeeps_len Wr a w w' : xkeeps Wr a w w' -> (length (xw_cells w) <= length (xw_cells w'))%nat.
Proof. intros K. apply K. Qed.

Lemma xbuild_ok a ctx : forall t w, xpair_ok a w (xbuild ctx t w).
Proof.
  fix IH 1. intros t w. destruct t as [|z|k|ts|kts]; cbn [xbuild].
  - apply xpair_alloc. intros _. split; constructor.
  - apply xpair_alloc. intros _. split; constructor.
  - apply xpair_alloc. intros _. split; constructor.
  - match goal with |- context [(fix go (ts : list xtree) (w : hxworld) (acc : list nat) {struct ts} : hxworld * list nat := _) ts w []] =>
      set (go := fix go (ts : list xtree) (w : hxworld) (acc : list nat) {struct ts} : hxworld * list nat :=
                   match ts with
                   | [] => (w, rev' acc)
                   | t :: r => let (w1, l) := xbuild ctx t w in go r w1 (l :: acc)
                   end) end.
    assert (G : forall ts w0 acc, xinr w0 -> Forall (fun k => (k < length (xw_cells w0))%nat) acc ->
                xkeeps xnone a w0 (fst (go ts w0 acc)) /\ xinr (fst (go ts w0 acc)) /\
                Forall (fun k => (k < length (xw_cells (fst (go ts w0 acc))))%nat) (snd (go ts w0 acc))).
    { induction ts0 as [|t r IHr]; intros w0 acc R0 F; simpl.
      - split; [apply xkeeps_refl|split; [exact R0|]]. rewrite rev'_rev. apply Forall_rev. auto.
      - destruct (IH t w0 R0) as (K1 & R1 & L1). destruct (xbuild ctx t w0) as [w1 l] eqn:Eb. simpl in *.
        destruct (IHr w1 (l :: acc) R1) as (K2 & R2 & F2).
        { constructor; [exact L1|]. eapply Forall_lt_le; [apply (xkeeps_len _ _ _ _ K1)|exact F]. }
        split; [eapply xkeeps_trans; eauto|split; auto]. }
    intros R. destruct (G ts w [] R (Forall_nil _)) as (K1 & R1 & F1).
    destruct (go ts w []) as [w1 els]. simpl in *.
    apply (xpair_trans a w w1 (xalloc w1 (mkXc (XArr els) ctx 0)) K1 R1).
    apply xpair_alloc. intros _. simpl. split; [exact F1|constructor].
  - match goal with |- context [(fix go (kts : list (N * xtree)) (w : hxworld) (acc : list (N * nat)) {struct kts} : hxworld * list (N * nat) := _) kts w []] =>
      set (go := fix go (kts : list (N * xtree)) (w : hxworld) (acc : list (N * nat)) {struct kts} : hxworld * list (N * nat) :=
                   match kts with
                   | [] => (w, acc)
                   | (k, t) :: r => let (w1, l) := xbuild ctx t w in go r w1 (nmap_set acc k l)
                   end) end.
    assert (G : forall kts w0 acc, xinr w0 -> Forall (fun e => (snd e < length (xw_cells w0))%nat) acc ->
                xkeeps xnone a w0 (fst (go kts w0 acc)) /\ xinr (fst (go kts w0 acc)) /\
                Forall (fun e => (snd e < length (xw_cells (fst (go kts w0 acc))))%nat) (snd (go kts w0 acc))).
    { induction kts0 as [|[k t] r IHr]; intros w0 acc R0 F; simpl.
      - split; [apply xkeeps_refl|split; [exact R0|exact F]].
      - destruct (IH t w0 R0) as (K1 & R1 & L1). destruct (xbuild ctx t w0) as [w1 l] eqn:Eb. simpl in *.
        destruct (IHr w1 (nmap_set acc k l) R1) as (K2 & R2 & F2).
        { apply Forall_nmap_set; [|exact L1]. eapply Forall_snd_lt_le; [apply (xkeeps_len _ _ _ _ K1)|exact F]. }
        split; [eapply xkeeps_trans; eauto|split; auto]. }
    intros R. destruct (G kts w [] R (Forall_nil _)) as (K1 & R1 & F1).
    destruct (go kts w []) as [w1 items]. simpl in *.
    apply (xpair_trans a w w1 (xalloc w1 (mkXc (XDict items) ctx 0)) K1 R1).
    apply xpair_alloc. intros _. simpl. split; [apply Forall_map_snd; exact F1|constructor].
Qed.

Lemma xclone_ok a : forall f q og w l, xpair_ok a w (xclone f q og w l).
Proof.
  induction f as [|f IH]; intros q og w l; cbn [xclone].
  - apply xpair_alloc. intros _. split; constructor.
  - destruct (xval w l) eqn:E; try (apply xpair_alloc; intros _; split; constructor).
    + (* array *)
      assert (G : forall els w0 acc, xinr w0 -> Forall (fun k => (k < length (xw_cells w0))%nat) acc ->
                  let r := fold_left (fun st e => let (w2, e') := xclone f None 0 (fst st) e in (w2, e' :: snd st)) els (w0, acc) in
                  xkeeps xnone a w0 (fst r) /\ xinr (fst r) /\ Forall (fun k => (k < length (xw_cells (fst r)))%nat) (snd r)).
      { induction els0 as [|e r IHr]; intros w0 acc R0 F; cbn [fold_left].
        - cbn. split; [apply xkeeps_refl|split; auto].
        - cbn [fst snd]. destruct (IH None 0 w0 e R0) as (K1 & R1 & L1). destruct (xclone f None 0 w0 e) as [w1 e'] eqn:Ec. cbn [fst snd] in *.
          destruct (IHr w1 (e' :: acc) R1) as (K2 & R2 & F2).
          { constructor; [exact L1|]. eapply Forall_lt_le; [apply (xkeeps_len _ _ _ _ K1)|exact F]. }
          split; [eapply xkeeps_trans; eauto|split; auto]. }
      intros R. destruct (G els w [] R (Forall_nil _)) as (K1 & R1 & F1).
      destruct (fold_left (fun st e => let (w2, e') := xclone f None 0 (fst st) e in (w2, e' :: snd st)) els (w, [])) as [w1 acc].
      cbn [fst snd] in *.
      apply (xpair_trans a w w1 (xalloc w1 (mkXc (XArr (rev' acc)) q og)) K1 R1).
      apply xpair_alloc. intros _. simpl. split; [|constructor]. rewrite rev'_rev. apply Forall_rev. exact F1.
    + (* dictionary *)
      set (stepf := fun (st : hxworld * list (N * nat)) (kv : N * nat) =>
                      match xval (fst st) (snd kv) with
                      | XNull => st
                      | _ => let (w2, e') := xclone f None 0 (fst st) (snd kv) in (w2, nmap_set (snd st) (fst kv) e')
                      end).
      assert (G : forall its w0 acc, xinr w0 -> Forall (fun e => (snd e < length (xw_cells w0))%nat) acc ->
                  let r := fold_left stepf its (w0, acc) in
                  xkeeps xnone a w0 (fst r) /\ xinr (fst r) /\ Forall (fun e => (snd e < length (xw_cells (fst r)))%nat) (snd r)).
      { induction its as [|[k e] r IHr]; intros w0 acc R0 F; cbn [fold_left].
        - cbn. split; [apply xkeeps_refl|split; auto].
        - assert (Hs : xkeeps xnone a w0 (fst (stepf (w0, acc) (k, e))) /\ xinr (fst (stepf (w0, acc) (k, e))) /\
                       Forall (fun x => (snd x < length (xw_cells (fst (stepf (w0, acc) (k, e)))))%nat) (snd (stepf (w0, acc) (k, e)))).
          { unfold stepf. cbn [fst snd].
            assert (Hc : xkeeps xnone a w0 (fst (let (w2, e') := xclone f None 0 w0 e in (w2, nmap_set acc k e'))) /\
                         xinr (fst (let (w2, e') := xclone f None 0 w0 e in (w2, nmap_set acc k e'))) /\
                         Forall (fun x => (snd x < length (xw_cells (fst (let (w2, e') := xclone f None 0 w0 e in (w2, nmap_set acc k e')))))%nat)
                                (snd (let (w2, e') := xclone f None 0 w0 e in (w2, nmap_set acc k e')))).
            { destruct (IH None 0 w0 e R0) as (K1 & R1 & L1). destruct (xclone f None 0 w0 e) as [w1 e'] eqn:Ec. cbn [fst snd] in *.
              split; [exact K1|split; [exact R1|]]. apply Forall_nmap_set; [|exact L1].
              eapply Forall_snd_lt_le; [apply (xkeeps_len _ _ _ _ K1)|exact F]. }
            destruct (xval w0 e); try exact Hc. cbn [fst snd]. split; [apply xkeeps_refl|split; auto]. }
          destruct Hs as (K1 & R1 & F1). destruct (stepf (w0, acc) (k, e)) as [w1 acc1]. cbn [fst snd] in *.
          destruct (IHr w1 acc1 R1 F1) as (K2 & R2 & F2).
          split; [eapply xkeeps_trans; eauto|split; auto]. }
      intros R. destruct (G items w [] R (Forall_nil _)) as (K1 & R1 & F1).
      fold stepf. destruct (fold_left stepf items (w, [])) as [w1 its]. cbn [fst snd] in *.
      apply (xpair_trans a w w1 (xalloc w1 (mkXc (XDict its) q og)) K1 R1).
      apply xpair_alloc. intros _. simpl. split; [apply Forall_map_snd; exact F1|constructor].
Qed.

(* ================================================================== ~QPDF *)
Lemma xfold_okQ {A} Wr a (f : hxworld -> A -> hxworld) (key : A -> nat) (Q : A -> Prop) (l : list A) :
  (forall w x, Q x -> (key x < length (xw_cells w))%nat -> xok Wr a w (f w x)) ->
  Forall Q l -> forall w, Forall (fun x => (key x < length (xw_cells w))%nat) l -> xok Wr a w (fold_left f l w).
Proof.
  intros Hf HQ. induction HQ as [|x l Hq HQ IH]; intros w F; simpl; [apply xok_refl|].
  inversion F as [|? ? Hx Hl]; subst. intros R.
  destruct (Hf w x Hq Hx R) as [K1 R1].
  assert (F' : Forall (fun y => (key y < length (xw_cells (f w x)))%nat) l).
  { eapply Forall_impl; [|exact Hl]. simpl. intros y Hy. pose proof (xkeeps_len _ _ _ _ K1). lia. }
  destruct (IH (f w x) F' R1) as [K2 R2]. split; [eapply xkeeps_trans; eauto|exact R2].
Qed.

Lemma xfold_ok {A} Wr a (f : hxworld -> A -> hxworld) (key : A -> nat) (l : list A) :
  (forall w x, (key x < length (xw_cells w))%nat -> xok Wr a w (f w x)) ->
  forall w, Forall (fun x => (key x < length (xw_cells w))%nat) l -> xok Wr a w (fold_left f l w).
Proof.
  intros Hf. apply (xfold_okQ Wr a f key (fun _ => True)); auto. apply Forall_forall. auto.
Qed.

(* disconnecting a direct object (and what hangs below it) changes owners only *)
Lemma xdisconnect_direct_ok a : forall f w l, (l < length (xw_cells w))%nat -> xok xnone a w (xdisconnect f true w l).
Proof.
  induction f as [|f IH]; intros w l Hl; cbn [xdisconnect]; [apply xok_refl|].
  destruct (xget w l) as [c|] eqn:E; [|apply xok_refl].
  destruct (true && negb (xc_og c =? 0)) eqn:Eg; [apply xok_refl|].
  assert (Hog : xc_og c = 0). { simpl in Eg. apply negb_false_iff in Eg. apply N.eqb_eq in Eg. exact Eg. }
  match goal with |- xok _ _ _ (match xget ?w1 l with _ => _ end) => set (wmid := w1) end.
  assert (O1 : xok xnone a w wmid).
  { unfold wmid. intros R. pose proof (xr_kids w R l c E) as K.
    destruct (xc_val c) eqn:Ev; try (apply xok_refl; exact R); simpl in K.
    - apply (xfold_ok xnone a (fun wa e => xdisconnect f true wa e) (fun e => e) els); auto.
    - apply (xfold_ok xnone a (fun wa e => xdisconnect f true wa (snd e)) (fun e => snd e) items); auto.
      apply (proj2 (Forall_map_snd (fun k => (k < length (xw_cells w))%nat) items)). exact K.
    - inversion K; subst. apply IH; auto. }
  intros R. destruct (O1 R) as [K1 R1].
  destruct (xget wmid l) as [c1|] eqn:E1; [|split; auto].
  (* the cell itself: value and id unchanged since the children only lost their owners *)
  assert (Hsame : xcellobs wmid l = xcellobs w l) by (apply K1; [exact Hl|intros []]).
  assert (Hog1 : xc_og c1 = 0).
  { apply xcellobs_og in Hsame. unfold xog in Hsame. rewrite E1, E in Hsame. congruence. }
  destruct (xset_owner_ok a wmid l c1 None E1 R1) as [K2 R2]. rewrite Hog1 in K2, R2.
  split; [eapply xkeeps_trans; eauto|exact R2].
Qed.

Lemma xdestroy_entry_ok a w l : (l < length (xw_cells w))%nat -> xok (eq l) a w (xdestroy_entry w l).
Proof.
  intros Hl. unfold xdestroy_entry. generalize (S xfuel). intros f0.
  assert (O1 : xok (eq l) a w (xdisconnect f0 false w l)).
  { destruct f0 as [|f]; cbn [xdisconnect]; [apply xok_refl|].
    destruct (xget w l) as [c|] eqn:E; [|apply xok_refl].
    cbn [andb].
    match goal with |- xok _ _ _ (match xget ?w1 l with _ => _ end) => set (wmid := w1) end.
    assert (O1 : xok xnone a w wmid).
    { unfold wmid. intros R. pose proof (xr_kids w R l c E) as K.
      destruct (xc_val c) eqn:Ev; try (apply xok_refl; exact R); simpl in K.
      - apply (xfold_ok xnone a (fun wa e => xdisconnect f true wa e) (fun e => e) els); auto.
        intros; apply xdisconnect_direct_ok; auto.
      - apply (xfold_ok xnone a (fun wa e => xdisconnect f true wa (snd e)) (fun e => snd e) items); auto.
        + intros; apply xdisconnect_direct_ok; auto.
        + apply (proj2 (Forall_map_snd (fun k => (k < length (xw_cells w))%nat) items)). exact K.
      - inversion K; subst. apply xdisconnect_direct_ok; auto. }
    intros R. destruct (O1 R) as [K1 R1].
    destruct (xget wmid l) as [c1|] eqn:E1; [|split; [eapply xkeeps_weaken; [|exact K1]; intros ? []|exact R1]].
    destruct (xset_ok a wmid l (mkXc (xc_val c1) None 0)) as [K2 R2]; [|exact R1|].
    { intros _. simpl. split; [eapply xr_kids; eauto|eapply xr_bufs; eauto]. }
    split; [|exact R2]. eapply xkeeps_trans; [eapply xkeeps_weaken; [|exact K1]; intros ? []|exact K2]. }
  destruct (xval (xdisconnect f0 false w l) l); try exact O1;
    (eapply xok_trans; [exact O1|]; apply xsetval_ok; intros _; simpl; split; constructor).
Qed.

(* ================================================================== every operation *)
Lemma xmem_In l ls : xmem l ls = true <-> In l ls.
Proof.
  unfold xmem. rewrite existsb_exists. split.
  - intros (x & Hx & E). apply Nat.eqb_eq in E. subst. exact Hx.
  - intros H. exists l. split; [exact H|apply Nat.eqb_refl].
Qed.

Lemma xparty_cells_nodoc w p : xinr w -> (length (xw_docs w) <= p)%nat -> xparty_cells w p = [].
Proof.
  intros R Hp. unfold xparty_cells, xdoc. rewrite (proj2 (nth_error_None _ _) Hp). simpl.
  pose proof (xr_roots w R) as F. unfold xroots_of. induction F as [|e t He Ht IH]; [reflexivity|]. cbn [filter].
  destruct He as (_ & _ & H3). destruct (Nat.eqb (fst (snd e)) p) eqn:E; [apply Nat.eqb_eq in E; lia|]. exact IH.
Qed.

Lemma xshared_false_not_in w a t p : xinr w -> xshared w a t = false -> p <> a -> ~ In t (xparty_cells w p).
Proof.
  intros R H Hp Hin. destruct (Nat.lt_ge_cases p (length (xw_docs w))) as [Hl|Hl].
  - unfold xshared in H. assert (Hx : existsb (fun p0 => negb (Nat.eqb p0 a) && xmem t (xparty_cells w p0)) (seq 0 (length (xw_docs w))) = true).
    { apply existsb_exists. exists p. split; [apply in_seq; lia|]. apply andb_true_iff. split.
      - apply negb_true_iff. apply Nat.eqb_neq. exact Hp.
      - apply xmem_In. exact Hin. }
    congruence.
  - rewrite (xparty_cells_nodoc w p R Hl) in Hin. contradiction.
Qed.

(* what every step satisfies: the cells it rewrites visibly are invisible to the other parties *)
Definition xstep_spec (a : nat) (w w' : hxworld) : Prop :=
  exists Wr : nat -> Prop, xkeeps Wr a w w' /\ xinr w' /\ (forall p l, p <> a -> In l (xparty_cells w p) -> ~ Wr l).

Lemma xspec_refl a w : xinr w -> xstep_spec a w w.
Proof. intros R. exists xnone. split; [apply xkeeps_refl|split; [exact R|]]. intros p l _ _ []. Qed.

Lemma xspec_alloc a w w' : xinr w -> xok xnone a w w' -> xstep_spec a w w'.
Proof. intros R O. destruct (O R) as [K R']. exists xnone. split; [exact K|split; [exact R'|]]. intros p l _ _ []. Qed.

Lemma xspec_target a w w1 w' t :
  xinr w -> xkeeps xnone a w w1 -> xinr w1 -> xshared w1 a t = false -> xok (eq t) a w1 w' -> xstep_spec a w w'.
Proof.
  intros R K1 R1 Hs O. destruct (O R1) as [K2 R2]. exists (eq t).
  split; [eapply xkeeps_trans; [eapply xkeeps_weaken; [|exact K1]; intros ? []|exact K2]|]. split; [exact R2|].
  intros p l Hp Hin <-.
  assert (E : xparty_cells w1 p = xparty_cells w p).
  { apply (xparty_cells_keeps xnone a w w1 p R K1 Hp). intros ? _ []. }
  apply (xshared_false_not_in w1 a t p R1 Hs Hp). rewrite E. exact Hin.
Qed.

Lemma xsep_cache w a dv p e :
  xinr w -> xsep_b w = true -> xdoc w a = Some dv -> In e (xd_cache dv) -> p <> a -> ~ In (snd e) (xparty_cells w p).
Proof.
  intros R S E He Hp. apply (xshared_false_not_in w a (snd e) p R); [|exact Hp].
  unfold xsep_b in S. rewrite forallb_forall in S.
  assert (Ha : In a (seq 0 (length (xw_docs w)))). { apply in_seq. split; [lia|]. apply nth_error_Some. unfold xdoc in E. congruence. }
  specialize (S a Ha). rewrite E in S. rewrite forallb_forall in S. specialize (S e He). apply negb_true_iff in S. exact S.
Qed.

Lemma xedit_insert_ok a w t wh lv w' :
  (t < length (xw_cells w))%nat -> (lv < length (xw_cells w))%nat -> xedit_insert w t wh lv = Some w' -> xok (eq t) a w w'.
Proof.
  intros Ht Hv H. unfold xedit_insert in H.
  destruct wh; destruct (xval w t) eqn:E; try discriminate.
  - assert (K : xinr w -> Forall (fun k => (k < length (xw_cells w))%nat) (map snd items)).
    { intros R. pose proof (xval_kids w t R) as K. rewrite E in K. exact K. }
    assert (Hset : xok (eq t) a w (xsetval w t (XDict (nmap_set items k lv)))).
    { apply xsetval_ok. intros R. simpl. split; [|constructor]. apply Forall_map_snd. apply Forall_nmap_set; [|exact Hv].
      apply (proj2 (Forall_map_snd (fun k => (k < length (xw_cells w))%nat) items)). auto. }
    assert (Hdel : xok (eq t) a w (xsetval w t (XDict (nmap_del items k)))).
    { apply xsetval_ok. intros R. simpl. split; [|constructor]. apply Forall_map_snd. apply Forall_nmap_del.
      apply (proj2 (Forall_map_snd (fun k => (k < length (xw_cells w))%nat) items)). auto. }
    inversion H; subst. destruct (xval w lv); auto. destruct (xog w lv =? 0); auto.
  - inversion H; subst. apply xsetval_ok. intros R. simpl. split; [|constructor].
    pose proof (xval_kids w t R) as K. rewrite E in K. simpl in K. apply Forall_app. split; auto.
  - destruct (Nat.ltb n (length els)); [|discriminate]. inversion H; subst. apply xsetval_ok. intros R. simpl. split; [|constructor].
    pose proof (xval_kids w t R) as K. rewrite E in K. simpl in K. apply Forall_set_nth; auto.
Qed.

Lemma xedit_delete_ok a w t wh w' : xedit_delete w t wh = Some w' -> xok (eq t) a w w'.
Proof.
  intros H. unfold xedit_delete in H.
  destruct wh; destruct (xval w t) eqn:E; try discriminate.
  - inversion H; subst. apply xsetval_ok. intros R. simpl. split; [|constructor].
    pose proof (xval_kids w t R) as K. rewrite E in K. simpl in K. apply Forall_map_snd. apply Forall_nmap_del.
    apply (proj2 (Forall_map_snd (fun k => (k < length (xw_cells w))%nat) items)). auto.
  - destruct (Nat.ltb n (length els)); [|discriminate]. inversion H; subst. apply xsetval_ok. intros R. simpl. split; [|constructor].
    pose proof (xval_kids w t R) as K. rewrite E in K. simpl in K. apply Forall_remove_nth. auto.
Qed.

Lemma xappend_ok a w cs :
  (forall c, In c cs -> Forall (fun k => (k < length (xw_cells w) + length cs)%nat) (xkids (xc_val c)) /\ xbuf_of (xc_val c) = []) ->
  xok xnone a w (xset_cells w (xw_cells w ++ cs)).
Proof.
  intros H R. split.
  - constructor; simpl; auto.
    + intros l Hl _. apply xcellobs_same_cell; [|reflexivity]. unfold xget. simpl. apply nth_error_app1. exact Hl.
    + rewrite app_length. lia.
  - apply xinr_cells; auto.
    + rewrite app_length. lia.
    + intros l c E. rewrite app_length. destruct (Nat.lt_ge_cases l (length (xw_cells w))) as [Hl|Hl].
      * rewrite nth_error_app1 in E by exact Hl. split; [|eapply xr_bufs; eauto].
        eapply Forall_lt_le; [|eapply xr_kids; eauto]. lia.
      * rewrite nth_error_app2 in E by exact Hl. apply nth_error_In in E. destruct (H c E) as [H1 H2]. rewrite H2. split; [exact H1|constructor].
Qed.

Lemma xadd_doc_ok a w dv :
  a = length (xw_docs w) ->
  (xinr w -> Forall (fun e => (snd e < length (xw_cells w))%nat) (xd_cache dv) /\ Forall (fun e => (snd e < length (xw_cells w))%nat) (xd_cmap dv)) ->
  xok xnone a w (xadd_doc w dv).
Proof.
  intros Ha H R. destruct (H R) as [H1 H2]. split.
  - constructor; simpl; auto; [intros p Hp; unfold xdoc; simpl; apply nth_error_app_other; congruence|rewrite app_length; lia].
  - constructor; simpl; try apply R.
    + intros d dv' E. unfold xdoc in E. simpl in E. destruct (Nat.eq_dec d (length (xw_docs w))) as [->|Hne].
      * rewrite nth_error_app2 in E by lia. rewrite Nat.sub_diag in E. simpl in E. inversion E; subst. exact H1.
      * rewrite nth_error_app_other in E by exact Hne. eapply xr_cache; eauto.
    + intros d dv' E. unfold xdoc in E. simpl in E. destruct (Nat.eq_dec d (length (xw_docs w))) as [->|Hne].
      * rewrite nth_error_app2 in E by lia. rewrite Nat.sub_diag in E. simpl in E. inversion E; subst. exact H2.
      * rewrite nth_error_app_other in E by exact Hne. eapply xr_cmap; eauto.
    + rewrite app_length. eapply Forall_impl; [|apply (xr_roots w R)]. simpl. intros e (X1 & X2 & X3). repeat split; auto. lia.
    + rewrite app_length. simpl. lia.
Qed.

Lemma xalive_lt w a : xalive w a = true -> (a < length (xw_docs w))%nat.
Proof. unfold xalive, xdoc. intros H. apply nth_error_Some. destruct (nth_error (xw_docs w) a); [discriminate|discriminate]. Qed.

(* ================================================================== buffers in the program's variables *)
Record xbinv (w : hxworld) : Prop := {
  (* distinct variables hold distinct Buffers *)
  xb_inj : forall r1 r2 h1 h2, imap_get (xw_held w) r1 = Some h1 -> imap_get (xw_held w) r2 = Some h2 ->
           xh_buf h1 = xh_buf h2 -> r1 = r2;
  (* a Buffer the library handed out and the program has not passed back is referenced by no stream *)
  xb_private : forall r h, imap_get (xw_held w) r = Some h -> xh_given h = false ->
               forall l c, xget w l = Some c -> ~ In (xh_buf h) (xbuf_of (xc_val c))
}.

Lemma nth_set_nth_ne {A} (l : list A) n m x d : n <> m -> nth m (set_nth l n x) d = nth m l d.
Proof. revert n m. induction l; intros [|n] [|m] H; simpl; auto; try congruence. Qed.

Lemma xbset_ok a w b bs :
  (forall l c, xget w l = Some c -> ~ In b (xbuf_of (xc_val c))) -> xok xnone a w (xbset w b bs).
Proof.
  intros Hn R. split.
  - constructor; simpl; auto; [|rewrite set_nth_length; lia]. intros l Hl _. apply xcellobs_same_cell; [reflexivity|].
    intros c b' E Hb. simpl. apply nth_set_nth_ne. intros ->. apply (Hn l c E Hb).
  - constructor; simpl; try apply R.
    + intros l c E. rewrite set_nth_length. eapply (xr_bufs w R); eauto.
    + rewrite set_nth_length. apply R.
Qed.

Lemma xballoc_pair a w bs : xinr w ->
  xkeeps xnone a w (fst (xballoc w bs)) /\ xinr (fst (xballoc w bs)) /\
  (snd (xballoc w bs) < length (xw_bufs (fst (xballoc w bs))))%nat /\
  snd (xballoc w bs) = length (xw_bufs w) /\
  xw_cells (fst (xballoc w bs)) = xw_cells w /\ xw_held (fst (xballoc w bs)) = xw_held w /\
  nth (snd (xballoc w bs)) (xw_bufs (fst (xballoc w bs))) [] = bs.
Proof.
  intros R. destruct (xballoc_ok a w bs) as [O E]. destruct (O R) as [K R1].
  split; [exact K|]. split; [exact R1|]. unfold xballoc. cbn [fst snd xw_bufs xw_cells xw_held]. rewrite app_length. simpl.
  repeat split; try lia. rewrite app_nth2 by lia. rewrite Nat.sub_diag. reflexivity.
Qed.

Lemma xcmap_get_in m s id l : xcmap_get m s id = Some l -> In ((s, id), l) m.
Proof.
  induction m as [|[[s' id'] l'] m IH]; simpl; [discriminate|].
  destruct (Nat.eqb s' s && (id' =? id)) eqn:E; intros H.
  - apply andb_true_iff in E. destruct E as [E1 E2]. apply Nat.eqb_eq in E1. apply N.eqb_eq in E2. inversion H; subst. auto.
  - auto.
Qed.

(* copy_data_to on an immediate-copy source: the source stream now reads the same bytes from a Buffer *)
Lemma xsetval_same_data a w t dd src b :
  xval w t = XStream dd src -> (b < length (xw_bufs w))%nat -> nth b (xw_bufs w) [] = xdata w src ->
  xok xnone a w (xsetval w t (XStream dd (XsBuf b))).
Proof.
  intros Ev Hb Hd R.
  assert (Hdd : (dd < length (xw_cells w))%nat).
  { pose proof (xval_kids w t R) as K. rewrite Ev in K. simpl in K. inversion K; auto. }
  destruct (xsetval_ok a w t (XStream dd (XsBuf b))) as [K R']; [|exact R|].
  { intros _. simpl. split; repeat constructor; auto. }
  split; [|exact R']. destruct K as [C L D Nd Bf Ro]. constructor; auto.
  intros l Hl _. destruct (Nat.eq_dec t l) as [<-|Hne]; [|apply C; auto].
  unfold xsetval. unfold xval in Ev. destruct (xget w t) as [c|] eqn:E; [|discriminate].
  unfold xcellobs, xval, xog. rewrite xget_set_eq by exact Hl. rewrite E. cbn [xc_val xc_og]. rewrite Ev.
  cbn [xnorm xdata]. unfold xset. cbn [xw_bufs]. rewrite Hd. reflexivity.
Qed.

Lemma xeval_own a w e w1 t c :
  xinr w -> xeval false a w e = Some (w1, t, c) -> xkeeps xnone a w w1 /\ xinr w1 /\ (t < length (xw_cells w1))%nat.
Proof.
  intros R E. pose proof (xeval_ok false a a w e R) as H. rewrite E in H. destruct H as [O L].
  destruct (O R) as [K R1]. auto.
Qed.

Lemma xstep_spec_ok a w op : xinr w -> xbinv w -> xsep_b w = true -> xstep_spec a w (fst (xstep a w op)).
Proof.
  intros R B Sp. destruct op; cbn [xstep].
  - (* XoNewDoc *)
    destruct (Nat.eqb a (length (xw_docs w)) && negb (Nat.eqb a 0)) eqn:G; cbn [fst]; [|apply xspec_refl; exact R].
    apply andb_true_iff in G. destruct G as [G _]. apply Nat.eqb_eq in G.
    apply xspec_alloc; [exact R|].
    eapply xok_trans.
    + apply (xappend_ok a w [mkXc XReserved (Some a) 1; mkXc XReserved (Some a) 2]).
      intros c [<-|[<-|[]]]; simpl; split; auto.
    + apply xadd_doc_ok; [exact G|]. intros _. simpl. rewrite app_length. simpl. split; [|constructor].
      repeat constructor; simpl; lia.
  - (* XoOpenDoc *)
    destruct (Nat.eqb a (length (xw_docs w)) && negb (Nat.eqb a 0)) eqn:G; cbn [fst]; [|apply xspec_refl; exact R].
    apply andb_true_iff in G. destruct G as [G _]. apply Nat.eqb_eq in G.
    apply xspec_alloc; [exact R|].
    eapply xok_trans.
    + apply (xappend_ok a w (xfile_cells a (length (xw_cells w)))).
      intros c Hc. simpl in Hc.
      repeat (destruct Hc as [<-|Hc]; [simpl; split; [repeat constructor; lia|reflexivity]|]). contradiction.
    + apply xadd_doc_ok; [exact G|]. intros _. simpl. rewrite app_length. simpl. split; [|constructor].
      repeat constructor; simpl; lia.
  - (* XoParse *)
    destruct ((Nat.eqb a 0 || xalive w a) && xroot_ok a r) eqn:G; [|apply xspec_refl; exact R].
    apply andb_true_iff in G. destruct G as [G1 G2].
    assert (Ha : (a < length (xw_docs w))%nat).
    { apply orb_true_iff in G1. destruct G1 as [G1|G1]; [|apply xalive_lt; exact G1].
      apply Nat.eqb_eq in G1. subst a. apply (xr_docs0 w R). }
    assert (Hb : forall t', xstep_spec a w (fst (let (w1, l) := xbuild (if Nat.eqb a 0 then None else Some a) t' w in (xsetroot w1 r a l, IrOk)))).
    { intros t'. destruct (xbuild_ok a (if Nat.eqb a 0 then None else Some a) t' w R) as (K1 & R1 & L1).
      destruct (xbuild (if Nat.eqb a 0 then None else Some a) t' w) as [w1 l]. cbn [fst snd] in *.
      apply xspec_alloc; [exact R|]. intros _.
      destruct (xsetroot_ok a w1 r l (fun _ => L1) G2) as [K2 R2]; [|exact R1|].
      { pose proof (xk_ndocs _ _ _ _ K1). lia. }
      split; [eapply xkeeps_trans; eauto|exact R2]. }
    destruct t; try (apply xspec_refl; exact R); apply Hb.
  - (* XoHold *)
    destruct (xroot_ok a r && Nat.ltb a (length (xw_docs w))) eqn:G; [|apply xspec_refl; exact R].
    apply andb_true_iff in G. destruct G as [G1 G2]. apply Nat.ltb_lt in G2.
    destruct (xeval false a w h) as [[[w1 l] c]|] eqn:E; [|apply xspec_refl; exact R]. cbn [fst].
    destruct (xeval_own a w h w1 l c R E) as (K1 & R1 & L1).
    apply xspec_alloc; [exact R|]. intros _.
    destruct (xsetroot_ok a w1 r l (fun _ => L1) G1) as [K2 R2]; [|exact R1|].
    { pose proof (xk_ndocs _ _ _ _ K1). lia. }
    split; [eapply xkeeps_trans; eauto|exact R2].
  - (* XoMakeInd *)
    destruct (xalive w a) eqn:G; [|apply xspec_refl; exact R].
    destruct (xeval false a w h) as [[[w1 l] c]|] eqn:E; [|apply xspec_refl; exact R].
    destruct (xeval_own a w h w1 l c R E) as (K1 & R1 & L1).
    destruct ((xog w1 l =? 0) && negb (xshared w1 a l)) eqn:G2; [|apply xspec_refl; exact R]. cbn [fst].
    apply andb_true_iff in G2. destruct G2 as [_ G2]. apply negb_true_iff in G2.
    apply (xspec_target a w w1 _ l R K1 R1 G2).
    eapply xok_trans; [eapply xok_weaken; [|apply (xsetcache_ok a w1 (xcount w1 a + 1) l (fun _ => L1))]; intros ? []|].
    destruct (xget (xsetcache w1 a (xcount w1 a + 1) l) l) as [c0|] eqn:Ec; [|apply xok_refl].
    apply xset_ok. intros R2. simpl. split; [eapply xr_kids; eauto|eapply xr_bufs; eauto].
  - (* XoInsert *)
    destruct (xeval false a w h) as [[[w1 t] c]|] eqn:E; [|apply xspec_refl; exact R].
    destruct (xeval_own a w h w1 t c R E) as (K1 & R1 & L1).
    destruct (xeval true a w1 v) as [[[w2 lv] cross]|] eqn:Ev; [|apply xspec_refl; exact R].
    pose proof (xeval_ok true a a w1 v R1) as H2. rewrite Ev in H2. destruct H2 as [O2 L2]. destruct (O2 R1) as [K2 R2]. specialize (L2 R1).
    assert (K12 : xkeeps xnone a w w2) by (eapply xkeeps_trans; eauto).
    match goal with |- context [if ?g then (w, IrSkip) else _] => destruct g eqn:G end; [apply xspec_refl; exact R|].
    apply orb_false_iff in G. destruct G as [G _]. apply orb_false_iff in G. destruct G as [G _].
    apply orb_false_iff in G. destruct G as [G _]. apply orb_false_iff in G. destruct G as [_ G].
    destruct (xedit_insert w2 t wh lv) as [w3|] eqn:Ee; [|apply xspec_refl; exact R].
    destruct (xclash w2 t lv); cbn [fst].
    + apply xspec_alloc; [exact R|]. intros _. auto.
    + apply (xspec_target a w w2 w3 t R K12 R2 G).
      eapply xedit_insert_ok; [| |exact Ee]; auto. pose proof (xkeeps_len _ _ _ _ K2). lia.
  - (* XoDelete *)
    destruct (xeval false a w h) as [[[w1 t] c]|] eqn:E; [|apply xspec_refl; exact R].
    destruct (xeval_own a w h w1 t c R E) as (K1 & R1 & L1).
    match goal with |- context [if ?g then (w, IrSkip) else _] => destruct g eqn:G end; [apply xspec_refl; exact R|].
    apply orb_false_iff in G. destruct G as [G _].
    destruct (xedit_delete w1 t wh) as [w2|] eqn:Ee; [|apply xspec_refl; exact R]. cbn [fst].
    apply (xspec_target a w w1 w2 t R K1 R1 G). eapply xedit_delete_ok; eauto.
  - (* XoDestroy *)
    destruct (xdoc w a) as [dv|] eqn:E; [|apply xspec_refl; exact R].
    destruct (xd_alive dv); [|apply xspec_refl; exact R]. cbn [fst].
    set (Wr := fun l => In l (map snd (xd_cache dv))).
    assert (O1 : xok Wr a w (fold_left (fun wa e => xdestroy_entry wa (snd e)) (xd_cache dv) w)).
    { apply (xfold_okQ Wr a (fun wa e => xdestroy_entry wa (snd e)) (fun e => snd e) (fun e => In e (xd_cache dv)) (xd_cache dv)).
      - intros w0 x Hq Hx. eapply xok_weaken; [|apply xdestroy_entry_ok; exact Hx].
        intros l <-. unfold Wr. apply in_map. exact Hq.
      - apply Forall_forall. auto.
      - apply (xr_cache w R a dv E). }
    destruct (O1 R) as [K1 R1].
    destruct (xsetdoc_ok a _ (mkXd [] false (xd_imm dv) (xd_cmap dv)) (fun _ => conj (Forall_nil _) (Forall_snd_lt_le _ _ _ (xkeeps_len _ _ _ _ K1) (xr_cmap w R a dv E))) R1) as [K2 R2].
    exists Wr. split; [eapply xkeeps_trans; [exact K1|eapply xkeeps_weaken; [|exact K2]; intros ? []]|]. split; [exact R2|].
    intros p l Hp Hin Hw. unfold Wr in Hw. apply in_map_iff in Hw. destruct Hw as (e & <- & He).
    apply (xsep_cache w a dv p e R Sp E He Hp Hin).
  - (* XoObserve *) destruct (xalive w a); apply xspec_refl; exact R.
  - (* XoNewStream *)
    destruct (xalive w a && xroot_ok a r) eqn:G; [|apply xspec_refl; exact R].
    apply andb_true_iff in G. destruct G as [G1 G2]. apply xalive_lt in G1.
    destruct (xpair_alloc a w (mkXc (XDict []) (Some a) 0) (fun _ => conj (Forall_nil _) (Forall_nil _)) R) as (K1 & R1 & L1).
    destruct (xalloc w (mkXc (XDict []) (Some a) 0)) as [w1 d]. cbn [fst snd] in *.
    destruct (xballoc_pair a w1 bs R1) as (K2 & R2 & L2 & _ & Ec & _).
    destruct (xballoc w1 bs) as [w2 b]. cbn [fst snd] in *.
    set (next := xcount w2 a + 1).
    destruct (xpair_alloc a w2 (mkXc (XStream d (XsBuf b)) (Some a) next)) as (K3 & R3 & L3); [|exact R2|].
    { intros _. simpl. split; repeat constructor; auto. rewrite Ec. exact L1. }
    destruct (xalloc w2 (mkXc (XStream d (XsBuf b)) (Some a) next)) as [w3 l]. cbn [fst snd] in *.
    apply xspec_alloc; [exact R|]. intros _.
    destruct (xsetcache_ok a w3 next l (fun _ => L3) R3) as [K4 R4].
    destruct (xsetroot_ok a (xsetcache w3 a next l) r l) as [K5 R5]; auto.
    { intros _. pose proof (xkeeps_len _ _ _ _ K4). lia. }
    { pose proof (xk_ndocs _ _ _ _ K1). pose proof (xk_ndocs _ _ _ _ K2). pose proof (xk_ndocs _ _ _ _ K3). pose proof (xk_ndocs _ _ _ _ K4). lia. }
    split; [|exact R5]. eapply xkeeps_trans; [exact K1|]. eapply xkeeps_trans; [exact K2|]. eapply xkeeps_trans; [exact K3|].
    eapply xkeeps_trans; [exact K4|exact K5].
  - (* XoReplaceData *)
    destruct (xeval false a w h) as [[[w1 t] c]|] eqn:E; [|apply xspec_refl; exact R].
    destruct (xeval_own a w h w1 t c R E) as (K1 & R1 & L1).
    destruct (xval w1 t) eqn:Ev; try (apply xspec_refl; exact R).
    destruct (xshared w1 a t) eqn:G; [apply xspec_refl; exact R|].
    destruct (xballoc_pair a w1 bs R1) as (K2 & R2 & L2 & _ & Ec & _).
    destruct (xballoc w1 bs) as [w2 b]. cbn [fst snd] in *.
    assert (Hd : (dict < length (xw_cells w1))%nat).
    { pose proof (xval_kids w1 t R1) as K. rewrite Ev in K. simpl in K. inversion K; auto. }
    destruct (xsetval_ok a w2 t (XStream dict (XsBuf b))) as [K3 R3]; [|exact R2|].
    { intros _. simpl. split; repeat constructor; auto. rewrite Ec. exact Hd. }
    exists (eq t). split; [|split; [exact R3|]].
    + eapply xkeeps_trans; [eapply xkeeps_weaken; [|exact K1]; intros ? []|].
      eapply xkeeps_trans; [eapply xkeeps_weaken; [|exact K2]; intros ? []|exact K3].
    + intros p l Hp Hin <-.
      assert (Ep : xparty_cells w1 p = xparty_cells w p).
      { apply (xparty_cells_keeps xnone a w w1 p R K1 Hp). intros ? _ []. }
      apply (xshared_false_not_in w1 a t p R1 G Hp). rewrite Ep. exact Hin.
  - (* XoCopy *)
    destruct (xalive w a && xalive w s && negb (Nat.eqb s a) && xroot_ok a r) eqn:G; [|apply xspec_refl; exact R].
    apply andb_true_iff in G. destruct G as [G G4]. apply andb_true_iff in G. destruct G as [G _].
    apply andb_true_iff in G. destruct G as [G1 _]. apply xalive_lt in G1.
    destruct (xeval false s w h) as [[[w1 t] c]|] eqn:E; [|apply xspec_refl; exact R].
    pose proof (xeval_ok false s a w h R) as H1. rewrite E in H1. destruct H1 as [O1 L1]. destruct (O1 R) as [K1 R1]. specialize (L1 R).
    match goal with |- context [if ?g then (w, IrSkip) else _] => destruct g end; [apply xspec_refl; exact R|].
    destruct (xdoc w1 a) as [dva|] eqn:Ea; [|apply xspec_refl; exact R].
    destruct (negb (xcopyable w1 t)); [apply xspec_refl; exact R|].
    assert (Ha1 : (a < length (xw_docs w1))%nat). { pose proof (xk_ndocs _ _ _ _ K1). lia. }
    destruct (xcmap_get (xd_cmap dva) s (xog w1 t)) as [l|] eqn:Ec.
    + cbn [fst]. apply xspec_alloc; [exact R|]. intros _.
      assert (Hl : (l < length (xw_cells w1))%nat).
      { apply xcmap_get_in in Ec. pose proof (xr_cmap w1 R1 a dva Ea) as F. rewrite Forall_forall in F. apply (F _ Ec). }
      destruct (xsetroot_ok a w1 r l (fun _ => Hl) G4 Ha1 R1) as [K2 R2].
      split; [eapply xkeeps_trans; eauto|exact R2].
    + (* the tail shared by both kinds of copy: register the new object *)
      assert (Tail : forall w3 l next, xkeeps xnone a w w3 -> xinr w3 -> (l < length (xw_cells w3))%nat ->
                xstep_spec a w (xsetroot (xsetcmap (xsetcache w3 a next l) a s (xog w1 t) l) r a l)).
      { intros w3 l next K3 R3 L3. apply xspec_alloc; [exact R|]. intros _.
        destruct (xsetcache_ok a w3 next l (fun _ => L3) R3) as [K4 R4].
        assert (L4 : (l < length (xw_cells (xsetcache w3 a next l)))%nat) by (pose proof (xkeeps_len _ _ _ _ K4); lia).
        destruct (xsetcmap_ok a (xsetcache w3 a next l) s (xog w1 t) l (fun _ => L4) R4) as [K5 R5].
        destruct (xsetroot_ok a (xsetcmap (xsetcache w3 a next l) a s (xog w1 t) l) r l) as [K6 R6]; auto.
        { intros _. pose proof (xkeeps_len _ _ _ _ K5). lia. }
        { pose proof (xk_ndocs _ _ _ _ K3). pose proof (xk_ndocs _ _ _ _ K4). pose proof (xk_ndocs _ _ _ _ K5). lia. }
        split; [|exact R6]. eapply xkeeps_trans; [exact K3|]. eapply xkeeps_trans; [exact K4|]. eapply xkeeps_trans; [exact K5|exact K6]. }
      assert (Plain : forall next, xstep_spec a w (fst (let (w3, l) := xclone xfuel (Some a) next w1 t in
                                   (xsetroot (xsetcmap (xsetcache w3 a next l) a s (xog w1 t) l) r a l, IrOk)))).
      { intros next. destruct (xclone_ok a xfuel (Some a) next w1 t R1) as (K3 & R3 & L3).
        destruct (xclone xfuel (Some a) next w1 t) as [w3 l]. cbn [fst snd] in *.
        apply Tail; auto. eapply xkeeps_trans; eauto. }
      destruct (xval w1 t) eqn:Ev; try apply Plain.
      (* a stream *)
      set (imm := xd_imm match xdoc w1 s with Some dvs => dvs | None => xdoc0 end && negb (xis_buf src)).
      assert (Himm : exists w2 src2, (if imm then let (w2, b) := xballoc w1 (xdata w1 src) in (xsetval w2 t (XStream dict (XsBuf b)), XsBuf b)
                                      else (w1, src)) = (w2, src2) /\ xkeeps xnone a w1 w2 /\ xinr w2 /\
                                     (xinr w2 -> Forall (fun b => (b < length (xw_bufs w2))%nat) (xbuf_of (XStream 0 src2))) /\
                                     (dict < length (xw_cells w2))%nat).
      { assert (Hdd : (dict < length (xw_cells w1))%nat).
        { pose proof (xval_kids w1 t R1) as K. rewrite Ev in K. simpl in K. inversion K; auto. }
        destruct imm.
        - destruct (xballoc_pair a w1 (xdata w1 src) R1) as (K2 & R2 & L2 & Eb & Ecells & _ & Enth).
          destruct (xballoc w1 (xdata w1 src)) as [w2 b] eqn:Eba. cbn [fst snd] in *.
          assert (Ev2 : xval w2 t = XStream dict src). { unfold xval, xget. rewrite Ecells. exact Ev. }
          assert (Hdata : xdata w2 src = xdata w1 src).
          { destruct src; try reflexivity. simpl. inversion Eba; subst. simpl. apply app_nth1.
            pose proof (xr_bufs w1 R1 t) as F. unfold xval in Ev. destruct (xget w1 t) as [c0|] eqn:Eg; [|discriminate].
            specialize (F c0 eq_refl). rewrite Ev in F. simpl in F. inversion F; auto. }
          destruct (xsetval_same_data a w2 t dict src b Ev2 L2) as [K3 R3]; [congruence|exact R2|].
          exists (xsetval w2 t (XStream dict (XsBuf b))), (XsBuf b). split; [reflexivity|].
          split; [eapply xkeeps_trans; eauto|]. split; [exact R3|]. split.
          + intros _. simpl. repeat constructor. unfold xsetval. destruct (xget w2 t); exact L2.
          + pose proof (xkeeps_len _ _ _ _ K3). rewrite <- Ecells in Hdd. lia.
        - exists w1, src. split; [reflexivity|]. split; [apply xkeeps_refl|]. split; [exact R1|]. split; [|exact Hdd].
          intros _. unfold xval in Ev. destruct (xget w1 t) as [c0|] eqn:Eg; [|discriminate].
          pose proof (xr_bufs w1 R1 t c0 Eg) as F. rewrite Ev in F. exact F. }
      destruct Himm as (w2 & src2 & Eq & K2 & R2 & Hb2 & Hd2). fold imm. rewrite Eq.
      destruct (xclone_ok a xfuel (Some a) 0 w2 dict R2) as (K3 & R3 & L3).
      destruct (xclone xfuel (Some a) 0 w2 dict) as [w3 dc]. cbn [fst snd] in *.
      set (next := xcount w3 a + 1).
      set (src3 := match src2 with XsBuf b => XsBuf b | XsFile bs => XsProv bs | XsProv bs => XsProv bs end).
      destruct (xpair_alloc a w3 (mkXc (XStream dc src3) (Some a) next)) as (K5 & R5 & L5); [|exact R3|].
      { intros _. simpl. split; [repeat constructor; exact L3|].
        specialize (Hb2 R2). unfold src3. destruct src2; simpl in *; [constructor| |constructor].
        inversion Hb2; subst. constructor; [|constructor].
        pose proof (xk_nbufs _ _ _ _ K3). lia. }
      destruct (xalloc w3 (mkXc (XStream dc src3) (Some a) next)) as [w5 l]. cbn [fst snd] in *.
      apply Tail; auto. eapply xkeeps_trans; [exact K1|]. eapply xkeeps_trans; [exact K2|]. eapply xkeeps_trans; [exact K3|exact K5].
  - (* XoGetData *)
    destruct (xeval false a w h) as [[[w1 t] c]|] eqn:E; [|apply xspec_refl; exact R].
    destruct (xeval_own a w h w1 t c R E) as (K1 & R1 & L1).
    destruct (xval w1 t) eqn:Ev; try (apply xspec_refl; exact R).
    destruct (xballoc_pair a w1 (xdata w1 src) R1) as (K2 & R2 & L2 & _).
    destruct (xballoc w1 (xdata w1 src)) as [w2 b]. cbn [fst snd] in *.
    apply xspec_alloc; [exact R|]. intros _.
    destruct (xsetheld_ok a w2 br (mkXh false b false) (fun _ => L2) R2) as [K3 R3].
    split; [|exact R3]. eapply xkeeps_trans; [exact K1|]. eapply xkeeps_trans; [exact K2|exact K3].
  - (* XoMutate *)
    destruct (negb (Nat.eqb a 0)); [apply xspec_refl; exact R|].
    destruct (imap_get (xw_held w) br) as [hb|] eqn:E; [|apply xspec_refl; exact R].
    destruct (xh_given hb) eqn:Eg; [apply xspec_refl; exact R|].
    destruct (xh_opaque hb); [apply xspec_refl; exact R|].
    destruct (Nat.ltb pos (length (nth (xh_buf hb) (xw_bufs w) []))); [|apply xspec_refl; exact R]. cbn [fst].
    apply xspec_alloc; [exact R|]. apply xbset_ok.
    apply (xb_private w B br hb E Eg).
  - (* XoGive *)
    destruct (xeval false a w h) as [[[w1 t] c]|] eqn:E; [|apply xspec_refl; exact R].
    destruct (xeval_own a w h w1 t c R E) as (K1 & R1 & L1).
    destruct (xval w1 t) eqn:Ev; try (apply xspec_refl; exact R).
    destruct (imap_get (xw_held w1) br) as [hb|] eqn:Eh; [|apply xspec_refl; exact R].
    destruct (xshared w1 a t) eqn:G; [apply xspec_refl; exact R|]. cbn [orb].
    destruct (xh_given hb || xh_opaque hb); [apply xspec_refl; exact R|]. cbn [fst].
    assert (Hd : (dict < length (xw_cells w1))%nat).
    { pose proof (xval_kids w1 t R1) as K. rewrite Ev in K. simpl in K. inversion K; auto. }
    assert (Hb : (xh_buf hb < length (xw_bufs w1))%nat).
    { apply imap_get_in in Eh. pose proof (xr_held w1 R1) as F. rewrite Forall_forall in F. apply (F _ Eh). }
    apply (xspec_target a w w1 _ t R K1 R1 G). intros _.
    destruct (xsetval_ok a w1 t (XStream dict (XsBuf (xh_buf hb)))) as [K2 R2]; [|exact R1|].
    { intros _. simpl. split; repeat constructor; auto. }
    destruct (xsetheld_ok a (xsetval w1 t (XStream dict (XsBuf (xh_buf hb)))) br (mkXh true (xh_buf hb) false)) as [K3 R3]; [|exact R2|].
    { intros _. unfold xsetval. destruct (xget w1 t); exact Hb. }
    split; [eapply xkeeps_trans; [exact K2|eapply xkeeps_weaken; [|exact K3]; intros ? []]|exact R3].
  - (* XoWriteBuf *)
    destruct (xalive w a); [|apply xspec_refl; exact R].
    destruct (xballoc_pair a w [] R) as (K2 & R2 & L2 & _).
    destruct (xballoc w []) as [w2 b]. cbn [fst snd] in *.
    apply xspec_alloc; [exact R|]. intros _.
    destruct (xsetheld_ok a w2 br (mkXh false b true) (fun _ => L2) R2) as [K3 R3].
    split; [|exact R3]. eapply xkeeps_trans; [exact K2|exact K3].
Qed.

(* ================================================================== the theorems *)
Definition xwf (w : hxworld) : Prop := xinr w /\ xbinv w.

(* frame property for storage that several parties can reach: in a world whose documents keep their indirect objects
   to themselves ([xsep_b]: a premise; the extracted test is run on every world the correspondence histories reach and
   has never failed, its preservation is not proved), an operation of party a - in-place edits,
   makeIndirectObject, replaceStreamData, copyForeignObject FROM any document, getRawStreamData / getStreamData,
   QPDFWriter, ~QPDF, and the program (party 0) writing into a Buffer the library handed out - leaves everything a
   caller can see of every OTHER party unchanged: the objects of its document (streams: dictionary and data) and every
   handle obtained from it.  In particular destroying a document does not change the direct values it shares with
   other documents or with variables of the program, and copying from a document does not change it. *)
Lemma hx_frame_other_parties_lemma : forall (w : hxworld) (a p : nat) (op : xop),
  xwf w -> xsep_b w = true -> p <> a -> xobs (fst (xstep a w op)) p = xobs w p.
Proof.
  intros w a p op [R B] Sp Hp. destruct (xstep_spec_ok a w op R B Sp) as (Wr & K & R' & Hd).
  apply (xframe_core Wr a w _ p R K Hp). intros l Hl. apply (Hd p l Hp Hl).
Qed.

(* every index of every world reached keeps pointing at something *)
Lemma hx_ranges_preserved_lemma : forall (w : hxworld) (a : nat) (op : xop),
  xwf w -> xsep_b w = true -> xinr (fst (xstep a w op)).
Proof. intros w a op [R B] Sp. destruct (xstep_spec_ok a w op R B Sp) as (Wr & K & R' & Hd). exact R'. Qed.

(* ================================================================== buffers: which streams read from which Buffer *)
Definition xrefs (w : hxworld) (b : nat) : Prop := exists l c, xget w l = Some c /\ In b (xbuf_of (xc_val c)).

(* no Buffer variable changes, and a stream only starts to read from a Buffer that some stream already read from or
   that did not exist before *)
Definition xbk (w w' : hxworld) : Prop :=
  xw_held w' = xw_held w /\ (length (xw_bufs w) <= length (xw_bufs w'))%nat /\
  (forall b, xrefs w' b -> xrefs w b \/ (length (xw_bufs w) <= b)%nat) /\
  (forall b, (b < length (xw_bufs w))%nat -> nth b (xw_bufs w') [] = nth b (xw_bufs w) []).

Lemma xbk_refl w : xbk w w.
Proof. split; [reflexivity|split; [lia|split; auto]]. Qed.

Lemma xbk_trans w1 w2 w3 : xbk w1 w2 -> xbk w2 w3 -> xbk w1 w3.
Proof.
  intros (H1 & L1 & F1 & P1) (H2 & L2 & F2 & P2). split; [congruence|split; [lia|split]].
  - intros b Hb. destruct (F2 b Hb) as [X|X]; [|right; lia]. destruct (F1 b X) as [Y|Y]; auto.
  - intros b Hb. rewrite P2 by lia. apply P1. exact Hb.
Qed.

Lemma xbk_cells w w' :
  xw_held w' = xw_held w -> xw_bufs w' = xw_bufs w ->
  (forall l c, xget w' l = Some c -> xbuf_of (xc_val c) = [] \/ exists l0 c0, xget w l0 = Some c0 /\ xbuf_of (xc_val c0) = xbuf_of (xc_val c)) ->
  xbk w w'.
Proof.
  intros Hh Hb Hc. split; [exact Hh|split; [rewrite Hb; lia|split; [|rewrite Hb; auto]]]. intros b (l & c & E & Hin).
  destruct (Hc l c E) as [X|(l0 & c0 & E0 & X)]; [rewrite X in Hin; contradiction|].
  left. exists l0, c0. split; [exact E0|]. rewrite X. exact Hin.
Qed.

Lemma xalloc_bk w c : xbuf_of (xc_val c) = [] -> xbk w (fst (xalloc w c)).
Proof.
  intros Hc. apply xbk_cells; try reflexivity. intros l c0 E. unfold xget, xalloc in E. cbn [fst xw_cells] in E.
  destruct (Nat.lt_ge_cases l (length (xw_cells w))) as [Hl|Hl].
  - rewrite nth_error_app1 in E by exact Hl. right. exists l, c0. auto.
  - rewrite nth_error_app2 in E by exact Hl. destruct (l - length (xw_cells w))%nat as [|k]; simpl in E.
    + inversion E; subst. left. exact Hc.
    + destruct k; discriminate.
Qed.

Lemma xset_bk w l c : (xbuf_of (xc_val c) = [] \/ exists c0, xget w l = Some c0 /\ xbuf_of (xc_val c0) = xbuf_of (xc_val c)) -> xbk w (xset w l c).
Proof.
  intros Hc. apply xbk_cells; try reflexivity. intros l' c' E. destruct (Nat.eq_dec l l') as [<-|Hne].
  - destruct (Nat.lt_ge_cases l (length (xw_cells w))) as [Hl|Hl].
    + rewrite xget_set_eq in E by exact Hl. inversion E; subst. destruct Hc as [X|(c0 & E0 & X)]; [left; exact X|right; exists l, c0; auto].
    + unfold xget, xset in E. cbn [xw_cells] in E. rewrite nth_error_set_nth_out in E by exact Hl. right. exists l, c'. auto.
  - rewrite xget_set_ne in E by exact Hne. right. exists l', c'. auto.
Qed.

Lemma xsetval_bk w l v : xbuf_of v = [] -> xbk w (xsetval w l v).
Proof. intros Hv. unfold xsetval. destruct (xget w l); [|apply xbk_refl]. apply xset_bk. left. exact Hv. Qed.

Lemma xballoc_bk w bs : xbk w (fst (xballoc w bs)).
Proof.
  unfold xballoc. cbn [fst]. split; [reflexivity|split; [cbn [xw_bufs]; rewrite app_length; lia|split]].
  - intros b (l & c & E & Hin). left. exists l, c. auto.
  - intros b Hb. cbn [xw_bufs]. apply app_nth1. exact Hb.
Qed.

Lemma xsame_bk w w' : xw_cells w' = xw_cells w -> xw_bufs w' = xw_bufs w -> xw_held w' = xw_held w -> xbk w w'.
Proof.
  intros Hc Hb Hh. apply xbk_cells; auto. intros l c E. right. exists l, c. unfold xget in *. rewrite Hc in E. auto.
Qed.

Lemma xsetroot_bk w r p l : xbk w (xsetroot w r p l). Proof. apply xsame_bk; reflexivity. Qed.
Lemma xsetdoc_bk w d dv : xbk w (xsetdoc w d dv). Proof. apply xsame_bk; reflexivity. Qed.
Lemma xsetcache_bk w d id l : xbk w (xsetcache w d id l).
Proof. unfold xsetcache. destruct (xdoc w d); [apply xsetdoc_bk|apply xbk_refl]. Qed.
Lemma xsetcmap_bk w d s id l : xbk w (xsetcmap w d s id l).
Proof. unfold xsetcmap. destruct (xdoc w d); [apply xsetdoc_bk|apply xbk_refl]. Qed.
Lemma xadd_doc_bk w dv : xbk w (xadd_doc w dv). Proof. apply xsame_bk; reflexivity. Qed.

Lemma xappend_bk w cs : (forall c, In c cs -> xbuf_of (xc_val c) = []) -> xbk w (xset_cells w (xw_cells w ++ cs)).
Proof.
  intros Hc. apply xbk_cells; try reflexivity. intros l c E. unfold xget, xset_cells in E. cbn [xw_cells] in E.
  destruct (Nat.lt_ge_cases l (length (xw_cells w))) as [Hl|Hl].
  - rewrite nth_error_app1 in E by exact Hl. right. exists l, c. auto.
  - rewrite nth_error_app2 in E by exact Hl. apply nth_error_In in E. left. auto.
Qed.

Lemma xnav1_bk w l s w1 l1 : xnav1 w l s = Some (w1, l1) -> xbk w w1.
Proof.
  unfold xnav1. destruct s; destruct (xval w l); try discriminate.
  - destruct (nth_error els n); intros H; inversion H; subst. apply xbk_refl.
  - destruct (nmap_get items k); intros H; inversion H; subst; [apply xbk_refl|]. apply xalloc_bk. reflexivity.
  - intros H; inversion H; subst. apply xbk_refl.
Qed.

Lemma xnavs_bk p : forall w l w1 l1, xnavs w l p = Some (w1, l1) -> xbk w w1.
Proof.
  induction p as [|s p IH]; intros w l w1 l1; simpl.
  - intros H; inversion H; subst. apply xbk_refl.
  - destruct (xnav1 w l s) as [[w2 l2]|] eqn:E; [|discriminate]. intros H.
    eapply xbk_trans; [eapply xnav1_bk; eauto|eapply IH; eauto].
Qed.

Lemma xeval_head_bk any a w h w1 l c : xeval_head any a w h = Some (w1, l, c) -> xbk w w1.
Proof.
  unfold xeval_head. destruct h.
  - destruct (imap_get (xw_roots w) r) as [[p l0]|]; [|discriminate].
    destruct (Nat.eqb p a); [intros H; inversion H; subst; apply xbk_refl|].
    destruct any; [|discriminate]. intros H; inversion H; subst; apply xbk_refl.
  - destruct (xdoc w a) as [dv|]; [|discriminate].
    destruct (xd_alive dv && (3 <=? id) && (id <=? xcache_max (xd_cache dv))); [|discriminate].
    destruct (nmap_get (xd_cache dv) id); [intros H; inversion H; subst; apply xbk_refl|].
    intros H. inversion H; subst. apply (xalloc_bk w (mkXc XNull None 0) eq_refl).
  - intros H. inversion H; subst. apply (xalloc_bk w (mkXc (XInt z) None 0) eq_refl).
  - intros H. inversion H; subst. apply (xalloc_bk w (mkXc XNull None 0) eq_refl).
  - intros H. inversion H; subst. apply (xalloc_bk w (mkXc (XName k) None 0) eq_refl).
  - intros H. inversion H; subst. apply (xalloc_bk w (mkXc (XArr []) None 0) eq_refl).
  - intros H. inversion H; subst. apply (xalloc_bk w (mkXc (XDict []) None 0) eq_refl).
Qed.

Lemma xeval_bk any a w e w1 l c : xeval any a w e = Some (w1, l, c) -> xbk w w1.
Proof.
  unfold xeval. destruct (xeval_head any a w (fst e)) as [[[w2 l2] c2]|] eqn:E; [|discriminate].
  destruct (xnavs w2 l2 (snd e)) as [[w3 l3]|] eqn:E2; [|discriminate]. intros H. inversion H; subst.
  eapply xbk_trans; [eapply xeval_head_bk; eauto|eapply xnavs_bk; eauto].
Qed.

Lemma xbuild_bk ctx : forall t w, xbk w (fst (xbuild ctx t w)).
Proof.
  fix IH 1. intros t w. destruct t as [|z|k|ts|kts]; cbn [xbuild].
  - apply xalloc_bk. reflexivity.
  - apply xalloc_bk. reflexivity.
  - apply xalloc_bk. reflexivity.
  - match goal with |- context [(fix go (ts : list xtree) (w : hxworld) (acc : list nat) {struct ts} : hxworld * list nat := _) ts w []] =>
      set (go := fix go (ts : list xtree) (w : hxworld) (acc : list nat) {struct ts} : hxworld * list nat :=
                   match ts with
                   | [] => (w, rev' acc)
                   | t :: r => let (w1, l) := xbuild ctx t w in go r w1 (l :: acc)
                   end) end.
    assert (G : forall ts w0 acc, xbk w0 (fst (go ts w0 acc))).
    { induction ts0 as [|t r IHr]; intros w0 acc; simpl; [apply xbk_refl|].
      pose proof (IH t w0) as H1. destruct (xbuild ctx t w0) as [w1 l]. eapply xbk_trans; [exact H1|apply IHr]. }
    pose proof (G ts w []) as H1. destruct (go ts w []) as [w1 els]. cbn [fst] in *.
    eapply xbk_trans; [exact H1|]. apply xalloc_bk. reflexivity.
  - match goal with |- context [(fix go (kts : list (N * xtree)) (w : hxworld) (acc : list (N * nat)) {struct kts} : hxworld * list (N * nat) := _) kts w []] =>
      set (go := fix go (kts : list (N * xtree)) (w : hxworld) (acc : list (N * nat)) {struct kts} : hxworld * list (N * nat) :=
                   match kts with
                   | [] => (w, acc)
                   | (k, t) :: r => let (w1, l) := xbuild ctx t w in go r w1 (nmap_set acc k l)
                   end) end.
    assert (G : forall kts w0 acc, xbk w0 (fst (go kts w0 acc))).
    { induction kts0 as [|[k t] r IHr]; intros w0 acc; simpl; [apply xbk_refl|].
      pose proof (IH t w0) as H1. destruct (xbuild ctx t w0) as [w1 l]. eapply xbk_trans; [exact H1|apply IHr]. }
    pose proof (G kts w []) as H1. destruct (go kts w []) as [w1 items]. cbn [fst] in *.
    eapply xbk_trans; [exact H1|]. apply xalloc_bk. reflexivity.
Qed.

Lemma xfold_bk {A B} (f : hxworld * B -> A -> hxworld * B) (l : list A) :
  (forall st x, xbk (fst st) (fst (f st x))) -> forall st, xbk (fst st) (fst (fold_left f l st)).
Proof.
  intros Hf. induction l as [|x l IH]; intros st; simpl; [apply xbk_refl|].
  eapply xbk_trans; [apply Hf|apply IH].
Qed.

Lemma xclone_bk : forall f q og w l, xbk w (fst (xclone f q og w l)).
Proof.
  induction f as [|f IH]; intros q og w l; cbn [xclone]; [apply xalloc_bk; reflexivity|].
  destruct (xval w l) eqn:E; try (apply xalloc_bk; reflexivity).
  - pose proof (xfold_bk (fun st e => let (w2, e') := xclone f None 0 (fst st) e in (w2, e' :: snd st)) els) as H.
    specialize (H (fun st x => ltac:(cbn beta; pose proof (IH None 0 (fst st) x) as H0; destruct (xclone f None 0 (fst st) x); exact H0)) (w, [])).
    destruct (fold_left (fun st e => let (w2, e') := xclone f None 0 (fst st) e in (w2, e' :: snd st)) els (w, [])) as [w1 acc].
    cbn [fst] in *. eapply xbk_trans; [exact H|]. apply xalloc_bk. reflexivity.
  - set (stepf := fun (st : hxworld * list (N * nat)) (kv : N * nat) =>
                    match xval (fst st) (snd kv) with
                    | XNull => st
                    | _ => let (w2, e') := xclone f None 0 (fst st) (snd kv) in (w2, nmap_set (snd st) (fst kv) e')
                    end).
    assert (Hs : forall st x, xbk (fst st) (fst (stepf st x))).
    { intros st x. unfold stepf.
      assert (Hc : xbk (fst st) (fst (let (w2, e') := xclone f None 0 (fst st) (snd x) in (w2, nmap_set (snd st) (fst x) e')))).
      { pose proof (IH None 0 (fst st) (snd x)) as H0. destruct (xclone f None 0 (fst st) (snd x)); exact H0. }
      destruct (xval (fst st) (snd x)); try exact Hc. apply xbk_refl. }
    pose proof (xfold_bk stepf items Hs (w, [])) as H.
    destruct (fold_left stepf items (w, [])) as [w1 its]. cbn [fst] in *.
    eapply xbk_trans; [exact H|]. apply xalloc_bk. reflexivity.
Qed.

Lemma xfold1_bk {A} (f : hxworld -> A -> hxworld) (l : list A) :
  (forall w x, xbk w (f w x)) -> forall w, xbk w (fold_left f l w).
Proof.
  intros Hf. induction l as [|x l IH]; intros w; simpl; [apply xbk_refl|]. eapply xbk_trans; [apply Hf|apply IH].
Qed.

Lemma xdisconnect_bk : forall f od w l, xbk w (xdisconnect f od w l).
Proof.
  induction f as [|f IH]; intros od w l; cbn [xdisconnect]; [apply xbk_refl|].
  destruct (xget w l) as [c|] eqn:E; [|apply xbk_refl].
  destruct (od && negb (xc_og c =? 0)); [apply xbk_refl|].
  match goal with |- xbk _ (match xget ?w1 l with _ => _ end) => set (wmid := w1) end.
  assert (O1 : xbk w wmid).
  { unfold wmid. destruct (xc_val c); try apply xbk_refl.
    - apply xfold1_bk. intros; apply IH.
    - apply xfold1_bk. intros; apply IH.
    - apply IH. }
  destruct (xget wmid l) as [c1|] eqn:E1; [|exact O1].
  eapply xbk_trans; [exact O1|]. apply xset_bk. right. exists c1. auto.
Qed.

Lemma xdestroy_entry_bk w l : xbk w (xdestroy_entry w l).
Proof.
  unfold xdestroy_entry. generalize (S xfuel). intros f0.
  pose proof (xdisconnect_bk f0 false w l) as O1.
  destruct (xval (xdisconnect f0 false w l) l); try exact O1;
    (eapply xbk_trans; [exact O1|]; apply xsetval_bk; reflexivity).
Qed.

Lemma imap_get_set {A} (m : list (nat * A)) k v r : imap_get (imap_set m k v) r = if Nat.eqb k r then Some v else imap_get m r.
Proof.
  induction m as [|[k' v'] m IH]; simpl.
  - reflexivity.
  - destruct (Nat.ltb k k') eqn:E1; simpl; [reflexivity|].
    destruct (Nat.eqb k' k) eqn:E2; simpl.
    + apply Nat.eqb_eq in E2. subst k'. destruct (Nat.eqb k r); reflexivity.
    + destruct (Nat.eqb k' r) eqn:E3.
      * apply Nat.eqb_eq in E3. subst k'. rewrite Nat.eqb_sym in E2. rewrite E2. reflexivity.
      * exact IH.
Qed.

Lemma xbinv_bk w w' : xinr w -> xbinv w -> xbk w w' -> xbinv w'.
Proof.
  intros R B (Hh & Hl & Hr & _). constructor; rewrite Hh.
  - apply (xb_inj w B).
  - intros r h E G l c Ec Hin.
    destruct (Hr (xh_buf h)) as [(l0 & c0 & E0 & Hin0)|Hf]; [exists l, c; auto| |].
    + apply (xb_private w B r h E G l0 c0 E0 Hin0).
    + apply imap_get_in in E. pose proof (xr_held w R) as F. rewrite Forall_forall in F. specialize (F _ E). simpl in F. lia.
Qed.

(* handing out: a NEW Buffer goes into a variable *)
Lemma xbinv_hold_fresh w bs br op : xinr w -> xbinv w ->
  xbinv (xsetheld (fst (xballoc w bs)) br (mkXh false (snd (xballoc w bs)) op)).
Proof.
  intros R B. unfold xballoc, xsetheld. cbn [fst snd xw_held xw_cells xw_bufs].
  assert (Hold : forall r h, imap_get (xw_held w) r = Some h -> (xh_buf h < length (xw_bufs w))%nat).
  { intros r h E. apply imap_get_in in E. pose proof (xr_held w R) as F. rewrite Forall_forall in F. apply (F _ E). }
  constructor; cbn [xw_held].
  - intros r1 r2 h1 h2 E1 E2 Hb. rewrite imap_get_set in E1, E2.
    destruct (Nat.eqb br r1) eqn:X1; destruct (Nat.eqb br r2) eqn:X2.
    + apply Nat.eqb_eq in X1, X2. congruence.
    + inversion E1; subst. simpl in Hb. pose proof (Hold _ _ E2). lia.
    + inversion E2; subst. simpl in Hb. pose proof (Hold _ _ E1). lia.
    + apply (xb_inj w B r1 r2 h1 h2 E1 E2 Hb).
  - intros r h E G l c Ec Hin. rewrite imap_get_set in E. unfold xget in Ec. cbn [xw_cells] in Ec.
    destruct (Nat.eqb br r).
    + inversion E; subst. simpl in Hin. pose proof (xr_bufs w R l c Ec) as F. rewrite Forall_forall in F. specialize (F _ Hin). simpl in F. lia.
    + apply (xb_private w B r h E G l c Ec Hin).
Qed.

(* giving back: the stream t now reads from the Buffer in variable br, which is marked as given *)
Lemma xbinv_give w t d br hb : xbinv w -> imap_get (xw_held w) br = Some hb ->
  xbinv (xsetheld (xsetval w t (XStream d (XsBuf (xh_buf hb)))) br (mkXh true (xh_buf hb) false)).
Proof.
  intros B Eh.
  assert (Hheld : xw_held (xsetval w t (XStream d (XsBuf (xh_buf hb)))) = xw_held w).
  { unfold xsetval. destruct (xget w t); reflexivity. }
  constructor; unfold xsetheld; cbn [xw_held]; rewrite Hheld.
  - intros r1 r2 h1 h2 E1 E2 Hb. rewrite imap_get_set in E1, E2.
    destruct (Nat.eqb br r1) eqn:X1; destruct (Nat.eqb br r2) eqn:X2.
    + apply Nat.eqb_eq in X1, X2. congruence.
    + inversion E1; subst. simpl in Hb. apply Nat.eqb_eq in X1. subst r1. apply (xb_inj w B br r2 hb h2 Eh E2 Hb).
    + inversion E2; subst. simpl in Hb. apply Nat.eqb_eq in X2. subst r2. apply (xb_inj w B r1 br h1 hb E1 Eh Hb).
    + apply (xb_inj w B r1 r2 h1 h2 E1 E2 Hb).
  - intros r h E G l c Ec Hin. rewrite imap_get_set in E.
    destruct (Nat.eqb br r) eqn:X; [inversion E; subst; discriminate|].
    assert (Hne : xh_buf h <> xh_buf hb).
    { intros Hb. apply Nat.eqb_neq in X. apply X. symmetry. apply (xb_inj w B r br h hb E Eh Hb). }
    unfold xget in Ec. cbn [xw_cells] in Ec. unfold xsetval in Ec. destruct (xget w t) as [c0|] eqn:Et.
    + unfold xset in Ec. cbn [xw_cells] in Ec. destruct (Nat.eq_dec t l) as [<-|Hn].
      * rewrite nth_error_set_nth_eq in Ec by (eapply xget_lt; eauto). inversion Ec; subst. simpl in Hin. destruct Hin as [Hin|[]]. congruence.
      * rewrite nth_error_set_nth_ne in Ec by exact Hn. apply (xb_private w B r h E G l c Ec Hin).
    + apply (xb_private w B r h E G l c Ec Hin).
Qed.

Lemma xalloc_bk_base w0 w c :
  xbk w0 w -> (forall b, In b (xbuf_of (xc_val c)) -> xrefs w0 b \/ (length (xw_bufs w0) <= b)%nat) -> xbk w0 (fst (xalloc w c)).
Proof.
  intros (Hh & Hl & Hr & Hp) Hc. split; [exact Hh|split; [exact Hl|split; [|exact Hp]]]. intros b (l & c0 & E & Hin).
  unfold xget, xalloc in E. cbn [fst xw_cells] in E.
  destruct (Nat.lt_ge_cases l (length (xw_cells w))) as [Hlt|Hge].
  - rewrite nth_error_app1 in E by exact Hlt. apply Hr. exists l, c0. auto.
  - rewrite nth_error_app2 in E by exact Hge. destruct (l - length (xw_cells w))%nat as [|k]; simpl in E.
    + inversion E; subst. auto.
    + destruct k; discriminate.
Qed.

Lemma xsetval_bk_base w0 w l v :
  xbk w0 w -> (forall b, In b (xbuf_of v) -> xrefs w0 b \/ (length (xw_bufs w0) <= b)%nat) -> xbk w0 (xsetval w l v).
Proof.
  intros (Hh & Hl & Hr & Hp) Hc. unfold xsetval. destruct (xget w l) as [c|] eqn:El; [|split; auto].
  split; [exact Hh|split; [exact Hl|split; [|exact Hp]]]. intros b (l' & c0 & E & Hin).
  destruct (Nat.eq_dec l l') as [<-|Hne].
  - rewrite xget_set_eq in E by (eapply xget_lt; eauto). inversion E; subst. simpl in Hin. auto.
  - rewrite xget_set_ne in E by exact Hne. apply Hr. exists l', c0. auto.
Qed.

Lemma xedit_insert_bk w t wh lv w' : xedit_insert w t wh lv = Some w' -> xbk w w'.
Proof.
  unfold xedit_insert. destruct wh; destruct (xval w t); try discriminate.
  - intros H. inversion H; subst. destruct (xval w lv); try (apply xsetval_bk; reflexivity).
    destruct (xog w lv =? 0); apply xsetval_bk; reflexivity.
  - intros H. inversion H; subst. apply xsetval_bk; reflexivity.
  - destruct (Nat.ltb n (length els)); [|discriminate]. intros H. inversion H; subst. apply xsetval_bk; reflexivity.
Qed.

Lemma xedit_delete_bk w t wh w' : xedit_delete w t wh = Some w' -> xbk w w'.
Proof.
  unfold xedit_delete. destruct wh; destruct (xval w t); try discriminate.
  - intros H. inversion H; subst. apply xsetval_bk; reflexivity.
  - destruct (Nat.ltb n (length els)); [|discriminate]. intros H. inversion H; subst. apply xsetval_bk; reflexivity.
Qed.

Lemma xballoc_snd w bs : snd (xballoc w bs) = length (xw_bufs w). Proof. reflexivity. Qed.

Definition xop_bufvar (op : xop) : option nat :=
  match op with XoGetData _ br | XoMutate br _ _ | XoGive _ br | XoWriteBuf br => Some br | _ => None end.

(* an operation that names no Buffer variable *)
Lemma xstep_bk a w op : xop_bufvar op = None -> xbk w (fst (xstep a w op)).
Proof.
  intros Hop. pose proof (xbk_refl w) as B. assert (BK : forall w', xbk w w' -> xbk w w') by auto.
  destruct op; try discriminate; cbn [xstep].
  - destruct (Nat.eqb a (length (xw_docs w)) && negb (Nat.eqb a 0)); cbn [fst]; [|exact B].
    apply BK. eapply xbk_trans; [apply xappend_bk|apply xadd_doc_bk]. intros c [<-|[<-|[]]]; reflexivity.
  - destruct (Nat.eqb a (length (xw_docs w)) && negb (Nat.eqb a 0)); cbn [fst]; [|exact B].
    apply BK. eapply xbk_trans; [apply xappend_bk|apply xadd_doc_bk]. intros c Hc. simpl in Hc.
    repeat (destruct Hc as [<-|Hc]; [reflexivity|]). contradiction.
  - destruct ((Nat.eqb a 0 || xalive w a) && xroot_ok a r); [|exact B].
    assert (Hb : forall t', xbk w (fst (let (w1, l) := xbuild (if Nat.eqb a 0 then None else Some a) t' w in (xsetroot w1 r a l, IrOk)))).
    { intros t'. pose proof (xbuild_bk (if Nat.eqb a 0 then None else Some a) t' w) as H1.
      destruct (xbuild (if Nat.eqb a 0 then None else Some a) t' w) as [w1 l]. cbn [fst] in *.
      apply BK. eapply xbk_trans; [exact H1|apply xsetroot_bk]. }
    destruct t; try exact B; apply Hb.
  - destruct (xroot_ok a r && Nat.ltb a (length (xw_docs w))); [|exact B].
    destruct (xeval false a w h) as [[[w1 l] c]|] eqn:E; [|exact B]. cbn [fst].
    apply BK. eapply xbk_trans; [eapply xeval_bk; eauto|apply xsetroot_bk].
  - destruct (xalive w a); [|exact B].
    destruct (xeval false a w h) as [[[w1 l] c]|] eqn:E; [|exact B].
    destruct ((xog w1 l =? 0) && negb (xshared w1 a l)); [|exact B]. cbn [fst].
    apply BK. eapply xbk_trans; [eapply xeval_bk; eauto|]. eapply xbk_trans; [apply xsetcache_bk|].
    destruct (xget (xsetcache w1 a (xcount w1 a + 1) l) l) as [c0|] eqn:Ec; [|apply xbk_refl].
    apply xset_bk. right. exists c0. auto.
  - destruct (xeval false a w h) as [[[w1 t] c]|] eqn:E; [|exact B].
    destruct (xeval true a w1 v) as [[[w2 lv] cross]|] eqn:Ev; [|exact B].
    match goal with |- context [if ?g then (w, IrSkip) else _] => destruct g end; [exact B|].
    assert (H12 : xbk w w2) by (eapply xbk_trans; eapply xeval_bk; eauto).
    destruct (xedit_insert w2 t wh lv) as [w3|] eqn:Ee; [|exact B].
    destruct (xclash w2 t lv); cbn [fst]; apply BK; [exact H12|].
    eapply xbk_trans; [exact H12|eapply xedit_insert_bk; eauto].
  - destruct (xeval false a w h) as [[[w1 t] c]|] eqn:E; [|exact B].
    match goal with |- context [if ?g then (w, IrSkip) else _] => destruct g end; [exact B|].
    destruct (xedit_delete w1 t wh) as [w2|] eqn:Ee; [|exact B]. cbn [fst].
    apply BK. eapply xbk_trans; [eapply xeval_bk; eauto|eapply xedit_delete_bk; eauto].
  - destruct (xdoc w a) as [dv|]; [|exact B]. destruct (xd_alive dv); [|exact B]. cbn [fst].
    apply BK. eapply xbk_trans; [|apply xsetdoc_bk]. apply xfold1_bk. intros; apply xdestroy_entry_bk.
  - destruct (xalive w a); exact B.
  - (* XoNewStream *)
    destruct (xalive w a && xroot_ok a r); [|exact B].
    pose proof (xalloc_bk w (mkXc (XDict []) (Some a) 0) eq_refl) as H1.
    destruct (xalloc w (mkXc (XDict []) (Some a) 0)) as [w1 d]. cbn [fst] in H1.
    pose proof (xballoc_bk w1 bs) as H2. pose proof (xballoc_snd w1 bs) as Hb.
    destruct (xballoc w1 bs) as [w2 b]. cbn [fst snd] in *.
    assert (H12 : xbk w w2) by (eapply xbk_trans; eauto).
    pose proof (xalloc_bk_base w w2 (mkXc (XStream d (XsBuf b)) (Some a) (xcount w2 a + 1)) H12) as H3.
    destruct (xalloc w2 (mkXc (XStream d (XsBuf b)) (Some a) (xcount w2 a + 1))) as [w3 l]. cbn [fst] in *.
    apply BK. eapply xbk_trans; [apply H3|].
    + intros b0 [<-|[]]. right. destruct H1 as (_ & L1 & _). lia.
    + eapply xbk_trans; [apply xsetcache_bk|apply xsetroot_bk].
  - (* XoReplaceData *)
    destruct (xeval false a w h) as [[[w1 t] c]|] eqn:E; [|exact B].
    destruct (xval w1 t); try exact B. destruct (xshared w1 a t); [exact B|].
    pose proof (xeval_bk _ _ _ _ _ _ _ E) as H1.
    pose proof (xballoc_bk w1 bs) as H2. pose proof (xballoc_snd w1 bs) as Hb.
    destruct (xballoc w1 bs) as [w2 b]. cbn [fst snd] in *.
    apply BK. apply xsetval_bk_base; [eapply xbk_trans; eauto|].
    intros b0 [<-|[]]. right. destruct H1 as (_ & L1 & _). lia.
  - (* XoCopy *)
    destruct (xalive w a && xalive w s && negb (Nat.eqb s a) && xroot_ok a r); [|exact B].
    destruct (xeval false s w h) as [[[w1 t] c]|] eqn:E; [|exact B].
    pose proof (xeval_bk _ _ _ _ _ _ _ E) as H1.
    match goal with |- context [if ?g then (w, IrSkip) else _] => destruct g end; [exact B|].
    destruct (xdoc w1 a) as [dva|]; [|exact B].
    destruct (negb (xcopyable w1 t)); [exact B|].
    destruct (xcmap_get (xd_cmap dva) s (xog w1 t)) as [l|]; [cbn [fst]; apply BK; eapply xbk_trans; [exact H1|apply xsetroot_bk]|].
    assert (Tail : forall w3 l next, xbk w w3 -> xbk w (xsetroot (xsetcmap (xsetcache w3 a next l) a s (xog w1 t) l) r a l)).
    { intros w3 l next H3. apply BK. eapply xbk_trans; [exact H3|]. eapply xbk_trans; [apply xsetcache_bk|].
      eapply xbk_trans; [apply xsetcmap_bk|apply xsetroot_bk]. }
    assert (Plain : forall next, xbk w (fst (let (w3, l) := xclone xfuel (Some a) next w1 t in
                                   (xsetroot (xsetcmap (xsetcache w3 a next l) a s (xog w1 t) l) r a l, IrOk)))).
    { intros next. pose proof (xclone_bk xfuel (Some a) next w1 t) as H3.
      destruct (xclone xfuel (Some a) next w1 t) as [w3 l]. cbn [fst] in *. apply Tail. eapply xbk_trans; eauto. }
    destruct (xval w1 t) eqn:Ev; try apply Plain.
    set (imm := xd_imm match xdoc w1 s with Some dvs => dvs | None => xdoc0 end && negb (xis_buf src)).
    assert (Himm : exists w2 src2, (if imm then let (w2, b) := xballoc w1 (xdata w1 src) in (xsetval w2 t (XStream dict (XsBuf b)), XsBuf b)
                                    else (w1, src)) = (w2, src2) /\ xbk w w2 /\
                                   (forall b, In b (xbuf_of (XStream 0 src2)) -> xrefs w b \/ (length (xw_bufs w) <= b)%nat)).
    { destruct imm.
      - pose proof (xballoc_bk w1 (xdata w1 src)) as H2. pose proof (xballoc_snd w1 (xdata w1 src)) as Hb.
        destruct (xballoc w1 (xdata w1 src)) as [w2 b]. cbn [fst snd] in *.
        assert (Hfresh : forall b0, In b0 [b] -> xrefs w b0 \/ (length (xw_bufs w) <= b0)%nat).
        { intros b0 [<-|[]]. right. destruct H1 as (_ & L1 & _). lia. }
        exists (xsetval w2 t (XStream dict (XsBuf b))), (XsBuf b). split; [reflexivity|]. split; [|exact Hfresh].
        apply xsetval_bk_base; [eapply xbk_trans; eauto|exact Hfresh].
      - exists w1, src. split; [reflexivity|]. split; [exact H1|].
        intros b Hin. destruct H1 as (_ & _ & Hr & _). apply Hr. unfold xval in Ev. destruct (xget w1 t) as [c0|] eqn:Eg; [|discriminate].
        exists t, c0. split; [exact Eg|]. rewrite Ev. exact Hin. }
    destruct Himm as (w2 & src2 & Eq & H2 & Hs2). fold imm. rewrite Eq.
    pose proof (xclone_bk xfuel (Some a) 0 w2 dict) as H3.
    destruct (xclone xfuel (Some a) 0 w2 dict) as [w3 dc]. cbn [fst] in *.
    set (src3 := match src2 with XsBuf b => XsBuf b | XsFile bs => XsProv bs | XsProv bs => XsProv bs end).
    pose proof (xalloc_bk_base w w3 (mkXc (XStream dc src3) (Some a) (xcount w3 a + 1)) (xbk_trans _ _ _ H2 H3)) as H5.
    destruct (xalloc w3 (mkXc (XStream dc src3) (Some a) (xcount w3 a + 1))) as [w5 l]. cbn [fst] in *.
    apply Tail. apply H5. intros b Hin. apply Hs2. unfold src3 in Hin. destruct src2; simpl in *; auto.
Qed.

Lemma xbinv_step a w op : xinr w -> xbinv w -> xbinv (fst (xstep a w op)).
Proof.
  intros R B.
  assert (BK : forall w', xbk w w' -> xbinv w') by (intros w'; apply xbinv_bk; auto).
  destruct (xop_bufvar op) eqn:Hop; [|apply BK; apply xstep_bk; exact Hop].
  destruct op; try discriminate; cbn [xstep].
  - (* XoGetData *)
    destruct (xeval false a w h) as [[[w1 t] c]|] eqn:E; [|exact B].
    destruct (xeval_own a w h w1 t c R E) as (K1 & R1 & L1).
    pose proof (BK w1 (xeval_bk _ _ _ _ _ _ _ E)) as B1.
    destruct (xval w1 t); try exact B.
    pose proof (xbinv_hold_fresh w1 (xdata w1 src) br false R1 B1) as H.
    destruct (xballoc w1 (xdata w1 src)) as [w2 b]. exact H.
  - (* XoMutate *)
    destruct (negb (Nat.eqb a 0)); [exact B|].
    destruct (imap_get (xw_held w) br) as [hb|]; [|exact B].
    destruct (xh_given hb); [exact B|]. destruct (xh_opaque hb); [exact B|].
    destruct (Nat.ltb pos (length (nth (xh_buf hb) (xw_bufs w) []))); [|exact B]. cbn [fst].
    constructor; [apply (xb_inj w B)|apply (xb_private w B)].
  - (* XoGive *)
    destruct (xeval false a w h) as [[[w1 t] c]|] eqn:E; [|exact B].
    pose proof (BK w1 (xeval_bk _ _ _ _ _ _ _ E)) as B1.
    destruct (xval w1 t); try exact B.
    destruct (imap_get (xw_held w1) br) as [hb|] eqn:Eh; [|exact B].
    destruct (xshared w1 a t || xh_given hb || xh_opaque hb); [exact B|]. cbn [fst].
    apply xbinv_give; auto.
  - (* XoWriteBuf *)
    destruct (xalive w a); [|exact B].
    pose proof (xbinv_hold_fresh w [] br true R B) as H.
    destruct (xballoc w []) as [w2 b]. exact H.
Qed.

(* ================================================================== the theorems about Buffers *)

(* well-formedness (ranges; distinct variables hold distinct Buffers; a Buffer that was handed out and not passed back
   is referenced by no stream) is kept by every operation: a handed-out Buffer STAYS private until the program itself
   gives it to a stream *)
Lemma hx_wf_preserved_lemma : forall (w : hxworld) (a : nat) (op : xop),
  xwf w -> xsep_b w = true -> xwf (fst (xstep a w op)).
Proof.
  intros w a op [R B] Sp. split; [apply hx_ranges_preserved_lemma; [split|]; auto|apply xbinv_step; auto].
Qed.

Lemma xwf_world0 : xwf xworld0.
Proof.
  split.
  - constructor; simpl; try constructor.
    + intros l c E. destruct l; discriminate.
    + intros l c E. destruct l; discriminate.
    + intros d dv E. destruct d as [|d]; simpl in E; [inversion E; subst; constructor|destruct d; discriminate].
    + intros d dv E. destruct d as [|d]; simpl in E; [inversion E; subst; constructor|destruct d; discriminate].
  - constructor; simpl; intros; discriminate.
Qed.

(* DESIGN / briefing: handed_out_buffers_fresh.  What getRawStreamData / getStreamData / QPDFWriter's memory output
   hand to the caller is a NEW Buffer: it did not exist before the call, no stream of any document reads from it
   (whatever the stream's provenance: input file, API-created, replaced, copied from another document, source with
   setImmediateCopyFrom), and no other variable of the program holds it. *)
Lemma handed_out_buffers_fresh_lemma : forall (w : hxworld) (a : nat) (op : xop) (br : nat),
  xwf w ->
  ((exists h, op = XoGetData h br) \/ op = XoWriteBuf br) ->
  snd (xstep a w op) = IrOk ->
  exists hb, imap_get (xw_held (fst (xstep a w op))) br = Some hb /\ xh_given hb = false /\
    (length (xw_bufs w) <= xh_buf hb)%nat /\
    (forall l d s, xval (fst (xstep a w op)) l = XStream d s -> s <> XsBuf (xh_buf hb)) /\
    (forall r' h', r' <> br -> imap_get (xw_held (fst (xstep a w op))) r' = Some h' -> xh_buf h' <> xh_buf hb).
Proof.
  intros w a op br [R B] Hop Hres.
  assert (Hold : forall w1, xw_held w1 = xw_held w -> (length (xw_bufs w) <= length (xw_bufs w1))%nat ->
                 forall r h, imap_get (xw_held w1) r = Some h -> (xh_buf h < length (xw_bufs w1))%nat).
  { intros w1 Hh Hl r h E. rewrite Hh in E. apply imap_get_in in E. pose proof (xr_held w R) as F. rewrite Forall_forall in F.
    specialize (F _ E). simpl in F. lia. }
  assert (Fresh : forall w1 bs opq, xinr w1 -> xw_held w1 = xw_held w -> (length (xw_bufs w) <= length (xw_bufs w1))%nat ->
            exists hb, imap_get (xw_held (xsetheld (fst (xballoc w1 bs)) br (mkXh false (snd (xballoc w1 bs)) opq))) br = Some hb /\
              xh_given hb = false /\ (length (xw_bufs w) <= xh_buf hb)%nat /\
              (forall l d s, xval (xsetheld (fst (xballoc w1 bs)) br (mkXh false (snd (xballoc w1 bs)) opq)) l = XStream d s -> s <> XsBuf (xh_buf hb)) /\
              (forall r' h', r' <> br -> imap_get (xw_held (xsetheld (fst (xballoc w1 bs)) br (mkXh false (snd (xballoc w1 bs)) opq))) r' = Some h' ->
                             xh_buf h' <> xh_buf hb)).
  { intros w1 bs opq R1 Hh Hl. unfold xballoc, xsetheld. cbn [fst snd xw_held].
    exists (mkXh false (length (xw_bufs w1)) opq). rewrite imap_get_set, Nat.eqb_refl. split; [reflexivity|]. split; [reflexivity|].
    split; [simpl; exact Hl|]. split.
    - intros l d s Ev ->. unfold xval, xget in Ev. cbn [xw_cells] in Ev. destruct (nth_error (xw_cells w1) l) as [c|] eqn:E; [|discriminate].
      pose proof (xr_bufs w1 R1 l c E) as F. rewrite Ev in F. simpl in F. inversion F; subst. lia.
    - intros r' h' Hne E. rewrite imap_get_set in E. destruct (Nat.eqb br r') eqn:X; [apply Nat.eqb_eq in X; congruence|].
      simpl. pose proof (Hold w1 Hh Hl r' h' E). lia. }
  destruct Hop as [[h ->]| ->]; cbn [xstep] in *.
  - destruct (xeval false a w h) as [[[w1 t] c]|] eqn:E; [|discriminate].
    destruct (xeval_own a w h w1 t c R E) as (K1 & R1 & L1).
    pose proof (xeval_bk _ _ _ _ _ _ _ E) as (Hh & Hl & _).
    destruct (xval w1 t); try discriminate.
    pose proof (Fresh w1 (xdata w1 src) false R1 Hh Hl) as H.
    destruct (xballoc w1 (xdata w1 src)) as [w2 b]. exact H.
  - destruct (xalive w a); [|discriminate].
    pose proof (Fresh w [] true R eq_refl (le_n _)) as H.
    destruct (xballoc w []) as [w2 b]. exact H.
Qed.

Definition xhk (w w' : hxworld) : Prop :=
  xw_held w' = xw_held w /\ (forall b, (b < length (xw_bufs w))%nat -> nth b (xw_bufs w') [] = nth b (xw_bufs w) []).

Lemma xbk_hk w w' : xbk w w' -> xhk w w'.
Proof. intros (Hh & _ & _ & Hp). split; auto. Qed.

Lemma xobs_held_hk w w' r : xinr w -> xhk w w' -> xobs_held w' r = xobs_held w r.
Proof.
  intros R (Hh & Hp). unfold xobs_held. rewrite Hh. destruct (imap_get (xw_held w) r) as [h|] eqn:E; [|reflexivity].
  rewrite Hp; [reflexivity|]. apply imap_get_in in E. pose proof (xr_held w R) as F. rewrite Forall_forall in F. apply (F _ E).
Qed.

(* the Buffers in the program's other variables keep their contents whatever is done: by any document, or by the
   program to ANOTHER Buffer ("a buffer obtained earlier keeps its contents") *)
Lemma hx_held_buffers_frame_lemma : forall (w : hxworld) (a : nat) (op : xop) (r : nat),
  xwf w -> xop_bufvar op <> Some r -> xobs_held (fst (xstep a w op)) r = xobs_held w r.
Proof.
  intros w a op r [R B] Hr.
  destruct (xop_bufvar op) as [br|] eqn:Hop; [|apply xobs_held_hk; [exact R|apply xbk_hk; apply xstep_bk; exact Hop]].
  assert (Hne : br <> r) by congruence.
  assert (Set1 : forall w1 hb, xinr w -> xhk w w1 -> xobs_held (xsetheld w1 br hb) r = xobs_held w r).
  { intros w1 hb _ Hb. rewrite <- (xobs_held_hk w w1 r R Hb). unfold xobs_held, xsetheld. cbn [xw_held xw_bufs].
    rewrite imap_get_set. apply Nat.eqb_neq in Hne. rewrite Hne. reflexivity. }
  destruct op; try discriminate; cbn [xstep]; simpl in Hop; inversion Hop; subst.
  - destruct (xeval false a w h) as [[[w1 t] c]|] eqn:E; [|reflexivity].
    destruct (xval w1 t); try reflexivity.
    pose proof (xballoc_bk w1 (xdata w1 src)) as H2. destruct (xballoc w1 (xdata w1 src)) as [w2 b]. cbn [fst] in *.
    apply Set1; [exact R|]. apply xbk_hk. eapply xbk_trans; [eapply xeval_bk; eauto|exact H2].
  - destruct (negb (Nat.eqb a 0)); [reflexivity|].
    destruct (imap_get (xw_held w) br) as [hb|] eqn:E; [|reflexivity].
    destruct (xh_given hb); [reflexivity|]. destruct (xh_opaque hb); [reflexivity|].
    destruct (Nat.ltb pos (length (nth (xh_buf hb) (xw_bufs w) []))); [|reflexivity]. cbn [fst].
    unfold xobs_held, xbset. cbn [xw_held xw_bufs]. destruct (imap_get (xw_held w) r) as [h'|] eqn:E'; [|reflexivity].
    rewrite nth_set_nth_ne; [reflexivity|]. intros Hb. apply Hne. apply (xb_inj w B br r hb h' E E' Hb).
  - destruct (xeval false a w h) as [[[w1 t] c]|] eqn:E; [|reflexivity].
    destruct (xval w1 t); try reflexivity.
    destruct (imap_get (xw_held w1) br) as [hb|]; [|reflexivity].
    destruct (xshared w1 a t || xh_given hb || xh_opaque hb); [reflexivity|]. cbn [fst].
    apply Set1; [exact R|]. destruct (xbk_hk _ _ (xeval_bk _ _ _ _ _ _ _ E)) as [Hh Hp].
    split; unfold xsetval; destruct (xget w1 t); auto.
  - destruct (xalive w a); [|reflexivity].
    pose proof (xballoc_bk w []) as H2. destruct (xballoc w []) as [w2 b]. cbn [fst] in *.
    apply Set1; [exact R|apply xbk_hk; exact H2].
Qed.

(* ================================================================== the two clauses the seeded changes broke, spelled out *)

(* ~QPDF of one document leaves every direct value it shares with other documents / with variables of the program
   as it was (BaseHandle::disconnect only detaches direct objects) *)
Lemma hx_destroy_keeps_shared_values_lemma : forall (w : hxworld) (a p : nat),
  xwf w -> xsep_b w = true -> p <> a -> xobs (fst (xstep a w XoDestroy)) p = xobs w p.
Proof. intros. apply hx_frame_other_parties_lemma; auto. Qed.

(* the program may write into any Buffer the library handed to it: no document changes *)
Lemma hx_mutate_handed_out_buffer_frame_lemma : forall (w : hxworld) (br pos : nat) (byte : N) (p : nat),
  xwf w -> xsep_b w = true -> p <> O -> xobs (fst (xstep O w (XoMutate br pos byte))) p = xobs w p.
Proof. intros. apply hx_frame_other_parties_lemma; auto. Qed.

(* ================================================================== non-vacuity (computed) *)
Definition xex_templates : list (nat * xop) :=
  [(0%nat, XoParse 1 (XtArr [XtInt 0; XtInt 0; XtInt 612; XtInt 792]));
   (1%nat, XoNewDoc); (2%nat, XoNewDoc);
   (1%nat, XoParse 11 (XtDict [(65, XtName 75)])); (1%nat, XoMakeInd (XhRoot 11, []));
   (1%nat, XoInsert (XhRoot 11, []) (XwKey 66) (XhRoot 1, []));
   (2%nat, XoParse 21 (XtDict [(65, XtName 75)])); (2%nat, XoMakeInd (XhRoot 21, []));
   (2%nat, XoInsert (XhRoot 21, []) (XwKey 66) (XhRoot 1, []))].
Definition xex_world (h : list (nat * xop)) : hxworld := snd (xrun_hist xworld0 h).

(* the template /MediaBox is part of documents 1 and 2 and of the program's variable; document 1 dies; what a caller
   sees of document 2 and of the variable is not empty and stays as it was *)
Lemma hx_shared_template_example_lemma :
  xsep_b (xex_world xex_templates) = true /\
  xobs (xex_world xex_templates) 2 <> ([], []) /\
  existsb (fun l => xmem l (xparty_cells (xex_world xex_templates) 1)) (xparty_cells (xex_world xex_templates) 2) = true /\
  xobs (fst (xstep 1 (xex_world xex_templates) XoDestroy)) 2 = xobs (xex_world xex_templates) 2 /\
  xobs (fst (xstep 1 (xex_world xex_templates) XoDestroy)) 0 = xobs (xex_world xex_templates) 0.
Proof. vm_compute. repeat split; try reflexivity. discriminate. Qed.

Definition xex_copy : list (nat * xop) :=
  [(1%nat, XoNewDoc); (2%nat, XoNewDoc);
   (1%nat, XoNewStream 11 [104; 105]);
   (2%nat, XoCopy 1 (XhRoot 11, []) 21);
   (2%nat, XoGetData (XhRoot 21, []) 0)].

(* Stream::copy_data_to as it is: the stream of document 1 and its copy in document 2 read from the SAME Buffer,
   which is why handing that Buffer out would let the caller rewrite both; the Buffer in the program's variable is a
   third one, and writing into it changes neither document *)
Lemma hx_copy_shares_buffer_example_lemma :
  (exists d1 d2 b hb, xval (xex_world xex_copy) 5 = XStream d1 (XsBuf b) /\ xval (xex_world xex_copy) 7 = XStream d2 (XsBuf b) /\
                      imap_get (xw_held (xex_world xex_copy)) 0 = Some hb /\ xh_buf hb <> b) /\
  xobs (fst (xstep 0 (xex_world xex_copy) (XoMutate 0 0 72))) 1 = xobs (xex_world xex_copy) 1 /\
  xobs (fst (xstep 0 (xex_world xex_copy) (XoMutate 0 0 72))) 2 = xobs (xex_world xex_copy) 2 /\
  xobs_held (fst (xstep 0 (xex_world xex_copy) (XoMutate 0 0 72))) 0 <> xobs_held (xex_world xex_copy) 0.
Proof.
  split; [|vm_compute; repeat split; try reflexivity; discriminate].
  vm_compute. eexists _, _, _, _. repeat split; try reflexivity. discriminate.
Qed.
