(* C18 unbounded refinement, part D: iterator moves (increment / decrement, from a valid position
   and from end()). *)
From Coq Require Import Sorting.Sorted.
From QV Require Import Base.Bytes Struct.NNTreeModel Struct.NNTreeSpec Struct.C18Proofs Struct.C18ProofsC
  Struct.C18InvA Struct.C18InvB Struct.C18InvC.
Local Open Scope Z_scope.

Lemma count_fill : forall fr (a : node), (S (nn_count Z a) <= nn_count Z (fill fr a))%nat.
Proof.
  intros [l L R] a. unfold fill. cbn [nn_count fr_L fr_R fr_lim]. apply le_n_S.
  induction L as [|x L IH]; simpl; lia.
Qed.
Lemma count_plug : forall fs (a : node), (length fs + nn_count Z a <= nn_count Z (plug a fs))%nat.
Proof.
  induction fs as [|fr fs IH]; intros a; simpl; [lia|]. specialize (IH (fill fr a)).
  pose proof (count_fill fr a). lia.
Qed.
Lemma count_pos : forall (a : node), (1 <= nn_count Z a)%nat.
Proof. intros [? ?|? ?]; simpl; lia. Qed.

Lemma root_ok_sibs : forall a fs, root_ok (plug a fs) -> sibs_ok fs.
Proof.
  intros a fs H. destruct fs as [|fr fs]; [constructor|].
  apply plug_ok_iff in H; [|discriminate]. tauto.
Qed.

Lemma st_with_iter_twice : forall (s : zst) p i q j, st_with_iter Z (st_with_iter Z s p i) q j = st_with_iter Z s q j.
Proof. reflexivity. Qed.

(* ------------------------------------------------------------------ the pop-and-descend loop *)
Lemma next_leaf_fwd : forall fs (a : node) (s : zst) fuel, st_root Z s = plug a fs -> sibs_ok fs ->
  (length fs < fuel)%nat ->
  exists path item, nn_next_leaf Z fuel false (rzpath fs) s = st_with_iter Z s path item /\
    (zpost fs = [] -> item = -1) /\
    (forall e' B', zpost fs = e' :: B' -> at_pos (st_root Z s) path item (zpre fs ++ zabs a) e' B').
Proof.
  induction fs as [|fr fs IH]; intros a s fuel Hr Hs Hf.
  - destruct fuel as [|fu]; [simpl in Hf; lia|]. exists [], (-1). cbn [nn_next_leaf rzpath map].
    split; [reflexivity|]. split; [reflexivity|]. intros e' B' H. discriminate.
  - destruct fuel as [|fu]; [simpl in Hf; lia|]. destruct fr as [lim L R].
    cbn [rzpath map nn_next_leaf]. fold (rzpath fs). rewrite rev'_rzpath.
    cbn [plug] in Hr. rewrite Hr, get_plug. unfold fill at 1. unfold fidx. cbn [fr_lim fr_L fr_R].
    inversion Hs as [|? ? [HL HR] Hs']; subst. cbn [fr_L fr_R] in HL, HR.
    destruct R as [|k R'].
    + rewrite c18_znth_beyond by (rewrite c18_zlen_app, c18_zlen_cons, c18_zlen_nil; lia).
      destruct (IH (fill (Fr lim L []) a) s fu Hr Hs' ltac:(simpl in Hf; lia)) as (path & item & Hn & H1 & H2).
      exists path, item. split; [exact Hn|]. cbn [zpost zpre fr_L fr_R flat_map]. split; [exact H1|].
      intros e' B' HB. specialize (H2 e' B' HB). rewrite Hr in H2. rewrite abs_fill in H2. cbn [fr_L fr_R flat_map] in H2.
      rewrite app_nil_r in H2. rewrite <- app_assoc. exact H2.
    + assert (Hz : nn_znth (L ++ a :: k :: R') (nn_zlen L + 1) = Some k).
      { replace (L ++ a :: k :: R') with ((L ++ [a]) ++ k :: R') by (rewrite <- app_assoc; reflexivity).
        replace (nn_zlen L + 1) with (nn_zlen (L ++ [a])) by (rewrite c18_zlen_app, c18_zlen_cons, c18_zlen_nil; lia).
        apply c18_znth_mid. }
      rewrite Hz. inversion HR as [|? ? Hk HR']; subst.
      destruct (sub_ok_abs _ Hk) as [Hkne _].
      destruct (deepen_ok true false (rev' ((nn_zlen L + 1) :: rzpath fs))
                  (st_with_iter Z s (rev' ((nn_zlen L + 1) :: rzpath fs)) (-1)) k (sub_ok_kids _ Hk) Hkne
                  (nn_height Z k) ((nn_zlen L + 1) :: rzpath fs) (le_n _))
        as (gs & item & A & e & B & Hd & Hp & ->).
      cbn [negb]. rewrite Hd. rewrite st_with_iter_twice.
      exists (rev' (rzpath gs ++ (nn_zlen L + 1) :: rzpath fs)), item. split; [reflexivity|].
      pose proof (at_pos_abs _ _ _ _ _ _ Hp) as Hka. simpl in Hka.
      cbn [zpost zpre fr_L fr_R flat_map]. rewrite Hka. split; [discriminate|].
      intros e' B' HB. simpl in HB. injection HB as <- <-.
      pose proof (at_pos_plug k (zpath gs) item [] e B (Fr lim (L ++ [a]) R' :: fs) Hp) as X.
      assert (Hroot : plug k (Fr lim (L ++ [a]) R' :: fs) = plug (fill (Fr lim L (k :: R')) a) fs).
      { cbn [plug]. unfold fill. cbn [fr_lim fr_L fr_R]. rewrite <- app_assoc. reflexivity. }
      rewrite Hroot in X.
      assert (Hpath : zpath (Fr lim (L ++ [a]) R' :: fs) ++ zpath gs = rev' (rzpath gs ++ (nn_zlen L + 1) :: rzpath fs)).
      { rewrite rev'_rev, rev_app_distr. cbn [rev]. unfold zpath. cbn [rzpath map]. unfold fidx. cbn [fr_L].
        rewrite c18_zlen_app, c18_zlen_cons, c18_zlen_nil. replace (nn_zlen L + (1 + 0)) with (nn_zlen L + 1) by lia.
        reflexivity. }
      rewrite Hpath in X. eapply at_pos_eq; [exact X| |].
      * cbn [zpre fr_L]. rewrite flat_map_app. cbn [flat_map]. rewrite !app_nil_r, app_assoc. reflexivity.
      * cbn [zpost fr_R]. rewrite app_assoc. reflexivity.
Qed.

Lemma next_leaf_bwd : forall fs (a : node) (s : zst) fuel, st_root Z s = plug a fs -> sibs_ok fs ->
  (length fs < fuel)%nat ->
  exists path item, nn_next_leaf Z fuel true (rzpath fs) s = st_with_iter Z s path item /\
    (zpre fs = [] -> item = -1) /\
    (forall A' e', zpre fs = A' ++ [e'] -> at_pos (st_root Z s) path item A' e' (zabs a ++ zpost fs)).
Proof.
  induction fs as [|fr fs IH]; intros a s fuel Hr Hs Hf.
  - destruct fuel as [|fu]; [simpl in Hf; lia|]. exists [], (-1). cbn [nn_next_leaf rzpath map].
    split; [reflexivity|]. split; [reflexivity|]. intros A' e' H. destruct A'; discriminate.
  - destruct fuel as [|fu]; [simpl in Hf; lia|]. destruct fr as [lim L R].
    cbn [rzpath map nn_next_leaf]. fold (rzpath fs). rewrite rev'_rzpath.
    cbn [plug] in Hr. rewrite Hr, get_plug. unfold fill at 1. unfold fidx. cbn [fr_lim fr_L fr_R].
    inversion Hs as [|? ? [HL HR] Hs']; subst. cbn [fr_L fr_R] in HL, HR.
    destruct (c18_last_or_nil L) as [->|(L' & k & ->)].
    + rewrite c18_znth_neg by (rewrite c18_zlen_nil; lia).
      destruct (IH (fill (Fr lim [] R) a) s fu Hr Hs' ltac:(simpl in Hf; lia)) as (path & item & Hn & H1 & H2).
      exists path, item. split; [exact Hn|]. cbn [zpost zpre fr_L fr_R flat_map]. rewrite app_nil_r. split; [exact H1|].
      intros A' e' HA. specialize (H2 A' e' HA). rewrite Hr in H2. rewrite abs_fill in H2. cbn [fr_L fr_R flat_map app] in H2.
      rewrite <- app_assoc in H2. exact H2.
    + assert (Hz : nn_znth ((L' ++ [k]) ++ a :: R) (nn_zlen (L' ++ [k]) - 1) = Some k).
      { rewrite <- app_assoc. simpl app. rewrite c18_zlen_app, c18_zlen_cons, c18_zlen_nil.
        replace (nn_zlen L' + (1 + 0) - 1) with (nn_zlen L') by lia. apply c18_znth_mid. }
      rewrite Hz. rewrite Forall_app in HL. destruct HL as [HL' Hk']. inversion Hk' as [|? ? Hk _]; subst.
      destruct (sub_ok_abs _ Hk) as [Hkne _].
      destruct (deepen_ok false false (rev' ((nn_zlen (L' ++ [k]) - 1) :: rzpath fs))
                  (st_with_iter Z s (rev' ((nn_zlen (L' ++ [k]) - 1) :: rzpath fs)) (-1)) k (sub_ok_kids _ Hk) Hkne
                  (nn_height Z k) ((nn_zlen (L' ++ [k]) - 1) :: rzpath fs) (le_n _))
        as (gs & item & A & e & B & Hd & Hp & ->).
      cbn [negb]. rewrite Hd. rewrite st_with_iter_twice.
      exists (rev' (rzpath gs ++ (nn_zlen (L' ++ [k]) - 1) :: rzpath fs)), item. split; [reflexivity|].
      pose proof (at_pos_abs _ _ _ _ _ _ Hp) as Hka.
      cbn [zpost zpre fr_L fr_R]. rewrite flat_map_app. cbn [flat_map]. rewrite Hka, app_nil_r.
      split; [intros H; repeat (apply app_eq_nil in H; destruct H as [_ H]); discriminate|].
      intros A' e' HA. rewrite !app_assoc in HA. apply app_inj_tail in HA. destruct HA as [<- <-].
      pose proof (at_pos_plug k (zpath gs) item A e [] (Fr lim L' (a :: R) :: fs) Hp) as X.
      assert (Hroot : plug k (Fr lim L' (a :: R) :: fs) = plug (fill (Fr lim (L' ++ [k]) R) a) fs).
      { cbn [plug]. unfold fill. cbn [fr_lim fr_L fr_R]. rewrite <- app_assoc. reflexivity. }
      rewrite Hroot in X.
      assert (Hpath : zpath (Fr lim L' (a :: R) :: fs) ++ zpath gs = rev' (rzpath gs ++ (nn_zlen (L' ++ [k]) - 1) :: rzpath fs)).
      { rewrite rev'_rev, rev_app_distr. cbn [rev]. unfold zpath. cbn [rzpath map]. unfold fidx. cbn [fr_L].
        rewrite c18_zlen_app, c18_zlen_cons, c18_zlen_nil. replace (nn_zlen L' + (1 + 0) - 1) with (nn_zlen L') by lia.
        reflexivity. }
      rewrite Hpath in X. eapply at_pos_eq; [exact X| |].
      * cbn [zpre fr_L]. reflexivity.
      * cbn [zpost fr_R flat_map app]. rewrite <- app_assoc. reflexivity.
Qed.

(* ------------------------------------------------------------------ ++ / -- *)
Lemma c18_skipn_nth {A} (l : list A) (n : nat) (x : A) : nth_error l n = Some x -> skipn n l = x :: skipn (S n) l.
Proof.
  revert n. induction l as [|y l IH]; intros [|n] H; simpl in *; try discriminate.
  - injection H as ->. reflexivity.
  - apply IH. exact H.
Qed.
Lemma c18_firstn_S_nth {A} (l : list A) (n : nat) (x : A) : nth_error l n = Some x -> firstn (S n) l = firstn n l ++ [x].
Proof.
  revert n. induction l as [|y l IH]; intros [|n] H; simpl in *; try discriminate.
  - injection H as ->. reflexivity.
  - f_equal. apply IH. exact H.
Qed.
Lemma c18_nth_lt {A} (l : list A) (n : nat) (x : A) : nth_error l n = Some x -> (n < length l)%nat.
Proof. intros H. apply nth_error_Some. congruence. Qed.

Lemma increment_fwd : forall (s : zst) A e B, root_ok (st_root Z s) ->
  at_pos (st_root Z s) (st_path Z s) (st_item Z s) A e B ->
  exists path item, nn_increment Z false s = st_with_iter Z s path item /\
    (B = [] -> item = -1) /\
    (forall e' B', B = e' :: B' -> at_pos (st_root Z s) path item (A ++ [e]) e' B').
Proof.
  intros s A e B Hok (fs & l & items & Hr & Hp & Hi & Hn & -> & ->).
  unfold nn_increment. replace (st_item Z s <? 0) with false by (symmetry; apply Z.ltb_ge; lia).
  unfold nn_leaf_items. rewrite Hr, Hp, get_plug. cbv zeta.
  pose proof (c18_nth_lt _ _ _ Hn) as Hlt. set (n := Z.to_nat (st_item Z s)) in *.
  destruct ((st_item Z s + 1 <? 0) || (nn_zlen items <=? st_item Z s + 1)) eqn:Ec.
  - apply orb_true_iff in Ec. destruct Ec as [Ec|Ec]; [apply Z.ltb_lt in Ec; lia|]. apply Z.leb_le in Ec.
    unfold nn_zlen in Ec. assert (Hlen : S n = length items) by lia.
    rewrite rev'_zpath.
    assert (Hsibs : sibs_ok fs) by (apply (root_ok_sibs (NLeaf l items)); rewrite <- Hr; exact Hok).
    destruct (next_leaf_fwd fs (NLeaf l items) (st_with_iter Z s (zpath fs) (-1))
                (2 * nn_count Z (plug (NLeaf l items) fs) + 2) Hr Hsibs) as (path & item & Hnl & H1 & H2).
    { pose proof (count_plug fs (NLeaf l items)). lia. }
    exists path, item. rewrite Hnl. split; [reflexivity|].
    rewrite skipn_all2 by lia. cbn [app]. split; [exact H1|].
    intros e' B' HB. specialize (H2 e' B' HB). cbn [st_root st_with_iter] in H2. rewrite <- Hr.
    eapply at_pos_eq; [exact H2| |reflexivity].
    cbn [nn_abs]. rewrite <- app_assoc. f_equal. rewrite <- (c18_firstn_S_nth _ _ _ Hn).
    symmetry. apply firstn_all2. lia.
  - apply orb_false_iff in Ec. destruct Ec as [_ Ec]. apply Z.leb_gt in Ec. unfold nn_zlen in Ec.
    assert (Hn1 : Z.to_nat (st_item Z s + 1) = S n) by (unfold n; lia).
    destruct (nth_error items (S n)) as [x|] eqn:Ex; [|apply nth_error_None in Ex; lia].
    exists (zpath fs), (st_item Z s + 1). split; [reflexivity|].
    rewrite (c18_skipn_nth _ _ _ Ex). cbn [app]. split; [discriminate|].
    intros e' B' HB. injection HB as <- <-.
    exists fs, l, items. rewrite Hn1. repeat split; try assumption; try lia.
    rewrite <- app_assoc. f_equal. symmetry. apply c18_firstn_S_nth. exact Hn.
Qed.

Lemma increment_bwd : forall (s : zst) A e B, root_ok (st_root Z s) ->
  at_pos (st_root Z s) (st_path Z s) (st_item Z s) A e B ->
  exists path item, nn_increment Z true s = st_with_iter Z s path item /\
    (A = [] -> item = -1) /\
    (forall A' e', A = A' ++ [e'] -> at_pos (st_root Z s) path item A' e' (e :: B)).
Proof.
  intros s A e B Hok (fs & l & items & Hr & Hp & Hi & Hn & -> & ->).
  unfold nn_increment. replace (st_item Z s <? 0) with false by (symmetry; apply Z.ltb_ge; lia).
  unfold nn_leaf_items. rewrite Hr, Hp, get_plug. cbv zeta.
  pose proof (c18_nth_lt _ _ _ Hn) as Hlt. set (n := Z.to_nat (st_item Z s)) in *.
  destruct ((st_item Z s - 1 <? 0) || (nn_zlen items <=? st_item Z s - 1)) eqn:Ec.
  - apply orb_true_iff in Ec. destruct Ec as [Ec|Ec]; [apply Z.ltb_lt in Ec|apply Z.leb_le in Ec; unfold nn_zlen in Ec; lia].
    assert (Hn0 : n = 0%nat) by (unfold n; lia). rewrite Hn0 in *.
    rewrite rev'_zpath.
    assert (Hsibs : sibs_ok fs) by (apply (root_ok_sibs (NLeaf l items)); rewrite <- Hr; exact Hok).
    destruct (next_leaf_bwd fs (NLeaf l items) (st_with_iter Z s (zpath fs) (-1))
                (2 * nn_count Z (plug (NLeaf l items) fs) + 2) Hr Hsibs) as (path & item & Hnl & H1 & H2).
    { pose proof (count_plug fs (NLeaf l items)). lia. }
    exists path, item. rewrite Hnl. split; [reflexivity|].
    cbn [firstn]. rewrite app_nil_r. split; [exact H1|].
    intros A' e' HA. specialize (H2 A' e' HA). cbn [st_root st_with_iter] in H2. rewrite <- Hr.
    eapply at_pos_eq; [exact H2|reflexivity|].
    cbn [nn_abs]. pose proof (c18_skipn_nth _ _ _ Hn) as Hsk. change (skipn 0 items) with items in Hsk.
    rewrite Hsk at 1. reflexivity.
  - apply orb_false_iff in Ec. destruct Ec as [Ec _]. apply Z.ltb_ge in Ec.
    destruct n as [|n'] eqn:En; [unfold n in En; lia|].
    assert (Hn1 : Z.to_nat (st_item Z s - 1) = n') by (unfold n in En; lia).
    destruct (nth_error items n') as [x|] eqn:Ex; [|apply nth_error_None in Ex; lia].
    exists (zpath fs), (st_item Z s - 1). split; [reflexivity|].
    rewrite (c18_firstn_S_nth _ _ _ Ex). split; [intros H; apply app_eq_nil in H; destruct H as [_ H]; destruct (firstn n' items); discriminate|].
    intros A' e' HA. rewrite app_assoc in HA. apply app_inj_tail in HA. destruct HA as [<- <-].
    exists fs, l, items. rewrite Hn1. repeat split; try assumption; try lia.
    rewrite (c18_skipn_nth _ _ _ Hn). reflexivity.
Qed.

Lemma increment_end : forall backward t (s : zst), tree_inv t (st_root Z s) -> st_item Z s < 0 ->
  (zabs (st_root Z s) = [] /\ nn_increment Z backward s = st_with_iter Z s [] (-1)) \/
  (exists path item A e B, nn_increment Z backward s = st_with_iter Z s path item /\
     at_pos (st_root Z s) path item A e B /\ (if backward then B = [] else A = [])).
Proof.
  intros backward t s Hinv Hi. unfold nn_increment. apply Z.ltb_lt in Hi. rewrite Hi.
  destruct (deepen_root_ok (negb backward) t (st_with_iter Z s [] (st_item Z s)) Hinv eq_refl)
    as [[He Hd]|(path & item & A & e & B & Hd & Hp & HAB)]; rewrite Hd; cbn [snd].
  - left. split; [exact He|reflexivity].
  - right. exists path, item, A, e, B. split; [reflexivity|]. split; [exact Hp|].
    destruct backward; exact HAB.
Qed.

(* ------------------------------------------------------------------ the simulation relation *)
(* model state s represents specification state m *)
Definition c18_cursor_rel (s : zst) (m : smst Z) : Prop :=
  (st_item Z s < 0 /\ sm_cur Z m = None) \/
  (exists A e B, at_pos (st_root Z s) (st_path Z s) (st_item Z s) A e B /\ sm_cur Z m = Some (fst e)).
Definition c18_rel (t : Z) (s : zst) (m : smst Z) : Prop :=
  tree_inv t (st_root Z s) /\ sm_map Z m = zabs (st_root Z s) /\ sm_unspec Z m = false /\ c18_cursor_rel s m.

(* one call: same result, relation kept, no warning *)
Definition c18_step_ok (t : Z) (op : nnop Z) (s : zst) (m : smst Z) : Prop :=
  fst (nn_step Z nn_zcmp t op s) = fst (sm_step Z nn_zcmp op m) /\
  c18_rel t (snd (nn_step Z nn_zcmp t op s)) (snd (sm_step Z nn_zcmp op m)) /\
  st_warn Z (snd (nn_step Z nn_zcmp t op s)) = st_warn Z s.

Lemma tree_inv_root_ok : forall t root, tree_inv t root -> root_ok root.
Proof. intros t root H. split; [apply (ti_nolim _ _ H)|apply (ti_kids _ _ H)]. Qed.

(* the iterator after a move that keeps the tree *)
Lemma c18_goto_ok : forall t (s : zst) (m : smst Z) path item (r : option (Z * Z)),
  c18_rel t s m ->
  (r = None /\ item = -1 \/ exists A e B, r = Some e /\ at_pos (st_root Z s) path item A e B) ->
  RIter (nn_cur Z (st_with_iter Z s path item)) = RIter r /\
  c18_rel t (st_with_iter Z s path item) (SmSt Z (sm_map Z m) (option_map fst r) (sm_unspec Z m)).
Proof.
  intros t s m path item r (Hinv & Hmap & Hun & _) Hr.
  destruct Hr as [[-> ->]|(A & e & B & -> & Hp)].
  - split; [reflexivity|]. split; [exact Hinv|]. split; [exact Hmap|]. split; [exact Hun|].
    left. split; [cbn; lia|reflexivity].
  - rewrite (at_pos_cur (st_with_iter Z s path item) A e B Hp). split; [reflexivity|].
    split; [exact Hinv|]. split; [exact Hmap|]. split; [exact Hun|].
    right. exists A, e, B. split; [exact Hp|reflexivity].
Qed.

(* M4: begin / last / end / ++ / -- from any state related to a sorted-map state (valid tree of any size and
   depth, iterator on an entry or at end()): same result, relation kept, no warning *)
Lemma nn_iter_refines_lemma : forall (t : Z) (s : nnst Z) (m : smst Z) (op : nnop Z),
  c18_rel t s m -> In op [OpBegin; OpLast; OpEnd; OpNext; OpPrev] -> c18_step_ok t op s m.
Proof.
  intros t s m op Hrel Hop. pose proof Hrel as (Hinv & Hmap & Hun & Hcur).
  pose proof (ti_sorted _ _ Hinv) as Hsorted.
  assert (Hgoto : forall path item r s',
            s' = st_with_iter Z s path item ->
            (r = None /\ item = -1 \/ exists A e B, r = Some e /\ at_pos (st_root Z s) path item A e B) ->
            fst (RIter (nn_cur Z s'), s') = fst (RIter r, SmSt Z (sm_map Z m) (option_map fst r) (sm_unspec Z m)) /\
            c18_rel t (snd (RIter (nn_cur Z s'), s')) (snd (RIter r, SmSt Z (sm_map Z m) (option_map fst r) (sm_unspec Z m))) /\
            st_warn Z (snd (RIter (nn_cur Z s'), s')) = st_warn Z s).
  { intros path item r s' -> Hr. destruct (c18_goto_ok t s m path item r Hrel Hr) as [H1 H2].
    split; [exact H1|]. split; [exact H2|reflexivity]. }
  unfold c18_step_ok.
  destruct Hop as [<-|[<-|[<-|[<-|[<-|[]]]]]].
  - (* begin *)
    change (nn_step Z nn_zcmp t OpBegin s) with (RIter (nn_cur Z (nn_begin Z s)), nn_begin Z s).
    change (sm_step Z nn_zcmp OpBegin m) with
      (RIter (sm_first Z (sm_map Z m)), SmSt Z (sm_map Z m) (option_map fst (sm_first Z (sm_map Z m))) (sm_unspec Z m)).
    destruct (begin_ok t s Hinv) as [[He Hb]|(path & item & e & B & Hb & Hp)].
    + apply (Hgoto [] (-1)); [exact Hb|]. left. rewrite Hmap, He. split; reflexivity.
    + apply (Hgoto path item); [exact Hb|]. right. exists [], e, B.
      rewrite Hmap, (at_pos_abs _ _ _ _ _ _ Hp). split; [reflexivity|exact Hp].
  - (* last *)
    change (nn_step Z nn_zcmp t OpLast s) with (RIter (nn_cur Z (nn_last Z s)), nn_last Z s).
    change (sm_step Z nn_zcmp OpLast m) with
      (RIter (sm_last Z (sm_map Z m)), SmSt Z (sm_map Z m) (option_map fst (sm_last Z (sm_map Z m))) (sm_unspec Z m)).
    destruct (last_ok t s Hinv) as [[He Hb]|(path & item & A & e & Hb & Hp)].
    + apply (Hgoto [] (-1)); [exact Hb|]. left. rewrite Hmap, He. split; reflexivity.
    + apply (Hgoto path item); [exact Hb|]. right. exists A, e, [].
      rewrite Hmap, (at_pos_abs _ _ _ _ _ _ Hp), sm_last_snoc. split; [reflexivity|exact Hp].
  - (* end *)
    change (nn_step Z nn_zcmp t OpEnd s) with (RIter (nn_cur Z (nn_fresh Z s)), nn_fresh Z s).
    change (sm_step Z nn_zcmp OpEnd m) with
      (@RIter Z None, SmSt Z (sm_map Z m) (option_map fst (@None (Z * Z))) (sm_unspec Z m)).
    apply (Hgoto [] (-1)); [reflexivity|]. left. split; reflexivity.
  - (* ++ *)
    change (nn_step Z nn_zcmp t OpNext s) with (RIter (nn_cur Z (nn_increment Z false s)), nn_increment Z false s).
    destruct Hcur as [[Hi Hc]|(A & e & B & Hp & Hc)].
    + replace (sm_step Z nn_zcmp OpNext m) with
        (RIter (sm_first Z (sm_map Z m)), SmSt Z (sm_map Z m) (option_map fst (sm_first Z (sm_map Z m))) (sm_unspec Z m))
        by (unfold sm_step; rewrite Hc; reflexivity).
      destruct (increment_end false t s Hinv Hi) as [[He Hb]|(path & item & A & e & B & Hb & Hp & ->)].
      * apply (Hgoto [] (-1)); [exact Hb|]. left. rewrite Hmap, He. split; reflexivity.
      * apply (Hgoto path item); [exact Hb|]. right. exists [], e, B.
        rewrite Hmap, (at_pos_abs _ _ _ _ _ _ Hp). split; [reflexivity|exact Hp].
    + replace (sm_step Z nn_zcmp OpNext m) with
        (RIter (sm_succ Z nn_zcmp (fst e) (sm_map Z m)),
         SmSt Z (sm_map Z m) (option_map fst (sm_succ Z nn_zcmp (fst e) (sm_map Z m))) (sm_unspec Z m))
        by (unfold sm_step; rewrite Hc; reflexivity).
      pose proof (at_pos_abs _ _ _ _ _ _ Hp) as Hab. rewrite Hab in Hsorted.
      assert (Hsucc : sm_succ Z nn_zcmp (fst e) (sm_map Z m) = hd_error B)
        by (rewrite Hmap, Hab; apply sm_succ_mid; exact Hsorted).
      rewrite Hsucc.
      destruct (increment_fwd s A e B (tree_inv_root_ok _ _ Hinv) Hp) as (path & item & Hb & H1 & H2).
      apply (Hgoto path item); [exact Hb|].
      destruct B as [|e' B']; [left; split; [reflexivity|apply H1; reflexivity]|].
      right. exists (A ++ [e]), e', B'. split; [reflexivity|apply H2; reflexivity].
  - (* -- *)
    change (nn_step Z nn_zcmp t OpPrev s) with (RIter (nn_cur Z (nn_increment Z true s)), nn_increment Z true s).
    destruct Hcur as [[Hi Hc]|(A & e & B & Hp & Hc)].
    + replace (sm_step Z nn_zcmp OpPrev m) with
        (RIter (sm_last Z (sm_map Z m)), SmSt Z (sm_map Z m) (option_map fst (sm_last Z (sm_map Z m))) (sm_unspec Z m))
        by (unfold sm_step; rewrite Hc; reflexivity).
      destruct (increment_end true t s Hinv Hi) as [[He Hb]|(path & item & A & e & B & Hb & Hp & ->)].
      * apply (Hgoto [] (-1)); [exact Hb|]. left. rewrite Hmap, He. split; reflexivity.
      * apply (Hgoto path item); [exact Hb|]. right. exists A, e, [].
        rewrite Hmap, (at_pos_abs _ _ _ _ _ _ Hp), sm_last_snoc. split; [reflexivity|exact Hp].
    + replace (sm_step Z nn_zcmp OpPrev m) with
        (RIter (sm_pred Z nn_zcmp (fst e) (sm_map Z m)),
         SmSt Z (sm_map Z m) (option_map fst (sm_pred Z nn_zcmp (fst e) (sm_map Z m))) (sm_unspec Z m))
        by (unfold sm_step; rewrite Hc; reflexivity).
      pose proof (at_pos_abs _ _ _ _ _ _ Hp) as Hab. rewrite Hab in Hsorted.
      assert (Hpred : sm_pred Z nn_zcmp (fst e) (sm_map Z m) = hd_error (rev A))
        by (rewrite Hmap, Hab; apply sm_pred_mid; exact Hsorted).
      rewrite Hpred.
      destruct (increment_bwd s A e B (tree_inv_root_ok _ _ Hinv) Hp) as (path & item & Hb & H1 & H2).
      apply (Hgoto path item); [exact Hb|].
      destruct (c18_last_or_nil A) as [->|(A' & e' & ->)]; [left; split; [reflexivity|apply H1; reflexivity]|].
      right. exists A', e', (e :: B). rewrite rev_app_distr. split; [reflexivity|apply H2; reflexivity].
Qed.
