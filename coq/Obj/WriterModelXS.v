(* Model of QPDFWriter's object-stream / cross-reference-stream layout: the mode
     qpdf --static-id --object-streams=generate --compress-streams=n --decode-level=none in.pdf out.pdf
   (not linearized, not QDF, not encrypted, stream data preserved; object streams and the xref stream are
   written unfiltered). Written from libqpdf/QPDF_objects.cc (Objects::compressible) and libqpdf/QPDFWriter.cc
   (generateObjectStreams, doWriteSetup, enqueue, assignCompressedObjectNumbers, enqueueObjectsStandard,
   writeStandard, writeObject, writeObjectStream, writeObjectStreamOffsets, writeXRefStream, writeTrailer,
   setMinimumPDFVersion / parseVersion / compareVersions). Reuses the document type and the printers of
   Obj/WriterModel.v. No proofs here. *)
From QV Require Import Base.Bytes Obj.Queue File.WriterArith Obj.WriterModel.
Local Open Scope N_scope.

(* ---------------------------------------------------------------------------------------------------
   Objects::compressible<QPDFObjGen>: depth-first walk from the trailer with an explicit stack
   (std::vector used as a stack; the children of a container are pushed in reverse so that the first one is
   popped first; an indirect object is marked visited when it is popped). *)

Definition xs_k_Type : list N := [84; 121; 112; 101].
Definition xs_k_Sig : list N := [83; 105; 103].
Definition xs_k_ByteRange : list N := [66; 121; 116; 101; 82; 97; 110; 103; 101].
Definition xs_k_Contents : list N := [67; 111; 110; 116; 101; 110; 116; 115].

Definition xs_null_ind : indirect := {| i_val := ONull; i_stream := None |}.

(* after fixDanglingReferences an id that is referred to but not defined is a null object *)
Definition xs_lookup (objs : list (N * indirect)) (id : N) : indirect :=
  match find_obj objs id with Some i => i | None => xs_null_ind end.

Definition xs_dict_get (d : list (list N * obj)) (k : list N) : obj :=
  match find (fun kv => beqb (fst kv) k) d with Some (_, v) => v | None => ONull end.

(* obj.isDictionaryOfType("/Sig") && obj.hasKey("/ByteRange") && obj.hasKey("/Contents"):
   the Name(...) conversion of the /Type value resolves an indirect value; hasKey = the value is not null *)
Definition xs_is_sig (objs : list (N * indirect)) (o : obj) : bool :=
  match o with
  | ODict d =>
      (match xs_dict_get d xs_k_Type with
       | OName n => beqb n xs_k_Sig
       | ORef id => match i_val (xs_lookup objs id), i_stream (xs_lookup objs id) with
                    | OName n, None => beqb n xs_k_Sig
                    | _, _ => false
                    end
       | _ => false
       end)
      && negb (is_null_val objs (xs_dict_get d xs_k_ByteRange))
      && negb (is_null_val objs (xs_dict_get d xs_k_Contents))
  | _ => false
  end.

(* not allowed in an object stream: streams and signature dictionaries (the encryption dictionary does not
   exist in this mode) *)
Definition xs_excluded (objs : list (N * indirect)) (i : indirect) : bool :=
  match i_stream i with
  | Some _ => true
  | None => xs_is_sig objs (i_val i)
  end.

(* what the walk pushes for one popped object, in pop order *)
Definition xs_walk_children (objs : list (N * indirect)) (i : indirect) : list obj :=
  match i_stream i with
  | Some _ =>
      match i_val i with
      | ODict d => flat_map (fun kv => if is_null_val objs (snd kv) || beqb (fst kv) k_Length then [] else [snd kv]) d
      | _ => []
      end
  | None =>
      match i_val i with
      | ODict d => flat_map (fun kv => if is_null_val objs (snd kv) then [] else [snd kv]) d
      | OArr l => l
      | _ => []
      end
  end.

Fixpoint xs_walk (fuel : nat) (objs : list (N * indirect)) (stack : list obj) (visited : list N) (res_rev : list N)
  : list N :=
  match fuel with
  | O => rev' res_rev
  | S f =>
      match stack with
      | [] => rev' res_rev
      | ORef id :: st =>
          if existsb (N.eqb id) visited then xs_walk f objs st visited res_rev
          else
            let i := xs_lookup objs id in
            xs_walk f objs (xs_walk_children objs i ++ st) (id :: visited)
                    (if xs_excluded objs i then res_rev else id :: res_rev)
      | o :: st =>
          xs_walk f objs (xs_walk_children objs {| i_val := o; i_stream := None |} ++ st) visited res_rev
      end
  end.

(* number of value nodes: every push of the walk is one node of the trailer or of an object that is expanded once *)
Fixpoint xs_nodes (o : obj) : nat :=
  match o with
  | OArr l => S (fold_right (fun x acc => xs_nodes x + acc)%nat O l)
  | ODict d => S (fold_right (fun kv acc => xs_nodes (snd kv) + acc)%nat O d)
  | _ => 1%nat
  end.

Definition xs_walk_fuel (d : doc) : nat :=
  S (xs_nodes (ODict (d_trailer d)) + fold_right (fun kv acc => xs_nodes (i_val (snd kv)) + acc)%nat O (d_objects d)).

(* the trimmed trailer stands for the trailer: the keys trimmed_trailer() removes carry no indirect reference
   in the documents of this model (/ID is an array of two direct strings) *)
Definition xs_eligible (d : doc) : list N :=
  xs_walk (xs_walk_fuel d) (d_objects d) [ODict (d_trailer d)] [] [].

(* ---------------------------------------------------------------------------------------------------
   generateObjectStreams + the reverse mapping of doWriteSetup *)

(* the i-th eligible object goes to stream i / n_per: (id, stream index) *)
Fixpoint xs_assign (ids : list N) (n_per : N) (n : N) (cur : N) : list (N * N) :=
  match ids with
  | [] => []
  | id :: t =>
      let '(n1, cur1) := if n =? n_per then (0, cur + 1) else (n, cur) in
      (id, cur1) :: xs_assign t n_per (n1 + 1) cur1
  end.

Fixpoint xs_insert (x : N) (l : list N) : list N :=
  match l with
  | [] => [x]
  | h :: t => if x <=? h then x :: l else h :: xs_insert x t
  end.
Definition xs_sort (l : list N) : list N := fold_right xs_insert [] l.

(* object_stream_to_objects[k]: obj.forEach visits the old ids in increasing order *)
Definition xs_group (asg : list (N * N)) (k : N) : list N :=
  xs_sort (map fst (filter (fun p => snd p =? k) asg)).

Record xs_plan := {
  xs_asg : list (N * N);              (* old id -> stream index (obj[id].object_stream) *)
  xs_nstreams : N;
  xs_groups : list (list N);          (* members of stream 0, 1, ... in increasing old id *)
  xs_max_index : N                    (* max_ostream_index *)
}.

Definition xs_make_plan (d : doc) : xs_plan :=
  let el := xs_eligible d in
  let k := N.of_nat (length el) in
  let ns := n_object_streams k in
  let asg := xs_assign el (n_per_stream k) 0 0 in
  let groups := map (fun j => xs_group asg (N.of_nat j)) (seq 0 (N.to_nat ns)) in
  {| xs_asg := asg; xs_nstreams := ns; xs_groups := groups;
     (* max_ostream_index is incremented whenever a vector outgrows it, then decremented once: largest size - 1 *)
     xs_max_index := fold_left (fun m g => N.max m (N.of_nat (length g))) groups 0 - 1 |}.

Definition xs_members (p : xs_plan) (k : N) : list N := nth (N.to_nat k) (xs_groups p) [].

(* ---------------------------------------------------------------------------------------------------
   enqueue / assignCompressedObjectNumbers / the queue loop of writeStandard *)

Inductive xs_item := XsObj (id : N) | XsStm (k : N).

Record xs_qstate := {
  xs_queue : list xs_item;
  xs_ren : list (N * N);            (* obj[id].renumber *)
  xs_sren : list (N * N);           (* renumber of the placeholder object of stream k *)
  xs_next : N;                      (* next_objid *)
  xs_written_rev : list xs_item }.

(* for (auto const& iter: object_stream_to_objects[objid]) obj[iter].renumber = next_objid++; *)
Fixpoint xs_number_members (ms : list N) (next : N) (ren : list (N * N)) : list (N * N) * N :=
  match ms with
  | [] => (ren, next)
  | m :: t => xs_number_members t (next + 1) ((m, next) :: ren)
  end.

(* enqueue(indirect object). An object that already has a number is left alone. A member of an object stream
   enqueues the stream's placeholder, which takes the next number and reserves the following ones for all its
   members. (In the C++ a member of a stream that was already numbered would keep renumber = -1; that state is
   unreachable because numbering a stream numbers every member: xs_members_numbered in the proofs.) *)
Definition xs_enqueue (p : xs_plan) (s : xs_qstate) (x : N) : xs_qstate :=
  match lookup_num (xs_ren s) x with
  | Some _ => s
  | None =>
      match lookup_num (xs_asg p) x with
      | Some k =>
          match lookup_num (xs_sren s) k with
          | Some _ => s
          | None =>
              let '(ren', next') := xs_number_members (xs_members p k) (xs_next s + 1) (xs_ren s) in
              {| xs_queue := xs_queue s ++ [XsStm k]; xs_ren := ren'; xs_sren := (k, xs_next s) :: xs_sren s;
                 xs_next := next'; xs_written_rev := xs_written_rev s |}
          end
      | None =>
          {| xs_queue := xs_queue s ++ [XsObj x]; xs_ren := (x, xs_next s) :: xs_ren s; xs_sren := xs_sren s;
             xs_next := xs_next s + 1; xs_written_rev := xs_written_rev s |}
      end
  end.

(* the references printed while an item is written, in print order (each is enqueued just before it is printed) *)
Definition xs_item_children (g : graph) (p : xs_plan) (it : xs_item) : list N :=
  match it with
  | XsObj id => children g id
  | XsStm k => flat_map (children g) (xs_members p k)
  end.

Fixpoint xs_q_loop (fuel : nat) (g : graph) (p : xs_plan) (s : xs_qstate) : xs_qstate :=
  match fuel with
  | O => s
  | S f =>
      match xs_queue s with
      | [] => s
      | it :: rest =>
          let s1 := {| xs_queue := rest; xs_ren := xs_ren s; xs_sren := xs_sren s; xs_next := xs_next s;
                       xs_written_rev := it :: xs_written_rev s |} in
          xs_q_loop f g p (fold_left (xs_enqueue p) (xs_item_children g p it) s1)
      end
  end.

Definition xs_run_queue (d : doc) (p : xs_plan) : xs_qstate :=
  xs_q_loop (S (length (d_objects d) + N.to_nat (xs_nstreams p))) (graph_of d) p
            (fold_left (xs_enqueue p) (roots_of d)
                       {| xs_queue := []; xs_ren := []; xs_sren := []; xs_next := 1; xs_written_rev := [] |}).

(* ---------------------------------------------------------------------------------------------------
   bytes *)

Inductive xs_xent := XsFree | XsOff (off : N) | XsIn (stm idx : N).     (* QPDFXRefEntry type 0 / 1 / 2 *)

Definition xs_s_objstm_open : list N :=       (* "<< /Type /ObjStm /Length " *)
  [60; 60; 32; 47; 84; 121; 112; 101; 32; 47; 79; 98; 106; 83; 116; 109; 32; 47; 76; 101; 110; 103; 116; 104; 32].
Definition xs_s_N : list N := [32; 47; 78; 32].                                   (* " /N " *)
Definition xs_s_First : list N := [32; 47; 70; 105; 114; 115; 116; 32].           (* " /First " *)
Definition xs_s_dict_stream : list N := [32; 62; 62; 10; 115; 116; 114; 101; 97; 109; 10].   (* " >>\nstream\n" *)
Definition xs_s_endstream : list N := [101; 110; 100; 115; 116; 114; 101; 97; 109].
Definition xs_s_xref_open : list N :=         (* "<< /Type /XRef /Length " *)
  [60; 60; 32; 47; 84; 121; 112; 101; 32; 47; 88; 82; 101; 102; 32; 47; 76; 101; 110; 103; 116; 104; 32].
Definition xs_s_W : list N := [32; 47; 87; 32; 91; 32; 49; 32].                   (* " /W [ 1 " *)
Definition xs_s_stream : list N := [10; 115; 116; 114; 101; 97; 109; 10].         (* "\nstream\n" *)
Definition xs_s_nl_endstream : list N := [10; 101; 110; 100; 115; 116; 114; 101; 97; 109].
Definition xs_s_startxref : list N := [115; 116; 97; 114; 116; 120; 114; 101; 102; 10].
Definition xs_s_eof : list N := [10; 37; 37; 69; 79; 70; 10].

(* writeObjectStreamOffsets: "id off id off ... \n", the id printed from a decimal string that is incremented *)
Fixpoint xs_pairs (num : N) (offs : list N) : list (list N) :=
  match offs with
  | [] => []
  | o :: t => (dec_of_N num ++ [32] ++ dec_of_N o) :: xs_pairs (num + 1) t
  end.
Definition xs_join_sp (l : list (list N)) : list N :=
  match l with
  | [] => []
  | h :: t => h ++ flat_map (fun x => 32 :: x) t
  end.
Definition xs_ostm_header (first_num : N) (offs : list N) : list N := xs_join_sp (xs_pairs first_num offs) ++ [10].

(* offsets.push_back(pipeline->getCount()) before each member, relative to the first *)
Fixpoint xs_rel_offsets (bodies : list (list N)) (pos : N) : list N :=
  match bodies with
  | [] => []
  | b :: t => pos :: xs_rel_offsets t (pos + N.of_nat (length b))
  end.

(* setMinimumPDFVersion("1.5") then setMinimumPDFVersion(input version): parseVersion / compareVersions *)
Fixpoint xs_digits (s : list N) : list N :=
  match s with
  | c :: t => if is_digit c then c :: xs_digits t else []
  | [] => []
  end.
Fixpoint xs_after_dot (s : list N) : list N :=
  match s with
  | c :: t => if c =? 46 then t else xs_after_dot t
  | [] => []
  end.
Definition xs_version (v : list N) : list N :=
  let major := dec_value (xs_digits v) in
  let minor := dec_value (xs_digits (xs_after_dot v)) in
  if (1 <? major) || ((major =? 1) && (5 <? minor)) then v else [49; 46; 53].

Section XsPrinters.
  Variable unparse_str : list N -> list N.
  Variable unparse_name : list N -> list N.

  Section XsEmit.
    Variable objs : list (N * indirect).
    Variable p : xs_plan.
    Variable ren : N -> N.            (* final obj[id].renumber *)
    Variable sren : N -> N.           (* final number of stream k *)

    (* writeObject(obj, count) inside an object stream: unparseObject(object, 0, f_in_ostream); write("\n") *)
    Definition xs_member_body (m : N) : list N :=
      unparse unparse_str unparse_name objs ren (i_val (xs_lookup objs m)) ++ [10].

    Definition xs_ostm_data (k : N) : list N :=
      let ms := xs_members p k in
      let bodies := map xs_member_body ms in
      xs_ostm_header (ren (hd 0 ms)) (xs_rel_offsets bodies 0) ++ concat bodies.

    Definition xs_ostm_first (k : N) : N :=
      let ms := xs_members p k in
      N.of_nat (length (xs_ostm_header (ren (hd 0 ms)) (xs_rel_offsets (map xs_member_body ms) 0))).

    (* writeObjectStream *)
    Definition xs_ostm_object (k : N) : list N :=
      let data := xs_ostm_data k in
      obj_header (sren k)
      ++ xs_s_objstm_open ++ dec_of_N (N.of_nat (length data))
      ++ xs_s_N ++ dec_of_N (N.of_nat (length (xs_members p k)))
      ++ xs_s_First ++ dec_of_N (xs_ostm_first k)
      ++ xs_s_dict_stream ++ data ++ xs_s_endstream ++ s_endobj.

    Definition xs_chunk (it : xs_item) : list N :=
      match it with
      | XsObj id => emit_object unparse_str unparse_name objs ren (ren id) (xs_lookup objs id)
      | XsStm k => xs_ostm_object k
      end.

    Fixpoint xs_index_entries (stm : N) (ms : list N) (idx : N) : list (N * xs_xent) :=
      match ms with
      | [] => []
      | m :: t => (ren m, XsIn stm idx) :: xs_index_entries stm t (idx + 1)
      end.

    (* new_obj[..].xref as set by openObject / writeObjectStream *)
    Definition xs_item_entries (it : xs_item) (pos : N) : list (N * xs_xent) :=
      match it with
      | XsObj id => [(ren id, XsOff pos)]
      | XsStm k => xs_index_entries (sren k) (xs_members p k) 0 ++ [(sren k, XsOff pos)]
      end.

    Fixpoint xs_emit (items : list xs_item) (pos : N) : list N * list (N * xs_xent) * N :=
      match items with
      | [] => ([], [], pos)
      | it :: rest =>
          let c := xs_chunk it in
          let '(bytes, tab, endpos) := xs_emit rest (pos + N.of_nat (length c)) in
          (c ++ bytes, xs_item_entries it pos ++ tab, endpos)
      end.
  End XsEmit.

  Fixpoint xs_lookup_ent (tab : list (N * xs_xent)) (n : N) : xs_xent :=
    match tab with
    | [] => XsFree                      (* default QPDFXRefEntry: type 0 *)
    | (k, e) :: t => if k =? n then e else xs_lookup_ent t n
    end.

  (* one entry of writeXRefStream *)
  Definition xs_enc_entry (f1 f2 : nat) (e : xs_xent) : list N :=
    match e with
    | XsFree => write_binary 0 1 ++ write_binary 0 f1 ++ write_binary 0 f2
    | XsOff off => write_binary 1 1 ++ write_binary off f1 ++ write_binary 0 f2
    | XsIn stm idx => write_binary 2 1 ++ write_binary stm f1 ++ write_binary idx f2
    end.

  Record xs_layout := {
    xs_l_plan : xs_plan;
    xs_l_items : list xs_item;
    xs_l_ren : N -> N;
    xs_l_sren : N -> N;
    xs_l_hdr : list N;
    xs_l_bodies : list N;
    xs_l_table : list (N * xs_xent);     (* entries of the objects 1 .. xref_id - 1 as recorded while writing *)
    xs_l_xref_id : N;
    xs_l_xref_off : N;
    xs_l_f1 : N; xs_l_f2 : N;
    xs_l_entries : list xs_xent          (* entries 0 .. xref_id in the order they are written *)
  }.

  Definition xs_layout_of (d : doc) : xs_layout :=
    let p := xs_make_plan d in
    let q := xs_run_queue d p in
    let items := rev' (xs_written_rev q) in
    let ren := fun x => match lookup_num (xs_ren q) x with Some n => n | None => 0 end in
    let sren := fun k => match lookup_num (xs_sren q) k with Some n => n | None => 0 end in
    let hdr := header (xs_version (d_version d)) in
    let '(bodies, tab, pos) := xs_emit (d_objects d) p ren sren items (N.of_nat (length hdr)) in
    let xref_id := xs_next q in
    let f1 := f1_size pos 0 xref_id in
    let f2 := bytes_needed (xs_max_index p) in
    {| xs_l_plan := p; xs_l_items := items; xs_l_ren := ren; xs_l_sren := sren; xs_l_hdr := hdr; xs_l_bodies := bodies;
       xs_l_table := tab; xs_l_xref_id := xref_id; xs_l_xref_off := pos; xs_l_f1 := f1; xs_l_f2 := f2;
       xs_l_entries := XsFree :: map (fun j => xs_lookup_ent tab (N.of_nat j)) (seq 1 (N.to_nat xref_id - 1))
                       ++ [XsOff pos] |}.

  (* writeXRefStream + writeTrailer(xref_stream = true) + startxref *)
  Definition xs_xref_object (d : doc) (L : xs_layout) : list N :=
    let f1 := N.to_nat (xs_l_f1 L) in
    let f2 := N.to_nat (xs_l_f2 L) in
    let data := flat_map (xs_enc_entry f1 f2) (xs_l_entries L) in
    obj_header (xs_l_xref_id L)
    ++ xs_s_xref_open ++ dec_of_N (N.of_nat (length data))
    ++ xs_s_W ++ dec_of_N (xs_l_f1 L) ++ [32] ++ dec_of_N (xs_l_f2 L) ++ [32; 93]
    ++ flat_map (fun kv =>
                   if is_null_val (d_objects d) (snd kv) then [] else
                   sp ++ unparse_name (fst kv) ++ sp ++
                   (if beqb (fst kv) k_Size then dec_of_N (xs_l_xref_id L + 1)
                    else unparse unparse_str unparse_name (d_objects d) (xs_l_ren L) (snd kv)))
                (d_trailer d)
    ++ [32; 47; 73; 68; 32; 91] ++ hexstr (d_id1 d) ++ hexstr (d_id2 d) ++ [93]
    ++ [32; 62; 62]
    ++ xs_s_stream ++ data ++ xs_s_nl_endstream ++ s_endobj.

  (* no eligible object: obj.streams_empty, the writer falls back to the plain layout *)
  Definition xs_write_doc (d : doc) : list N :=
    match xs_eligible d with
    | [] => write_doc unparse_str unparse_name d
    | _ =>
        let L := xs_layout_of d in
        xs_l_hdr L ++ xs_l_bodies L ++ xs_xref_object d L
        ++ xs_s_startxref ++ dec_of_N (xs_l_xref_off L) ++ xs_s_eof
    end.
End XsPrinters.
