(* C19 - specification of the page-selection table (--pages ... -- / "pages": [...]), independently of any front end.
   Written from the manual (manual/cli.rst, "Page Selection"; manual/qpdf-job.rst, table "QPDFJob Interfaces"):

        qpdf in.pdf --pages --file=input-file [--range=page-range] [--password=password] [...] -- out.pdf
     OR qpdf in.pdf --pages input-file [--password=password] [page-range] [...] -- out.pdf

     "For compatibility, the file and range can be specified positionally. ... In the older syntax, repeat the following:
        filename [--password=password] [page-range]"         "The page range may be omitted. If omitted, all pages are included."
     "You can use . as a shorthand for the primary input file"

   A page specification is (file, optional password, optional range); a job's page selection is a list of them; its denotation is
   the list of Config calls of the third column (config()->pages()->file(f)->password(p)->range(r)->...->endPages()).
   The positional grammar has no marker that tells a page range from the next file name: a word after a file name is that file's
   page range when it IS a page range (Struct/RangeSpec.v: the page-range grammar of the manual, with the page count unknown);
   otherwise it is the next file name and the preceding range was omitted - and then it has to be '.' or a file that exists, which
   is the only place where the meaning of a command line depends on what lies in the working directory.
   pgs_positional_ok says when the positional words of a page selection read back as that selection.  No proofs here. *)
From Coq Require Import String.
From Coq Require Import List NArith ZArith Bool.
From QV Require Import Base.Bytes Sys.JobTypes Sys.JobSpec Struct.RangeSpec.
Import ListNotations.
Open Scope N_scope.

Record pgspec := mk_pgspec { pgs_file : bstr; pgs_password : option bstr; pgs_range : option bstr }.

(* ---- third column *)
Definition pgs_opt_call (meth : bstr) (v : option bstr) : list cfg_call :=
  match v with Some x => [CCall B"c_pages" meth [x]] | None => [] end.
Definition pgs_calls (p : pgspec) : list cfg_call :=
  CCall B"c_pages" B"file" [pgs_file p] :: pgs_opt_call B"password" (pgs_password p) ++ pgs_opt_call B"range" (pgs_range p).
Definition pages_denote (l : list pgspec) : list cfg_call :=
  CCall B"c_main" B"pages" [] :: flat_map pgs_calls l ++ [CCall B"c_pages" B"endPages" []].

(* ---- first column: command-line words, in the positional and in the named spelling *)
Definition pgs_opt_word (flag : bstr) (v : option bstr) : list bstr :=
  match v with Some x => [B"--" ++ flag ++ 61 :: x] | None => [] end.
Definition pgs_words_positional (p : pgspec) : list bstr :=
  pgs_file p :: pgs_opt_word B"password" (pgs_password p) ++ match pgs_range p with Some r => [r] | None => [] end.
Definition pgs_words_named (p : pgspec) : list bstr :=
  (B"--file=" ++ pgs_file p) :: pgs_opt_word B"password" (pgs_password p) ++ pgs_opt_word B"range" (pgs_range p).
Definition pages_argv (named : bool) (l : list pgspec) : list bstr :=
  B"--pages" :: flat_map (if named then pgs_words_named else pgs_words_positional) l ++ [B"--"].

(* ---- second column: the member "pages" of the job object; keys of one specification in byte order *)
Definition pgs_opt_member (k : bstr) (v : option bstr) : list (bstr * jjv) :=
  match v with Some x => [(k, JJStr x)] | None => [] end.
Definition pgs_json (p : pgspec) : jjv :=
  JJObj ((B"file", JJStr (pgs_file p)) :: pgs_opt_member B"password" (pgs_password p) ++ pgs_opt_member B"range" (pgs_range p)).
Definition pages_json (l : list pgspec) : bstr * jjv := (B"pages", JJArr (map pgs_json l)).

(* ---- when the positional words denote the selection *)
(* the word is a page range as far as the command line can tell (the page count of the file is not known yet) *)
Definition is_page_range (w : bstr) : bool := match range_spec w 0%Z with Some _ => true | None => false end.

Definition pgs_has_range (p : pgspec) : bool := match pgs_range p with Some _ => true | None => false end.

(* files: the names that exist in the working directory.  first: no file name has been given yet; prev_range: the previous
   specification had its range given (so the next word can only be a file name) *)
Fixpoint pgs_positional_ok (files : list bstr) (first prev_range : bool) (l : list pgspec) : bool :=
  match l with
  | [] => true
  | p :: r =>
      positional_word (pgs_file p) &&
      (first || prev_range ||
       (* the preceding range was omitted: the word must not be a page range, and must name '.' or an existing file *)
       (negb (is_page_range (pgs_file p)) && (bstr_eqb (pgs_file p) B"." || bmem (pgs_file p) files))) &&
      match pgs_range p with Some x => positional_word x && is_page_range x | None => true end &&
      pgs_positional_ok files false (pgs_has_range p) r
  end.

(* a page selection whose positional words denote it whatever the working directory contains *)
Definition pgs_directory_independent (l : list pgspec) : bool := pgs_positional_ok [] true false l.
