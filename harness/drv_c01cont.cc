// C01 container driver: the real qpdf reads a small file from memory (no recovery: what the reader itself does is observed)
// and reports, in the text form of ocaml/h_c01cont.ml,
//   c1c_get <level> <filehex> <objnum>   Stream::getStreamData(level) of a stream object of that file
//   c1c_read <filehex> <objnum>          the value qpdf sees for an object (a member of an object stream, or any object of a
//                                        file whose cross-reference stream uses the filters under test), and the warnings
// The model side is coq/Obj/C01Container.v (c1c_run_get / c1c_run_objstm / c1c_run_xref).
#include "drv.hh"
#include <qpdf/QPDF.hh>
#include <qpdf/QPDFExc.hh>
#include <qpdf/QPDFObjectHandle.hh>
#include <qpdf/Buffer.hh>

static bool c1c_has(std::string const& s, char const* sub) { return s.find(sub) != std::string::npos; }

static std::string c1c_warnings(QPDF& q)
{
    int n = 0;
    bool decode = false;
    for (auto const& w: q.getWarnings()) {
        ++n;
        if (c1c_has(w.what(), "error decoding stream data")) decode = true;
    }
    return " w=" + std::to_string(n) + (decode ? " decode-error" : "");
}

static Reg r_get("c1c_get", [](std::vector<std::string> const& a) -> std::string {
    if (a.size() != 3) return "?args";
    int level = std::stoi(a[0]);
    std::string file = unhex(a[1]);
    int num = std::stoi(a[2]);
    QPDF q;
    q.setSuppressWarnings(true);
    q.setAttemptRecovery(false);
    try {
        q.processMemoryFile("c1c", file.data(), file.size());
    } catch (std::exception const& e) {
        return std::string("?file ") + e.what();
    }
    auto o = q.getObjectByID(num, 0);
    if (!o.isStream()) return "?not-a-stream";
    try {
        auto b = o.getStreamData(static_cast<qpdf_stream_decode_level_e>(level));
        return "data " + hex(std::string(reinterpret_cast<char const*>(b->getBuffer()), b->getSize()));
    } catch (QPDFExc const& e) {
        if (c1c_has(e.what(), "unfilterable")) {
            for (auto const& w: q.getWarnings())
                if (c1c_has(w.what(), "error decoding stream data")) return "error";
            return "unfilterable";
        }
        return std::string("qpdfexc ") + hex(e.what());
    } catch (std::exception const& e) {
        return "throw";
    }
});

static Reg r_read("c1c_read", [](std::vector<std::string> const& a) -> std::string {
    if (a.size() != 2) return "?args";
    std::string file = unhex(a[0]);
    int num = std::stoi(a[1]);
    QPDF q;
    q.setSuppressWarnings(true);
    q.setAttemptRecovery(false);
    try {
        q.processMemoryFile("c1c", file.data(), file.size());
    } catch (std::exception const& e) {
        return std::string("refused") + c1c_warnings(q);
    }
    try {
        auto o = q.getObjectByID(num, 0);
        std::string v = o.unparseResolved();
        return "val " + hex(v) + c1c_warnings(q);
    } catch (std::exception const& e) {
        return std::string("exc") + c1c_warnings(q);
    }
});
