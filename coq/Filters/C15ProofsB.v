(* Proofs for C15 (filters), part B. Statements are fixed; Props/Properties_C15.v re-exports them. *)
From QV Require Import Base.Bytes Filters.Filters Filters.FilterSpec.
From Coq Require Import Lia.
Local Open Scope N_scope.

Definition bytes_ok (d : list N) : Prop := Forall (fun b => b < 256) d.

Lemma bytes_ok_cons_inv : forall a t, bytes_ok (a :: t) -> a < 256 /\ bytes_ok t.
Proof. intros a t H. inversion H; subst. split; assumption. Qed.

Lemma small_sweep (n : nat) (P : N -> bool) :
  forallb P (map N.of_nat (seq 0 n)) = true -> forall b, b < N.of_nat n -> P b = true.
Proof.
  intros H b Hb. rewrite forallb_forall in H. apply H.
  apply in_map_iff. exists (N.to_nat b). split; [apply N2Nat.id|]. apply in_seq. lia.
Qed.

(* ================= chunking ================= *)

(* ---------- chunking: PNG ---------- *)
Definition png_sinv (enc : bool) (p : png_params) (s : png_st) : Prop :=
  (length (png_cur s) < png_incoming enc p)%nat.

Lemma png_loop_fuel : forall enc p f1 f2 data s,
  (length data < f1)%nat -> (length data < f2)%nat -> png_sinv enc p s ->
  png_write_loop f1 enc p s data = png_write_loop f2 enc p s data.
Proof.
  intros enc p. induction f1 as [|f1 IH]; intros f2 data s H1 H2 Hs; [lia|].
  destruct f2 as [|f2]; [lia|].
  cbn [png_write_loop]. cbv zeta. unfold png_sinv in Hs.
  destruct (Nat.leb (png_incoming enc p - length (png_cur s)) (length data)) eqn:E; [|reflexivity].
  apply Nat.leb_le in E.
  destruct (png_process enc p _ (png_prev s)) as [out buf].
  rewrite (IH f2); [reflexivity| | |].
  - rewrite skipn_length. lia.
  - rewrite skipn_length. lia.
  - unfold png_sinv. cbn [png_cur length]. lia.
Qed.

Lemma png_loop_inv : forall enc p f data s,
  png_sinv enc p s -> png_sinv enc p (fst (png_write_loop f enc p s data)).
Proof.
  intros enc p. induction f as [|f IH]; intros data s Hs; [exact Hs|].
  cbn [png_write_loop]. cbv zeta. unfold png_sinv in Hs.
  destruct (Nat.leb (png_incoming enc p - length (png_cur s)) (length data)) eqn:E.
  - destruct (png_process enc p _ (png_prev s)) as [out buf].
    match goal with |- context [png_write_loop f enc p ?s1 ?d1] =>
      pose proof (IH d1 s1) as H; destruct (png_write_loop f enc p s1 d1) as [s' o'] end.
    cbn [fst] in *. apply H. unfold png_sinv. cbn [png_cur length]. lia.
  - apply Nat.leb_gt in E. unfold png_sinv. cbn [fst png_cur]. rewrite app_length. lia.
Qed.

Lemma png_loop_app : forall enc p f1 f2 f a b s,
  (length a < f1)%nat -> (length b < f2)%nat -> (length a + length b < f)%nat -> png_sinv enc p s ->
  png_write_loop f enc p s (a ++ b) =
  let '(s1, o1) := png_write_loop f1 enc p s a in
  let '(s2, o2) := png_write_loop f2 enc p s1 b in (s2, o1 ++ o2).
Proof.
  intros enc p. induction f1 as [|f1 IH]; intros f2 f a b s H1 H2 H3 Hs; [lia|].
  destruct f as [|f]; [lia|].
  cbn [png_write_loop]. cbv zeta. unfold png_sinv in Hs.
  set (left := (png_incoming enc p - length (png_cur s))%nat) in *.
  destruct (Nat.leb left (length a)) eqn:Ea.
  - apply Nat.leb_le in Ea.
    assert (Eab : Nat.leb left (length (a ++ b)) = true) by (apply Nat.leb_le; rewrite app_length; lia).
    rewrite Eab.
    rewrite firstn_app, skipn_app.
    replace (left - length a)%nat with 0%nat by lia. cbn [firstn skipn]. rewrite app_nil_r.
    destruct (png_process enc p _ (png_prev s)) as [out buf].
    rewrite (IH f2 f (skipn left a) b).
    + destruct (png_write_loop f1 enc p _ (skipn left a)) as [s1 o1].
      destruct (png_write_loop f2 enc p s1 b) as [s2 o2]. rewrite app_assoc. reflexivity.
    + rewrite skipn_length. lia.
    + exact H2.
    + rewrite skipn_length. lia.
    + unfold png_sinv. cbn [png_cur length]. lia.
  - apply Nat.leb_gt in Ea.
    destruct f2 as [|f2]; [lia|].
    cbn [png_write_loop]. cbv zeta. cbn [png_cur png_prev].
    replace (png_incoming enc p - length (png_cur s ++ a))%nat with (left - length a)%nat
      by (rewrite app_length; lia).
    destruct (Nat.leb left (length (a ++ b))) eqn:Eab.
    + apply Nat.leb_le in Eab. rewrite app_length in Eab.
      assert (Eb : Nat.leb (left - length a) (length b) = true) by (apply Nat.leb_le; lia).
      rewrite Eb. rewrite firstn_app, skipn_app.
      rewrite (firstn_all2 a) by lia. rewrite (skipn_all2 a) by lia. cbn [app].
      rewrite <- !(app_assoc (png_cur s) a).
      destruct (png_process enc p _ (png_prev s)) as [out buf].
      rewrite (png_loop_fuel enc p f f2).
      * destruct (png_write_loop f2 enc p _ _) as [s2 o2]. reflexivity.
      * rewrite skipn_length. lia.
      * rewrite skipn_length. lia.
      * unfold png_sinv. cbn [png_cur length]. lia.
    + apply Nat.leb_gt in Eab. rewrite app_length in Eab.
      assert (Eb : Nat.leb (left - length a) (length b) = false) by (apply Nat.leb_gt; lia).
      rewrite Eb. rewrite app_assoc. reflexivity.
Qed.

Lemma png_write_nil : forall enc p s, png_sinv enc p s -> png_write enc p s [] = (s, []).
Proof.
  intros enc p s Hs. unfold png_write. cbn [length png_write_loop]. cbv zeta. unfold png_sinv in Hs.
  replace (Nat.leb (png_incoming enc p - length (png_cur s)) 0) with false by (symmetry; apply Nat.leb_gt; lia).
  destruct s as [c pv]. cbn [png_cur png_prev]. rewrite app_nil_r. reflexivity.
Qed.

Lemma png_run_chunks_concat : forall enc p cs s, png_sinv enc p s ->
  png_run_chunks enc p s cs = png_write enc p s (concat cs).
Proof.
  intros enc p. induction cs as [|c cs IH]; intros s Hs.
  - cbn [png_run_chunks concat]. rewrite png_write_nil by exact Hs. reflexivity.
  - cbn [png_run_chunks concat]. unfold png_write at 2.
    rewrite (png_loop_app enc p (S (length c)) (S (length (concat cs)))); try lia; [|rewrite app_length; lia|exact Hs].
    unfold png_write at 1.
    pose proof (png_loop_inv enc p (S (length c)) c s Hs) as Hs1.
    destruct (png_write_loop (S (length c)) enc p s c) as [s1 o1]. cbn [fst] in Hs1.
    rewrite (IH s1 Hs1). unfold png_write. reflexivity.
Qed.

Lemma chunking_png_lemma : forall enc p cs, (0 < png_bpr p)%nat ->
  png_run enc p cs = png_run enc p [concat cs].
Proof.
  intros enc p cs Hp. unfold png_run.
  assert (Hs : png_sinv enc p (png_init p)).
  { unfold png_sinv, png_init, png_incoming. cbn [png_cur length]. destruct enc; lia. }
  rewrite !png_run_chunks_concat by exact Hs.
  cbn [concat]. rewrite app_nil_r. reflexivity.
Qed.

(* ---------- chunking: TIFF ---------- *)
Lemma tiff_loop_fuel : forall enc p f1 f2 data cur,
  (length data < f1)%nat -> (length data < f2)%nat -> (length cur < tf_bpr p)%nat ->
  tiff_write_loop f1 enc p cur data = tiff_write_loop f2 enc p cur data.
Proof.
  intros enc p. induction f1 as [|f1 IH]; intros f2 data cur H1 H2 Hs; [lia|].
  destruct f2 as [|f2]; [lia|].
  cbn [tiff_write_loop]. cbv zeta.
  destruct (Nat.leb (tf_bpr p - length cur) (length data)) eqn:E; [|reflexivity].
  apply Nat.leb_le in E.
  destruct (tiff_process enc p _) as [out|]; [|reflexivity].
  rewrite (IH f2); [reflexivity| | |].
  - rewrite skipn_length. lia.
  - rewrite skipn_length. lia.
  - cbn [length]. lia.
Qed.

Lemma tiff_loop_inv : forall enc p f data cur, (0 < tf_bpr p)%nat ->
  (length cur < tf_bpr p)%nat -> (length (fst (fst (tiff_write_loop f enc p cur data))) < tf_bpr p)%nat.
Proof.
  intros enc p. induction f as [|f IH]; intros data cur Hp Hs; [exact Hs|].
  cbn [tiff_write_loop]. cbv zeta.
  destruct (Nat.leb (tf_bpr p - length cur) (length data)) eqn:E.
  - destruct (tiff_process enc p _) as [out|]; [|exact Hp].
    match goal with |- context [tiff_write_loop f enc p ?c1 ?d1] =>
      pose proof (IH d1 c1 Hp) as H; destruct (tiff_write_loop f enc p c1 d1) as [[c' o'] e'] end.
    cbn [fst] in *. apply H. exact Hp.
  - apply Nat.leb_gt in E. cbn [fst]. rewrite app_length. lia.
Qed.

Lemma tiff_loop_app : forall enc p f1 f2 f a b cur,
  (length a < f1)%nat -> (length b < f2)%nat -> (length a + length b < f)%nat -> (length cur < tf_bpr p)%nat ->
  tiff_write_loop f enc p cur (a ++ b) =
  let '(c1, o1, e1) := tiff_write_loop f1 enc p cur a in
  if e1 then (c1, o1, true) else
  let '(c2, o2, e2) := tiff_write_loop f2 enc p c1 b in (c2, o1 ++ o2, e2).
Proof.
  intros enc p. induction f1 as [|f1 IH]; intros f2 f a b cur H1 H2 H3 Hs; [lia|].
  destruct f as [|f]; [lia|].
  cbn [tiff_write_loop]. cbv zeta.
  set (need := (tf_bpr p - length cur)%nat) in *.
  destruct (Nat.leb need (length a)) eqn:Ea.
  - apply Nat.leb_le in Ea.
    assert (Eab : Nat.leb need (length (a ++ b)) = true) by (apply Nat.leb_le; rewrite app_length; lia).
    rewrite Eab.
    rewrite firstn_app, skipn_app.
    replace (need - length a)%nat with 0%nat by lia. cbn [firstn skipn]. rewrite app_nil_r.
    destruct (tiff_process enc p _) as [out|]; [|reflexivity].
    rewrite (IH f2 f (skipn need a) b).
    + destruct (tiff_write_loop f1 enc p _ (skipn need a)) as [[c1 o1] e1].
      destruct e1; [reflexivity|].
      destruct (tiff_write_loop f2 enc p c1 b) as [[c2 o2] e2]. rewrite app_assoc. reflexivity.
    + rewrite skipn_length. lia.
    + exact H2.
    + rewrite skipn_length. lia.
    + cbn [length]. lia.
  - apply Nat.leb_gt in Ea.
    destruct f2 as [|f2]; [lia|].
    cbn [tiff_write_loop]. cbv zeta.
    replace (tf_bpr p - length (cur ++ a))%nat with (need - length a)%nat
      by (rewrite app_length; lia).
    destruct (Nat.leb need (length (a ++ b))) eqn:Eab.
    + apply Nat.leb_le in Eab. rewrite app_length in Eab.
      assert (Eb : Nat.leb (need - length a) (length b) = true) by (apply Nat.leb_le; lia).
      rewrite Eb. rewrite firstn_app, skipn_app.
      rewrite (firstn_all2 a) by lia. rewrite (skipn_all2 a) by lia. cbn [app].
      rewrite <- !(app_assoc cur a).
      destruct (tiff_process enc p _) as [out|]; [|reflexivity].
      rewrite (tiff_loop_fuel enc p f f2).
      * destruct (tiff_write_loop f2 enc p _ _) as [[c2 o2] e2]. reflexivity.
      * rewrite skipn_length. lia.
      * rewrite skipn_length. lia.
      * cbn [length]. lia.
    + apply Nat.leb_gt in Eab. rewrite app_length in Eab.
      assert (Eb : Nat.leb (need - length a) (length b) = false) by (apply Nat.leb_gt; lia).
      rewrite Eb. rewrite app_assoc. reflexivity.
Qed.

Lemma tiff_loop_nil : forall enc p cur, (length cur < tf_bpr p)%nat ->
  tiff_write_loop 1 enc p cur [] = (cur, [], false).
Proof.
  intros enc p cur Hs. cbn [length tiff_write_loop]. cbv zeta.
  replace (Nat.leb (tf_bpr p - length cur) 0) with false by (symmetry; apply Nat.leb_gt; lia).
  rewrite app_nil_r. reflexivity.
Qed.

Lemma tiff_run_chunks_concat : forall enc p cs cur, (0 < tf_bpr p)%nat -> (length cur < tf_bpr p)%nat ->
  tiff_run_chunks enc p cur cs = tiff_write_loop (S (length (concat cs))) enc p cur (concat cs).
Proof.
  intros enc p. induction cs as [|c cs IH]; intros cur Hp Hs.
  - cbn [tiff_run_chunks concat length]. rewrite tiff_loop_nil by exact Hs. reflexivity.
  - cbn [tiff_run_chunks concat].
    rewrite (tiff_loop_app enc p (S (length c)) (S (length (concat cs)))); try lia; [|rewrite app_length; lia].
    pose proof (tiff_loop_inv enc p (S (length c)) c cur Hp Hs) as Hs1.
    destruct (tiff_write_loop (S (length c)) enc p cur c) as [[c1 o1] e1]. cbn [fst] in Hs1.
    destruct e1; [reflexivity|].
    rewrite (IH c1 Hp Hs1). reflexivity.
Qed.

Lemma chunking_tiff_lemma : forall enc p cs, (0 < tf_bpr p)%nat ->
  tiff_run enc p cs = tiff_run enc p [concat cs].
Proof.
  intros enc p cs Hp. unfold tiff_run.
  rewrite !tiff_run_chunks_concat by (exact Hp || (cbn [length]; exact Hp)).
  cbn [concat]. rewrite app_nil_r. reflexivity.
Qed.
Ltac Zify.zify_post_hook ::= Z.to_euclidean_division_equations.

(* ================= PNG ================= *)
Definition rows_ok (p : png_params) (rows : list (N * list N)) : Prop :=
  Forall (fun r => length (snd r) = png_bpr p /\ bytes_ok (snd r) /\ fst r < 256) rows.

Lemma add8_sub8 : forall x q, x < 256 -> add8 (sub8 x q) q = x.
Proof. intros x q Hx. unfold add8, sub8. lia. Qed.
Lemma sub8_0 : forall x, x < 256 -> sub8 x 0 = x.
Proof. intros x Hx. unfold sub8. lia. Qed.

Lemma hd_skipn : forall (l : list N) i d, hd d (skipn i l) = nth i l d.
Proof. induction l as [|a l IH]; intros [|i] d; cbn [skipn hd nth]; try reflexivity. apply IH. Qed.
Lemma tl_skipn : forall (l : list N) i, tl (skipn i l) = skipn (S i) l.
Proof. induction l as [|a l IH]; intros [|i]; cbn [skipn tl]; try reflexivity. apply IH. Qed.
Lemma firstn_S_snoc : forall (l : list N) i d, (i < length l)%nat -> firstn (S i) l = firstn i l ++ [nth i l d].
Proof. induction l as [|a l IH]; intros i d Hi; cbn [length] in Hi; [lia|].
  destruct i as [|i]; [reflexivity|]. cbn [firstn nth app]. f_equal.
  rewrite <- IH by lia. reflexivity. Qed.
Lemma firstn_app_exact : forall (a b : list N) n, length a = n -> firstn n (a ++ b) = a.
Proof. intros a b n H. subst n. rewrite firstn_app, Nat.sub_diag, firstn_all. cbn [firstn]. apply app_nil_r. Qed.
Lemma skipn_app_exact : forall (a b : list N) n, length a = n -> skipn n (a ++ b) = b.
Proof. intros a b n H. subst n. rewrite skipn_app, Nat.sub_diag, skipn_all. reflexivity. Qed.

Lemma nth_rev_left : forall (l : list N) k,
  nth k (rev l) 0 = if Nat.ltb k (length l) then nth (length l - S k) l 0 else 0.
Proof.
  intros l k. destruct (Nat.ltb k (length l)) eqn:E.
  - apply Nat.ltb_lt in E. apply rev_nth. exact E.
  - apply Nat.ltb_ge in E. apply nth_overflow. rewrite rev_length. exact E.
Qed.

Definition png_filt (ft : N) (bpp : nat) (row prev : list N) (i : nat) : N :=
  sub8 (nth i row 0)
       (png_predict ft (if Nat.ltb i bpp then 0 else nth (i - bpp) row 0) (nth i prev 0)
                       (if Nat.ltb i bpp then 0 else nth (i - bpp) prev 0)).

Lemma png_unfilter_byte : forall ft x l u ul, x < 256 ->
  (if ft =? 1 then add8 (sub8 x (png_predict ft l u ul)) l
   else if ft =? 2 then add8 (sub8 x (png_predict ft l u ul)) u
   else if ft =? 3 then add8 (sub8 x (png_predict ft l u ul)) ((l + u) / 2)
   else if ft =? 4 then add8 (sub8 x (png_predict ft l u ul)) (paeth l u ul)
   else sub8 x (png_predict ft l u ul)) = x.
Proof.
  intros ft x l u ul Hx. unfold png_predict.
  destruct (ft =? 1); [apply add8_sub8, Hx|].
  destruct (ft =? 2); [apply add8_sub8, Hx|].
  destruct (ft =? 3); [apply add8_sub8, Hx|].
  destruct (ft =? 4); [apply add8_sub8, Hx|].
  apply sub8_0, Hx.
Qed.

Lemma png_decode_bytes_spec : forall ft bpp row prev, (0 < bpp)%nat -> length prev = length row -> bytes_ok row ->
  forall r2 r1, row = r1 ++ r2 ->
  png_decode_bytes ft bpp (map (png_filt ft bpp row prev) (seq (length r1) (length r2)))
    (skipn (length r1) prev) (rev r1) (rev (firstn (length r1) prev)) = row.
Proof.
  intros ft bpp row prev Hbpp Hlen Hrow.
  induction r2 as [|x r2 IH]; intros r1 E.
  - cbn [length seq map png_decode_bytes]. rewrite rev'_rev, rev_involutive. rewrite E, app_nil_r. reflexivity.
  - cbn [length seq map png_decode_bytes]. cbv zeta.
    set (i := length r1).
    assert (Hi : (i < length row)%nat) by (rewrite E, app_length; cbn [length]; subst i; lia).
    assert (Hx : nth i row 0 = x) by (rewrite E; subst i; rewrite app_nth2, Nat.sub_diag by lia; reflexivity).
    assert (Hxb : x < 256).
    { unfold bytes_ok in Hrow. rewrite Forall_forall in Hrow. apply Hrow. rewrite E. apply in_or_app. right. left. reflexivity. }
    rewrite hd_skipn, tl_skipn.
    assert (Hleft : nth (bpp - 1) (rev r1) 0 = if Nat.ltb i bpp then 0 else nth (i - bpp) row 0).
    { rewrite nth_rev_left. fold i. destruct (Nat.ltb i bpp) eqn:E1.
      - apply Nat.ltb_lt in E1. replace (Nat.ltb (bpp - 1) i) with false by (symmetry; apply Nat.ltb_ge; lia). reflexivity.
      - apply Nat.ltb_ge in E1. replace (Nat.ltb (bpp - 1) i) with true by (symmetry; apply Nat.ltb_lt; lia).
        rewrite E. rewrite app_nth1 by (fold i; lia). f_equal. lia. }
    assert (Hul : nth (bpp - 1) (rev (firstn i prev)) 0 = if Nat.ltb i bpp then 0 else nth (i - bpp) prev 0).
    { rewrite nth_rev_left. rewrite firstn_length, Nat.min_l by lia. destruct (Nat.ltb i bpp) eqn:E1.
      - apply Nat.ltb_lt in E1. replace (Nat.ltb (bpp - 1) i) with false by (symmetry; apply Nat.ltb_ge; lia). reflexivity.
      - apply Nat.ltb_ge in E1. replace (Nat.ltb (bpp - 1) i) with true by (symmetry; apply Nat.ltb_lt; lia).
        replace (i - S (bpp - 1))%nat with (i - bpp)%nat by lia.
        rewrite <- (firstn_skipn i prev) at 2. rewrite app_nth1 by (rewrite firstn_length; lia). reflexivity. }
    rewrite Hleft, Hul.
    unfold png_filt. rewrite Hx.
    rewrite png_unfilter_byte by exact Hxb.
    specialize (IH (r1 ++ [x])). rewrite <- app_assoc in IH. specialize (IH E).
    rewrite app_length in IH. cbn [length] in IH. fold i in IH.
    replace (i + 1)%nat with (S i) in IH by lia.
    rewrite rev_app_distr in IH. cbn [rev app] in IH.
    rewrite (firstn_S_snoc prev i 0) in IH by lia. rewrite rev_app_distr in IH. cbn [rev app] in IH.
    exact IH.
Qed.

Lemma png_decode_filter_row : forall ft bpp row prev, (0 < bpp)%nat -> length prev = length row -> bytes_ok row ->
  png_decode_bytes ft bpp (ref_png_filter_row ft bpp row prev) prev [] [] = row.
Proof.
  intros ft bpp row prev Hbpp Hlen Hrow.
  exact (png_decode_bytes_spec ft bpp row prev Hbpp Hlen Hrow row [] eq_refl).
Qed.

Lemma ref_png_filter_row_length : forall ft bpp row prev, length (ref_png_filter_row ft bpp row prev) = length row.
Proof. intros. unfold ref_png_filter_row. rewrite map_length, seq_length. reflexivity. Qed.

Lemma png_dec_loop : forall p rows prevrow ft0 fuel, (0 < png_bpp p)%nat -> rows_ok p rows ->
  length prevrow = png_bpr p ->
  (length (ref_png_encode_rows (png_bpp p) rows prevrow) < fuel)%nat ->
  exists pv, png_write_loop fuel false p {| png_cur := []; png_prev := ft0 :: prevrow |}
               (ref_png_encode_rows (png_bpp p) rows prevrow)
             = ({| png_cur := []; png_prev := pv |}, concat (map snd rows)).
Proof.
  intros p. induction rows as [|[ft row] rows IH]; intros prevrow ft0 fuel Hbpp Hrows Hprev Hf.
  - destruct fuel as [|f]; [lia|]. exists (ft0 :: prevrow).
    cbn [ref_png_encode_rows png_write_loop png_incoming png_cur png_prev length map concat]. cbv zeta.
    reflexivity.
  - destruct fuel as [|f]; [lia|].
    inversion Hrows as [|r' rows' (Hr & Hok & Hft) Hrest]; subst. cbn [fst snd] in *.
    cbn [ref_png_encode_rows] in *.
    assert (Hfl : length (ft :: ref_png_filter_row ft (png_bpp p) row prevrow) = S (png_bpr p)).
    { cbn [length]. rewrite ref_png_filter_row_length, Hr. reflexivity. }
    change (ft :: ref_png_filter_row ft (png_bpp p) row prevrow ++ ref_png_encode_rows (png_bpp p) rows row)
      with ((ft :: ref_png_filter_row ft (png_bpp p) row prevrow) ++ ref_png_encode_rows (png_bpp p) rows row) in *.
    rewrite app_length, Hfl in Hf.
    cbn [png_write_loop png_incoming png_cur png_prev]. cbv zeta.
    cbn [length]. rewrite Nat.sub_0_r.
    replace (Nat.leb (S (png_bpr p)) (length ((ft :: ref_png_filter_row ft (png_bpp p) row prevrow) ++ ref_png_encode_rows (png_bpp p) rows row))) with true
      by (symmetry; apply Nat.leb_le; rewrite app_length, Hfl; lia).
    rewrite (firstn_app_exact _ _ _ Hfl), (skipn_app_exact _ _ _ Hfl).
    cbn [app]. rewrite Hfl, Nat.sub_diag. cbn [zeros repeat]. rewrite app_nil_r.
    unfold png_process, png_decode_row. cbn [hd tl].
    rewrite png_decode_filter_row by (assumption || lia).
    destruct (IH row ft f Hbpp Hrest Hr ltac:(lia)) as [pv Hpv].
    rewrite Hpv. exists pv. cbn [map concat snd]. reflexivity.
Qed.

Lemma png_decode_encode_lemma : forall p rows, (0 < png_bpp p)%nat -> (0 < png_bpr p)%nat -> rows_ok p rows ->
  png_run false p [ref_png_encode p rows] = concat (map snd rows).
Proof.
  intros p rows Hbpp Hbpr Hrows. unfold png_run, ref_png_encode. cbn [png_run_chunks]. unfold png_write, png_init.
  change (zeros (S (png_bpr p))) with (0 :: zeros (png_bpr p)).
  destruct (png_dec_loop p rows (zeros (png_bpr p)) 0 (S (length (ref_png_encode_rows (png_bpp p) rows (zeros (png_bpr p))))) Hbpp Hrows)
    as [pv Hpv]; [apply repeat_length|lia|].
  rewrite Hpv. unfold png_finish. cbn [png_cur]. rewrite !app_nil_r. reflexivity.
Qed.

(* ---- the Up encoder ---- *)
Lemma map2_length : forall (f : N -> N -> N) a b, length (map2 f a b) = Nat.min (length a) (length b).
Proof. intros f. induction a as [|x a IH]; intros [|y b]; cbn [map2 length Nat.min]; try reflexivity. rewrite IH. reflexivity. Qed.

Lemma map2_add8_sub8 : forall row prev, (length row <= length prev)%nat -> bytes_ok row ->
  map2 add8 (map2 sub8 row prev) prev = row.
Proof.
  induction row as [|x row IH]; intros [|y prev] Hl Hrow; cbn [length] in Hl; try reflexivity; [lia|].
  apply bytes_ok_cons_inv in Hrow. destruct Hrow as [Hx Hrow].
  cbn [map2]. rewrite add8_sub8 by exact Hx. rewrite IH by (exact Hrow || lia). reflexivity.
Qed.

Lemma bytes_ok_zeros : forall n, bytes_ok (zeros n).
Proof. intros n. unfold bytes_ok, zeros. apply Forall_forall. intros x Hx. apply repeat_spec in Hx. subst x. lia. Qed.

Lemma decode_up_nil : forall bpr f prev, ref_png_decode_up bpr f [] prev = [].
Proof. intros bpr [|f] prev; reflexivity. Qed.

Lemma png_up_main : forall p, (0 < png_bpr p)%nat ->
  forall fuel d prevrow fuel2 s o, bytes_ok d -> length prevrow = png_bpr p -> (length d < fuel)%nat ->
  png_write_loop fuel true p {| png_cur := []; png_prev := prevrow ++ [0] |} d = (s, o) ->
  (length (o ++ png_finish true p s) < fuel2)%nat ->
  ref_png_decode_up (png_bpr p) fuel2 (o ++ png_finish true p s) prevrow
  = d ++ zeros ((png_bpr p - length d mod png_bpr p) mod png_bpr p)%nat.
Proof.
  intros p Hbpr. induction fuel as [|f IH]; intros d prevrow fuel2 s o Hd Hprev Hf Hloop Hf2; [lia|].
  cbn [png_write_loop png_incoming png_cur png_prev] in Hloop. cbv zeta in Hloop.
  cbn [length] in Hloop. rewrite Nat.sub_0_r in Hloop.
  destruct (Nat.leb (png_bpr p) (length d)) eqn:E.
  - apply Nat.leb_le in E. cbn [app] in Hloop.
    set (row := firstn (png_bpr p) d) in *.
    assert (Hrl : length row = png_bpr p) by (subst row; rewrite firstn_length; lia).
    rewrite Hrl in Hloop. replace (S (png_bpr p) - png_bpr p)%nat with 1%nat in Hloop by lia.
    change (zeros 1) with [0] in Hloop.
    unfold png_process, png_encode_row in Hloop.
    rewrite (firstn_app_exact _ _ _ Hrl), (firstn_app_exact _ _ _ Hprev) in Hloop.
    destruct (png_write_loop f true p {| png_cur := []; png_prev := row ++ [0] |} (skipn (png_bpr p) d)) as [s' o'] eqn:Eloop.
    injection Hloop as <- <-.
    assert (Hdrow : bytes_ok row /\ bytes_ok (skipn (png_bpr p) d)).
    { rewrite <- (firstn_skipn (png_bpr p) d) in Hd. apply Forall_app in Hd. exact Hd. }
    destruct Hdrow as [Hrow Hrest].
    destruct fuel2 as [|f2]; [lia|].
    cbn [app] in *. rewrite <- app_assoc in *. cbn [ref_png_decode_up]. cbv zeta.
    assert (Hel : length (map2 sub8 row prevrow) = png_bpr p) by (rewrite map2_length; lia).
    rewrite (firstn_app_exact _ _ _ Hel), (skipn_app_exact _ _ _ Hel).
    rewrite map2_add8_sub8 by (exact Hrow || lia).
    cbn [length] in Hf2. rewrite app_length, Hel in Hf2.
    rewrite (IH (skipn (png_bpr p) d) row f2 s' o' Hrest Hrl); [| |exact Eloop|lia].
    + rewrite skipn_length.
      replace ((length d - png_bpr p) mod png_bpr p)%nat with (length d mod png_bpr p)%nat.
      * rewrite app_assoc. subst row. rewrite firstn_skipn. reflexivity.
      * replace (length d) with ((length d - png_bpr p) + 1 * png_bpr p)%nat at 1 by lia.
        apply Nat.mod_add. lia.
    + rewrite skipn_length. lia.
  - apply Nat.leb_gt in E. injection Hloop as <- <-. cbn [app].
    unfold png_finish. cbn [png_cur png_prev].
    destruct d as [|x d'] eqn:Ed.
    + rewrite decode_up_nil. cbn [length app]. rewrite Nat.mod_0_l, Nat.sub_0_r, Nat.mod_same by lia. reflexivity.
    + assert (Hdl : (0 < length (x :: d'))%nat) by (cbn [length]; lia).
      rewrite <- Ed in *. clear Ed x d'.
      unfold png_process, png_encode_row. cbn [fst].
      rewrite (firstn_app_exact _ _ _ Hprev).
      assert (Hpad : firstn (png_bpr p) (d ++ zeros (S (png_bpr p) - length d)) = d ++ zeros (png_bpr p - length d)).
      { replace (S (png_bpr p) - length d)%nat with ((png_bpr p - length d) + 1)%nat by lia.
        unfold zeros. rewrite repeat_app, app_assoc. apply firstn_app_exact.
        rewrite app_length, repeat_length. lia. }
      rewrite Hpad. set (padded := d ++ zeros (png_bpr p - length d)).
      assert (Hpl : length padded = png_bpr p) by (subst padded; rewrite app_length; unfold zeros; rewrite repeat_length; lia).
      assert (Hpok : bytes_ok padded) by (subst padded; apply Forall_app; split; [exact Hd|apply bytes_ok_zeros]).
      destruct fuel2 as [|f2]; [lia|].
      cbn [ref_png_decode_up]. cbv zeta.
      assert (Hel : length (map2 sub8 padded prevrow) = png_bpr p) by (rewrite map2_length; lia).
      rewrite firstn_all2 by lia. rewrite skipn_all2 by lia. rewrite decode_up_nil, app_nil_r.
      rewrite map2_add8_sub8 by (exact Hpok || lia).
      subst padded. f_equal. f_equal.
      rewrite (Nat.mod_small (length d)) by lia. rewrite Nat.mod_small by lia. reflexivity.
Qed.

Lemma png_up_encoder_inverted_lemma : forall p d, (0 < png_bpr p)%nat -> bytes_ok d ->
  let e := png_run true p [d] in
  let pad := ((png_bpr p - length d mod png_bpr p) mod png_bpr p)%nat in
  ref_png_decode_up (png_bpr p) (S (length e)) e (zeros (png_bpr p)) = d ++ zeros pad.
Proof.
  intros p d Hbpr Hd. cbv zeta. unfold png_run. cbn [png_run_chunks]. unfold png_write, png_init.
  replace (zeros (S (png_bpr p))) with (zeros (png_bpr p) ++ [0])
    by (unfold zeros; rewrite <- repeat_cons; reflexivity).
  destruct (png_write_loop (S (length d)) true p {| png_cur := []; png_prev := zeros (png_bpr p) ++ [0] |} d) as [s o] eqn:Eloop.
  rewrite app_nil_r.
  apply (png_up_main p Hbpr (S (length d)) d (zeros (png_bpr p)) _ s o Hd); [apply repeat_length|lia|exact Eloop|lia].
Qed.
Ltac Zify.zify_post_hook ::= idtac.

(* ================= TIFF predictor, 8 bits per sample ================= *)
Ltac Zify.zify_post_hook ::= Z.to_euclidean_division_equations.

(* window form of tiff8_row *)
Fixpoint tiff8_win (enc : bool) (row : list N) (W : list Z) : list N :=
  match row, W with
  | x :: row', w0 :: W' =>
      let sample := Z.of_N x in
      let nw := if enc then (sample - w0)%Z else (sample + w0)%Z in
      let p' := if enc then sample else nw in
      Z.to_N (nw mod 256)%Z :: tiff8_win enc row' (W' ++ [p'])
  | _, _ => []
  end.

Lemma tiff8_row_win : forall enc row prev used, prev ++ rev used <> [] ->
  tiff8_row enc row prev used = tiff8_win enc row (prev ++ rev used).
Proof.
  intros enc. induction row as [|x row IH]; intros prev used Hne.
  - reflexivity.
  - cbn [tiff8_row]. destruct prev as [|p ps].
    + cbn [app] in *. rewrite rev'_rev. destruct (rev used) as [|p ps] eqn:E; [congruence|].
      cbn [tiff8_win]. cbv zeta. f_equal. rewrite IH; [reflexivity|].
      cbn [rev app]. destruct ps; discriminate.
    + cbn [app tiff8_win]. cbv zeta. f_equal. rewrite IH.
      * cbn [rev]. rewrite app_assoc. reflexivity.
      * cbn [rev]. rewrite app_assoc. destruct (ps ++ rev used); discriminate.
Qed.

(* the (reference) differencing of a row against a window W of the spp preceding samples *)
Definition tiff_diff (spp : nat) (W : list Z) (row : list N) : list N :=
  map (fun i => sub8 (nth i row 0)
                 (if Nat.ltb i spp then Z.to_N (nth i W 0%Z mod 256)%Z else nth (i - spp) row 0))
      (seq 0 (length row)).

Lemma tiff_diff_cons : forall spp w0 W x row, length (w0 :: W) = spp -> forall p', (p' mod 256)%Z = Z.of_N x ->
  tiff_diff spp (w0 :: W) (x :: row) = sub8 x (Z.to_N (w0 mod 256)%Z) :: tiff_diff spp (W ++ [p']) row.
Proof.
  intros spp w0 W x row HW p' Hp'. unfold tiff_diff. cbn [length seq map].
  cbn [length] in HW.
  replace (Nat.ltb 0 spp) with true by (symmetry; apply Nat.ltb_lt; lia). cbn [nth]. f_equal.
  rewrite <- seq_shift, map_map. apply map_ext_in. intros i Hi. apply in_seq in Hi.
  cbn [nth]. f_equal.
  destruct (Nat.ltb (S i) spp) eqn:E1.
  - apply Nat.ltb_lt in E1. replace (Nat.ltb i spp) with true by (symmetry; apply Nat.ltb_lt; lia).
    rewrite app_nth1 by lia. reflexivity.
  - apply Nat.ltb_ge in E1. destruct (Nat.ltb i spp) eqn:E2.
    + apply Nat.ltb_lt in E2. assert (i = length W) by lia. subst i.
      rewrite app_nth2 by lia. rewrite Nat.sub_diag. cbn [nth].
      replace (S (length W) - spp)%nat with 0%nat by lia. rewrite Hp'. rewrite N2Z.id. reflexivity.
    + apply Nat.ltb_ge in E2. replace (S i - spp)%nat with (S (i - spp)) by lia. reflexivity.
Qed.

Lemma tiff8_win_enc : forall spp row W, length W = spp -> (0 < spp)%nat -> bytes_ok row ->
  tiff8_win true row W = tiff_diff spp W row.
Proof.
  intros spp. induction row as [|x row IH]; intros W HW Hspp Hrow.
  - reflexivity.
  - destruct W as [|w0 W]; [cbn [length] in HW; lia|].
    apply bytes_ok_cons_inv in Hrow. destruct Hrow as [Hx Hrow].
    cbn [tiff8_win]. cbv zeta.
    rewrite (tiff_diff_cons spp w0 W x row HW (Z.of_N x)) by lia.
    f_equal.
    + unfold sub8. lia.
    + apply IH; [|exact Hspp|exact Hrow]. rewrite app_length. cbn [length] in *. lia.
Qed.

Lemma tiff8_win_dec : forall spp row W, length W = spp -> (0 < spp)%nat -> bytes_ok row ->
  tiff8_win false (tiff_diff spp W row) W = row.
Proof.
  intros spp. induction row as [|x row IH]; intros W HW Hspp Hrow.
  - reflexivity.
  - destruct W as [|w0 W]; [cbn [length] in HW; lia|].
    apply bytes_ok_cons_inv in Hrow. destruct Hrow as [Hx Hrow].
    rewrite (tiff_diff_cons spp w0 W x row HW (Z.of_N (sub8 x (Z.to_N (w0 mod 256)%Z)) + w0)%Z)
      by (unfold sub8; lia).
    cbn [tiff8_win]. cbv zeta. f_equal.
    + unfold sub8. lia.
    + apply IH; [|exact Hspp|exact Hrow]. rewrite app_length. cbn [length] in *. lia.
Qed.

Lemma tiff_diff_zero : forall spp row, tiff_diff spp (repeat 0%Z spp) row = ref_tiff8_encode_row spp row.
Proof.
  intros spp row. unfold tiff_diff, ref_tiff8_encode_row. apply map_ext. intros i.
  destruct (Nat.ltb i spp) eqn:E; [|reflexivity].
  replace (nth i (repeat 0%Z spp) 0%Z) with 0%Z; [reflexivity|].
  symmetry. apply nth_repeat.
Qed.

Lemma tiff_diff_length : forall spp W row, length (tiff_diff spp W row) = length row.
Proof. intros. unfold tiff_diff. rewrite map_length, seq_length. reflexivity. Qed.

Lemma tiff8_process_enc : forall p row, tf_bps p = 8 -> (0 < tf_spp p)%nat -> bytes_ok row ->
  tiff_process true p row = Some (ref_tiff8_encode_row (tf_spp p) row).
Proof.
  intros p row Hb Hs Hrow. unfold tiff_process. rewrite Hb. cbn [N.eqb Pos.eqb].
  rewrite tiff8_row_win.
  - cbn [rev]. rewrite app_nil_r. rewrite (tiff8_win_enc (tf_spp p)); [|apply repeat_length|exact Hs|exact Hrow].
    rewrite tiff_diff_zero. reflexivity.
  - cbn [rev]. rewrite app_nil_r. destruct (tf_spp p); [lia|discriminate].
Qed.

Lemma tiff8_process_dec : forall p row, tf_bps p = 8 -> (0 < tf_spp p)%nat -> bytes_ok row ->
  tiff_process false p (ref_tiff8_encode_row (tf_spp p) row) = Some row.
Proof.
  intros p row Hb Hs Hrow. unfold tiff_process. rewrite Hb. cbn [N.eqb Pos.eqb].
  rewrite tiff8_row_win.
  - cbn [rev]. rewrite app_nil_r. rewrite <- tiff_diff_zero.
    rewrite (tiff8_win_dec (tf_spp p)); [reflexivity|apply repeat_length|exact Hs|exact Hrow].
  - cbn [rev]. rewrite app_nil_r. destruct (tf_spp p); [lia|discriminate].
Qed.

(* a sequence of complete rows through the write loop *)
Lemma tiff_loop_rows : forall enc p (g : list N -> list N) rows fuel, (0 < tf_bpr p)%nat ->
  Forall (fun r => length r = tf_bpr p /\ tiff_process enc p r = Some (g r)) rows ->
  (length (concat rows) < fuel)%nat ->
  tiff_write_loop fuel enc p [] (concat rows) = ([], concat (map g rows), false).
Proof.
  intros enc p g. induction rows as [|r rows IH]; intros fuel Hp Hrows Hf.
  - destruct fuel as [|f]; [lia|]. cbn [concat tiff_write_loop length map]. cbv zeta.
    rewrite Nat.sub_0_r. replace (Nat.leb (tf_bpr p) 0) with false by (symmetry; apply Nat.leb_gt; lia).
    reflexivity.
  - destruct fuel as [|f]; [lia|]. inversion Hrows as [|r' rows' [Hr Hpr] Hrest]; subst.
    cbn [concat tiff_write_loop length map]. cbv zeta. rewrite Nat.sub_0_r.
    cbn [concat] in Hf. rewrite app_length in Hf.
    replace (Nat.leb (tf_bpr p) (length (r ++ concat rows))) with true
      by (symmetry; apply Nat.leb_le; rewrite app_length; lia).
    rewrite <- Hr. rewrite firstn_app, skipn_app, Nat.sub_diag, firstn_all, skipn_all. cbn [firstn skipn app].
    rewrite app_nil_r. rewrite Hpr.
    rewrite IH; [reflexivity|exact Hp|exact Hrest|lia].
Qed.

Lemma tiff_run_single_rows : forall enc p (g : list N -> list N) rows, (0 < tf_bpr p)%nat ->
  Forall (fun r => length r = tf_bpr p /\ tiff_process enc p r = Some (g r)) rows ->
  tiff_run enc p [concat rows] = (concat (map g rows), false).
Proof.
  intros enc p g rows Hp Hrows. unfold tiff_run. cbn [tiff_run_chunks].
  rewrite (tiff_loop_rows enc p g rows) by (exact Hp || exact Hrows || lia).
  rewrite app_nil_r. reflexivity.
Qed.

Lemma ref_tiff8_length : forall spp row, length (ref_tiff8_encode_row spp row) = length row.
Proof. intros. unfold ref_tiff8_encode_row. rewrite map_length, seq_length. reflexivity. Qed.

Lemma tiff8_decode_encode_lemma : forall p rows, tf_bps p = 8 -> (0 < tf_spp p)%nat -> (0 < tf_bpr p)%nat ->
  Forall (fun r => length r = tf_bpr p /\ bytes_ok r) rows ->
  tiff_run false p [concat (map (ref_tiff8_encode_row (tf_spp p)) rows)] = (concat rows, false).
Proof.
  intros p rows Hb Hs Hp Hrows.
  (* decode each encoded row back: g is a left inverse only on the encoded rows, so carry the original alongside *)
  unfold tiff_run. cbn [tiff_run_chunks].
  assert (H : forall fuel, (length (concat (map (ref_tiff8_encode_row (tf_spp p)) rows)) < fuel)%nat ->
     tiff_write_loop fuel false p [] (concat (map (ref_tiff8_encode_row (tf_spp p)) rows)) = ([], concat rows, false)).
  { clear -Hb Hs Hp Hrows. induction rows as [|r rows IH]; intros fuel Hf.
    - destruct fuel as [|f]; [lia|]. cbn [concat tiff_write_loop length map]. cbv zeta.
      rewrite Nat.sub_0_r. replace (Nat.leb (tf_bpr p) 0) with false by (symmetry; apply Nat.leb_gt; lia).
      reflexivity.
    - destruct fuel as [|f]; [lia|]. inversion Hrows as [|r' rows' [Hr Hok] Hrest]; subst.
      cbn [concat tiff_write_loop length map]. cbv zeta. rewrite Nat.sub_0_r.
      cbn [map concat] in Hf. rewrite app_length, ref_tiff8_length in Hf.
      replace (Nat.leb (tf_bpr p) (length (ref_tiff8_encode_row (tf_spp p) r ++ concat (map (ref_tiff8_encode_row (tf_spp p)) rows)))) with true
        by (symmetry; apply Nat.leb_le; rewrite app_length, ref_tiff8_length; lia).
      rewrite <- Hr. rewrite <- (ref_tiff8_length (tf_spp p) r).
      rewrite firstn_app, skipn_app, Nat.sub_diag, firstn_all, skipn_all. cbn [firstn skipn app].
      rewrite app_nil_r. rewrite (tiff8_process_dec p r Hb Hs Hok).
      rewrite IH; [reflexivity|exact Hrest|lia]. }
  rewrite H by lia. rewrite app_nil_r. reflexivity.
Qed.

Lemma tiff8_encoder_is_ref_lemma : forall p rows, tf_bps p = 8 -> (0 < tf_spp p)%nat -> (0 < tf_bpr p)%nat ->
  Forall (fun r => length r = tf_bpr p /\ bytes_ok r) rows ->
  tiff_run true p [concat rows] = (concat (map (ref_tiff8_encode_row (tf_spp p)) rows), false).
Proof.
  intros p rows Hb Hs Hp Hrows. apply tiff_run_single_rows; [exact Hp|].
  eapply Forall_impl; [|exact Hrows]. intros r [Hr Hok]. split; [exact Hr|].
  apply tiff8_process_enc; assumption.
Qed.
Ltac Zify.zify_post_hook ::= idtac.

(* ================= bit I/O is MSB-first ================= *)
Definition valacc (acc : N) (bs : list bool) : N :=
  fold_left (fun (acc : N) (b : bool) => 2 * acc + (if b then 1 else 0)) bs acc.

Lemma valacc_app : forall a b acc, valacc acc (a ++ b) = valacc (valacc acc a) b.
Proof. intros. unfold valacc. apply fold_left_app. Qed.

Lemma valacc_shift : forall bs acc, valacc acc bs = acc * 2 ^ N.of_nat (length bs) + valacc 0 bs.
Proof.
  induction bs as [|b bs IH]; intros acc.
  - cbn [valacc fold_left length N.of_nat]. rewrite N.pow_0_r. lia.
  - unfold valacc in *. cbn [fold_left length]. rewrite IH. rewrite (IH (2 * 0 + _)).
    rewrite Nat2N.inj_succ, N.pow_succ_r'. destruct b; lia.
Qed.

Definition rd_bits (bytes : list N) (off : N) : list bool :=
  match bytes with
  | [] => []
  | b :: t => skipn (N.to_nat (7 - off)) (bits_of_byte_fuel 8 b) ++ bits_of_bytes t
  end.

Lemma rd_bits_7 : forall bytes, rd_bits bytes 7 = bits_of_bytes bytes.
Proof. intros [|b t]; reflexivity. Qed.

Definition rd_step_ok (off tc b : N) : bool :=
  implb ((1 <=? tc) && (tc <=? off + 1))
    (let byte' := (b mod 2 ^ (off + 1)) / 2 ^ (off + 1 - tc) in
     let S := skipn (N.to_nat (7 - off)) (bits_of_byte_fuel 8 b) in
     (byte' =? valacc 0 (firstn (N.to_nat tc) S)) && (byte' <? 2 ^ tc)
     && Nat.eqb (length S) (N.to_nat (off + 1))).

Lemma rd_step_sweep : forall off tc b, off <= 7 -> 1 <= tc <= off + 1 -> b < 256 ->
  let byte' := (b mod 2 ^ (off + 1)) / 2 ^ (off + 1 - tc) in
  let S := skipn (N.to_nat (7 - off)) (bits_of_byte_fuel 8 b) in
  byte' = valacc 0 (firstn (N.to_nat tc) S) /\ byte' < 2 ^ tc /\ length S = N.to_nat (off + 1).
Proof.
  intros off tc b Hoff Htc Hb.
  assert (H : forallb (fun off => forallb (fun tc => forallb (fun b => rd_step_ok off tc b)
                (map N.of_nat (seq 0 256))) (map N.of_nat (seq 0 9))) (map N.of_nat (seq 0 8)) = true)
    by (vm_compute; reflexivity).
  pose proof (small_sweep 8 _ H off ltac:(lia)) as H1. cbv beta in H1.
  pose proof (small_sweep 9 _ H1 tc ltac:(lia)) as H2. cbv beta in H2.
  pose proof (small_sweep 256 _ H2 b ltac:(lia)) as H3. cbv beta in H3.
  unfold rd_step_ok in H3.
  replace ((1 <=? tc) && (tc <=? off + 1)) with true in H3
    by (symmetry; apply andb_true_iff; split; apply N.leb_le; lia).
  cbn [implb] in H3. cbv zeta in H3.
  apply andb_true_iff in H3. destruct H3 as [H3 H6].
  apply andb_true_iff in H3. destruct H3 as [H4 H5].
  apply N.eqb_eq in H4. apply N.ltb_lt in H5. apply Nat.eqb_eq in H6.
  cbv zeta. repeat split; assumption.
Qed.

Lemma acc_bound : forall result tc w' byte', byte' < 2 ^ tc -> (result + 1) * 2 ^ (tc + w') <= 2 ^ 64 ->
  result * 2 ^ tc + byte' < 2 ^ 64 /\ (result * 2 ^ tc + byte' + 1) * 2 ^ w' <= 2 ^ 64.
Proof.
  intros result tc w' byte' Hb H. rewrite N.pow_add_r in H.
  assert (HA : 0 < 2 ^ tc) by (apply N.neq_0_lt_0, N.pow_nonzero; lia).
  assert (HB : 0 < 2 ^ w') by (apply N.neq_0_lt_0, N.pow_nonzero; lia).
  set (A := 2 ^ tc) in *. set (B := 2 ^ w') in *. set (M := 2 ^ 64) in *.
  assert (H1 : (result * A + byte' + 1) * B <= (result + 1) * (A * B)).
  { rewrite N.mul_assoc. apply N.mul_le_mono_r. lia. }
  split; [|lia].
  assert (H2 : result * A + byte' + 1 <= (result * A + byte' + 1) * B).
  { rewrite <- (N.mul_1_r (result * A + byte' + 1)) at 1. apply N.mul_le_mono_l. lia. }
  lia.
Qed.

Lemma bits_of_bytes_length : forall l, length (bits_of_bytes l) = (8 * length l)%nat.
Proof.
  induction l as [|b t IH]; [reflexivity|].
  unfold bits_of_bytes in *. cbn [map concat]. rewrite app_length, IH. cbn [bits_of_byte_fuel length]. lia.
Qed.

Lemma read_bits_loop_spec : forall fuel bytes off wanted result,
  bytes_ok bytes -> off <= 7 ->
  (N.to_nat wanted <= length (rd_bits bytes off))%nat -> (N.to_nat wanted <= fuel)%nat ->
  (result + 1) * 2 ^ wanted <= 2 ^ 64 ->
  snd (read_bits_loop fuel {| br_bytes := bytes; br_off := off |} wanted result)
  = valacc result (firstn (N.to_nat wanted) (rd_bits bytes off)).
Proof.
  induction fuel as [|f IH]; intros bytes off wanted result Hok Hoff Hav Hfuel Hbound.
  - replace (N.to_nat wanted) with 0%nat by lia. reflexivity.
  - cbn [read_bits_loop]. destruct (N.eqb_spec wanted 0) as [E0|E0].
    + subst wanted. reflexivity.
    + cbv zeta. cbn [br_bytes br_off].
      destruct bytes as [|b t]; [cbn [rd_bits length] in Hav; lia|].
      apply bytes_ok_cons_inv in Hok. destruct Hok as [Hb Hok].
      cbn [hd tl].
      set (tc := N.min wanted (off + 1)).
      assert (Htc : 1 <= tc <= off + 1) by (subst tc; lia).
      destruct (rd_step_sweep off tc b Hoff Htc Hb) as (Hval & Hlt & HS). cbv zeta in Hval, Hlt, HS.
      set (byte' := (b mod 2 ^ (off + 1)) / 2 ^ (off + 1 - tc)) in *.
      set (S := skipn (N.to_nat (7 - off)) (bits_of_byte_fuel 8 b)) in *.
      assert (Hw : wanted = tc + (wanted - tc)) by (subst tc; lia).
      rewrite Hw in Hbound.
      destruct (acc_bound result tc (wanted - tc) byte' Hlt Hbound) as [Hb1 Hb2].
      rewrite (N.mod_small _ (2 ^ 64)) by exact Hb1.
      assert (Hacc : result * 2 ^ tc + byte' = valacc result (firstn (N.to_nat tc) S)).
      { rewrite (valacc_shift (firstn _ _)). rewrite firstn_length, Nat.min_l by lia.
        rewrite N2Nat.id, <- Hval. reflexivity. }
      cbn [rd_bits]. fold S.
      destruct (N.ltb_spec 0 (off + 1 - tc)) as [El|El].
      * (* the request ends inside this byte *)
        assert (Ewt : wanted = tc) by (subst tc; lia).
        replace (wanted - tc) with 0 by lia.
        replace (snd (read_bits_loop f _ 0 (result * 2 ^ tc + byte'))) with (result * 2 ^ tc + byte')
          by (destruct f; reflexivity).
        rewrite Hacc, Ewt. rewrite firstn_app.
        replace (N.to_nat tc - length S)%nat with 0%nat by lia. cbn [firstn]. rewrite app_nil_r. reflexivity.
      * (* the rest of this byte is consumed *)
        assert (Etc : tc = off + 1) by lia.
        rewrite IH.
        -- rewrite rd_bits_7, Hacc. rewrite (firstn_all2 S) by lia.
           rewrite firstn_app. rewrite (firstn_all2 S) by lia. rewrite valacc_app.
           f_equal. f_equal. lia.
        -- exact Hok.
        -- lia.
        -- rewrite rd_bits_7. cbn [rd_bits] in Hav. fold S in Hav. rewrite app_length in Hav. lia.
        -- lia.
        -- exact Hb2.
Qed.

Lemma read_bits_msb_lemma : forall bytes n, bytes_ok bytes -> n <= 32 -> n <= 8 * N.of_nat (length bytes) ->
  exists r', read_bits {| br_bytes := bytes; br_off := 7 |} n
             = Some (r', val_of_bits (firstn (N.to_nat n) (bits_of_bytes bytes))).
Proof.
  intros bytes n Hok Hn Hlen. unfold read_bits.
  replace (br_avail {| br_bytes := bytes; br_off := 7 |} <? n) with false.
  2:{ symmetry. apply N.ltb_ge. unfold br_avail, lenNb. cbn [br_bytes br_off].
      destruct bytes as [|b t]; cbn [length] in *; lia. }
  replace (32 <? n) with false by (symmetry; apply N.ltb_ge; lia).
  eexists. rewrite (surjective_pairing (read_bits_loop _ _ _ _)). f_equal. f_equal.
  rewrite read_bits_loop_spec.
  - rewrite rd_bits_7. reflexivity.
  - exact Hok.
  - lia.
  - rewrite rd_bits_7, bits_of_bytes_length. lia.
  - lia.
  - rewrite N.add_0_l, N.mul_1_l. apply N.pow_le_mono_r; lia.
Qed.

(* ================= Base64 ================= *)


Lemma b64_char_props : forall v, v < 64 ->
  ref_b64_val (b64_char v) = v /\ b64_val (b64_char v) = Some v /\ (b64_char v =? 61) = false
  /\ util_is_space (b64_char v) = false.
Proof.
  intros v Hv.
  pose proof (small_sweep 64 (fun v => (ref_b64_val (b64_char v) =? v) &&
      (match b64_val (b64_char v) with Some x => x =? v | None => false end) &&
      negb (b64_char v =? 61) && negb (util_is_space (b64_char v)))) as H.
  specialize (H ltac:(vm_compute; reflexivity) v Hv). cbv beta in H.
  apply andb_true_iff in H. destruct H as [H H4].
  apply andb_true_iff in H. destruct H as [H H3].
  apply andb_true_iff in H. destruct H as [H1 H2].
  apply N.eqb_eq in H1. apply negb_true_iff in H3. apply negb_true_iff in H4.
  destruct (b64_val (b64_char v)) as [x|]; [|discriminate]. apply N.eqb_eq in H2. subst x.
  repeat split; assumption.
Qed.

Lemma list3_ind : forall (P : list N -> Prop),
  P [] -> (forall a, P [a]) -> (forall a b, P [a; b]) ->
  (forall a b c t, P t -> P (a :: b :: c :: t)) -> forall l, P l.
Proof.
  intros P H0 H1 H2 H3.
  fix IH 1. intros [|a [|b [|c t]]]; [apply H0|apply H1|apply H2|apply H3, IH].
Qed.

Ltac Zify.zify_post_hook ::= Z.to_euclidean_division_equations.

Lemma b64_w : forall v, v / 262144 * 262144 + (v / 4096) mod 64 * 4096 + (v / 64) mod 64 * 64 + v mod 64 = v.
Proof.
  intros v.
  assert (H1 : v / 4096 / 64 = v / 262144) by (rewrite N.div_div by lia; reflexivity).
  assert (H2 : v / 64 / 64 = v / 4096) by (rewrite N.div_div by lia; reflexivity).
  pose proof (N.div_mod' (v / 4096) 64). pose proof (N.div_mod' (v / 64) 64). pose proof (N.div_mod' v 64).
  lia.
Qed.

Lemma b64_3 : forall a b c, a < 256 -> b < 256 -> c < 256 ->
  let v := a * 65536 + b * 256 + c in
  v / 262144 < 64 /\ (v / 4096) mod 64 < 64 /\ (v / 64) mod 64 < 64 /\ v mod 64 < 64 /\
  let w := v / 262144 * 262144 + (v / 4096) mod 64 * 4096 + (v / 64) mod 64 * 64 + v mod 64 in
  w / 65536 = a /\ (w / 256) mod 256 = b /\ w mod 256 = c /\ (w / 65536) mod 256 = a.
Proof. intros a b c Ha Hb Hc v. cbv zeta. rewrite b64_w. subst v. repeat split; lia. Qed.


Lemma b64_encode_inverted_lemma : forall d, bytes_ok d -> ref_b64_decode (b64_encode d) = d.
Proof.
  induction d as [|a|a b|a b c t IH] using list3_ind; intros Hd.
  - reflexivity.
  - apply bytes_ok_cons_inv in Hd. destruct Hd as [Ha _].
    destruct (b64_3 a 0 0 Ha ltac:(lia) ltac:(lia)) as (B1 & B2 & B3 & B4 & W1 & W2 & W3 & W4).
    cbv zeta in *. rewrite !N.mul_0_l, !N.add_0_r in *.
    cbn [b64_encode ref_b64_decode]. cbv zeta. rewrite N.eqb_refl.
    destruct (b64_char_props _ B1) as (R1 & _). destruct (b64_char_props _ B2) as (R2 & _).
    rewrite R1, R2. cbn [app]. f_equal.
    replace ((a * 65536 / 64) mod 64) with 0 in W1 by lia.
    replace ((a * 65536) mod 64) with 0 in W1 by lia. rewrite !N.mul_0_l, !N.add_0_r in *. exact W1.
  - apply bytes_ok_cons_inv in Hd. destruct Hd as [Ha Hd]. apply bytes_ok_cons_inv in Hd. destruct Hd as [Hb _].
    destruct (b64_3 a b 0 Ha Hb ltac:(lia)) as (B1 & B2 & B3 & B4 & W1 & W2 & W3 & W4).
    cbv zeta in *. rewrite !N.add_0_r in *.
    cbn [b64_encode ref_b64_decode]. cbv zeta.
    destruct (b64_char_props _ B1) as (R1 & _). destruct (b64_char_props _ B2) as (R2 & _).
    destruct (b64_char_props _ B3) as (R3 & _ & E3 & _).
    rewrite E3, N.eqb_refl, R1, R2, R3. cbn [app].
    replace ((a * 65536 + b * 256) mod 64) with 0 in W1, W2 by lia. rewrite !N.add_0_r in *.
    rewrite W1, W2. reflexivity.
  - apply bytes_ok_cons_inv in Hd. destruct Hd as [Ha Hd]. apply bytes_ok_cons_inv in Hd. destruct Hd as [Hb Hd].
    apply bytes_ok_cons_inv in Hd. destruct Hd as [Hc Hd].
    destruct (b64_3 a b c Ha Hb Hc) as (B1 & B2 & B3 & B4 & W1 & W2 & W3 & W4).
    cbv zeta in *.
    cbn [b64_encode ref_b64_decode]. cbv zeta.
    destruct (b64_char_props _ B1) as (R1 & _). destruct (b64_char_props _ B2) as (R2 & _).
    destruct (b64_char_props _ B3) as (R3 & _ & E3 & _). destruct (b64_char_props _ B4) as (R4 & _ & E4 & _).
    rewrite E3, E4, R1, R2, R3, R4, W1, W2, W3. cbn [app]. rewrite (IH Hd). reflexivity.
Qed.

Lemma b64_loop_4 : forall c0 c1 c2 c3 t out,
  util_is_space c0 = false -> util_is_space c1 = false -> util_is_space c2 = false -> util_is_space c3 = false ->
  b64_decode_loop (c0 :: c1 :: c2 :: c3 :: t) [] false out =
  match b64_group [c0; c1; c2; c3] with
  | None => (rev' out, true)
  | Some (o, pad) => b64_decode_loop t [] pad (rev_append o out)
  end.
Proof.
  intros c0 c1 c2 c3 t out H0 H1 H2 H3.
  cbn [b64_decode_loop]. rewrite H0. cbn [app length N.of_nat Pos.of_succ_nat Pos.succ N.eqb Pos.eqb].
  rewrite H1. cbn [app length N.of_nat Pos.of_succ_nat Pos.succ N.eqb Pos.eqb].
  rewrite H2. cbn [app length N.of_nat Pos.of_succ_nat Pos.succ N.eqb Pos.eqb].
  rewrite H3. cbn [app length N.of_nat Pos.of_succ_nat Pos.succ N.eqb Pos.eqb].
  reflexivity.
Qed.

Lemma b64_val_61 : b64_val 61 = None. Proof. reflexivity. Qed.

Lemma rev_rev_append : forall (o out : list N), rev (rev_append o out) = rev out ++ o.
Proof. intros. rewrite rev_append_rev, rev_app_distr, rev_involutive. reflexivity. Qed.

Ltac b64_pad :=
  match goal with |- context [N.to_nat ?x] =>
    let y := eval vm_compute in (N.to_nat x) in change (N.to_nat x) with y end;
  cbn [Nat.sub firstn].

Lemma b64_loop_encode : forall d out, bytes_ok d ->
  b64_decode_loop (b64_encode d) [] false out = (rev out ++ d, false).
Proof.
  induction d as [|a|a b|a b c t IH] using list3_ind; intros out Hd.
  - cbn. rewrite rev'_rev, app_nil_r. reflexivity.
  - apply bytes_ok_cons_inv in Hd. destruct Hd as [Ha _].
    destruct (b64_3 a 0 0 Ha ltac:(lia) ltac:(lia)) as (B1 & B2 & B3 & B4 & W1 & W2 & W3 & W4).
    cbv zeta in *. rewrite !N.mul_0_l, !N.add_0_r in *.
    cbn [b64_encode]. cbv zeta.
    destruct (b64_char_props _ B1) as (_ & R1 & _ & S1). destruct (b64_char_props _ B2) as (_ & R2 & _ & S2).
    rewrite b64_loop_4 by (assumption || reflexivity).
    unfold b64_group. rewrite R1, R2, b64_val_61. cbn [N.eqb Pos.eqb andb orb].
    b64_pad.
    cbn [b64_decode_loop]. rewrite rev'_rev, rev_rev_append.
    replace ((a * 65536 / 64) mod 64) with 0 in W4 by lia.
    replace ((a * 65536) mod 64) with 0 in W4 by lia.
    rewrite !N.mul_0_l, !N.add_0_r in *. rewrite W4. reflexivity.
  - apply bytes_ok_cons_inv in Hd. destruct Hd as [Ha Hd]. apply bytes_ok_cons_inv in Hd. destruct Hd as [Hb _].
    destruct (b64_3 a b 0 Ha Hb ltac:(lia)) as (B1 & B2 & B3 & B4 & W1 & W2 & W3 & W4).
    cbv zeta in *. rewrite !N.add_0_r in *.
    cbn [b64_encode]. cbv zeta.
    destruct (b64_char_props _ B1) as (_ & R1 & _ & S1). destruct (b64_char_props _ B2) as (_ & R2 & _ & S2).
    destruct (b64_char_props _ B3) as (_ & R3 & _ & S3).
    rewrite b64_loop_4 by (assumption || reflexivity).
    unfold b64_group. rewrite R1, R2, R3, b64_val_61. cbn [N.eqb Pos.eqb andb orb].
    b64_pad.
    cbn [b64_decode_loop]. rewrite rev'_rev, rev_rev_append.
    replace ((a * 65536 + b * 256) mod 64) with 0 in W4, W2 by lia.
    rewrite !N.add_0_r in *. rewrite W4, W2. reflexivity.
  - apply bytes_ok_cons_inv in Hd. destruct Hd as [Ha Hd]. apply bytes_ok_cons_inv in Hd. destruct Hd as [Hb Hd].
    apply bytes_ok_cons_inv in Hd. destruct Hd as [Hc Hd].
    destruct (b64_3 a b c Ha Hb Hc) as (B1 & B2 & B3 & B4 & W1 & W2 & W3 & W4).
    cbv zeta in *.
    cbn [b64_encode]. cbv zeta.
    destruct (b64_char_props _ B1) as (_ & R1 & _ & S1). destruct (b64_char_props _ B2) as (_ & R2 & _ & S2).
    destruct (b64_char_props _ B3) as (_ & R3 & _ & S3). destruct (b64_char_props _ B4) as (_ & R4 & _ & S4).
    rewrite b64_loop_4 by assumption.
    unfold b64_group. rewrite R1, R2, R3, R4. cbn [N.eqb Pos.eqb andb orb].
    b64_pad.
    rewrite W4, W2, W3. rewrite (IH _ Hd). rewrite rev_rev_append, <- app_assoc. reflexivity.
Qed.

Lemma b64_roundtrip_lemma : forall d, bytes_ok d -> b64_decode [b64_encode d] = (d, false).
Proof.
  intros d Hd. unfold b64_decode. cbn [concat]. rewrite app_nil_r.
  rewrite (b64_loop_encode d [] Hd). reflexivity.
Qed.
Ltac Zify.zify_post_hook ::= idtac.

(* ================= RC4, LZW ================= *)

Lemma rc4_stream_invol : forall d st x y, rc4_stream (rc4_stream d st x y) st x y = d.
Proof.
  induction d as [|b t IH]; intros st x y; [reflexivity|].
  cbn [rc4_stream]. rewrite IH. f_equal.
  rewrite N.lxor_assoc, N.lxor_nilpotent, N.lxor_0_r. reflexivity.
Qed.
Lemma rc4_involutive_lemma : forall key d, rc4 key (rc4 key d) = d.
Proof. intros key d. unfold rc4. apply rc4_stream_invol. Qed.

(* LZW *)
Definition lzw_state_after (early : bool) (d : list N) : lzw_st :=
  fst (fst (write_bytes (lzw_step early) lzw_init d)).

Definition lzw_cs_of (early : bool) (L : N) : N :=
  let x := 257 + L + (if early then 1 else 0) in
  9 + (if 511 <=? x then 1 else 0) + (if 1023 <=? x then 1 else 0) + (if 2047 <=? x then 1 else 0).
Definition lzw_inv (early : bool) (s : lzw_st) : Prop :=
  lenNb (lz_table s) <= 3838 /\ lz_code_size s = lzw_cs_of early (lenNb (lz_table s)).

Lemma write_bytes_inv : forall (S : Type) (step : S -> N -> S * list N * bool) (I : S -> Prop),
  (forall s b, I s -> I (fst (fst (step s b)))) ->
  forall d s, I s -> I (fst (fst (write_bytes step s d))).
Proof.
  intros S step I Hstep. induction d as [|b t IH]; intros s Hs.
  - exact Hs.
  - cbn [write_bytes]. pose proof (Hstep s b Hs) as H1.
    destruct (step s b) as [[s1 o1] e1]. cbn [fst] in H1.
    destruct e1; [exact H1|].
    pose proof (IH s1 H1) as H2. destruct (write_bytes step s1 t) as [[s2 o2] e2]. exact H2.
Qed.

Lemma lenNb_snoc : forall A (l : list A) x, lenNb (l ++ [x]) = lenNb l + 1.
Proof. intros. unfold lenNb. rewrite app_length. cbn [length]. lia. Qed.

Lemma lzw_handle_inv : forall early s code, lzw_inv early s -> lzw_inv early (fst (fst (lzw_handle early s code))).
Proof.
  intros early s code [HL Hcs]. unfold lzw_handle.
  destruct (lz_eod s); [split; assumption|].
  destruct (code =? 256); [cbn [fst]; unfold lzw_inv, lzw_cs_of, lenNb; cbn [lz_table lz_code_size length]; split; [lia| destruct early; reflexivity]|].
  destruct (code =? 257); [cbn [fst lz_table lz_code_size]; split; assumption|].
  destruct (lz_last_code s =? 256).
  { destruct (lzw_entry (lz_table s) code); cbn [fst lz_table lz_code_size]; split; assumption. }
  match goal with |- context [match ?nc with Some c => _ | None => None end] =>
    destruct nc as [c|] end; [|split; assumption].
  destruct (258 + lenNb (lz_table s) =? 4096) eqn:E4096; [split; assumption|].
  destruct (lzw_entry (lz_table s) (lz_last_code s)) as [last|]; [|split; assumption].
  apply N.eqb_neq in E4096.
  assert (Hinv : lzw_inv early {| lz_buf := lz_buf s; lz_code_size :=
      (if (258 + lenNb (lz_table s) + (if early then 1 else 0) =? 511) || (258 + lenNb (lz_table s) + (if early then 1 else 0) =? 1023) || (258 + lenNb (lz_table s) + (if early then 1 else 0) =? 2047) then lz_code_size s + 1 else lz_code_size s);
      lz_next_char := lz_next_char s; lz_byte_pos := lz_byte_pos s; lz_bit_pos := lz_bit_pos s; lz_bits_avail := lz_bits_avail s;
      lz_eod := false; lz_table := lz_table s ++ [last ++ [c]]; lz_last_code := code |}).
  { unfold lzw_inv. cbn [lz_table lz_code_size]. rewrite lenNb_snoc. split; [lia|].
    rewrite Hcs. unfold lzw_cs_of.
    set (L := lenNb (lz_table s)) in *.
    destruct early;
    repeat (match goal with |- context [?a =? ?b] => destruct (N.eqb_spec a b) end; try lia);
    repeat (match goal with |- context [?a <=? ?b] => destruct (N.leb_spec a b) end; try lia); cbn [orb]; lia. }
  destruct (lzw_entry _ code); exact Hinv.
Qed.

Lemma lzw_step_inv : forall early s b, lzw_inv early s -> lzw_inv early (fst (fst (lzw_step early s b))).
Proof.
  intros early s b Hs. unfold lzw_step.
  match goal with |- context [if ?c then _ else _] => destruct c end.
  - unfold lzw_send. apply lzw_handle_inv. exact Hs.
  - exact Hs.
Qed.

Lemma lzw_table_bounded_lemma : forall early d,
  (length (lz_table (lzw_state_after early d)) <= 4096 - 258)%nat
  /\ 9 <= lz_code_size (lzw_state_after early d) <= 12.
Proof.
  intros early d. unfold lzw_state_after.
  assert (H : lzw_inv early (fst (fst (write_bytes (lzw_step early) lzw_init d)))).
  { apply write_bytes_inv; [apply lzw_step_inv|]. split; [cbn; lia|]. destruct early; reflexivity. }
  destruct H as [HL Hcs]. split.
  - unfold lenNb in HL. lia.
  - rewrite Hcs. unfold lzw_cs_of.
    repeat match goal with |- context [?a <=? ?b] => destruct (N.leb_spec a b) end; lia.
Qed.
