#!/usr/bin/env python3
# usage: tools/merge_known.py <their-branch> : JSON-level three-way merge of known_findings.json during a merge
# (entries keyed by id: an entry changed by one side only takes that side's version; changed by both: ours; new entries of
# either side are kept, in ours-then-theirs order).
import json, subprocess, sys
br = sys.argv[1]
def show(rev):
    return json.loads(subprocess.run(["git", "show", "%s:known_findings.json" % rev], capture_output=True, text=True, check=True).stdout)
base = show(subprocess.run(["git", "merge-base", "HEAD", br], capture_output=True, text=True).stdout.strip())
ours, theirs = show("HEAD"), show(br)
b = {f["id"]: f for f in base["findings"] if "id" in f}
t = {f["id"]: f for f in theirs["findings"] if "id" in f}
out = []
seen = set()
for f in ours["findings"]:
    if "id" not in f:
        continue
    i = f["id"]; seen.add(i)
    if i in t and t[i] != f and b.get(i) == f:
        out.append(t[i])          # only theirs changed it
    else:
        out.append(f)
for f in theirs["findings"]:
    if "id" in f and f["id"] not in seen and f["id"] not in b:
        out.append(f)             # new on their side (an entry they deleted stays deleted only if ours kept base: not handled, rare)
ours["findings"] = out
json.dump(ours, open("known_findings.json", "w"), indent=1, ensure_ascii=False)
print("known_findings merged:", len(out), "entries")
