(* C10/C11 - the properties as predicates on what can be observed of ONE run, written from the
   property texts (properties.jsonl C10, C11) and the manual's exit-status section; nothing here
   mentions streams, buffers or qpdf's classes. *)
From QV Require Import Base.Bytes.
From Coq Require Import Arith.
Local Open Scope nat_scope.

(* ---- C10 *)
Record c10_obs := mk_obs {
  ob_exit : nat;          (* exit status of the process *)
  ob_warned : bool;       (* a warning about the files processed was printed *)
  ob_errmsg : bool;       (* an error message was printed *)
  ob_complete : bool;     (* every output document exists and is byte-identical to the fault-free output *)
  ob_failure : bool;      (* creating, writing, flushing, closing or renaming an output failed at some point *)
  ob_wx0 : bool }.        (* --warning-exit-0 *)

(* numbers of the clauses that do not hold *)
Definition c10_obs_violations (o : c10_obs) : list nat :=
  let e := ob_exit o in
  (if (e =? 0) || (e =? 2) || (e =? 3) then [] else [1]) ++
  (* exit 0 only if no error and no warning (unless --warning-exit-0) *)
  (if (e =? 0) && (ob_errmsg o || (ob_warned o && negb (ob_wx0 o))) then [2] else []) ++
  (* exit 3: warnings, work completed *)
  (if (e =? 3) && (negb (ob_warned o) || ob_errmsg o || ob_wx0 o) then [3] else []) ++
  (* exit 2 comes with a message naming the failure *)
  (if (e =? 2) && negb (ob_errmsg o) then [4] else []) ++
  (* exit 0 or 3 implies that every output file is complete *)
  (if ((e =? 0) || (e =? 3)) && negb (ob_complete o) then [5] else []) ++
  (* any failure of an output operation: exit 2 *)
  (if ob_failure o && negb (e =? 2) then [6] else []) ++
  (* an error that was reported is an exit 2 *)
  (if ob_errmsg o && negb (e =? 2) then [7] else []).

Definition c10_obs_ok (o : c10_obs) : bool := match c10_obs_violations o with [] => true | _ => false end.

(* ---- C11: what is bound to a name after the run (or after the kill) *)
Inductive c11_cls := ClOrig | ClNew | ClAbsent | ClOther.
Definition c11_cls_eqb (a b : c11_cls) : bool :=
  match a, b with ClOrig, ClOrig | ClNew, ClNew | ClAbsent, ClAbsent | ClOther, ClOther => true | _, _ => false end.

Record c11_dirobs := mk_dirobs {
  do_in : c11_cls;        (* <in> *)
  do_backup : c11_cls;    (* <in>.~qpdf-orig or <in>.~qpdf-orig# *)
  do_temp : c11_cls }.    (* <in>.~qpdf-temp# *)

Definition c11_complete (c : c11_cls) := match c with ClOrig | ClNew => true | _ => false end.

(* at every instant: a complete copy exists somewhere, and <in> is never bound to a partial file *)
Definition c11_safe (d : c11_dirobs) : bool :=
  (c11_complete (do_in d) || c11_complete (do_backup d) || c11_complete (do_temp d)) &&
  negb (c11_cls_eqb (do_in d) ClOther).

(* after a run that was not killed. exit 0: only the new file; exit 3: new file + original kept as backup;
   exit 2: the original is still available under the input name or the backup name.
   unlink_failed: the final removal of the backup failed (reported, not an error: the backup stays). *)
Definition c11_final_ok (exit : nat) (unlink_failed : bool) (d : c11_dirobs) : bool :=
  if exit =? 0 then
    c11_cls_eqb (do_in d) ClNew && c11_cls_eqb (do_temp d) ClAbsent &&
    (if unlink_failed then c11_cls_eqb (do_backup d) ClOrig else c11_cls_eqb (do_backup d) ClAbsent)
  else if exit =? 3 then
    c11_cls_eqb (do_in d) ClNew && c11_cls_eqb (do_backup d) ClOrig && c11_cls_eqb (do_temp d) ClAbsent
  else if exit =? 2 then
    c11_cls_eqb (do_in d) ClOrig || c11_cls_eqb (do_backup d) ClOrig
  else false.

Definition c11_classify (orig new : list N) (f : option (list N)) : c11_cls :=
  match f with
  | None => ClAbsent
  | Some c => if list_eqb N.eqb c orig then ClOrig else if list_eqb N.eqb c new then ClNew else ClOther
  end.
