(* Specification of page ranges, written from manual/cli.rst ("Page Ranges"), not from the code:
   - a range is a comma-separated list of groups, optionally followed by :odd or :even;
   - a group is a number or a span a-b (ascending or descending); numbers are n, rN (from
     the end) or z (the last page);
   - a group preceded by x removes its pages from the previous (non-excluded) group;
     several x groups may follow one group; the first group cannot be an exclusion;
   - :odd / :even select by POSITION in the resulting list (1-based), not by page number.
   The denotation is a right fold (pending exclusions travel leftwards to their group),
   whereas the code runs left to right over two mutable vectors. *)
From QV Require Import Base.Bytes Struct.NumRange.
Local Open Scope Z_scope.

Record group := { g_excl : bool; g_first : num; g_last : option num }.
Record range := { r_groups : list group; r_parity : option bool (* Some false = odd *) }.

(* declarative split on a separator *)
Fixpoint split_on (c : N) (s : list N) : list (list N) :=
  match s with
  | [] => [[]]
  | x :: t => if N.eqb x c then [] :: split_on c t
              else match split_on c t with
                   | h :: r => (x :: h) :: r
                   | [] => [[x]]
                   end
  end.

Fixpoint all_some {A} (l : list (option A)) : option (list A) :=
  match l with
  | [] => Some []
  | None :: _ => None
  | Some a :: t => match all_some t with Some r => Some (a :: r) | None => None end
  end.

Definition group_of (g : list N) : option group :=
  match match_group g with
  | Some (ex, a, b) => Some {| g_excl := ex; g_first := a; g_last := b |}
  | None => None
  end.

Definition parse_syntax (s : list N) : option range :=
  let (body, suffix) := split_first 58%N s in
  let parity := match suffix with
                | None => Some None
                | Some suf => if list_eqb N.eqb suf s_odd then Some (Some false)
                              else if list_eqb N.eqb suf s_even then Some (Some true)
                              else None
                end in
  match parity with
  | None => None
  | Some par =>
      match body with
      | [] => Some {| r_groups := []; r_parity := par |}
      | _ => match all_some (map group_of (split_on 44%N body)) with
             | Some gs => Some {| r_groups := gs; r_parity := par |}
             | None => None
             end
      end
  end.

(* pages of one group, or None when a number is out of range *)
Definition den_group (max : Z) (g : group) : option (list Z) :=
  match eval_num max (g_first g) with
  | None => None
  | Some a =>
      match g_last g with
      | None => Some [a]
      | Some n2 => match eval_num max n2 with
                   | None => None
                   | Some b => Some (span_list a true b)
                   end
      end
  end.

(* right fold: (pages so far, exclusions waiting for their group) *)
Definition den_step (gp : group * list Z) (acc : list Z * list (list Z)) : list Z * list (list Z) :=
  let (g, pages) := gp in
  let (res, pend) := acc in
  if g_excl g then (res, pages :: pend)
  else (filter (fun n => negb (existsb (zmem n) pend)) pages ++ res, []).

Definition den_groups (gps : list (group * list Z)) : list Z :=
  fst (fold_right den_step ([], []) gps).

(* positional parity: 1-based odd positions are 0-based even indices *)
Definition positional (even : bool) (l : list Z) : list Z :=
  map snd (filter (fun ip => Bool.eqb (Nat.odd (fst ip)) even) (combine (seq 0 (length l)) l)).

Definition den (max : Z) (r : range) : option (list Z) :=
  match r_groups r with
  | g :: _ => if g_excl g then None else
      match all_some (map (den_group max) (r_groups r)) with
      | None => None
      | Some pages =>
          let l := den_groups (combine (r_groups r) pages) in
          Some (match r_parity r with None => l | Some e => positional e l end)
      end
  | [] => Some []
  end.

Definition range_spec (s : list N) (max : Z) : option (list Z) :=
  match parse_syntax s with
  | None => None
  | Some r => den max r
  end.

Definition nr_ok (r : nr_result) : option (list Z) :=
  match r with NrOk l => Some l | NrErr _ _ => None end.
