(* C19 - executable model of the two job front ends of qpdf, written from the C++:
     QPDFArgParser::parseArgs (libqpdf/QPDFArgParser.cc) over the GENERATED argv tables (Gen/JobTables.v <- auto_job_init.hh)
       + the hand-written handlers ArgParser::arg... (libqpdf/QPDFJob_argv.cc);
     JSON::checkSchema (libqpdf/JSON.cc) + JSONHandler::handle (libqpdf/JSONHandler.cc) over the GENERATED handler tree
       (Gen/JobTables.v <- auto_job_json_init.hh, auto_job_schema.hh) + the hand-written Handlers::begin.../setup... (libqpdf/QPDFJob_json.cc).
   Both produce the sequence of calls they make on the Config layer (QPDFJob::Config and its nested configs) and how they end.
   The Config layer itself (QPDFJob_config.cc) is shared by the front ends and is NOT modelled here: the correspondence replays the
   model's cfg_call sequence through the real QPDFJob::Config API and compares the resulting configuration with what the real front
   end built. Defects included (null c_pages when "pages" is a single object, page labels dropped when "setPageLabels" is a single
   string, user/owner password remembered across two --encrypt, the Config usage error of a second page range
   swallowed when the word also names a file). No proofs in this file. *)
From Coq Require Import String.
From Coq Require Import List NArith ZArith Bool.
From QV Require Import Base.Bytes Sys.JobTypes Gen.JobTables Struct.NumRange.
Import ListNotations.
Open Scope N_scope.

(* calls on the Config layer (cfg_call) and parsed job JSON values (jjv) are declared in Sys/JobTypes.v *)

(* how a front end ends. front-end usage errors by kind (the text is the implementation's business, the kind is compared):
   1 unrecognized argument            2 parameter required / not one of the choices     3 bare option given a parameter
   4 missing -- at end of a table     5 positional and dashed encryption arguments mixed 6 key length not 40/128/256
   7 unknown (third) positional       8 invalid page range in --pages     9 --pages: a second page range for the same file (the
     rejected Config call is the last call reported)
   20 JSON: bare key with non-empty value   21 JSON: value not one of the choices   22 JSON: value not of expected type / unexpected key
   23 JSON encrypt: two key lengths   24 JSON encrypt: no key length    25 JSON encrypt: password missing
   26 JSON pages: file required       27 JSON under/overlay: file required *)
Inductive fe_end := EFin | EFront (kind : N) | ECrash | ESchema | EHelp.
Record fe_res := mk_fe_res { r_calls : list cfg_call; r_end : fe_end }.

Definition dec_str (n : N) : bstr := dec_of_N n.

(* ================================================================ argv *)

Record astate := mk_astate {
  a_table : bstr;
  a_acc : list bstr;               (* accumulated_args, in order *)
  a_user : bstr; a_owner : bstr;
  a_pages_file : bool;             (* called_pages_file *)
  a_pages_range : bool;            (* called_pages_range *)
  a_range_set : bool;              (* Config state the --pages handler depends on: inputs.selections.back().range is not empty *)
  a_used_enc_pw : bool;            (* used_enc_password_args *)
  a_gave_input : bool; a_gave_output : bool;
  a_calls : list cfg_call              (* reversed *)
}.

Definition a_init : astate := mk_astate B"main" [] [] [] false false false false false false [].

(* QPDFJob::PagesConfig::file appends a selection with an empty range; ::range fills the last selection's range (and raises a usage
   error when it is not empty). Tracked because ArgParser::argPagesPositional calls range() inside the try block whose handler
   re-reads the word as a file name. *)
Definition range_set_after (c : cfg_call) (b : bool) : bool :=
  match c with
  | CCall obj meth args =>
      if bstr_eqb obj B"c_pages" && bstr_eqb meth B"file" then false
      else if bstr_eqb obj B"c_pages" && bstr_eqb meth B"range" then
        b || match args with (_ :: _) :: _ => true | _ => false end
      else b
  end.

Definition a_emit (c : cfg_call) (s : astate) : astate :=
  mk_astate (a_table s) (a_acc s) (a_user s) (a_owner s) (a_pages_file s) (a_pages_range s) (range_set_after c (a_range_set s)) (a_used_enc_pw s)
            (a_gave_input s) (a_gave_output s) (c :: a_calls s).
Definition a_set_table (t : bstr) (s : astate) : astate :=
  mk_astate t (a_acc s) (a_user s) (a_owner s) (a_pages_file s) (a_pages_range s) (a_range_set s) (a_used_enc_pw s)
            (a_gave_input s) (a_gave_output s) (a_calls s).
Definition a_set_acc (l : list bstr) (s : astate) : astate :=
  mk_astate (a_table s) l (a_user s) (a_owner s) (a_pages_file s) (a_pages_range s) (a_range_set s) (a_used_enc_pw s)
            (a_gave_input s) (a_gave_output s) (a_calls s).
Definition a_set_pw (u o : bstr) (used : bool) (s : astate) : astate :=
  mk_astate (a_table s) (a_acc s) u o (a_pages_file s) (a_pages_range s) (a_range_set s) used (a_gave_input s) (a_gave_output s) (a_calls s).
Definition a_set_pages (f r : bool) (s : astate) : astate :=
  mk_astate (a_table s) (a_acc s) (a_user s) (a_owner s) f r (a_range_set s) (a_used_enc_pw s) (a_gave_input s) (a_gave_output s) (a_calls s).
Definition a_set_gave (i o : bool) (s : astate) : astate :=
  mk_astate (a_table s) (a_acc s) (a_user s) (a_owner s) (a_pages_file s) (a_pages_range s) (a_range_set s) (a_used_enc_pw s) i o (a_calls s).

Definition is_nil {A} (l : list A) : bool := match l with [] => true | _ => false end.

Inductive astep := AOk (s : astate) | AErr (s : astate) (kind : N).

Definition MAIN : bstr := B"main".
Definition C_MAIN := B"c_main".
Definition C_PAGES := B"c_pages".
Definition C_ENC := B"c_enc".
Definition C_UO := B"c_uo".
Definition C_ATT := B"c_att".
Definition C_COPY_ATT := B"c_copy_att".
Definition C_GLOBAL := B"c_global".

(* QUtil::parse_numrange(arg, 0) does not throw *)
Definition numrange_ok (s : bstr) : bool :=
  match parse_numrange s 0%Z with NrOk _ => true | NrErr _ _ => false end.

(* ArgParser::argEncBits *)
Definition arg_enc_bits (arg : bstr) (s : astate) : astep :=
  match a_acc s with
  | _ :: _ => AErr s 5
  | [] =>
    let go (len : bstr) (tbl : bstr) := AOk (a_emit (CCall C_MAIN B"encrypt" [len; a_user s; a_owner s]) (a_set_table tbl s)) in
    if bstr_eqb arg B"40" then go B"40" B"40-bit-encryption"
    else if bstr_eqb arg B"128" then go B"128" B"128-bit-encryption"
    else if bstr_eqb arg B"256" then go B"256" B"256-bit-encryption"
    else AErr s 6
  end.

(* the hand-written handlers of QPDFJob_argv.cc, by name. files: names for which QUtil::file_can_be_opened holds *)
Definition a_manual (files : list bstr) (h : bstr) (arg : bstr) (s : astate) : astep :=
  if bstr_eqb h B"argPositional" then
    if negb (a_gave_input s) then AOk (a_set_gave true (a_gave_output s) (a_emit (CCall C_MAIN B"inputFile" [arg]) s))
    else if negb (a_gave_output s) then AOk (a_set_gave (a_gave_input s) true (a_emit (CCall C_MAIN B"outputFile" [arg]) s))
    else AErr s 7
  else if bstr_eqb h B"argEmpty" then AOk (a_set_gave true (a_gave_output s) (a_emit (CCall C_MAIN B"emptyInput" []) s))
  else if bstr_eqb h B"argReplaceInput" then AOk (a_set_gave (a_gave_input s) true (a_emit (CCall C_MAIN B"replaceInput" []) s))
  else if bstr_eqb h B"argEncrypt" then
    AOk (a_set_table B"encryption" (a_set_acc [] (a_emit (CCall C_MAIN B"encrypt" [B"0"; []; []]) s)))
  else if bstr_eqb h B"argEncPositional" then
    if a_used_enc_pw s then AErr s 5 else
    let acc := a_acc s ++ [arg] in
    match acc with
    | u :: o :: l :: _ => arg_enc_bits l (a_set_acc [] (a_set_pw u o (a_used_enc_pw s) s))
    | _ => AOk (a_set_acc acc s)
    end
  else if bstr_eqb h B"argEncUserPassword" then
    match a_acc s with _ :: _ => AErr s 5 | [] => AOk (a_set_pw arg (a_owner s) true s) end
  else if bstr_eqb h B"argEncOwnerPassword" then
    match a_acc s with _ :: _ => AErr s 5 | [] => AOk (a_set_pw (a_user s) arg true s) end
  else if bstr_eqb h B"argEncBits" then arg_enc_bits arg s
  else if bstr_eqb h B"argPages" then AOk (a_set_table B"pages" (a_set_acc [] (a_emit (CCall C_MAIN B"pages" []) s)))
  else if bstr_eqb h B"argPagesPositional" then
    if negb (a_pages_file s) then AOk (a_set_pages true (a_pages_range s) (a_emit (CCall C_PAGES B"file" [arg]) s))
    else if a_pages_range s then AOk (a_set_pages true false (a_emit (CCall C_PAGES B"file" [arg]) s))
    else if numrange_ok arg && negb (a_range_set s) then
      AOk (a_set_pages true true (a_emit (CCall C_PAGES B"range" [arg]) s))
    (* not a page range, or c_pages->range(arg) raised "--range already specified for this file" inside the same try block: the
       handler of that block re-reads the word as a file name, and re-raises the message when it is not one *)
    else if bstr_eqb arg B"." || bmem arg files then AOk (a_set_pages true false (a_emit (CCall C_PAGES B"file" [arg]) s))
    else if numrange_ok arg then AErr (a_emit (CCall C_PAGES B"range" [arg]) s) 9
    else AErr s 8
  else if bstr_eqb h B"argEndPages" then AOk (a_emit (CCall C_PAGES B"endPages" []) s)
  else if bstr_eqb h B"argUnderlay" then AOk (a_set_table B"underlay/overlay" (a_emit (CCall C_MAIN B"underlay" []) s))
  else if bstr_eqb h B"argOverlay" then AOk (a_set_table B"underlay/overlay" (a_emit (CCall C_MAIN B"overlay" []) s))
  else if bstr_eqb h B"argAddAttachment" then AOk (a_set_table B"attachment" (a_emit (CCall C_MAIN B"addAttachment" []) s))
  else if bstr_eqb h B"argCopyAttachmentsFrom" then AOk (a_set_table B"copy-attachment" (a_emit (CCall C_MAIN B"copyAttachmentsFrom" []) s))
  else if bstr_eqb h B"argEndEncryption" || bstr_eqb h B"argEnd40BitEncryption" || bstr_eqb h B"argEnd128BitEncryption"
          || bstr_eqb h B"argEnd256BitEncryption" then AOk (a_emit (CCall C_ENC B"endEncrypt" []) s)
  else if bstr_eqb h B"argUOPositional" then AOk (a_emit (CCall C_UO B"file" [arg]) s)
  else if bstr_eqb h B"argEndUnderlayOverlay" then AOk (a_emit (CCall C_UO B"endUnderlayOverlay" []) s)
  else if bstr_eqb h B"argAttPositional" then AOk (a_emit (CCall C_ATT B"file" [arg]) s)
  else if bstr_eqb h B"argEndAttachment" then AOk (a_emit (CCall C_ATT B"endAddAttachment" []) s)
  else if bstr_eqb h B"argCopyAttPositional" then AOk (a_emit (CCall C_COPY_ATT B"file" [arg]) s)
  else if bstr_eqb h B"argEndCopyAttachment" then AOk (a_emit (CCall C_COPY_ATT B"endCopyAttachmentsFrom" []) s)
  else if bstr_eqb h B"argSetPageLabels" then AOk (a_set_acc [] (a_set_table B"set-page-labels" s))
  else if bstr_eqb h B"argPageLabelsPositional" then AOk (a_set_acc (a_acc s ++ [arg]) s)
  else if bstr_eqb h B"argEndSetPageLabels" then AOk (a_set_acc [] (a_emit (CCall C_MAIN B"setPageLabels" (a_acc s)) s))
  else if bstr_eqb h B"argGlobal" then AOk (a_set_table B"global" (a_set_acc [] (a_emit (CCall C_MAIN B"global" []) s)))
  else if bstr_eqb h B"argEndGlobal" then AOk (a_emit (CCall C_GLOBAL B"endGlobal" []) s)
  else AErr s 1.   (* a handler name the model does not know: treated as unrecognized; the correspondence will show it *)

Definition a_lookup (tbl flag : bstr) : option aentry :=
  find (fun e => bstr_eqb (ae_table e) tbl && bstr_eqb (ae_flag e) flag &&
                 match ae_kind e with KPositional => false | _ => true end) argv_table.
Definition a_lookup_pos (tbl : bstr) : option aentry :=
  find (fun e => bstr_eqb (ae_table e) tbl && match ae_kind e with KPositional => true | _ => false end) argv_table.

(* position of the first '=' at index >= 1 : (before, after) *)
Fixpoint split_eq_from1_aux (s : bstr) : option (bstr * bstr) :=
  match s with
  | [] => None
  | c :: r => if c =? 61 then Some ([], r)
              else match split_eq_from1_aux r with Some (a, b) => Some (c :: a, b) | None => None end
  end.
Definition split_eq_from1 (s : bstr) : option (bstr * bstr) :=
  match s with
  | [] => None
  | c :: r => match split_eq_from1_aux r with Some (a, b) => Some (c :: a, b) | None => None end
  end.

Definition run_target (files : list bstr) (e : aentry) (param : bstr) (s : astate) : astep :=
  match ae_target e with
  | TConfig obj meth =>
      match ae_kind e with
      | KBare => AOk (a_emit (CCall obj meth []) s)
      | _ => AOk (a_emit (CCall obj meth [param]) s)
      end
  | TManual h => a_manual files h param s
  end.

(* "-x" / "--x": the option word without its dashes; None: positional (no leading '-', or the single word "-") *)
Definition strip_dashes (arg : bstr) : option bstr :=
  match arg with
  | c :: c2 :: r => if c =? 45 then Some (if c2 =? 45 then r else c2 :: r) else None
  | _ => None
  end.
Definition starts_with_dash (f : bstr) : bool := match f with c :: _ => c =? 45 | [] => false end.

Definition is_help_only (flag : bstr) : bool :=
  bstr_eqb flag B"help" || bstr_eqb flag B"completion-bash" || bstr_eqb flag B"completion-zsh".

(* the checks QPDFArgParser::parseArgs makes on a found entry, then its handler *)
Definition a_apply (files : list bstr) (e : aentry) (have_param : bool) (param : bstr) (s : astate) : astep :=
  let needed := match ae_kind e with KParam | KChoices => true | _ => false end in
  if (needed && negb have_param) || (negb (is_nil (ae_choices e)) && have_param && negb (bmem param (ae_choices e))) then AErr s 2
  else match ae_kind e with
       | KBare | KEnd => if have_param then AErr s 3 else run_target files e [] s
       | _ => run_target files e param s
       end.

(* one command-line word. sole: the word is the only argument (help-table options are recognised only then) *)
Definition a_step (files : list bstr) (sole : bool) (arg : bstr) (s : astate) : astep + unit (* inr tt = help option *) :=
  if bstr_eqb arg B"--" then
    (* "--": the end handler of the current table (a no-op registered by hand in the main table), then back to main *)
    if bstr_eqb (a_table s) MAIN then inl (AOk s)
    else match a_lookup (a_table s) B"--" with
         | Some e => match run_target files e [] s with
                     | AOk s' => inl (AOk (a_set_table MAIN s'))
                     | AErr s' k => inl (AErr s' k)
                     end
         | None => inl (AErr s 1)
         end
  else
  match strip_dashes arg with
  | Some arg1 =>
      let '(flag, have_param, param) :=
        match split_eq_from1 arg1 with
        | Some (f, p) => (f, true, p)
        | None => (arg1, false, [])
        end in
      if sole && match a_lookup B"help" flag with Some _ => true | None => false end then inr tt
      else if is_help_only flag then (if sole then inr tt else inl (AErr s 1))
      else if is_nil flag || starts_with_dash flag then inl (AErr s 1)
      else match a_lookup (a_table s) flag with
           | None => inl (AErr s 1)
           | Some e => inl (a_apply files e have_param param s)
           end
  | None =>
      (* positional (also the single word "-") *)
      match a_lookup_pos (a_table s) with
      | None => inl (AErr s 1)
      | Some e => inl (run_target files e arg s)
      end
  end.

Fixpoint a_loop (files : list bstr) (sole : bool) (args : list bstr) (s : astate) : fe_res :=
  match args with
  | [] =>
      (* doFinalChecks *)
      if bstr_eqb (a_table s) MAIN then mk_fe_res (rev' (CCall C_MAIN B"checkConfiguration" [] :: a_calls s)) EFin
      else mk_fe_res (rev' (a_calls s)) (EFront 4)
  | a :: rest =>
      match a_step files sole a s with
      | inr _ => mk_fe_res (rev' (a_calls s)) EHelp
      | inl (AOk s') => a_loop files sole rest s'
      | inl (AErr s' k) => mk_fe_res (rev' (a_calls s')) (EFront k)
      end
  end.

(* QPDFJob::initializeFromArgv without argv[0] *)
Definition front_argv (files : list bstr) (args : list bstr) : fe_res :=
  a_loop files (match args with [_] => true | _ => false end) args a_init.

(* ================================================================ job JSON *)


Fixpoint jlookup (k : bstr) (l : list (bstr * jjv)) : option jjv :=
  match l with [] => None | (k', v) :: r => if bstr_eqb k k' then Some v else jlookup k r end.

Definition ARRK : bstr := B"[]".

(* ---- JSON::checkSchema(schema, f_optional): true = no error *)
Definition schema_node (p : list bstr) : option snode :=
  match find (fun x => blist_eqb (fst x) p) schema_table with Some x => Some (snd x) | None => None end.
Definition schema_has_child (p : list bstr) (k : bstr) : bool :=
  existsb (fun x => blist_eqb (fst x) (p ++ [k])) schema_table.

Fixpoint check_schema (p : list bstr) (v : jjv) {struct v} : bool :=
  let node := match p with [] => Some SDict | _ => schema_node p end in
  match node with
  | None => false
  | Some SString => true
  | Some SNull => false
  | Some SDict =>
      match v with
      | JJObj l =>
          (fix go (l : list (bstr * jjv)) : bool :=
             match l with
             | [] => true
             | (k, x) :: r => (if schema_has_child p k then check_schema (p ++ [k]) x else false) && go r
             end) l
      | _ => false
      end
  | Some SArray =>
      match v with
      | JJArr l =>
          (fix go (l : list jjv) : bool :=
             match l with [] => true | x :: r => check_schema (p ++ [ARRK]) x && go r end) l
      | JJStr _ => (match schema_node (p ++ [ARRK]) with Some SString => true | _ => false end)
      | JJOther => (match schema_node (p ++ [ARRK]) with Some SString => true | _ => false end)
      | JJObj l =>
          (* a single object where the schema has a one-element array: checked against the element *)
          match schema_node (p ++ [ARRK]) with
          | Some SString => true
          | Some SDict =>
              (fix go (l : list (bstr * jjv)) : bool :=
                 match l with
                 | [] => true
                 | (k, x) :: r => (if schema_has_child (p ++ [ARRK]) k then check_schema (p ++ [ARRK; k]) x else false) && go r
                 end) l
          | _ => false
          end
      end
  end.

(* ---- handler tree *)
Record jstate := mk_jstate {
  j_acc : list bstr;            (* accumulated_args *)
  j_pages_open : bool;          (* c_pages != nullptr *)
  j_calls : list cfg_call           (* reversed *)
}.
Definition j_emit (c : cfg_call) (s : jstate) : jstate := mk_jstate (j_acc s) (j_pages_open s) (c :: j_calls s).
Inductive jstep := JOk (s : jstate) | JErr (s : jstate) (e : fe_end).

Definition j_entries (p : list bstr) : list jentry := filter (fun e => blist_eqb (je_path e) p) json_table.

Definition is_ignore (h : bstr) : bool :=
  bstr_eqb h B"setupEncryptUserPassword" || bstr_eqb h B"setupEncryptOwnerPassword" || bstr_eqb h B"setupPagesFile" ||
  bstr_eqb h B"setupOverlayFile" || bstr_eqb h B"setupUnderlayFile".

(* the string handlers installed by the hand-written setup... functions: (kind, cfg_call builder) *)
Definition j_manual_string (h : bstr) (v : bstr) (s : jstate) : jstep :=
  let param obj meth := JOk (j_emit (CCall obj meth [v]) s) in
  let bare obj meth := match v with [] => JOk (j_emit (CCall obj meth []) s) | _ => JErr s (EFront 20) end in
  if bstr_eqb h B"setupInputFile" then param C_MAIN B"inputFile"
  else if bstr_eqb h B"setupPassword" then param C_MAIN B"password"
  else if bstr_eqb h B"setupEmpty" then bare C_MAIN B"emptyInput"
  else if bstr_eqb h B"setupOutputFile" then param C_MAIN B"outputFile"
  else if bstr_eqb h B"setupReplaceInput" then bare C_MAIN B"replaceInput"
  else if bstr_eqb h B"setupAddAttachmentFile" then param C_ATT B"file"
  else if bstr_eqb h B"setupCopyAttachmentsFromFile" then param C_COPY_ATT B"file"
  else if bstr_eqb h B"setupCopyAttachmentsFromPassword" then param C_COPY_ATT B"password"
  else if bstr_eqb h B"setupPagesPassword" then param C_PAGES B"password"
  else if bstr_eqb h B"setupOverlayPassword" || bstr_eqb h B"setupUnderlayPassword" then param C_UO B"password"
  else if bstr_eqb h B"setupSetPageLabels" then JOk (mk_jstate (j_acc s ++ [v]) (j_pages_open s) (j_calls s))
  else JErr s (EFront 22).

(* Handlers::beginEncrypt: walks the dictionary in key order *)
Fixpoint enc_scan (l : list (bstr * jjv)) (klen : bstr) (u o : option bstr) : option (bstr * option bstr * option bstr) :=
  match l with
  | [] => Some (klen, u, o)
  | (k, v) :: r =>
      if bstr_eqb k B"40bit" || bstr_eqb k B"128bit" || bstr_eqb k B"256bit" then
        match klen with
        | [] => enc_scan r (if bstr_eqb k B"40bit" then B"40" else if bstr_eqb k B"128bit" then B"128" else B"256") u o
        | _ => None        (* duplicate key length *)
        end
      else if bstr_eqb k B"userPassword" then enc_scan r klen (match v with JJStr x => Some x | _ => None end) o
      else if bstr_eqb k B"ownerPassword" then enc_scan r klen u (match v with JJStr x => Some x | _ => None end)
      else enc_scan r klen u o
  end.

Definition j_begin_dict (h : bstr) (l : list (bstr * jjv)) (s : jstate) : jstep :=
  let file_of := match jlookup B"file" l with Some (JJStr f) => Some f | _ => None end in
  if bstr_eqb h B"beginEncrypt" then
    match enc_scan l [] None None with
    | None => JErr s (EFront 23)
    | Some ([], _, _) => JErr s (EFront 24)
    | Some (klen, Some u, Some o) => JOk (j_emit (CCall C_MAIN B"encrypt" [klen; u; o]) s)
    | Some _ => JErr s (EFront 25)
    end
  else if bstr_eqb h B"beginAddAttachment" then JOk (j_emit (CCall C_MAIN B"addAttachment" []) s)
  else if bstr_eqb h B"beginCopyAttachmentsFrom" then JOk (j_emit (CCall C_MAIN B"copyAttachmentsFrom" []) s)
  else if bstr_eqb h B"beginPages" then
    match file_of with
    | None => JErr s (EFront 26)
    | Some f => if j_pages_open s then JOk (j_emit (CCall C_PAGES B"file" [f]) s) else JErr s ECrash
    end
  else if bstr_eqb h B"beginOverlay" then
    let s1 := j_emit (CCall C_MAIN B"overlay" []) s in
    match file_of with None => JErr s1 (EFront 27) | Some f => JOk (j_emit (CCall C_UO B"file" [f]) s1) end
  else if bstr_eqb h B"beginUnderlay" then
    let s1 := j_emit (CCall C_MAIN B"underlay" []) s in
    match file_of with None => JErr s1 (EFront 27) | Some f => JOk (j_emit (CCall C_UO B"file" [f]) s1) end
  else if bstr_eqb h B"beginGlobal" then JOk (j_emit (CCall C_MAIN B"global" []) s)
  else JOk s.   (* beginEncrypt40bit/128bit/256bit: nothing *)

Definition j_end_dict (h : bstr) (s : jstate) : jstep :=
  if bstr_eqb h B"beginEncrypt" then JOk (j_emit (CCall C_ENC B"endEncrypt" []) s)
  else if bstr_eqb h B"beginAddAttachment" then JOk (j_emit (CCall C_ATT B"endAddAttachment" []) s)
  else if bstr_eqb h B"beginCopyAttachmentsFrom" then JOk (j_emit (CCall C_COPY_ATT B"endCopyAttachmentsFrom" []) s)
  else if bstr_eqb h B"beginOverlay" || bstr_eqb h B"beginUnderlay" then JOk (j_emit (CCall C_UO B"endUnderlayOverlay" []) s)
  else if bstr_eqb h B"beginGlobal" then JOk (j_emit (CCall C_GLOBAL B"endGlobal" []) s)
  else JOk s.

Definition j_begin_array (h : bstr) (s : jstate) : jstep :=
  if bstr_eqb h B"beginPagesArray" then JOk (mk_jstate (j_acc s) true (CCall C_MAIN B"pages" [] :: j_calls s))
  else JOk s.
Definition j_end_array (h : bstr) (s : jstate) : jstep :=
  if bstr_eqb h B"beginPagesArray" then
    (if j_pages_open s then JOk (mk_jstate (j_acc s) false (CCall C_PAGES B"endPages" [] :: j_calls s)) else JErr s ECrash)
  else if bstr_eqb h B"beginSetPageLabelsArray" then JOk (mk_jstate [] (j_pages_open s) (CCall C_MAIN B"setPageLabels" (j_acc s) :: j_calls s))
  else JOk s.

Definition handler_name (e : jentry) : bstr := match je_target e with TManual h => h | TConfig _ _ => [] end.

Definition is_jmanual (e : jentry) : bool := match je_kind e with JManual => true | _ => false end.
Definition is_jscalar (e : jentry) : bool := match je_kind e with JScalar _ => true | _ => false end.
Definition is_jdict (e : jentry) : bool := match je_kind e with JDict => true | _ => false end.
Definition is_jarray (e : jentry) : bool := match je_kind e with JArray => true | _ => false end.

(* the string handlers installed by Handlers::addBare / addParameter / addChoices *)
Definition j_scalar_apply (e : jentry) (x : bstr) (s : jstate) : jstep :=
  match je_target e, je_kind e with
  | TConfig obj meth, JScalar KBare => if is_nil x then JOk (j_emit (CCall obj meth []) s) else JErr s (EFront 20)
  | TConfig obj meth, JScalar KParam => JOk (j_emit (CCall obj meth [x]) s)
  | TConfig obj meth, JScalar KChoices =>
      if bmem x (je_choices e) then JOk (j_emit (CCall obj meth [x]) s) else JErr s (EFront 21)
  | TConfig obj meth, JScalar KOptChoices =>
      if is_nil x || bmem x (je_choices e) then JOk (j_emit (CCall obj meth [x]) s) else JErr s (EFront 21)
  | _, _ => JErr s (EFront 22)
  end.

(* a string value met by the handlers registered at path p (any handler first, then the string handler) *)
Definition j_string_at (p : list bstr) (x : bstr) (s : jstate) : option jstep :=
  let es := j_entries p in
  match find is_jmanual es with
  | Some e => Some (if is_ignore (handler_name e) then JOk s else j_manual_string (handler_name e) x s)
  | None => match find is_jscalar es with
            | Some e => Some (j_scalar_apply e x s)
            | None => None
            end
  end.

(* JSONHandler::handle at path p. The handlers registered at p are the entries of json_table with that path. *)
Fixpoint j_handle (p : list bstr) (v : jjv) (s : jstate) {struct v} : jstep :=
  let es := j_entries p in
  let not_expected := JErr s (EFront 22) in
  let item_path := p ++ [ARRK] in
  let has_array := match find is_jarray es with Some _ => true | None => false end in
  match v with
  | JJStr x =>
      match j_string_at p x s with
      | Some r => r
      | None =>
          (* fallback handler: the array's item handler applied to the value itself, without the array begin/end handlers *)
          if has_array then match j_string_at item_path x s with Some r => r | None => not_expected end
          else not_expected
      end
  | JJOther =>
      (* an "any" handler (ignoreItem) accepts every value *)
      match find is_jmanual es with
      | Some e => if is_ignore (handler_name e) then JOk s else not_expected
      | None => not_expected
      end
  | JJObj l =>
      let walk (dp : list bstr) (h : bstr) :=
        match j_begin_dict h l s with
        | JErr s' e => JErr s' e
        | JOk s1 =>
            let r :=
              (fix go (l : list (bstr * jjv)) (s : jstate) : jstep :=
                 match l with
                 | [] => JOk s
                 | (k, x) :: rest =>
                     match j_entries (dp ++ [k]) with
                     | [] => JErr s (EFront 22)
                     | _ => match j_handle (dp ++ [k]) x s with
                            | JOk s' => go rest s'
                            | JErr s' e => JErr s' e
                            end
                     end
                 end) l s1 in
            match r with
            | JOk s2 => j_end_dict h s2
            | JErr s' e => JErr s' e
            end
        end in
      match find is_jmanual es with
      | Some e => if is_ignore (handler_name e) then JOk s else not_expected
      | None =>
        match find is_jdict es with
        | Some e => walk p (handler_name e)
        | None =>
            if has_array then
              match find is_jdict (j_entries item_path) with
              | Some e2 => walk item_path (handler_name e2)
              | None => not_expected
              end
            else not_expected
        end
      end
  | JJArr items =>
      match find is_jmanual es with
      | Some e => if is_ignore (handler_name e) then JOk s else not_expected
      | None =>
        match find is_jarray es with
        | None => not_expected
        | Some e =>
            match j_begin_array (handler_name e) s with
            | JErr s' en => JErr s' en
            | JOk s1 =>
                let r :=
                  (fix go (l : list jjv) (s : jstate) : jstep :=
                     match l with
                     | [] => JOk s
                     | x :: rest =>
                         match x with
                         | JJArr _ => JErr s (EFront 22)      (* no array-of-array handlers in this tree *)
                         | _ => match j_handle item_path x s with
                                | JOk s' => go rest s'
                                | JErr s' en => JErr s' en
                                end
                         end
                     end) items s1 in
                match r with
                | JOk s2 => j_end_array (handler_name e) s2
                | JErr s' en => JErr s' en
                end
            end
        end
      end
  end.

(* the members of the top-level object, in the order the parser delivers them *)
Fixpoint j_top_members (l : list (bstr * jjv)) (s : jstate) : jstep :=
  match l with
  | [] => JOk s
  | (k, x) :: rest =>
      match j_entries [k] with
      | [] => JErr s (EFront 22)
      | _ => match j_handle [k] x s with
             | JOk s' => j_top_members rest s'
             | JErr s' e => JErr s' e
             end
      end
  end.

(* QPDFJob::initializeFromJson(json, partial) after JSON::parse: schema check, then the handler tree from the top-level object *)
Definition front_json (partial : bool) (v : jjv) : fe_res :=
  if negb (check_schema [] v) then mk_fe_res [] ESchema else
  match v with
  | JJObj l =>
      match j_top_members l (mk_jstate [] false []) with
      | JOk s => if partial then mk_fe_res (rev' (j_calls s)) EFin
                 else mk_fe_res (rev' (CCall C_MAIN B"checkConfiguration" [] :: j_calls s)) EFin
      | JErr s e => mk_fe_res (rev' (j_calls s)) e
      end
  | _ => mk_fe_res [] ESchema
  end.
