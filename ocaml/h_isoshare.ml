(* handlers: Sys/HeapShare model (C20, storage shared between documents).  History syntax: harness/drv_isolation.cc
   (XWorld) / harness/c20.py.  I/O only: the token list of a generated text is turned into the tree it denotes. *)
open Qvmodel
open Runner

let xs_tail s = String.sub s 1 (String.length s - 1)
let xs_key (s : string) : n = n_of_int (Char.code s.[0])
let xs_nat s = nat_of_int (int_of_string s)

(* tokens (see c20.py): i<z> N<c> n [ ] < >  separated by '.' *)
let xs_tree (s : string) : xtree =
  let toks = ref (List.filter (fun t -> t <> "") (String.split_on_char '.' s)) in
  let next () = match !toks with [] -> failwith "xs_tree: eof" | t :: r -> toks := r; t in
  let peek () = match !toks with [] -> "" | t :: _ -> t in
  let rec value t =
    match t.[0] with
    | 'n' -> XtNull
    | 'i' -> XtInt (z_of_int (int_of_string (xs_tail t)))
    | 'N' -> XtName (xs_key (xs_tail t))
    | '[' -> let acc = ref [] in
             while peek () <> "]" do acc := value (next ()) :: !acc done;
             ignore (next ()); XtArr (List.rev !acc)
    | '<' -> let acc = ref [] in
             while peek () <> ">" do
               let k = next () in
               if k.[0] <> 'N' then failwith "xs_tree: key";
               let v = value (next ()) in
               acc := (xs_key (xs_tail k), v) :: !acc
             done;
             ignore (next ()); XtDict (List.rev !acc)
    | _ -> failwith ("xs_tree: token " ^ t) in
  value (next ())

let xs_expr (s : string) : xexpr =
  match String.split_on_char '/' s with
  | [] -> failwith "xs_expr"
  | h :: steps ->
    let head = match h.[0] with
      | 'r' -> XhRoot (xs_nat (xs_tail h))
      | 'o' -> XhObj (n_of_int (int_of_string (xs_tail h)))
      | 'I' -> XhInt (z_of_int (int_of_string (xs_tail h)))
      | 'U' -> XhNull
      | 'Y' -> XhName (xs_key (xs_tail h))
      | 'B' -> XhArr
      | 'G' -> XhDictNew
      | _ -> failwith "xs_expr head" in
    (head, List.map (fun st -> match st.[0] with
      | 'i' -> XnIdx (xs_nat (xs_tail st))
      | 'k' -> XnKey (xs_key (xs_tail st))
      | 'd' -> XnDict
      | _ -> failwith "xs_expr step") steps)

let xs_op (s : string) : nat * xop =
  match String.split_on_char ',' s with
  | "D" :: d :: _ -> (xs_nat d, XoNewDoc)
  | ["F"; d; imm] -> (xs_nat d, XoOpenDoc (imm = "1"))
  | ["P"; d; r; toks] -> (xs_nat d, XoParse (xs_nat r, xs_tree toks))
  | ["H"; d; r; hx] -> (xs_nat d, XoHold (xs_nat r, xs_expr hx))
  | ["M"; d; hx] -> (xs_nat d, XoMakeInd (xs_expr hx))
  | ["K"; d; hx; k; vx] -> (xs_nat d, XoInsert (xs_expr hx, XwKey (xs_key k), xs_expr vx))
  | ["A"; d; hx; vx] -> (xs_nat d, XoInsert (xs_expr hx, XwApp, xs_expr vx))
  | ["S"; d; hx; n; vx] -> (xs_nat d, XoInsert (xs_expr hx, XwIdx (xs_nat n), xs_expr vx))
  | ["R"; d; hx; k] -> (xs_nat d, XoDelete (xs_expr hx, XwKey (xs_key k)))
  | ["E"; d; hx; n] -> (xs_nat d, XoDelete (xs_expr hx, XwIdx (xs_nat n)))
  | "X" :: d :: _ -> (xs_nat d, XoDestroy)
  | "W" :: d :: _ -> (xs_nat d, XoObserve)
  | ["N"; d; r; hex] -> (xs_nat d, XoNewStream (xs_nat r, unhexbytes hex))
  | ["Z"; d; hx; hex] -> (xs_nat d, XoReplaceData (xs_expr hx, unhexbytes hex))
  | ["C"; d; s; hx; r] -> (xs_nat d, XoCopy (xs_nat s, xs_expr hx, xs_nat r))
  | ["G"; d; hx; br] | ["g"; d; hx; br] -> (xs_nat d, XoGetData (xs_expr hx, xs_nat br))
  | ["U"; d; br; pos; byte] -> (xs_nat d, XoMutate (xs_nat br, xs_nat pos, n_of_int (int_of_string byte)))
  | ["B"; d; hx; br] -> (xs_nat d, XoGive (xs_expr hx, xs_nat br))
  | ["V"; d; br] -> (xs_nat d, XoWriteBuf (xs_nat br))
  | _ -> failwith ("xs_op " ^ s)

let xs_res = function IrOk -> "ok" | IrSkip -> "skip" | IrLogic -> "!L"

let () =
  register "isox" (fun args ->
    let hist = match args with [] -> "" | h :: _ -> h in
    let ops = List.filter (fun s -> s <> "") (String.split_on_char ';' hist) in
    let (init, steps) = hx_run (List.map xs_op ops) in
    "init|" ^ string_of_bytes init ^
    String.concat "" (List.map (fun (r, (d, sep)) ->
      "#" ^ xs_res r ^ (if sep then "" else "^nosep") ^ "|" ^ string_of_bytes d) steps))
