(* handlers: Obj/ models (object queue) *)
open Qvmodel
open Runner

let () =
  (* queue <id:c1,c2;id:...> <r1,r2,...>  ->  written ids, then id=number pairs *)
  register "queue" (fun args -> match args with
    | [g; roots] ->
      let graph = if g = "-" then [] else
          List.map (fun item -> match String.split_on_char ':' item with
              | [k; cs] -> (n_of_int (int_of_string k), List.map n_of_int (ints_of (if cs = "" then "-" else cs)))
              | [k] -> (n_of_int (int_of_string k), [])
              | _ -> failwith "graph") (String.split_on_char ';' g) in
      let rs = List.map n_of_int (ints_of roots) in
      let w = written graph rs in
      nlist w ^ " " ^ String.concat "," (List.map (fun x ->
          match renumber graph rs x with Some v -> Printf.sprintf "%d=%d" (int_of_n x) (int_of_n v) | None -> "") w)
    | _ -> "?args")

(* ---- writer model: document description file -> bytes ---- *)
let hx s = if s = "" then [] else unhexbytes s

let rec parse_o (toks : string list) : obj * string list =
  match toks with
  | [] -> failwith "obj"
  | t :: rest ->
    let body = String.sub t 1 (String.length t - 1) in
    (match t.[0] with
     | 'n' -> (ONull, rest)
     | 't' -> (OBool true, rest)
     | 'f' -> (OBool false, rest)
     | 'i' -> (OInt (z_of_int (int_of_string body)), rest)
     | 'r' -> (OReal (hx body), rest)
     | 's' -> (OStr (hx body), rest)
     | 'N' -> (OName (hx body), rest)
     | 'R' -> (ORef (n_of_int (int_of_string body)), rest)
     | 'a' ->
       let n = int_of_string body in
       let rec go k r acc = if k = 0 then (List.rev acc, r) else let (o, r') = parse_o r in go (k - 1) r' (o :: acc) in
       let (l, r) = go n rest [] in (OArr l, r)
     | 'd' ->
       let n = int_of_string body in
       let rec go k r acc = if k = 0 then (List.rev acc, r) else
           (match r with
            | key :: r1 -> let (o, r2) = parse_o r1 in go (k - 1) r2 ((hx (String.sub key 1 (String.length key - 1)), o) :: acc)
            | [] -> failwith "dict") in
       let (l, r) = go n rest [] in (ODict l, r)
     | _ -> failwith ("tok " ^ t))

let () =
  register "write_docf" (fun args -> match args with
    | [inp; outp] ->
      let ic = open_in inp in
      let objs = ref [] and trailer = ref [] and ver = ref [] and id1 = ref [] and id2 = ref [] in
      (try while true do
           let line = input_line ic in
           match String.split_on_char ' ' line with
           | "version" :: [h] -> ver := hx h
           | "id1" :: [h] -> id1 := hx h
           | "id2" :: [h] -> id2 := hx h
           | "trailer" :: toks -> (match fst (parse_o toks) with ODict d -> trailer := d | _ -> ())
           | "obj" :: id :: toks -> objs := (n_of_int (int_of_string id), { i_val = fst (parse_o toks); i_stream = None }) :: !objs
           | "stream" :: id :: data :: toks ->
             objs := (n_of_int (int_of_string id), { i_val = fst (parse_o toks); i_stream = Some (hx (if data = "-" then "" else data)) }) :: !objs
           | _ -> ()
         done with End_of_file -> close_in ic);
      let d = { d_objects = List.rev !objs; d_trailer = !trailer; d_version = !ver; d_id1 = !id1; d_id2 = !id2 } in
      let out = write_doc wm_unparse_string wm_unparse_name d in
      let oc = open_out_bin outp in
      output_string oc (string_of_bytes out); close_out oc;
      (* wf_doc_b: the decidable hypothesis of write_read_strict_b (proved sound in Obj/C01WfProofs.v) *)
      "ok " ^ string_of_int (List.length out) ^ (if wf_doc_b d then " wf" else " notwf")
    | _ -> "?args")
