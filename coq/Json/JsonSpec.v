(* C14 - SPECIFICATION. Written from RFC 8259 (JSON), RFC 3629 (UTF-8), RFC 2781 (UTF-16) and
   ISO 32000-1 7.3.3 / 7.9.2 / Annex D.2 (numbers, text strings, PDFDocEncoding); nothing here is
   taken from qpdf.  Everything is executable: `json_valid` and `utf8_valid` are extracted and judge
   every JSON text the real qpdf emits.

   json_valid l  <->  l is, as a WHOLE, one RFC 8259 JSON text:
     ws value ws, values = object | array | number | string | true | false | null,
     number = [ minus ] int [ frac ] [ exp ] exactly, strings without raw control characters and
     with the nine escapes only, \u escapes naming surrogates only as a high+low pair,
     objects without duplicate member names (compared after unescaping), and the text is well-formed
     UTF-8 (RFC 8259 8.1) in the sense of the RFC 3629 table (no surrogates, <= U+10FFFF, shortest form). *)
From QV Require Import Base.Bytes.
Local Open Scope N_scope.

(* ------------------------------------------------------------------ RFC 3629 *)

Definition js_in_rng (lo hi b : N) : bool := (lo <=? b) && (b <=? hi).
Definition js_u_tail (b : N) : bool := js_in_rng 128 191 b.

(* UTF8-octets = *( UTF8-char ), UTF8-char = UTF8-1 / UTF8-2 / UTF8-3 / UTF8-4  (RFC 3629 section 4) *)
Fixpoint utf8_valid (l : list N) : bool :=
  match l with
  | [] => true
  | a :: t =>
    if a <=? 127 then utf8_valid t
    else match t with
    | [] => false
    | b :: t1 =>
      if js_in_rng 194 223 a then js_u_tail b && utf8_valid t1
      else match t1 with
      | [] => false
      | c :: t2 =>
        if a =? 224 then js_in_rng 160 191 b && js_u_tail c && utf8_valid t2
        else if js_in_rng 225 236 a || js_in_rng 238 239 a then js_u_tail b && js_u_tail c && utf8_valid t2
        else if a =? 237 then js_in_rng 128 159 b && js_u_tail c && utf8_valid t2
        else match t2 with
        | [] => false
        | d :: t3 =>
          if a =? 240 then js_in_rng 144 191 b && js_u_tail c && js_u_tail d && utf8_valid t3
          else if js_in_rng 241 243 a then js_u_tail b && js_u_tail c && js_u_tail d && utf8_valid t3
          else if a =? 244 then js_in_rng 128 143 b && js_u_tail c && js_u_tail d && utf8_valid t3
          else false
        end
      end
    end
  end.

(* The same notion said declaratively: the encodings of lists of Unicode scalar values. *)
Definition scalar_value (c : N) : Prop := c < 55296 \/ (57344 <= c /\ c <= 1114111).
Definition scalar_valueb (c : N) : bool := (c <? 55296) || ((57344 <=? c) && (c <=? 1114111)).

Definition utf8_enc (c : N) : list N :=
  if c <? 128 then [c]
  else if c <? 2048 then [192 + c / 64; 128 + c mod 64]
  else if c <? 65536 then [224 + c / 4096; 128 + (c / 64) mod 64; 128 + c mod 64]
  else [240 + c / 262144; 128 + (c / 4096) mod 64; 128 + (c / 64) mod 64; 128 + c mod 64].

Definition utf8_encode (cs : list N) : list N := flat_map utf8_enc cs.

(* decoder (total on valid input): code points of a UTF-8 byte string *)
Fixpoint utf8_decode (l : list N) : option (list N) :=
  match l with
  | [] => Some []
  | a :: t =>
    if a <=? 127 then option_map (cons a) (utf8_decode t)
    else match t with
    | [] => None
    | b :: t1 =>
      if js_in_rng 194 223 a then
        if js_u_tail b then option_map (cons ((a - 192) * 64 + (b - 128))) (utf8_decode t1) else None
      else match t1 with
      | [] => None
      | c :: t2 =>
        if js_in_rng 224 239 a then
          let cp := (a - 224) * 4096 + (b - 128) * 64 + (c - 128) in
          if js_u_tail b && js_u_tail c && (2048 <=? cp) && scalar_valueb cp
          then option_map (cons cp) (utf8_decode t2) else None
        else match t2 with
        | [] => None
        | d :: t3 =>
          let cp := (a - 240) * 262144 + (b - 128) * 4096 + (c - 128) * 64 + (d - 128) in
          if js_in_rng 240 244 a && js_u_tail b && js_u_tail c && js_u_tail d && (65536 <=? cp) && (cp <=? 1114111)
          then option_map (cons cp) (utf8_decode t3) else None
        end
      end
    end
  end.

(* ------------------------------------------------------------------ RFC 2781 (UTF-16, big endian code units) *)

(* code units (16-bit) -> scalar values; None when a surrogate is unpaired *)
Fixpoint utf16_units_decode (us : list N) : option (list N) :=
  match us with
  | [] => Some []
  | u :: t =>
    if js_in_rng 55296 56319 u then           (* high surrogate: must be followed by a low one *)
      match t with
      | v :: t' => if js_in_rng 56320 57343 v
                   then option_map (cons (65536 + (u - 55296) * 1024 + (v - 56320))) (utf16_units_decode t')
                   else None
      | [] => None
      end
    else if js_in_rng 56320 57343 u then None
    else option_map (cons u) (utf16_units_decode t)
  end.

Fixpoint units_of_bytes (be : bool) (l : list N) : option (list N) :=
  match l with
  | [] => Some []
  | [_] => None                             (* odd number of bytes *)
  | a :: b :: t => option_map (cons (if be then a * 256 + b else b * 256 + a)) (units_of_bytes be t)
  end.

Definition utf16_decode (be : bool) (l : list N) : option (list N) :=
  match units_of_bytes be l with Some us => utf16_units_decode us | None => None end.

Definition utf16_unit_enc (c : N) : list N :=
  if c <? 65536 then [c] else [55296 + (c - 65536) / 1024; 56320 + (c - 65536) mod 1024].
Definition utf16be_encode (cs : list N) : list N :=
  flat_map (fun u => [u / 256; u mod 256]) (flat_map utf16_unit_enc cs).

(* ------------------------------------------------------------------ ISO 32000-1 Annex D.2: PDFDocEncoding *)

(* code -> Unicode; None = undefined in PDFDocEncoding (0x7F, 0x9F, 0xAD); 0..23 are the C0 controls
   that Table D.2 leaves as they are (only 9, 10, 13 are listed but the identity is the universal reading) *)
Definition pdfdoc_special : list (N * N) :=
  [ (24, 728); (25, 711); (26, 710); (27, 729); (28, 733); (29, 731); (30, 730); (31, 732);
    (128, 8226); (129, 8224); (130, 8225); (131, 8230); (132, 8212); (133, 8211); (134, 402);
    (135, 8260); (136, 8249); (137, 8250); (138, 8722); (139, 8240); (140, 8222); (141, 8220);
    (142, 8221); (143, 8216); (144, 8217); (145, 8218); (146, 8482); (147, 64257); (148, 64258);
    (149, 321); (150, 338); (151, 352); (152, 376); (153, 381); (154, 305); (155, 322); (156, 339);
    (157, 353); (158, 382); (160, 8364) ].

Fixpoint js_assoc (k : N) (l : list (N * N)) : option N :=
  match l with
  | [] => None
  | (a, b) :: t => if a =? k then Some b else js_assoc k t
  end.

Definition pdfdoc_to_unicode_spec (b : N) : option N :=
  if (b =? 127) || (b =? 159) || (b =? 173) then None
  else match js_assoc b pdfdoc_special with
       | Some u => Some u
       | None => Some b
       end.

(* ------------------------------------------------------------------ the text a PDF text string denotes (ISO 32000-1 7.9.2.2,
   plus the UTF-8 marker of ISO 32000-2 and the little-endian marker most readers accept) *)

(* an undefined code has no character: a reader shows U+FFFD REPLACEMENT CHARACTER ("unknown character") *)
Definition pdfdoc_decode (l : list N) : list N :=
  map (fun b => match pdfdoc_to_unicode_spec b with Some u => u | None => 65533 end) l.

Inductive js_announced := AnnUtf16BE | AnnUtf16LE | AnnUtf8 | AnnNone.

Definition announced_encoding (s : list N) : js_announced * list N :=
  match s with
  | a :: b :: t =>
    if (a =? 254) && (b =? 255) then (AnnUtf16BE, t)            (* FE FF *)
    else if (a =? 255) && (b =? 254) then (AnnUtf16LE, t)       (* FF FE *)
    else match t with
         | c :: t' => if (a =? 239) && (b =? 187) && (c =? 191) then (AnnUtf8, t') else (AnnNone, s)   (* EF BB BF *)
         | [] => (AnnNone, s)
         end
  | _ => (AnnNone, s)
  end.

(* the Unicode text of a string object; None = not well formed in the encoding its byte-order mark
   announces (the property text: such a string counts as binary), or not PDFDoc text *)
Definition text_of (s : list N) : option (list N) :=
  match announced_encoding s with
  | (AnnUtf16BE, t) => utf16_decode true t
  | (AnnUtf16LE, t) => utf16_decode false t
  | (AnnUtf8, t) => utf8_decode t
  | (AnnNone, t) => Some (pdfdoc_decode t)
  end.

Definition well_formed_for_its_bom (s : list N) : bool :=
  match announced_encoding s with
  | (AnnNone, _) => true
  | _ => match text_of s with Some _ => true | None => false end
  end.

(* ------------------------------------------------------------------ RFC 8259 *)

Definition js_ws (b : N) : bool := (b =? 32) || (b =? 9) || (b =? 10) || (b =? 13).
Fixpoint js_skip_ws (l : list N) : list N :=
  match l with
  | b :: t => if js_ws b then js_skip_ws t else l
  | [] => []
  end.

Fixpoint js_skip_digits (l : list N) : list N :=
  match l with
  | b :: t => if is_digit b then js_skip_digits t else l
  | [] => []
  end.

(* number = [ minus ] int [ frac ] [ exp ];  returns the rest of the input *)
Definition js_int (l : list N) : option (list N) :=
  match l with
  | d :: t => if d =? 48 then Some t
              else if js_in_rng 49 57 d then Some (js_skip_digits t) else None
  | [] => None
  end.
Definition js_frac (l : list N) : option (list N) :=
  match l with
  | 46 :: t => match t with
               | d :: t' => if is_digit d then Some (js_skip_digits t') else None
               | [] => None
               end
  | _ => Some l
  end.
Definition js_exp (l : list N) : option (list N) :=
  match l with
  | e :: t => if (e =? 101) || (e =? 69) then
                let t1 := match t with s :: t' => if (s =? 43) || (s =? 45) then t' else t | [] => t end in
                match t1 with
                | d :: t2 => if is_digit d then Some (js_skip_digits t2) else None
                | [] => None
                end
              else Some l
  | [] => Some l
  end.
Definition js_number (l : list N) : option (list N) :=
  let l1 := match l with m :: t => if m =? 45 then t else l | [] => l end in
  match js_int l1 with
  | Some r1 => match js_frac r1 with
               | Some r2 => js_exp r2
               | None => None
               end
  | None => None
  end.

(* a complete number token *)
Definition json_number (l : list N) : bool :=
  match js_number l with Some [] => true | _ => false end.

Definition js_hexval (b : N) : option N :=
  if is_digit b then Some (b - 48)
  else if js_in_rng 97 102 b then Some (b - 87)
  else if js_in_rng 65 70 b then Some (b - 55)
  else None.

Definition js_hex4 (l : list N) : option (N * list N) :=
  match l with
  | a :: b :: c :: d :: t =>
    match js_hexval a, js_hexval b, js_hexval c, js_hexval d with
    | Some x, Some y, Some z, Some w => Some (x * 4096 + y * 256 + z * 16 + w, t)
    | _, _, _, _ => None
    end
  | _ => None
  end.

(* string body after the opening quotation mark: (denoted characters as UTF-8 bytes, reversed), rest after
   the closing quotation mark *)
Fixpoint js_chars (fuel : nat) (l : list N) (acc : list N) : option (list N * list N) :=
  match fuel with
  | O => None
  | S f =>
    match l with
    | [] => None
    | b :: t =>
      if b =? 34 then Some (rev' acc, t)
      else if b <? 32 then None
      else if b =? 92 then
        match t with
        | [] => None
        | e :: t1 =>
          if (e =? 34) || (e =? 92) || (e =? 47) then js_chars f t1 (e :: acc)
          else if e =? 98 then js_chars f t1 (8 :: acc)
          else if e =? 102 then js_chars f t1 (12 :: acc)
          else if e =? 110 then js_chars f t1 (10 :: acc)
          else if e =? 114 then js_chars f t1 (13 :: acc)
          else if e =? 116 then js_chars f t1 (9 :: acc)
          else if e =? 117 then
            match js_hex4 t1 with
            | None => None
            | Some (u, t2) =>
              if js_in_rng 55296 56319 u then
                match t2 with
                | 92 :: 117 :: t3 =>
                  match js_hex4 t3 with
                  | Some (v, t4) =>
                    if js_in_rng 56320 57343 v
                    then js_chars f t4 (rev_append (utf8_enc (65536 + (u - 55296) * 1024 + (v - 56320))) acc)
                    else None
                  | None => None
                  end
                | _ => None
                end
              else if js_in_rng 56320 57343 u then None
              else js_chars f t2 (rev_append (utf8_enc u) acc)
            end
          else None
        end
      else js_chars f t (b :: acc)
    end
  end.

Definition js_string (l : list N) : option (list N * list N) := js_chars (length l) l [].

(* the characters a complete string token "..." denotes *)
Definition json_string_value (l : list N) : option (list N) :=
  if utf8_valid l then
    match l with
    | 34 :: t => match js_string t with Some (v, []) => Some v | _ => None end
    | _ => None
    end
  else None.

Fixpoint js_starts_with (p l : list N) : option (list N) :=
  match p with
  | [] => Some l
  | a :: p' => match l with
               | b :: l' => if a =? b then js_starts_with p' l' else None
               | [] => None
               end
  end.

Fixpoint js_mem_bytes (k : list N) (ks : list (list N)) : bool :=
  match ks with
  | [] => false
  | x :: t => list_eqb N.eqb k x || js_mem_bytes k t
  end.

(* value / members / elements; the input of js_value has no leading white space; the result is what follows *)
Fixpoint js_value (fuel : nat) (l : list N) : option (list N) :=
  match fuel with
  | O => None
  | S f =>
    match l with
    | [] => None
    | b :: t =>
      if b =? 34 then option_map snd (js_string t)
      else if b =? 123 then
        match js_skip_ws t with
        | c :: t' => if c =? 125 then Some t' else js_members f (c :: t') []
        | [] => None
        end
      else if b =? 91 then
        match js_skip_ws t with
        | c :: t' => if c =? 93 then Some t' else js_elements f (c :: t')
        | [] => None
        end
      else if (b =? 45) || is_digit b then js_number l
      else if b =? 116 then js_starts_with [114; 117; 101] t
      else if b =? 102 then js_starts_with [97; 108; 115; 101] t
      else if b =? 110 then js_starts_with [117; 108; 108] t
      else None
    end
  end
with js_members (fuel : nat) (l : list N) (keys : list (list N)) : option (list N) :=
  match fuel with
  | O => None
  | S f =>
    match l with
    | 34 :: t =>
      match js_string t with
      | None => None
      | Some (k, r) =>
        if js_mem_bytes k keys then None
        else match js_skip_ws r with
        | 58 :: r1 =>
          match js_value f (js_skip_ws r1) with
          | None => None
          | Some r2 =>
            match js_skip_ws r2 with
            | c :: r3 => if c =? 125 then Some r3
                         else if c =? 44 then js_members f (js_skip_ws r3) (k :: keys)
                         else None
            | [] => None
            end
          end
        | _ => None
        end
      end
    | _ => None
    end
  end
with js_elements (fuel : nat) (l : list N) : option (list N) :=
  match fuel with
  | O => None
  | S f =>
    match js_value f l with
    | None => None
    | Some r =>
      match js_skip_ws r with
      | c :: r1 => if c =? 93 then Some r1
                   else if c =? 44 then js_elements f (js_skip_ws r1)
                   else None
      | [] => None
      end
    end
  end.

(* JSON-text = ws value ws, and the text is UTF-8 *)
(* the fuel bounds the recursion only: every call consumes input, a value inside an array costs two units per byte at most *)
Definition json_grammar (l : list N) : bool :=
  match js_value (S (S (2 * length l))) (js_skip_ws l) with
  | Some r => match js_skip_ws r with [] => true | _ => false end
  | None => false
  end.

Definition json_valid (l : list N) : bool := utf8_valid l && json_grammar l.

(* 0 = valid, 1 = not UTF-8, 2 = not the JSON grammar (or duplicate member name) *)
Definition json_verdict (l : list N) : N :=
  if negb (utf8_valid l) then 1 else if json_grammar l then 0 else 2.

(* ------------------------------------------------------------------ values of numbers: (sign, digits without the point, number of
   fraction digits), compared as rationals without division *)

Definition num_value := (bool * N * N)%type.    (* negative?, all digits read as an integer, fraction length *)

Definition numval_eq (a b : num_value) : Prop :=
  let '(sa, ma, fa) := a in let '(sb, mb, fb) := b in
  ma * 10 ^ fb = mb * 10 ^ fa /\ (ma = 0 \/ sa = sb).

Fixpoint js_take_digits (l : list N) : list N * list N :=
  match l with
  | b :: t => if is_digit b then let '(d, r) := js_take_digits t in (b :: d, r) else ([], l)
  | [] => ([], [])
  end.

(* value of a JSON number without exponent part (qpdf never writes one) *)
Definition json_number_value (l : list N) : option num_value :=
  let '(neg, l1) := match l with m :: t => if m =? 45 then (true, t) else (false, l) | [] => (false, l) end in
  let '(ip, r) := js_take_digits l1 in
  match ip, r with
  | [], _ => None
  | _, [] => Some (neg, dec_value ip, 0)
  | _, p :: r' => if p =? 46 then
                    let '(fp, r2) := js_take_digits r' in
                    match fp, r2 with
                    | _ :: _, [] => Some (neg, dec_value (ip ++ fp), N.of_nat (length fp))
                    | _, _ => None
                    end
                  else None
  end.

(* ISO 32000-1 7.3.3: a real is an optional sign, digits with one decimal point, at least one digit.
   (sign, integer part, fraction part) *)
Definition pdf_real_spelling (sign : option bool) (ip fp : list N) : list N :=
  match sign with Some true => [45] | Some false => [43] | None => [] end ++ ip ++ [46] ++ fp.

Definition pdf_real_value (sign : option bool) (ip fp : list N) : num_value :=
  (match sign with Some true => true | _ => false end, dec_value (ip ++ fp), N.of_nat (length fp)).
