(* TIFF predictor 2 (horizontal differencing) for any sample width, written from TIFF 6.0
   section 14 and ISO 32000-1 7.4.4.4 (Predictor 2, Colors, BitsPerComponent, Columns), independent
   of qpdf's Pl_TIFFPredictor / BitStream / BitWriter models in Filters.v (only the record
   [tiff_params] is shared).

   A row is  bpr = ceil (cols * spp * bps / 8)  bytes. Seen as a string of bits, most significant
   bit of each byte first, it holds  cols * spp  samples of  bps  bits each (pixel after pixel,
   component after component), followed by  8 * bpr - cols * spp * bps  unused padding bits.
     encoder : sample i becomes (s_i - s_{i - spp}) mod 2^bps, with s_j = 0 for j < 0
     decoder : each component of a pixel is the sum mod 2^bps of that component of the previous
               output pixel and the coded difference (first pixel: previous = 0)
   Both reference codecs copy the padding bits of their input row unchanged; as the input row is
   arbitrary, "the encoder emits arbitrary padding bits" is covered. [tfb_clear_pad] is a row with
   its padding bits set to zero. No proofs here. *)
From QV Require Import Base.Bytes Filters.Filters Filters.FilterSpec.
Local Open Scope N_scope.

(* n samples of b bits from the front of a bit string *)
Fixpoint tfb_unpack (b : nat) (n : nat) (bits : list bool) : list N :=
  match n with
  | O => []
  | S n' => val_of_bits (firstn b bits) :: tfb_unpack b n' (skipn b bits)
  end.

(* nbytes bytes from the front of a bit string *)
Fixpoint tfb_pack_bits (nbytes : nat) (bits : list bool) : list N :=
  match nbytes with
  | O => []
  | S k => val_of_bits (firstn 8 bits) :: tfb_pack_bits k (skipn 8 bits)
  end.

(* the b low bits of every sample, most significant first *)
Definition tfb_sample_bits (b : nat) (samples : list N) : list bool :=
  flat_map (bits_of_byte_fuel b) samples.

Fixpoint tfb_zip (f : N -> N -> N) (a c : list N) : list N :=
  match a, c with
  | x :: a', y :: c' => f x y :: tfb_zip f a' c'
  | _, _ => []
  end.

(* differencing: every sample minus the sample spp places earlier (zero before the row start) *)
Definition tfb_diff (m : N) (spp : nat) (s : list N) : list N :=
  tfb_zip (fun x q => (x + m - q) mod m) s (repeat 0 spp ++ s).

(* inverse, pixel after pixel: [prev] is the previous output pixel *)
Fixpoint tfb_undiff (m : N) (spp : nat) (cols : nat) (d : list N) (prev : list N) : list N :=
  match cols with
  | O => []
  | S c => let px := tfb_zip (fun x q => (x + q) mod m) (firstn spp d) prev in
           px ++ tfb_undiff m spp c (skipn spp d) px
  end.

Definition tfb_ref_encode_row (bps : N) (spp cols : nat) (row : list N) : list N :=
  let b := N.to_nat bps in
  let n := (cols * spp)%nat in
  let bits := bits_of_bytes row in
  tfb_pack_bits (length row)
    (tfb_sample_bits b (tfb_diff (2 ^ bps) spp (tfb_unpack b n bits)) ++ skipn (n * b) bits).

Definition tfb_ref_decode_row (bps : N) (spp cols : nat) (row : list N) : list N :=
  let b := N.to_nat bps in
  let n := (cols * spp)%nat in
  let bits := bits_of_bytes row in
  tfb_pack_bits (length row)
    (tfb_sample_bits b (tfb_undiff (2 ^ bps) spp cols (tfb_unpack b n bits) (repeat 0 spp)) ++ skipn (n * b) bits).

(* the row with its unused trailing bits cleared *)
Definition tfb_clear_pad (bps : N) (spp cols : nat) (row : list N) : list N :=
  let nb := (cols * spp * N.to_nat bps)%nat in
  let bits := bits_of_bytes row in
  tfb_pack_bits (length row) (firstn nb bits ++ repeat false (8 * length row - nb)).

(* whole images: a list of rows of tf_bpr bytes *)
Definition tfb_ref_encode (p : tiff_params) (rows : list (list N)) : list N :=
  concat (map (tfb_ref_encode_row (tf_bps p) (tf_spp p) (N.to_nat (tf_cols p))) rows).

Definition tfb_clear_pads (p : tiff_params) (rows : list (list N)) : list N :=
  concat (map (tfb_clear_pad (tf_bps p) (tf_spp p) (N.to_nat (tf_cols p))) rows).

(* cut a byte string into rows of bpr bytes (a shorter last row is kept as it is) *)
Fixpoint tfb_rows_fuel (fuel : nat) (bpr : nat) (data : list N) : list (list N) :=
  match fuel with
  | O => []
  | S f => match data with
           | [] => []
           | _ => firstn bpr data :: tfb_rows_fuel f bpr (skipn bpr data)
           end
  end.
Definition tfb_rows (bpr : nat) (data : list N) : list (list N) := tfb_rows_fuel (length data) bpr data.

Definition tfb_ref_decode (p : tiff_params) (data : list N) : list N :=
  concat (map (tfb_ref_decode_row (tf_bps p) (tf_spp p) (N.to_nat (tf_cols p))) (tfb_rows (tf_bpr p) data)).
