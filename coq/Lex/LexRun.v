(* C03, lexical layer: how the tokenizer model (Lex/TokModel.v) runs over the text of each token class of
   the ISO specification lexer (Lex/LexSpec.v).  Auxiliary lemmas; the property statements are in
   Lex/LexProofs.v.  `run` is nt_loop without the position bookkeeping. *)
From QV Require Import Base.Bytes Lex.TokModel Lex.LexSpec Lex.TokInterp.
Local Open Scope N_scope.

Local Arguments N.eqb : simpl never.
Local Arguments N.leb : simpl never.
Local Arguments N.ltb : simpl never.
Local Arguments N.add : simpl never.
Local Arguments N.sub : simpl never.
Local Arguments N.mul : simpl never.
Local Arguments N.modulo : simpl never.
Local Arguments N.div : simpl never.
Local Arguments N.lor : simpl never.
Local Arguments Z.of_N : simpl never.
Local Arguments Z.to_N : simpl never.
Local Arguments Z.add : simpl never.
Local Arguments Z.sub : simpl never.
Local Arguments Z.mul : simpl never.
Local Arguments Z.eqb : simpl never.
Local Arguments Z.ltb : simpl never.
Local Arguments Z.leb : simpl never.
Local Arguments Z.geb : simpl never.
Local Arguments Z.gtb : simpl never.
Local Arguments rev' : simpl never.
Local Arguments list_eqb : simpl never.

(* the tokenizer/remaining-input part of nt_loop, without the position bookkeeping *)
Fixpoint run (t : tk) (inp : list N) : tk * list N :=
  match inp with
  | [] =>
      let t1 := present_eof t in
      if ttype_eqb (t_type t1) TT_eof && negb (t_allow_eof t1)
      then (set_err TE_unexpected_eof (set_type TT_bad t1), [])
      else (t1, [])
  | ch :: rest =>
      let t1 := present_char_nr t ch in
      if is_ready t1 then (t1, if tk_unread_flag t1 then inp else rest)
      else run t1 rest
  end.

Lemma nt_step_0 t ch : nt_step 0 t ch = present_char_nr t ch.
Proof. reflexivity. Qed.

Lemma nt_loop_run : forall inp t off pos,
  run t inp = (fst (fst (fst (nt_loop 0 t inp off pos))), snd (fst (fst (nt_loop 0 t inp off pos)))).
Proof.
  induction inp as [|ch r IH]; intros t off pos.
  - cbn [nt_loop run]. destruct (ttype_eqb (t_type (present_eof t)) TT_eof && negb (t_allow_eof (present_eof t))); reflexivity.
  - cbn [nt_loop run]. change (nt_step 0 t ch) with (present_char_nr t ch).
    destruct (is_ready (present_char_nr t ch)).
    + destruct (tk_unread_flag (present_char_nr t ch)); reflexivity.
    + apply IH.
Qed.

(* evaluate closed boolean tests *)
Ltac ev :=
  repeat match goal with
  | |- context [tk_is_delimiter ?a] =>
      let v := eval vm_compute in (tk_is_delimiter a) in
      match v with true => idtac | false => idtac end; change (tk_is_delimiter a) with v
  | |- context [tk_is_space ?a] =>
      let v := eval vm_compute in (tk_is_space a) in
      match v with true => idtac | false => idtac end; change (tk_is_space a) with v
  | |- context [util_is_digit ?a] =>
      let v := eval vm_compute in (util_is_digit a) in
      match v with true => idtac | false => idtac end; change (util_is_digit a) with v
  | |- context [Z.ltb ?a ?b] =>
      let v := eval vm_compute in (Z.ltb a b) in
      match v with true => idtac | false => idtac end; change (Z.ltb a b) with v
  | |- context [N.ltb ?a ?b] =>
      let v := eval vm_compute in (N.ltb a b) in
      match v with true => idtac | false => idtac end; change (N.ltb a b) with v
  | |- context [N.eqb ?a ?b] =>
      let v := eval vm_compute in (N.eqb a b) in
      match v with true => idtac | false => idtac end; change (N.eqb a b) with v
  | |- context [N.leb ?a ?b] =>
      let v := eval vm_compute in (N.leb a b) in
      match v with true => idtac | false => idtac end; change (N.leb a b) with v
  end; cbn [andb orb negb].


Ltac ev_in H :=
  repeat match type of H with
  | context [N.eqb ?a ?b] =>
      let v := eval vm_compute in (N.eqb a b) in
      match v with true => idtac | false => idtac end; change (N.eqb a b) with v in H
  | context [N.leb ?a ?b] =>
      let v := eval vm_compute in (N.leb a b) in
      match v with true => idtac | false => idtac end; change (N.leb a b) with v in H
  end; cbn [andb orb negb] in H.

(* case split on a test b =? k occurring in the goal and in hypothesis H *)
Tactic Notation "ceq" constr(b) constr(k) hyp(H) ident(E) :=
  destruct (N.eqb b k) eqn:E;
  [ apply N.eqb_eq in E; subst b; ev; ev_in H | rewrite ?E in H ].


(* ---- byte-level facts, by sweep over the 256 bytes ---- *)
Definition bytes_ok (l : list N) : Prop := Forall (fun b => b < 256) l.

Lemma sweep (P : N -> bool) : forallb P all_bytes = true -> forall b, b < 256 -> P b = true.
Proof. apply byte_sweep. Qed.

Lemma hex_value_decode b : b < 256 ->
  match hex_value b with
  | Some v => hex_decode_char b = Z.of_N v /\ v < 16
  | None => (hex_decode_char b <? 16)%Z = false
  end.
Proof.
  intros Hb.
  pose proof (sweep (fun b => match hex_value b with
                              | Some v => (hex_decode_char b =? Z.of_N v)%Z && (v <? 16)
                              | None => negb (hex_decode_char b <? 16)%Z end) ltac:(vm_compute; reflexivity) b Hb) as H.
  cbv beta in H. destruct (hex_value b).
  - apply andb_true_iff in H. destruct H as [A B]. apply Z.eqb_eq in A. apply N.ltb_lt in B. auto.
  - apply negb_true_iff in H. exact H.
Qed.

Lemma white_props b : iso_white b = true ->
  tk_is_space b = true /\ (hex_decode_char b <? 16)%Z = false /\ (b =? 62) = false /\ (b =? 37) = false.
Proof.
  unfold iso_white. intros H.
  repeat (apply orb_true_iff in H; destruct H as [H|H]); apply N.eqb_eq in H; subst b; vm_compute; auto.
Qed.

Lemma lor16 a v : a < 16 -> v < 16 -> N.lor (a * 16) v = 16 * a + v.
Proof.
  intros Ha Hv.
  assert (H : forallb (fun a => forallb (fun v => N.lor (a * 16) v =? 16 * a + v) (map N.of_nat (seq 0 16))) (map N.of_nat (seq 0 16)) = true)
    by (vm_compute; reflexivity).
  rewrite forallb_forall in H.
  assert (Ia : In a (map N.of_nat (seq 0 16))).
  { apply in_map_iff. exists (N.to_nat a). split; [apply N2Nat.id|]. apply in_seq. lia. }
  assert (Iv : In v (map N.of_nat (seq 0 16))).
  { apply in_map_iff. exists (N.to_nat v). split; [apply N2Nat.id|]. apply in_seq. lia. }
  specialize (H a Ia). rewrite forallb_forall in H. specialize (H v Iv). apply N.eqb_eq in H. exact H.
Qed.

Lemma reg_props b : b < 256 -> iso_regular b = true -> b <> 11 ->
  tk_is_delimiter b = false /\ tk_is_space b = false /\ (b =? 37) = false.
Proof.
  intros Hb Hr Hn.
  pose proof (sweep (fun b => negb (iso_regular b) || (b =? 11) ||
                              (negb (tk_is_delimiter b) && negb (tk_is_space b) && negb (b =? 37)))
                ltac:(vm_compute; reflexivity) b Hb) as H.
  cbv beta in H. rewrite Hr in H. apply N.eqb_neq in Hn. rewrite Hn in H. cbn [negb orb] in H.
  apply andb_true_iff in H. destruct H as [H H3]. apply andb_true_iff in H. destruct H as [H1 H2].
  apply negb_true_iff in H1, H2, H3. auto.
Qed.

Lemma nonreg_delim b : b < 256 -> iso_regular b = false -> tk_is_delimiter b = true.
Proof.
  intros Hb Hr.
  pose proof (sweep (fun b => iso_regular b || tk_is_delimiter b) ltac:(vm_compute; reflexivity) b Hb) as H.
  cbv beta in H. rewrite Hr in H. exact H.
Qed.

Lemma span_while_spec p : forall inp a r, span_while p inp = (a, r) ->
  inp = a ++ r /\ forallb p a = true /\ match r with [] => True | x :: _ => p x = false end.
Proof.
  induction inp as [|b inp IH]; intros a r H; simpl in H.
  - inversion H; subst. auto.
  - destruct (p b) eqn:E.
    + destruct (span_while p inp) as [a' r'] eqn:E2. inversion H; subst.
      destruct (IH a' r eq_refl) as (A & B & C). subst inp. simpl. rewrite E, B. auto.
    + inversion H; subst. simpl. auto.
Qed.

Lemma run_cons t ch r :
  run t (ch :: r) =
  let t1 := present_char_nr t ch in
  if is_ready t1 then (t1, if tk_unread_flag t1 then ch :: r else r) else run t1 r.
Proof. reflexivity. Qed.

Lemma run_nil t :
  run t [] = let t1 := present_eof t in
             if ttype_eqb (t_type t1) TT_eof && negb (t_allow_eof t1)
             then (set_err TE_unexpected_eof (set_type TT_bad t1), []) else (t1, []).
Proof. reflexivity. Qed.

Local Arguments run : simpl never.
Ltac mstep := rewrite run_cons; unfold present_char_nr, handle_character; cbn [t_state].
Ltac rw_tests := repeat match goal with H : (_ =? _) = _ |- _ => rewrite H end.
(* one character through the string handlers *)
Ltac norm := cbv beta iota zeta delta [push_raw push_val ready_with ready_unread set_state set_allow_eof set_incl_ign set_type set_val set_raw
  set_err set_before set_in_token set_unread set_iib set_bad set_depth set_code set_hexch set_digits
  t_state t_allow_eof t_incl_ign t_type t_val t_raw t_err t_before t_in_token t_unread t_iib t_bad t_depth t_code t_hexch t_digits
  is_ready tk_unread_flag]; cbn [andb orb negb].
Ltac ms := mstep; unfold in_string, in_string_escape, in_char_code, in_string_after_cr; rw_tests; ev; norm.

Section S.
Variable ae : bool.

(* canonical states while a token is being accumulated (include_ignorable = false) *)
Notation S st val raw depth c h d := (mkTk st ae false TT_bad val raw TE_none false true 0 0 false depth c h d).

(* what the theorems need to know about a finished token *)
Definition done_tok (t : tk) (ty : ttype) (val : list N) : Prop :=
  t_state t = TS_token_ready /\ t_type t = ty /\ t_val t = val /\ t_err t = TE_none.

Lemma after_cr_equiv val raw dz c h d ch r : (ch =? 10) = false ->
  run (S TS_string_after_cr val raw dz c h d) (ch :: r) = run (S TS_in_string val raw dz c h d) (ch :: r).
Proof.
  intros E. rewrite !run_cons. unfold present_char_nr, handle_character. cbn [t_state].
  unfold in_string_after_cr. rewrite E. reflexivity.
Qed.

Lemma char_code_equiv val raw dz c h d ch r : ((48 <=? ch) && (ch <=? 55)) = false ->
  run (S TS_char_code val raw dz c h d) (ch :: r) = run (S TS_in_string (c mod 256 :: val) raw dz c h d) (ch :: r).
Proof.
  intros E. rewrite !run_cons. unfold present_char_nr, handle_character. cbn [t_state].
  unfold in_char_code. rewrite E. cbn [andb]. reflexivity.
Qed.

Lemma consb_some b x v rest : consb b x = Some (v, rest) -> exists v', x = Some (v', rest) /\ v = b :: v'.
Proof. destruct x as [[s r]|]; simpl; intros H; inversion H; eauto. Qed.

Lemma lit_run : forall n inp, (length inp <= n)%nat -> forall depth v rest val raw dz c h d,
  dz = (Z.of_nat depth + 1)%Z ->
  lit_string depth inp = Some (v, rest) ->
  exists t', run (S TS_in_string val raw dz c h d) inp = (t', rest) /\ done_tok t' TT_string (rev v ++ val).
Proof.
  induction n as [|n IH]; intros inp Hlen depth v rest val raw dz c h d Hdz Hs.
  - destruct inp; [discriminate|simpl in Hlen; lia].
  - destruct inp as [|b r]; [discriminate|].
    cbn [lit_string] in Hs. cbn [length] in Hlen.
    ceq b 41 Hs E41.
    { (* ) *) mstep. unfold in_string. ev. cbn.
      destruct depth as [|dp].
      - injection Hs as Hv Hr; subst v rest. replace (dz - 1 =? 0)%Z with true by (symmetry; apply Z.eqb_eq; lia).
        cbn. eexists; split; [reflexivity|]. repeat split.
      - apply consb_some in Hs. destruct Hs as (v' & Hs & ->).
        replace (dz - 1 =? 0)%Z with false by (symmetry; apply Z.eqb_neq; lia).
        cbn. destruct (IH r ltac:(lia) dp v' rest (41 :: val) (41 :: raw) (dz - 1)%Z c h d ltac:(lia) Hs) as (t' & Hr & Hd).
        exists t'. split; [exact Hr|]. cbn [rev]. rewrite <- app_assoc. exact Hd. }
    ceq b 40 Hs E40.
    { ms. apply consb_some in Hs. destruct Hs as (v' & Hs & ->).
      destruct (IH r ltac:(lia) (Datatypes.S depth) v' rest (40 :: val) (40 :: raw) (dz + 1)%Z c h d ltac:(lia) Hs) as (t' & Hr & Hd).
      exists t'. split; [exact Hr|]. cbn [rev]. rewrite <- app_assoc. exact Hd. }
    ceq b 13 Hs E13.
    { ms. destruct r as [|c1 r1].
      - cbn in Hs. discriminate.
      - cbn [length] in Hlen. ceq c1 10 Hs Ec10.
        + ms. apply consb_some in Hs. destruct Hs as (v' & Hs & ->).
          destruct (IH r1 ltac:(lia) depth v' rest (10 :: val) (10 :: 13 :: raw) dz c h d Hdz Hs) as (t' & Hr & Hd).
          exists t'. split; [exact Hr|]. cbn [rev]. rewrite <- app_assoc. exact Hd.
        + apply consb_some in Hs. destruct Hs as (v' & Hs & ->).
          rewrite (after_cr_equiv (10 :: val) (13 :: raw) dz c h d c1 r1 Ec10).
          destruct (IH (c1 :: r1) ltac:(cbn [length]; lia) depth v' rest (10 :: val) (13 :: raw) dz c h d Hdz Hs) as (t' & Hr & Hd).
          exists t'. split; [exact Hr|]. cbn [rev]. rewrite <- app_assoc. exact Hd. }
    ceq b 92 Hs E92.
    2:{ (* ordinary character *)
      ms. apply consb_some in Hs. destruct Hs as (v' & Hs & ->).
      destruct (IH r ltac:(lia) depth v' rest (b :: val) (b :: raw) dz c h d Hdz Hs) as (t' & Hr & Hd).
      exists t'. split; [exact Hr|]. cbn [rev]. rewrite <- app_assoc. exact Hd. }
    ms. destruct r as [|c1 r1]; [discriminate|]. cbn [length] in Hlen.
    (* named escapes *)
    Ltac named IH r1 depth rest val raw dz c h d Hdz Hs x c1 :=
      ms; apply consb_some in Hs; destruct Hs as (v' & Hs & ->);
      destruct (IH r1 ltac:(lia) depth v' rest (x :: val) (c1 :: 92 :: raw) dz c h d Hdz Hs) as (t' & Hr & Hd);
      exists t'; split; [exact Hr|]; cbn [rev]; rewrite <- app_assoc; exact Hd.
    ceq c1 110 Hs En. { named IH r1 depth rest val raw dz c h d Hdz Hs 10 110. }
    ceq c1 114 Hs Er. { named IH r1 depth rest val raw dz c h d Hdz Hs 13 114. }
    ceq c1 116 Hs Et. { named IH r1 depth rest val raw dz c h d Hdz Hs 9 116. }
    ceq c1 98 Hs Eb. { named IH r1 depth rest val raw dz c h d Hdz Hs 8 98. }
    ceq c1 102 Hs Ef. { named IH r1 depth rest val raw dz c h d Hdz Hs 12 102. }
    ceq c1 10 Hs Elf.
    { ms. destruct (IH r1 ltac:(lia) depth v rest val (10 :: 92 :: raw) dz c h d Hdz Hs) as (t' & Hr & Hd).
      exists t'. split; [exact Hr|exact Hd]. }
    ceq c1 13 Hs Ecr.
    { ms. destruct r1 as [|c2 r2]; [discriminate|]. cbn [length] in Hlen.
      ceq c2 10 Hs Ec2.
      - ms. destruct (IH r2 ltac:(lia) depth v rest val (10 :: 13 :: 92 :: raw) dz c h d Hdz Hs) as (t' & Hr & Hd).
        exists t'. split; [exact Hr|exact Hd].
      - rewrite (after_cr_equiv val (13 :: 92 :: raw) dz c h d c2 r2 Ec2).
        destruct (IH (c2 :: r2) ltac:(cbn [length]; lia) depth v rest val (13 :: 92 :: raw) dz c h d Hdz Hs) as (t' & Hr & Hd).
        exists t'. split; [exact Hr|exact Hd]. }
    unfold oct_digit in Hs.
    destruct ((48 <=? c1) && (c1 <=? 55)) eqn:Eo1.
    2:{ (* backslash ignored *)
      mstep. unfold in_string_escape. rw_tests. rewrite Eo1. norm.
      apply consb_some in Hs. destruct Hs as (v' & Hs & ->).
      destruct (IH r1 ltac:(lia) depth v' rest (c1 :: val) (c1 :: 92 :: raw) dz c h d Hdz Hs) as (t' & Hr & Hd).
      exists t'. split; [exact Hr|]. cbn [rev]. rewrite <- app_assoc. exact Hd. }
    mstep. unfold in_string_escape, in_char_code. rw_tests. rewrite ?Eo1. norm. rewrite ?Eo1. ev. norm.
    destruct r1 as [|d2 r2]; [discriminate|]. cbn [length] in Hlen.
    destruct ((48 <=? d2) && (d2 <=? 55)) eqn:Eo2.
    2:{ rewrite (char_code_equiv val (c1 :: 92 :: raw) dz (8 * 0 + (c1 - 48)) h (0 + 1) d2 r2 Eo2).
      apply consb_some in Hs. destruct Hs as (v' & Hs & ->).
      replace ((8 * 0 + (c1 - 48)) mod 256) with (c1 - 48).
      2:{ apply andb_true_iff in Eo1. destruct Eo1 as [A B]. apply N.leb_le in A, B.
          rewrite N.mod_small; lia. }
      destruct (IH (d2 :: r2) ltac:(cbn [length]; lia) depth v' rest ((c1 - 48) :: val) (c1 :: 92 :: raw) dz (8 * 0 + (c1 - 48)) h (0 + 1) Hdz Hs) as (t' & Hr & Hd).
      exists t'. split; [exact Hr|]. cbn [rev]. rewrite <- app_assoc. exact Hd. }
    mstep. unfold in_char_code. norm. rewrite Eo2. ev. norm.
    destruct r2 as [|d3 r3]; [discriminate|]. cbn [length] in Hlen.
    destruct ((48 <=? d3) && (d3 <=? 55)) eqn:Eo3.
    2:{ rewrite (char_code_equiv val (d2 :: c1 :: 92 :: raw) dz (8 * (8 * 0 + (c1 - 48)) + (d2 - 48)) h (0 + 1 + 1) d3 r3 Eo3).
      apply consb_some in Hs. destruct Hs as (v' & Hs & ->).
      replace ((8 * (8 * 0 + (c1 - 48)) + (d2 - 48)) mod 256) with ((c1 - 48) * 8 + (d2 - 48)).
      2:{ apply andb_true_iff in Eo1, Eo2. destruct Eo1 as [A B]. destruct Eo2 as [A2 B2]. apply N.leb_le in A, B, A2, B2.
          rewrite N.mod_small; lia. }
      destruct (IH (d3 :: r3) ltac:(cbn [length]; lia) depth v' rest (((c1 - 48) * 8 + (d2 - 48)) :: val) (d2 :: c1 :: 92 :: raw) dz
                  (8 * (8 * 0 + (c1 - 48)) + (d2 - 48)) h (0 + 1 + 1) Hdz Hs) as (t' & Hr & Hd).
      exists t'. split; [exact Hr|]. cbn [rev]. rewrite <- app_assoc. exact Hd. }
    mstep. unfold in_char_code. norm. rewrite Eo3. ev. norm.
    apply consb_some in Hs. destruct Hs as (v' & Hs & ->).
    replace (((c1 - 48) * 64 + (d2 - 48) * 8 + (d3 - 48)) mod 256) with ((8 * (8 * (8 * 0 + (c1 - 48)) + (d2 - 48)) + (d3 - 48)) mod 256)
      by (f_equal; lia).
    destruct (IH r3 ltac:(lia) depth v' rest (((8 * (8 * (8 * 0 + (c1 - 48)) + (d2 - 48)) + (d3 - 48)) mod 256) :: val)
                (d3 :: d2 :: c1 :: 92 :: raw) dz (8 * (8 * (8 * 0 + (c1 - 48)) + (d2 - 48)) + (d3 - 48)) h (0 + 1 + 1 + 1) Hdz Hs) as (t' & Hr & Hd).
    exists t'. split; [exact Hr|]. cbn [rev]. rewrite <- app_assoc. exact Hd.
Qed.

(* ---- hexadecimal strings ---- *)
Lemma lt_equiv val raw dz c h d ch r : (ch =? 60) = false ->
  run (S TS_lt val raw dz c h d) (ch :: r) = run (S TS_in_hexstring val raw dz c h d) (ch :: r).
Proof.
  intros E. rewrite !run_cons. unfold present_char_nr, handle_character. cbn [t_state].
  unfold in_lt. rewrite E. reflexivity.
Qed.

Lemma hex_run : forall body ds, hex_digits body = Some ds -> bytes_ok body ->
  forall rest val raw dz h d,
  (forall c, exists t', run (S TS_in_hexstring val raw dz c h d) (body ++ 62 :: rest) = (t', rest) /\
                        done_tok t' TT_string (rev (hex_pairs ds) ++ val)) /\
  (forall a, a < 16 -> exists t', run (S TS_in_hexstring_2nd val raw dz (a * 16) h d) (body ++ 62 :: rest) = (t', rest) /\
                        done_tok t' TT_string (rev (hex_pairs (a :: ds)) ++ val)).
Proof.
  induction body as [|b body IH]; intros ds Hd Hb rest val raw dz h d.
  - injection Hd as <-. cbn [app hex_pairs rev]. split.
    + intros c. mstep. unfold in_hexstring. ev. norm. eexists. split; [reflexivity|]. repeat split.
    + intros a Ha. mstep. unfold in_hexstring_2nd. ev. norm. eexists. split; [reflexivity|].
      repeat split. cbn [t_val]. rewrite N.mod_small by lia. f_equal. lia.
  - cbn [hex_digits] in Hd. inversion Hb as [|? ? Hb1 Hb2]; subst. cbn [app].
    destruct (iso_white b) eqn:Ew.
    + destruct (white_props b Ew) as (W1 & W2 & W3 & _).
      destruct (IH ds Hd Hb2 rest val (b :: raw) dz h d) as [I1 I2]. split.
      * intros c. mstep. unfold in_hexstring. rewrite W2, W3, W1. norm. apply I1.
      * intros a Ha. mstep. unfold in_hexstring_2nd. rewrite W2, W3, W1. norm. apply I2, Ha.
    + pose proof (hex_value_decode b Hb1) as Hv. destruct (hex_value b) as [v|]; [|discriminate].
      destruct Hv as [Hv1 Hv2].
      destruct (hex_digits body) as [ds'|] eqn:Hd'; [|discriminate]. injection Hd as <-.
      split.
      * intros c. mstep. unfold in_hexstring. rewrite Hv1.
        replace (Z.of_N v <? 16)%Z with true by (symmetry; apply Z.ltb_lt; lia). norm.
        replace (Z.to_N (Z.of_N v * 16)) with (v * 16) by lia.
        destruct (IH ds' eq_refl Hb2 rest val (b :: raw) dz h d) as [_ I2]. apply I2, Hv2.
      * intros a Ha. mstep. unfold in_hexstring_2nd. rewrite Hv1.
        replace (Z.of_N v <? 16)%Z with true by (symmetry; apply Z.ltb_lt; lia). norm.
        rewrite N2Z.id. rewrite (lor16 a v Ha Hv2). rewrite N.mod_small by lia.
        destruct (IH ds' eq_refl Hb2 rest ((16 * a + v) :: val) (b :: raw) dz h d) as [I1 _].
        destruct (I1 (a * 16)) as (t' & Hr & Hdn). exists t'. split; [exact Hr|].
        cbn [hex_pairs rev]. rewrite <- app_assoc. exact Hdn.
Qed.

(* ---- names ---- *)
Definition ends_ok (rest : list N) : Prop :=
  match rest with [] => True | x :: _ => tk_is_delimiter x = true end.

Lemma name_end val raw dz c h d rest : ends_ok rest ->
  exists t', run (S TS_name val raw dz c h d) rest = (t', rest) /\ done_tok t' TT_name val.
Proof.
  intros He. destruct rest as [|x rest].
  - rewrite run_nil. unfold present_eof, present_char_nr, handle_character. cbn [t_state]. unfold in_name. ev. norm.
    eexists. split; [reflexivity|]. repeat split.
  - cbn in He. mstep. unfold in_name. rewrite He. norm. eexists. split; [reflexivity|]. repeat split.
Qed.

Lemma name_run : forall n w, (length w <= n)%nat -> forall nm val raw dz c h d rest,
  name_decode w = Some nm -> bytes_ok w -> forallb iso_regular w = true -> ~ In 11 w -> ends_ok rest ->
  exists t', run (S TS_name val raw dz c h d) (w ++ rest) = (t', rest) /\ done_tok t' TT_name (rev nm ++ val).
Proof.
  induction n as [|n IH]; intros w Hlen nm val raw dz c h d rest Hd Hb Hr Hvt He.
  - destruct w; [|simpl in Hlen; lia]. injection Hd as <-. apply name_end, He.
  - destruct w as [|b w].
    { injection Hd as <-. apply name_end, He. }
    cbn [name_decode] in Hd. cbn [length] in Hlen. cbn [app].
    inversion Hb as [|? ? Hb1 Hb2]; subst. cbn [forallb] in Hr. apply andb_true_iff in Hr. destruct Hr as [Hr1 Hr2].
    assert (Hn11 : b <> 11) by (intros ->; apply Hvt; left; reflexivity).
    assert (Hvt' : ~ In 11 w) by (intros X; apply Hvt; right; exact X).
    destruct (reg_props b Hb1 Hr1 Hn11) as (D1 & _ & _).
    ceq b 35 Hd E35.
    2:{ destruct (name_decode w) as [nm'|] eqn:Hd'; [|discriminate]. injection Hd as <-.
        mstep. unfold in_name. rewrite D1, E35. norm.
        destruct (IH w ltac:(lia) nm' (b :: val) (b :: raw) dz c h d rest Hd' Hb2 Hr2 Hvt' He) as (t' & Hrun & Hdn).
        exists t'. split; [exact Hrun|]. cbn [rev]. rewrite <- app_assoc. exact Hdn. }
    destruct w as [|h1 [|h2 w2]]; try discriminate.
    inversion Hb2 as [|? ? Hh1 Hb3]; subst. inversion Hb3 as [|? ? Hh2 Hb4]; subst.
    pose proof (hex_value_decode h1 Hh1) as V1. pose proof (hex_value_decode h2 Hh2) as V2.
    destruct (hex_value h1) as [a|]; [|discriminate]. destruct (hex_value h2) as [a2|]; [|discriminate].
    destruct V1 as [V1 A1]. destruct V2 as [V2 A2].
    destruct (name_decode w2) as [nm'|] eqn:Hd'; [|discriminate].
    destruct (16 * a + a2 =? 0) eqn:Ez; [discriminate|]. injection Hd as <-.
    cbn [forallb] in Hr2. apply andb_true_iff in Hr2. destruct Hr2 as [_ Hr2]. apply andb_true_iff in Hr2. destruct Hr2 as [_ Hr4].
    assert (Hvt4 : ~ In 11 w2) by (intros X; apply Hvt'; right; right; exact X).
    cbn [length] in Hlen. cbn [app].
    mstep. unfold in_name. ev. norm.
    mstep. unfold in_name_hex1. rewrite V1. replace (Z.of_N a <? 16)%Z with true by (symmetry; apply Z.ltb_lt; lia). norm.
    mstep. unfold in_name_hex2. rewrite V2. replace (Z.of_N a2 <? 16)%Z with true by (symmetry; apply Z.ltb_lt; lia). norm.
    replace (Z.to_N (Z.of_N a * 16)) with (a * 16) by lia. rewrite N2Z.id. rewrite (lor16 a a2 A1 A2). rewrite Ez. norm.
    destruct (IH w2 ltac:(lia) nm' ((16 * a + a2) :: val) (h2 :: h1 :: 35 :: raw) dz (16 * a + a2) h1 d rest Hd' Hb4 Hr4 Hvt4 He) as (t' & Hrun & Hdn).
    exists t'. split; [exact Hrun|]. cbn [rev]. rewrite <- app_assoc. exact Hdn.
Qed.

(* ---- runs of regular characters that are not names: numbers, true/false/null, keywords ---- *)
Definition num_next (st : tstate) (ch : N) : tstate :=
  match st with
  | TS_sign => if util_is_digit ch then TS_number else if ch =? 46 then TS_decimal else TS_literal
  | TS_number => if util_is_digit ch then TS_number else if ch =? 46 then TS_real else TS_literal
  | TS_decimal => if util_is_digit ch then TS_real else TS_literal
  | TS_real => if util_is_digit ch then TS_real else TS_literal
  | _ => TS_literal
  end.

Definition num_state (st : tstate) : Prop :=
  st = TS_sign \/ st = TS_number \/ st = TS_decimal \/ st = TS_real \/ st = TS_literal.

Lemma num_next_state st ch : num_state (num_next st ch).
Proof.
  unfold num_state, num_next. destruct st; auto;
    destruct (util_is_digit ch); auto; destruct (ch =? 46); auto 6.
Qed.

(* type of the finished token, from the final state and the (reversed) raw text *)
Definition lit_type (rawrev : list N) : ttype :=
  if list_eqb N.eqb rawrev (rev' str_true) || list_eqb N.eqb rawrev (rev' str_false) then TT_bool
  else if list_eqb N.eqb rawrev (rev' str_null) then TT_null else TT_word.

Definition final_type (st : tstate) (rawrev : list N) : ttype :=
  match st with TS_number => TT_integer | TS_real => TT_real | _ => lit_type rawrev end.

Definition done_raw (t : tk) (ty : ttype) (rawrev : list N) : Prop :=
  t_state t = TS_token_ready /\ t_type t = ty /\ t_raw t = rawrev /\ t_err t = TE_none.

Lemma reg_end st val raw dz c h d rest : num_state st -> ends_ok rest ->
  exists t', run (S st val raw dz c h d) rest = (t', rest) /\ done_raw t' (final_type st raw) raw.
Proof.
  intros Hst He. destruct rest as [|x rest].
  - rewrite run_nil.
    assert (Hl : ttype_eqb (lit_type raw) TT_eof = false).
    { unfold lit_type. destruct (_ || _); [reflexivity|]. destruct (list_eqb _ _ _); reflexivity. }
    destruct Hst as [->|[->|[->|[->| ->]]]]; unfold present_eof, present_char_nr, handle_character; cbn [t_state];
      unfold in_sign, in_number, in_decimal, in_real, in_literal; ev; norm;
      unfold in_literal; ev; norm; unfold raw_is; norm; fold (lit_type raw); rewrite ?Hl; cbn [ttype_eqb andb];
      (eexists; split; [reflexivity|]; repeat split).
  - cbn in He.
    assert (Hd : util_is_digit x = false /\ (x =? 46) = false).
    { unfold tk_is_delimiter in He. unfold util_is_digit, ch_signed.
      repeat (apply orb_true_iff in He; destruct He as [He|He]); apply N.eqb_eq in He; subst x; vm_compute; auto. }
    destruct Hd as [Hd1 Hd2].
    destruct Hst as [->|[->|[->|[->| ->]]]]; mstep;
      unfold in_sign, in_number, in_decimal, in_real, in_literal; rewrite ?Hd1, ?Hd2, ?He; norm;
      unfold in_literal; rewrite ?He; norm; unfold raw_is; norm; fold (lit_type raw);
      (eexists; split; [reflexivity|]; repeat split).
Qed.

Lemma reg_run : forall w st val raw dz c h d rest,
  num_state st -> bytes_ok w -> forallb iso_regular w = true -> ~ In 11 w -> ends_ok rest ->
  exists t', run (S st val raw dz c h d) (w ++ rest) = (t', rest) /\
             done_raw t' (final_type (fold_left num_next w st) (rev w ++ raw)) (rev w ++ raw).
Proof.
  induction w as [|b w IH]; intros st val raw dz c h d rest Hst Hb Hr Hvt He.
  - cbn [app fold_left rev]. apply reg_end; assumption.
  - inversion Hb as [|? ? Hb1 Hb2]; subst. cbn [forallb] in Hr. apply andb_true_iff in Hr. destruct Hr as [Hr1 Hr2].
    assert (Hn11 : b <> 11) by (intros ->; apply Hvt; left; reflexivity).
    assert (Hvt' : ~ In 11 w) by (intros X; apply Hvt; right; exact X).
    destruct (reg_props b Hb1 Hr1 Hn11) as (D1 & _ & _).
    cbn [app fold_left rev]. rewrite <- app_assoc. cbn [app].
    destruct (IH (num_next st b) val (b :: raw) dz c h d rest (num_next_state st b) Hb2 Hr2 Hvt' He) as (t' & Hrun & Hdn).
    exists t'. split; [|exact Hdn]. rewrite <- Hrun.
    destruct Hst as [->|[->|[->|[->| ->]]]]; mstep; unfold num_next;
      unfold in_sign, in_number, in_decimal, in_real, in_literal;
      destruct (util_is_digit b); try destruct (b =? 46); rewrite ?D1; norm; unfold in_literal; rewrite ?D1; norm; reflexivity.
Qed.
End S.

(* ---- the number automaton against the grammar of 7.3.3 ---- *)
Definition dfa (st : tstate) (w : list N) : tstate := fold_left num_next w st.

Lemma digit_agree b : b < 256 -> util_is_digit b = dec_digit b.
Proof.
  intros Hb.
  pose proof (sweep (fun b => Bool.eqb (util_is_digit b) (dec_digit b)) ltac:(vm_compute; reflexivity) b Hb) as H.
  apply Bool.eqb_prop in H. exact H.
Qed.

Lemma digit_not_dot b : dec_digit b = true -> (b =? 46) = false.
Proof. unfold dec_digit. intros H. apply andb_true_iff in H. destruct H as [A B]. apply N.leb_le in A. apply N.eqb_neq. lia. Qed.

Lemma dfa_lit w : dfa TS_literal w = TS_literal.
Proof. induction w; simpl; auto. Qed.

Lemma dfa_real w : bytes_ok w -> dfa TS_real w = if all_digits w then TS_real else TS_literal.
Proof.
  induction w as [|b w IH]; intros Hb; [reflexivity|].
  inversion Hb; subst. unfold dfa. cbn [fold_left all_digits forallb num_next]. rewrite digit_agree by assumption.
  destruct (dec_digit b); cbn [andb]; [apply IH; assumption|apply dfa_lit].
Qed.

Lemma dfa_decimal w : bytes_ok w ->
  dfa TS_decimal w = match w with [] => TS_decimal | _ => if all_digits w then TS_real else TS_literal end.
Proof.
  destruct w as [|b w]; intros Hb; [reflexivity|].
  inversion Hb; subst. unfold dfa. cbn [fold_left all_digits forallb num_next]. rewrite digit_agree by assumption.
  destruct (dec_digit b); cbn [andb]; [apply dfa_real; assumption|apply dfa_lit].
Qed.

Lemma dfa_number w : bytes_ok w ->
  dfa TS_number w =
  match split_at_dot w with
  | (ip, None) => if all_digits ip then TS_number else TS_literal
  | (ip, Some fp) => if all_digits ip && all_digits fp then TS_real else TS_literal
  end.
Proof.
  induction w as [|b w IH]; intros Hb; [reflexivity|].
  inversion Hb; subst. unfold dfa. cbn [fold_left split_at_dot num_next]. rewrite digit_agree by assumption.
  destruct (dec_digit b) eqn:Ed.
  - rewrite (digit_not_dot b Ed). fold (dfa TS_number w). rewrite IH by assumption.
    destruct (split_at_dot w) as [ip [fp|]]; unfold all_digits; cbn [forallb]; rewrite Ed; reflexivity.
  - destruct (b =? 46) eqn:E46.
    + fold (dfa TS_real w). rewrite dfa_real by assumption. reflexivity.
    + fold (dfa TS_literal w). rewrite dfa_lit.
      destruct (split_at_dot w) as [ip [fp|]]; unfold all_digits; cbn [forallb]; rewrite Ed; reflexivity.
Qed.

Lemma split_at_dot_none : forall w ip, split_at_dot w = (ip, None) -> w = ip.
Proof.
  induction w as [|b w IH]; intros ip H; simpl in H.
  - inversion H; reflexivity.
  - destruct (b =? 46); [discriminate|]. destruct (split_at_dot w) as [a f]. inversion H; subst. f_equal. apply IH. reflexivity.
Qed.

Lemma split_at_dot_some : forall w ip fp, split_at_dot w = (ip, Some fp) -> w = ip ++ 46 :: fp.
Proof.
  induction w as [|b w IH]; intros ip fp H; simpl in H.
  - discriminate.
  - destruct (b =? 46) eqn:E.
    + apply N.eqb_eq in E. inversion H; subst. reflexivity.
    + destruct (split_at_dot w) as [a f]. inversion H; subst. simpl. f_equal. apply IH. reflexivity.
Qed.

(* values *)
Lemma horner_positional : forall ds acc,
  fold_left (fun a d => a * 10 + digit_val d) ds acc = acc * 10 ^ N.of_nat (length ds) + positional_value ds.
Proof.
  induction ds as [|d ds IH]; intros acc.
  - simpl. lia.
  - cbn [fold_left positional_value length]. rewrite IH. unfold digit_val.
    rewrite Nat2N.inj_succ, N.pow_succ_r'. lia.
Qed.

Lemma dec_value_positional ds : dec_value ds = positional_value ds.
Proof. unfold dec_value. rewrite horner_positional. lia. Qed.

Lemma positional_app a b : positional_value (a ++ b) = positional_value a * 10 ^ N.of_nat (length b) + positional_value b.
Proof.
  induction a as [|d a IH]; [simpl; lia|].
  cbn [app positional_value]. rewrite IH, app_length, Nat2N.inj_add, N.pow_add_r. lia.
Qed.

Lemma real_scan_digits : forall ds seen m k, all_digits ds = true ->
  real_scan ds seen m k =
  (m * 10 ^ N.of_nat (length ds) + positional_value ds, if seen then k + N.of_nat (length ds) else k).
Proof.
  induction ds as [|d ds IH]; intros seen m k H.
  - simpl. destruct seen; f_equal; lia.
  - unfold all_digits in H. cbn [forallb] in H. apply andb_true_iff in H. destruct H as [Hd H].
    cbn [real_scan]. rewrite (digit_not_dot d Hd). rewrite IH by exact H.
    cbn [positional_value length]. rewrite Nat2N.inj_succ, N.pow_succ_r'. destruct seen; f_equal; lia.
Qed.

Lemma real_scan_split ip fp : all_digits ip = true -> all_digits fp = true ->
  real_scan (ip ++ 46 :: fp) false 0 0 = (positional_value (ip ++ fp), N.of_nat (length fp)).
Proof.
  intros Hi Hf.
  assert (G : forall ip m, all_digits ip = true ->
              real_scan (ip ++ 46 :: fp) false m 0 = real_scan fp true (m * 10 ^ N.of_nat (length ip) + positional_value ip) 0).
  { clear ip Hi. induction ip as [|d ip IH]; intros m H.
    - cbn [app real_scan]. change (46 =? 46) with true. cbn. f_equal. lia.
    - unfold all_digits in H. cbn [forallb] in H. apply andb_true_iff in H. destruct H as [Hd H].
      cbn [app real_scan]. rewrite (digit_not_dot d Hd). rewrite IH by exact H. f_equal.
      cbn [positional_value length]. rewrite Nat2N.inj_succ, N.pow_succ_r'. lia. }
  rewrite G by exact Hi. rewrite real_scan_digits by exact Hf. rewrite positional_app. f_equal; lia.
Qed.

Definition body_state (body : list N) : tstate :=
  match body with
  | [] => TS_sign
  | b :: w => if dec_digit b then dfa TS_number w else if b =? 46 then dfa TS_decimal w else TS_literal
  end.

Definition body_number (neg : bool) (body : list N) : option ptoken :=
  match split_at_dot body with
  | (ip, None) =>
      if nonempty ip && all_digits ip then Some (PInt (signed_value neg (positional_value ip))) else None
  | (ip, Some fp) =>
      if all_digits ip && all_digits fp && (nonempty ip || nonempty fp)
      then Some (PReal (signed_value neg (positional_value (ip ++ fp))) (N.of_nat (length fp)))
      else None
  end.

Lemma all_digits_cons b l : all_digits (b :: l) = dec_digit b && all_digits l.
Proof. reflexivity. Qed.

Lemma body_agree neg body : bytes_ok body ->
  match body_number neg body with
  | Some (PInt z) => body_state body = TS_number /\ z = signed_value neg (dec_value body)
  | Some (PReal m k) => body_state body = TS_real /\
                        (m, k) = (signed_value neg (fst (real_scan body false 0 0)), snd (real_scan body false 0 0))
  | Some _ => False
  | None => body_state body <> TS_number /\ body_state body <> TS_real
  end.
Proof.
  intros Hb. destruct body as [|b w].
  - cbn. split; discriminate.
  - inversion Hb as [|? ? Hb1 Hb2]; subst. unfold body_number, body_state. cbn [split_at_dot].
    destruct (b =? 46) eqn:E46.
    + apply N.eqb_eq in E46. subst b. change (dec_digit 46) with false. cbn iota.
      rewrite dfa_decimal by assumption. change (all_digits []) with true. cbn [andb orb nonempty].
      destruct w as [|b2 w2].
      * cbn. split; discriminate.
      * cbn [nonempty andb]. rewrite Bool.andb_true_r. destruct (all_digits (b2 :: w2)) eqn:Ed.
        -- split; [reflexivity|]. change (46 :: b2 :: w2) with ([] ++ 46 :: b2 :: w2). rewrite (real_scan_split [] (b2 :: w2) eq_refl Ed). reflexivity.
        -- split; discriminate.
    + destruct (split_at_dot w) as [ip f] eqn:Es. rewrite all_digits_cons. cbn [nonempty andb orb].
      destruct (dec_digit b) eqn:Ed; cbn [andb].
      * rewrite dfa_number by assumption. rewrite Es. destruct f as [fp|].
        -- rewrite Bool.andb_true_r. destruct (all_digits ip && all_digits fp) eqn:Ea.
           ++ split; [reflexivity|]. apply andb_true_iff in Ea. destruct Ea as [Ea1 Ea2].
              apply split_at_dot_some in Es. subst w.
              change (b :: ip ++ 46 :: fp) with ((b :: ip) ++ 46 :: fp).
              rewrite (real_scan_split (b :: ip) fp); [reflexivity| |exact Ea2].
              rewrite all_digits_cons, Ed, Ea1. reflexivity.
           ++ split; discriminate.
        -- destruct (all_digits ip) eqn:Ea.
           ++ split; [reflexivity|]. apply split_at_dot_none in Es. subst w. rewrite dec_value_positional. reflexivity.
           ++ split; discriminate.
      * destruct f; split; discriminate.
Qed.

Definition top_state (c : N) : tstate :=
  if (48 <=? c) && (c <=? 57) then TS_number
  else if (c =? 43) || (c =? 45) then TS_sign
  else if c =? 46 then TS_decimal else TS_literal.

(* the automaton accepts exactly the integers and reals of the grammar, with the same values *)
Lemma class_agree c w : bytes_ok (c :: w) ->
  match number_of_run (c :: w) with
  | Some (PInt z) => dfa (top_state c) w = TS_number /\ z = int_of_text (c :: w)
  | Some (PReal m k) => dfa (top_state c) w = TS_real /\ (m, k) = real_of_text (c :: w)
  | Some _ => False
  | None => dfa (top_state c) w <> TS_number /\ dfa (top_state c) w <> TS_real
  end.
Proof.
  intros Hb. inversion Hb as [|? ? Hb1 Hb2]; subst.
  unfold number_of_run, int_of_text, real_of_text, text_sign, top_state.
  destruct (c =? 43) eqn:E43.
  { apply N.eqb_eq in E43. subst c. change (43 =? 45) with false. change ((48 <=? 43) && (43 <=? 57)) with false.
    cbn [orb N.eqb]. change (43 =? 43) with true. cbn iota.
    pose proof (body_agree false w Hb2) as H. unfold body_number in H.
    assert (Hst : dfa TS_sign w = body_state w).
    { destruct w as [|b w]; [reflexivity|]. inversion Hb2; subst. unfold dfa, body_state. cbn [fold_left num_next].
      rewrite digit_agree by assumption. destruct (dec_digit b); [reflexivity|]. destruct (b =? 46); [reflexivity|apply dfa_lit]. }
    rewrite Hst. destruct (split_at_dot w) as [ip [fp|]]; destruct (real_scan w false 0 0); exact H. }
  destruct (c =? 45) eqn:E45.
  { apply N.eqb_eq in E45. subst c. change ((48 <=? 45) && (45 <=? 57)) with false. cbn [orb].
    change (45 =? 45) with true. cbn iota.
    pose proof (body_agree true w Hb2) as H. unfold body_number in H.
    assert (Hst : dfa TS_sign w = body_state w).
    { destruct w as [|b w]; [reflexivity|]. inversion Hb2; subst. unfold dfa, body_state. cbn [fold_left num_next].
      rewrite digit_agree by assumption. destruct (dec_digit b); [reflexivity|]. destruct (b =? 46); [reflexivity|apply dfa_lit]. }
    rewrite Hst. destruct (split_at_dot w) as [ip [fp|]]; destruct (real_scan w false 0 0); exact H. }
  cbn [orb].
  pose proof (body_agree false (c :: w) Hb) as H. unfold body_number in H.
  assert (Hst : dfa (if (48 <=? c) && (c <=? 57) then TS_number else if c =? 46 then TS_decimal else TS_literal) w = body_state (c :: w)).
  { unfold body_state, dec_digit. destruct ((48 <=? c) && (c <=? 57)); [reflexivity|]. destruct (c =? 46); [reflexivity|apply dfa_lit]. }
  rewrite Hst. destruct (split_at_dot (c :: w)) as [ip [fp|]]; destruct (real_scan (c :: w) false 0 0); exact H.
Qed.

(* ---- white space and comments before a token ---- *)
Fixpoint ends_in_comment (in_comment : bool) (inp : list N) : bool :=
  match inp with
  | [] => in_comment
  | b :: r =>
      if in_comment then ends_in_comment (negb (iso_eol b)) r
      else if iso_white b then ends_in_comment false r
      else if b =? 37 then ends_in_comment true r else false
  end.

Lemma space_agree b : b < 256 -> b <> 11 -> tk_is_space b = iso_white b.
Proof.
  intros Hb Hn.
  pose proof (sweep (fun b => (b =? 11) || Bool.eqb (tk_is_space b) (iso_white b)) ltac:(vm_compute; reflexivity) b Hb) as H.
  cbv beta in H. apply N.eqb_neq in Hn. rewrite Hn in H. apply Bool.eqb_prop in H. exact H.
Qed.

Section F.
Variable ae : bool.
Notation S st val raw depth c h d := (mkTk st ae false TT_bad val raw TE_none false true 0 0 false depth c h d).
(* the tokenizer after reset(), and inside a comment before any token (ignorable tokens not included) *)
Notation F c h d := (mkTk TS_before_token ae false TT_bad [] [] TE_none true false 0 0 false 0%Z c h d).
Notation C c h d := (mkTk TS_in_comment ae false TT_bad [] [] TE_none true false 0 0 false 0%Z c h d).

Lemma skip_run : forall inp c h d,
  (run (F c h d) inp = match skip_ignorable false inp with
                       | [] => if ends_in_comment false inp then run (C c h d) [] else run (F c h d) []
                       | s => run (F c h d) s
                       end) /\
  (run (C c h d) inp = match skip_ignorable true inp with
                       | [] => if ends_in_comment true inp then run (C c h d) [] else run (F c h d) []
                       | s => run (F c h d) s
                       end).
Proof.
  induction inp as [|b r IH]; intros c h d.
  - split; reflexivity.
  - destruct (IH c h d) as [IHF IHC]. split.
    + cbn [skip_ignorable ends_in_comment].
      destruct (iso_white b) eqn:Ew.
      * destruct (white_props b Ew) as (W1 & _ & _ & _).
        rewrite run_cons. unfold present_char_nr, handle_character. cbn [t_state]. unfold in_before_token. rewrite W1. norm. exact IHF.
      * destruct (b =? 37) eqn:E37; [|reflexivity].
        apply N.eqb_eq in E37. subst b.
        rewrite run_cons. unfold present_char_nr, handle_character. cbn [t_state]. unfold in_before_token. ev. norm. exact IHC.
    + cbn [skip_ignorable ends_in_comment]. unfold iso_eol.
      rewrite run_cons. unfold present_char_nr, handle_character. cbn [t_state]. unfold in_comment.
      rewrite (Bool.orb_comm (b =? 13) (b =? 10)).
      destruct ((b =? 10) || (b =? 13)); norm; [exact IHF|exact IHC].
Qed.
End F.

(* ---- reading of finished tokens ---- *)
Lemma interp_string t v : done_tok t TT_string v -> tok_interp (tk_token t) = Some (PStr (rev v)).
Proof.
  intros (_ & Hty & Hv & He). unfold tk_token. rewrite Hty. unfold tok_interp. cbn [tok_err tok_type tok_value].
  rewrite He, Hv, rev'_rev. reflexivity.
Qed.

Lemma interp_name t v n : done_tok t TT_name v -> rev v = 47 :: n -> tok_interp (tk_token t) = Some (PName n).
Proof.
  intros (_ & Hty & Hv & He) Hr. unfold tk_token. rewrite Hty. unfold tok_interp. cbn [tok_err tok_type tok_value].
  rewrite He, Hv, rev'_rev, Hr. reflexivity.
Qed.

Lemma list_eqb_rev l s : list_eqb N.eqb (rev l) (rev' s) = list_eqb N.eqb l s.
Proof.
  rewrite rev'_rev.
  destruct (list_eqb N.eqb l s) eqn:E.
  - apply list_eqb_N_eq in E. subst. apply list_eqb_N_eq. reflexivity.
  - destruct (list_eqb N.eqb (rev l) (rev s)) eqn:E2; [|reflexivity].
    apply list_eqb_N_eq in E2. apply (f_equal (@rev N)) in E2. rewrite !rev_involutive in E2. subst.
    assert (X : list_eqb N.eqb s s = true) by (apply list_eqb_N_eq; reflexivity). congruence.
Qed.

Lemma interp_run t b w : bytes_ok (b :: w) ->
  done_raw t (final_type (dfa (top_state b) w) (rev (b :: w))) (rev (b :: w)) ->
  tok_interp (tk_token t) = Some (token_of_run (b :: w)).
Proof.
  intros Hb (_ & Hty & Hraw & He).
  pose proof (class_agree b w Hb) as Hc. unfold token_of_run.
  assert (Hval : forall ty, ty <> TT_name -> ty <> TT_string -> t_type t = ty ->
                 tk_token t = mkToken ty (b :: w) (b :: w) TE_none).
  { intros ty N1 N2 Ht. unfold tk_token. rewrite Ht, Hraw, He, rev'_rev, rev_involutive. destruct ty; congruence. }
  destruct (number_of_run (b :: w)) as [[| | | | | |z|m k| | | | |]|] eqn:En; try contradiction.
  - destruct Hc as [Hst ->]. rewrite Hst in Hty. cbn [final_type] in Hty.
    rewrite (Hval TT_integer ltac:(discriminate) ltac:(discriminate) Hty). reflexivity.
  - destruct Hc as [Hst Hmk]. rewrite Hst in Hty. cbn [final_type] in Hty.
    rewrite (Hval TT_real ltac:(discriminate) ltac:(discriminate) Hty). unfold tok_interp. cbn [tok_err tok_type tok_value terr_is_none negb].
    rewrite <- Hmk. reflexivity.
  - destruct Hc as [N1 N2].
    assert (Hl : t_type t = lit_type (rev (b :: w))).
    { rewrite Hty. destruct (dfa (top_state b) w); try reflexivity; contradiction. }
    unfold lit_type in Hl. rewrite !list_eqb_rev in Hl.
    change str_true with kw_true in Hl. change str_false with kw_false in Hl. change str_null with kw_null in Hl.
    destruct (list_eqb N.eqb (b :: w) kw_true) eqn:Et.
    + cbn [orb] in Hl. rewrite (Hval TT_bool ltac:(discriminate) ltac:(discriminate) Hl).
      unfold tok_interp. cbn [tok_err tok_type tok_value terr_is_none negb]. change str_true with kw_true. rewrite Et. reflexivity.
    + destruct (list_eqb N.eqb (b :: w) kw_false) eqn:Ef.
      * cbn [orb] in Hl. rewrite (Hval TT_bool ltac:(discriminate) ltac:(discriminate) Hl).
        unfold tok_interp. cbn [tok_err tok_type tok_value terr_is_none negb]. change str_true with kw_true. rewrite Et. reflexivity.
      * cbn [orb] in Hl. destruct (list_eqb N.eqb (b :: w) kw_null) eqn:Enl.
        -- rewrite (Hval TT_null ltac:(discriminate) ltac:(discriminate) Hl). reflexivity.
        -- rewrite (Hval TT_word ltac:(discriminate) ltac:(discriminate) Hl). reflexivity.
Qed.
