(* C15 extension (LZW inversion): the pieces of Pl_LZWDecoder's model (Filters.v) seen at the level
   of CODES and of BITS, used to state the three layers of lzw_decode_encode:
     - lzi_hrun: handleCode applied to a list of (code, width) pairs (the decoder on codes);
     - lzi_widths_ok: the width of every code is the decoder's code_size at the moment it reads it;
     - lzi_send_code / lzi_send_pos: the arithmetic of sendNextCode (same let-chain as lzw_send);
     - lzi_cbits: the MSB-first bit string of a list of (code, width) pairs.
   Definitions only; proofs are in C15ProofsL.v / C15ProofsM.v. *)
From QV Require Import Base.Bytes Filters.Filters Filters.FilterSpec Filters.LzwSpec.
Local Open Scope N_scope.

(* handleCode over a list of codes; stops at the first exception like write_bytes does *)
Fixpoint lzi_hrun (early : bool) (s : lzw_st) (cws : list (N * N)) : lzw_st * list N * bool :=
  match cws with
  | [] => (s, [], false)
  | (c, _) :: r =>
      let '(s1, o1, e1) := lzw_handle early s c in
      if e1 then (s1, o1, true)
      else let '(s2, o2, e2) := lzi_hrun early s1 r in (s2, o1 ++ o2, e2)
  end.

(* every code is written with the width the decoder will use to read it (up to the first exception) *)
Fixpoint lzi_widths_ok (early : bool) (s : lzw_st) (cws : list (N * N)) : Prop :=
  match cws with
  | [] => True
  | (c, w) :: r =>
      w = lz_code_size s /\ c < 2 ^ w /\
      (snd (lzw_handle early s c) = false -> lzi_widths_ok early (fst (fst (lzw_handle early s c))) r)
  end.

(* the part of the state handleCode reads and writes *)
Definition lzi_hproj (s : lzw_st) : N * list (list N) * N * bool :=
  (lz_code_size s, lz_table s, lz_last_code s, lz_eod s).

(* sendNextCode: the code assembled from the ring, as in lzw_send *)
Definition lzi_send_code (x0 x1 x2 bit_pos cs : N) : N :=
  let bfh := 8 - bit_pos in
  let bfm0 := cs - bfh in
  let bfl := if 8 <? bfm0 then bfm0 - 8 else 0 in
  let bfm := if 8 <? bfm0 then 8 else bfm0 in
  let high_mask := 2 ^ bfh - 1 in
  let med_mask := 255 - (2 ^ (8 - bfm) - 1) in
  let low_mask := 255 - (2 ^ (8 - bfl) - 1) in
  let code0 := (N.land x0 high_mask) * 2 ^ bfm + (N.land x1 med_mask) / 2 ^ (8 - bfm) in
  if 0 <? bfl then code0 * 2 ^ bfl + (N.land x2 low_mask) / 2 ^ (8 - bfl) else code0.

(* MSB-first bits of a list of (code, width) pairs *)
Definition lzi_cbits (cws : list (N * N)) : list bool :=
  flat_map (fun cw => bits_of_byte_fuel (N.to_nat (snd cw)) (fst cw)) cws.

(* string of a code under a table of strings (entry i is code 258 + i) *)
Definition lzi_str (S : list (list N)) (code : N) : list N :=
  if code <? 256 then [code] else nth (N.to_nat (code - 258)) S [].

(* the codes the reference encoder emits, in order, with the leading clear-table code *)
Definition lzi_ref_codes (early : bool) (d : list N) : list (N * N) :=
  (256, 9) :: rev' (ref_lzw_codes early d None [] 258 0 []).
