(* Extraction of the executable models and specifications. ExtrOcamlBasic only:
   nat, positive, N, Z stay the inductive types. Run from the output directory:
   cd _build/extract && coqc -Q /verif/coq QV /verif/coq/Extract/Extract.v *)
From Coq Require Import Extraction ExtrOcamlBasic.
From QV Require Import Base.Bytes Struct.NumRange Struct.RangeSpec Struct.PageOps Filters.Filters Filters.FilterSpec Filters.LzwSpec.
Extraction Language OCaml.
Extraction "qvmodel.ml"
  NumRange.parse_numrange RangeSpec.range_spec
  PageOps.collate PageOps.collate_spec PageOps.split_chunks PageOps.rotate_angle
  Filters.ahx_run Filters.a85_run Filters.rle_run Filters.rld_run Filters.png_make Filters.png_run
  Filters.tiff_make Filters.tiff_run Filters.b64_decode Filters.b64_encode_run Filters.lzw_run Filters.rc4
  FilterSpec.ref_ahx_encode FilterSpec.ref_a85_encode FilterSpec.ref_rl_decode FilterSpec.ref_rl_encode
  FilterSpec.ref_rl_encode_runs FilterSpec.ref_png_encode FilterSpec.ref_png_decode_up FilterSpec.ref_tiff8_encode_row
  FilterSpec.ref_b64_decode LzwSpec.ref_lzw_encode.
