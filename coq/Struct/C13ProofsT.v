(* C13 - FRAME property of the whole page-tree / copier model for ARBITRARY states (no well-formedness assumptions):
   nothing the model does ever removes an object, changes the content marker /Mk of an existing object, or changes
   whether an existing object is null - except for the explicit targets of replaceObject / swapObjects / in-place
   edits and for the null placeholders a copy fills. *)
From QV Require Import Base.Bytes Struct.PgModel Struct.PgSpec Struct.PgyModel Struct.C13ProofsA Struct.C13ProofsB Struct.C13ProofsE Struct.C13ProofsG.
Local Open Scope N_scope.

Definition pgt_keep (T : N -> Prop) (s s' : pg_store) : Prop :=
  forall j, ~ T j -> pg_lookup s j <> None ->
    pg_lookup s' j <> None /\ pg_mark s' j = pg_mark s j /\ pg_is_null s' (PvRef j) = pg_is_null s (PvRef j).

Local Notation pgt_le := (pgt_keep (fun _ => False)).

(* ------------------------------------------------------------------ the relation *)
Lemma pgt_keep_refl : forall T s, pgt_keep T s s.
Proof. intros T s j _ Hj. repeat split; auto. Qed.

Lemma pgt_keep_trans : forall T s s' s'', pgt_keep T s s' -> pgt_keep T s' s'' -> pgt_keep T s s''.
Proof.
  intros T s s' s'' H1 H2 j Ht Hj. destruct (H1 j Ht Hj) as (A & B & C). destruct (H2 j Ht A) as (A' & B' & C').
  split; [exact A'|split; congruence].
Qed.

Lemma pgt_keep_weaken : forall (T T' : N -> Prop) s s', (forall j, T j -> T' j) -> pgt_keep T s s' -> pgt_keep T' s s'.
Proof. intros T T' s s' Hs H j Ht Hj. apply H; [intros X; apply Ht, Hs, X|exact Hj]. Qed.

(* composition with different target sets: the second set is read in the intermediate state *)
Lemma pgt_keep_trans_gen : forall (T T1 T2 : N -> Prop) s s' s'',
  pgt_keep T1 s s' -> pgt_keep T2 s' s'' ->
  (forall j, ~ T j -> pg_lookup s j <> None -> ~ T1 j) ->
  (forall j, ~ T j -> pg_lookup s j <> None -> pg_is_null s' (PvRef j) = pg_is_null s (PvRef j) -> ~ T2 j) ->
  pgt_keep T s s''.
Proof.
  intros T T1 T2 s s' s'' H1 H2 Ha Hb j Ht Hj. destruct (H1 j (Ha j Ht Hj) Hj) as (A & B & C).
  destruct (H2 j (Hb j Ht Hj C) A) as (A' & B' & C'). split; [exact A'|split; congruence].
Qed.

Lemma pgt_le_any : forall T s s', pgt_le s s' -> pgt_keep T s s'.
Proof. intros T s s' H. eapply pgt_keep_weaken; [|exact H]. intros j []. Qed.

(* ------------------------------------------------------------------ one object *)
Definition pgt_ok (s s' : pg_store) (j : N) : Prop :=
  pg_lookup s' j <> None /\ pg_mark s' j = pg_mark s j /\ pg_is_null s' (PvRef j) = pg_is_null s (PvRef j).

Lemma pgt_ok_eq : forall s s' j, pg_lookup s' j = pg_lookup s j -> pg_lookup s j <> None -> pgt_ok s s' j.
Proof.
  intros s s' j H Hj. split; [rewrite H; exact Hj|split; [apply pg_mark_ext, H|apply pg_is_null_ref_lookup, H]].
Qed.

Lemma pgt_ok_dict : forall s s' j d d', pg_lookup s j = Some (PcObj (PvDict d)) -> pg_lookup s' j = Some (PcObj (PvDict d')) ->
  pg_dget d' pgk_Mk = pg_dget d pgk_Mk -> pgt_ok s s' j.
Proof.
  intros s s' j d d' H H' Hd. split; [rewrite H'; discriminate|split].
  - unfold pg_mark, pg_marker, pg_hget, pg_rv. rewrite H, H', Hd. reflexivity.
  - unfold pg_is_null. rewrite H, H'. reflexivity.
Qed.

Lemma pgt_same : forall T s s', (forall j, pg_lookup s j <> None -> pg_lookup s' j = pg_lookup s j) -> pgt_keep T s s'.
Proof. intros T s s' H j _ Hj. apply pgt_ok_eq; [apply H, Hj|exact Hj]. Qed.

(* ------------------------------------------------------------------ primitives *)
Lemma pgt_alloc : forall s c, pgt_le s (fst (pg_alloc s c)).
Proof.
  intros s c. apply pgt_same. intros j Hj. rewrite pg_lookup_alloc. destruct (j =? pg_next_id s) eqn:E; [|reflexivity].
  apply N.eqb_eq in E. subst j. rewrite pg_next_id_fresh in Hj. congruence.
Qed.

Lemma pgt_alloc_cons : forall s c, pgt_le s ((pg_next_id s, c) :: s).
Proof. intros s c. exact (pgt_alloc s c). Qed.

Lemma pgt_supd : forall s i c, pgt_keep (fun j => j = i) s (pg_supd s i c).
Proof.
  intros s i c j Hn Hj. apply pgt_ok_eq; [|exact Hj]. rewrite pg_lookup_supd. apply N.eqb_neq in Hn. rewrite Hn. reflexivity.
Qed.

Lemma pgt_set_key : forall s i k v, k <> pgk_Mk -> pgt_le s (pg_obj_set_key s i k v).
Proof.
  intros s i k v Hk j _ Hj. destruct (N.eq_dec j i) as [->|Hn].
  - unfold pg_obj_set_key. destruct (pg_lookup s i) as [[[]|]|] eqn:E; try (apply pgt_ok_eq; [reflexivity|congruence]).
    eapply pgt_ok_dict; [exact E|rewrite pg_lookup_supd, N.eqb_refl; reflexivity|apply pg_dget_dset_neq; congruence].
  - apply pgt_ok_eq; [apply pg_lookup_obj_set_key_other, Hn|exact Hj].
Qed.

Lemma pgt_del_key : forall s i k, k <> pgk_Mk -> pgt_le s (pg_obj_del_key s i k).
Proof.
  intros s i k Hk j _ Hj. unfold pg_obj_del_key. destruct (N.eq_dec j i) as [->|Hn].
  - destruct (pg_lookup s i) as [[[]|]|] eqn:E; try (apply pgt_ok_eq; [reflexivity|congruence]).
    eapply pgt_ok_dict; [exact E|rewrite pg_lookup_supd, N.eqb_refl; reflexivity|apply pg_dget_ddel_neq; congruence].
  - apply pgt_ok_eq; [|exact Hj]. destruct (pg_lookup s i) as [[[]|]|]; try reflexivity.
    rewrite pg_lookup_supd. apply N.eqb_neq in Hn. rewrite Hn. reflexivity.
Qed.

Ltac pgt_key := let H := fresh in intro H; vm_compute in H; discriminate H.

Lemma pgt_set_kid : forall s node idx v, pgt_le s (pg_set_kid s node idx v).
Proof. intros. unfold pg_set_kid. apply pgt_set_key. pgt_key. Qed.

Lemma pgt_inh_key : forall k, pg_is_inh k = true -> k <> pgk_Mk.
Proof. intros k H ->. vm_compute in H. discriminate H. Qed.

(* accumulating forms: s0 is the state the chain started from *)
Lemma pgt_c_set : forall s0 s i k v, k <> pgk_Mk -> pgt_le s0 s -> pgt_le s0 (pg_obj_set_key s i k v).
Proof. intros. eapply pgt_keep_trans; [eassumption|apply pgt_set_key; assumption]. Qed.
Lemma pgt_c_del : forall s0 s i k, k <> pgk_Mk -> pgt_le s0 s -> pgt_le s0 (pg_obj_del_key s i k).
Proof. intros. eapply pgt_keep_trans; [eassumption|apply pgt_del_key; assumption]. Qed.
Lemma pgt_c_kid : forall s0 s node idx v, pgt_le s0 s -> pgt_le s0 (pg_set_kid s node idx v).
Proof. intros. eapply pgt_keep_trans; [eassumption|apply pgt_set_kid]. Qed.
Lemma pgt_c_alloc : forall s0 s c, pgt_le s0 s -> pgt_le s0 ((pg_next_id s, c) :: s).
Proof. intros. eapply pgt_keep_trans; [eassumption|apply pgt_alloc_cons]. Qed.
Lemma pgt_c_if : forall s0 (b : bool) s1 s2, pgt_le s0 s1 -> pgt_le s0 s2 -> pgt_le s0 (if b then s1 else s2).
Proof. intros. destruct b; assumption. Qed.

Ltac pgt_chain :=
  repeat first
    [ assumption
    | apply pgt_keep_refl
    | apply pgt_c_if
    | apply pgt_c_kid
    | apply pgt_c_alloc
    | apply pgt_c_set; [pgt_key|]
    | apply pgt_c_del; [pgt_key|] ].

Lemma pgt_fold : forall {A B} (pr : B -> pg_store) (f : B -> A -> B) s0,
  (forall b x, pgt_le (pr b) (pr (f b x))) -> forall l b, pgt_le s0 (pr b) -> pgt_le s0 (pr (fold_left f l b)).
Proof.
  intros A B pr f s0 H. induction l as [|x t IH]; intros b Hb; [exact Hb|]. cbn [fold_left].
  apply IH. eapply pgt_keep_trans; [exact Hb|apply H].
Qed.

(* ------------------------------------------------------------------ getAllPagesInternal *)
Lemma pgt_leaf : forall g node idx kid mb res, pgt_le (pgg_s g) (pgg_s (pg_leaf g node idx kid mb res)).
Proof.
  intros g node idx kid mb res. unfold pg_leaf, pg_alloc. cbv zeta.
  destruct (pg_memN kid (pgg_seen g)); cbv iota beta; cbn [pgg_s]; pgt_chain.
Qed.

Lemma pgt_gapi : forall fuel node level mb res g, pgt_le (pgg_s g) (pgg_s (pg_gapi fuel node level mb res g)).
Proof.
  induction fuel as [|f IH]; intros node level mb res g; cbn [pg_gapi]; [apply pgt_keep_refl|].
  destruct (Nat.ltb 100 (S level)); [apply pgt_keep_refl|].
  destruct (pg_memN node (pgg_vis g)); [apply pgt_keep_refl|].
  set (s1 := if pg_is_dict_of_type (pgg_s g) (PvRef node) pgk_Pages then pgg_s g
             else pg_obj_set_key (pgg_s g) node pgk_Type (PvName pgk_Pages)).
  assert (H1 : pgt_le (pgg_s g) s1) by (unfold s1; pgt_chain).
  cbv zeta.
  set (mb1 := mb || pg_is_rect s1 (pg_hget s1 (PvRef node) pgk_MediaBox)).
  set (res1 := res || pg_is_dict s1 (pg_hget s1 (PvRef node) pgk_Resources)).
  destruct (pg_hget s1 (PvRef node) pgk_Kids); cbn [pgg_fail pgg_s]; try exact H1.
  apply (pgt_fold pgg_s); [|exact H1].
  intros g0 idx. destruct (pgg_err g0); [apply pgt_keep_refl|].
  destruct (nth_error (pg_kids_of (pgg_s g0) node) idx) as [kv|]; [|apply pgt_keep_refl].
  destruct (negb (pg_is_dict (pgg_s g0) kv)); [apply pgt_keep_refl|].
  assert (Hk : exists s2 kid, (match kv with
                               | PvRef k => (pgg_s g0, k)
                               | _ => let '(s', k) := pg_alloc (pgg_s g0) (PcObj kv) in (pg_set_kid s' node idx (PvRef k), k)
                               end) = (s2, kid) /\ pgt_le (pgg_s g0) s2).
  { unfold pg_alloc. destruct kv; eexists _, _; (split; [reflexivity|pgt_chain]). }
  destruct Hk as (s2 & kid & -> & H2).
  destruct (pg_has_key s2 (PvRef kid) pgk_Kids).
  - eapply pgt_keep_trans; [exact H2|]. exact (IH kid (S level) mb1 res1 (mkPgGst s2 _ _ _ _ _)).
  - eapply pgt_keep_trans; [exact H2|]. exact (pgt_leaf (mkPgGst s2 _ _ _ _ _) node idx kid mb1 res1).
Qed.

(* ------------------------------------------------------------------ pushInheritedAttributesToPageInternal *)
Definition pgt_inh_ka (ka : pg_ka) : Prop := forall kv, In kv ka -> pg_is_inh (fst kv) = true.

Lemma pgt_F1_fold : forall cur keys s ka s0, pgt_inh_ka ka -> pgt_le s0 s ->
  pgt_le s0 (fst (fold_left (pgy_F1 cur) keys (s, ka))) /\ pgt_inh_ka (snd (fold_left (pgy_F1 cur) keys (s, ka))).
Proof.
  intros cur keys. induction keys as [|key t IH]; intros s ka s0 Hka Hs; [split; assumption|].
  cbn [fold_left]. unfold pgy_F1 at 2 4. destruct (pg_is_inh key) eqn:Ei; [|apply IH; assumption].
  set (oh := pg_hget s (PvRef cur) key).
  assert (Hstep : exists s1 oh1,
            (if pg_is_ref oh then (s, oh) else if pg_is_scalar oh then (s, oh)
             else let '(s', k) := pg_alloc s (PcObj oh) in (pg_obj_set_key s' cur key (PvRef k), PvRef k)) = (s1, oh1) /\
            pgt_le s0 s1).
  { destruct (pg_is_ref oh); [exists s, oh; split; [reflexivity|exact Hs]|].
    destruct (pg_is_scalar oh); [exists s, oh; split; [reflexivity|exact Hs]|].
    unfold pg_alloc. eexists _, _. split; [reflexivity|]. apply pgt_c_set; [apply pgt_inh_key, Ei|]. apply pgt_c_alloc, Hs. }
  cbv zeta. destruct Hstep as (s1 & oh1 & -> & H1).
  apply IH.
  - intros kv Hin. unfold pg_ka_push in Hin. apply pgy_dins_in in Hin. destruct Hin as [->|Hin]; [exact Ei|apply Hka, Hin].
  - apply pgt_c_del; [apply pgt_inh_key, Ei|exact H1].
Qed.

Lemma pgt_ka_fold : forall (ka : pg_ka) k s s0, pgt_inh_ka ka -> pgt_le s0 s ->
  pgt_le s0 (fold_left (fun s (kv : pg_key * pg_val) =>
                          if pg_has_key s (PvRef k) (fst kv) then s else pg_obj_set_key s k (fst kv) (snd kv)) ka s).
Proof.
  induction ka as [|kv t IH]; intros k s s0 Hka Hs; [exact Hs|]. cbn [fold_left].
  apply IH; [intros x Hx; apply Hka; right; exact Hx|].
  apply pgt_c_if; [exact Hs|]. apply pgt_c_set; [|exact Hs]. apply pgt_inh_key, Hka. left. reflexivity.
Qed.

Lemma pgt_pia : forall fuel cur ka s, pgt_inh_ka ka -> pgt_le s (fst (pg_pia fuel cur ka s)).
Proof.
  induction fuel as [|f IH]; intros cur ka s Hka; [apply pgt_keep_refl|].
  rewrite pgy_pia_unfold. cbv zeta.
  destruct (pgt_F1_fold cur (match pg_rv s (PvRef cur) with PvDict d => pg_nonnull_keys s d | _ => [] end) s ka s Hka (pgt_keep_refl _ _)) as [H1 Hka1].
  destruct (fold_left (pgy_F1 cur) _ (s, ka)) as [s1 ka1]. cbn [fst snd] in H1, Hka1.
  apply (pgt_fold fst); [|exact H1].
  intros [s2 e] idx. unfold pgy_F2. cbn [fst]. destruct e; [apply pgt_keep_refl|].
  destruct (nth_error _ idx) as [kid|]; [|apply pgt_keep_refl].
  destruct (pg_is_dict_of_type s2 kid pgk_Pages); destruct kid; cbn [fst]; try apply pgt_keep_refl.
  - apply IH, Hka1.
  - destruct ka1; apply pgt_keep_refl.
  - destruct ka1; apply pgt_keep_refl.
  - destruct ka1; apply pgt_keep_refl.
  - apply pgt_ka_fold; [exact Hka1|apply pgt_keep_refl].
  - destruct ka1; apply pgt_keep_refl.
  - destruct ka1; apply pgt_keep_refl.
Qed.
