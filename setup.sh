#!/bin/bash
# Build everything the checks need from files on disk only (offline): /repo -> _build/repo,
# the Coq development, the extracted OCaml runner, the C++ drivers.
set -e
cd "$(dirname "$0")"
python3 - <<'PY'
import sys, os
sys.path.insert(0, "harness")
import common
common.build_repo()
common.build_drv()
ok, log = common.build_coq()
print("coq build:", "ok" if ok else "FAILED (see _build/coq_make.log)")
common.build_extract()
print("setup done")
PY
