# C03, object-level reader part: small files aimed at the case splits of Objects::readObjectAtOffset / readObject /
# readStream / validateStreamLineEnd / resolve / resolveObjectsInStream / findHeader, read by the real qpdf (in-process,
# harness/drv_read.cc: processMemoryFile, getXRefTable, getObject, getRawStreamData, getWarnings) and by the extracted
# reader model (coq/File/RdModel.v, ocaml/h_read.ml).  Three sides:
#   truth  : what the file denotes by ISO 32000-1 7.3.8 / 7.5 (written here from the generator's own document; for the
#            files of the VALID class only),
#   impl   : qpdf's view (values, raw stream bytes, warning classes),
#   model  : the extracted model's view.
# impl != truth on a valid file  -> a failing input (property violation).
# impl != model                  -> corr:C03:object-reader (one report, no input blamed).
import os, re, zlib
import common
from common import hexs


def hx(b):
    return b.hex()


class Ref:
    def __init__(self, n, g=0):
        self.n, self.g = n, g


class Name:
    def __init__(self, b):
        self.b = b


class Real:
    def __init__(self, s):
        self.s = s


REG = set(range(33, 127)) - set(b"()<>[]{}/%#")


def ser(o, rng, tight=False):
    """serialise with random legal white space; tight = minimal separators"""
    sp = (lambda: b"") if tight else (lambda: rng.choice([b" ", b" ", b"\n", b"\r\n", b"\t", b" %c\n", b"  "]))
    sp1 = (lambda: b" ") if tight else (lambda: rng.choice([b" ", b"\n", b"\r", b" \t"]))
    if o is None:
        return b"null"
    if o is True:
        return b"true"
    if o is False:
        return b"false"
    if isinstance(o, int):
        return str(o).encode()
    if isinstance(o, Real):
        return o.s.encode()
    if isinstance(o, bytes):
        if rng.random() < 0.3:
            return b"<" + o.hex().encode() + b">"
        out = bytearray(b"(")
        for c in o:
            if c in b"()\\":
                out += b"\\" + bytes([c])
            elif c == 13:
                out += b"\\r"
            else:
                out.append(c)
        return bytes(out + b")")
    if isinstance(o, Name):
        return b"/" + b"".join(bytes([c]) if c in REG else b"#%02x" % c for c in o.b)
    if isinstance(o, Ref):
        return b"%d" % o.n + sp1() + b"%d" % o.g + sp1() + b"R"
    if isinstance(o, list):
        parts, prev_word = [], False
        out = b"["
        for x in o:
            s = ser(x, rng, tight)
            need = prev_word and s[:1] not in b"/(<["
            out += (sp() or (b" " if need else b"")) + s
            prev_word = s[-1:] not in b")>]"
        return out + sp() + b"]"
    if isinstance(o, dict):
        out = b"<<"
        for k, v in o.items():
            s = ser(v, rng, tight)
            out += sp() + ser(Name(k), rng) + (sp() or (b"" if s[:1] in b"/(<[" else b" ")) + s
        return out + sp() + b">>"
    raise TypeError(type(o))


def truth_text(o, live, top=True):
    """the text form of ocaml/h_read.ml for the value the document denotes; a reference to an object that is
    not defined is the null object, a dictionary entry whose value is null is absent (7.3.9, 7.3.10)"""
    if o is None:
        return "n"
    if o is True:
        return "t"
    if o is False:
        return "f"
    if isinstance(o, int):
        return "i%d" % o
    if isinstance(o, Real):
        return "r" + hx(o.s.encode())
    if isinstance(o, bytes):
        return "s" + hx(o)
    if isinstance(o, Name):
        return "N" + hx(b"/" + o.b)
    if isinstance(o, Ref):
        return "R%d.%d" % (o.n, o.g) if (o.n, o.g) in live else "n"
    if isinstance(o, list):
        return "[" + ",".join(truth_text(x, live, False) for x in o) + "]"
    if isinstance(o, dict):
        items = []
        for k in sorted(o):
            t = truth_text(o[k], live, False)
            if t != "n":
                items.append(hx(b"/" + k) + ":" + t)
        return "<" + ",".join(items) + ">"
    raise TypeError(type(o))


class Builder:
    """one small file. Objects: 1 catalog, 2 page tree, 3 page, 4.. test objects."""

    def __init__(self, rng, case):
        self.rng, self.case = rng, case
        self.out = bytearray()
        self.valid = True          # stays True only if every choice made is legal PDF
        self.notes = []
        self.truth = {}            # (num, gen) -> text
        self.live = set()

    def value(self, depth=0):
        rng = self.rng
        k = rng.randrange(8 if depth < 2 else 6)
        if k == 5 and depth == 0:
            # `n 0 obj m 0 R endobj`: ISO 32000-1 7.3.10 makes "the value of the object" any object, and a reference is not one
            # of the object types of 7.3; qpdf reads the integer m and warns.  Not generated in the valid class.
            if self.case.get("toplevel_ref"):
                self.valid = False
            else:
                k = 0
        if k == 0:
            return rng.choice([0, 1, -1, 7, 42, 65535, 123456789, -2147483648])
        if k == 1:
            return Real(rng.choice(["1.5", "-0.25", "3.", ".5", "0.0", "+2.50"]))
        if k == 2:
            return bytes(rng.choice(b"ab ()\\\r\n\x00\xff") for _ in range(rng.choice([0, 1, 3, 8])))
        if k == 3:
            return Name(bytes(rng.choice(b"AZaz09#/ \x7f") for _ in range(rng.randint(1, 4))))
        if k == 4:
            return rng.choice([True, False, None])
        if k == 5:
            return Ref(rng.choice([1, 2, 3, 4, 5, 99]), 0)
        if k == 6:
            return [self.value(depth + 1) for _ in range(rng.randint(0, 3))]
        return {b"K%d" % i: self.value(depth + 1) for i in range(rng.randint(0, 3))}


STREAM_EOLS_VALID = [b"\n", b"\r\n"]
STREAM_EOLS_BAD = [b"\r", b" \n", b"\t\r\n", b"\x00", b"", b"\r\r\n", b" \r"]
DATA_EDGES = [b"", b"\n", b"\r", b"\r\n", b"\nx", b"\rx", b"x\n", b"x\r", b"x\r\n", b"\n\n", b"endstream", b"abc def", b"\x00\xff"]


def build(rng, case):
    """case: dict of choices; returns (bytes, truth{(n,g): text}, valid, notes)"""
    b = Builder(rng, case)
    out = b.out
    junk_len = case.get("junk", 0)
    junk = bytes(rng.choice(b"junk \n%") for _ in range(junk_len))
    junk = junk.replace(b"%P", b"%Q")
    if junk_len > 1023:
        b.valid = False
    ver = case.get("version", b"1.7")
    if not re.fullmatch(rb"[12]\.\d", ver):
        b.valid = False
    out += b"%PDF-" + ver + rng.choice([b"\n", b"\r\n", b"\r"]) + b"%\xe2\xe3\xcf\xd3\n"
    form = case.get("form", "table")            # table | stream
    objs = {}                                    # num -> ("val", v) | ("stm", dict, data, eol, endeol, lenspec)
    nxt = 4
    ntest = case.get("ntest", 4)
    for i in range(ntest):
        objs[nxt] = ("val", b.value())
        nxt += 1
    # streams with every line-end / data-edge choice
    streams = case.get("streams", [])
    length_objs = {}                             # num of a /Length object -> value, placed "before"/"after"
    for st in streams:
        num = nxt
        nxt += 1
        data = st["data"]
        d = {b"K": num}
        lenspec = st.get("length", "direct")     # direct | before | after | missing | short | long | name | ref-missing | loop
        lval = len(data)
        if lenspec in ("before", "after"):
            ln = nxt
            nxt += 1
            length_objs[ln] = (lval, lenspec, num)
            d[b"Length"] = Ref(ln)
        elif lenspec == "direct":
            d[b"Length"] = lval
        elif lenspec == "short":
            d[b"Length"] = max(0, lval - 1 - rng.randrange(2)); b.valid = False
            if d[b"Length"] == lval:
                d[b"Length"] = lval + 1
        elif lenspec == "long":
            d[b"Length"] = lval + 1 + rng.randrange(30); b.valid = False
        elif lenspec == "name":
            d[b"Length"] = Name(b"X"); b.valid = False
        elif lenspec == "ref-missing":
            d[b"Length"] = Ref(98); b.valid = False
        elif lenspec == "neg":
            d[b"Length"] = -3; b.valid = False
        elif lenspec == "loop":
            d[b"Length"] = Ref(num); b.valid = False
        else:
            b.valid = False                      # missing
        if st["eol"] not in STREAM_EOLS_VALID:
            b.valid = False
        objs[num] = ("stm", d, data, st["eol"], st.get("endeol", b"\n"))
    root = {b"Type": Name(b"Catalog"), b"Pages": Ref(2), b"X": [Ref(n) for n in sorted(objs)]}
    if case.get("no_catalog_type"):
        del root[b"Type"]; b.valid = False
    objs[1] = ("val", root)
    objs[2] = ("val", {b"Type": Name(b"Pages"), b"Kids": [Ref(3)], b"Count": 1})
    objs[3] = ("val", {b"Type": Name(b"Page"), b"Parent": Ref(2), b"MediaBox": [0, 0, 10, 10]})
    for ln, (lval, where, owner) in length_objs.items():
        objs[ln] = ("val", lval)
    # which objects go to object streams
    packed = []
    if form == "stream":
        cand = [n for n in sorted(objs) if objs[n][0] == "val" and n not in length_objs]
        rng.shuffle(cand)
        packed = sorted(cand[: case.get("npacked", len(cand) // 2 + 1)])
    offsets = {}
    gens = {n: 0 for n in objs}

    def emit(num, gen=0, override=None):
        kind = objs[num] if override is None else override
        off = len(out)
        w = lambda: rng.choice([b" ", b" ", b"\n", b"\r\n", b"  ", b"\t"])
        hdr = b"%d" % num + w() + b"%d" % gen + w() + b"obj"
        if case.get("bad_header") == num:
            hdr = b"%d" % (num + 1) + b" %d obj" % gen; b.valid = False
        out.extend(hdr + rng.choice([b" ", b"\n", b"\r\n", b""]))
        if kind[0] == "val":
            s = ser(kind[1], rng)
            if out[-1:] not in b" \n\r\t" and s[:1] not in b"/(<[":
                out.extend(b" ")
            out.extend(s)
            endw = rng.choice([b" ", b"\n", b"\r\n"]) if s[-1:] not in b")>]" or rng.random() < 0.7 else b""
            endobj = b"endobj"
            if case.get("bad_endobj") == num:
                endobj = rng.choice([b"endob", b"endobjx", b""]); b.valid = False
            out.extend(endw + endobj + rng.choice([b"\n", b"\r\n", b" \n", b"\r"]))
        else:
            _, d, data, eol, endeol = kind
            out.extend(ser(d, rng) + rng.choice([b"", b" ", b"\n", b"\r\n"]) + b"stream" + eol + data + endeol + b"endstream"
                       + rng.choice([b" ", b"\n", b"\r\n"]) + b"endobj" + rng.choice([b"\n", b"\r\n", b" \n"]))
        return off

    # body: length objects "before" their stream first, "after" ones last
    order = [n for n in sorted(objs) if n not in packed and not (n in length_objs and length_objs[n][1] == "after")]
    if case.get("shuffle"):
        rng.shuffle(order)
    order += [n for n in sorted(objs) if n in length_objs and length_objs[n][1] == "after"]
    for n in order:
        offsets[n] = ("n", emit(n), 0)
    stm_nums = []
    if packed:
        groups = [packed]
        if len(packed) >= 2 and case.get("two_objstm"):
            h = len(packed) // 2
            groups = [packed[:h], packed[h:]]
        prev_stm = None
        for g in groups:
            snum = nxt
            nxt += 1
            tight = case.get("tight", False)
            bodies, pairs, pos = [], [], 0
            prev_word = False
            for on in g:
                s = ser(objs[on][1], rng, tight=tight)
                sep = b""
                if tight:
                    # minimal separators: white space only where two regular-character tokens would merge
                    if prev_word and s[:1] not in b"/(<[" and not case.get("merge_tokens"):
                        sep = b" "
                else:
                    sep = rng.choice([b"\n", b" ", b"\r\n", b" %c\n"]) if bodies else rng.choice([b"", b" "])
                if sep and bodies:
                    bodies[-1] += sep
                    pos += len(sep)
                elif sep:
                    pass
                pairs.append((on, pos))
                bodies.append(s)
                pos += len(s)
                prev_word = s[-1:] not in b")>]"
            hsep = (lambda: b" ") if tight else (lambda: rng.choice([b" ", b"\n", b"\r\n", b"  ", b"\t"]))
            header = b"".join(b"%d" % on + hsep() + b"%d" % o + hsep() for on, o in pairs)
            nval, first = len(g), len(header)
            om = case.get("objstm_mut")
            if om == "n_big":
                nval += 1 + rng.randrange(3); b.valid = False
            elif om == "n_small" and len(g) > 1:
                nval -= 1; b.valid = False
            elif om == "first_big":
                first = len(header) + pos + rng.randrange(3); b.valid = False
            elif om == "self":
                header = b"%d 0 " % snum + header; first = len(header); nval += 1; b.valid = False
                header = header  # offsets of the others unchanged: relative to /First
            elif om == "zero_id":
                header = b"0 0 " + header; first = len(header); nval += 1; b.valid = False
            elif om == "dup_offset" and len(pairs) > 1:
                header = b"".join(b"%d %d " % (on, pairs[0][1]) for on, o in pairs); first = len(header); b.valid = False
            data = header + b"".join(bodies)
            d = {b"Type": Name(b"ObjStm"), b"N": nval, b"First": first}
            if om == "wrong_type":
                d[b"Type"] = Name(b"XObject"); b.valid = False
            if prev_stm is not None:
                d[b"Extends"] = Ref(prev_stm)
            if rng.random() < 0.35 and not case.get("no_flate"):
                data = zlib.compress(data)
                d[b"Filter"] = Name(b"FlateDecode")
            d[b"Length"] = len(data)
            objs[snum] = ("stm", d, data, b"\n", b"\n")
            offsets[snum] = ("n", emit(snum), 0)
            for i, on in enumerate(g):
                offsets[on] = ("c", snum, i + case.get("idx_add", 0))     # qpdf never consults the index
            if case.get("idx_add"):
                b.valid = False
            stm_nums.append(snum)
            prev_stm = snum
    if case.get("offset0"):
        victim = case["offset0"]
        if victim in offsets and offsets[victim][0] == "n":
            offsets[victim] = ("n", 0, 0); b.valid = False
            objs[victim] = ("gone",)
    size = nxt
    entries = {0: ("f", 0, 65535)}
    entries.update(offsets)

    def xref_table(entries, size, prev):
        xoff = len(out)
        pre = case.get("xref_ws", b"")
        if pre:
            b.valid = False
        out.extend(pre + b"xref" + case.get("xref_eol", rng.choice([b"\n", b"\r\n", b"\r", b" \n"])))
        nums = sorted(entries)
        runs, cur = [], [nums[0]]
        for n in nums[1:]:
            if n == cur[-1] + 1 and rng.random() > 0.2:
                cur.append(n)
            else:
                runs.append(cur); cur = [n]
        runs.append(cur)
        for run in runs:
            out.extend(b"%d %d" % (run[0], len(run)) + rng.choice([b"\n", b"\r\n", b" \n"]))
            for n in run:
                e = entries[n]
                out.extend(b"%010d %05d %s" % (e[1], e[2], b"f" if e[0] == "f" else b"n") + rng.choice([b" \n", b"\r\n", b" \r"]))
        tr = {b"Size": size + case.get("size_delta", 0), b"Root": Ref(1)}
        if case.get("size_delta"):
            b.valid = False
        if prev is not None:
            tr[b"Prev"] = prev
        out.extend(b"trailer" + rng.choice([b"\n", b" ", b"\r\n"]) + ser(tr, rng) + b"\nstartxref\n%d\n%%%%EOF\n" % xoff)
        return xoff

    def xref_stream(entries, size, prev):
        snum = size
        size += 1
        xoff = len(out)
        entries = dict(entries)
        entries[snum] = ("n", xoff, 0)
        nums = sorted(entries)
        vals = [((0, e[1], e[2]) if e[0] == "f" else (1, e[1], e[2]) if e[0] == "n" else (2, e[1], e[2])) for e in (entries[n] for n in nums)]
        w0, w1, w2 = choose_w(rng, vals)
        runs, cur = [], [nums[0]]
        for n in nums[1:]:
            if n == cur[-1] + 1:
                cur.append(n)
            else:
                runs.append(cur); cur = [n]
        runs.append(cur)
        index = []
        for r in runs:
            index += [r[0], len(r)]
        data = b"".join((t.to_bytes(w0, "big") if w0 else b"") + a.to_bytes(w1, "big") + (c.to_bytes(w2, "big") if w2 else b"") for t, a, c in vals)
        d = {b"Type": Name(b"XRef"), b"Size": size, b"W": [w0, w1, w2], b"Root": Ref(1)}
        if index != [0, size] or rng.random() < 0.3:
            d[b"Index"] = index
        if prev is not None:
            d[b"Prev"] = prev
        if rng.random() < 0.4:
            data = zlib.compress(data)
            d[b"Filter"] = Name(b"FlateDecode")
        d[b"Length"] = len(data)
        out.extend(b"%d 0 obj\n" % snum + ser(d, rng) + b"\nstream\n" + data + b"\nendstream\nendobj\n")
        out.extend(b"startxref\n%d\n%%%%EOF\n" % xoff)
        return xoff, size, snum

    xs_nums = []
    if form == "table":
        xoff = xref_table(entries, size, None)
    else:
        xoff, size, sn = xref_stream(entries, size, None)
        xs_nums.append(sn)
        nxt = size
    # one incremental update that overrides members of object streams / plain objects
    if case.get("update"):
        upd = {}
        victims = [n for n in sorted(objs) if n > 3 and objs[n][0] == "val" and n not in length_objs]
        rng.shuffle(victims)
        for n in victims[:2]:
            v = b.value()
            objs[n] = ("val", v)
            upd[n] = ("n", emit(n), 0)
        if form == "table":
            xoff = xref_table(upd, size, xoff)
        else:
            xoff, size, sn = xref_stream(upd, size, xoff)
            xs_nums.append(sn)
    # truth
    live = {(n, 0) for n in objs if objs[n][0] != "gone"} | {(n, 0) for n in xs_nums}
    truth = {}
    for n, kind in objs.items():
        if kind[0] == "val":
            truth[(n, 0)] = truth_text(kind[1], live)
        elif kind[0] == "stm":
            truth[(n, 0)] = truth_text(kind[1], live) + "|" + hx(kind[2])
    data = junk + bytes(out)
    if case.get("truncate_after_eof"):
        pass
    return data, truth, b.valid


def choose_w(rng, vals):
    """/W: every width from the minimum the values need (0 where the field is constant: type 1 for the first, 0 for the others)
    up to 4 bytes"""
    m0 = 0 if all(v[0] == 1 for v in vals) else 1
    m1 = max((v[1].bit_length() + 7) // 8 for v in vals)
    m2 = max((v[2].bit_length() + 7) // 8 for v in vals)
    w0 = rng.choice(list(range(m0, 5)))
    w1 = rng.choice(list(range(min(m1, 4), 5)))
    w2 = rng.choice(list(range(min(m2, 4), 5)))
    if w0 + w1 + w2 == 0:
        w1 = 1
    return w0, max(w1, m1), max(w2, m2)


def emit_table_section(out, rng, entries, size, prev, root=None):
    xoff = len(out)
    out.extend(b"xref" + rng.choice([b"\n", b"\r\n", b"\r", b" \n"]))
    nums = sorted(entries)
    runs, cur = [], [nums[0]]
    for n in nums[1:]:
        if n == cur[-1] + 1 and rng.random() > 0.2:
            cur.append(n)
        else:
            runs.append(cur); cur = [n]
    runs.append(cur)
    for run in runs:
        out.extend(b"%d %d" % (run[0], len(run)) + rng.choice([b"\n", b"\r\n", b" \n"]))
        for n in run:
            e = entries[n]
            out.extend(b"%010d %05d %s" % (e[1], e[2], b"f" if e[0] == "f" else b"n") + rng.choice([b" \n", b"\r\n", b" \r"]))
    tr = {b"Size": size, b"Root": Ref(1)}
    if prev is not None:
        tr[b"Prev"] = prev
    out.extend(b"trailer" + rng.choice([b"\n", b" ", b"\r\n"]) + ser(tr, rng) + b"\nstartxref\n%d\n%%%%EOF\n" % xoff)
    return xoff, size


def emit_stream_section(out, rng, entries, size, prev, w=None, flate=None):
    """a cross-reference stream section; it takes the next object number. returns (offset, new size, its number)"""
    snum = size
    size += 1
    xoff = len(out)
    entries = dict(entries)
    entries[snum] = ("n", xoff, 0)
    nums = sorted(entries)
    vals = [((0, e[1], e[2]) if e[0] == "f" else (1, e[1], e[2]) if e[0] == "n" else (2, e[1], e[2])) for e in (entries[n] for n in nums)]
    w0, w1, w2 = w if w else choose_w(rng, vals)
    runs, cur = [], [nums[0]]
    for n in nums[1:]:
        if n == cur[-1] + 1:
            cur.append(n)
        else:
            runs.append(cur); cur = [n]
    runs.append(cur)
    index = []
    for r in runs:
        index += [r[0], len(r)]
    data = b"".join((t.to_bytes(w0, "big") if w0 else b"") + a.to_bytes(w1, "big") + (c.to_bytes(w2, "big") if w2 else b"") for t, a, c in vals)
    d = {b"Type": Name(b"XRef"), b"Size": size, b"W": [w0, w1, w2], b"Root": Ref(1)}
    if index != [0, size] or rng.random() < 0.3:
        d[b"Index"] = index
    if prev is not None:
        d[b"Prev"] = prev
    if flate if flate is not None else rng.random() < 0.4:
        data = zlib.compress(data)
        d[b"Filter"] = Name(b"FlateDecode")
    d[b"Length"] = len(data)
    out.extend(b"%d 0 obj\n" % snum + ser(d, rng) + b"\nstream\n" + data + b"\nendstream\nendobj\n")
    out.extend(b"startxref\n%d\n%%%%EOF\n" % xoff)
    return xoff, size, snum


def emit_plain(out, rng, num, gen, v):
    off = len(out)
    w = lambda: rng.choice([b" ", b" ", b"\n", b"\r\n", b"\t"])
    s = ser(v, rng)
    out.extend(b"%d" % num + w() + b"%d" % gen + w() + b"obj" + w() + s + w() + b"endobj" + rng.choice([b"\n", b"\r\n", b" \n"]))
    return off


def build_history(rng, case):
    """incremental updates in which object numbers are freed and re-used: case["cycles"] free/re-use cycles of the victims,
    case["kinds"][i] = "table" | "stream" for section i (mixed chains allowed), case["same"] = free and re-use recorded by
    one section (the entry goes straight to the next generation) or by two.  Ground truth: only the last generation of a
    number is defined; a reference to an earlier (or a later, never reached) generation is the null object (7.3.10)."""
    out = bytearray(b"%PDF-1.5\n%\xe2\xe3\xcf\xd3\n")
    cycles = case["cycles"]
    kinds = case["kinds"]
    victims = case.get("victims", [4])
    maxg = cycles + 1
    objs = {1: None, 2: {b"Type": Name(b"Pages"), b"Kids": [Ref(3)], b"Count": 1},
            3: {b"Type": Name(b"Page"), b"Parent": Ref(2), b"MediaBox": [0, 0, 10, 10]}}
    nxt = 4
    for v in victims:
        objs[v] = b"g0-of-%d" % v
        nxt = max(nxt, v + 1)
    holder = nxt
    nxt += 1
    objs[holder] = [Ref(v, g) for v in victims for g in range(maxg + 1)]
    objs[1] = {b"Type": Name(b"Catalog"), b"Pages": Ref(2), b"H": Ref(holder), b"Live": [Ref(v, 0) for v in victims]}
    gens = {n: 0 for n in objs}
    alive = {n: True for n in objs}
    entries = {0: ("f", 0, 65535)}
    for n in sorted(objs):
        entries[n] = ("n", emit_plain(out, rng, n, 0, objs[n]), 0)
    size = nxt
    xs_nums = []
    sec = 0

    def close(entries, prev):
        nonlocal size, sec
        kind = kinds[sec % len(kinds)]
        sec += 1
        if kind == "table":
            xoff, size = emit_table_section(out, rng, entries, size, prev)
        else:
            xoff, size, sn = emit_stream_section(out, rng, entries, size, prev)
            xs_nums.append(sn)
        return xoff

    xoff = close(entries, None)
    for c in range(cycles):
        for v in victims:
            pass
        if case.get("same"):
            upd = {}
            for v in victims:
                gens[v] += 1
                objs[v] = b"g%d-of-%d" % (gens[v], v)
                upd[v] = ("n", emit_plain(out, rng, v, gens[v], objs[v]), gens[v])
        else:
            upd = {0: ("f", victims[0], 65535)}
            for i, v in enumerate(victims):
                gens[v] += 1
                upd[v] = ("f", victims[i + 1] if i + 1 < len(victims) else 0, gens[v])
                alive[v] = False
            if c == cycles - 1 and case.get("end_freed"):
                cat = dict(objs[1]); cat[b"Live"] = [Ref(v, gens[v]) for v in victims]
                objs[1] = cat
                upd[1] = ("n", emit_plain(out, rng, 1, 0, cat), 0)
                xoff = close(upd, xoff)
                break
            xoff = close(upd, xoff)
            upd = {0: ("f", 0, 65535)} if rng.random() < 0.5 else {}
            for v in victims:
                objs[v] = b"g%d-of-%d" % (gens[v], v)
                alive[v] = True
                upd[v] = ("n", emit_plain(out, rng, v, gens[v], objs[v]), gens[v])
        cat = dict(objs[1]); cat[b"Live"] = [Ref(v, gens[v]) for v in victims]
        objs[1] = cat
        upd[1] = ("n", emit_plain(out, rng, 1, 0, cat), 0)
        xoff = close(upd, xoff)
    live = {(n, gens[n]) for n in objs if alive[n]} | {(n, 0) for n in xs_nums}
    truth = {(n, gens[n]): truth_text(objs[n], live) for n in objs if alive[n]}
    dead = {n for n in objs if not alive[n]}
    return bytes(out), truth, True, dead


def build_big_objstm(rng, nmem, w2=None):
    """one object stream with nmem members (the integers 0 .. nmem-1 under object numbers 5 ..), described by a
    cross-reference stream whose third field is wide enough for the largest index"""
    out = bytearray(b"%PDF-1.5\n%\xe2\xe3\xcf\xd3\n")
    entries = {0: ("f", 0, 65535)}
    base = {1: {b"Type": Name(b"Catalog"), b"Pages": Ref(2), b"Last": Ref(4 + nmem)},
            2: {b"Type": Name(b"Pages"), b"Kids": [Ref(3)], b"Count": 1},
            3: {b"Type": Name(b"Page"), b"Parent": Ref(2), b"MediaBox": [0, 0, 10, 10]}}
    for n in sorted(base):
        entries[n] = ("n", emit_plain(out, rng, n, 0, base[n]), 0)
    bodies, pairs, pos = [], [], 0
    for i in range(nmem):
        b = b"%d " % i
        pairs.append(b"%d %d " % (5 + i, pos))
        bodies.append(b)
        pos += len(b)
    header = b"".join(pairs)
    data = header + b"".join(bodies)
    d = {b"Type": Name(b"ObjStm"), b"N": nmem, b"First": len(header)}
    raw = zlib.compress(data, 1)
    d[b"Filter"] = Name(b"FlateDecode")
    d[b"Length"] = len(raw)
    entries[4] = ("n", len(out), 0)
    out.extend(b"4 0 obj\n" + ser(d, rng) + b"\nstream\n" + raw + b"\nendstream\nendobj\n")
    for i in range(nmem):
        entries[5 + i] = ("c", 4, i)
    size = 5 + nmem
    need = max(1, ((nmem - 1).bit_length() + 7) // 8)
    w = (1, 3, max(need, 2) if w2 is None else w2)
    emit_stream_section(out, rng, entries, size, None, w=w, flate=True)
    truth = {(n, 0): truth_text(v, {(k, 0) for k in range(1, size + 1)}) for n, v in base.items()}
    for i in range(nmem):
        truth[(5 + i, 0)] = "i%d" % i
    return bytes(out), truth, True


def cases(rng, quick):
    """the aimed case list: every legal EOL x data edge x /Length spelling, header offsets, object-stream shapes,
    then the same with one illegal choice each"""
    out = []
    # valid: EOL x data edge x length spelling
    for eol in STREAM_EOLS_VALID:
        for data in DATA_EDGES:
            for ls in ("direct", "before", "after"):
                out.append({"streams": [{"eol": eol, "data": data, "length": ls, "endeol": rng.choice([b"\n", b"\r\n", b"\r", b""])}],
                            "form": rng.choice(["table", "stream"]), "junk": rng.choice([0, 0, 1, 7])})
    # header offsets
    for j in (0, 1, 2, 500, 1022, 1023, 1024, 1025, 1500):
        for form in ("table", "stream"):
            out.append({"junk": j, "form": form, "streams": [{"eol": b"\n", "data": b"abc", "length": rng.choice(["direct", "after"])}]})
    for ver in (b"1.0", b"2.0", b"1.", b"x.y", b"12.34", b"1.7x", b""):
        out.append({"version": ver, "form": "table", "header_case": True})
    # object streams
    for k in range(150 if quick else 2000):
        out.append({"form": "stream", "tight": rng.random() < 0.6, "two_objstm": rng.random() < 0.6, "update": rng.random() < 0.6,
                    "ntest": rng.choice([2, 5, 9]), "junk": rng.choice([0, 0, 3, 1023]),
                    "streams": [{"eol": rng.choice(STREAM_EOLS_VALID), "data": rng.choice(DATA_EDGES), "length": rng.choice(["direct", "before", "after"])}]})
    for k in range(20 if quick else 200):
        out.append({"form": "stream", "tight": True, "merge_tokens": True, "ntest": 6, "no_flate": True})
    # illegal line ends and lengths
    for eol in STREAM_EOLS_BAD:
        for data in (b"abc", b"\nabc", b"\rabc", b"", b" x"):
            out.append({"streams": [{"eol": eol, "data": data, "length": rng.choice(["direct", "after"])}], "form": rng.choice(["table", "stream"])})
    for ls in ("missing", "short", "long", "name", "ref-missing", "neg", "loop"):
        for data in (b"abc", b"", b"x\nendstream\nendobj\n"):
            out.append({"streams": [{"eol": b"\n", "data": data, "length": ls}], "form": rng.choice(["table", "stream"])})
    for om in ("n_big", "n_small", "first_big", "self", "zero_id", "dup_offset", "wrong_type"):
        for k in range(3):
            out.append({"form": "stream", "objstm_mut": om, "ntest": 4, "two_objstm": k == 1, "no_flate": k == 2})
    for k in range(4):
        out.append({"form": "table", "bad_endobj": 4 + k % 2})
        out.append({"form": "table", "bad_header": 4 + k % 2})
        out.append({"form": "table", "offset0": 4 + k % 2})
        out.append({"form": rng.choice(["table", "stream"]), "no_catalog_type": True})
        out.append({"form": "table", "size_delta": rng.choice([-1, 1, 2])})
        out.append({"form": "table", "xref_ws": rng.choice([b" ", b"\n", b"\r\n "])})
        out.append({"form": "table", "xref_eol": rng.choice([b" ", b"  ", b"\n\n", b" \r\n", b"\t"])})
    for k in range(4):
        out.append({"form": rng.choice(["table", "stream"]), "toplevel_ref": True, "ntest": 8})
    for add in (65534, 65535, 65536, 70000, 16777215):
        out.append({"form": "stream", "idx_add": add, "ntest": 3, "two_objstm": add % 2 == 0})
    # random mixtures
    for k in range(700 if quick else 20000):
        out.append({"form": rng.choice(["table", "stream"]), "junk": rng.choice([0, 0, 1, 40, 1023]), "update": rng.random() < 0.5,
                    "two_objstm": rng.random() < 0.5, "tight": rng.random() < 0.3, "shuffle": rng.random() < 0.5, "ntest": rng.choice([1, 4, 8]),
                    "streams": [{"eol": rng.choice(STREAM_EOLS_VALID + STREAM_EOLS_BAD[:2]), "data": rng.choice(DATA_EDGES),
                                 "length": rng.choice(["direct", "before", "after", "after", "short", "missing"]),
                                 "endeol": rng.choice([b"\n", b"\r\n", b"\r", b""])} for _ in range(rng.choice([0, 1, 2]))]})
    return out


def parse_view(s):
    """'doc v=.. [shift=..] [recon=..] w=.. T=.. n.g=val ...' -> dict"""
    parts = s.split(" ")
    r = {"status": parts[0], "objs": {}, "raw": s}
    for p in parts[1:]:
        if "=" not in p:
            r.setdefault("extra", []).append(p)
            continue
        k, v = p.split("=", 1)
        if re.fullmatch(r"\d+\.\d+", k):
            a, g = k.split(".")
            r["objs"][(int(a), int(g))] = v
        else:
            r[k] = v
    r["wset"] = set() if r.get("w", "-") == "-" else set(r["w"].split(","))
    return r


UNSUPPORTED = {"15", "17", "19"}       # filters the model does not decode, indirect values in trailer keys, encryption


def compare(impl, model):
    """None if the model's prediction holds for qpdf's observed view, else a short description"""
    mi, mm = parse_view(impl), parse_view(model)
    if mm["status"] == "outside":
        code = mm.get("extra", ["?"])[0]
        if code in UNSUPPORTED:
            return None
        # the model says: a QPDFExc reaches Objects::parse (reconstruction) - qpdf must not have read the file cleanly
        if mi["status"] == "fatal" or mi.get("recon") == "1" or mi["wset"]:
            return None
        return "model: outside %s (reconstruction expected) but qpdf read the file without any diagnostic" % code
    if mm["status"] == "fatal":
        return None if mi["status"] == "fatal" else "model: fatal, qpdf: %s" % mi["status"]
    if mi["status"] != "doc":
        return "model: doc, qpdf: %s" % mi["status"]
    if any(w.startswith("recon") for w in mm["wset"]):
        return None if mi.get("recon") == "1" else "model predicts a reconstruction of the table, qpdf did not reconstruct"
    if mi.get("recon") == "1":
        return "qpdf reconstructed the cross-reference table, the model does not predict it"
    if mi["v"] != mm["v"]:
        return "version %s vs %s" % (mi["v"], mm["v"])
    if mi["wset"] != mm["wset"]:
        return "warning classes qpdf=%s model=%s" % (sorted(mi["wset"]), sorted(mm["wset"]))
    if mi["T"] != mm["T"]:
        return "trailer %s vs %s" % (mi["T"][:120], mm["T"][:120])
    if set(mi["objs"]) != set(mm["objs"]):
        return "object sets differ: %s" % sorted(set(mi["objs"]) ^ set(mm["objs"]))[:6]
    for k in sorted(mi["objs"]):
        if mm["objs"][k] == "?":
            continue                       # stream-length recovery: not modelled (the warning classes were compared)
        if mi["objs"][k] != mm["objs"][k]:
            return "object %d %d: qpdf %s model %s" % (k[0], k[1], mi["objs"][k][:160], mm["objs"][k][:160])
    return None


def history_cases(rng, quick):
    out = []
    for cycles in (1, 2, 3, 4):
        for kinds in (["table"], ["stream"], ["table", "stream"], ["stream", "table"], None):
            for mode in ("separate", "same", "end_freed"):
                for victims in ([4], [4, 5]) if (quick and cycles in (2, 3)) or not quick else ([4],):
                    k = kinds or [rng.choice(["table", "stream"]) for _ in range(2 * cycles + 2)]
                    out.append({"history": True, "cycles": cycles, "kinds": k, "same": mode == "same",
                                "end_freed": mode == "end_freed", "victims": victims})
    if not quick:
        out = out * 10
    return out


def run_part(chk):
    rng = chk.rng
    quick = chk.tier == "quick"
    drv = os.path.join(common.DRV, "drv")
    runner = os.path.join(common.EXTRACT, "model_runner")
    wd = common.workdir("C03read")
    cs = cases(rng, quick)
    files = []          # dicts: case, data, truth, valid, model (run the extracted model too), dead
    for c in cs:
        data, truth, valid = build(rng, c)
        files.append({"case": c, "data": data, "truth": truth, "valid": valid, "model": True, "dead": set()})
    for c in history_cases(rng, quick):
        data, truth, valid, dead = build_history(rng, c)
        # a generation that goes up without a free entry ever being recorded is not what 7.5.4 describes: correspondence only
        files.append({"case": c, "data": data, "truth": truth, "valid": valid and not c["same"], "model": True, "dead": dead})
    # object streams around the 8- and 16-bit boundaries of the member index; the three big ones are read by qpdf and
    # compared with the ground truth only (the list-based table of the extracted model is quadratic in the number of entries)
    for nmem in (1, 2, 255, 256, 257):
        data, truth, valid = build_big_objstm(rng, nmem, w2=rng.choice([2, 3, 4]))
        files.append({"case": {"objstm_members": nmem}, "data": data, "truth": truth, "valid": valid, "model": True, "dead": set()})
    for nmem in (65535, 65536, 65540):
        need = 2 if nmem <= 65536 else 3
        data, truth, valid = build_big_objstm(rng, nmem, w2=rng.choice(list(range(need, 5))))
        files.append({"case": {"objstm_members": nmem}, "data": data, "truth": truth, "valid": valid, "model": False, "dead": set()})
    # generic structural freedom: the files of the file-structure generator as well
    import c03files
    nsf = 120 if quick else 3000
    for i in range(nsf):
        g = c03files.Gen(rng, rng.choice([0.0, 0.3, 0.7, 1.0]))
        data, live, freed, meta = g.build(i)
        files.append({"case": {"c03files": meta["form"], "junk": meta["junk"], "updates": meta["updates"]}, "data": data, "truth": None,
                      "valid": True, "model": True, "dead": set()})
    lines = []
    for idx, f in enumerate(files):
        if len(f["data"]) > 60000:
            p = os.path.join(wd, "big%d.pdf" % idx)
            open(p, "wb").write(f["data"])
            f["path"] = p
            lines.append("rd_viewf " + p)
        else:
            lines.append("rd_view " + hexs(f["data"]))
    impl = common.run_lines(drv, lines, shards=4)
    mlines = [l for l, f in zip(lines, files) if f["model"]]
    mres = iter(common.run_lines(runner, mlines, shards=4))
    model = [next(mres) if f["model"] else None for f in files]
    nontriv, tie, kinds = set(), [], {}
    nvalid = 0
    wclasses = {}
    for idx, (f, i, m) in enumerate(zip(files, impl, model)):
        c, data, truth, valid = f["case"], f["data"], f["truth"], f["valid"]
        mi = parse_view(i)
        key = "valid" if valid else "damaged"
        for w in mi["wset"] | ({"reconstructed"} if mi.get("recon") == "1" else set()) | ({"fatal"} if mi["status"] == "fatal" else set()):
            wclasses[w] = wclasses.get(w, 0) + 1
        kinds[key] = kinds.get(key, 0) + 1
        if i.startswith("?") or (m is not None and m.startswith("?")):
            tie.append({"case": repr(c)[:300], "why": "driver/runner failure", "impl": i[:120], "model": str(m)[:120]})
            continue
        # ---- specification side: a valid file must be read as the document it denotes, with no diagnostic
        if valid and truth is not None:
            nvalid += 1
            bad = None
            if mi["status"] != "doc" or mi["wset"] or mi.get("recon") == "1":
                bad = "a valid file is not read cleanly: %s w=%s" % (mi["status"], sorted(mi["wset"]))
            else:
                for k, t in truth.items():
                    if mi["objs"].get(k) != t:
                        bad = "object %d %d: expected %s, qpdf reads %s" % (k[0], k[1], t[:160], str(mi["objs"].get(k))[:160])
                        break
                if bad is None:
                    nums = {k[0] for k in truth}
                    for k, v in mi["objs"].items():
                        if k not in truth and (k[0] in nums or k[0] in f["dead"]) and v != "n":
                            bad = "object %d %d is not defined by the file (freed or superseded generation), qpdf lists it with value %s" % (k[0], k[1], v[:120])
                            break
            if bad:
                p = f.get("path") or os.path.join(wd, "bad%d.pdf" % idx)
                open(p, "wb").write(data)
                sample = dict(list(truth.items())[:40]) if len(truth) > 40 else truth
                if len(truth) > 40:
                    m_ = re.match(r"object (\d+) (\d+):", bad)
                    if m_:
                        sample[(int(m_.group(1)), int(m_.group(2)))] = truth[(int(m_.group(1)), int(m_.group(2)))]
                chk.violation({"kind": "property-fails-on-implementation", "file": p, "why": bad, "case": repr(c)[:400],
                               "replay_lines": ["rd_viewf " + p], "truth": {"%d.%d" % k: t for k, t in sample.items()},
                               "dead": sorted(f["dead"])},
                              signature="c03read:" + re.sub(r"\d+", "N", bad)[:60])
                continue
        if m is None:
            nontriv.add(data)
            continue
        d = compare(i, m)
        if d is not None:
            p = os.path.join(wd, "diff%d.pdf" % idx)
            open(p, "wb").write(data)
            tie.append({"case": "rd_viewf " + p, "generator_case": repr(c)[:300], "file": p, "differs": d})
        elif m.startswith("doc"):
            nontriv.add(data)
    if tie:
        chk.violation({"kind": "correspondence-broken", "correspondence": "corr:C03:object-reader", "differing_cases": len(tie),
                       "first_cases": tie[:3]}, no_input=True)
    chk.count("object-reader", len(files), nontriv, samples=[{"case": repr(files[0]["case"])[:200], "model": model[0][:160]}])
    chk.cov["parts"]["object-reader"].update({"by_class": kinds, "qpdf_warning_classes_seen": wclasses, "valid_with_truth": nvalid,
                                              "model_outcomes": {k: sum(1 for m in model if m and m.startswith(k)) for k in ("doc", "outside", "fatal")},
                                              "read_by_qpdf_only": sum(1 for f in files if not f["model"])})


def replay_line(l, rep):
    """re-evaluate one 'rd_viewf <file>' case: 1 if the reported failure is reproduced"""
    drv = os.path.join(common.DRV, "drv")
    runner = os.path.join(common.EXTRACT, "model_runner")
    a = common.run_lines(drv, [l])[0]
    m = common.run_lines(runner, [l])[0]
    print("case:", l); print(" implementation:", a[:1500]); print(" model:         ", m[:1500])
    bad = 0
    if rep.get("truth"):
        mi = parse_view(a)
        if mi["status"] != "doc" or mi["wset"] or mi.get("recon") == "1":
            print(" a valid file is not read cleanly"); bad = 1
        for k, t in rep["truth"].items():
            o, g = k.split(".")
            if mi["objs"].get((int(o), int(g))) != t:
                print(" object %s: expected %s, qpdf reads %s" % (k, t[:200], str(mi["objs"].get((int(o), int(g))))[:200])); bad = 1
        tk = {tuple(int(x) for x in k.split(".")) for k in rep["truth"]}
        nums = {k[0] for k in tk} | set(rep.get("dead", []))
        for k, v in mi["objs"].items():
            if k not in tk and k[0] in nums and v != "n" and len(rep["truth"]) < 41:
                print(" object %d %d is not defined by the file, qpdf lists it: %s" % (k[0], k[1], v[:120])); bad = 1
    d = compare(a, m) if not m.startswith("?") else None
    if d is not None:
        print(" model/implementation:", d); bad = 1
    return bad
