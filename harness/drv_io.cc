// C09 driver: the same rewrite through memory input / memory output.
#include "drv.hh"
#include <qpdf/QPDF.hh>
#include <qpdf/QPDFWriter.hh>
#include <qpdf/QUtil.hh>
#include <qpdf/Buffer.hh>
#include <fstream>
#include <iterator>
#include <memory>

// rewrite_mem <input path> <in: file|mem> <out: file|mem> <outpath> <flags: comma list of det,static,lin,qdf,gen,dis,nocompress>
static Reg r_rewrite("rewrite_mem", [](std::vector<std::string> const& a) -> std::string {
    std::string path = a.at(0);
    bool in_mem = a.at(1) == "mem";
    bool out_mem = a.at(2) == "mem";
    std::string outpath = a.at(3);
    std::string flags = "," + a.at(4) + ",";
    auto has = [&](char const* f) { return flags.find(std::string(",") + f + ",") != std::string::npos; };
    QPDF pdf;
    pdf.setSuppressWarnings(true);
    std::string data;
    if (in_mem) {
        std::ifstream f(path, std::ios::binary);
        data.assign(std::istreambuf_iterator<char>(f), std::istreambuf_iterator<char>());
        pdf.processMemoryFile("memory input", data.data(), data.size());
    } else {
        pdf.processFile(path.c_str());
    }
    QPDFWriter w(pdf);
    if (out_mem) w.setOutputMemory(); else w.setOutputFilename(outpath.c_str());
    if (has("det")) w.setDeterministicID(true);
    if (has("static")) w.setStaticID(true);
    if (has("lin")) w.setLinearization(true);
    if (has("qdf")) w.setQDFMode(true);
    if (has("gen")) w.setObjectStreamMode(qpdf_o_generate);
    if (has("dis")) w.setObjectStreamMode(qpdf_o_disable);
    if (has("nocompress")) w.setCompressStreams(false);
    w.write();
    if (out_mem) {
        // the bytes of the memory output are stored in <outpath> by the driver for comparison
        auto b = w.getBufferSharedPointer();
        std::ofstream f(outpath, std::ios::binary);
        f.write(reinterpret_cast<char const*>(b->getBuffer()), static_cast<std::streamsize>(b->getSize()));
        return "ok " + std::to_string(b->getSize());
    }
    return "ok file";
});

// rewrite_twice <input path> <in: file|mem> <out1> <flags1> <out2> <flags2> : ONE QPDF object written twice (two QPDFWriter
// objects, one after the other); flags as for rewrite_mem plus enc256 (R6 encryption), minver (setMinimumPDFVersion 1.7 ext 3),
// force14 (forcePDFVersion 1.4), preserveunref, norm (content normalization). C09: the bytes of the second write must be those
// a freshly opened document gives with flags2.
static void
io_apply_flags(QPDFWriter& w, std::string const& fl)
{
    std::string flags = "," + fl + ",";
    auto has = [&](char const* f) { return flags.find(std::string(",") + f + ",") != std::string::npos; };
    if (has("det")) w.setDeterministicID(true);
    if (has("static")) w.setStaticID(true);
    if (has("lin")) w.setLinearization(true);
    if (has("qdf")) w.setQDFMode(true);
    if (has("gen")) w.setObjectStreamMode(qpdf_o_generate);
    if (has("dis")) w.setObjectStreamMode(qpdf_o_disable);
    if (has("nocompress")) w.setCompressStreams(false);
    if (has("minver")) w.setMinimumPDFVersion("1.7", 3);
    if (has("force14")) w.forcePDFVersion("1.4");
    if (has("preserveunref")) w.setPreserveUnreferencedObjects(true);
    if (has("norm")) w.setContentNormalization(true);
    if (has("uncompress")) w.setStreamDataMode(qpdf_s_uncompress);
    if (has("enc256")) {
        w.setR6EncryptionParameters("u", "o", true, true, true, true, true, true, qpdf_r3p_full, true);
    }
    if (has("enc128")) {
        w.setR4EncryptionParametersInsecure("u", "o", true, true, true, true, true, true, qpdf_r3p_full, true, true);
    }
}
static Reg r_rewrite_twice("rewrite_twice", [](std::vector<std::string> const& a) -> std::string {
    std::string path = a.at(0);
    bool in_mem = a.at(1) == "mem";
    QPDF pdf;
    pdf.setSuppressWarnings(true);
    std::string data;
    if (in_mem) {
        std::ifstream f(path, std::ios::binary);
        data.assign(std::istreambuf_iterator<char>(f), std::istreambuf_iterator<char>());
        pdf.processMemoryFile("memory input", data.data(), data.size());
    } else {
        pdf.processFile(path.c_str());
    }
    for (size_t k = 2; k + 1 < a.size(); k += 2) {
        if (("," + a.at(k + 1) + ",").find(",pushfirst,") != std::string::npos) {
            pdf.pushInheritedAttributesToPage();
        }
        QPDFWriter w(pdf, a.at(k).c_str());
        io_apply_flags(w, a.at(k + 1));
        w.write();
    }
    return "ok";
});

// job_locale <classic|comma> <args...> : QPDFJob run in-process under a global C++ locale whose numeric punctuation is
// not the classic one (decimal comma, digit grouping) - what a host application may install with std::locale::global()
#include <qpdf/QPDFJob.hh>
#include <locale>
namespace
{
    struct CommaPunct: std::numpunct<char>
    {
        char do_decimal_point() const override { return ','; }
        char do_thousands_sep() const override { return '.'; }
        std::string do_grouping() const override { return "\3"; }
    };
} // namespace
static Reg r_job_locale("job_locale", [](std::vector<std::string> const& a) -> std::string {
    std::locale saved = std::locale();
    if (a.at(0) == "comma") {
        std::locale::global(std::locale(std::locale::classic(), new CommaPunct));
    }
    std::string res;
    try {
        std::vector<std::string> args(a.begin() + 1, a.end());
        std::vector<char const*> argv;
        argv.push_back("qpdf");
        for (auto const& s: args) argv.push_back(s.c_str());
        argv.push_back(nullptr);
        QPDFJob j;
        j.initializeFromArgv(argv.data());
        j.run();
        res = "ok " + std::to_string(j.getExitCode());
    } catch (std::exception& e) {
        res = std::string("exc ") + e.what();
    }
    std::locale::global(saved);
    return res;
});
