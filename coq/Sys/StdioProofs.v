(* C10 - the contract of the stream model, for every buffer size, buffering mode, capacity and data:
   as long as the error indicator is clear nothing that was handed to the stream has been lost. *)
From QV Require Import Base.Bytes Sys.StdioModel.
From Coq Require Import Arith Lia.
Local Open Scope nat_scope.

Lemma sio_logical_eq f : sio_logical f = rev (sf_rdisk f) ++ rev (sf_rbuf f).
Proof. unfold sio_logical. rewrite rev'_rev, rev_app_distr. reflexivity. Qed.
Lemma sio_disk_eq f : sio_disk f = rev (sf_rdisk f).
Proof. unfold sio_disk. apply rev'_rev. Qed.

Lemma sio_copy_logical f d : sio_logical (sio_copy f d) = sio_logical f ++ d.
Proof.
  rewrite !sio_logical_eq. unfold sio_copy; simpl.
  rewrite rev_append_rev, rev_app_distr, rev_involutive, app_assoc. reflexivity.
Qed.

(* what one primitive step may do to a stream: `taken` is what it was given *)
Definition sio_rel (f f' : sfile) (taken : list N) : Prop :=
  (sf_err f' = false -> sf_err f = false /\ sio_logical f' = sio_logical f ++ taken) /\
  (sf_err f = true -> sf_err f' = true) /\
  (exists x, sio_disk f' = sio_disk f ++ x) /\
  sf_open f' = sf_open f /\ sf_line f' = sf_line f.

Lemma sio_rel_refl f : sio_rel f f [].
Proof. repeat split; auto. - rewrite app_nil_r; auto. - exists []. rewrite app_nil_r; auto. Qed.

Lemma sio_rel_trans f g h a b : sio_rel f g a -> sio_rel g h b -> sio_rel f h (a ++ b).
Proof.
  intros (A1 & A2 & (x & A3) & A4 & A5) (B1 & B2 & (y & B3) & B4 & B5). repeat split.
  - apply B1 in H. destruct H as [H _]. apply A1 in H. tauto.
  - pose proof (B1 H) as [Hg Hl]. pose proof (A1 Hg) as [_ Hl2]. rewrite Hl, Hl2, app_assoc. reflexivity.
  - auto.
  - exists (x ++ y). rewrite B3, A3, app_assoc. reflexivity.
  - congruence.
  - congruence.
Qed.

Lemma sio_copy_rel f d : sio_rel f (sio_copy f d) d.
Proof.
  repeat split; auto.
  - apply sio_copy_logical.
  - exists []. rewrite app_nil_r. reflexivity.
Qed.

Lemma sio_set_put_rel f : sio_rel f (sio_set_put f) [].
Proof. repeat split; auto. - rewrite app_nil_r; reflexivity. - exists []. rewrite app_nil_r; reflexivity. Qed.

Lemma sio_set_cap_rel f c : sio_rel f (sio_set_cap f c) [].
Proof. repeat split; auto. - rewrite app_nil_r; reflexivity. - exists []. rewrite app_nil_r; reflexivity. Qed.

(* kernel write with an empty buffer *)
Lemma sio_kwrite_spec f d a f' :
  sio_kwrite f d = (a, f') ->
  a <= length d /\ sf_rbuf f' = sf_rbuf f /\ sf_rdisk f' = rev (firstn a d) ++ sf_rdisk f /\
  (sf_err f' = false -> sf_err f = false /\ a = length d) /\
  (sf_err f = true -> sf_err f' = true) /\ (a < length d -> sf_err f' = true) /\
  sf_open f' = sf_open f /\ sf_line f' = sf_line f /\ sf_put f' = sf_put f.
Proof.
  unfold sio_kwrite. destruct (sf_cap f) as [c|]; intros H; inversion H; subst; clear H; simpl.
  - rewrite rev_append_rev. repeat split; auto.
    + apply Nat.le_min_r.
    + apply orb_false_iff in H. tauto.
    + apply orb_false_iff in H. destruct H as [_ H]. apply Nat.ltb_ge in H. pose proof (Nat.le_min_r c (length d)). lia.
    + intros ->. reflexivity.
    + intros H. apply Nat.ltb_lt in H. rewrite H. apply orb_true_r.
  - rewrite rev_append_rev, firstn_all. repeat split; auto. lia.
Qed.

Lemma sio_kwrite_rel f d a f' :
  sf_rbuf f = [] -> sio_kwrite f d = (a, f') -> sio_rel f f' d /\ sf_rbuf f' = [].
Proof.
  intros Hb H. apply sio_kwrite_spec in H. destruct H as (H1 & H2 & H3 & H4 & H5 & H6 & H7 & H8 & H9).
  split; [|congruence]. repeat split; auto.
  - apply H4; auto.
  - apply H4 in H. destruct H as [_ ->]. rewrite !sio_logical_eq, H2, H3, Hb, firstn_all. simpl.
    rewrite rev_app_distr, rev_involutive, !app_nil_r. reflexivity.
  - exists (firstn a d). rewrite !sio_disk_eq, H3, rev_app_distr, rev_involutive. reflexivity.
Qed.

Lemma sio_flushbuf_spec f ok f' :
  sio_flushbuf f = (ok, f') ->
  sio_rel f f' [] /\ sf_rbuf f' = [] /\ (ok = false -> sf_err f' = true) /\ sf_put f' = sf_put f.
Proof.
  unfold sio_flushbuf. destruct (sf_rbuf f) eqn:Hb.
  - intros H; inversion H; subst. split; [apply sio_rel_refl|]. repeat split; auto. discriminate.
  - rewrite <- Hb. destruct (sio_kwrite f (rev' (sf_rbuf f))) as [a f1] eqn:Hk. intros H; inversion H; subst; clear H.
    apply sio_kwrite_spec in Hk. destruct Hk as (H1 & H2 & H3 & H4 & H5 & H6 & H7 & H8 & H9). simpl.
    repeat split; simpl; auto.
    + apply H4; auto.
    + apply H4 in H. destruct H as [_ Ha]. rewrite !sio_logical_eq. simpl. rewrite H3, Ha, firstn_all, rev'_rev, rev_involutive.
      rewrite rev_app_distr, !app_nil_r. reflexivity.
    + exists (firstn a (rev' (sf_rbuf f))). rewrite !sio_disk_eq. simpl. rewrite H3, rev_app_distr, rev_involutive. reflexivity.
    + intros Hne. apply Nat.eqb_neq in Hne. apply H6. lia.
Qed.

Lemma sio_rel_err_false f f' t : sio_rel f f' t -> sf_err f' = false -> sf_err f = false.
Proof. intros (A & _) H. apply A in H. tauto. Qed.

Definition sio_mono (f f' : sfile) : Prop :=
  (sf_err f = true -> sf_err f' = true) /\ (exists x, sio_disk f' = sio_disk f ++ x) /\
  sf_open f' = sf_open f /\ sf_line f' = sf_line f.
Lemma sio_rel_mono f f' t : sio_rel f f' t -> sio_mono f f'.
Proof. intros (_ & A & B & C & D). repeat split; auto. Qed.
Lemma sio_mono_refl f : sio_mono f f.
Proof. repeat split; auto. exists []. rewrite app_nil_r. reflexivity. Qed.
Lemma sio_mono_trans f g h : sio_mono f g -> sio_mono g h -> sio_mono f h.
Proof.
  intros (A1 & (x & A2) & A3 & A4) (B1 & (y & B2) & B3 & B4). split; [auto|]. split.
  - exists (x ++ y). rewrite B2, A2, app_assoc. reflexivity.
  - split; congruence.
Qed.

(* result of a call that was given d and reports c *)
Definition sio_post (f f' : sfile) (c : nat) (d : list N) : Prop :=
  c <= length d /\ (sf_err f' = false -> c = length d /\ sio_rel f f' d) /\ sio_mono f f'.
Lemma sio_post_failed f f' c d : c <= length d -> sio_mono f f' -> sf_err f' = true -> sio_post f f' c d.
Proof. intros H1 H2 H3. split; [auto|]. split; [congruence|auto]. Qed.

(* the character loop: if the indicator is clear at the end, everything was taken *)
Lemma sio_putchars_spec B : forall d room f c f',
  sio_putchars B room f d = (c, f') -> sio_post f f' c d.
Proof.
  induction d as [|ch tl IH]; intros room f c f' H; simpl in H.
  - inversion H; subst. split; [simpl; lia|]. split; [intros _; split; [reflexivity|apply sio_rel_refl]|apply sio_mono_refl].
  - set (st1 := match room with O => let '(ok, g) := sio_flushbuf f in (ok, g, B) | S _ => (true, f, room) end) in H.
    assert (Hst1 : exists ok1 f1 room1, st1 = (ok1, f1, room1) /\ sio_rel f f1 [] /\ (ok1 = false -> sf_err f1 = true)).
    { subst st1. destruct room.
      - destruct (sio_flushbuf f) as [ok g] eqn:Hf. apply sio_flushbuf_spec in Hf. exists ok, g, B. tauto.
      - exists true, f, (S room). split; auto. split; [apply sio_rel_refl|discriminate]. }
    destruct Hst1 as (ok1 & f1 & room1 & E1 & R1 & F1). rewrite E1 in H.
    destruct ok1; simpl in H.
    2:{ inversion H; subst. apply sio_post_failed; [simpl; lia|eapply sio_rel_mono; eauto|auto]. }
    pose proof (sio_copy_rel f1 [ch]) as R2.
    pose proof (sio_rel_trans _ _ _ _ _ R1 R2) as R12. simpl in R12.
    destruct (sf_line f && N.eqb ch 10).
    + destruct (sio_flushbuf (sio_copy f1 [ch])) as [ok2 f3] eqn:Hf2. apply sio_flushbuf_spec in Hf2.
      destruct Hf2 as (R3 & _ & F3 & _).
      pose proof (sio_rel_trans _ _ _ _ _ R12 R3) as R123. simpl in R123.
      destruct ok2; simpl in H.
      2:{ inversion H; subst. apply sio_post_failed; [simpl; lia|eapply sio_rel_mono; eauto|auto]. }
      destruct (sio_putchars B B f3 tl) as [c4 f4] eqn:Hp. inversion H; subst; clear H.
      apply IH in Hp. destruct Hp as (P1 & P2 & P3).
      split; [simpl; lia|]. split.
      * intros He. apply P2 in He. destruct He as [Hc Hr]. split; [simpl; lia|].
        exact (sio_rel_trans _ _ _ _ _ R123 Hr).
      * eapply sio_mono_trans; [eapply sio_rel_mono; eauto|auto].
    + destruct (sio_putchars B (pred room1) (sio_copy f1 [ch]) tl) as [c4 f4] eqn:Hp. inversion H; subst; clear H.
      apply IH in Hp. destruct Hp as (P1 & P2 & P3).
      split; [simpl; lia|]. split.
      * intros He. apply P2 in He. destruct He as [Hc Hr]. split; [simpl; lia|].
        exact (sio_rel_trans _ _ _ _ _ R12 Hr).
      * eapply sio_mono_trans; [eapply sio_rel_mono; eauto|auto].
Qed.
