(* handlers: Struct/ContentNorm (model of Pl_QPDFTokenizer + ContentNormalizer, coalescing) and
   Struct/ContentSem (the independent content-stream reading). I/O only. *)
open Qvmodel
open Runner

let c16_tt_name = function
  | TT_bad -> "bad" | TT_array_close -> "array_close" | TT_array_open -> "array_open"
  | TT_brace_close -> "brace_close" | TT_brace_open -> "brace_open" | TT_dict_close -> "dict_close"
  | TT_dict_open -> "dict_open" | TT_integer -> "integer" | TT_name -> "name" | TT_real -> "real"
  | TT_string -> "string" | TT_null -> "null" | TT_bool -> "bool" | TT_word -> "word" | TT_eof -> "eof"
  | TT_space -> "space" | TT_comment -> "comment" | TT_inline_image -> "inline_image"

let c16_b b = if b then "1" else "0"

let c16_streams (a : string) : n list list =
  List.map unhexbytes (String.split_on_char ',' a)

let c16_show_z (z : z) : string = string_of_bytes (dec_of_Z z)

let c16_show_sem = function
  | CsNum (m, k) -> "num:" ^ c16_show_z m ^ "/" ^ string_of_int (int_of_n k)
  | CsStr s -> "s:" ^ hexbytes s
  | CsName n -> "n:" ^ hexbytes n
  | CsBool b -> "b:" ^ c16_b b
  | CsNull -> "null"
  | CsOp w -> "op:" ^ hexbytes w
  | CsArrOpen -> "[" | CsArrClose -> "]" | CsDictOpen -> "<<" | CsDictClose -> ">>"
  | CsBraceOpen -> "{" | CsBraceClose -> "}"
  | CsImage d -> "img:" ^ hexbytes d

(* ---- page-content lists (Struct/ContentList.v, Struct/ContentListSpec.v): same syntax as harness/drv_content.cc
   value = r<k> | n | o | d | a(value.value...);  pages = value/value/... ('-' = no /Contents);
   objects = k=s<hex> | k=s- | k=a(...) | k=n | k=o | k=d joined by ',' ('-' = none) *)
let c16_parse_value (s : string) : c16_cv =
  let i = ref 0 in
  let rec value () =
    let c = s.[!i] in
    incr i;
    match c with
    | 'r' ->
      let j = ref !i in
      while !j < String.length s && s.[!j] >= '0' && s.[!j] <= '9' do incr j done;
      let k = int_of_string (String.sub s !i (!j - !i)) in
      i := !j; CvRef (n_of_int k)
    | 'n' -> CvNull
    | 'o' | 'd' -> CvOther
    | 'a' ->
      incr i;   (* '(' *)
      let items = ref [] in
      while s.[!i] <> ')' do
        items := value () :: !items;
        if s.[!i] = '.' then incr i
      done;
      incr i;
      CvArr (List.rev !items)
    | _ -> failwith "bad value syntax"
  in
  value ()

let c16_parse_pages (s : string) : c16_cv list =
  List.map (fun p -> if p = "-" then CvNull else c16_parse_value p) (String.split_on_char '/' s)

let c16_parse_store (s : string) : (n * c16_co) list =
  if s = "-" then [] else
  List.map (fun item ->
    let eq = String.index item '=' in
    let k = int_of_string (String.sub item 0 eq) in
    let body = String.sub item (eq + 1) (String.length item - eq - 1) in
    let o =
      if body.[0] = 's' then CoStream (if body = "s-" then [] else unhexbytes (String.sub body 1 (String.length body - 1)))
      else match c16_parse_value body with
        | CvArr items -> CoArr items
        | CvNull -> CoNull
        | _ -> CoOther in
    (n_of_int k, o)) (String.split_on_char ',' s)

let c16_hex_or_dash (l : n list) : string = if l = [] then "-" else hexbytes l

let c16_show_warns (ws : c16_cwarn list) : string =
  if ws = [] then "-" else
  String.concat "." (List.map (function CwNonStreamItem i -> "i" ^ string_of_int (int_of_n i)
                                      | CwThrown i -> "t" ^ string_of_int (int_of_n i) | CwNeither -> "x") ws)

let c16_show_ids (l : n list) : string =
  if l = [] then "-" else String.concat "." (List.map (fun k -> string_of_int (int_of_n k)) l)

let c16_show_sems = function
  | None -> "invalid"
  | Some l -> if l = [] then "-" else String.concat " " (List.map c16_show_sem l)

(* one field per page; every field ends in ':' + the warnings of arrayOrStreamToStreamArray for that page *)
let c16_per_page ?(warns = c16_page_warnings) (args : string list) (f : (n * c16_co) list -> c16_cv -> string) : string =
  match args with
  | pages :: objs :: _ ->
    let st = c16_parse_store objs in
    String.concat "/" (List.map (fun v ->
      let ws = warns st v in
      match c16_first_thrown ws with
      | Some i -> "exc:i" ^ string_of_int (int_of_n i) ^ ":" ^ c16_show_warns (c16_warnings_issued ws)
      | None -> f st v ^ ":" ^ c16_show_warns ws) (c16_parse_pages pages))
  | _ -> "?args"

let () =
  register "c16pglist" (fun args -> c16_per_page args (fun st v -> c16_show_ids (c16_page_streams st v)));
  register "c16pgpipe" (fun args -> c16_per_page args (fun st v -> c16_hex_or_dash (c16_page_content st v)));
  register "c16pgcoalesce" (fun args -> c16_per_page ~warns:c16_coalesce_warnings args (fun st v ->
    match c16_coalesce_contents st v with None -> "K" | Some d -> "S" ^ c16_hex_or_dash d));
  register "c16pgfilter" (fun args -> c16_per_page args (fun st v ->
    let ((out, any), last) = c16_page_filter st v in
    c16_hex_or_dash out ^ " " ^ c16_b any ^ " " ^ c16_b last));
  register "c16pgtoks" (fun args -> c16_per_page args (fun st v ->
    let toks = c16_page_tokens st v in
    if toks = [] then "-" else
    String.concat ";" (List.map (fun (t : token) ->
      c16_tt_name t.tok_type ^ "," ^ hexbytes t.tok_value ^ "," ^ hexbytes t.tok_raw) toks)));
  (* addContentTokenFilter = coalesceContentStreams, then the filter on the single stream *)
  register "c16pgaddtf" (fun args -> c16_per_page ~warns:c16_coalesce_warnings args (fun st v ->
    match c16_add_token_filter st v with
    | None -> "exctype"
    | Some ((out, _), _) -> c16_hex_or_dash out));
  register "c16pgparse" (fun args -> c16_per_page args (fun st v -> string_of_int (List.length (c16_page_content st v))));
  register "c16pgadd" (fun args -> match args with
    | _ :: _ :: first :: _ -> c16_per_page args (fun st v ->
        let l = c16_add_page_contents st v (first = "1") (n_of_int 999999999) in
        String.concat "." (List.map (fun k -> let i = int_of_n k in if i = 999999999 then "N" else string_of_int i) l)
        ^ ";" ^ c16_hex_or_dash (c16_add_page_content st v (first = "1") [n_of_int 113; n_of_int 10]))
    | _ -> "?args");
  (* specification side: no warnings field *)
  register "c16pgsem" (fun args -> match args with
    | pages :: objs :: _ ->
      let st = c16_parse_store objs in
      String.concat "|" (List.map (fun v -> c16_show_sems (c16_spec_page st v)) (c16_parse_pages pages))
    | _ -> "?args");
  register "c16pgwf" (fun args -> match args with
    | pages :: objs :: _ ->
      let st = c16_parse_store objs in
      String.concat "/" (List.map (fun v -> c16_b (c16_spec_contents_wf st v)) (c16_parse_pages pages))
    | _ -> "?args")

let () =
  register "c16norm" (fun args -> match args with
    | h :: _ ->
      let ((out, any), last) = c16_normalize_run (unhexbytes h) in
      hexbytes out ^ " " ^ c16_b any ^ " " ^ c16_b last
    | _ -> "?args");
  register "c16toks" (fun args -> match args with
    | [h] ->
      let toks = c16_tokens (unhexbytes h) in
      if toks = [] then "-" else
      String.concat ";" (List.map (fun (t : token) ->
        c16_tt_name t.tok_type ^ "," ^ hexbytes t.tok_value ^ "," ^ hexbytes t.tok_raw) toks)
    | _ -> "?args");
  register "c16pipe" (fun args -> match args with
    | [a] -> hexbytes (c16_coalesce (c16_streams a))
    | _ -> "?args");
  register "c16coalesce" (fun args -> match args with
    | [a] -> hexbytes (c16_coalesce (c16_streams a))
    | _ -> "?args");
  register "c16filter" (fun args -> match args with
    | [a] ->
      let ((out, any), last) = c16_filter_page (c16_streams a) in
      hexbytes out ^ " " ^ c16_b any ^ " " ^ c16_b last
    | _ -> "?args");
  register "c16findei" (fun args -> match args with
    | [h] -> string_of_int (int_of_n (c16_find_ei (unhexbytes h)))
    | _ -> "?args");
  register "c16clean" (fun args -> match args with
    | [h] -> c16_b (c16_clean (unhexbytes h))
    | _ -> "?args");
  register "c16names" (fun args -> match args with
    | [names; mn; n] ->
      let nl = if names = "-" then [] else List.map unhexbytes (String.split_on_char ',' names) in
      (match c16_alloc_names (nat_of_int (int_of_string n)) nl (n_of_int (int_of_string mn)) with
       | None -> "logic"
       | Some l -> if l = [] then "-" else String.concat "," (List.map hexbytes l))
    | _ -> "?args");
  register "c16sem" (fun args -> match args with
    | [h] -> (match c16_sem (unhexbytes h) with
              | None -> "invalid"
              | Some l -> if l = [] then "-" else String.concat " " (List.map c16_show_sem l))
    | _ -> "?args")
