(* C13 extension - a flat page tree whose /Kids array also holds entries that are no pages ("junk": direct null /
   integer / name / array, references to missing, null or non-dictionary objects).  Pages::cache finds the pages, sets
   invalid_page_found, flattens the tree ONCE (the junk disappears from /Kids, /Count is corrected, the position map is
   built) and resets the flag; afterwards the document is a clean flat tree (pgx_flat), so every later
   updateAllPagesCache yields the same pages. *)
From QV Require Import Base.Bytes Struct.PgModel Struct.PgSpec Struct.C13ProofsA Struct.PgxModel Struct.PgxOracle Struct.C13ProofsC Struct.C13ProofsE Struct.C13ProofsN.
Local Open Scope N_scope.

(* ------------------------------------------------------------------ the hypothesis *)
(* kids ~ K: K is the sub-list of the page entries (references to leaf dictionaries), b tells whether there is junk *)
Inductive pgl_kids (s : pg_store) : list pg_val -> list N -> bool -> Prop :=
| pgl_k_nil : pgl_kids s [] [] false
| pgl_k_page : forall k dk t K b, pg_lookup s k = Some (PcObj (PvDict dk)) -> pgx_leafy dk -> pgl_kids s t K b ->
                                  pgl_kids s (PvRef k :: t) (k :: K) b
| pgl_k_junk : forall v t K b, pg_is_dict s v = false -> pgl_kids s t K b -> pgl_kids s (v :: t) K true.

(* no entry of the dictionary carries an inheritable attribute (then key_ancestors stays empty in
   pushInheritedAttributesToPage; with a non-empty one the model answers PeUnm for a direct junk kid) *)
Definition pgl_noinh (d : pg_dict) : Prop := forall kv, In kv d -> pg_is_inh (fst kv) = true -> snd kv = PvNull.

Definition pgl_junky (p : pg_doc) (K : list N) (b : bool) : Prop :=
  exists pn d kids c,
    pg_root_pages p = PvRef pn /\
    pg_lookup (pd_store p) pn = Some (PcObj (PvDict d)) /\
    pg_dget d pgk_Kids = PvArr kids /\ pgl_kids (pd_store p) kids K b /\
    pg_dget d pgk_Count = PvInt c /\ (pg_len K <= c)%Z /\ (b = false -> c = pg_len K) /\
    pg_dget d pgk_Parent = PvNull /\ pgl_noinh d /\
    pn <> pd_root p /\ ~ In (pd_root p) K /\ NoDup K /\
    pd_invalid p = false.

Lemma pgl_kids_inv_cons : forall s v t K b, pgl_kids s (v :: t) K b ->
  (exists k dk K', v = PvRef k /\ K = k :: K' /\ pg_lookup s k = Some (PcObj (PvDict dk)) /\ pgx_leafy dk /\ pgl_kids s t K' b) \/
  (pg_is_dict s v = false /\ b = true /\ exists b', pgl_kids s t K b').
Proof.
  intros s v t K b H. inversion H; subst.
  - left. do 3 eexists. split; [reflexivity|split; [reflexivity|split; [eassumption|split; assumption]]].
  - right. split; [assumption|split; [reflexivity|eexists; eassumption]].
Qed.

Lemma pgl_kids_nojunk : forall s kids K, pgl_kids s kids K false -> kids = map PvRef K.
Proof.
  intros s kids K H. remember false as b eqn:Eb. induction H as [|k dk t K b E L Ht IH|v t K b Hj Ht IH]; [reflexivity| |discriminate].
  cbn [map]. rewrite (IH Eb). reflexivity.
Qed.

Lemma pgl_kids_leaves : forall s kids K b, pgl_kids s kids K b ->
  forall k, In k K -> exists dk, pg_lookup s k = Some (PcObj (PvDict dk)) /\ pgx_leafy dk.
Proof.
  intros s kids K b H. induction H as [|k dk t K b E L Ht IH|v t K b Hj Ht IH]; intros x Hx; [destruct Hx| |apply IH, Hx].
  destruct Hx as [<-|Hx]; [exists dk; split; assumption|apply IH, Hx].
Qed.

(* ------------------------------------------------------------------ what the walk does to the store *)
(* only repairs (pgx_sim), no new objects, and the root keeps having no inheritable entry *)
Definition pgl_R (pn : N) (s s' : pg_store) : Prop :=
  pgx_sim s s' /\ (forall j, pg_lookup s j = None -> pg_lookup s' j = None) /\
  (forall d, pg_lookup s pn = Some (PcObj (PvDict d)) -> pgl_noinh d ->
     exists d', pg_lookup s' pn = Some (PcObj (PvDict d')) /\ pgl_noinh d').

Lemma pgl_R_refl : forall pn s, pgl_R pn s s.
Proof. intros pn s. split; [apply pgx_sim_refl|split; [intros j H; exact H|]]. intros d E Q. exists d. split; assumption. Qed.

Lemma pgl_R_trans : forall pn s1 s2 s3, pgl_R pn s1 s2 -> pgl_R pn s2 s3 -> pgl_R pn s1 s3.
Proof.
  intros pn s1 s2 s3 (A1 & B1 & C1) (A2 & B2 & C2). split; [eapply pgx_sim_trans; eassumption|split].
  - intros j H. apply B2, B1, H.
  - intros d E Q. destruct (C1 d E Q) as (d2 & E2 & Q2). exact (C2 d2 E2 Q2).
Qed.

(* a repair of one object other than the root *)
Lemma pgl_R_at : forall pn s s' k, pgx_sim s s' -> (forall j, j <> k -> pg_lookup s' j = pg_lookup s j) ->
  pg_lookup s k <> None -> k <> pn -> pgl_R pn s s'.
Proof.
  intros pn s s' k Hsim Hoth Hk Hkn. split; [exact Hsim|split].
  - intros j Hj. rewrite Hoth; [exact Hj|]. intros ->. contradiction.
  - intros d E Q. exists d. split; [|exact Q]. rewrite Hoth by congruence. exact E.
Qed.

Lemma pgl_junk_R : forall pn s s' v, pgl_R pn s s' -> pg_is_dict s v = false -> pg_is_dict s' v = false.
Proof.
  intros pn s s' v (Hsim & Hdom & _) H. unfold pg_is_dict in *. destruct v; try exact H. cbn [pg_rv] in *.
  specialize (Hsim i). destruct (pg_lookup s i) as [[w|]|] eqn:E.
  - destruct w; try (rewrite Hsim; exact H). discriminate.
  - rewrite Hsim. reflexivity.
  - rewrite (Hdom i E). reflexivity.
Qed.

Lemma pgl_leaf_R : forall pn s s' k dk, pgl_R pn s s' -> pg_lookup s k = Some (PcObj (PvDict dk)) -> pgx_leafy dk ->
  exists dk', pg_lookup s' k = Some (PcObj (PvDict dk')) /\ pgx_leafy dk'.
Proof.
  intros pn s s' k dk (Hsim & _) E L. destruct (pgx_sim_dict _ _ _ _ Hsim E) as (dk' & E' & S).
  exists dk'. split; [exact E'|eapply pgx_leafy_sim; eassumption].
Qed.

(* ------------------------------------------------------------------ the loop of getAllPagesInternal over kids with junk *)
Lemma pgl_body_junk : forall f n level mb res s pages vis seen inv idx v,
  nth_error (pg_kids_of s n) idx = Some v -> pg_is_dict s v = false ->
  pgn_body f n level mb res (mkPgGst s pages vis seen inv None) idx = mkPgGst s pages vis seen true None.
Proof.
  intros f n level mb res s pages vis seen inv idx v Hn Hj. unfold pgn_body. cbn [pgg_err pgg_s pgg_pages pgg_vis pgg_seen pgg_inv].
  rewrite Hn, Hj. reflexivity.
Qed.

Lemma pgl_leaf_step : forall s pages vis seen inv n idx k mb res, pg_memN k seen = false ->
  exists s4, pg_leaf (mkPgGst s pages vis seen inv None) n idx k mb res = mkPgGst s4 (k :: pages) vis (k :: seen) inv None /\
             pgx_sim s s4 /\ (forall j, j <> k -> pg_lookup s4 j = pg_lookup s j).
Proof.
  intros s pages vis seen inv n idx k mb res Hm. rewrite pgn_leaf_unfold. cbn [pgg_s pgg_seen pgg_pages pgg_vis pgg_inv pgg_err]. cbv zeta.
  rewrite Hm. destruct (pgn_soft_ok s k mb res) as [A3 B3]. destruct (pgn_typepage_ok (pgn_soft s k mb res) k) as [A4 B4].
  eexists. split; [reflexivity|split; [eapply pgx_sim_trans; eassumption|]]. intros j Hj. rewrite B4, B3 by exact Hj. reflexivity.
Qed.

Lemma pgl_loop : forall f pn mb res s0 d0 vis rest K b pre s acc inv,
  pg_lookup s0 pn = Some (PcObj (PvDict d0)) -> pg_dget d0 pgk_Kids = PvArr (pre ++ rest) ->
  pgl_kids s0 rest K b -> pgl_R pn s0 s -> NoDup K -> (forall x, In x K -> ~ In x acc) ->
  exists s', fold_left (pgn_body f pn 0 mb res) (seq (length pre) (length rest)) (mkPgGst s acc vis acc inv None) =
               mkPgGst s' (rev K ++ acc) vis (rev K ++ acc) (inv || b) None /\ pgl_R pn s0 s'.
Proof.
  intros f pn mb res s0 d0 vis. induction rest as [|v tail IH]; intros K b pre s acc inv Hpn Hk Hkids HR Hnd Hacc.
  - inversion Hkids; subst. exists s. cbn [length seq fold_left rev app]. rewrite orb_false_r. split; [reflexivity|exact HR].
  - cbn [length seq fold_left].
    destruct HR as (Hsim & Hdom & Hroot). pose proof (conj Hsim (conj Hdom Hroot)) as HR.
    destruct (pgx_sim_dict _ _ _ _ Hsim Hpn) as (d1 & Hpn1 & (Hh1 & _)).
    assert (Hk1 : pg_dget d1 pgk_Kids = PvArr (pre ++ v :: tail)) by (rewrite (Hh1 pgk_Kids pgx_kids_hard); exact Hk).
    assert (Hnth : nth_error (pg_kids_of s pn) (length pre) = Some v) by (rewrite (pgn_kids_of s pn d1 _ Hpn1 Hk1); apply pgn_nth_app).
    assert (Hk' : pg_dget d0 pgk_Kids = PvArr ((pre ++ [v]) ++ tail)) by (rewrite <- app_assoc; exact Hk).
    assert (Hlen : length (pre ++ [v]) = S (length pre)) by (rewrite app_length; cbn [length]; lia).
    destruct (pgl_kids_inv_cons _ _ _ _ _ Hkids) as [(k & dk & K' & -> & -> & Ek & L & Ht)|(Hj & -> & b' & Ht)].
    + (* a page *)
      destruct (pgl_leaf_R pn s0 s k dk HR Ek L) as (dk1 & Ek1 & L1).
      rewrite (pgn_body_leafref f pn 0%nat mb res s acc vis acc inv _ k dk1 Hnth Ek1 L1).
      inversion Hnd as [|? ? Hk'' Hnd']; subst.
      assert (Hmem : pg_memN k acc = false) by (apply pgx_memN_false, Hacc; left; reflexivity).
      destruct (pgl_leaf_step s acc vis acc inv pn (length pre) k mb res Hmem) as (s4 & -> & Hsim4 & Hoth4).
      assert (Hkpn : k <> pn).
      { intros ->. rewrite Hpn in Ek. inversion Ek; subst dk. destruct L as [L _]. rewrite L in Hk. discriminate. }
      assert (HR4 : pgl_R pn s0 s4).
      { eapply pgl_R_trans; [exact HR|]. eapply (pgl_R_at pn s s4 k); [exact Hsim4|exact Hoth4|rewrite Ek1; discriminate|exact Hkpn]. }
      destruct (IH K' b (pre ++ [PvRef k]) s4 (k :: acc) inv Hpn Hk' Ht HR4 Hnd') as (s' & E & HR').
      { intros x Hx [<-|Hin]; [contradiction|]. apply (Hacc x); [right; exact Hx|exact Hin]. }
      rewrite Hlen in E. exists s'. rewrite E. cbn [rev]. rewrite <- !app_assoc. cbn [app]. split; [reflexivity|exact HR'].
    + (* junk *)
      rewrite (pgl_body_junk f pn 0%nat mb res s acc vis acc inv _ v Hnth (pgl_junk_R pn s0 s v HR Hj)).
      destruct (IH K b' (pre ++ [v]) s acc true Hpn Hk' Ht HR Hnd Hacc) as (s' & E & HR').
      rewrite Hlen in E. exists s'. rewrite E. rewrite orb_true_r. cbn [orb]. split; [reflexivity|exact HR'].
Qed.

Lemma pgl_noinh_type : forall d v, pgl_noinh d -> v <> PvNull -> pgl_noinh (pg_dset d pgk_Type v).
Proof.
  intros d v Q Hv kv Hin Hi. assert (pg_dset d pgk_Type v = pg_dins d pgk_Type v) as E by (destruct v; try reflexivity; congruence).
  rewrite E in Hin. apply pgy_dins_in in Hin. destruct Hin as [->|Hin]; [discriminate|apply Q; assumption].
Qed.

Lemma pgl_gapi : forall f pn s d kids K b,
  pg_lookup s pn = Some (PcObj (PvDict d)) -> pg_dget d pgk_Kids = PvArr kids -> pgl_kids s kids K b -> NoDup K ->
  exists s1, pg_gapi (S f) pn 0 false false (mkPgGst s [] [] [] false None) = mkPgGst s1 (rev K) [pn] (rev K) b None /\
             pgl_R pn s s1.
Proof.
  intros f pn s d kids K b Hpn Hk Hkids Hnd. rewrite pgn_gapi_unfold.
  change (Nat.ltb 100 1) with false. cbn [pgg_vis pgg_s pgg_pages pgg_seen pgg_inv pgg_err pg_memN existsb orb]. cbv iota.
  set (s1 := if pg_is_dict_of_type s (PvRef pn) pgk_Pages then s else pg_obj_set_key s pn pgk_Type (PvName pgk_Pages)).
  assert (R1 : pgl_R pn s s1).
  { unfold s1. destruct (pg_is_dict_of_type s (PvRef pn) pgk_Pages); [apply pgl_R_refl|].
    split; [eapply pgx_sim_type_pages; [exact Hpn|rewrite Hk; discriminate]|split].
    - intros j Hj. rewrite pg_lookup_obj_set_key_other; [exact Hj|]. intros ->. congruence.
    - intros d' E Q. rewrite Hpn in E. inversion E; subst d'. unfold pg_obj_set_key. rewrite Hpn.
      eexists. split; [rewrite pg_lookup_supd, N.eqb_refl; reflexivity|]. apply pgl_noinh_type; [exact Q|discriminate]. }
  destruct R1 as (Hsim1 & Hdom1 & Hroot1). pose proof (conj Hsim1 (conj Hdom1 Hroot1)) as R1.
  destruct (pgx_sim_dict _ _ _ _ Hsim1 Hpn) as (d1 & Hpn1 & (Hh1 & _)).
  cbv zeta. rewrite (pgx_hget_ref s1 pn d1 pgk_Kids Hpn1), (Hh1 pgk_Kids pgx_kids_hard), Hk.
  destruct (pgl_loop f pn (false || pg_is_rect s1 (pg_hget s1 (PvRef pn) pgk_MediaBox)) (false || pg_is_dict s1 (pg_hget s1 (PvRef pn) pgk_Resources))
              s d [pn] kids K b [] s1 [] false Hpn Hk Hkids R1 Hnd) as (s' & E & R'); [intros x _ []|].
  cbn [length app] in E. rewrite !app_nil_r in E. exists s'. split; [exact E|exact R'].
Qed.

(* ------------------------------------------------------------------ pushInheritedAttributesToPage does nothing here *)
Lemma pgl_F1_id : forall cur keys s ka, (forall key, In key keys -> pg_is_inh key = false) ->
  fold_left (pgy_F1 cur) keys (s, ka) = (s, ka).
Proof.
  intros cur keys. induction keys as [|key t IH]; intros s ka H; [reflexivity|]. cbn [fold_left]. unfold pgy_F1 at 2.
  rewrite (H key (or_introl eq_refl)). apply IH. intros x Hx. apply H. right. exact Hx.
Qed.

Lemma pgl_nonnull_keys_noinh : forall s d, pgl_noinh d -> forall key, In key (pg_nonnull_keys s d) -> pg_is_inh key = false.
Proof.
  intros s d Q key Hin. unfold pg_nonnull_keys in Hin. apply in_map_iff in Hin. destruct Hin as ([k v] & <- & Hf).
  apply filter_In in Hf. destruct Hf as [Hin Hnn]. cbn [fst snd] in *.
  destruct (pg_is_inh k) eqn:Ei; [|reflexivity]. pose proof (Q (k, v) Hin Ei) as Hv. cbn [snd] in Hv. subst v. discriminate.
Qed.

Lemma pgl_kids_not_pages : forall pn s0 s kids K b, pgl_kids s0 kids K b -> pgl_R pn s0 s ->
  forall v, In v kids -> pg_is_dict_of_type s v pgk_Pages = false.
Proof.
  intros pn s0 s kids K b H HR. induction H as [|k dk t K b E L Ht IH|v0 t K b Hj Ht IH]; intros v Hv; [destruct Hv| |].
  - destruct Hv as [<-|Hv]; [|apply IH, Hv]. destruct (pgl_leaf_R pn s0 s k dk HR E L) as (dk1 & E1 & L1).
    apply (pgx_leafy_not_pages _ _ _ E1 L1).
  - destruct Hv as [<-|Hv]; [|apply IH, Hv]. unfold pg_is_dict_of_type. rewrite (pgl_junk_R pn s0 s v0 HR Hj). reflexivity.
Qed.

Lemma pgl_F2_id : forall f pn s d kids, pg_lookup s pn = Some (PcObj (PvDict d)) -> pg_dget d pgk_Kids = PvArr kids ->
  (forall v, In v kids -> pg_is_dict_of_type s v pgk_Pages = false) ->
  forall l, fold_left (pgy_F2 f pn []) l (s, None) = (s, None).
Proof.
  intros f pn s d kids Hpn Hk Hnp. induction l as [|idx t IH]; [reflexivity|]. cbn [fold_left].
  assert (pgy_F2 f pn [] (s, None) idx = (s, None)) as ->; [|exact IH].
  unfold pgy_F2. rewrite (pgx_hget_ref s pn d pgk_Kids Hpn), Hk. cbn [pg_rv].
  destruct (nth_error kids idx) as [kid|] eqn:En; [|reflexivity].
  rewrite (Hnp kid (nth_error_In _ _ En)). destruct kid; reflexivity.
Qed.

Lemma pgl_pia_id : forall f pn s d kids, pg_lookup s pn = Some (PcObj (PvDict d)) -> pg_dget d pgk_Kids = PvArr kids ->
  pgl_noinh d -> (forall v, In v kids -> pg_is_dict_of_type s v pgk_Pages = false) ->
  pg_pia (S f) pn [] s = (s, None).
Proof.
  intros f pn s d kids Hpn Hk Q Hnp. rewrite pgy_pia_unfold. cbv zeta. cbn [pg_rv]. rewrite Hpn.
  match goal with |- context [fold_left (pgy_F1 pn) ?ks ?init] => set (X := fold_left (pgy_F1 pn) ks init) end.
  assert (EX : X = (s, [])) by (apply pgl_F1_id; intros key Hin; eapply pgl_nonnull_keys_noinh; eassumption).
  rewrite EX. clear X EX. apply (pgl_F2_id f pn s d kids Hpn Hk Hnp).
Qed.

(* ------------------------------------------------------------------ the rest of flattenPagesTree: /Kids and /Count of the root are rewritten *)
Lemma pgl_flatten_tail : forall p K pn d l0 c,
  pg_root_pages p = PvRef pn -> pg_lookup (pd_store p) pn = Some (PcObj (PvDict d)) -> pg_dget d pgk_Kids = PvArr l0 ->
  pg_dget d pgk_Count = PvInt c -> (pg_len K <= c)%Z -> (c = pg_len K \/ pd_invalid p = true) ->
  pg_dget d pgk_Parent = PvNull -> pd_all p = K -> pd_pos p = [] -> NoDup K ->
  (forall k, In k K -> exists dk, pg_lookup (pd_store p) k = Some (PcObj (PvDict dk)) /\ pgx_leafy dk) ->
  pn <> pd_root p -> ~ In (pd_root p) K ->
  exists s' m, pg_flatten_tail p = (pd_with_store (pd_with_pos p m) s', None) /\
    pgx_flat (pd_with_invalid (pd_with_store (pd_with_pos p m) s') false) K /\
    (forall i, pg_pos_find m i = option_map Z.of_nat (pg_index K i)) /\ NoDup (map fst m) /\
    (forall j, pg_lookup (pd_store p) j <> None -> pg_mark s' j = pg_mark (pd_store p) j).
Proof.
  intros p K pn d l0 c Hroot Hpn Hk0 Hcount Hle Hcinv Hpar Hall Hpos Hnd Hleaf Hpnroot Hrootk.
  assert (Hpnk : ~ In pn K).
  { intros Hin. destruct (Hleaf pn Hin) as (dk & Ek & [L _]). rewrite Hpn in Ek. inversion Ek; subst dk. rewrite L in Hk0. discriminate. }
  unfold pg_flatten_tail. rewrite Hroot, Hall, Hpos.
  destruct (pgy_tail_loop pn (pd_store p) K [] (pd_store p) [] Hnd Hleaf (pgx_sim_refl _) (fun i => eq_refl) eq_refl)
    as (s1 & m & z & E & H1 & Hm & Hkeys).
  cbn [app length] in E, Hm, Hkeys.
  match goal with |- context [fold_left ?F K ?init] => set (X := fold_left F K init) end.
  assert (EX : X = (s1, m, None, z)) by exact E. rewrite EX. clear X EX E.
  cbn [pd_all pd_with_pos pd_with_store pd_store pd_invalid]. rewrite Hall.
  destruct (pgx_sim_dict _ _ _ _ H1 Hpn) as (d1 & Hpn1 & (Hh1 & _ & Hp1)).
  assert (Hpar1 : pg_dget d1 pgk_Parent = PvNull).
  { destruct Hp1 as [Ep|Ep]; [rewrite Ep; exact Hpar|rewrite Hk0 in Ep; discriminate]. }
  set (d2 := pg_dset d1 pgk_Kids (PvArr (map PvRef K))).
  assert (Es2 : pg_obj_set_key s1 pn pgk_Kids (PvArr (map PvRef K)) = pg_supd s1 pn (PcObj (PvDict d2))) by (unfold pg_obj_set_key; rewrite Hpn1; reflexivity).
  rewrite Es2. set (s2 := pg_supd s1 pn (PcObj (PvDict d2))).
  assert (Hpn2 : pg_lookup s2 pn = Some (PcObj (PvDict d2))) by (unfold s2; rewrite pg_lookup_supd, N.eqb_refl; reflexivity).
  assert (Hc2 : pg_dget d2 pgk_Count = PvInt c).
  { unfold d2. rewrite pg_dget_dset_neq by discriminate. rewrite (Hh1 pgk_Count pgx_count_hard). exact Hcount. }
  rewrite (pgx_hget_ref s2 pn d2 pgk_Count Hpn2), Hc2. unfold pg_uint. cbn [pg_rv].
  assert ((c <? 0)%Z = false) as -> by (apply Z.ltb_ge; unfold pg_len in Hle; lia).
  (* the final store: sF = s2, or s2 with /Count corrected *)
  assert (Hfin : exists sF dF,
            (if (c =? pg_len K)%Z then (pd_with_store (pd_with_pos p m) s2, @None pg_err)
             else if pd_invalid p && (pg_len K <? c)%Z
                  then (pd_with_store (pd_with_store (pd_with_pos p m) s2) (pg_obj_set_key s2 pn pgk_Count (PvInt (pg_len K))), None)
                  else (pd_with_store (pd_with_pos p m) s2, Some PeRt)) = (pd_with_store (pd_with_pos p m) sF, None) /\
            pg_lookup sF pn = Some (PcObj (PvDict dF)) /\ pg_dget dF pgk_Kids = PvArr (map PvRef K) /\
            pg_dget dF pgk_Count = PvInt (pg_len K) /\ pg_dget dF pgk_Parent = PvNull /\ pg_dget dF pgk_Mk = pg_dget d1 pgk_Mk /\
            (forall j, j <> pn -> pg_lookup sF j = pg_lookup s1 j)).
  { assert (Hoth2 : forall j, j <> pn -> pg_lookup s2 j = pg_lookup s1 j).
    { intros j Hj. unfold s2. rewrite pg_lookup_supd. destruct (j =? pn) eqn:Ej; [apply N.eqb_eq in Ej; contradiction|reflexivity]. }
    destruct (c =? pg_len K)%Z eqn:Ec.
    - apply Z.eqb_eq in Ec. exists s2, d2. split; [reflexivity|split; [exact Hpn2|split; [unfold d2; apply pg_dget_dset_eq|]]].
      split; [rewrite Hc2, Ec; reflexivity|split; [unfold d2; rewrite pg_dget_dset_neq by discriminate; exact Hpar1|]].
      split; [unfold d2; apply pg_dget_dset_neq; discriminate|exact Hoth2].
    - apply Z.eqb_neq in Ec. destruct Hcinv as [Hc|Hi]; [contradiction|]. rewrite Hi.
      assert ((pg_len K <? c)%Z = true) as -> by (apply Z.ltb_lt; lia). cbn [andb].
      set (d3 := pg_dset d2 pgk_Count (PvInt (pg_len K))).
      assert (Es3 : pg_obj_set_key s2 pn pgk_Count (PvInt (pg_len K)) = pg_supd s2 pn (PcObj (PvDict d3))) by (unfold pg_obj_set_key; rewrite Hpn2; reflexivity).
      rewrite Es3. exists (pg_supd s2 pn (PcObj (PvDict d3))), d3.
      split; [reflexivity|split; [rewrite pg_lookup_supd, N.eqb_refl; reflexivity|]].
      split; [unfold d3, d2; rewrite pg_dget_dset_neq by discriminate; apply pg_dget_dset_eq|].
      split; [unfold d3; apply pg_dget_dset_eq|].
      split; [unfold d3, d2; rewrite !pg_dget_dset_neq by discriminate; exact Hpar1|].
      split; [unfold d3, d2; rewrite !pg_dget_dset_neq by discriminate; reflexivity|].
      intros j Hj. rewrite pg_lookup_supd. destruct (j =? pn) eqn:Ej; [apply N.eqb_eq in Ej; contradiction|apply Hoth2, Hj]. }
  destruct Hfin as (sF & dF & EF & HpnF & HkF & HcF & HpF & HmkF & HothF).
  exists sF, m. split; [exact EF|]. split; [|split; [exact Hm|split; [rewrite Hkeys; apply NoDup_rev, Hnd|]]].
  - exists pn, dF. cbn [pd_store pd_root pd_invalid pd_with_store pd_with_pos pd_with_invalid].
    split; [|split; [exact HpnF|split; [exact HkF|split; [exact HcF|split; [exact HpF|]]]]].
    + rewrite <- (pgx_root_pages_sim p s1 H1 pn Hroot). apply pg_root_pages_ext; [reflexivity|].
      cbn [pd_store pd_with_store pd_with_pos pd_with_invalid pd_root]. apply HothF. congruence.
    + repeat (split; [assumption|]). split; [|reflexivity].
      intros k Hk. destruct (pgy_leaf_sim _ _ _ Hleaf H1 k Hk) as (dk & Ek & L). exists dk. split; [|exact L].
      rewrite HothF by (intros ->; contradiction). exact Ek.
  - intros j Hj. rewrite <- (pgn_sim_mark _ _ _ H1 Hj). destruct (N.eq_dec j pn) as [->|Hne].
    + rewrite (pg_mark_obj _ _ _ HpnF), (pg_mark_obj _ _ _ Hpn1). unfold pg_val_mark. rewrite HmkF. reflexivity.
    + apply pg_mark_ext, HothF, Hne.
Qed.

(* ------------------------------------------------------------------ Pages::cache repairs the tree once *)
Lemma pgl_flat_of_nojunk : forall p K, pgl_junky p K false -> pgx_flat p K.
Proof.
  intros p K (pn & d & kids & c & Hroot & Hpn & Hk & Hkids & Hcount & Hle & Hceq & Hpar & Q & Hpnroot & Hrootk & Hnd & Hinv).
  pose proof (pgl_kids_leaves _ _ _ _ Hkids) as Hleaf.
  exists pn, d. rewrite (pgl_kids_nojunk _ _ _ Hkids) in Hk. rewrite (Hceq eq_refl) in Hcount.
  repeat (split; [assumption|]). split; [|repeat (split; [assumption|]); exact Hinv].
  intros Hin. destruct (Hleaf pn Hin) as (dk & Ek & [L _]). rewrite Hpn in Ek. inversion Ek; subst dk. rewrite L in Hk. discriminate.
Qed.

(* with at least one junk entry (b = true) the position map is built by the flattening; without junk nothing is
   flattened and the position map stays empty (this is pgx_cache_flat) *)
Lemma invalid_kids_repaired_once_lemma : forall p K b, pgl_junky p K b -> pd_all p = [] -> pd_pos p = [] ->
  exists p', pg_cache p = (p', None) /\ pgx_flat p' K /\ pd_all p' = K /\ pd_invalid p' = false /\
    (if b then forall i, pg_pos_find (pd_pos p') i = option_map Z.of_nat (pg_index K i) else pd_pos p' = []) /\
    NoDup (map fst (pd_pos p')) /\
    pd_root p' = pd_root p /\ pd_omap p' = pd_omap p /\ pd_reg p' = pd_reg p /\
    (forall j, pg_lookup (pd_store p) j <> None -> pg_mark (pd_store p') j = pg_mark (pd_store p) j).
Proof.
  intros p K b Hj Hall Hpos. destruct b.
  2: { (* no junk: nothing to flatten *)
    pose proof (pgl_flat_of_nojunk p K Hj) as Hf. pose proof (pgx_flat_invalid p K Hf) as Hinv.
    destruct (pgx_cache_flat p K Hf Hall) as (s' & E & Hsim).
    exists (pd_with_all (pd_with_store p s') K). split; [exact E|split].
    - eapply pgx_flat_eq; [| | |exact (pgx_flat_sim p K s' Hf Hsim)]; [reflexivity|reflexivity|exact Hinv].
    - split; [reflexivity|split; [exact Hinv|split; [exact Hpos|split; [cbn; rewrite Hpos; constructor|]]]].
      split; [reflexivity|split; [reflexivity|split; [reflexivity|]]]. intros j Hjx. apply pgn_sim_mark; assumption. }
  destruct Hj as (pn & d & kids & c & Hroot & Hpn & Hk & Hkids & Hcount & Hle & _ & Hpar & Q & Hpnroot & Hrootk & Hnd & Hinv).
  pose proof (pgl_kids_leaves _ _ _ _ Hkids) as Hleaf.
  unfold pg_cache, pg_cache_core. rewrite Hall, Hinv. cbn [negb andb].
  rewrite Hroot. rewrite (pgx_climb_root _ _ pn d Hpn Hpar).
  unfold pg_has_key. rewrite (pgx_hget_ref _ pn d pgk_Kids Hpn), Hk. cbn [pg_is_null negb].
  cbn [pd_store pd_with_store pd_invalid]. rewrite Hinv.
  destruct (pgl_gapi 101 pn (pd_store p) d kids K true Hpn Hk Hkids Hnd) as (s1 & E & R).
  rewrite E. cbn [pgg_err pgg_s pgg_pages pgg_inv]. rewrite rev'_rev, rev_involutive. cbv iota.
  destruct R as (Hsim & Hdom & Hrootd). pose proof (conj Hsim (conj Hdom Hrootd)) as R.
  destruct (Hrootd d Hpn Q) as (d1 & Hpn1 & Q1).
  destruct (pgx_sim_dict _ _ _ _ Hsim Hpn) as (d1' & Hpn1' & (Hh1 & _ & Hp1)). rewrite Hpn1 in Hpn1'. inversion Hpn1'; subst d1'. clear Hpn1'.
  assert (Hk1 : pg_dget d1 pgk_Kids = PvArr kids) by (rewrite (Hh1 pgk_Kids pgx_kids_hard); exact Hk).
  assert (Hc1 : pg_dget d1 pgk_Count = PvInt c) by (rewrite (Hh1 pgk_Count pgx_count_hard); exact Hcount).
  assert (Hpar1 : pg_dget d1 pgk_Parent = PvNull).
  { destruct Hp1 as [Ep|Ep]; [rewrite Ep; exact Hpar|rewrite Hk in Ep; discriminate]. }
  match goal with |- context [pg_flatten_gen _ ?q] => set (p1 := q) end.
  assert (Hroot1 : pg_root_pages p1 = PvRef pn) by (exact (pgx_root_pages_sim p s1 Hsim pn Hroot)).
  unfold pg_flatten_gen. change (pd_pos p1) with (pd_pos p). rewrite Hpos. unfold pg_push_gen. rewrite andb_false_r. cbv beta iota zeta.
  unfold pg_push_after_cache. rewrite Hroot1. change (pd_store p1) with s1. change 110%nat with (S 109).
  rewrite (pgl_pia_id 109 pn s1 d1 kids Hpn1 Hk1 Q1 (pgl_kids_not_pages pn _ s1 _ _ _ Hkids R)).
  set (p2 := pd_with_pushed (pd_with_store p1 s1) true).
  destruct (pgl_flatten_tail p2 K pn d1 kids c Hroot1 Hpn1 Hk1 Hc1 Hle (or_intror eq_refl) Hpar1 eq_refl Hpos Hnd) as (s3 & m & Etail & Hflat & Hm & Hkeys & Hmk);
    [intros k Hk0; destruct (Hleaf k Hk0) as (dk & Ek & L); exact (pgl_leaf_R pn _ s1 k dk R Ek L)|exact Hpnroot|exact Hrootk|].
  rewrite Etail.
  exists (pd_with_invalid (pd_with_store (pd_with_pos p2 m) s3) false).
  split; [reflexivity|split; [exact Hflat|split; [reflexivity|split; [reflexivity|split; [exact Hm|split; [exact Hkeys|]]]]]].
  split; [reflexivity|split; [reflexivity|split; [reflexivity|]]].
  intros j Hjx. cbn [pd_store pd_with_invalid pd_with_store]. change (pd_store p2) with s1 in Hmk.
  rewrite (Hmk j (pgx_sim_some _ _ _ Hsim Hjx)). apply pgn_sim_mark; assumption.
Qed.

(* ... so every later updateAllPagesCache finds the same pages *)
Lemma refresh_after_repair_lemma : forall p K b, pgl_junky p K b -> pd_all p = [] -> pd_pos p = [] ->
  forall p', pg_cache p = (p', None) ->
  exists s', pg_update_cache p' = (mkPgDoc s' (pd_root p') K [] false false (pd_omap p') (pd_reg p'), None).
Proof.
  intros p K b Hj Hall Hpos p' Ec.
  destruct (invalid_kids_repaired_once_lemma p K b Hj Hall Hpos) as (p'' & E & Hflat & _).
  rewrite E in Ec. inversion Ec; subst p''.
  destruct (refresh_keeps_list_lemma p' K Hflat) as (s' & E' & _). exists s'. exact E'.
Qed.
