(* C08 - proofs about the recovery model (File/Recover.v) against the specification side (File/RecoverSpec.v). *)
From QV Require Import Base.Bytes File.StrictSyntax File.Recover File.RecoverSpec.
Local Open Scope N_scope.

(* exit-status model: whatever the reader detected (an exception, a warning, a reconstruction) never ends in status 0 *)
Lemma detected_never_exit0_lemma : forall r : rc_result,
  (r_fatal r = true \/ r_warn r = true) -> rc_exit_code r <> 0.
Proof.
  intros r [H|H]; unfold rc_exit_code; rewrite H; try discriminate.
  destruct (r_fatal r); discriminate.
Qed.
