(* handlers: C12 extension - Struct/PageAttr.v (inheritable attributes on page trees) and its specification.
   Text <-> extracted types only.  Formats are described in harness/drv_pattr.cc. *)
open Qvmodel
open Runner

let split c s = if s = "-" || s = "" then [] else String.split_on_char c s
let sub1 s = String.sub s 1 (String.length s - 1)

let obj_of (s : string) : pa_obj =
  match s.[0] with
  | 'z' -> PaoNull
  | 'i' -> PaoInt (z_of_int (int_of_string (sub1 s)))
  | 's' -> PaoOther (n_of_int 0, n_of_int (int_of_string (sub1 s)))
  | 'r' -> PaoOther (n_of_int 1, n_of_int (int_of_string (sub1 s)))
  | 'd' -> PaoOther (n_of_int 2, n_of_int (int_of_string (sub1 s)))
  | 'a' -> PaoOther (n_of_int 3, n_of_int (int_of_string (sub1 s)))
  | _ -> failwith ("obj " ^ s)
let str_of_obj (o : pa_obj) : string =
  match o with
  | PaoNull -> "z"
  | PaoInt z -> "i" ^ string_of_int (int_of_z z)
  | PaoOther (k, c) -> (match int_of_n k with 0 -> "s" | 1 -> "r" | 2 -> "d" | 3 -> "a" | _ -> "?") ^ string_of_int (int_of_n c)
let val_of (s : string) : pa_val option =
  if s = "-" then None
  else if s.[0] = '@' then Some (PaI (n_of_int (int_of_string (sub1 s))))
  else Some (PaD (obj_of s))
let str_of_val (v : pa_val option) : string =
  match v with None -> "-" | Some (PaI i) -> "@" ^ string_of_int (int_of_n i) | Some (PaD o) -> str_of_obj o
let dict_of (attrs : string) (oth : string) : pa_dict =
  match List.map val_of (String.split_on_char ',' attrs) with
  | [a; b; c; d] -> { pa_attrs = { pa_q0 = a; pa_q1 = b; pa_q2 = c; pa_q3 = d };
                      pa_oth = List.map (fun x -> n_of_int (int_of_string x)) (split '.' oth) }
  | _ -> failwith "attrs"
let str_of_dict (d : pa_dict) : string =
  let q = d.pa_attrs in
  String.concat "," (List.map str_of_val [q.pa_q0; q.pa_q1; q.pa_q2; q.pa_q3]) ^ ":" ^
  (match d.pa_oth with [] -> "-" | l -> String.concat "." (List.map (fun x -> string_of_int (int_of_n x)) l))
let opt_id s = if s = "-" then None else Some (n_of_int (int_of_string s))
let str_opt_id p = match p with None -> "-" | Some i -> string_of_int (int_of_n i)

type def = DObj of pa_obj | DNode of string * string * string * string * int list | DPage of string * string * string

let parse_objs (s : string) : (int * def) list =
  List.map (fun e ->
    let i = String.index e '=' in
    let id = int_of_string (String.sub e 0 i) in
    let body = String.sub e (i + 1) (String.length e - i - 1) in
    match String.split_on_char ':' body with
    | ["o"; o] -> (id, DObj (obj_of o))
    | ["n"; par; cnt; attrs; oth; kids] -> (id, DNode (par, cnt, attrs, oth, List.map int_of_string (split '.' kids)))
    | ["p"; par; attrs; oth] -> (id, DPage (par, attrs, oth))
    | _ -> failwith ("def " ^ e)) (split ';' s)

let rec build tbl (reached : (int, unit) Hashtbl.t) (id : int) : pa_tree =
  Hashtbl.replace reached id ();
  match Hashtbl.find tbl id with
  | DNode (par, cnt, attrs, oth, kids) ->
    PaNode (n_of_int id, opt_id par, (if cnt = "-" then None else Some (z_of_int (int_of_string cnt))),
            dict_of attrs oth, List.map (build tbl reached) kids)
  | DPage (par, attrs, oth) -> PaPage (n_of_int id, opt_id par, dict_of attrs oth)
  | DObj _ -> failwith "tree object expected"

let load (root : string) (objs : string) : pa_doc =
  let defs = parse_objs objs in
  let tbl = Hashtbl.create 64 in
  List.iter (fun (i, d) -> Hashtbl.replace tbl i d) defs;
  let reached = Hashtbl.create 64 in
  let t = build tbl reached (int_of_string root) in
  let st = List.concat (List.map (fun (i, d) -> match d with DObj o -> [(n_of_int i, o)] | _ -> []) defs) in
  let det = List.concat (List.map (fun (i, d) -> match d with
      | DPage (par, attrs, oth) when not (Hashtbl.mem reached i) -> [PaPage (n_of_int i, opt_id par, dict_of attrs oth)]
      | _ -> []) defs) in
  let mx = List.fold_left (fun a (i, _) -> max a i) (int_of_string root) defs in
  { pa_root = t; pa_st = st; pa_next = n_of_int (mx + 1); pa_cached = false; pa_pushed = false; pa_pos = []; pa_det = det }

let rec dump_tree (t : pa_tree) (acc : (int * string) list ref) : unit =
  match t with
  | PaPage (i, p, d) -> acc := (int_of_n i, "p:" ^ str_opt_id p ^ ":" ^ str_of_dict d) :: !acc
  | PaNode (i, p, c, d, kids) ->
    acc := (int_of_n i, "n:" ^ str_opt_id p ^ ":" ^ (match c with None -> "-" | Some z -> string_of_int (int_of_z z)) ^ ":" ^
                        str_of_dict d ^ ":" ^
                        (match kids with [] -> "-" | _ -> String.concat "." (List.map (fun k -> string_of_int (int_of_n (pa_id k))) kids))) :: !acc;
    List.iter (fun k -> dump_tree k acc) kids

let dump (doc : pa_doc) : string =
  let acc = ref [] in
  dump_tree doc.pa_root acc;
  List.iter (fun t -> dump_tree t acc) doc.pa_det;
  List.iter (fun (i, o) -> acc := (int_of_n i, "o:" ^ str_of_obj o) :: !acc) doc.pa_st;
  let l = List.sort (fun (a, _) (b, _) -> compare a b) !acc in
  string_of_int (int_of_n (pa_id doc.pa_root)) ^ "#" ^ String.concat ";" (List.map (fun (i, s) -> string_of_int i ^ "=" ^ s) l)

let op_of (s : string) : pa_op =
  match String.split_on_char ':' s with
  | ["push"; a; w] -> PaOpPush (a = "1", w = "1")
  | ["find"; i] -> PaOpFind (n_of_int (int_of_string i))
  | ["remove"; i] -> PaOpRemove (n_of_int (int_of_string i))
  | ["insert"; pos; attrs; oth] -> PaOpInsert (z_of_int (int_of_string pos), dict_of attrs oth)
  | ["all"] -> PaOpAll
  | ["rotate"; i; a; r] -> PaOpRotate (n_of_int (int_of_string i), z_of_int (int_of_string a), r = "1")
  | _ -> failwith ("op " ^ s)

let str_of_res (r : pa_res) : string =
  match r with
  | PaROk -> "ok"
  | PaRPos z -> "pos:" ^ string_of_int (int_of_z z)
  | PaRIds l -> "ids:" ^ String.concat "." (List.map (fun i -> string_of_int (int_of_n i)) l)
  | PaRWarn l -> "warn:" ^ String.concat "," (List.map (fun (i, k) -> string_of_int (int_of_n i) ^ "." ^ string_of_int (int_of_n k)) l)
  | PaRErr PaEQ -> "err:q"
  | PaRErr PaERt -> "err:r"
  | PaRErr PaEUnm -> "err:u"

let () =
  register "pattr" (fun args -> match args with
    | [root; objs; ops] ->
      let doc = load root objs in
      let (doc', rs) = pa_run (List.map op_of (split '/' ops)) doc in
      String.concat "/" (List.map str_of_res rs) ^ "#" ^ dump doc'
    | _ -> "?args");
  (* effective attributes of every page of the tree (specification): id:crop,media,res,rot:rotation *)
  register "pattr_eff" (fun args -> match args with
    | [root; objs] ->
      let doc = load root objs in
      String.concat ";" (List.map (fun (i, a) ->
          string_of_int (int_of_n i) ^ ":" ^ String.concat "," (List.map str_of_obj [a.pa_q0; a.pa_q1; a.pa_q2; a.pa_q3]) ^ ":" ^
          (match pas_rotation a with None -> "-" | Some z -> string_of_int (int_of_z z)))
          (pas_doc_eff doc.pa_st doc.pa_root))
    | _ -> "?args")

(* page-list level of handlePageSpecs (Struct/PageSel.v):  psel <pages of the primary> <f:i,i,...;f:i,...> <collate values|->
   -> f.i.o (the page object itself) or f.i.c<n> (n-th shallow copy), joined by ',' *)
let () =
  register "psel" (fun args -> match args with
    | [n0; sels; cs] ->
      let sel_of s =
        let k = String.index s ':' in
        (nat_of_int (int_of_string (String.sub s 0 k)),
         List.map (fun x -> nat_of_int (int_of_string x)) (split ',' (String.sub s (k + 1) (String.length s - k - 1)))) in
      let out = ps_handle (nat_of_int (int_of_string n0)) (List.map sel_of (split ';' sels))
          (List.map (fun x -> nat_of_int (int_of_string x)) (split ',' cs)) in
      String.concat "," (List.map (fun p -> match p with
          | PsOrig (f, i) -> Printf.sprintf "%d.%d.o" (int_of_nat f) (int_of_nat i)
          | PsCopy (f, i, n) -> Printf.sprintf "%d.%d.c%d" (int_of_nat f) (int_of_nat i) (int_of_nat n)) out)
    | _ -> "?args")

(* unreferenced-resource removal (Struct/ResPrune.v): same line as harness/drv_resprune.cc *)
let () =
  register "rprune" (fun args -> match args with
    | [root; nodes] ->
      let tbl = Hashtbl.create 32 in
      List.iter (fun e ->
          let i = String.index e '=' in
          let id = int_of_string (String.sub e 0 i) in
          match String.split_on_char ':' (String.sub e (i + 1) (String.length e - i - 1)) with
          | [flags; uses; fonts; xobjs] -> Hashtbl.replace tbl id (flags, split ',' uses, split ',' fonts, split ',' xobjs)
          | _ -> failwith "node") (split ';' nodes);
      let pair s = let k = String.index s '.' in (int_of_string (String.sub s 0 k), int_of_string (String.sub s (k + 1) (String.length s - k - 1))) in
      let rec build id =
        let (flags, uses, fonts, xobjs) = Hashtbl.find tbl id in
        let has c = String.contains flags c in
        RpnNode (n_of_int id, has 'f', has 'b',
                 List.map (fun u -> let (a, b) = pair u in (n_of_int a, n_of_int b)) uses,
                 (has 'r' || has 'R' || has 'h'),
                 List.map (fun k -> (n_of_int (int_of_string k), n_of_int 3)) fonts,
                 List.map (fun e -> let (k, c) = pair e in (n_of_int k, build c)) xobjs) in
      let out = ref [] in
      let rec dump n =
        let ks l = match l with [] -> "-" | _ -> String.concat "," (List.map (fun (k, _) -> string_of_int (int_of_n k)) l) in
        out := (int_of_n (rpn_id n), ks (rpn_fonts n) ^ ":" ^ ks (rpn_xobjs n)) :: !out;
        List.iter (fun (_, c) -> dump c) (rpn_xobjs n) in
      dump (rpn_run (build (int_of_string root)));
      String.concat ";" (List.map (fun (i, s) -> string_of_int i ^ "=" ^ s) (List.sort compare !out))
    | _ -> "?args")

(* page labels (Struct/PageLabels.v): same line as harness/drv_plabels.cc *)
let () =
  register "plabels" (fun args -> match args with
    | [trees; calls] ->
      let optn s = if s = "0" then None else Some (n_of_int (int_of_string s)) in
      let lab_of e = match String.split_on_char ':' e with
        | [k; s; p; st] -> (z_of_int (int_of_string k),
                            { plb_S = optn s; plb_P = optn p;
                              plb_St = (if st = "-" then PlbStNone else if st = "x" then PlbStOther else PlbStInt (z_of_int (int_of_string st))) })
        | _ -> failwith "label" in
      let ts = Array.of_list (List.map (fun t -> if t = "-" then None else Some (List.map lab_of (String.split_on_char ',' t)))
                                (String.split_on_char '/' trees)) in
      let acc = List.fold_left (fun acc c -> match List.map int_of_string (String.split_on_char '.' c) with
          | [f; s; e; n] -> plb_labels_for_range ts.(f) (z_of_int s) (z_of_int e) (z_of_int n) acc
          | _ -> failwith "call") [] (String.split_on_char ';' calls) in
      let on o = match o with None -> "0" | Some x -> string_of_int (int_of_n x) in
      (match List.rev acc with
       | [] -> "-"
       | l -> String.concat "," (List.map (fun (i, l) -> Printf.sprintf "%d:%s:%s:%s" (int_of_z i) (on l.plb_S) (on l.plb_P)
                                             (match l.plb_St with PlbStInt z -> string_of_int (int_of_z z) | _ -> "-")) l))
    | _ -> "?args")
