(* Towards write_read_iso: the strict reader's indirect-object parser, applied to the plain writer
   model's output at a recorded offset, returns exactly the object that was written there (non-stream
   objects; concrete printers). Statements are fixed. *)
From QV Require Import Base.Bytes File.StrictSyntax File.ReadStrict Obj.Queue Obj.C01QueueProofs Obj.WriterModel
  Obj.WmPrinters Obj.C01WriterProofs Obj.C01RoundtripProofs.
From Coq Require Import Lia.
Local Open Scope N_scope.

Definition wf_doc_objs (d : doc) : Prop :=
  Forall (fun kv => wf_wobj (i_val (snd kv))) (d_objects d).

(* the renumbering used by write_doc *)
Definition doc_ren (d : doc) (x : N) : N :=
  match renumber (graph_of d) (roots_of d) x with Some n => n | None => 0 end.

(* For every written non-stream object: parsing an indirect object at its recorded offset in the output
   yields its new number, generation 0, and the value that was written (references renumbered, null
   entries dropped), and the parse ends where the next thing starts. *)
Lemma emitted_object_parses_lemma : forall d id i fuel,
  doc_closed d -> wf_doc_objs d ->
  In id (written (graph_of d) (roots_of d)) -> find_obj (d_objects d) id = Some i -> i_stream i = None ->
  let out := write_doc wm_unparse_string wm_unparse_name d in
  (length out < fuel)%nat ->
  exists off e,
    In (doc_ren d id, off) (body_offsets wm_unparse_string wm_unparse_name d) /\
    parse_indirect fuel (N.of_nat (length out)) out off (fun _ => None)
    = inl (Some {| so_num := doc_ren d id; so_gen := 0; so_where := XInUse off 0;
                   so_val := to_pobj (d_objects d) (doc_ren d) (i_val i); so_stream := None; so_end := e |})
    /\ off < e.
Proof. Abort.
