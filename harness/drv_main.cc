#include "drv.hh"
#include <iostream>
#include <stdexcept>

std::map<std::string, Handler>& handlers() { static std::map<std::string, Handler> h; return h; }

static int hv(char c) {
    if (c >= '0' && c <= '9') return c - '0';
    if (c >= 'a' && c <= 'f') return c - 'a' + 10;
    if (c >= 'A' && c <= 'F') return c - 'A' + 10;
    throw std::runtime_error("hex");
}
std::string unhex(std::string const& h) {
    if (h == "-") return "";
    std::string r;
    for (size_t i = 0; i + 1 < h.size(); i += 2) r.push_back(static_cast<char>(hv(h[i]) * 16 + hv(h[i + 1])));
    return r;
}
std::string hex(std::string const& s) {
    if (s.empty()) return "-";
    static char const* d = "0123456789abcdef";
    std::string r;
    for (unsigned char c: s) { r.push_back(d[c >> 4]); r.push_back(d[c & 15]); }
    return r;
}
std::vector<long long> ints_of(std::string const& s) {
    std::vector<long long> r;
    if (s == "-" || s.empty()) return r;
    std::stringstream ss(s); std::string item;
    while (std::getline(ss, item, ',')) r.push_back(std::stoll(item));
    return r;
}

int main() {
    std::ios::sync_with_stdio(false);
    std::string line;
    while (std::getline(std::cin, line)) {
        std::vector<std::string> parts;
        std::stringstream ss(line); std::string w;
        while (ss >> w) parts.push_back(w);
        if (parts.empty()) { std::cout << "\n"; continue; }
        auto it = handlers().find(parts[0]);
        std::string out;
        if (it == handlers().end()) out = "?unknown-command " + parts[0];
        else {
            std::vector<std::string> args(parts.begin() + 1, parts.end());
            try { out = it->second(args); }
            catch (std::logic_error const& e) { out = std::string("!logic_error ") + e.what(); }
            catch (std::exception const& e) { out = std::string("!exception ") + e.what(); }
        }
        std::cout << out << "\n";
    }
    std::cout.flush();
    return 0;
}
