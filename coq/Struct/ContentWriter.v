(* C16 extension (prefix ci_).  Model of WHICH streams QPDFWriter sends through the ContentNormalizer, written from the
   C++ of /repo:
     libqpdf/QPDFWriter.cc   impl::Writer::initializeSpecialStreams   (normalized_streams: the object ids registered as
                                                                       page contents)
                             impl::Writer::will_filter_stream          (filter / encode_flags / decode_level of a stream,
                                                                       the two attempts, "write the damaged stream unchanged")
                             Config::qdf, QPDFWriter::setContentNormalization (what --qdf / --normalize-content leave in
                                                                       cfg.normalize_content())
     libqpdf/QPDF_Stream.cc  Stream::pipeStreamData                    (filter = empty || encode_flags || decode_level != none;
                                                                       filterable(); the normaliser only when filter)
   over the object table of Struct/ContentObj.v (a /Contents value per page, objects = stream / array / null / other).
   A stream is identified by its object number (generations are not modelled: the table has one object per number).
   No proofs in this file. *)
From QV Require Import Base.Bytes Lex.TokModel Struct.ContentNorm Struct.ContentObj Struct.ContentList.
Local Open Scope N_scope.

(* contents.getArrayItem(i).getObjGen(): a direct item has the id (0, 0) *)
Definition ci_objgen (v : c16_cv) : N := match v with CvRef n => n | _ => 0 end.

(* one iteration of the page loop of initializeSpecialStreams:
     contents = page.getKey("/Contents");
     if (contents.isArray()) { for i < n: contents_objects.push_back(contents.getArrayItem(i).getObjGen()); }
     else if (contents.isStream()) { contents_objects.push_back(contents.getObjGen()); }
   isArray / isStream look through a reference; the array items are NOT looked at (no type test, no second level). *)
Definition ci_page_special (st : c16_store) (v : c16_cv) : list N :=
  match c16_kind_of st v with
  | CkArr items => map ci_objgen items
  | CkStream n _ => [n]
  | _ => []
  end.

(* normalized_streams after the loop over all pages (a std::set: only membership is used) *)
Definition ci_special_streams (st : c16_store) (pages : list c16_cv) : list N := flat_map (ci_page_special st) pages.

Fixpoint ci_mem (n : N) (l : list N) : bool :=
  match l with [] => false | k :: r => (k =? n) || ci_mem n r end.

(* decode levels; filterable() treats none and generalized alike *)
Inductive ci_level := CiNone | CiGeneralized | CiSpecialized | CiAll.

Definition ci_level_is_none (l : ci_level) : bool := match l with CiNone => true | _ => false end.

(* the writer configuration as will_filter_stream reads it *)
Record ci_wcfg := mkCiCfg {
  ci_normalize : bool;            (* cfg.normalize_content() *)
  ci_compress : bool;             (* cfg.compress_streams() *)
  ci_recompress_flate : bool;
  ci_decode_level : ci_level;
  ci_encrypted : bool;            (* encryption != nullptr *)
  ci_encrypt_metadata : bool
}.

(* Config::qdf(true): if (!normalize_content_set_) normalize_content(true); setContentNormalization(v) sets the value and
   the _set_ flag; whatever the order of the two calls the value asked for wins, else QDF mode decides *)
Definition ci_effective_normalize (qdf : bool) (asked : option bool) : bool :=
  match asked with Some v => v | None => qdf end.

(* what will_filter_stream asks of one stream object *)
Record ci_sattr := mkCiAttr {
  ci_filter_on_write : bool;      (* stream.getFilterOnWrite() *)
  ci_data_modified : bool;        (* stream.isDataModified() *)
  ci_flate_filter : bool;         (* /Filter is the name /FlateDecode or /Fl *)
  ci_root_metadata : bool;        (* stream.isRootMetadata() *)
  ci_length0 : bool;              (* Integer(stream_dict["/Length"]) == 0 *)
  ci_raw : list N;                (* the stored data *)
  ci_dec_generalized : option (list N);   (* Some d: filterable(level) and d the decoded data; None: not filterable / the decoder throws *)
  ci_dec_specialized : option (list N);
  ci_dec_all : option (list N)
}.

Definition ci_decoded (a : ci_sattr) (l : ci_level) : option (list N) :=
  match l with
  | CiNone | CiGeneralized => ci_dec_generalized a
  | CiSpecialized => ci_dec_specialized a
  | CiAll => ci_dec_all a
  end.

(* the decisions of will_filter_stream before the attempts: (filter, normalize flag, compress flag, decode level) *)
Definition ci_will_filter (cfg : ci_wcfg) (special : list N) (n : N) (a : ci_sattr) : bool * bool * bool * ci_level :=
  let lvl := ci_decode_level cfg in
  let '(filter, fnorm, fcomp, lvl1) :=
    if ci_filter_on_write a then
      let f0 := ci_data_modified a || ci_compress cfg || negb (ci_level_is_none lvl) in
      let f1 := if ci_compress cfg && ci_flate_filter a && negb (ci_recompress_flate cfg) && negb (ci_data_modified a) then false else f0 in
      if ci_root_metadata a && (negb (ci_encrypted cfg) || negb (ci_encrypt_metadata cfg)) then (true, false, false, CiAll)
      else if ci_normalize cfg && ci_mem n special then (true, true, false, lvl)
      else if f1 && ci_compress cfg then (f1, false, true, lvl)
      else (f1, false, false, lvl)
    else (false, false, false, lvl) in
  (* Disable compression for empty streams *)
  if ci_length0 a then (true, false, false, lvl1) else (filter, fnorm, fcomp, lvl1).

(* the two attempts.  Attempt 1 pipes with (filter ? flags : 0, filter ? level : none); inside pipeStreamData
   filter' = (flags != 0 || level != none) && filterable(level) - the `empty` disjunct only matters for streams without
   data, on which nothing below differs; when filter' holds the data go through the decoders, then the normaliser if asked,
   then the compressor.  If attempt 1 did not filter although asked to, attempt 2 pipes the stored data unchanged.
   Result: (data handed to the compressor / the file, the normaliser ran, warnings of the normaliser). *)
Definition ci_write_stream (cfg : ci_wcfg) (special : list N) (n : N) (a : ci_sattr) : list N * bool * list c16_warn :=
  let '(filter, fnorm, fcomp, lvl) := ci_will_filter cfg special n a in
  let wanted := filter && (fnorm || fcomp || negb (ci_level_is_none lvl)) in
  match (if wanted then ci_decoded a lvl else None) with
  | Some d => if fnorm then (c16_normalize d, true, c16_warnings d) else (d, false, [])
  | None => (ci_raw a, false, [])
  end.

(* whole writer pass over the streams of a document: per object number *)
Definition ci_write_all (cfg : ci_wcfg) (st : c16_store) (pages : list c16_cv) (streams : list (N * ci_sattr))
  : list (N * (list N * bool * list c16_warn)) :=
  let special := ci_special_streams st pages in
  map (fun na => (fst na, ci_write_stream cfg special (fst na) (snd na))) streams.
