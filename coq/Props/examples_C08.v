(* non-vacuity: the hypotheses of scan_finds_all / recon_table_spec are met by a concrete four-object file, and the
   conclusion is the list of its header offsets *)
Example c08_scan_example :
  ev_objs (rc_scan_events c08_twin) = [(1%Z, 0%Z, 9); (2%Z, 0%Z, 67); (3%Z, 0%Z, 126); (4%Z, 0%Z, 173)].
Proof.
  unfold c08_twin. rewrite scan_finds_all.
  - vm_compute. reflexivity.
  - vm_compute. reflexivity.
  - discriminate.
  - repeat (constructor; [vm_compute; reflexivity|]). constructor.
  - vm_compute. reflexivity.
Qed.
(* a body with a look-alike line, `(abcdefghijkl` newline `7 0 obj` newline `)` ..., is rejected by the hypothesis *)
Example c08_lookalike_not_quiet :
  rs_quiet [40; 97; 98; 99; 100; 101; 102; 103; 104; 105; 106; 107; 108; 10; 55; 32; 48; 32; 111; 98; 106; 10; 41; 10; 101; 110; 100; 111; 98; 106; 10] = false.
Proof. vm_compute. reflexivity. Qed.
(* non-vacuity of recon_finds_current_catalog: every hypothesis is met by the two-catalog file c08c_hi (no xref
   section, no trailer; the update's catalog 4 0 has the highest id), and the conclusion names that catalog *)
Example c08_catalog_example :
  r_root (rc_reconstruct 80 c08c_hi (rc_len c08c_hi) [] None) = Some (4, 0)%Z.
Proof.
  unfold c08c_hi. apply recon_finds_current_catalog with (off := 164).
  - vm_compute. reflexivity.
  - discriminate.
  - repeat (constructor; [vm_compute; reflexivity|]). constructor.
  - vm_compute. reflexivity.
  - vm_compute. reflexivity.
  - vm_compute. reflexivity.
  - vm_compute. reflexivity.
  - vm_compute. reflexivity.
  - vm_compute. reflexivity.
  - intros k a _ Hd Hc. apply last_def_in in Hd. destruct Hd as [Hd|Hd]; [discriminate|].
    destruct k as [k1 k2].
    change (rs_offsets (N.of_nat (length c08_pre)) c08c_hi_objs)
      with [(1%Z, 0%Z, 9); (2%Z, 0%Z, 58); (3%Z, 0%Z, 117); (4%Z, 0%Z, 164)] in Hd.
    simpl in Hd. destruct Hd as [E|[E|[E|[E|[]]]]]; injection E as <- <- <-.
    + right. reflexivity.
    + vm_compute in Hc. discriminate.
    + vm_compute in Hc. discriminate.
    + left. reflexivity.
Qed.
(* a job whose damaged file sorts before an intact one among the --pages files, named in either order: status 3 *)
Example c08_job_example :
  let d := mkRjFile [97] false true in let i := mkRjFile [122] false false in
  rj_exit (mkRjJob None [d; i] [] [] None) = 3 /\ rj_exit (mkRjJob None [i; d] [] [] None) = 3 /\
  rj_files (mkRjJob None [i; d] [] [] None) = [d; i].
Proof. vm_compute. repeat split. Qed.
(* non-vacuity of xref_stream_short_data_reconstructs: every hypothesis is met by the five-object file whose
   cross-reference stream lost its last entry (the stream object itself satisfies no_lookalike), and the conclusion
   puts object 4 0 - whose entry is still there - and 5 0 - whose entry was cut off - into the table *)
Example c08_xref_stream_example :
  forall o, In o (c08x_body c08x_short_xs) ->
  exists off, rc_lookup (rs_id o) (r_table (rc_view true (c08x_file c08x_short_xs))) = Some off /\
              rs_last_def (rs_id o) (rs_offsets (N.of_nat (length c08x_pre)) (c08x_body c08x_short_xs)) None = Some off.
Proof.
  intros o Hin.
  assert (Hv : rs_valid_id (Z.min (rc_int_max - 1) (Z.of_N (rc_len (c08x_file c08x_short_xs) / 3))) (rs_id o) = true).
  { simpl in Hin. destruct Hin as [<-|[<-|[<-|[<-|[<-|[]]]]]]; vm_compute; reflexivity. }
  destruct (xref_stream_short_data_reconstructs c08x_pre (c08x_body c08x_short_xs) c08x_tail o) as [_ [_ H]].
  - vm_compute. reflexivity.
  - repeat (constructor; [vm_compute; reflexivity|]). constructor.
  - vm_compute. reflexivity.
  - vm_compute. reflexivity.
  - vm_compute. reflexivity.
  - unfold xs_short_at. do 7 eexists. split; [vm_compute; reflexivity|].
    split; [vm_compute; reflexivity|]. split; [vm_compute; reflexivity|]. split; [vm_compute; reflexivity|].
    vm_compute. reflexivity.
  - exact Hin.
  - exact Hv.
  - exact H.
Qed.
