# C16 extension: (1) idempotence of content normalisation - streams aimed at the case splits of ContentNormalizer::handleToken
# and of Pl_QPDFTokenizer::finish through the real normaliser twice and the extracted model twice, with the hypotheses of
# ci_normalize_idempotent / ci_normalize_idempotent_images_partial evaluated on every case; (2) which streams QPDFWriter
# normalises - documents in which one stream object plays several roles (page content, element of a direct / indirect
# /Contents array, form XObject, appearance stream, catalog /Metadata) or only looks like content, through the real CLI
# against the extracted model Struct/ContentWriter.v (ci_write_all) and an independent judgement by construction.
import os, re, zlib
import common, pdfgen, filecheck
from common import hexs
from pdfgen import D, N, Name, Ref, Str, Stream

EOLS = [b"\r", b"\n", b"\r\n", b"\r\r\n", b"\n\r", b" \r", b"\r ", b"\t\r\n ", b"\x0c\r", b"\x00\r\n"]
WS_AFTER_ID = [b" ", b"\r", b"\n", b"\t", b"\x0c", b"\x00"]


def idem_string(rng):
    body = rng.choice([b"a\rb", b"a\nb", b"a\r\nb", b"a\\\rb", b"a\\\nb", b"a\\\r\nb", b"(x\r)y", b"\\)\r", b"\r", b"\n\n", b"a b", b"", b"\\015",
                       b"\\n", b"%c\r", b"a\x01\x02\x03\x04\x05b", b"\x80\x81\x82\x83", b"\\(", b"a\tb", b"\x7f"])
    if rng.random() < 0.25:
        hx = body.hex().encode()
        k = rng.randrange(len(hx) + 1)
        return b"<" + hx[:k] + rng.choice([b"", b"\r", b"\n", b"\r\n", b" "]) + hx[k:] + b">"
    return b"(" + body + b")"


def idem_name(rng):
    return b"/" + rng.choice([b"A", b"A#42", b"A#20B", b"#23", b"A#0d", b"A#0a", b"a.b", b"A#7e", b"", b"A#2fB", b"A#25", b"A#28"])


def idem_token(rng):
    r = rng.random()
    if r < 0.3:
        return idem_string(rng)
    if r < 0.5:
        return idem_name(rng)
    if r < 0.6:
        return b"%" + rng.choice([b"", b"c", b"(", b" EI ", b"<", b"/N"])      # a comment must be followed by an EOL: see idem_sep
    return rng.choice([b"1", b"-.5", b"+1.", b"Tj", b"q", b"Q", b"[", b"]", b"<<", b">>", b"true", b"null", b"d0", b"d1", b"T*", b"'", b"\"", b"re"])


def idem_sep(rng, after):
    if after.startswith(b"%"):
        return rng.choice([b"\r", b"\n", b"\r\n"]) + (rng.choice(EOLS) if rng.random() < 0.3 else b"")
    if rng.random() < 0.5:
        return rng.choice(EOLS)
    return rng.choice([b" ", b"  ", b"\t", b"\x0c", b"\x00"])


def idem_soup(rng, n):
    out = bytearray()
    for _ in range(n):
        t = idem_token(rng)
        out += t + idem_sep(rng, t)
    return bytes(out)


def idem_image(rng):
    data = rng.choice([b"ab", b"\nab", b"\rab", b"a%b", b"a(b", b"a EI%", b"% ", b"( ", b"a\rb", b"a<b", b"/N#", b"EIEI", b"\x00\x01\x02"])
    return (b"BI /W 1 /H 1" + rng.choice([b" ", b"\r", b"\r\n"]) + b"ID" + rng.choice(WS_AFTER_ID) + data + rng.choice([b" ", b"\n", b"\r", b"\t"]) + b"EI"
            + rng.choice([b" ", b"\r", b"\n", b"\r\n", b"\t"]))


def gen_idem_streams(chk):
    rng = chk.rng
    cases = []
    # every end-of-line convention between, before and after every kind of token
    for e in EOLS:
        for t in [b"(a\rb)", b"(ab)", b"<41\r42>", b"/A#42", b"/A", b"%c", b"Tj", b"1"]:
            sep = e if not t.startswith(b"%") or e[:1] in (b"\r", b"\n") else b"\r" + e
            cases.append(("eol", e + t + sep + b"Tj" + e))
            cases.append(("eol", t + sep))
    # the byte after ID, the first data byte, the number of tokens behind the image (findEI's look-ahead bound is 10)
    for ws in WS_AFTER_ID:
        for first in [b"", b"\n", b"\r", b" "]:
            for k in (0, 1, 9, 10, 11):
                tail = b"".join(rng.choice([b"(a\rb) Tj\r", b"/A#42 gs ", b"1 ", b"q\r\n"]) for _ in range(k))
                cases.append(("img", b"BI /W 1 ID" + ws + first + b"ab EI " + tail))
    # image data that open a comment / a string / a hexadecimal string for the look-ahead, with re-spelt tokens behind
    for data in [b"a EI % ", b"%", b"a EI (", b"(", b"a EI <", b"a EI /N", b"a EI %\rb"]:
        for tail in [b"(a\rb) Tj\r", b"(a\n%) Tj\n", b"(a\rb) Tj BI /W 1 ID x EI Q\r", b"/A#42 gs (\r) Tj " * 6, b"(a\r)) Tj"]:
            cases.append(("img-align", b"BI /W 1 ID " + data + b" EI " + tail))
            cases.append(("img-align", b"BI /W 1 ID x EI BI /W 1 ID " + data + b" EI " + tail))
    # finding C16-F8: a word mixing letters and digits behind an image makes findEI fall back to the last "EI" it saw; a string or
    # name whose re-spelling contains "EI" moves that fallback in the second pass
    for w in [b"a1", b"T1", b"x_", b"a\x80"]:
        for s_ in [b"<204549203c34313e20>", b"(\\105I <41> )", b"( \\105\\111 <41>)", b"/#45I <41>", b"<4549>"]:
            cases.append(("ei-respelt", b"BI ID a EI " + w + b" " + s_ + b" Tj"))
            cases.append(("ei-respelt", b"BI /W 1 ID a EI q " + w + b" " + s_ + b" Tj\r"))
        cases.append(("ei-respelt", b"BI ID a EI BI ID %x EI (p\n%q) " + w + b" <204549203c34313e20> Tj"))
    n = 1800 if chk.tier == "quick" else 20000
    for i in range(n):
        k = rng.randint(1, 14)
        if i % 3 == 0:
            cases.append(("soup-img", idem_soup(rng, rng.randint(0, 4)) + idem_image(rng) + idem_soup(rng, k)
                          + (idem_image(rng) + idem_soup(rng, rng.randint(0, 12)) if rng.random() < 0.4 else b"")))
        else:
            cases.append(("soup", idem_soup(rng, k)))
    seen = set()
    res = []
    for lab, b in cases:
        if b not in seen:
            seen.add(b)
            res.append((lab, b))
    return res


def respelt_ei(inp, out1):
    """class of finding C16-F8: the first pass wrote an "EI" look-alike the input did not have (a re-spelt string / name), behind an inline image
    that is followed by a word findEI's look-ahead calls implausible (letters mixed with digits / other bytes; d0 and d1 excepted)"""
    if out1.count(b"EI") <= inp.count(b"EI"):
        return False
    for w in re.split(rb"[\x00\t\n\x0c\r ()<>\[\]{}/%]+", inp):
        if w in (b"d0", b"d1") or not w:
            continue
        alpha = any(chr(c).isalpha() or c == 42 for c in w if c < 128)
        other = any(not (chr(c).isalpha() or c == 42) for c in w if c < 128) or any(c >= 128 for c in w)
        if alpha and other or any(c >= 128 or c < 32 for c in w):
            return True
    return False


def part_idem(chk, drv, runner, norm_cases=None):
    cases = gen_idem_streams(chk)
    # the streams of part `normalize` that contain an inline image (EI look-alikes of every class in the data, abbreviated and full keys):
    # the side condition of ci_normalize_idempotent_images_partial is evaluated on them too
    if norm_cases:
        have = {b for _, b in cases}
        pool = [b for _, b, _ in norm_cases if b"ID" in b and b not in have]
        pool = sorted(set(pool))
        chk.rng.shuffle(pool)
        cases += [("normalize-img", b) for b in pool[:(1500 if chk.tier == "quick" else 20000)]]
    hx = [hexs(b) for _, b in cases]
    first = lambda outs: [(o.split(" ")[0] if len(o.split(" ")) == 3 else None) for o in outs]
    i1 = common.run_lines(drv, ["c16norm " + h for h in hx], shards=4)
    m1 = common.run_lines(runner, ["c16norm " + h for h in hx], shards=4)
    o1 = first(i1)
    i2 = common.run_lines(drv, ["c16norm " + (o if o is not None else "-") for o in o1], shards=4)
    m2 = common.run_lines(runner, ["c16norm " + (o if o is not None else "-") for o in first(m1)], shards=4)
    i3 = common.run_lines(drv, ["c16toks " + (o if o is not None else "-") for o in o1], shards=4)
    sem_in = common.run_lines(runner, ["c16sem " + h for h in hx], shards=4)
    clean_in = common.run_lines(runner, ["c16clean " + h for h in hx], shards=4)
    clean_out = common.run_lines(runner, ["c16clean " + (o if o is not None else "-") for o in first(m1)], shards=4)
    stats = {"inside_ci_normalize_idempotent": 0, "inside_images_partial": 0, "clean_input_side_condition_fails": 0, "damaged": 0, "changed_by_first_pass": 0}
    nontriv = set()
    tie = []
    for i, (lab, b) in enumerate(cases):
        if o1[i] is None:
            chk.violation({"kind": "property-fails-on-implementation", "part": "idem", "why": "normaliser crashed / threw", "input_hex": hx[i],
                           "implementation": i1[i], "replay": "c16norm " + hx[i]})
            continue
        valid = sem_in[i] != "invalid"
        has_img = valid and any(t.startswith("img:") for t in sem_in[i].split(" "))
        in_noimg = valid and not has_img and b"\x0b" not in b
        in_img = valid and has_img and clean_in[i] == "1" and clean_out[i] == "1"
        if valid and has_img and clean_in[i] == "1" and clean_out[i] != "1":
            stats["clean_input_side_condition_fails"] += 1
            stats.setdefault("side_condition_example", repr(b))
        if not valid:
            stats["damaged"] += 1
        stats["inside_ci_normalize_idempotent"] += in_noimg
        stats["inside_images_partial"] += in_img
        if o1[i] != hx[i] and not (o1[i] == "-" and hx[i] == ""):
            stats["changed_by_first_pass"] += 1
            nontriv.add(b)
        impl_idem = i2[i].split(" ")[0] == o1[i]
        model_idem = m2[i].split(" ")[0] == m1[i].split(" ")[0]
        if (in_noimg or in_img) and not model_idem:
            chk.violation({"kind": "proof-obligation-no-longer-checks", "property": "C16", "theorem": "ci_normalize_idempotent" + ("" if in_noimg else "_images_partial"),
                           "why": "the extracted model contradicts a proved theorem (extraction / handler defect)", "input_hex": hx[i], "model": m1[i], "model_again": m2[i]},
                          no_input=True)
        elif valid and not impl_idem:
            # a clean content stream whose normalised form is not a fixpoint of the real normaliser
            chk.violation({"kind": "property-fails-on-implementation", "part": "idem", "label": lab, "input": repr(b), "input_hex": hx[i],
                           "why": "normalisation is not idempotent on content that tokenises cleanly: the second pass changes the first pass's output"
                                  + (" (inside the hypotheses of ci_normalize_idempotent: the model cannot do this)" if in_noimg or in_img else ""),
                           "first_pass": i1[i], "second_pass": i2[i], "model": m1[i], "replay": "c16norm " + hx[i]},
                          signature="C16:idem:" + ("respelt-ei" if respelt_ei(b, bytes.fromhex(o1[i]) if o1[i] != "-" else b"") else "clean"))
        elif not valid and not impl_idem:
            stats["damaged_not_idempotent"] = stats.get("damaged_not_idempotent", 0) + 1
            stats.setdefault("damaged_not_idempotent_example", repr(b))
        if i1[i] != m1[i] or i2[i] != m2[i]:
            tie.append(i)
    if tie:
        i = tie[0]
        chk.violation({"kind": "correspondence-broken", "correspondence": "corr:C16:idem", "differing_cases": len(tie), "label": cases[i][0],
                       "input": repr(cases[i][1]), "input_hex": hx[i], "implementation": i1[i], "model": m1[i], "implementation_again": i2[i],
                       "model_again": m2[i], "replay": "c16norm " + hx[i],
                       "note": "model and implementation differ on the first or the second pass but the second pass of the implementation changes nothing"},
                      no_input=True)
    chk.count("idem", len(cases), nontriv, samples=[{"input": repr(cases[i][1]), "first": i1[i][:160], "second": i2[i][:160]} for i in (0, len(cases) // 2, len(cases) - 1)])
    chk.cov["parts"]["idem"].update(stats)
    dist = {}
    for lab, _ in cases:
        dist[lab] = dist.get(lab, 0) + 1
    chk.cov["parts"]["idem"]["distribution"] = dist


# ---------------------------------------------------------------------------------------------------------------------
# (2) which streams the writer normalises

def w_data(k):
    """content-like data that normalisation visibly changes, carrying its own number"""
    return b"q /Mk%d gs (s%d\rx) Tj\r/N#41 1 Tf Q\r" % (k, k)


CONTENT_SHAPES = ["single", "direct", "indirect", "nested-direct", "nested-indirect", "absent", "nonstream", "mixed"]
W_CONFIGS = [
    ("qdf", ["--qdf"], (True, None), "0g"),
    ("norm", ["--normalize-content=y", "--compress-streams=n"], (False, True), "0g"),
    ("norm-none", ["--normalize-content=y", "--compress-streams=n", "--decode-level=none"], (False, True), "0n"),
    ("norm-compress", ["--normalize-content=y"], (False, True), "1g"),
    ("qdf-nonorm", ["--qdf", "--normalize-content=n"], (True, False), "0g"),
    ("plain", ["--compress-streams=n"], (False, None), "0g"),
    ("plain-none", ["--compress-streams=n", "--decode-level=none"], (False, None), "0n"),
]


def gen_writer_doc(rng, idx):
    """returns (file bytes, pages string, objects string, {marker k: (object number, root_metadata, roles)}, judgement {k: is page content})"""
    d = pdfgen.Doc()
    cat = d.add(None)
    pgs = d.add(None)
    nstreams = rng.randint(3, 6)
    sdict = {}
    roles = {k: set() for k in range(1, nstreams + 1)}
    meta_k = rng.randint(1, nstreams) if idx % 3 == 0 else None
    meta_typed = meta_k is not None and idx % 2 == 0
    srefs = {}
    enc = {}
    for k in range(1, nstreams + 1):
        dd = {}
        if k == meta_k and meta_typed:
            dd = D(Type=N("Metadata"), Subtype=N("XML"))
        elif rng.random() < 0.4:
            dd = D(Type=N("XObject"), Subtype=N("Form"), BBox=[0, 0, 10, 10])
        # how the data are stored: as they are, Flate-compressed (will_filter_stream's "already compressed" exception), or behind a filter
        # qpdf cannot decode (filterable() false: the stream is written unchanged even when it is page content)
        enc[k] = rng.choice(["plain", "plain", "flate", "undecodable"])
        stored = w_data(k)
        if enc[k] == "flate":
            dd[b"Filter"] = N("FlateDecode")
            stored = zlib.compress(stored)
        elif enc[k] == "undecodable":
            dd[b"Filter"] = N("JPXDecode")
        srefs[k] = d.add(Stream(dd, stored))
    other = d.add(D(Note=Str(b"not a stream")))
    objs = {}       # object number -> model syntax of arrays / non-streams reachable from /Contents
    pages_syntax = []
    page_refs = []
    content = set()
    npages = rng.randint(1, 3)
    for p in range(npages):
        shape = CONTENT_SHAPES[(idx + p) % len(CONTENT_SHAPES)] if p == 0 else rng.choice(CONTENT_SHAPES)
        ks = [rng.randint(1, nstreams) for _ in range(rng.randint(1, 3))]
        pg = D(Type=N("Page"), Parent=pgs, MediaBox=[0, 0, 100, 100])
        if shape == "single":
            pg[b"Contents"] = srefs[ks[0]]
            pages_syntax.append("r%d" % srefs[ks[0]].n)
            content.add(ks[0])
        elif shape == "direct":
            pg[b"Contents"] = [srefs[k] for k in ks]
            pages_syntax.append("a(" + ".".join("r%d" % srefs[k].n for k in ks) + ")")
            content.update(ks)
        elif shape == "indirect":
            a = d.add([srefs[k] for k in ks])
            objs[a.n] = "a(" + ".".join("r%d" % srefs[k].n for k in ks) + ")"
            pg[b"Contents"] = a
            pages_syntax.append("r%d" % a.n)
            content.update(ks)
        elif shape == "nested-direct":
            # the inner array is a direct object: nothing inside it is registered (looks like content, is not per Table 30: an array element must be a stream)
            pg[b"Contents"] = [[srefs[k] for k in ks]]
            pages_syntax.append("a(a(" + ".".join("r%d" % srefs[k].n for k in ks) + "))")
        elif shape == "nested-indirect":
            a = d.add([srefs[k] for k in ks])
            objs[a.n] = "a(" + ".".join("r%d" % srefs[k].n for k in ks) + ")"
            pg[b"Contents"] = [a, srefs[ks[0]]]
            pages_syntax.append("a(r%d.r%d)" % (a.n, srefs[ks[0]].n))
            content.add(ks[0])
        elif shape == "absent":
            pages_syntax.append("-")
        elif shape == "nonstream":
            pg[b"Contents"] = other
            objs[other.n] = "d"
            pages_syntax.append("r%d" % other.n)
        else:   # mixed: streams, a null, a number, a reference to a dictionary
            pg[b"Contents"] = [srefs[ks[0]], None, 7, other] + [srefs[k] for k in ks[1:]]
            objs[other.n] = "d"
            pages_syntax.append("a(" + ".".join(["r%d" % srefs[ks[0]].n, "n", "o", "r%d" % other.n] + ["r%d" % srefs[k].n for k in ks[1:]]) + ")")
            content.update(ks)
        # other uses of the same objects: form XObjects, an appearance stream, a /Contents key in a dictionary that is not a page
        xo = {}
        for j in range(rng.randint(0, 2)):
            k = rng.randint(1, nstreams)
            xo[b"Fm%d" % j] = srefs[k]
            roles[k].add("xobject")
        pg[b"Resources"] = {b"XObject": xo}
        if rng.random() < 0.5:
            k = rng.randint(1, nstreams)
            roles[k].add("appearance")
            pg[b"Annots"] = [D(Type=N("Annot"), Subtype=N("Stamp"), Rect=[0, 0, 10, 10], AP=D(N=srefs[k]))]
        if rng.random() < 0.4:
            k = rng.randint(1, nstreams)
            roles[k].add("contents-of-a-non-page")
            pg[b"PieceInfo"] = D(X=D(Type=N("Page"), Contents=srefs[k], Private=[srefs[k]]))
        page_refs.append(d.add(pg))
    for k in range(1, nstreams + 1):
        if not roles[k] and k not in content:
            roles[k].add("catalog-extra")
    extra = [srefs[k] for k in range(1, nstreams + 1)]
    d.objects[pgs.n] = D(Type=N("Pages"), Count=len(page_refs), Kids=page_refs)
    c = D(Type=N("Catalog"), Pages=pgs, Keep=extra)
    if meta_k is not None:
        c[b"Metadata"] = srefs[meta_k]
        roles[meta_k].add("metadata" if meta_typed else "metadata-untyped")
    d.objects[cat.n] = c
    d.trailer = {b"Root": cat}
    for k in range(1, nstreams + 1):
        sdict[k] = (srefs[k].n, k == meta_k and meta_typed, sorted(roles[k]), enc[k], d.objects[srefs[k].n].data)
    stobjs = ["%d=s%s" % (srefs[k].n, hexs(w_data(k))) for k in range(1, nstreams + 1)] + ["%d=%s" % (n, s) for n, s in sorted(objs.items())]
    return pdfgen.write_classic(d)[0], "/".join(pages_syntax), ",".join(stobjs), sdict, {k: (k in content) for k in range(1, nstreams + 1)}


def out_streams(path):
    """{marker k: decoded data} of every stream of an output file"""
    r = filecheck.strict_read([path])[0]
    if not r.get("ok"):
        return None
    sd = filecheck.StrictDoc(r, path)
    res = {}
    for v in sd.objs.values():
        if isinstance(v, Stream):
            data = v.data
            f = v.d.get(b"Filter")
            if f == Name(b"FlateDecode") or f == [Name(b"FlateDecode")]:
                try:
                    data = zlib.decompress(data)
                except zlib.error:
                    continue
            m = re.search(rb"/Mk(\d+) gs", data)
            if m:
                res.setdefault(int(m.group(1)), []).append(data)
    return res


def part_writer(chk, drv, runner):
    rng = chk.rng
    wd = common.workdir("C16w")
    ndocs = 56 if chk.tier == "quick" else 300
    docs = []
    for i in range(ndocs):
        data, pages, objs, sdict, judge = gen_writer_doc(rng, i)
        path = os.path.join(wd, "w%d.pdf" % i)
        open(path, "wb").write(data)
        docs.append((path, pages, objs, sdict, judge))
    jobs = []
    for i, doc in enumerate(docs):
        cfgs = W_CONFIGS if chk.tier != "quick" else [W_CONFIGS[i % len(W_CONFIGS)], W_CONFIGS[(i + 3) % len(W_CONFIGS)], W_CONFIGS[(i + 5) % len(W_CONFIGS)]]
        for c in cfgs:
            jobs.append((i, c))

    def run_job(j):
        i, (name, args, _, _) = j
        out = os.path.join(wd, "w%d-%s.pdf" % (i, name))
        rc, so, se = common.run_qpdf(["--static-id"] + args + [docs[i][0], out], timeout=60)
        return rc, se, out
    results = common.par_map(run_job, jobs, workers=4)
    # the normalised form of w_data by the real normaliser (in process), the expectation for "normalised"
    eff = common.run_lines(runner, ["cinorm %d %s" % (int(q), "-" if a is None else str(int(a))) for _, _, (q, a), _ in W_CONFIGS])
    eff = {W_CONFIGS[i][0]: e == "1" for i, e in enumerate(eff)}
    lines = []
    for (i, (name, args, qa, cl)) in jobs:
        path, pages, objs, sdict, judge = docs[i]
        cfg = ("1" if eff[name] else "0") + cl[0] + "0" + cl[1] + "00"
        ss = []
        for k, (num, rootmd, _, enc, stored) in sorted(sdict.items()):
            h = hexs(w_data(k)) if enc != "undecodable" else "X"
            ss.append("%d=10%s%s0:%s:%s:%s:%s" % (num, "1" if enc == "flate" else "0", "1" if rootmd else "0", hexs(stored), h, h, h))
        lines.append("ciwrite %s %s %s %s" % (cfg, pages, objs, ",".join(ss)))
    model = common.run_lines(runner, lines, shards=4)
    stats = {"documents": len(docs), "jobs": len(jobs), "streams_judged": 0, "normalised": 0, "not_page_content": 0, "page_content_and_other_role": 0,
             "lookalike_not_registered": 0, "root_metadata_and_page_content": 0, "roles": {}, "storage": {}}
    nontriv = set()
    tie = []
    for ji, (i, (name, args, qa, cl)) in enumerate(jobs):
        path, pages, objs, sdict, judge = docs[i]
        rc, se, out = results[ji]
        rep = {"part": "writer", "argv": ["qpdf", "--static-id"] + args + [path, out], "config": name, "pages": pages, "objects": objs[:400]}
        if rc != 0:
            chk.violation(dict(rep, kind="property-fails-on-implementation", why="qpdf exit %d / warnings on a valid document: %s" % (rc, se.decode("latin-1")[-300:])),
                          signature="C16:writer:exit")
            continue
        got = out_streams(out)
        if got is None:
            chk.violation(dict(rep, kind="property-fails-on-implementation", why="output is not strictly readable"), signature="C16:writer:strict")
            continue
        mod = {}
        for item in model[ji].split(","):
            num, v = item.split("=")
            dat, nrm, nw = v.split(".")
            mod[int(num)] = (bytes.fromhex(dat) if dat != "-" else b"", nrm == "1")
        for k, (num, rootmd, rl, enc, stored) in sorted(sdict.items()):
            stats["streams_judged"] += 1
            for r_ in rl:
                stats["roles"][r_] = stats["roles"].get(r_, 0) + 1
            datas = got.get(k)
            orig = w_data(k)
            if not datas or len(datas) != 1:
                chk.violation(dict(rep, kind="property-fails-on-implementation", why="stream %d (object %d) is %s in the output" % (k, num, "missing" if not datas else "duplicated")),
                              signature="C16:writer:lost")
                continue
            data = datas[0]
            changed = data != orig
            # independent judgement (by construction, ISO 32000-1 Table 30): only page content may be re-spelt, and only when normalisation is on
            may = judge[k] and eff[name]
            stats["storage"][enc] = stats["storage"].get(enc, 0) + 1
            if judge[k] and rl:
                stats["page_content_and_other_role"] += 1
            if judge[k] and rootmd:
                stats["root_metadata_and_page_content"] += 1
            if not judge[k]:
                stats["not_page_content"] += 1
                if "contents-of-a-non-page" in rl or re.search(r"r%d(?!\d)" % num, pages):
                    stats["lookalike_not_registered"] += 1
            if changed and not may:
                chk.violation(dict(rep, kind="property-fails-on-implementation", stream_marker=k, object=num, roles=rl,
                                   why="a stream that is not page content was rewritten" if not judge[k] else "page content was rewritten although content normalisation is off",
                                   input_data=repr(orig), output_data=repr(data)), signature="C16:writer:non-content-normalised")
                continue
            if changed:
                stats["normalised"] += 1
                nontriv.add((i, name, k))
            md = mod.get(num)
            if md is not None and enc == "flate" and md[0] == stored:
                md = (orig, md[1])          # written as stored: still Flate-compressed, read back through the decoder
            if md != (data, changed):
                tie.append((ji, k, num, data, mod.get(num)))
    if tie:
        ji, k, num, data, m = tie[0]
        i, (name, args, qa, cl) = jobs[ji]
        chk.violation({"kind": "correspondence-broken", "correspondence": "corr:C16:writer", "differing_cases": len(tie), "argv": ["qpdf", "--static-id"] + args + [docs[i][0], results[ji][2]],
                       "config": name, "pages": docs[i][1], "objects": docs[i][2][:400], "stream_marker": k, "object": num, "implementation": repr(data),
                       "model": repr(m), "replay": lines[ji][:1500],
                       "note": "the extracted writer model (ci_write_all) and qpdf disagree on what is written for a stream, but no stream outside page content was rewritten"},
                      no_input=True)
    chk.count("writer", stats["streams_judged"], nontriv, samples=[{"pages": docs[i][1], "objects": docs[i][2][:200], "roles": {k: v[2] + [v[3]] for k, v in docs[i][3].items()}} for i in (0, len(docs) - 1)])
    chk.cov["parts"]["writer"].update(stats)
    part_writer_api(chk, drv, runner, docs, wd)


API_CONFIGS = ["1-0g", "010g", "011g", "010n", "100g", "0-0g", "1-1g", "010a"]     # qdf, normalize asked (-/0/1), compress, decode level


def part_writer_api(chk, drv, runner, docs, wd):
    """the same documents through QPDFWriter's API (harness/drv_contentw.cc) after setFilterOnWrite(false) / replaceStreamData on some
    streams: the attributes of will_filter_stream that the command line never sets"""
    rng = chk.rng
    jobs = []
    for i, (path, pages, objs, sdict, judge) in enumerate(docs):
        for c in ([API_CONFIGS[i % len(API_CONFIGS)], API_CONFIGS[(i + 3) % len(API_CONFIGS)]] if chk.tier == "quick" else API_CONFIGS):
            ops = {}
            for k in sorted(sdict):
                r = rng.random()
                ops[k] = "f" if r < 0.3 else ("m" if r < 0.55 else "")
            jobs.append((i, c, ops))
    lines_d, lines_m, outs = [], [], []
    eff_q = common.run_lines(runner, ["cinorm %s %s" % (c[0], c[1]) for c in API_CONFIGS])
    eff = {c: e == "1" for c, e in zip(API_CONFIGS, eff_q)}
    for ji, (i, c, ops) in enumerate(jobs):
        path, pages, objs, sdict, judge = docs[i]
        out = os.path.join(wd, "api%d-%d.pdf" % (i, ji))
        outs.append(out)
        opl = []
        ss = []
        for k, (num, rootmd, _, enc, stored) in sorted(sdict.items()):
            if ops[k] == "f":
                opl.append("%d:f" % num)
            elif ops[k] == "m":
                opl.append("%d:m%s" % (num, hexs(w_data(k))))
            if ops[k] == "m":
                h = hexs(w_data(k))
                ss.append("%d=110%s0:%s:%s:%s:%s" % (num, "1" if rootmd else "0", h, h, h, h))
            else:
                h = hexs(w_data(k)) if enc != "undecodable" else "X"
                ss.append("%d=%s0%s%s0:%s:%s:%s:%s" % (num, "0" if ops[k] == "f" else "1", "1" if enc == "flate" else "0", "1" if rootmd else "0", hexs(stored), h, h, h))
        lines_d.append("ciwriteapi %s %s %s %s" % (path, out, c, ",".join(opl) or "-"))
        lines_m.append("ciwrite %s%s0%s00 %s %s %s" % ("1" if eff[c] else "0", c[2], c[3], pages, objs, ",".join(ss)))
    impl = common.run_lines(drv, lines_d, shards=4)
    model = common.run_lines(runner, lines_m, shards=4)
    stats = {"jobs": len(jobs), "streams_judged": 0, "filter_on_write_off": 0, "filter_on_write_off_page_content": 0, "data_replaced": 0, "normalised": 0}
    nontriv = set()
    tie = []
    for ji, (i, c, ops) in enumerate(jobs):
        path, pages, objs, sdict, judge = docs[i]
        rep = {"part": "writer-api", "replay": lines_d[ji][:1500], "config": c, "pages": pages, "objects": objs[:400]}
        if not impl[ji].startswith("ok"):
            chk.violation(dict(rep, kind="property-fails-on-implementation", why="QPDFWriter threw on a valid document: " + impl[ji][:300]), signature="C16:writer-api:exc")
            continue
        got = out_streams(outs[ji])
        if got is None:
            chk.violation(dict(rep, kind="property-fails-on-implementation", why="output is not strictly readable"), signature="C16:writer-api:strict")
            continue
        mod = {}
        for item in model[ji].split(","):
            num, v = item.split("=")
            dat, nrm, nw = v.split(".")
            mod[int(num)] = (bytes.fromhex(dat) if dat != "-" else b"", nrm == "1")
        for k, (num, rootmd, rl, enc, stored) in sorted(sdict.items()):
            stats["streams_judged"] += 1
            stats["filter_on_write_off"] += ops[k] == "f"
            stats["filter_on_write_off_page_content"] += ops[k] == "f" and judge[k]
            stats["data_replaced"] += ops[k] == "m"
            datas = got.get(k)
            orig = w_data(k)
            if not datas or len(datas) != 1:
                chk.violation(dict(rep, kind="property-fails-on-implementation", why="stream %d (object %d) is %s in the output" % (k, num, "missing" if not datas else "duplicated")),
                              signature="C16:writer-api:lost")
                continue
            data = datas[0]
            changed = data != orig
            # independent judgement: only page content, only with normalisation on, and never a stream whose filtering was switched off
            # (QPDFObjectHandle.hh, setFilterOnWrite: "the stream data will be written ... without any filtering")
            may = judge[k] and eff[c] and ops[k] != "f"
            if changed and not may:
                chk.violation(dict(rep, kind="property-fails-on-implementation", stream_marker=k, object=num, roles=rl, op=ops[k],
                                   why=("a stream that is not page content was rewritten" if not judge[k] else
                                        "page content was rewritten although " + ("filtering on write was switched off for it" if ops[k] == "f" else "content normalisation is off")),
                                   input_data=repr(orig), output_data=repr(data)), signature="C16:writer:non-content-normalised")
                continue
            if changed:
                stats["normalised"] += 1
                nontriv.add((i, c, k, ops[k]))
            md = mod.get(num)
            if md is not None and enc == "flate" and ops[k] != "m" and md[0] == stored:
                md = (orig, md[1])
            if md != (data, changed):
                tie.append((ji, k, num, data, mod.get(num)))
    if tie:
        ji, k, num, data, m = tie[0]
        chk.violation({"kind": "correspondence-broken", "correspondence": "corr:C16:writer-api", "differing_cases": len(tie), "replay": lines_d[ji][:1500],
                       "model_line": lines_m[ji][:1500], "stream_marker": k, "object": num, "implementation": repr(data), "model": repr(m),
                       "note": "the extracted writer model (ci_write_all) and QPDFWriter disagree on what is written for a stream after setFilterOnWrite / replaceStreamData, "
                               "but no stream outside page content was rewritten"}, no_input=True)
    chk.count("writer-api", stats["streams_judged"], nontriv, samples=[{"driver": lines_d[j][:300]} for j in (0, len(jobs) - 1)])
    chk.cov["parts"]["writer-api"].update(stats)


def replay_writer(chk, rep):
    """re-run the job of a writer / writer-api report and show what was written for every marked stream"""
    drv = os.path.join(common.DRV, "drv")
    out = None
    if rep.get("argv"):
        argv = rep["argv"][1:]
        rc, so, se = common.run_qpdf(argv, timeout=60)
        print("qpdf", " ".join(argv), "-> exit", rc, se.decode("latin-1")[-400:])
        out = argv[-1]
    elif isinstance(rep.get("replay"), str) and rep["replay"].startswith("ciwriteapi"):
        print(common.run_lines(drv, [rep["replay"]])[0])
        out = rep["replay"].split(" ")[2]
    if out and os.path.exists(out):
        got = out_streams(out) or {}
        bad = 0
        for k, datas in sorted(got.items()):
            for dta in datas:
                same = dta == w_data(k)
                print("stream %d: %s %r" % (k, "unchanged" if same else "REWRITTEN", dta))
                bad += (not same) and k == rep.get("stream_marker")
        return 1 if bad else 0
    return 0
