# C14 - qpdf JSON is always valid JSON and round-trips the whole document.
# Proof: Props/Properties_C14.v (models coq/Json/JsonEmit.v, specification coq/Json/JsonSpec.v).
# Tie: in-process (drv_json.cc: newReal/newString/newName/dictionaries -> writeJSON, createFromJSON) against the
# extracted model on the same cases; the extracted SPECIFICATION (json_valid, utf8_valid, text_of) and Python's
# strict json decide the property on the implementation's side. File level: the real CLI (--json-output, --json,
# --json-input, --update-from-json) over generated documents and corpus files (c14_cli.py).
import json, os, re
import common
from common import hexs

ASSUMPTIONS = [
    "the specification is coq/Json/JsonSpec.v (RFC 8259 / RFC 3629 / RFC 2781 / ISO 32000 Annex D.2); on every run it is cross-checked against Python's strict json and codecs on mutated texts (part spec-vs-python)",
    "the model has the pinned behaviour (suffix _pinned) and the behaviour after proposed_fixes/*.diff; the implementation must equal one of them on every case; where they differ the pinned one violates the property and is reported under the known findings D1, D7, D8, D9",
    "document-level JSON emission (QPDF::writeJSON, QPDFJob::doJSON, streams, base64, side files) is not modelled: it is judged by the extracted json_valid + Python's strict json + comparison with the generator's ground truth and round trips through the real CLI",
    "document-level import (QPDF::JSONReactor) is modelled over the PARSED tree (coq/Json/JsonReactor.v); qpdf's JSON parser is tied by feeding the model with the tree Python's strict json parses from the same text; numbers with an exponent, pushedinheritedpageresources / calledgetallpages = true in update mode and a stream \"data\" string spelled with escapes are outside the model (the last one is decided on the implementation alone: known finding C14-F2)",
    "the member-order theorems (jr_import_member_order ...) are about the reactor after proposed_fixes/C14-F3_json_stream_length_ignored.diff and C14-F4_json_value_own_reference.diff; the model also has the behaviour of the tree as it is, the implementation must equal one of the two on every text; where they differ the tree as it is violates the property (known findings C14-F3, C14-F4)",
    "JSON texts above 150 kB are judged by Python's strict json only (the extracted list-based recogniser is slow on them)",
    "schema conformance is checked structurally against the layout printed by --json-help (key sets and value kinds), not by a general JSON-schema engine",
]

SIG_D1 = "C14:D1:real-verbatim:"
SIG_D7 = "C14:D7:utf16-not-well-formed-exported-as-text"
SIG_D8 = "C14:D8:utf8-bom-not-well-formed-emitted-raw"
SIG_D9 = "C14:D9:name-with-surrogate-or-beyond-10ffff-emitted-raw"
SIG_F1 = "C14:F1:binary-name-with-stray-hash-rejected-by-json-input"


# ------------------------------------------------------------------ helpers

def unhex(h):
    return b"" if h in ("-", "") else bytes.fromhex(h)


class DupKey(ValueError):
    pass


def _pairs(p):
    d = {}
    for k, v in p:
        if k in d:
            raise DupKey("duplicate key %r" % k)
        d[k] = v
    return d


def _const(c):
    raise ValueError("constant " + c)


class Num(str):
    """a JSON number kept as its spelling"""
    pass


def strict_loads(b):
    """Python's strict json: strict UTF-8, duplicate keys rejected, NaN/Infinity rejected, numbers keep their spelling.
    returns (verdict, value): verdict 0 ok, 1 not UTF-8, 2 not JSON"""
    try:
        s = b.decode("utf-8", "strict")
    except UnicodeDecodeError:
        return 1, None
    try:
        return 0, json.loads(s, object_pairs_hook=_pairs, parse_constant=_const, parse_float=Num, parse_int=Num)
    except (ValueError, RecursionError):
        return 2, None


def legal_real(b):
    return re.fullmatch(rb"[+-]?(\d+\.\d*|\.\d+)", b) is not None


def frac(b):
    from fractions import Fraction
    s = b.decode()
    neg = s.startswith("-")
    s = s.lstrip("+-")
    ip, _, fp = s.partition(".")
    v = Fraction(int((ip + fp) or "0"), 10 ** len(fp))
    return -v if neg else v


def d1_class(sp):
    if sp.startswith(b"+"):
        return "leading-plus"
    if re.match(rb"-0\d", sp):
        return "zeros-after-minus"
    return "other"


def utf8_ok(b):
    try:
        b.decode("utf-8", "strict")
        return True
    except UnicodeDecodeError:
        return False


def py_text_of(s):
    """independent second opinion on JsonSpec.text_of for BOM-announced strings (Python codecs)"""
    try:
        if s[:2] == b"\xfe\xff":
            return [ord(c) for c in s[2:].decode("utf-16-be", "strict")]
        if s[:2] == b"\xff\xfe":
            return [ord(c) for c in s[2:].decode("utf-16-le", "strict")]
        if s[:3] == b"\xef\xbb\xbf":
            return [ord(c) for c in s[3:].decode("utf-8", "strict")]
    except UnicodeDecodeError:
        return None
    return "pdfdoc"


def nul_is_stray(n):
    """every NUL of the name is followed by something that is not two hex digits (what the tokenizer produces for a stray '#')"""
    for i, c in enumerate(n):
        if c == 0 and re.fullmatch(rb"[0-9a-fA-F]{2}", n[i + 1:i + 3]):
            return False
    return True


def pdf_name(n):
    """PDF spelling of a name whose NULs stand for stray '#'"""
    out = bytearray(b"/")
    for c in n[1:]:
        if c == 0:
            out += b"#"
        elif c < 33 or c > 126 or c in b"#/()<>[]{}%":
            out += b"#%02x" % c
        else:
            out.append(c)
    return out.decode("latin-1")


def unescape_name(b):
    out = bytearray()
    i = 0
    while i < len(b):
        if b[i] == 35 and re.fullmatch(rb"[0-9a-fA-F]{2}", b[i + 1:i + 3]):
            out.append(int(b[i + 1:i + 3], 16))
            i += 3
        else:
            out.append(b[i])
            i += 1
    return bytes(out)


class Ctx:
    def __init__(self, chk):
        self.chk = chk
        self.rng = chk.rng
        self.quick = chk.tier == "quick"
        self.drv = os.path.join(common.DRV, "drv")
        self.runner = os.path.join(common.EXTRACT, "model_runner")
        self.ties = []          # (part, case, impl, model)
        self.mode = {}          # part -> set of 'pinned'/'fixed' observed where they differ

    def impl(self, lines):
        return common.run_lines(self.drv, lines, shards=8)

    def model(self, lines):
        return common.run_lines(self.runner, lines, shards=8)

    def tie(self, part, case, impl, model):
        self.ties.append((part, case, impl[:600], model[:600]))

    def match(self, part, case, i_out, m_out):
        """m_out = '<pinned> <fixed>'; returns 'both'|'pinned'|'fixed'|None (None = tie broken, recorded)"""
        if m_out.startswith("?") or i_out.startswith(("?", "!")):
            self.tie(part, case, i_out, m_out)
            return None
        p, f = m_out.split(" ")
        if p == f:
            if i_out == p:
                return "both"
        elif i_out == p:
            self.mode.setdefault(part, set()).add("pinned")
            return "pinned"
        elif i_out == f:
            self.mode.setdefault(part, set()).add("fixed")
            return "fixed"
        self.tie(part, case, i_out, m_out)
        return None

    def bad(self, part, case, why, signature="", **kw):
        rep = {"kind": "property-fails-on-implementation", "part": part, "case": case, "why": why}
        rep.update(kw)
        # a generated input lives in the work directory, which the next run clears: carry it in the replay file
        inp = case.get("input") if isinstance(case, dict) else None
        if inp and inp.startswith(common.BUILD) and os.path.exists(inp) and os.path.getsize(inp) < 300000 and \
                not (signature and self.chk.known_match(signature)) and len(self.chk.violations) < 5:
            import base64
            rep["input_pdf_base64"] = base64.b64encode(open(inp, "rb").read()).decode()
        self.chk.violation(rep, signature=signature)


# ------------------------------------------------------------------ part: real numbers

def part_reals(cx):
    chk, rng = cx.chk, cx.rng
    alpha = b"+-.019"
    sps = []
    maxlen = 5 if cx.quick else 6
    cur = [b""]
    for _ in range(maxlen):
        cur = [s + bytes([c]) for s in cur for c in alpha]
        sps += cur
    # longer legal spellings with every digit, many zeros, long fractions
    extra = set()
    for _ in range(1500 if cx.quick else 20000):
        sign = rng.choice([b"", b"", b"+", b"-"])
        ip = bytes(rng.choice(b"0000123456789") for _ in range(rng.choice([0, 1, 1, 2, 3, 7, 19, 25])))
        fp = bytes(rng.choice(b"0000123456789") for _ in range(rng.choice([0, 1, 1, 2, 5, 12, 30])))
        if ip or fp:
            extra.add(sign + ip + b"." + fp)
    sps += sorted(extra)
    lines = ["jreal " + hexs(s) for s in sps]
    impl, model = cx.impl(lines), cx.model(lines)
    legal = [i for i, s in enumerate(sps) if legal_real(s)]
    outs = [unhex(impl[i]) if re.fullmatch(r"[0-9a-f-]+", impl[i]) else None for i in range(len(sps))]
    v_lines = ["jnumber " + hexs(outs[i] or b"x") for i in legal]
    verdicts = cx.model(v_lines)
    nontriv = set()
    kinds = {"legal": len(legal), "illegal-spelling-tie-only": len(sps) - len(legal), "known-D1": 0}
    for k, i in enumerate(legal):
        sp, out = sps[i], outs[i]
        case = {"real": sp.decode(), "api": "QPDFObjectHandle::newReal(%r).writeJSON(2)" % sp.decode(),
                "pdf": "<< /V %s >>" % sp.decode()}
        m = cx.match("reals", case, impl[i], model[i])
        ok_spec = verdicts[k] == "1"
        pv, pval = strict_loads(out) if out is not None else (2, None)
        ok_py = pv == 0 and isinstance(pval, Num)
        if ok_spec != ok_py:
            cx.tie("spec-vs-python", case, "python=%s" % ok_py, "json_number=%s" % ok_spec)
        value_ok = ok_py and frac(out) == frac(sp)
        if not (ok_spec and value_ok):
            cls = d1_class(sp)
            if cls != "other":
                kinds["known-D1"] += 1
            cx.bad("reals", case, "emitted %r: %s" % (out, "not a JSON number (RFC 8259 section 6)" if not ok_spec else "a different value"),
                   signature=SIG_D1 + cls, implementation=impl[i], model=model[i])
        if out not in (None, sp):
            nontriv.add(sp)
    for i in range(len(sps)):
        if not legal_real(sps[i]):
            cx.match("reals", {"real": sps[i].decode("latin-1"), "note": "not a spelling the tokenizer produces: tie only"}, impl[i], model[i])
    chk.count("reals", len(sps) + len(legal), nontriv, samples=[{"real": sps[legal[7]].decode(), "json": (outs[legal[7]] or b"").decode("latin-1")}])
    chk.cov["parts"]["reals"]["distribution"] = kinds
    chk.cov["parts"]["reals"]["exhaustive"] = "all spellings over {+,-,.,0,1,9} up to length %d" % maxlen


# ------------------------------------------------------------------ part: strings

U16_UNITS = [0x0000, 0x0041, 0x00e9, 0x00ad, 0x007f, 0x0018, 0x2022, 0xd7ff, 0xd800, 0xdbff, 0xdc00, 0xdc01, 0xdfff, 0xe000,
             0xfffd, 0xfffe, 0xffff, 0xfeff, 0x0022, 0x005c, 0x000a, 0x00fe, 0x00ff]

UTF8_PIECES = [b"A", b"\x00", b"\x7f", b"\"", b"\\", b"\n", b"\xc2\x80", b"\xdf\xbf", b"\xe0\xa0\x80", b"\xed\x9f\xbf", b"\xee\x80\x80",
               b"\xef\xbf\xbf", b"\xf0\x90\x80\x80", b"\xf4\x8f\xbf\xbf", b"\xc3\xbe\xc3\xbf", b"\xc3\xaf\xc2\xbb\xc2\xbf", b"\xe2\x80\xa2",
               # malformed classes
               b"\x80", b"\xbf", b"\xc0\x80", b"\xc1\xbf", b"\xc2", b"\xc2\x41", b"\xe0\x80\x80", b"\xe0\x9f\xbf", b"\xe0\xa0", b"\xe1\x80",
               b"\xed\xa0\x80", b"\xed\xbf\xbf", b"\xf0\x80\x80\x80", b"\xf0\x8f\xbf\xbf", b"\xf0\x90\x80", b"\xf4\x90\x80\x80", b"\xf5\x80\x80\x80",
               b"\xf7\xbf\xbf\xbf", b"\xf8\x88\x80\x80\x80", b"\xfc\x84\x80\x80\x80\x80", b"\xfe", b"\xff", b"\xe2\x28\xa1", b"\xf0\x28\x8c\xbc"]


def gen_strings(cx):
    rng = cx.rng
    out = [b""]
    out += [bytes([a]) for a in range(256)]
    out += [bytes([a, b]) for a in range(256) for b in range(256)]
    cls = []
    # UTF-16 behind both byte-order marks: 0..3 code units from the class list, odd lengths
    for bom, be in ((b"\xfe\xff", True), (b"\xff\xfe", False)):
        def enc(u):
            return bytes([u >> 8, u & 255]) if be else bytes([u & 255, u >> 8])
        cls.append(bom)
        for a in U16_UNITS:
            cls.append(bom + enc(a))
            cls.append(bom + enc(a) + b"\x00")
            for b in U16_UNITS:
                cls.append(bom + enc(a) + enc(b))
        for _ in range(300 if cx.quick else 6000):
            us = [rng.choice(U16_UNITS) for _ in range(rng.randint(3, 6))]
            cls.append(bom + b"".join(enc(u) for u in us) + (b"\x41" if rng.random() < 0.15 else b""))
    # UTF-8 behind its mark, and the same payloads without a mark
    for a in UTF8_PIECES:
        cls.append(b"\xef\xbb\xbf" + a)
        cls.append(a + b"plain text that keeps the ratio low")
        for b in UTF8_PIECES:
            cls.append(b"\xef\xbb\xbf" + a + b)
    for _ in range(300 if cx.quick else 6000):
        ps = b"".join(rng.choice(UTF8_PIECES) for _ in range(rng.randint(3, 6)))
        cls.append(b"\xef\xbb\xbf" + ps)
        cls.append(ps)
    # PDFDoc: every byte inside text long enough that useHexString says no; ratio boundary 5 * non_ascii > length
    for a in range(256):
        cls.append(b"Text with one byte " + bytes([a]) + b" inside")
    for n in range(1, 24):
        for k in range(0, n + 1):
            if abs(5 * k - n) <= 5:
                cls.append(b"\xe9" * k + b"a" * (n - k))
                cls.append(b"a" * (n - k) + b"\x18" * k)
    cls += [b"\xfe\xff", b"\xff\xfe", b"\xef\xbb\xbf", b"\xfe", b"\xef\xbb", b"\xc3\xbe\xc3\xbf", b"12 0 R", b"u:x", b"b:00", b"/Name", b"n:/x"]
    if not cx.quick:   # a sample of the 3- and 4-byte payloads (behind a mark: 1- and 2-byte remainders of every value)
        for _ in range(150000):
            cls.append(bytes(rng.randrange(256) for _ in range(3)))
        for bom in (b"\xfe\xff", b"\xff\xfe", b"\xef\xbb\xbf"):
            cls += [bom + bytes([a, b]) for a in range(256) for b in range(0, 256, 3)]
    seen = set(out)
    for c in cls:
        if c not in seen:
            seen.add(c)
            out.append(c)
    return out


def string_class(s):
    t = py_text_of(s)
    if s[:2] in (b"\xfe\xff", b"\xff\xfe"):
        return "utf16-bom-" + ("well-formed" if t is not None else "malformed")
    if s[:3] == b"\xef\xbb\xbf":
        return "utf8-bom-" + ("well-formed" if t is not None else "malformed")
    return "no-bom"


def part_strings(cx):
    chk, rng = cx.chk, cx.rng
    strs = gen_strings(cx)
    lines = ["jstr 2 " + hexs(s) for s in strs]
    impl, model = cx.impl(lines), cx.model(lines)
    # v1 on a sample + every class-aimed case
    v1_idx = [i for i, s in enumerate(strs) if len(s) != 2 or (i % (7 if cx.quick else 1) == 0)]
    lines1 = ["jstr 1 " + hexs(strs[i]) for i in v1_idx]
    impl1, model1 = cx.impl(lines1), cx.model(lines1)
    ok_out = [re.fullmatch(r"[0-9a-f]+", o) is not None for o in impl]
    outs = [unhex(o) if k else b"" for o, k in zip(impl, ok_out)]
    verd = cx.model(["jvalid " + hexs(o) for o in outs])
    wf = cx.model(["jwfbom " + hexs(s) for s in strs])
    texts = cx.model(["jtext " + hexs(s) for s in strs])
    # import of what was emitted (all class-aimed cases, a sample of the 2-byte block in the quick tier)
    imp_idx = [i for i, s in enumerate(strs) if ok_out[i] and (len(s) != 2 or not cx.quick or i % 5 == 0)]
    imp_lines = ["jimp " + hexs(outs[i]) for i in imp_idx]
    imp_impl, imp_model = cx.impl(imp_lines), cx.model(imp_lines)
    imported = {}
    for i, a, m in zip(imp_idx, imp_impl, imp_model):
        imported[i] = a
    kinds = {}
    nontriv = set()
    for i, s in enumerate(strs):
        case = {"string_bytes": s.hex(), "api": "QPDFObjectHandle::newString(bytes).writeJSON(2)", "pdf": "<< /S <%s> >>" % s.hex()}
        cls = string_class(s)
        m = cx.match("strings", case, impl[i], model[i])
        pv, pval = strict_loads(outs[i])
        if str(pv) != verd[i]:
            cx.tie("spec-vs-python", dict(case, json=outs[i].hex()), "python=%s" % pv, "json_verdict=%s" % verd[i])
        sig = ""
        if cls == "utf8-bom-malformed":
            sig = SIG_D8
        elif cls == "utf16-bom-malformed":
            sig = SIG_D7
        if verd[i] != "0" or pv != 0 or not isinstance(pval, str):
            cx.bad("strings", case, "emitted %r is not valid JSON (%s)" % (outs[i][:80], {"1": "not UTF-8", "2": "grammar"}.get(verd[i], verd[i])),
                   signature=sig, implementation=impl[i], model=model[i], string_class=cls)
            kinds[cls + ":invalid-json"] = kinds.get(cls + ":invalid-json", 0) + 1
            continue
        form = pval[:2]
        kinds[cls + ":" + form] = kinds.get(cls + ":" + form, 0) + 1
        if form == "b:":
            try:
                back = bytes.fromhex(pval[2:])
            except ValueError:
                back = None
            if back != s:
                cx.bad("strings", case, "binary form %r does not carry the string's bytes" % pval[:80], implementation=impl[i])
        elif form == "u:":
            want = texts[i]
            got = "1 " + (",".join(str(ord(c)) for c in pval[2:]) or "-")
            pt = py_text_of(s)
            if pt != "pdfdoc" and (pt is None) != (wf[i] == "0"):
                cx.tie("spec-vs-python", case, "python codecs: %s" % pt, "well_formed_for_its_bom=%s" % wf[i])
            if wf[i] != "1":
                cx.bad("strings", case, "exported in text form %r although it is not well-formed in the encoding its byte-order mark announces (must count as binary)" % pval[:60],
                       signature=sig, implementation=impl[i], model=model[i], string_class=cls)
                continue
            if got != want:
                cx.bad("strings", case, "text form %r does not denote the string's Unicode text %s" % (pval[:60], want[:120]), signature=sig, implementation=impl[i])
                continue
        else:
            cx.bad("strings", case, "string exported as %r: neither u: nor b:" % pval[:60], implementation=impl[i])
            continue
        if i in imported:
            r = imported[i]
            if not r.startswith("str,"):
                cx.bad("strings", case, "re-import of %r does not give a string: %s" % (pval[:60], r[:80]), implementation=impl[i])
            else:
                back = unhex(r[4:])
                if form == "b:" and back != s:
                    cx.bad("strings", case, "binary string does not keep its bytes through --json-input: %s" % back.hex()[:80], implementation=impl[i])
                elif form == "u:":
                    imported[i] = back
                    nontriv.add(s)
    # text preserved through import (u: form), second generation fixpoint
    u_idx = [i for i in imported if isinstance(imported[i], bytes)]
    t2 = cx.model(["jtext " + hexs(imported[i]) for i in u_idx])
    g2 = cx.impl(["jstr 2 " + hexs(imported[i]) for i in u_idx])
    for i, tt, g in zip(u_idx, t2, g2):
        case = {"string_bytes": strs[i].hex(), "exported": outs[i].decode("utf-8", "replace")[:100], "imported_bytes": imported[i].hex()}
        if tt != texts[i]:
            cx.bad("strings", case, "text-form string does not keep its Unicode text through import: %s -> %s" % (texts[i][:80], tt[:80]))
    g3_lines, g3_meta = [], []
    for i, g in zip(u_idx, g2):
        if re.fullmatch(r"[0-9a-f]+", g):
            g3_lines.append("jimp " + g)
            g3_meta.append((i, g))
    g3i = cx.impl(g3_lines)
    g3e_lines = ["jstr 2 " + (r[4:] or "-") if r.startswith("str,") else "jstr 2 -" for r in g3i]
    g3 = cx.impl(g3e_lines)
    for (i, g), r, e in zip(g3_meta, g3i, g3):
        if e != g:
            cx.bad("strings", {"string_bytes": strs[i].hex(), "generation1": outs[i].hex(), "generation2": g, "generation3": e},
                   "exporting again does not reach a fixpoint after one generation")
    for i, a, mm in zip(imp_idx, imp_impl, imp_model):
        cx.match("import", {"json_token": outs[i].hex()}, a, mm)
    # v1: validity only (v1 is lossy by design)
    outs1 = [unhex(o) if re.fullmatch(r"[0-9a-f]+", o) else b"" for o in impl1]
    verd1 = cx.model(["jvalid " + hexs(o) for o in outs1])
    for k, i in enumerate(v1_idx):
        s = strs[i]
        case = {"string_bytes": s.hex(), "api": "newString(bytes).writeJSON(1)", "json_version": 1}
        cx.match("strings-v1", case, impl1[k], model1[k])
        pv, _ = strict_loads(outs1[k])
        if verd1[k] != "0" or pv != 0:
            cx.bad("strings-v1", case, "v1 output %r is not valid JSON" % outs1[k][:80],
                   signature=SIG_D8 if string_class(s) == "utf8-bom-malformed" else "", implementation=impl1[k], model=model1[k])
    chk.count("strings", len(strs) + len(v1_idx) + len(imp_idx) + 2 * len(u_idx) + len(g3_lines), nontriv,
              samples=[{"string": strs[300].hex(), "json": outs[300].decode("latin-1")}, {"string": strs[-30].hex(), "json": outs[-30].decode("latin-1")}])
    chk.cov["parts"]["strings"]["distribution"] = kinds
    chk.cov["parts"]["strings"]["exhaustive"] = "every string of 0, 1 and 2 bytes (65 793) exported; class-aimed strings behind and without byte-order marks"


# ------------------------------------------------------------------ part: names (values) and analyzeJSONEncoding

def gen_names(cx):
    rng = cx.rng
    out = [b"/"]
    out += [b"/" + bytes([a]) for a in range(256)]
    out += [b"/" + bytes([a, b]) for a in range(256) for b in range(256)]
    cls = []
    for a in UTF8_PIECES:
        cls.append(b"/" + a)
        cls.append(b"/N" + a + b"x")
        for b in UTF8_PIECES:
            cls.append(b"/" + a + b)
    # every lead byte with every first continuation byte class, completed with 0x80 tails
    for lead in range(0xc0, 0x100):
        for c1 in (0x7f, 0x80, 0x8f, 0x90, 0x9f, 0xa0, 0xbf, 0xc0):
            for ntail in (0, 1, 2, 3):
                cls.append(b"/" + bytes([lead, c1]) + b"\x80" * ntail)
    for _ in range(400 if cx.quick else 10000):
        cls.append(b"/" + b"".join(rng.choice(UTF8_PIECES + [b"#", b"/", b"(", b" ", b"%"]) for _ in range(rng.randint(2, 5))))
    if not cx.quick:
        for _ in range(150000):
            cls.append(b"/" + bytes(rng.choice((rng.randrange(256), rng.randrange(0x80, 0x100))) for _ in range(3)))
    seen = set(out)
    for c in cls:
        if c not in seen:
            seen.add(c)
            out.append(c)
    return out


def part_names(cx):
    chk = cx.chk
    names = gen_names(cx)
    lines = ["jname 2 " + hexs(n) for n in names]
    impl, model = cx.impl(lines), cx.model(lines)
    a_lines = ["janalyze " + hexs(n) for n in names]
    a_impl, a_model = cx.impl(a_lines), cx.model(a_lines)
    u8 = cx.model(["u8valid " + hexs(n) for n in names])
    outs = [unhex(o) if re.fullmatch(r"[0-9a-f]+", o) else b"" for o in impl]
    verd = cx.model(["jvalid " + hexs(o) for o in outs])
    imp_idx = [i for i, n in enumerate(names) if len(n) != 3 or not cx.quick or i % 5 == 0]
    imp_lines = ["jimp " + hexs(outs[i]) for i in imp_idx]
    imp_impl, imp_model = cx.impl(imp_lines), cx.model(imp_lines)
    kinds = {}
    nontriv = set()
    for i, n in enumerate(names):
        case = {"name_bytes": n.hex(), "api": "QPDFObjectHandle::newName(bytes).writeJSON(2)"}
        cx.match("names", case, impl[i], model[i])
        # analyzeJSONEncoding().first must be UTF-8 validity
        am = a_model[i].split(" ")
        if a_impl[i] not in am:
            cx.tie("analyze", case, a_impl[i], a_model[i])
        if utf8_ok(n) != (u8[i] == "1"):
            cx.tie("spec-vs-python", case, "python utf-8: %s" % utf8_ok(n), "utf8_valid=%s" % u8[i])
        pv, pval = strict_loads(outs[i])
        if str(pv) != verd[i]:
            cx.tie("spec-vs-python", dict(case, json=outs[i].hex()), "python=%s" % pv, "json_verdict=%s" % verd[i])
        d9 = (a_impl[i][:1] == "1") and u8[i] == "0"
        if verd[i] != "0" or pv != 0 or not isinstance(pval, str):
            cx.bad("names", case, "emitted %r is not valid JSON (%s)" % (outs[i][:80], {"1": "not UTF-8", "2": "grammar"}.get(verd[i], verd[i])),
                   signature=SIG_D9 if d9 else "", implementation=impl[i], model=model[i])
            kinds["invalid-json"] = kinds.get("invalid-json", 0) + 1
            continue
        if pval.startswith("n:"):
            form = "n:"
            back = unescape_name(pval[2:].encode("latin-1", "replace"))
            if 0 not in n and back != n:
                cx.bad("names", case, "n: form %r does not denote the name" % pval[:80], implementation=impl[i])
            if u8[i] == "1":
                cx.tie("names", case, "n: form for a name that is valid UTF-8", model[i])
            nontriv.add(n)
        else:
            form = "plain"
            if pval.encode("utf-8") != n:
                cx.bad("names", case, "plain form %r does not denote the name" % pval[:80], implementation=impl[i])
            if outs[i] != b'"' + n + b'"':
                nontriv.add(n)
        kinds[form] = kinds.get(form, 0) + 1
    for i, a, m in zip(imp_idx, imp_impl, imp_model):
        n = names[i]
        cx.match("import", {"json_token": outs[i].hex()}, a, m)
        if verd[i] != "0":
            continue
        if a != "name," + hexs(n):
            # NUL stands for a stray '#' of the tokenizer; Name::normalize writes it back as '#'. Such a name survives when the '#' is
            # again stray on re-reading (not followed by two hex digits); on the pinned tree the import then fails altogether (F1)
            stray_ok = 0 in n and outs[i].startswith(b'"n:') and nul_is_stray(n)
            cx.bad("names", {"name_bytes": n.hex(), "exported": outs[i].decode("latin-1")[:80], "pdf": "<< /K %s >>" % pdf_name(n)},
                   "name does not survive export + import: %s" % a[:80], signature=SIG_F1 if stray_ok else "")
    # v1
    idx1 = [i for i in range(len(names)) if len(names[i]) != 3 or i % 11 == 0]
    l1 = ["jname 1 " + hexs(names[i]) for i in idx1]
    i1, m1 = cx.impl(l1), cx.model(l1)
    o1 = [unhex(o) if re.fullmatch(r"[0-9a-f]+", o) else b"" for o in i1]
    v1 = cx.model(["jvalid " + hexs(o) for o in o1])
    for k, i in enumerate(idx1):
        case = {"name_bytes": names[i].hex(), "json_version": 1}
        cx.match("names-v1", case, i1[k], m1[k])
        if v1[k] != "0" or strict_loads(o1[k])[0] != 0:
            cx.bad("names-v1", case, "v1 output %r is not valid JSON" % o1[k][:80], implementation=i1[k])
    chk.count("names", 3 * len(names) + len(imp_idx) + len(idx1), nontriv,
              samples=[{"name": names[200].hex(), "json": outs[200].decode("latin-1")}, {"name": names[-5].hex(), "json": outs[-5].decode("latin-1")}])
    chk.cov["parts"]["names"]["distribution"] = kinds
    chk.cov["parts"]["names"]["exhaustive"] = "every name of 0, 1 and 2 bytes (65 793); every (lead byte, first continuation class, tail count)"


# ------------------------------------------------------------------ part: object trees (dictionary keys in every emission form, nesting, indentation)

KEY_POOL = [b"/Plain", b"/Quo\"te", b"/Back\\slash", b"/Ctl\x01\n", b"/Sp ace", b"/\xc3\xa9t\xc3\xa9", b"/Bin\x80", b"/Bin\x80\"q", b"/Bin\xff\\b",
            b"/Bin\xff#(", b"/\xe2\x82\xac", b"/", b"/\x7f", b"/A#B", b"/\xf0\x9f\x98\x80", b"/\xc0\xaf", b"/Z", b"/n:/x", b"/u:x", b"/b:00",
            b"/1 0 R", b"/Tab\t", b"/Nul\x00x", b"/\xed\x9f\xbf", b"/\xef\xbf\xbf"]
D9_KEYS = [b"/\xed\xa0\x80", b"/\xf4\x90\x80\x80", b"/\xf5\x80\x80\x80"]


def enc_tree(o):
    """python tree -> (encoding for jobj, expected python value after json decoding or None when not compared)"""
    k = o[0]
    if k in ("n", "t", "f"):
        return [k]
    if k == "i":
        return ["i%d" % o[1]]
    if k in ("r", "s", "N"):
        return [k + (o[1].hex() or "")]
    if k == "R":
        return ["R%d.0" % o[1]]
    if k == "[":
        out = ["["]
        for x in o[1]:
            out += enc_tree(x)
        return out + ["]"]
    if k == "{":
        out = ["{"]
        for key in sorted(o[1]):
            out += ["k" + key.hex()] + enc_tree(o[1][key])
        return out + ["}"]
    raise ValueError(o)


def gen_tree(rng, depth, clean):
    r = rng.random()
    if depth <= 0 or r < 0.45:
        k = rng.randrange(9)
        if k == 0:
            return ("n",)
        if k == 1:
            return (rng.choice("tf"),)
        if k == 2:
            return ("i", rng.choice([0, 1, -1, 42, 2 ** 31, -2 ** 62, 2 ** 62 - 1, rng.randint(-10 ** 6, 10 ** 6)]))
        if k == 3:
            return ("r", rng.choice([b"1.5", b"-0.25", b".5", b"-.5", b"3.", b"0.0", b"000.100", b"12345.678900", b"-3."]))
        if k == 4:
            return ("s", rng.choice([b"", b"text", b"\xfe\xff\x00A\xd8\x3d\xde\x00", b"\xef\xbb\xbf\xe2\x82\xac", b"\x00\x01\x02", b"caf\xe9 au lait long enough",
                                     b"q\"uo\\te\n", b"\xff\xfe\x41\x00", b"\x80\x81\x82"]))
        if k == 5:
            return ("N", rng.choice(KEY_POOL))
        if k == 6:
            return ("R", rng.randint(1, 9))
        if k == 7:
            return ("s", bytes(rng.randrange(256) for _ in range(rng.randint(0, 6))))
        return ("N", b"/" + bytes(rng.choice(b"AZaz09#/() \xe9\x7f\"\\") for _ in range(rng.randint(0, 5))))
    if r < 0.72:
        return ("[", [gen_tree(rng, depth - 1, clean) for _ in range(rng.choice([0, 1, 2, 3, 5]))])
    keys = rng.sample(KEY_POOL, rng.choice([0, 1, 2, 4, 7]))
    return ("{", {k: gen_tree(rng, depth - 1, clean) for k in keys})


def part_trees(cx):
    chk, rng = cx.chk, cx.rng
    trees = []
    # every key form alone and all together; null values are dropped
    for k in KEY_POOL:
        trees.append((("{", {k: ("i", 1)}), 0, ""))
    trees.append((("{", {k: ("i", j) for j, k in enumerate(KEY_POOL)}), 0, ""))
    trees.append((("{", {k: ("n",) for k in KEY_POOL[:4]}), 0, ""))
    trees.append((("{", {b"/A": ("n",), b"/B": ("i", 1), b"/C": ("n",)}), 2, ""))
    trees.append((("[", []), 0, ""))
    trees.append((("{", {}), 3, ""))
    for k in D9_KEYS:
        trees.append((("{", {k: ("i", 1), b"/Plain": ("t",)}), 0, SIG_D9))
    for _ in range(700 if cx.quick else 12000):
        t = gen_tree(rng, rng.choice([1, 2, 3, 4]), True)
        if t[0] == "R":
            t = ("[", [t])     # the top-level call dereferences; a reference is written as "n g R" inside a container
        trees.append((t, rng.choice([0, 0, 1, 2, 4, 24, 25, 26, 51]), ""))
    lines = []
    for t, depth, sig in trees:
        lines.append("jobj 2 %d %s" % (depth, ",".join(enc_tree(t))))
    lines1 = [l.replace("jobj 2 ", "jobj 1 ", 1) for l in lines[:200]]
    impl, model = cx.impl(lines + lines1), cx.model(lines + lines1)
    outs = [unhex(o) if re.fullmatch(r"[0-9a-f]+", o) else b"" for o in impl]
    verd = cx.model(["jvalid " + hexs(o) for o in outs])
    nontriv = set()
    allt = trees + trees[:200]
    for i, l in enumerate(lines + lines1):
        t, depth, sig = allt[i]
        case = {"tree": l[:1500], "json_version": 2 if i < len(lines) else 1}
        cx.match("trees", case, impl[i], model[i])
        pv, pval = strict_loads(outs[i])
        if str(pv) != verd[i]:
            cx.tie("spec-vs-python", dict(case, json=outs[i].hex()[:600]), "python=%s" % pv, "json_verdict=%s" % verd[i])
        if verd[i] != "0" or pv != 0:
            cx.bad("trees", case, "emitted JSON is not valid (%s): %r" % ({"1": "not UTF-8", "2": "grammar or duplicate key"}.get(verd[i], verd[i]), outs[i][:200]),
                   signature=sig, implementation=impl[i][:1500], model=model[i][:1500])
            continue
        if i < len(lines):
            prob = compare_tree(t, pval)
            if prob:
                cx.bad("trees", case, "decoded JSON differs from the object: " + prob, implementation=impl[i][:1500])
        if t[0] in "[{" and len(t[1]) > 0:
            nontriv.add(l)
    chk.count("trees", len(lines) + len(lines1), nontriv, samples=[{"tree": lines[len(KEY_POOL)][:300], "json": outs[len(KEY_POOL)].decode("latin-1")[:300]}])


def key_from_json(k):
    if k.startswith("n:"):
        return unescape_name(k[2:].encode("latin-1", "replace"))
    return k.encode("utf-8")


def compare_tree(t, v):
    """ground truth tree vs decoded JSON value (after all fixes; strings/names/reals are judged in their own parts, here: structure)"""
    k = t[0]
    if k == "n":
        return "" if v is None else "null became %r" % (v,)
    if k in "tf":
        return "" if v is (k == "t") else "bool became %r" % (v,)
    if k == "i":
        return "" if isinstance(v, Num) and str(v) == str(t[1]) else "integer %d became %r" % (t[1], v)
    if k == "r":
        try:
            return "" if isinstance(v, Num) and frac(str(v).encode()) == frac(t[1]) else "real %r became %r" % (t[1], v)
        except ValueError:
            return "real %r became %r" % (t[1], v)
    if k == "s":
        return "" if isinstance(v, str) and v[:2] in ("u:", "b:") else "string became %r" % (v,)
    if k == "N":
        return "" if isinstance(v, str) and (0 in t[1] or key_from_json(v) == t[1]) else "name %r became %r" % (t[1], v)
    if k == "R":
        return "" if v == "%d 0 R" % t[1] else "reference became %r" % (v,)
    if k == "[":
        if not isinstance(v, list) or len(v) != len(t[1]):
            return "array of %d became %r" % (len(t[1]), v if not isinstance(v, list) else len(v))
        for a, b in zip(t[1], v):
            p = compare_tree(a, b)
            if p:
                return p
        return ""
    if k == "{":
        if not isinstance(v, dict):
            return "dictionary became %r" % (v,)
        want = {kk: vv for kk, vv in t[1].items() if vv != ("n",)}
        got = {}
        for kk, vv in v.items():
            got[key_from_json(kk)] = vv
        if set(got) != set(want) or len(got) != len(v):
            return "dictionary keys %r became %r" % (sorted(want), sorted(v))
        for kk in want:
            p = compare_tree(want[kk], got[kk])
            if p:
                return p
        return ""
    return "?"


# ------------------------------------------------------------------ part: helper functions (tie of the pieces the proofs are about)

def part_utils(cx):
    chk, rng = cx.chk, cx.rng
    lines = []
    cps = list(range(0, 0x900)) + list(range(0xd7f0, 0xe010)) + list(range(0xffe0, 0x10020)) + [0x10ffff, 0x110000, 0x1fffff, 0x200000, 0x3ffffff, 0x4000000, 0x7fffffff] + \
        [rng.randrange(0x110000) for _ in range(500 if cx.quick else 20000)]
    if not cx.quick:
        cps += list(range(0x900, 0x11000))
    for c in cps:
        lines.append("jutil toutf8 %d" % c)
        if c <= 0x200000:
            lines.append("jutil toutf16 %d" % c)
    one = [bytes([a]) for a in range(256)]
    two = [bytes([a, b]) for a in range(256) for b in range(256)]
    two_s = two if not cx.quick else rng.sample(two, 9000)
    pool = [b""] + one + two_s + [a + b for a in UTF8_PIECES for b in UTF8_PIECES]
    for s in pool:
        h = hexs(s)
        if s:
            lines.append("jutil nextcp " + h)
        lines.append("jutil u8topd " + h)
        lines.append("jutil u8to16 " + h)
        lines.append("jutil newu " + h)
        lines.append("jutil u16to8 " + h)
    for s in [b""] + one + rng.sample(two, 3000):
        h = hexs(s)
        for f in ("pd2u8", "encstr", "hexenc", "hexdec"):
            lines.append("jutil %s %s" % (f, h))
        lines.append("jutil norm " + hexs(b"/" + s))
    # every code point that PDFDocEncoding can encode, and its neighbours, through utf8_to_pdf_doc
    for c in list(range(0x0, 0x3000)) + [0xfb01, 0xfb02, 0xfffd, 0xfffe, 0x20ac, 0x2122] + ([] if cx.quick else list(range(0x3000, 0x10000))):
        if 0xd800 <= c < 0xe000:
            continue
        lines.append("jutil u8topd " + chr(c).encode("utf-8").hex())
    # qpdf's JSON string lexer on escapes
    for body in [b"", b"plain", b"\\n\\r\\t\\b\\f\\\\\\\"\\/", b"\\u0041\\u00e9\\u20ac", b"\\ud83d\\ude00", b"\\ud83d", b"\\ude00", b"\\ud83dx", b"\\u12", b"\\x",
                 b"a\x01b", b"\xc3\xa9", b"\xff", b"\\uD83D\\uDE00", b"\\ud83d\\u0041", b"tab\there"] + \
                [bytes(rng.choice(b"ab\\\"u01dD89cCeEnrt/ \x7f\xc3\xa9") for _ in range(rng.randint(1, 9))) for _ in range(1500 if cx.quick else 30000)]:
        lines.append("jutil jparse " + hexs(b'"' + body + b'"'))
    impl, model = cx.impl(lines), cx.model(lines)
    nontriv = set()
    for l, a, m in zip(lines, impl, model):
        if a != m:
            cx.tie("helpers", {"call": l}, a, m)
        nontriv.add(l)
    chk.count("helpers", len(lines), nontriv, samples=[{"call": lines[5000], "result": impl[5000]}])
    # spec-level cross-check of json_string_value against qpdf-independent Python on the same escape strings
    sl = [l for l in lines if l.startswith("jutil jparse ")]
    sv = cx.model(["jstrval " + l.split(" ")[2] for l in sl])
    for l, v in zip(sl, sv):
        tok = unhex(l.split(" ")[2])
        pv, pval = strict_loads(tok)
        lone = re.search(rb"\\u[dD][89abAB][0-9a-fA-F]{2}(?!\\u[dD][c-fC-F])|(?<!\\u[dD][89abAB][0-9a-fA-F]{2})\\u[dD][c-fC-F][0-9a-fA-F]{2}", tok) is not None
        want = ("1 " + hexs(pval.encode("utf-8", "surrogatepass"))) if pv == 0 and isinstance(pval, str) else "0 -"
        if v != want and not lone:
            cx.tie("spec-vs-python", {"token": tok.hex()}, want, v)


# ------------------------------------------------------------------ part: the specification against Python's strict json on mutated texts

def part_spec_vs_python(cx):
    chk, rng = cx.chk, cx.rng
    base = [b'{"a": [1, 2.5e-3, -0, "x\\u00e9\\n", true, false, null], "b": {"c": {}, "d": []}}', b' [ ] ', b'{"k": "v", "k2": {"k": 1}}',
            b'[1, 2, 3]', b'"\xc3\xa9\xe2\x82\xac\xf0\x9f\x98\x80"', b'-12.50E+7', b'{"a": 1, "a": 2}', b'{"a": {"x": 1, "x": 2}}', b'[01]', b'[1.]', b'[.5]', b'[+1]',
            b'[-]', b'{"a" 1}', b'[1 2]', b'[1,]', b'{,}', b'{"a":1,}', b'nul', b'tru', b'[true false]', b'"\x01"', b'"\\q"', b'"\xed\xa0\x80"', b'"\xc0\xaf"', b'"a', b'',
            b'  ', b'[[[[[[[[[[]]]]]]]]]]', b'{"\\u0061": 1, "a": 2}', b'1e5', b'1E', b'1e+', b'0.0', b'-0.0e-0', b'00', b'-01', b'[1]x', b'{"a":1}{"b":2}', b'\xef\xbb\xbf[1]',
            b'"\\ud83d\\ude00"', b'[1\x0c]', b'[\x0b1]', b'{"a"\n:\t1\r}', b'[1,\n2]', b'"\x7f"', b'"/Bin#80\\"q"', b'{\n  "qpdf": [\n    {\n      "jsonversion": 2\n    },\n    {\n      }\n    }\n  ]\n}']
    texts = list(base)
    muts = b'{}[],:"\\ \n0123456789.-+eEtrufalsn\x00\x1f\x7f\x80\xc3\xa9\xff'
    for _ in range(2500 if cx.quick else 60000):
        t = bytearray(rng.choice(base))
        for _ in range(rng.choice([1, 1, 2, 3])):
            op = rng.randrange(3)
            pos = rng.randrange(len(t) + 1)
            if op == 0 and t:
                del t[min(pos, len(t) - 1)]
            elif op == 1:
                t.insert(pos, rng.choice(muts))
            elif t:
                t[min(pos, len(t) - 1)] = rng.choice(muts)
        texts.append(bytes(t))
    verd = cx.model(["jvalid " + hexs(t) for t in texts])
    agree = 0
    dist = {"0": 0, "1": 0, "2": 0}
    for t, v in zip(texts, verd):
        pv, pval = strict_loads(t)
        dist[v] = dist.get(v, 0) + 1
        # Python accepts \u escapes that name unpaired surrogates (RFC 8259 section 8.2 calls the result unpredictable); the
        # specification rejects them. qpdf never writes such escapes. Those texts are compared after excluding that class.
        if pv == 0 and v == "2" and re.search(rb"\\u[dD][89a-fA-F]", t):
            continue
        if str(pv) != v:
            cx.tie("spec-vs-python", {"text": t.hex()}, "python=%s" % pv, "json_verdict=%s" % v)
        else:
            agree += 1
    chk.count("spec-vs-python", len(texts), set(t for t, v in zip(texts, verd) if v == "0"), samples=[{"text": texts[60].decode("latin-1"), "verdict": verd[60]}])
    chk.cov["parts"]["spec-vs-python"]["verdicts"] = dist


# ------------------------------------------------------------------ run

def finish_ties(cx):
    chk = cx.chk
    if not cx.ties:
        return
    byp = {}
    for part, case, a, m in cx.ties:
        byp.setdefault(part, []).append((case, a, m))
    for part, lst in byp.items():
        chk.violation({"kind": "correspondence-broken", "correspondence": "corr:C14:%s" % part, "differing_cases": len(lst),
                       "first_cases": [{"case": c, "implementation": a, "model (pinned fixed) / specification": m} for c, a, m in lst[:4]],
                       "note": ("the specification and its independent second opinion (Python) disagree: the oracle itself is in doubt" if part == "spec-vs-python" else
                                "model and implementation differ on these cases although the specification holds on the implementation's results; "
                                "the theorems no longer speak about this code")}, no_input=True)


def run(chk):
    cx = Ctx(chk)
    chk.cov["rule"] = ("in-process: every real spelling over {+,-,.,0,1,9} up to length 5 (6 thorough) plus long random legal spellings; every string and every name of "
                       "0..2 bytes, strings behind FE FF / FF FE / EF BB BF with 0..6 code units or UTF-8 pieces from every well-formed and malformed class, PDFDoc "
                       "strings around the useHexString ratio; names for every (lead byte, continuation class, tail count); object trees whose dictionary keys need "
                       "every emission form at indentation depths 0..51; helper functions; each exported, judged by the extracted specification and Python's strict "
                       "json, re-imported, exported again (generation 2 = 3). CLI: generated documents and corpus files x stream data none|inline|file x decode "
                       "levels x object subsets x keys, --json-input / --update-from-json round trips; a stream-layer document (empty / 1-byte data, filters with "
                       "parameters, chains with parameter arrays, indirect /Filter and /DecodeParms, undecodable filters) under every stream-data mode x decode level with "
                       "the whole stream dictionary compared with the document's own; a document with non-zero generations under lists of several --json-object in every "
                       "spelling (n | n,g | trailer) judged by 'exactly the requested subset' and by edits reaching each selected object. Import side: hand-built complete qpdf JSON "
                       "documents, updates of them and malformed texts through createFromJSON / updateFromJSON in-process against the extracted reactor model, each with variants that "
                       "differ only in member order (dict before data/datafile, shuffled, reversed, sorted at every depth), white space, \\u / surrogate-pair / \\/ escapes in keys and strings, "
                       "and the spelling of reals - every variant must give the document its base text gives; the same variants of qpdf's own exports (inline and file data, decode "
                       "level none and generalized) through --json-input and --update-from-json (own JSON and edited subsets) on the CLI. non-trivial = the emission changes the payload (escape, "
                       "prefix, normalisation) or a document-level run completed; distinct by input")
    part_spec_vs_python(cx)
    part_reals(cx)
    part_strings(cx)
    part_names(cx)
    part_trees(cx)
    part_utils(cx)
    import c14_import
    c14_import.part_import_reactor(cx)
    try:
        import c14_cli
        c14_cli.run_cli(cx)
    except ImportError:
        pass
    finish_ties(cx)
    chk.cov["implementation_matches"] = {k: sorted(v) for k, v in cx.mode.items()}
    if not cx.quick:
        # independent re-check of the compiled proofs and of their axiom list (DESIGN.md 2.2, thorough tier)
        rc, out = common.sh(["timeout", "3000", "coqchk", "-silent", "-o", "-Q", ".", "QV", "QV.Props.Properties_C14"], cwd=common.COQ)
        txt = out.decode("utf-8", "replace")
        ok = rc == 0 and re.search(r"\* Axioms: <none>", txt) is not None
        chk.cov["coqchk"] = {"exit": rc, "axioms": "none" if ok else txt[-1500:]}
        if not ok:
            chk.violation({"kind": "proof-recheck-failed", "checker": "coqchk -o -Q coq QV QV.Props.Properties_C14", "output": txt[-3000:]}, no_input=True)


def replay(chk, rep):
    """re-run exactly the recorded case: in-process cases through the driver and the extracted model/specification,
    CLI cases through the real binary (the generated input is carried in the replay file)"""
    shown = dict(rep)
    shown.pop("input_pdf_base64", None)
    shown.pop("input_json_base64", None)
    print(json.dumps(shown, indent=1)[:6000])
    case = rep.get("case", {})
    drv = os.path.join(common.DRV, "drv")
    runner = os.path.join(common.EXTRACT, "model_runner")
    line = None
    if not isinstance(case, dict):
        return 0
    if "json_texts_hex" in case or "variant_json" in case:
        import c14_import
        r = c14_import.replay(chk, rep)
        if r is not None:
            return r
    if "real" in case:
        line = "jreal " + hexs(case["real"].encode("latin-1"))
    elif "string_bytes" in case:
        line = "jstr %d %s" % (case.get("json_version", 2), case["string_bytes"] or "-")
    elif "name_bytes" in case:
        line = "jname %d %s" % (case.get("json_version", 2), case["name_bytes"] or "-")
    elif "tree" in case:
        line = case["tree"]
    if line:
        a = common.run_lines(drv, [line])[0]
        m = common.run_lines(runner, [line])[0]
        out = unhex(a) if re.fullmatch(r"[0-9a-f]+", a) else b""
        v = common.run_lines(runner, ["jvalid " + hexs(out)])[0]
        pv, pval = strict_loads(out)
        print("replayed: %s\n implementation: %r\n model (pinned fixed): %s\n json_verdict(implementation output) = %s, python = %s" % (line[:300], out[:300], m[:300], v, pv))
        if re.fullmatch(r"[0-9a-f]+", a) and v == "0" and line.startswith(("jstr", "jname")):
            imp = common.run_lines(drv, ["jimp " + a])[0]
            print(" re-imported: %s" % imp[:200])
        return 0 if (v == "0" and a in m.split(" ")) else 1
    if "argv" in case or "generation1" in case:
        import base64, shutil, tempfile
        wd = tempfile.mkdtemp(prefix="replay", dir=common.BUILD)
        try:
            inp = case.get("input")
            if "input_pdf_base64" in rep:
                inp = os.path.join(wd, "input.pdf")
                open(inp, "wb").write(base64.b64decode(rep["input_pdf_base64"]))
            argv = list(case.get("argv") or case.get("generation1"))
            argv = [inp if a == case.get("input") else a for a in argv]
            to_stdout = not any(a.endswith(".json") or a.endswith(".pdf") for a in argv[1:] if a != inp)
            rc, so, se = common.run_qpdf(argv[1:], cwd=wd)
            print("replayed: %s\n exit %s %s" % (" ".join(argv), rc, se.decode("latin-1")[-300:]))
            outs = [os.path.join(wd, a) for a in argv[1:] if a.endswith(".json") and a != inp and os.path.exists(os.path.join(wd, a))]
            texts = [open(o, "rb").read() for o in outs] or ([so] if to_stdout else [])
            bad = rc not in (0, 3)
            for t in texts:
                pv, _ = strict_loads(t)
                ev = common.run_lines(runner, ["jvalid " + hexs(t)])[0] if len(t) <= 150000 else "-"
                print(" JSON output: %d bytes, json_verdict = %s, python = %s" % (len(t), ev, pv))
                bad = bad or pv != 0 or ev not in ("0", "-")
            if "generation1" in case and not bad and outs:
                rc2, so2, se2 = common.run_qpdf(["--json-input", "--json-output", outs[0], "g2.json"], cwd=wd)
                print(" --json-input --json-output: exit %s %s" % (rc2, se2.decode("latin-1")[-300:]))
                bad = bad or rc2 not in (0, 3)
            return 1 if bad else 0
        finally:
            shutil.rmtree(wd, ignore_errors=True)
    return 0
