(* C13 extension 2 - pages are independent values: an in-place edit (Struct/PgyModel.v) changes one object only, and the
   page that Pages::insert puts into the tree for a page that is already there is a NEW object with the same value.
   (Seeded change C13-5 made that copy share its direct values with the original: the model - copy() - does not.) *)
From QV Require Import Base.Bytes Struct.PgModel Struct.PgSpec Struct.C13ProofsA Struct.PgxModel Struct.PgxOracle
  Struct.C13ProofsC Struct.C13ProofsE Struct.C13ProofsF Struct.C13ProofsH Struct.PgyModel.
Local Open Scope N_scope.

Lemma pgm_edit_attr_frame : forall s i attr e j,
  j <> (match snd (pgy_edit_attr s i attr e) with PrId t => t | _ => i end) ->
  pg_lookup (fst (pgy_edit_attr s i attr e)) j = pg_lookup s j.
Proof.
  intros s i attr e j. unfold pgy_edit_attr.
  destruct (pg_lookup s i) as [[v|]|]; try reflexivity. destruct v; try reflexivity.
  destruct (pg_dget l attr) as [| | |t| |] eqn:Ea;
    try (destruct (pgy_apply e _); cbn [fst snd]; [intros Hj; rewrite pg_lookup_supd; apply N.eqb_neq in Hj; rewrite Hj; reflexivity|reflexivity]).
  destruct (pg_lookup s t) as [[v|]|]; try reflexivity.
  destruct (pgy_apply e v); cbn [fst snd]; [|reflexivity].
  intros Hj. rewrite pg_lookup_supd. apply N.eqb_neq in Hj. rewrite Hj. reflexivity.
Qed.

(* FULL STATEMENT ("the entries of the page list are independent values"): an in-place edit made through a handle obtained
   from object i (setArrayItem / appendItem / replaceKey on getKey(attr)) changes object i and nothing else when the
   container is a direct value of i, the container object and nothing else when attr is a reference - in particular no
   OTHER page object, and nothing in the other document.  PROVED for the model (value semantics = QPDFObjectHandle::copy()
   wherever qpdf copies); tied to qpdf by the in-place operations mb / rk / na of harness/c13.py, compared after every
   step, and by the page-value frame oracle on the driver's raw walk. *)
Lemma inplace_edit_frame_lemma : forall w d i attr e j,
  let w' := fst (pgy_step w (PyEdit d i attr e)) in
  pg_get w' (negb d) = pg_get w (negb d) /\
  (j <> (match snd (pgy_step w (PyEdit d i attr e)) with PrId t => t | _ => i end) ->
   pg_lookup (pd_store (pg_get w' d)) j = pg_lookup (pd_store (pg_get w d)) j).
Proof.
  intros w d i attr e j. cbn [pgy_step].
  pose proof (pgm_edit_attr_frame (pd_store (pg_get w d)) i attr e j) as H.
  destruct (pgy_edit_attr (pd_store (pg_get w d)) i attr e) as [s r]. cbn [fst snd] in *.
  split; [apply pg_get_put_other|]. rewrite pg_get_put_same. exact H.
Qed.

(* re-insertion of a page that is already in the tree: the tree gets a NEW object (it did not exist before the call), the
   old one stays where it was, and the new object's dictionary equals the old one's in every key but /Parent.  Together with
   NoDup of the page list (pgx_flat) and the frame lemma above: editing one of the two in place never shows in the other. *)
Lemma reinserted_page_independent_lemma : forall w d i pos K,
  pgx_st (pg_get w d) K -> In i K -> (0 <= pos <= pg_len K)%Z ->
  exists p' ni, pg_insert w d (PhObj d i) pos = (pg_put w d p', None) /\
    pgx_st p' (pg_list_ins K (Z.to_nat pos) ni) /\ ~ In ni K /\ ni <> i /\
    pg_lookup (pd_store (pg_get w d)) ni = None /\
    (forall k, k <> pgk_Parent -> pg_hget (pd_store p') (PvRef ni) k = pg_hget (pd_store p') (PvRef i) k) /\
    (forall attr e j, j <> ni -> (forall t, snd (pgy_edit_attr (pd_store p') ni attr e) <> PrId t) ->
       pg_lookup (fst (pgy_edit_attr (pd_store p') ni attr e)) j = pg_lookup (pd_store p') j).
Proof.
  intros w d i pos K Hst HiK Hpos.
  pose proof (pgx_st_flat _ _ Hst) as Hf0.
  pose proof Hf0 as (pn0 & dn0 & Hroot0 & Hpn0 & _ & _ & _ & Hpnroot0 & Hpnk0 & Hrootk0 & _ & Hleaf0 & _).
  destruct (Hleaf0 i HiK) as (dd & Edd & Hld).
  assert (Hinsable : pg_insertable w d (PhObj d i) = true).
  { unfold pg_insertable, pg_norm. rewrite Edd. fold (pgx_insF (pd_store (pg_get w d)) (PvRef i)).
    apply (pgx_insF_leafy _ (PvRef i) dd); [cbn [pg_rv]; rewrite Edd; reflexivity|exact Hld]. }
  destruct (pgx_flatten_st _ K Hst) as (p1 & Hfl & Hf1 & Hall1 & Hpi1 & Hsim & Hr1 & Ho1 & Hg1 & Hinv1).
  unfold pg_insert. rewrite Hinsable. cbn [negb]. rewrite Hfl.
  assert (Hnorm : pg_norm (pg_put w d p1) (PhObj d i) = PhObj d i).
  { unfold pg_norm. rewrite pg_get_put_same. destruct (pgx_sim_dict _ _ _ _ Hsim Edd) as (dd1 & -> & _). reflexivity. }
  rewrite Hnorm, Bool.eqb_reflx. cbv iota beta. rewrite pg_get_put_same.
  pose proof Hf1 as (pn & dn & Hroot1 & Hpn1 & Hkids1 & Hcount1 & Hpar1 & Hpnroot1 & Hpnk1 & Hrootk1 & Hnd1 & Hleaf1 & Hinvf1).
  destruct (pgx_sim_dict _ _ _ _ Hsim Edd) as (dd1 & Edd1 & Sdd1).
  pose proof (pgx_leafy_sim _ _ Hld Sdd1) as Hld1.
  assert (Hipn1 : i <> pn) by (intros ->; contradiction).
  assert (Hpnex1 : pg_lookup (pd_store p1) pn <> None) by (rewrite Hpn1; discriminate).
  destruct (pg_insert_local_ok p1 i pos Hinv1) as (p2 & ni & Hrun & Hi2 & Hall2 & Hnin & Hnidup & _ & Hr2 & _ & _ & _).
  { rewrite Edd1. discriminate. } { intros ->. contradiction. } { rewrite Hroot1. intros E. inversion E. congruence. }
  { intros d0 x k E. rewrite Edd1 in E. discriminate. } { rewrite Hall1. exact Hpos. }
  rewrite Hall1 in Hnidup, Hnin. specialize (Hnidup HiK).
  destruct (pgx_insert_local_edit p1 i pos pn Hroot1 Hpnex1 Hipn1) as [Hed Hcopy]; [rewrite Hall1; exact Hpos|].
  rewrite Hrun in Hed, Hcopy. cbn [fst] in Hed, Hcopy.
  destruct (Hcopy dd1 Edd1) as (dni & Eni & Hkni).
  { destruct Hpi1 as [Hpf _]. rewrite Hpf. destruct (pg_index K i) eqn:Ei; [discriminate|]. apply pg_index_none in Ei. contradiction. }
  rewrite <- Hnidup in Eni.
  assert (Hf2 : pgx_flat p2 (pd_all p2)).
  { eapply (pgx_flat_of_inv_edit p1 p2 K pn Hf1 Hroot1 Hi2 Hr2 Hed).
    intros k Hk. rewrite Hall2, Hall1 in Hk. apply pg_In_ins in Hk; [|unfold pg_len in Hpos; lia].
    destruct Hk as [->|Hk].
    - exists dni. split; [exact Eni|]. destruct Hld1 as [L1 L2]. split; rewrite Hkni by discriminate; assumption.
    - destruct (Hleaf1 k Hk) as (dk & Ek & Lk). eapply pgx_leafy_edit; [exact Hed| |exact Ek|exact Lk]. intros ->. contradiction. }
  exists p2, ni. rewrite Hrun. split; [rewrite pg_put_put; reflexivity|].
  split; [rewrite <- Hall1, <- Hall2; apply pgx_st_of_inv; assumption|]. split; [exact Hnin|].
  split; [intros ->; contradiction|].
  split.
  { (* fresh also with respect to the state before the call: every object that existed is still there and below next_id *)
    destruct (pg_lookup (pd_store (pg_get w d)) ni) eqn:E; [|reflexivity]. exfalso.
    assert (pg_lookup (pd_store p1) ni <> None) as HH by (eapply pgx_sim_some; [exact Hsim|rewrite E; discriminate]).
    rewrite Hnidup in HH. apply HH, pg_next_id_fresh. }
  split.
  { intros k Hk. destruct (pgx_edit_dict _ _ _ _ _ Hed Edd1) as (di2 & Ei2 & Hki2).
    assert (i =? pn = false) as Hb by (apply N.eqb_neq; exact Hipn1). rewrite Hb in Hki2.
    rewrite (pgx_hget_ref _ ni dni k Eni), (pgx_hget_ref _ i di2 k Ei2), Hkni, Hki2 by exact Hk. reflexivity. }
  intros attr e j Hj Hdirect. apply pgm_edit_attr_frame.
  destruct (snd (pgy_edit_attr (pd_store p2) ni attr e)) eqn:Er; try exact Hj. exfalso. eapply Hdirect. reflexivity.
Qed.
