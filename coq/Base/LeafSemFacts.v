(* Facts about the semantics of the translated C++ subset (Base/LeafSem.v), shared by the tie proofs
   File/C02TieProofs.v, Lex/C03TieProofs.v, Crypto/C05TieProofs.v, Lin/C07TieProofs.v, Filters/C15TieProofs.v. *)
From Coq Require Import ZArith List Bool Lia.
From QV Require Import Base.Bytes Base.LeafSem.
Local Open Scope Z_scope.

(* a value that already is in the unsigned type is not changed by the conversion *)
Lemma lf_wrap_u_small : forall bits x, 0 <= x < 2 ^ bits -> lf_wrap_u bits x = x.
Proof. intros bits x H. unfold lf_wrap_u. apply Z.mod_small. exact H. Qed.

(* a value that already is in the signed type is not changed by the conversion *)
Lemma lf_wrap_s_small : forall bits x, 0 < bits -> - 2 ^ (bits - 1) <= x < 2 ^ (bits - 1) -> lf_wrap_s bits x = x.
Proof.
  intros bits x Hb H. unfold lf_wrap_s.
  assert (E : 2 ^ bits = 2 * 2 ^ (bits - 1)).
  { replace bits with (Z.succ (bits - 1)) at 1 by lia. rewrite Z.pow_succ_r by lia. reflexivity. }
  rewrite Z.mod_small by lia. lia.
Qed.

Lemma lf_wrap_s_32_small : forall x, -2147483648 <= x < 2147483648 -> lf_wrap_s 32 x = x.
Proof. intros x H. apply lf_wrap_s_small; [lia|]. change (2 ^ (32 - 1)) with 2147483648. lia. Qed.

Lemma lf_wrap_s_8_small : forall x, -128 <= x < 128 -> lf_wrap_s 8 x = x.
Proof. intros x H. apply lf_wrap_s_small; [lia|]. change (2 ^ (8 - 1)) with 128. lia. Qed.

Lemma lf_wrap_s_64_small : forall x, -9223372036854775808 <= x < 9223372036854775808 -> lf_wrap_s 64 x = x.
Proof. intros x H. apply lf_wrap_s_small; [lia|]. change (2 ^ (64 - 1)) with 9223372036854775808. lia. Qed.

(* QIntC::to_T on a value T holds *)
Lemma lf_checked_in : forall lo hi x, lo <= x <= hi -> lf_checked lo hi x = x.
Proof.
  intros lo hi x H. unfold lf_checked.
  destruct (Z.leb_spec lo x); destruct (Z.leb_spec x hi); try lia. reflexivity.
Qed.

Lemma lf_wrap_u_32_small : forall x, 0 <= x < 4294967296 -> lf_wrap_u 32 x = x.
Proof. intros x H. apply lf_wrap_u_small. change (2 ^ 32) with 4294967296. lia. Qed.

Lemma lf_z2b_true : forall x, x <> 0 -> lf_z2b x = true.
Proof. intros x H. unfold lf_z2b. destruct (Z.eqb_spec x 0); [contradiction|reflexivity]. Qed.

(* the signed reading of a byte, as C++ `char` holds it on this platform *)
Definition lf_char_of_byte (b : N) : Z := if (b <? 128)%N then Z.of_N b else Z.of_N b - 256.

(* sweeps over all 256 values of a char, given as the byte b *)
Lemma lf_char_sweep (P : Z -> bool) :
  forallb (fun b => P (lf_char_of_byte b)) all_bytes = true ->
  forall c, -128 <= c < 128 -> P c = true.
Proof.
  intros H c Hc.
  pose proof (byte_sweep (fun b => P (lf_char_of_byte b)) H) as S.
  set (b := Z.to_N (if c <? 0 then c + 256 else c)).
  specialize (S b).
  assert (Hb : (b < 256)%N).
  { unfold b. destruct (Z.ltb_spec c 0); lia. }
  specialize (S Hb). cbv beta in S.
  replace (lf_char_of_byte b) with c in S; [exact S|]. unfold b.
  unfold lf_char_of_byte. destruct (Z.ltb_spec c 0).
  - destruct (N.ltb_spec (Z.to_N (c + 256)) 128); lia.
  - destruct (N.ltb_spec (Z.to_N c) 128); lia.
Qed.
