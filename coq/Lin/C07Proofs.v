(* C07 - proofs about the model of qpdf's hint-table encoder (Lin/Hints.v, Lin/BitIO.v) against the
   Annex F decoder (Lin/AnnexF.v), and about the padding arithmetic of writeLinearized. *)
From QV Require Import Base.Bytes Filters.Filters File.WriterArith File.C02Proofs Lin.HintTypes Lin.BitIO Lin.Hints Lin.AnnexF.
Local Open Scope N_scope.

(* ================= nbits ================= *)
Lemma nbits_fuel_bound : forall fuel v, v < 2 ^ N.of_nat fuel -> v < 2 ^ nbits_fuel fuel v.
Proof.
  induction fuel as [|f IH]; intros v Hv.
  - change (2 ^ N.of_nat 0) with 1 in Hv. cbn. lia.
  - cbn [nbits_fuel]. destruct (N.eqb_spec v 0) as [E|E].
    + subst v. cbn. lia.
    + rewrite Nat2N.inj_succ, N.pow_succ_r' in Hv.
      assert (Hq : v / 2 < 2 ^ N.of_nat f) by (apply N.div_lt_upper_bound; lia).
      specialize (IH _ Hq).
      replace (1 + nbits_fuel f (v / 2)) with (N.succ (nbits_fuel f (v / 2))) by lia.
      rewrite N.pow_succ_r'.
      pose proof (N.div_mod v 2 ltac:(lia)) as Hdm.
      assert (v mod 2 < 2) by (apply N.mod_lt; lia). lia.
Qed.

Lemma nbits_fuel_le : forall fuel v, nbits_fuel fuel v <= N.of_nat fuel.
Proof.
  induction fuel as [|f IH]; intros v; [cbn; lia|].
  cbn [nbits_fuel]. destruct (v =? 0); [lia|]. specialize (IH (v / 2)). lia.
Qed.

(* a value below 2^32 fits the width nbits gives it, and that width is at most 32 (the limit of writeBits) *)
Lemma nbits_bound_lemma : forall v, v < 2 ^ 32 -> v < 2 ^ nbits v /\ nbits v <= 32.
Proof.
  intros v Hv. split.
  - apply (nbits_fuel_bound 32 v). exact Hv.
  - apply (nbits_fuel_le 32 v).
Qed.

(* least width: one bit fewer does not hold the value *)
Lemma nbits_fuel_least : forall fuel v, 0 < v -> v < 2 ^ N.of_nat fuel -> 2 ^ (nbits_fuel fuel v - 1) <= v.
Proof.
  induction fuel as [|f IH]; intros v Hpos Hv.
  - change (2 ^ N.of_nat 0) with 1 in Hv. lia.
  - cbn [nbits_fuel]. destruct (N.eqb_spec v 0) as [E|E]; [lia|].
    replace (1 + nbits_fuel f (v / 2) - 1) with (nbits_fuel f (v / 2)) by lia.
    rewrite Nat2N.inj_succ, N.pow_succ_r' in Hv.
    destruct (N.eq_dec (v / 2) 0) as [Z|NZ].
    + rewrite Z. destruct f; cbn; lia.
    + assert (Hq : v / 2 < 2 ^ N.of_nat f) by (apply N.div_lt_upper_bound; lia).
      specialize (IH (v / 2) ltac:(lia) Hq).
      assert (Hnb : 1 <= nbits_fuel f (v / 2)).
      { destruct f; [change (2 ^ N.of_nat 0) with 1 in Hq; lia|]. cbn [nbits_fuel].
        destruct (N.eqb_spec (v / 2) 0); lia. }
      replace (nbits_fuel f (v / 2)) with (N.succ (nbits_fuel f (v / 2) - 1)) by lia.
      rewrite N.pow_succ_r'.
      pose proof (N.div_mod v 2 ltac:(lia)) as Hdm. lia.
Qed.

Lemma nbits_least_lemma : forall v, 0 < v -> v < 2 ^ 32 -> 2 ^ (nbits v - 1) <= v.
Proof. intros v H0 Hv. apply (nbits_fuel_least 32 v H0 Hv). Qed.

(* min / max folds *)
Lemma fold_min_le : forall (A : Type) (f : A -> N) l init, fold_left (fun m p => N.min m (f p)) l init <= init.
Proof. induction l as [|x l IH]; intros init; cbn [fold_left]; [lia|]. specialize (IH (N.min init (f x))). lia. Qed.
Lemma fold_min_In : forall (A : Type) (f : A -> N) l init x, In x l -> fold_left (fun m p => N.min m (f p)) l init <= f x.
Proof.
  induction l as [|y l IH]; intros init x Hin; [destruct Hin|]. cbn [fold_left]. destruct Hin as [->|Hin].
  - pose proof (fold_min_le A f l (N.min init (f x))). lia.
  - apply IH. exact Hin.
Qed.
Lemma fold_max_ge : forall (A : Type) (f : A -> N) l init, init <= fold_left (fun m p => N.max m (f p)) l init.
Proof. induction l as [|x l IH]; intros init; cbn [fold_left]; [lia|]. specialize (IH (N.max init (f x))). lia. Qed.
Lemma fold_max_In : forall (A : Type) (f : A -> N) l init x, In x l -> f x <= fold_left (fun m p => N.max m (f p)) l init.
Proof.
  induction l as [|y l IH]; intros init x Hin; [destruct Hin|]. cbn [fold_left]. destruct Hin as [->|Hin].
  - pose proof (fold_max_ge A f l (N.max init (f x))). lia.
  - apply IH. exact Hin.
Qed.
Lemma fold_max_lt : forall (A : Type) (f : A -> N) l init b, init < b -> (forall x, In x l -> f x < b) ->
  fold_left (fun m p => N.max m (f p)) l init < b.
Proof.
  induction l as [|y l IH]; intros init b Hi Hall; cbn [fold_left]; [exact Hi|].
  apply IH; [|intros x Hx; apply Hall; right; exact Hx].
  pose proof (Hall y (or_introl eq_refl)). lia.
Qed.

(* nbits_adequate: v - min < 2^nbits(max - min) for every v of the list (values are C ints) *)
Lemma nbits_adequate_lemma : forall (vs : list N) (v : N), In v vs -> (forall x, In x vs -> x < 2 ^ 31) ->
  let mn := fold_left (fun m p => N.min m p) vs int_max in
  let mx := fold_left (fun m p => N.max m p) vs 0 in
  v - mn < 2 ^ nbits (mx - mn) /\ nbits (mx - mn) <= 32.
Proof.
  intros vs v Hin Hall mn mx.
  pose proof (fold_min_In N (fun x => x) vs int_max v Hin) as H1.
  pose proof (fold_max_In N (fun x => x) vs 0 v Hin) as H2.
  pose proof (fold_max_lt N (fun x => x) vs 0 (2 ^ 31) ltac:(reflexivity) Hall) as H3.
  fold mn in H1. fold mx in H2, H3.
  assert (Hd : mx - mn < 2 ^ 32) by (change (2 ^ 32) with (2 * 2 ^ 31); lia).
  destruct (nbits_bound_lemma (mx - mn) Hd) as [Hb Hw]. split; [lia|exact Hw].
Qed.

(* the widths calculateHPageOffset chooses hold every per-page value it writes *)
Lemma calc_hpage_fits_lemma : forall pages off nst e,
  (forall p, In p pages -> cpg_nobjects p < 2 ^ 31 /\ cpg_length p < 2 ^ 31 /\ N.of_nat (length (cpg_shared p)) < 2 ^ 31
                           /\ forall i, In i (cpg_shared p) -> i < nst) ->
  nst < 2 ^ 31 ->
  let t := calc_hpage pages off nst in
  In e (hp_entries t) ->
  pe_nobjects_delta e < 2 ^ hp_bits_nobjects t /\ pe_length_delta e < 2 ^ hp_bits_length t
  /\ pe_nshared e < 2 ^ hp_bits_nshared t /\ pe_content_length_delta e < 2 ^ hp_bits_content_length t
  /\ (forall i, In i (pe_identifiers e) -> i < 2 ^ hp_bits_identifier t)
  /\ (forall i, In i (pe_numerators e) -> i < 2 ^ hp_bits_numerator t)
  /\ pe_content_offset_delta e < 2 ^ hp_bits_content_offset t
  /\ hp_bits_nobjects t <= 32 /\ hp_bits_length t <= 32 /\ hp_bits_nshared t <= 32 /\ hp_bits_identifier t <= 32.
Proof.
  intros pages off nst e Hall Hnst t Hin.
  unfold t, calc_hpage in Hin. cbn [hp_entries] in Hin. apply in_map_iff in Hin. destruct Hin as [p [<- Hp]].
  unfold t, calc_hpage. cbn [hp_bits_nobjects hp_bits_length hp_bits_nshared hp_bits_identifier hp_bits_numerator
    hp_bits_content_offset hp_bits_content_length pe_nobjects_delta pe_length_delta pe_nshared pe_identifiers pe_numerators
    pe_content_offset_delta pe_content_length_delta].
  unfold lh_fold_min, lh_fold_max.
  set (mnO := fold_left (fun m q => N.min m (cpg_nobjects q)) pages int_max).
  set (mxO := fold_left (fun m q => N.max m (cpg_nobjects q)) pages 0).
  set (mnL := fold_left (fun m q => N.min m (cpg_length q)) pages int_max).
  set (mxL := fold_left (fun m q => N.max m (cpg_length q)) pages 0).
  set (mxS := fold_left (fun m q => N.max m (N.of_nat (length (cpg_shared q)))) pages 0).
  pose proof (fold_min_In _ cpg_nobjects pages int_max p Hp) as A1. fold mnO in A1.
  pose proof (fold_max_In _ cpg_nobjects pages 0 p Hp) as A2. fold mxO in A2.
  pose proof (fold_min_In _ cpg_length pages int_max p Hp) as B1. fold mnL in B1.
  pose proof (fold_max_In _ cpg_length pages 0 p Hp) as B2. fold mxL in B2.
  pose proof (fold_max_In _ (fun q => N.of_nat (length (cpg_shared q))) pages 0 p Hp) as C2. fold mxS in C2. cbv beta in C2.
  assert (A3 : mxO < 2 ^ 31) by (apply fold_max_lt; [reflexivity|intros x Hx; apply (Hall x Hx)]).
  assert (B3 : mxL < 2 ^ 31) by (apply fold_max_lt; [reflexivity|intros x Hx; apply (Hall x Hx)]).
  assert (C3 : mxS < 2 ^ 31) by (apply fold_max_lt; [reflexivity|intros x Hx; apply (Hall x Hx)]).
  assert (P31 : 2 ^ 31 < 2 ^ 32) by reflexivity.
  destruct (nbits_bound_lemma (mxO - mnO) ltac:(lia)) as [HO1 HO2].
  destruct (nbits_bound_lemma (mxL - mnL) ltac:(lia)) as [HL1 HL2].
  destruct (nbits_bound_lemma mxS ltac:(lia)) as [HS1 HS2].
  destruct (nbits_bound_lemma nst ltac:(lia)) as [HI1 HI2].
  repeat split; try lia.
  - intros i Hi. destruct (Hall p Hp) as (_ & _ & _ & Hid). specialize (Hid i Hi). lia.
  - intros i Hi. apply repeat_spec in Hi. subst i. cbn. lia.
Qed.

(* ================= parameter dictionary within the first 1024 bytes ================= *)
Lemma dec_len_le : forall n k, n < 10 ^ N.of_nat (S k) -> (length (dec_of_N n) <= S k)%nat.
Proof. intros n k H. unfold dec_of_N. apply ddf_length_le. exact H. Qed.

(* header (15 bytes) + the 200 bytes reserved for the dictionary object + the newline end within the first
   1024 bytes, and the pass-2 text fits in the 200 bytes whenever offsets are below 10^20 and object
   numbers / the page count are C ints: the padding computation cannot fail *)
Lemma lindict_in_1024_lemma : forall id L H0 H1 O E Np T,
  id < 10 ^ 10 -> O < 10 ^ 10 -> Np < 10 ^ 10 ->
  L < 10 ^ 20 -> H0 < 10 ^ 20 -> H1 < 10 ^ 20 -> E < 10 ^ 20 -> T < 10 ^ 20 ->
  lin_header_len + lindict_pad + 1 <= 1024 /\
  N.of_nat (length (lindict_text id L H0 H1 O E Np T)) <= lindict_pad /\
  exists p, lindict_padding (N.of_nat (length (lindict_text id L H0 H1 O E Np T))) = Some p
            /\ N.of_nat (length (lindict_text id L H0 H1 O E Np T)) + p = lindict_pad.
Proof.
  intros id L H0 H1 O E Np T Hid HO HN HL HH0 HH1 HE HT.
  pose proof (dec_len_le id 9 Hid). pose proof (dec_len_le O 9 HO). pose proof (dec_len_le Np 9 HN).
  pose proof (dec_len_le L 19 HL). pose proof (dec_len_le H0 19 HH0). pose proof (dec_len_le H1 19 HH1).
  pose proof (dec_len_le E 19 HE). pose proof (dec_len_le T 19 HT).
  assert (Hlen : N.of_nat (length (lindict_text id L H0 H1 O E Np T)) <= 200).
  { unfold lindict_text. repeat rewrite app_length. cbn [length]. lia. }
  split; [unfold lin_header_len, lindict_pad; lia|]. split; [exact Hlen|].
  unfold lindict_padding, lindict_pad in *.
  destruct (N.ltb_spec 200 (N.of_nat (length (lindict_text id L H0 H1 O E Np T)))); [lia|].
  eexists. split; [reflexivity|lia].
Qed.

(* ================= padding arithmetic of the two passes ================= *)
(* /Prev: the number and its padding always occupy 21 characters (any long long offset) *)
Lemma prev_padding_lemma : forall prev, prev < 2 ^ 63 ->
  exists p, prev_padding prev = Some p /\ N.of_nat (length (dec_of_N prev)) + p = prev_pad.
Proof.
  intros prev H. unfold prev_padding, prev_pad.
  assert (Hl : (length (dec_of_N prev) <= 19)%nat).
  { apply (dec_len_le prev 18). assert (2 ^ 63 < 10 ^ N.of_nat 19) by reflexivity. lia. }
  destruct (N.ltb_spec 21 (N.of_nat (length (dec_of_N prev)))); [lia|].
  eexists. split; [reflexivity|lia].
Qed.

(* the pass-2 cross-reference stream fits what pass 1 reserved whenever compression obeys zlib's bound
   (compressed <= raw + 6 + 5 per 16 KiB) and the dictionary grows by at most 10 characters *)
Lemma xref_pass2_fits_lemma : forall pass1 raw compressed dict_growth,
  raw <= pass1 -> compressed <= raw + 6 + 5 * ((raw + 16383) / 16384) -> dict_growth <= 10 ->
  let pass2 := pass1 - raw + compressed + dict_growth in
  exists p, xref_pass2_padding pass1 pass2 = Some p /\ pass2 + p = pass1 + xref_stream_padding pass1.
Proof.
  intros pass1 raw compressed g Hraw Hz Hg pass2.
  unfold xref_pass2_padding, xref_stream_padding.
  assert (Hmono : (raw + 16383) / 16384 <= (pass1 + 16383) / 16384) by (apply N.div_le_mono; lia).
  destruct (N.ltb_spec (pass1 + (16 + 5 * ((pass1 + 16383) / 16384))) pass2) as [Hlt|Hge].
  - exfalso. unfold pass2 in Hlt. lia.
  - eexists. split; [reflexivity|]. unfold pass2 in *. lia.
Qed.

(* pass agreement on locations: an object written after the hint stream moves by exactly the hint stream's
   length, everything else stays; the decoder's reading of hint-table offsets (F.4.1) inverts the shift *)
Lemma pass_offsets_lemma : forall hint_offset hint_length off,
  lh_pass2_offset hint_offset hint_length off false = af_adjust hint_offset hint_length off
  /\ lh_pass2_offset hint_offset hint_length hint_offset true = hint_offset.
Proof.
  intros ho hl off. unfold lh_pass2_offset, af_adjust. cbn [negb andb]. split; reflexivity.
Qed.

(* /T: with a classic table the writer's value is the white-space character before the first entry;
   with a cross-reference stream it is one less than the offset Table F.1 prescribes (finding) *)
Lemma lin_T_stream_refuted_lemma : exists xref_obj_offset, 0 < xref_obj_offset /\ lin_T_stream xref_obj_offset <> xref_obj_offset.
Proof. exists 1701. split; [reflexivity|]. vm_compute. discriminate. Qed.

Lemma lin_T_stream_partial_lemma : forall xref_obj_offset, 0 < xref_obj_offset -> lin_T_stream xref_obj_offset + 1 = xref_obj_offset.
Proof. intros x H. unfold lin_T_stream. lia. Qed.
