(* C14 - proofs. Lemmas named <name>_lemma become the theorems of Props/Properties_C14.v. *)
From QV Require Import Base.Bytes Gen.PdfDoc Json.JsonSpec Json.JsonEmit.
Local Open Scope N_scope.

(* D1: the pinned tree writes the real "+1.5" (ISO 32000-1 7.3.3 example form) verbatim: not a JSON number *)
Lemma json_number_valid_refuted_lemma :
  exists r, r = pdf_real_spelling (Some false) [49] [53] /\ json_number (jm_real_pinned r) = false.
Proof. eexists. split; [reflexivity|]. vm_compute. reflexivity. Qed.
