(* C01 - what ISO 32000-1 says about the filters of an object stream / cross-reference stream, written from the standard
   (7.4.1 and Table 5: /Filter is a name or an array of names, applied in that order when decoding; /DecodeParms is absent,
   null, a dictionary, or an array with null for the filters that use default parameters.  Table 6: the standard filters.
   7.5.7, 7.5.8: object streams and cross-reference streams are streams; no restriction on their filters).
   The filters that reproduce arbitrary data exactly are ASCIIHexDecode, ASCII85Decode, LZWDecode, FlateDecode and
   RunLengthDecode (the others of Table 6 are image codecs or /Crypt).  A file whose container streams use any chain of these is
   a valid input, and a conforming reader obtains the original data by undoing the chain.
   Independent of the model: only the reference ENCODERS of Filters/FilterSpec.v (C15's specification side) are used here. *)
From Coq Require Import List NArith ZArith Bool.
From QV Require Import Base.Bytes Obj.ParseModel Filters.Filters Filters.FilterSpec Filters.LzwSpec.
Import ListNotations.
Local Open Scope N_scope.

Inductive c1s_filter := C1sAHx | C1sA85 | C1sLZW | C1sFlate | C1sRL.

(* Table 6, with the leading solidus as the object model keeps names *)
Definition c1s_name (f : c1s_filter) : list N :=
  match f with
  | C1sAHx => [47; 65; 83; 67; 73; 73; 72; 101; 120; 68; 101; 99; 111; 100; 101]
  | C1sA85 => [47; 65; 83; 67; 73; 73; 56; 53; 68; 101; 99; 111; 100; 101]
  | C1sLZW => [47; 76; 90; 87; 68; 101; 99; 111; 100; 101]
  | C1sFlate => [47; 70; 108; 97; 116; 101; 68; 101; 99; 111; 100; 101]
  | C1sRL => [47; 82; 117; 110; 76; 101; 110; 103; 116; 104; 68; 101; 99; 111; 100; 101]
  end.

(* the ways Table 5 allows a chain with default parameters to be written *)
Inductive c1s_form :=
| C1sOneName          (* /Filter /X                                   (one filter only) *)
| C1sOneNameNull      (* /Filter /X /DecodeParms null                 (one filter only) *)
| C1sArray            (* /Filter [ /X /Y ... ]                        *)
| C1sArrayEmptyParms  (* /Filter [ /X /Y ... ] /DecodeParms [ ]       *)
| C1sArrayNulls.      (* /Filter [ /X /Y ... ] /DecodeParms [ null null ... ] *)

Definition c1s_writable (form : c1s_form) (chain : list c1s_filter) : Prop :=
  match form with
  | C1sOneName | C1sOneNameNull => length chain = 1%nat
  | _ => True
  end.

Definition c1s_filter_obj (form : c1s_form) (chain : list c1s_filter) : mobj :=
  match form, chain with
  | (C1sOneName | C1sOneNameNull), [f] => MoName (c1s_name f)
  | _, _ => MoArr (map (fun f => MoName (c1s_name f)) chain)
  end.
Definition c1s_parms_obj (form : c1s_form) (chain : list c1s_filter) : mobj :=
  match form with
  | C1sArrayEmptyParms => MoArr []
  | C1sArrayNulls => MoArr (map (fun _ => MoNull) chain)
  | _ => MoNull                               (* an absent key and a null value are the same thing (7.3.7) *)
  end.

(* style of an ASCIIHex encoding: per byte, lower case? and the white space before each of the two digits *)
Definition c1s_style := list (bool * list N * list N).

Section Encode.
  Variable defl : list N -> list N.           (* any zlib compressor *)

  Definition c1s_enc1 (f : c1s_filter) (style : c1s_style) (d : list N) : list N :=
    match f with
    | C1sAHx => ref_ahx_encode d style
    | C1sA85 => ref_a85_encode d
    | C1sLZW => ref_lzw_encode true d
    | C1sFlate => defl d
    | C1sRL => ref_rl_encode d
    end.

  (* the stored bytes of a stream whose /Filter is [f1 f2 ...]: decoding applies f1 first, so f1 was applied last *)
  Fixpoint c1s_encode (chain : list (c1s_filter * c1s_style)) (d : list N) : list N :=
    match chain with
    | [] => d
    | (f, st) :: r => c1s_enc1 f st (c1s_encode r d)
    end.
End Encode.
