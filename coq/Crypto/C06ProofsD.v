(* C06 proofs, part D: opening. What EncryptionParameters::initialize (model) makes of the encryption dictionary a
   producer writes from its choices (IsoEnc.c06_iso_make): the state it leaves agrees with the producer's
   choices (c06_state_for), with the file key itself (--password-is-hex-key) it is exactly that key, and for the
   256-bit schemes (R 5, 6) each password recovers the file key, sets its flag and validates /Perms. *)
From QV Require Import Base.Bytes Crypto.Nib Filters.Filters Filters.C15ProofsB.
From QV Require Import Crypto.MD5 Crypto.SHA2Fast Crypto.AES Crypto.AesPdf Crypto.KeyDeriv Crypto.IsoRef Crypto.Perms.
From QV Require Import Crypto.C05Proofs Crypto.CbcProofs Crypto.AesInv Crypto.C05ProofsB Crypto.C05ProofsC.
From QV Require Import Crypto.IsoEnc Crypto.DecReader Crypto.C06ProofsB Crypto.C06ProofsC.
From Coq Require Import Arith.
Local Open Scope N_scope.

Opaque aes_cipher aes_inv_cipher aes_key_schedule.

(* ------------------------------------------------------------------ the dictionary as written *)
Definition c06_cfm_name (m : c06_cfm) : option (list N) :=
  match m with C6None => None | C6V2 => Some c06_name_V2 | C6AESV2 => Some c06_name_AESV2 | C6AESV3 => Some c06_name_AESV3 end.

(* /Filter /Standard, /V /R /O /U /P, /Length in bits, /EncryptMetadata, one /CF entry per crypt filter (a filter
   whose method is None has no /CFM key: Table 25 default), /StmF /StrF; /OE /UE /Perms for V 5. pz = the integer
   written for /P (the unsigned value or the negative number with the same low 32 bits) *)
Definition c06_rdict_of (c : c06_cfg) (d : iso_dict) (pz : Z) : c06_rdict :=
  {| c6r_filter := Some c06_name_standard; c6r_subfilter := false;
     c6r_V := Some (Z.of_N (c6_V c)); c6r_R := Some (Z.of_N (c6_R c));
     c6r_O := Some (iso_O d); c6r_U := Some (iso_U d); c6r_P := Some pz;
     c6r_OE := if 5 <=? c6_V c then Some (iso_OE d) else None;
     c6r_UE := if 5 <=? c6_V c then Some (iso_UE d) else None;
     c6r_Perms := if 5 <=? c6_V c then Some (iso_Perms d) else None;
     c6r_Length := Some (Z.of_N (8 * c6_keylen c)); c6r_encmeta := Some (c6_encmeta c);
     c6r_CF := map (fun e => (fst e, C6CfDict (c06_cfm_name (snd e)))) (c6_cf c);
     c6r_StmF := Some (c6_stmf c); c6r_StrF := Some (c6_strf c); c6r_EFF := None |}.

Lemma c06_read_CF_of : forall cf,
  c06_read_CF (map (fun e => (fst e, C6CfDict (c06_cfm_name (snd e)))) cf) =
  map (fun e => (fst e, c06_method_of_cfm (snd e))) cf.
Proof.
  induction cf as [|[n m] t IH]; [reflexivity|].
  cbn [map c06_read_CF fst snd]. rewrite IH. destruct m; reflexivity.
Qed.

(* the part of the state that does not depend on the secret *)
Definition c06_public_state_for (c : c06_cfg) (st : c06_state) : Prop :=
  c6t_V st = c6_V c /\ c6t_encmeta st = (if 4 <=? c6_V c then c6_encmeta c else true) /\
  (4 <=? c6_V c = true ->
     c6t_filters st = map (fun e => (fst e, c06_method_of_cfm (snd e))) (c6_cf c) /\
     c6t_cf_stream st = c06_interpretCF (c6t_filters st) (Some (c6_stmf c)) /\
     c6t_cf_string st = c06_interpretCF (c6t_filters st) (Some (c6_strf c))).

(* ------------------------------------------------------------------ with the file key *)
Definition c06_OU_ok (c : c06_cfg) (d : iso_dict) : Prop :=
  c6_V c <? 5 = true -> (length (iso_O d) = 32 /\ length (iso_U d) = 32)%nat.

Lemma c06_supported_cases : forall c, c06_supported c = true ->
  (c6_V c = 1 /\ c6_R c = 2) \/ (c6_V c = 2 /\ c6_R c = 3) \/ (c6_V c = 4 /\ c6_R c = 4) \/
  (c6_V c = 5 /\ (c6_R c = 5 \/ c6_R c = 6)).
Proof.
  intros c Hs. unfold c06_supported in Hs.
  repeat (apply orb_true_iff in Hs; destruct Hs as [Hs|Hs]); repeat (apply andb_true_iff in Hs; destruct Hs as [Hs ?]).
  - left. apply N.eqb_eq in Hs, H0. auto.
  - right; left. apply N.eqb_eq in Hs, H1. auto.
  - right; right; left. apply N.eqb_eq in Hs, H1. auto.
  - right; right; right. apply N.eqb_eq in Hs. split; [exact Hs|].
    apply orb_true_iff in H1. destruct H1 as [H1|H1]; apply N.eqb_eq in H1; auto.
Qed.

Lemma c06_pad_short_id : forall s n, length s = n -> kd_pad_short s n = s.
Proof. intros s n H. unfold kd_pad_short. rewrite H, Nat.sub_diag. cbn [repeat]. apply app_nil_r. Qed.

(* decrypt_of_reference_encrypt, opening with the file key: for every supported choice, every dictionary whose
   /O and /U have their nominal length (R <= 4), whichever way /P is spelled, initialize() ignores the passwords,
   warns about nothing and leaves the given key and the crypt filter set-up of the producer *)
Lemma c06_open_hexkey : forall c d pz key,
  c06_supported c = true -> c06_OU_ok c d ->
  exists st, c06_initialize (c06_rdict_of c d pz) (Some (c6_id c)) (C6HexKey key) = C6Ok st [] /\
             c6t_key st = key /\ c6t_user_matched st = false /\ c6t_owner_matched st = false /\
             c06_public_state_for c st.
Proof.
  intros c d pz key Hs HOU. unfold c06_OU_ok in HOU.
  unfold c06_initialize, c06_rdict_of.
  cbn [c6r_filter c6r_subfilter c6r_V c6r_R c6r_O c6r_U c6r_P c6r_OE c6r_UE c6r_Perms c6r_Length c6r_encmeta c6r_CF c6r_StmF c6r_StrF c6r_EFF].
  change (bytes_eqb c06_name_standard c06_name_standard) with true. cbn [negb c06_ws app].
  assert (Tail : forall st, c6t_V st = c6_V c ->
            c6t_encmeta st = (if 4 <=? c6_V c then c6_encmeta c else true) ->
            (4 <=? c6_V c = true -> c6t_filters st = c06_read_CF (map (fun e => (fst e, C6CfDict (c06_cfm_name (snd e)))) (c6_cf c)) /\
               c6t_cf_stream st = c06_interpretCF (c6t_filters st) (Some (c6_stmf c)) /\
               c6t_cf_string st = c06_interpretCF (c6t_filters st) (Some (c6_strf c))) ->
            c06_public_state_for c st).
  { intros st H1 H2 H3. split; [exact H1|]. split; [exact H2|]. intros H4. destruct (H3 H4) as [A [B C]].
    rewrite c06_read_CF_of in A. repeat split; assumption. }
  destruct (c06_supported_cases c Hs) as [[EV ER]|[[EV ER]|[[EV ER]|[EV ER]]]].
  - rewrite EV, ER in *. destruct (HOU eq_refl) as [HO HU]. rewrite !c06_pad_short_id by assumption.
    change kd_key_bytes with 32%nat. rewrite HO, HU.
    cbn -[c06_read_CF c06_interpretCF c06_to_int32 N.mul].
    eexists. split; [reflexivity|]. split; [reflexivity|]. split; [reflexivity|]. split; [reflexivity|].
    apply Tail; cbn [c6t_V c6t_encmeta c6t_filters c6t_cf_stream c6t_cf_string]; try rewrite EV; try reflexivity. intros; discriminate.
  - rewrite EV, ER in *. destruct (HOU eq_refl) as [HO HU]. rewrite !c06_pad_short_id by assumption.
    change kd_key_bytes with 32%nat. rewrite HO, HU.
    cbn -[c06_read_CF c06_interpretCF c06_to_int32 N.mul].
    eexists. split; [reflexivity|]. split; [reflexivity|]. split; [reflexivity|]. split; [reflexivity|].
    apply Tail; cbn [c6t_V c6t_encmeta c6t_filters c6t_cf_stream c6t_cf_string]; try rewrite EV; try reflexivity. intros; discriminate.
  - rewrite EV, ER in *. destruct (HOU eq_refl) as [HO HU]. rewrite !c06_pad_short_id by assumption.
    change kd_key_bytes with 32%nat. rewrite HO, HU.
    cbn -[c06_read_CF c06_interpretCF c06_to_int32 N.mul].
    eexists. split; [reflexivity|]. split; [reflexivity|]. split; [reflexivity|]. split; [reflexivity|].
    apply Tail; cbn [c6t_V c6t_encmeta c6t_filters c6t_cf_stream c6t_cf_string]; try rewrite EV; try reflexivity. intros _. repeat split; reflexivity.
  - rewrite EV in *. destruct ER as [ER|ER]; rewrite ER in *;
    cbn -[c06_read_CF c06_interpretCF c06_to_int32 N.mul];
    (eexists; split; [reflexivity|]; split; [reflexivity|]; split; [reflexivity|]; split; [reflexivity|];
     apply Tail; cbn [c6t_V c6t_encmeta c6t_filters c6t_cf_stream c6t_cf_string]; try rewrite EV; try reflexivity; intros _; repeat split; reflexivity).
Qed.

Lemma c06_state_for_of_public : forall c key st,
  c06_public_state_for c st -> c6t_key st = key -> c06_state_for c key st.
Proof.
  intros c key st [HV [Hem HF]] Hk. constructor; try assumption.
  - intros H4. rewrite Hem, H4. reflexivity.
  - intros H4. apply (HF H4).
  - intros H4. apply (HF H4).
  - intros H4. apply (HF H4).
Qed.

(* decrypt_of_reference_encrypt with the file key (--password-is-hex-key): for every supported choice, dictionary
   and spelling of /P, every document (list of leaves with explicit /Crypt forms), the reader model opens without a
   warning, matches no password, and returns every string and stream as the producer had it *)
Lemma decrypt_of_reference_encrypt_hexkey_lemma : forall c d pz key leaves enc,
  c06_wf_cfg c -> c06_OU_ok c d -> c06_key_fits c key -> Forall c06_leaf_wf leaves ->
  map (c06_iso_encrypt_leaf c key) leaves = map Some enc ->
  exists st, c06_initialize (c06_rdict_of c d pz) (Some (c6_id c)) (C6HexKey key) = C6Ok st [] /\
             c6t_user_matched st = false /\ c6t_owner_matched st = false /\
             map (c06_decrypt_leaf st) enc = map (fun l => C6LeafOk (c6l_data l) false) leaves.
Proof.
  intros c d pz key leaves enc Hwf HOU Hkf HF Henc.
  destruct (c06_open_hexkey c d pz key (proj1 Hwf) HOU) as [st [Hi [Hk [Hu [Ho Hp]]]]].
  exists st. repeat split; try assumption.
  apply (decrypt_of_reference_encrypt_data_lemma c key st leaves enc Hwf (c06_state_for_of_public c key st Hp Hk) Hkf HF Henc).
Qed.

(* ------------------------------------------------------------------ R 5 / R 6: Algorithms 8, 9, 10 against qpdf's checks *)
Lemma c06_nopad_zero_decrypt : forall ik data,
  length ik = 32%nat -> (length data mod 16 = 0)%nat -> data <> [] -> byte_list data ->
  kd_process_with_aes ik false (iso_cbc_enc (aes_key_schedule ik) iso_zero_iv (iso_blocks data)) 1 None = data.
Proof.
  intros ik data Hik Hm Hne Hd.
  assert (Hok : cipher_ok (aes_key_schedule ik)) by (apply cipher_ok_schedule; right; exact Hik).
  destruct (split16_mod data Hm) as [bs [Hc [Hb Hl]]]. subst data.
  rewrite iso_blocks_concat by exact Hb. rewrite iso_cbc_enc_concat.
  set (EL := enc_list (aes_key_schedule ik) iso_zero_iv bs).
  assert (Hz : length iso_zero_iv = 16%nat) by reflexivity.
  assert (Hzb : byte_list iso_zero_iv).
  { unfold byte_list, iso_zero_iv. apply Forall_forall. intros x Hx. apply repeat_spec in Hx. subst x. reflexivity. }
  assert (HEL : blocks16 EL) by (apply enc_list_blocks16; assumption).
  unfold kd_process_with_aes. cbn [repeat concat]. rewrite app_nil_r.
  unfold pl_aes_decrypt.
  assert (Hk : key_len_ok ik = true) by (apply key_len_ok_iff; right; exact Hik).
  rewrite key_len_ok_negb by exact Hk. cbv zeta.
  destruct bs as [|b0 bt]; [exfalso; apply Hne; reflexivity|].
  assert (Hnn : concat EL <> []).
  { subst EL. cbn [enc_list concat]. inversion HEL; subst.
    destruct (aes_cipher (aes_key_schedule ik) (xor_bytes b0 iso_zero_iv)); [discriminate|discriminate]. }
  destruct (concat EL) as [|x t] eqn:Ex; [contradiction|]. rewrite <- Ex.
  rewrite chunks16_concat; [|exact HEL|].
  2:{ rewrite concat_length16 by exact HEL. rewrite Nat.mul_comm, Nat.div_mul by discriminate. lia. }
  rewrite c06_dec_blocks_full by exact HEL. cbn [iv_bytes opt_bytes].
  change zeros16 with iso_zero_iv.
  unfold EL. apply c06_cbc_dec_nostrip; try assumption.
  apply byte_list_concat. exact Hd.
Qed.

(* qpdf's Encryption object for a V 5 dictionary with nominal lengths *)
Definition c06_ed_V5 (c : c06_cfg) (d : iso_dict) : enc_data :=
  {| ed_V := 5; ed_R := c6_R c; ed_len := 32; ed_P := c6_P c; ed_O := iso_O d; ed_U := iso_U d; ed_OE := iso_OE d;
     ed_UE := iso_UE d; ed_Perms := iso_Perms d; ed_id1 := c6_id c; ed_encmeta := c6_encmeta c |}.

Section OpenV5.
  Variables (c : c06_cfg) (s : c06_secrets).
  Hypothesis HV : c6_V c = 5.
  Hypothesis HR : c6_R c = 5 \/ c6_R c = 6.
  Hypothesis Hrl : length (c6s_rnd s) = 68%nat.
  Hypothesis Hrb : byte_list (c6s_rnd s).

  Let R := c6_R c.
  Let rnd := c6s_rnd s.
  Let key := iso_sub rnd 0 32.
  Let uvs := iso_sub rnd 32 8.
  Let uks := iso_sub rnd 40 8.
  Let ovs := iso_sub rnd 48 8.
  Let oks := iso_sub rnd 56 8.
  Let upw := iso_pw_V5 (c6s_user s).
  Let opw := iso_pw_V5 (c6s_owner s).
  Let Uv := iso_hash R upw uvs [] ++ uvs ++ uks.
  Let UEv := c06_wrap_key (iso_hash R upw uks []) key.
  Let Ov := iso_hash R opw ovs Uv ++ ovs ++ oks.
  Let OEv := c06_wrap_key (iso_hash R opw oks Uv) key.
  Let Pv := c06_alg10_Perms c s.
  Let d := fst (c06_iso_make c s).

  Lemma c06_make_V5 : c06_iso_make c s = (c06_dict_of c Ov Uv OEv UEv Pv, key).
  Proof.
    unfold c06_iso_make. destruct HR as [E|E]; rewrite E; reflexivity.
  Qed.

  Lemma c06_ihash_len : forall pw salt ud, length (iso_hash R pw salt ud) = 32%nat.
  Proof. intros. subst R. rewrite hash_agrees by exact HR. apply hash_length. Qed.

  Lemma c06_key_len : length key = 32%nat.
  Proof. subst key rnd. unfold iso_sub. rewrite firstn_length, skipn_length. lia. Qed.
  Lemma c06_key_bytes : byte_list key.
  Proof. subst key. unfold iso_sub. apply byte_list_firstn, byte_list_skipn. exact Hrb. Qed.
  Lemma c06_salt_len : length uvs = 8%nat /\ length uks = 8%nat /\ length ovs = 8%nat /\ length oks = 8%nat.
  Proof. subst uvs uks ovs oks rnd. unfold iso_sub. rewrite !firstn_length, !skipn_length. lia. Qed.

  Lemma c06_U_len : length Uv = 48%nat.
  Proof. destruct c06_salt_len as (?&?&?&?). subst Uv. rewrite !app_length, c06_ihash_len. lia. Qed.
  Lemma c06_O_len : length Ov = 48%nat.
  Proof. destruct c06_salt_len as (?&?&?&?). subst Ov. rewrite !app_length, c06_ihash_len. lia. Qed.

  Lemma c06_wrap_len : forall ik, length ik = 32%nat -> length (c06_wrap_key ik key) = 32%nat.
  Proof.
    intros ik Hik. unfold c06_wrap_key. rewrite iso_cbc_enc_length.
    - apply c06_key_len.
    - apply cipher_ok_schedule. right. exact Hik.
    - reflexivity.
    - rewrite c06_key_len. reflexivity.
  Qed.

  Lemma c06_unwrap : forall ik, length ik = 32%nat ->
    kd_process_with_aes ik false (c06_wrap_key ik key) 1 None = key.
  Proof.
    intros ik Hik. unfold c06_wrap_key. apply c06_nopad_zero_decrypt.
    - exact Hik.
    - rewrite c06_key_len. reflexivity.
    - intros E. pose proof c06_key_len as H. rewrite E in H. discriminate.
    - apply c06_key_bytes.
  Qed.

  (* qpdf's view of the dictionary *)
  Let ed : enc_data :=
    {| ed_V := 5; ed_R := R; ed_len := 32; ed_P := c6_P c; ed_O := Ov; ed_U := Uv; ed_OE := OEv; ed_UE := UEv;
       ed_Perms := Pv; ed_id1 := c6_id c; ed_encmeta := c6_encmeta c |}.

  Lemma c06_O_parts : firstn 32 Ov = iso_hash R opw ovs Uv /\ firstn 8 (skipn 32 Ov) = ovs /\ firstn 8 (skipn 40 Ov) = oks.
  Proof.
    destruct c06_salt_len as (?&?&?&?).
    destruct (sub3 (iso_hash R opw ovs Uv) ovs oks (c06_ihash_len _ _ _)) as (A&B&C&_); try assumption.
    unfold iso_sub in A, B, C. cbn [skipn] in A. subst Ov. auto.
  Qed.
  Lemma c06_U_parts : firstn 32 Uv = iso_hash R upw uvs [] /\ firstn 8 (skipn 32 Uv) = uvs /\ firstn 8 (skipn 40 Uv) = uks /\ firstn 48 Uv = Uv.
  Proof.
    destruct c06_salt_len as (?&?&?&?).
    destruct (sub3 (iso_hash R upw uvs []) uvs uks (c06_ihash_len _ _ _)) as (A&B&C&D); try assumption.
    unfold iso_sub in A, B, C, D. cbn [skipn] in A, D. subst Uv. auto.
  Qed.

  Lemma c06_check_owner_V5_ok : forall pw, iso_pw_V5 pw = opw -> kd_check_owner_V5 ed pw = true.
  Proof.
    intros pw Hpw. unfold kd_check_owner_V5. cbn [ed_R ed_O ed_U ed].
    destruct c06_O_parts as (A&B&_). destruct c06_U_parts as (_&_&_&D).
    rewrite A, B, D. unfold iso_pw_V5 in Hpw. rewrite Hpw.
    subst R. rewrite <- hash_agrees by exact HR. apply bytes_eqb_refl.
  Qed.
  Lemma c06_check_user_V5_ok : forall pw, iso_pw_V5 pw = upw -> kd_check_user_V5 ed pw = true.
  Proof.
    intros pw Hpw. unfold kd_check_user_V5. cbn [ed_R ed_U ed].
    destruct c06_U_parts as (A&B&_&_).
    rewrite A, B. unfold iso_pw_V5 in Hpw. rewrite Hpw.
    subst R. rewrite <- hash_agrees by exact HR. apply bytes_eqb_refl.
  Qed.

  (* Algorithm 10 / QPDF's perms check *)
  Lemma c06_perms_valid :
    firstn 12 (kd_process_with_aes key false Pv 1 None) = firstn 12 (kd_perms_clear ed []).
  Proof.
    pose (clear := iso_le32 (c6_P c) ++ [255; 255; 255; 255] ++ [if c6_encmeta c then 84 else 70] ++ [97; 100; 98]
                  ++ firstn 4 (iso_sub rnd 64 4 ++ [0; 0; 0; 0])).
    change Pv with (aes_cipher (aes_key_schedule key) clear).
    assert (Hcl : length clear = 16%nat).
    { subst clear. rewrite !app_length, firstn_length, app_length. cbn [length iso_le32]. lia. }
    assert (Hcb : byte_list clear).
    { subst clear. unfold byte_list. repeat (apply Forall_app; split).
      - unfold iso_le32. repeat constructor; apply N.mod_lt; discriminate.
      - repeat constructor.
      - destruct (c6_encmeta c); repeat constructor.
      - repeat constructor.
      - apply byte_list_firstn. apply Forall_app. split; [unfold iso_sub; apply byte_list_firstn, byte_list_skipn; exact Hrb|repeat constructor]. }
    assert (E : aes_cipher (aes_key_schedule key) clear =
                iso_cbc_enc (aes_key_schedule key) iso_zero_iv (iso_blocks clear)).
    { assert (Hbl : iso_blocks clear = [clear]).
      { unfold iso_blocks. rewrite Hcl. change (16 / 16)%nat with 1%nat. cbn [chunks16].
        destruct clear as [|c0 cl]; [discriminate Hcl|].
        rewrite firstn_all2 by lia. rewrite skipn_all2 by lia. reflexivity. }
      rewrite Hbl. cbn [iso_cbc_enc]. rewrite app_nil_r, xor_zero16 by exact Hcl. reflexivity. }
    rewrite E. rewrite c06_nopad_zero_decrypt.
    - subst clear. unfold kd_perms_clear. rewrite le32_is_iso. cbn [ed_P ed_encmeta ed].
      cbn [iso_le32 app firstn]. reflexivity.
    - apply c06_key_len.
    - rewrite Hcl. reflexivity.
    - intros E0. rewrite E0 in Hcl. discriminate.
    - exact Hcb.
  Qed.

  Lemma c06_recover_owner : forall pw, iso_pw_V5 pw = opw -> kd_recover_key_V5 ed pw = (key, true).
  Proof.
    intros pw Hpw. unfold kd_recover_key_V5.
    assert (Hp2 : firstn 127 (firstn 127 pw) = firstn 127 pw) by (rewrite firstn_firstn; reflexivity).
    rewrite (c06_check_owner_V5_ok (firstn 127 pw)) by (unfold iso_pw_V5 in *; rewrite Hp2; exact Hpw).
    cbn [ed_R ed_O ed_U ed_OE ed_Perms ed].
    destruct c06_O_parts as (_&_&C). destruct c06_U_parts as (_&_&_&D). rewrite C, D.
    unfold iso_pw_V5 in Hpw. rewrite Hpw.
    assert (HOE : firstn 32 OEv = OEv).
    { apply firstn_all2. unfold OEv. rewrite c06_wrap_len by apply c06_ihash_len. lia. }
    rewrite HOE. rewrite <- hash_agrees by exact HR.
    unfold OEv. rewrite c06_unwrap by apply c06_ihash_len.
    rewrite c06_perms_valid. rewrite bytes_eqb_refl || (fold (bytes_eqb (firstn 12 (kd_perms_clear ed [])) (firstn 12 (kd_perms_clear ed []))); rewrite bytes_eqb_refl).
    reflexivity.
  Qed.

  Lemma c06_recover_user : forall pw, iso_pw_V5 pw = upw -> kd_check_owner_V5 ed (firstn 127 pw) = false ->
    kd_recover_key_V5 ed pw = (key, true).
  Proof.
    intros pw Hpw Hno. unfold kd_recover_key_V5. rewrite Hno.
    assert (Hp2 : firstn 127 (firstn 127 pw) = firstn 127 pw) by (rewrite firstn_firstn; reflexivity).
    rewrite (c06_check_user_V5_ok (firstn 127 pw)) by (unfold iso_pw_V5 in *; rewrite Hp2; exact Hpw).
    cbn [ed_R ed_U ed_UE ed_Perms ed].
    destruct c06_U_parts as (_&_&C&_). rewrite C.
    unfold iso_pw_V5 in Hpw. rewrite Hpw.
    assert (HUE : firstn 32 UEv = UEv).
    { apply firstn_all2. unfold UEv. rewrite c06_wrap_len by apply c06_ihash_len. lia. }
    rewrite HUE. rewrite <- hash_agrees by exact HR.
    unfold UEv. rewrite c06_unwrap by apply c06_ihash_len.
    rewrite c06_perms_valid. fold (bytes_eqb (firstn 12 (kd_perms_clear ed [])) (firstn 12 (kd_perms_clear ed []))). rewrite bytes_eqb_refl.
    reflexivity.
  Qed.

  Lemma c06_Perms_len : length Pv = 16%nat.
  Proof.
    unfold Pv, c06_alg10_Perms, c06_ecb_block.
    assert (Hok : cipher_ok (aes_key_schedule (c06_rnd_key s))).
    { apply cipher_ok_schedule. right. apply c06_key_len. }
    destruct Hok as [Hlen _]. apply Hlen.
    rewrite !app_length, firstn_length, app_length. cbn [length iso_le32]. lia.
  Qed.

  (* everything the opening theorem needs, about the dictionary c06_iso_make writes *)
  Lemma c06_V5_facts :
    let dk := c06_iso_make c s in
    length (iso_O (fst dk)) = 48%nat /\ length (iso_U (fst dk)) = 48%nat /\ length (iso_OE (fst dk)) = 32%nat /\
    length (iso_UE (fst dk)) = 32%nat /\ length (iso_Perms (fst dk)) = 16%nat /\ length (snd dk) = 32%nat /\
    (forall pw, iso_pw_V5 pw = iso_pw_V5 (c6s_owner s) ->
       kd_check_owner_V5 (c06_ed_V5 c (fst dk)) pw = true /\ kd_recover_key_V5 (c06_ed_V5 c (fst dk)) pw = (snd dk, true)) /\
    (forall pw, iso_pw_V5 pw = iso_pw_V5 (c6s_user s) ->
       kd_check_user_V5 (c06_ed_V5 c (fst dk)) pw = true /\
       (kd_check_owner_V5 (c06_ed_V5 c (fst dk)) pw = false -> kd_recover_key_V5 (c06_ed_V5 c (fst dk)) pw = (snd dk, true))).
  Proof.
    cbv zeta. rewrite c06_make_V5. cbn [fst snd c06_dict_of iso_O iso_U iso_OE iso_UE iso_Perms].
    unfold c06_ed_V5. cbn [c06_dict_of iso_O iso_U iso_OE iso_UE iso_Perms].
    split; [apply c06_O_len|]. split; [apply c06_U_len|].
    split; [apply c06_wrap_len; apply c06_ihash_len|]. split; [apply c06_wrap_len; apply c06_ihash_len|].
    split; [apply c06_Perms_len|]. split; [apply c06_key_len|].
    split.
    - intros pw Hpw. split; [apply c06_check_owner_V5_ok; exact Hpw|apply c06_recover_owner; exact Hpw].
    - intros pw Hpw. split; [apply c06_check_user_V5_ok; exact Hpw|].
      intros Hno. apply c06_recover_user; [exact Hpw|].
      unfold kd_check_owner_V5 in *. rewrite firstn_firstn. exact Hno.
  Qed.
End OpenV5.


Lemma c06_initialize_V5 : forall c d pz pw,
  c06_supported c = true -> c6_V c = 5 -> c06_to_u32 pz = c6_P c ->
  length (iso_O d) = 48%nat -> length (iso_U d) = 48%nat -> length (iso_OE d) = 32%nat ->
  length (iso_UE d) = 32%nat -> length (iso_Perms d) = 16%nat ->
  let ed := c06_ed_V5 c d in
  kd_check_owner_V5 ed pw || kd_check_user_V5 ed pw = true ->
  exists st, c06_initialize (c06_rdict_of c d pz) (Some (c6_id c)) (C6Password pw) =
               C6Ok st (c06_ws (negb (snd (kd_recover_key_V5 ed pw))) C6WPerms) /\
             c6t_key st = fst (kd_recover_key_V5 ed pw) /\
             c6t_user_matched st = kd_check_user_V5 ed pw /\ c6t_owner_matched st = kd_check_owner_V5 ed pw /\
             c06_public_state_for c st.
Proof.
  intros c d pz pw Hs HV HP HO HU HOE HUE HPm ed Hchk.
  destruct (c06_supported_cases c Hs) as [[EV _]|[[EV _]|[[EV _]|[_ ER]]]]; try (rewrite EV in HV; discriminate).
  unfold c06_initialize, c06_rdict_of.
  cbn [c6r_filter c6r_subfilter c6r_V c6r_R c6r_O c6r_U c6r_P c6r_OE c6r_UE c6r_Perms c6r_Length c6r_encmeta c6r_CF c6r_StmF c6r_StrF c6r_EFF].
  change (bytes_eqb c06_name_standard c06_name_standard) with true. cbn [negb c06_ws app].
  rewrite HV. change (5 <=? 5) with true. change (Z.of_N 5) with 5%Z.
  change (5 <? 5)%Z with false. change (4 <=? 5)%Z with true. change (5 =? 1)%Z with false. change (5 =? 2)%Z with false.
  change (5 =? 4)%Z with false. change (5 =? 5)%Z with true. cbn [orb andb]. cbv iota.
  rewrite !c06_pad_short_id by assumption. rewrite HP.
  assert (Eed : forall em, {| ed_V := Z.to_N 5; ed_R := Z.to_N (Z.of_N (c6_R c)); ed_len := Z.to_N (Z.quot (c06_length_bits 5 (Some (Z.of_N (8 * c6_keylen c)))) 8);
                    ed_P := c6_P c; ed_O := iso_O d; ed_U := iso_U d; ed_OE := iso_OE d; ed_UE := iso_UE d; ed_Perms := iso_Perms d;
                    ed_id1 := c6_id c; ed_encmeta := em |} =
                 {| ed_V := 5; ed_R := c6_R c; ed_len := 32; ed_P := c6_P c; ed_O := iso_O d; ed_U := iso_U d; ed_OE := iso_OE d;
                    ed_UE := iso_UE d; ed_Perms := iso_Perms d; ed_id1 := c6_id c; ed_encmeta := em |}).
  { intros em. rewrite N2Z.id. reflexivity. }
  assert (Tail : forall st, c6t_V st = 5 -> c6t_encmeta st = c6_encmeta c ->
            (c6t_filters st = c06_read_CF (map (fun e => (fst e, C6CfDict (c06_cfm_name (snd e)))) (c6_cf c)) /\
               c6t_cf_stream st = c06_interpretCF (c6t_filters st) (Some (c6_stmf c)) /\
               c6t_cf_string st = c06_interpretCF (c6t_filters st) (Some (c6_strf c))) ->
            c06_public_state_for c st).
  { intros st H1 H2 [A [B C]]. unfold c06_public_state_for. rewrite HV. split; [exact H1|]. split; [exact H2|]. intros _.
    rewrite c06_read_CF_of in A. repeat split; assumption. }
  rewrite !Eed. fold (c06_ed_V5 c d). fold ed.
  assert (HRok : ((2 <=? Z.of_N (c6_R c))%Z && (Z.of_N (c6_R c) <=? 6)%Z && true) = true).
  { destruct ER as [ER|ER]; rewrite ER; reflexivity. }
  rewrite HRok. cbn [negb]. rewrite Hchk. cbn [negb].
  destruct (kd_recover_key_V5 ed pw) as [k pv] eqn:Erec. cbn [fst snd].
  eexists. split; [reflexivity|]. split; [reflexivity|]. split; [reflexivity|]. split; [reflexivity|].
  apply Tail; cbn [c6t_V c6t_encmeta c6t_filters c6t_cf_stream c6t_cf_string]; try reflexivity.
  repeat split; reflexivity.
Qed.

(* decrypt_of_reference_encrypt for the 256-bit schemes (R 5, R 6), passwords: for every supported V 5 choice, secrets
   (passwords of any length; the file key and the four salts any 68 bytes), spelling of /P, and every document,
   - with the owner password (any password whose first 127 bytes are the owner's) the reader model opens without a
     warning (so /Perms validates), reports "owner password matched", recovers the producer's file key and returns
     every leaf as the producer had it;
   - the same with the user password, reporting "user password matched" and not "owner", PROVIDED the user
     password does not also pass the owner check (true unless it equals the owner password - the first case -
     or two SHA-2 values collide: not provable).  *)
Lemma decrypt_of_reference_encrypt_V5_lemma : forall c s pz pw leaves enc,
  c06_wf_cfg c -> c6_V c = 5 -> length (c6s_rnd s) = 68%nat -> byte_list (c6s_rnd s) -> c06_to_u32 pz = c6_P c ->
  let d := fst (c06_iso_make c s) in
  let key := snd (c06_iso_make c s) in
  (iso_pw_V5 pw = iso_pw_V5 (c6s_owner s) \/
   (iso_pw_V5 pw = iso_pw_V5 (c6s_user s) /\ kd_check_owner_V5 (c06_ed_V5 c d) pw = false)) ->
  Forall c06_leaf_wf leaves -> map (c06_iso_encrypt_leaf c key) leaves = map Some enc ->
  exists st, c06_initialize (c06_rdict_of c d pz) (Some (c6_id c)) (C6Password pw) = C6Ok st [] /\
             c6t_key st = key /\
             (iso_pw_V5 pw = iso_pw_V5 (c6s_owner s) -> c6t_owner_matched st = true) /\
             (iso_pw_V5 pw = iso_pw_V5 (c6s_user s) -> c6t_user_matched st = true) /\
             c6t_owner_matched st = kd_check_owner_V5 (c06_ed_V5 c d) pw /\
             map (c06_decrypt_leaf st) enc = map (fun l => C6LeafOk (c6l_data l) false) leaves.
Proof.
  intros c s pz pw leaves enc Hwf HV Hrl Hrb HP d key Hpw HF Henc.
  destruct (c06_supported_cases c (proj1 Hwf)) as [[EV _]|[[EV _]|[[EV _]|[_ ER]]]]; try (rewrite EV in HV; discriminate).
  destruct (c06_V5_facts c s HV ER Hrl Hrb) as (LO & LU & LOE & LUE & LP & LK & Fo & Fu).
  fold d in LO, LU, LOE, LUE, LP, Fo, Fu. fold key in LK, Fo, Fu.
  assert (Hrec : kd_check_owner_V5 (c06_ed_V5 c d) pw || kd_check_user_V5 (c06_ed_V5 c d) pw = true /\
                 kd_recover_key_V5 (c06_ed_V5 c d) pw = (key, true)).
  { destruct Hpw as [Ho|[Hu Hno]].
    - destruct (Fo pw Ho) as [A B]. rewrite A. split; [reflexivity|exact B].
    - destruct (Fu pw Hu) as [A B]. rewrite A, orb_true_r. split; [reflexivity|apply B; exact Hno]. }
  destruct Hrec as [Hchk Hrk].
  destruct (c06_initialize_V5 c d pz pw (proj1 Hwf) HV HP LO LU LOE LUE LP Hchk) as [st [Hi [Hk [Hum [Hom Hpub]]]]].
  rewrite Hrk in Hi, Hk. cbn [fst snd negb c06_ws] in Hi, Hk.
  exists st. split; [exact Hi|]. split; [exact Hk|].
  split; [intros Ho; rewrite Hom; apply (Fo pw Ho)|].
  split; [intros Hu; rewrite Hum; apply (Fu pw Hu)|].
  split; [exact Hom|].
  apply (decrypt_of_reference_encrypt_data_lemma c key st leaves enc Hwf (c06_state_for_of_public c key st Hpub Hk)); try assumption.
  unfold c06_key_fits. rewrite HV. split.
  - unfold rv_consistent. destruct ER as [E|E]; rewrite E; reflexivity.
  - split; [discriminate|]. intros _. exact LK.
Qed.

Print Assumptions decrypt_of_reference_encrypt_V5_lemma.
Print Assumptions decrypt_of_reference_encrypt_hexkey_lemma.
