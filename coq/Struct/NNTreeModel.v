(* Model of qpdf's name/number tree implementation, written from libqpdf/NNTree.cc and
   libqpdf/qpdf/NNTree.hh (NNTreeImpl, NNTreeIterator) -- defects included.

   A tree is the nest of dictionaries hanging under the root object: a node carries its /Limits
   (or none) and either an items array (/Nums or /Names, here a list of key/value pairs) or a
   /Kids array.  Keys are abstract (K with the three-way comparison the code's compareKeys
   computes: integers for number trees, the UTF-8 value of the string compared bytewise for name
   trees); values are integers.

   An iterator is what NNTreeIterator holds: `path` = the kid_number of every PathElement from
   the root down (the PathElement's node is the node reached by the preceding kid numbers: the
   code maintains parent[/Kids][kid_number] == next node), and item_number/2 (-1 = invalid).
   The path is kept also for invalid iterators because the code keeps it (find() of an absent key returns
   one); increment and insertAfter clear it first (fix 0aa534ea).  split() resets the limits of both halves
   after attaching the second one (fix 091ae163).

   Mutation through handles is a function returning the new root.  Exceptions (QPDFExc through
   NNTreeImpl::error, logic_error through util::assertion) are None; warnings are counted.
   No proofs in this file. *)
From QV Require Import Base.Bytes.
Local Open Scope Z_scope.

Definition nn_zlen {A} (l : list A) : Z := Z.of_nat (length l).
Definition nn_znth {A} (l : list A) (i : Z) : option A :=
  if i <? 0 then None else nth_error l (Z.to_nat i).
Fixpoint nn_upd_nth {A} (l : list A) (i : nat) (f : A -> A) : list A :=
  match l, i with
  | [], _ => []
  | x :: r, O => f x :: r
  | x :: r, S j => x :: nn_upd_nth r j f
  end.
(* Array::insert(at, item): at == size appends *)
Definition nn_insert_at {A} (l : list A) (i : nat) (x : A) : list A := firstn i l ++ x :: skipn i l.
Definition nn_erase_at {A} (l : list A) (i : nat) : list A := firstn i l ++ skipn (S i) l.

Section NNTree.
  Variable K : Type.
  Variable kcmp : K -> K -> comparison.   (* compareKeys: Lt = -1, Eq = 0, Gt = 1 *)

  Inductive nnode : Type :=
  | NLeaf (lim : option (K * K)) (items : list (K * Z))
  | NInner (lim : option (K * K)) (kids : list nnode).

  Definition nn_lim (n : nnode) : option (K * K) :=
    match n with NLeaf l _ => l | NInner l _ => l end.
  Definition nn_set_lim (l : option (K * K)) (n : nnode) : nnode :=
    match n with NLeaf _ it => NLeaf l it | NInner _ ks => NInner l ks end.

  Fixpoint nn_get (n : nnode) (p : list Z) : option nnode :=
    match p with
    | [] => Some n
    | i :: p' => match n with
                 | NInner _ kids => match nn_znth kids i with Some k => nn_get k p' | None => None end
                 | NLeaf _ _ => None
                 end
    end.
  Fixpoint nn_upd (n : nnode) (p : list Z) (f : nnode -> nnode) : nnode :=
    match p with
    | [] => f n
    | i :: p' => match n with
                 | NInner l kids => if i <? 0 then n else NInner l (nn_upd_nth kids (Z.to_nat i) (fun k => nn_upd k p' f))
                 | NLeaf _ _ => n
                 end
    end.

  (* iterator + tree + warnings issued so far *)
  Record nnst : Type := NNSt { st_root : nnode; st_path : list Z; st_item : Z; st_warn : Z }.
  Definition st_warned (s : nnst) : nnst := NNSt (st_root s) (st_path s) (st_item s) (st_warn s + 1).
  Definition st_with_root (s : nnst) (r : nnode) := NNSt r (st_path s) (st_item s) (st_warn s).
  Definition st_with_iter (s : nnst) (p : list Z) (i : Z) := NNSt (st_root s) p i (st_warn s).

  (* ---------------------------------------------------------------- resetLimits *)
  (* first/last as resetLimits computes them: items[0] and the last key, or kids[0]./Limits[0]
     and kids[n-1]./Limits[1] *)
  Definition nn_first_last (n : nnode) : option (K * K) :=
    match n with
    | NLeaf _ items =>
        match items with
        | [] => None
        | (k0, _) :: _ => Some (k0, fst (last items (k0, 0)))
        end
    | NInner _ kids =>
        match kids with
        | [] => None
        | k0 :: _ =>
            match nn_lim k0, nn_lim (last kids k0) with
            | Some (f, _), Some (_, l) => Some (f, l)
            | _, _ => None
            end
        end
    end.

  Definition nn_keq (a b : K) : bool := match kcmp a b with Eq => true | _ => false end.

  (* The while(true) loop of resetLimits.  a_node is the node at depth `da` of the path (the
     node reached by the first da kid numbers); J = 0 means parent == path.end(), J = S j means
     parent is path element number j.  Each round either returns or continues with
     a_node = parent->node (depth j) and --parent. *)
  Fixpoint nn_reset_loop (J : nat) (da : nat) (path : list Z) (root : nnode) (warn : Z) : nnode * Z :=
    match J with
    | O => (nn_upd root (firstn da path) (nn_set_lim None), warn)
    | S j =>
        match nn_get root (firstn da path) with
        | None => (root, warn)
        | Some a =>
            let continue_up (root' : nnode) (warn' : Z) :=
              match j with
              | O => (root', warn')
              | S _ => nn_reset_loop j j path root' warn'
              end in
            match nn_first_last a with
            | None => continue_up root (warn + 1)
            | Some (f, l) =>
                let same := match nn_lim a with
                            | Some (of, ol) => nn_keq f of && nn_keq l ol
                            | None => false
                            end in
                if same then (root, warn)
                else
                  (* a_node != path.begin()->node : the root never gets /Limits *)
                  let root' := match da with
                               | O => root
                               | S _ => nn_upd root (firstn da path) (nn_set_lim (Some (f, l)))
                               end in
                  continue_up root' warn
            end
        end
    end.

  (* resetLimits(node at depth d of the iterator's path, its parent element) *)
  Definition nn_reset_limits (d : nat) (s : nnst) : nnst :=
    let '(r, w) := nn_reset_loop d d (st_path s) (st_root s) (st_warn s) in
    NNSt r (st_path s) (st_item s) w.

  (* ---------------------------------------------------------------- split *)
  (* start_idx = (n / 2) & ~1u *)
  Definition nn_start_idx (n : Z) : Z := 2 * ((n / 2) / 2).

  (* the part of split() after the root case: to_split is at depth d >= 1, parent element is
     number d-1.  is_root tells whether the original call was on the root (no recursion then). *)
  Definition nn_split_body (t : Z) (d : nat) (s : nnst) : option nnst :=
    match d with
    | O => None
    | S dp =>
        let path := st_path s in
        match nn_get (st_root s) (firstn d path), nn_znth path (Z.of_nat dp) with
        | Some node, Some pk =>
            let is_leaf := match node with NLeaf _ _ => true | NInner _ _ => false end in
            (* halves; for a leaf, indices are array slots = 2 * pair index *)
            let '(first_node, second0, start_idx) :=
              match node with
              | NLeaf l items =>
                  let st := nn_start_idx (2 * nn_zlen items) in
                  let sp := Z.to_nat (st / 2) in
                  (NLeaf l (firstn sp items), NLeaf None (skipn sp items), st)
              | NInner l kids =>
                  let st := nn_start_idx (nn_zlen kids) in
                  let sp := Z.to_nat st in
                  (NInner l (firstn sp kids), NInner None (skipn sp kids), st)
              end in
            (* first_half now holds the first part; second_node = new object holding the second *)
            let root1 := nn_upd (st_root s) (firstn d path) (fun _ => first_node) in
            (* parent_kids.insert(parent->kid_number + 1, second_node) *)
            match nn_get root1 (firstn dp path) with
            | Some (NInner pl pkids) =>
                if (pk <? 0) || (nn_zlen pkids <? pk + 1) then None else
                (* resetLimits(second_node, parent), now that it is attached: first round on the new
                   node (not the root, no /Limits yet), then up from parent->node *)
                let '(second_node, w1) :=
                  match nn_first_last second0 with
                  | None => (second0, st_warn s + 1)
                  | Some fl => (nn_set_lim (Some fl) second0, st_warn s)
                  end in
                let root2 := nn_upd root1 (firstn dp path)
                               (fun _ => NInner pl (nn_insert_at pkids (Z.to_nat (pk + 1)) second_node)) in
                let '(root3, w3) := match dp with
                                    | O => (root2, w1)
                                    | S _ => nn_reset_loop dp dp path root2 w1
                                    end in
                (* resetLimits(to_split, parent) *)
                let '(root4, w4) := nn_reset_loop d d path root3 w3 in
                let old_idx := if is_leaf then 2 * st_item s
                               else match nn_znth path (Z.of_nat d) with Some x => x | None => 0 end in
                let '(path', item') :=
                  if start_idx <=? old_idx then
                    let p1 := nn_upd_nth path dp (fun x => x + 1) in
                    if is_leaf then (p1, st_item s - start_idx / 2)
                    else (nn_upd_nth p1 d (fun x => x - start_idx), st_item s)
                  else (path, st_item s) in
                Some (NNSt root4 path' item' w4)
            | _ => None   (* "parent node has no /Kids array" *)
            end
        | _, _ => None
        end
    end.

  (* n and threshold as split() computes them; None: assertion "split called on invalid node" *)
  Definition nn_split_needed (t : Z) (node : nnode) : option bool :=
    match node with
    | NInner _ kids =>
        match kids with
        | [] => None   (* nkids == 0 and no items: assertion nitems > 0 fails *)
        | _ => Some (t <? nn_zlen kids)
        end
    | NLeaf _ items =>
        match items with
        | [] => None
        | _ => Some (2 * t <? 2 * nn_zlen items)
        end
    end.

  (* split(node at depth d of the path, its parent element) *)
  Fixpoint nn_split (t : Z) (d : nat) (s : nnst) : option nnst :=
    if st_item s <? 0 then None (* assertion valid() *) else
    match nn_get (st_root s) (firstn d (st_path s)) with
    | None => None
    | Some node =>
        match nn_split_needed t node with
        | None => None
        | Some false => Some s
        | Some true =>
            match d with
            | O =>
                (* root: push everything one level down into a new first child *)
                let first_node := nn_set_lim None node in
                let s1 := NNSt (NInner None [first_node]) (0 :: st_path s) (st_item s) (st_warn s) in
                nn_split_body t 1 s1
            | S dp =>
                match nn_split_body t d s with
                | None => None
                | Some s2 =>
                    (* next = parent->node; resetLimits(next, parent); --parent; split(next, parent) *)
                    let '(r, w) := nn_reset_loop d dp (st_path s2) (st_root s2) (st_warn s2) in
                    nn_split t dp (NNSt r (st_path s2) (st_item s2) w)
                end
            end
        end
    end.

  (* ---------------------------------------------------------------- deepen / increment *)
  (* deepen(a_node, first, allow_empty) where a_node is the node at the end of `path`
     (path elements already present are kept in front).  Result: (ok, state).  The `seen` set
     (loop detection) is handled by the callers: the only way a node can be seen twice in a tree
     value is deepen(tree_root) on an iterator whose path is not empty. *)
  Fixpoint nn_deepen (fuel : nat) (first allow_empty : bool) (node : nnode) (opath : list Z)
           (rpath : list Z) (s : nnst) : bool * nnst :=
    (* rpath: path so far, reversed *)
    match fuel with
    | O => (false, st_warned (st_with_iter s opath (st_item s)))
    | S fu =>
        match node with
        | NLeaf _ items =>
            match items with
            | [] => if allow_empty then (true, st_with_iter s (rev' rpath) (-1))
                    else (false, st_warned (st_with_iter s opath (st_item s)))
            | _ => (true, st_with_iter s (rev' rpath) (if first then 0 else nn_zlen items - 1))
            end
        | NInner _ kids =>
            match kids with
            | [] => (false, st_warned (st_with_iter s opath (st_item s)))
            | _ =>
                let kn := if first then 0 else nn_zlen kids - 1 in
                match nn_znth kids kn with
                | Some next => nn_deepen fu first allow_empty next opath (kn :: rpath) s
                | None => (false, st_warned (st_with_iter s opath (st_item s)))
                end
            end
        end
    end.

  Fixpoint nn_height (n : nnode) : nat :=
    match n with
    | NLeaf _ _ => 1%nat
    | NInner _ kids => S (fold_right (fun k a => Nat.max (nn_height k) a) 0%nat kids)
    end.

  (* deepen(impl.tree_root, ...) on this iterator *)
  Definition nn_deepen_root (first allow_empty : bool) (s : nnst) : bool * nnst :=
    match st_path s with
    | [] => nn_deepen (nn_height (st_root s)) first allow_empty (st_root s) [] [] s
    | _ => (false, st_warned s)    (* "loop detected while traversing name/number tree" *)
    end.

  (* the `while (!path.empty())` loop of increment: the last path element is advanced with
     getNextKid; a kid that cannot be deepened is skipped; an exhausted element is popped.
     rpath is the path reversed (last element first). *)
  Fixpoint nn_next_leaf (fuel : nat) (backward : bool) (rpath : list Z) (s : nnst) : nnst :=
    match fuel with
    | O => st_with_iter s (rev' rpath) (-1)
    | S fu =>
        match rpath with
        | [] => st_with_iter s [] (-1)
        | kn :: rp =>
            let kn' := if backward then kn - 1 else kn + 1 in
            match nn_get (st_root s) (rev' rp) with
            | Some (NInner _ kids) =>
                match nn_znth kids kn' with
                | Some kid =>
                    let cur := rev' (kn' :: rp) in
                    let '(ok, s') := nn_deepen (nn_height kid) (negb backward) false kid cur (kn' :: rp)
                                               (st_with_iter s cur (-1)) in
                    if ok then s' else nn_next_leaf fu backward (kn' :: rp) s'
                | None => nn_next_leaf fu backward rp s
                end
            | _ => st_with_iter s (rev' rpath) (-1)
            end
        end
    end.

  Fixpoint nn_count (n : nnode) : nat :=
    match n with
    | NLeaf _ _ => 1%nat
    | NInner _ kids => S (fold_right (fun k a => (nn_count k + a)%nat) 0%nat kids)
    end.

  Definition nn_leaf_items (s : nnst) : option (list (K * Z)) :=
    match nn_get (st_root s) (st_path s) with
    | Some (NLeaf _ items) => Some items
    | _ => None
    end.

  (* increment(backward).  (In a tree whose leaves hold complete pairs of valid keys the
     warning branches at the end of the loop are not reachable; they are not modelled.) *)
  Definition nn_increment (backward : bool) (s : nnst) : nnst :=
    if st_item s <? 0 then snd (nn_deepen_root (negb backward) true (st_with_iter s [] (st_item s)))  (* path.clear() *)
    else
      match nn_leaf_items s with
      | None => st_with_iter s (st_path s) (-1)
      | Some items =>
          let i' := if backward then st_item s - 1 else st_item s + 1 in
          if (i' <? 0) || (nn_zlen items <=? i') then
            nn_next_leaf (2 * nn_count (st_root s) + 2) backward (rev' (st_path s)) (st_with_iter s (st_path s) (-1))
          else st_with_iter s (st_path s) i'
      end.

  (* ---------------------------------------------------------------- binarySearch *)
  (* cmp_at idx = -1 / 0 / 1 as compareKeyItem / compareKeyKid, None = error() thrown *)
  Fixpoint nn_bs_loop (checks : nat) (n : Z) (cmp_at : Z -> option comparison)
           (step idx found : Z) : option (bool * Z) :=
    match checks with
    | O => Some (false, found)    (* not found: caller applies return_prev_if_not_found *)
    | S c =>
        let step' := Z.max (step / 2) 1 in
        if idx <? n then
          match cmp_at idx with
          | None => None
          | Some Eq => Some (true, idx)
          | Some Gt => nn_bs_loop c n cmp_at step' (idx + step') idx
          | Some Lt => nn_bs_loop c n cmp_at step' (idx - step') found
          end
        else nn_bs_loop c n cmp_at step' (idx - step') found
    end.

  (* max_idx = bit_ceil(n), step = max_idx/2, checks = bit_width(max_idx), idx = step *)
  Definition nn_bit_ceil (n : Z) : Z := if n <=? 1 then 1 else 2 ^ (Z.log2_up n).
  Definition nn_binsearch (n : Z) (cmp_at : Z -> option comparison) (return_prev : bool) : option Z :=
    let max_idx := nn_bit_ceil n in
    let step := max_idx / 2 in
    let checks := Z.to_nat (Z.log2 max_idx + 1) in
    match nn_bs_loop checks n cmp_at step step (-1) with
    | None => None
    | Some (true, r) => Some r
    | Some (false, r) => Some (if return_prev then r else -1)
    end.

  (* compareKeyItem: items[2*idx] of a negative index is null -> not a valid key -> error *)
  Definition nn_cmp_item (key : K) (items : list (K * Z)) (idx : Z) : option comparison :=
    match nn_znth items idx with
    | Some (k, _) => Some (kcmp key k)
    | None => None
    end.
  Definition nn_cmp_kid (key : K) (kids : list nnode) (idx : Z) : option comparison :=
    match nn_znth kids idx with
    | Some kid =>
        match nn_lim kid with
        | Some (lo, hi) =>
            match kcmp key lo with
            | Lt => Some Lt
            | _ => match kcmp key hi with Gt => Some Gt | _ => Some Eq end
            end
        | None => None   (* "node is missing /Limits" *)
        end
    | None => None
    end.

  (* ---------------------------------------------------------------- begin / last / find *)
  Definition nn_fresh (s : nnst) : nnst := st_with_iter s [] (-1).
  Definition nn_begin (s : nnst) : nnst := snd (nn_deepen_root true true (nn_fresh s)).
  Definition nn_last (s : nnst) : nnst := snd (nn_deepen_root false true (nn_fresh s)).

  Definition nn_cur (s : nnst) : option (K * Z) :=
    if st_item s <? 0 then None else
    match nn_leaf_items s with
    | Some items => nn_znth items (st_item s)
    | None => None
    end.

  (* the descent loop of findInternal *)
  Fixpoint nn_find_loop (fuel : nat) (key : K) (prev : bool) (node : nnode) (rpath : list Z) (s : nnst)
    : option nnst :=
    match fuel with
    | O => None
    | S fu =>
        match node with
        | NLeaf _ items =>
            match items with
            | [] => None      (* nitems <= 1 and no kids: "bad node during find" *)
            | _ =>
                match nn_binsearch (nn_zlen items) (nn_cmp_item key items) prev with
                | None => None
                | Some idx => Some (st_with_iter s (rev' rpath) (if 0 <=? idx then idx else -1))
                end
            end
        | NInner _ kids =>
            match kids with
            | [] => None
            | _ =>
                match nn_binsearch (nn_zlen kids) (nn_cmp_kid key kids) true with
                | None => None
                | Some idx =>
                    if idx <? 0 then None  (* "unexpected -1 from binary search of kids" *)
                    else match nn_znth kids idx with
                         | Some kid => nn_find_loop fu key prev kid (idx :: rpath) s
                         | None => None
                         end
                end
            end
        end
    end.

  Definition nn_find (key : K) (prev : bool) (s : nnst) : option nnst :=
    let b := nn_begin s in
    match nn_cur b with
    | None => Some (nn_fresh b)              (* empty tree: end() *)
    | Some (k0, _) =>
        match kcmp key k0 with
        | Lt => Some (nn_fresh b)            (* before the first key *)
        | _ => nn_find_loop (nn_height (st_root b)) key prev (st_root b) [] (nn_fresh b)
        end
    end.

  (* ---------------------------------------------------------------- insert *)
  Definition nn_set_items (items : list (K * Z)) (n : nnode) : nnode :=
    match n with NLeaf l _ => NLeaf l items | _ => n end.

  Definition nn_insert_first (t : Z) (key : K) (v : Z) (s : nnst) : option nnst :=
    let b := nn_begin s in
    match nn_leaf_items b with
    | None => None     (* "unable to find a valid items node" *)
    | Some items =>
        let r := nn_upd (st_root b) (st_path b) (nn_set_items ((key, v) :: items)) in
        let s1 := NNSt r (st_path b) 0 (st_warn b) in
        let d := length (st_path b) in
        nn_split t d (nn_reset_limits d s1)
    end.

  Definition nn_insert_after (t : Z) (key : K) (v : Z) (s : nnst) : option nnst :=
    if st_item s <? 0 then
      (* impl.insertFirst(key, value); path.clear(); deepen(impl.tree_root, true, false) on THIS iterator *)
      match nn_insert_first t key v s with
      | None => None
      | Some s1 =>
          let s2 := NNSt (st_root s1) [] (st_item s) (st_warn s1) in
          Some (snd (nn_deepen (nn_height (st_root s2)) true false (st_root s2) [] [] s2))
      end
    else
      match nn_leaf_items s with
      | None => None   (* "node contains no items array" *)
      | Some items =>
          if nn_zlen items <? st_item s + 1 then None else
          let items' := nn_insert_at items (Z.to_nat (st_item s + 1)) (key, v) in
          let r := nn_upd (st_root s) (st_path s) (nn_set_items items') in
          let d := length (st_path s) in
          match nn_split t d (nn_reset_limits d (st_with_root s r)) with
          | None => None
          | Some s2 => Some (nn_increment false s2)
          end
      end.

  Definition nn_insert (t : Z) (key : K) (v : Z) (s : nnst) : option nnst :=
    match nn_find key true s with
    | None => None
    | Some it =>
        match nn_cur it with
        | None => if st_item it <? 0 then nn_insert_first t key v it else None
        | Some (k, _) =>
            match kcmp key k with
            | Eq =>
                match nn_leaf_items it with
                | Some items =>
                    let items' := nn_upd_nth items (Z.to_nat (st_item it)) (fun kv => (fst kv, v)) in
                    Some (st_with_root it (nn_upd (st_root it) (st_path it) (nn_set_items items')))
                | None => None
                end
            | _ => nn_insert_after t key v it
            end
        end
    end.

  (* ---------------------------------------------------------------- remove *)
  (* the `while (true)` loop of NNTreeIterator::remove after a leaf became empty: rpath is the
     path reversed; its head is lastPathElement() *)
  Fixpoint nn_remove_up (fuel : nat) (rpath : list Z) (s : nnst) : option nnst :=
    match fuel with
    | O => None
    | S fu =>
        match rpath with
        | [] => None
        | kn :: rp =>
            let ppath := rev' rp in            (* path to element->node *)
            match nn_get (st_root s) ppath with
            | Some (NInner l kids) =>
                if (kn <? 0) then None else
                let kids' := nn_erase_at kids (Z.to_nat kn) in
                let r1 := nn_upd (st_root s) ppath (fun _ => NInner l kids') in
                let nkids := nn_zlen kids' in
                if 0 <? nkids then
                  let path := rev' rpath in
                  let de := length rp in       (* depth of element->node *)
                  let '(r2, w2) :=
                    if (kn =? 0) || (kn =? nkids)
                    then nn_reset_loop de de path r1 (st_warn s)
                    else (r1, st_warn s) in
                  let s2 := NNSt r2 path (-1) w2 in
                  if kn =? nkids then
                    (* --element->kid_number; deepen(kids[kid_number], false, true); increment *)
                    let kn' := kn - 1 in
                    let cur := rev' (kn' :: rp) in
                    match nn_get r2 cur with
                    | Some kid =>
                        let '(ok, s3) := nn_deepen (nn_height kid) false true kid cur (kn' :: rp)
                                                   (st_with_iter s2 cur (-1)) in
                        if 0 <=? st_item s3 then Some (nn_increment false s3) else Some s3
                    | None => Some (st_warned (st_with_iter s2 cur (-1)))
                    end
                  else
                    let cur := rev' (kn :: rp) in
                    match nn_get r2 cur with
                    | Some kid =>
                        Some (snd (nn_deepen (nn_height kid) true true kid cur (kn :: rp) (st_with_iter s2 cur (-1))))
                    | None => Some (st_warned (st_with_iter s2 cur (-1)))
                    end
                else
                  match rp with
                  | [] =>
                      (* erased the very last item: the root becomes an empty items array *)
                      Some (NNSt (NLeaf l []) [] (-1) (st_warn s))
                  | _ => nn_remove_up fu rp (st_with_root s r1)
                  end
            | _ => None
            end
        end
    end.

  Definition nn_iter_remove (s : nnst) : option nnst :=
    if st_item s <? 0 then None (* assertion *) else
    match nn_leaf_items s with
    | None => None
    | Some items =>
        if nn_zlen items <? st_item s + 1 then None else
        let items' := nn_erase_at items (Z.to_nat (st_item s)) in
        let r := nn_upd (st_root s) (st_path s) (nn_set_items items') in
        let n' := nn_zlen items' in
        let d := length (st_path s) in
        let s1 := st_with_root s r in
        if 0 <? n' then
          let s2 := if (st_item s =? 0) || (st_item s =? n') then nn_reset_limits d s1 else s1 in
          if st_item s =? n' then
            Some (nn_increment false (st_with_iter s2 (st_path s2) (st_item s - 1)))
          else Some s2
        else
          match st_path s with
          | [] => Some (st_with_iter s1 [] (-1))
          | _ => nn_remove_up (S (length (st_path s))) (rev' (st_path s)) s1
          end
    end.

  Definition nn_remove (key : K) (s : nnst) : option (option Z * nnst) :=
    match nn_find key false s with
    | None => None
    | Some it =>
        match nn_cur it with
        | None => if st_item it <? 0 then Some (None, it) else None
        | Some (_, v) =>
            match nn_iter_remove it with
            | Some s' => Some (Some v, s')
            | None => None
            end
        end
    end.

  (* ---------------------------------------------------------------- histories *)
  Inductive nnop : Type :=
  | OpInsert (k : K) (v : Z) | OpRemove (k : K) | OpFind (k : K) | OpFindLE (k : K)
  | OpBegin | OpLast | OpEnd | OpNext | OpPrev | OpInsAfter (k : K) (v : Z) | OpIterRemove.

  Inductive nnres : Type :=
  | RIter (cur : option (K * Z))       (* where the (current) iterator is *)
  | RRemoved (v : option Z)            (* remove by key: removed value / not found *)
  | RErr.

  (* one call of the helper API.  The driver keeps ONE current iterator: insert/find/begin/last/end
     replace it by the returned iterator, remove-by-key by end(). *)
  Definition nn_step (t : Z) (op : nnop) (s : nnst) : nnres * nnst :=
    let it r := match r with Some s' => (RIter (nn_cur s'), s') | None => (RErr, s) end in
    match op with
    | OpInsert k v => it (nn_insert t k v s)
    | OpRemove k => match nn_remove k s with
                    | Some (v, s') => (RRemoved v, nn_fresh s')
                    | None => (RErr, s)
                    end
    | OpFind k => it (nn_find k false s)
    | OpFindLE k => it (nn_find k true s)
    | OpBegin => it (Some (nn_begin s))
    | OpLast => it (Some (nn_last s))
    | OpEnd => it (Some (nn_fresh s))
    | OpNext => it (Some (nn_increment false s))
    | OpPrev => it (Some (nn_increment true s))
    | OpInsAfter k v => it (nn_insert_after t k v s)
    | OpIterRemove => it (nn_iter_remove s)
    end.

  (* run a history; every step yields the result, the warnings issued by that step, and the tree *)
  Fixpoint nn_run_acc (t : Z) (ops : list nnop) (s : nnst) (acc : list (nnres * Z * nnode))
    : list (nnres * Z * nnode) :=
    match ops with
    | [] => rev' acc
    | op :: ops' =>
        let '(r, s') := nn_step t op (NNSt (st_root s) (st_path s) (st_item s) 0) in
        nn_run_acc t ops' s' ((r, st_warn s', st_root s') :: acc)
    end.
  Definition nn_init (root : nnode) : nnst := NNSt root [] (-1) 0.
  Definition nn_run (t : Z) (root : nnode) (ops : list nnop) : list (nnres * Z * nnode) :=
    nn_run_acc t ops (nn_init root) [].
  Fixpoint nn_final (t : Z) (ops : list nnop) (s : nnst) : nnst :=
    match ops with
    | [] => s
    | op :: ops' => nn_final t ops' (snd (nn_step t op s))
    end.
End NNTree.

Arguments NLeaf {K}. Arguments NInner {K}.
Arguments OpInsert {K}. Arguments OpRemove {K}. Arguments OpFind {K}. Arguments OpFindLE {K}.
Arguments OpBegin {K}. Arguments OpLast {K}. Arguments OpEnd {K}. Arguments OpNext {K}.
Arguments OpPrev {K}. Arguments OpInsAfter {K}. Arguments OpIterRemove {K}.
Arguments RIter {K}. Arguments RRemoved {K}. Arguments RErr {K}.

(* key orders of the two tree kinds *)
Definition nn_zcmp : Z -> Z -> comparison := Z.compare.
(* std::string operator< on getUTF8Value(): unsigned bytewise lexicographic *)
Fixpoint nn_scmp (a b : list N) : comparison :=
  match a, b with
  | [], [] => Eq
  | [], _ :: _ => Lt
  | _ :: _, [] => Gt
  | x :: a', y :: b' => match N.compare x y with Eq => nn_scmp a' b' | c => c end
  end.
