(* AES-128 / AES-256 block cipher as FIPS-197 defines it (Cipher, InvCipher, KeyExpansion), on a
   state of 16 bytes in input order (index 4*column + row). Bytes inside the cipher are pairs of
   nibbles (Nib.v) so that SubBytes and xtime are table look-ups and the extracted code is fast;
   the interface (keys, blocks) is lists of N. The S-box tables are those of FIPS-197 figure 7 / 14.
   Tied to the code by the correspondence with Pl_AES_PDF of libqpdf.a (ECB mode, single blocks)
   under every crypto provider; FIPS-197 appendix vectors below. *)
From QV Require Import Base.Bytes Crypto.Nib.
Local Open Scope N_scope.

Definition aes_sbox (x : hb) : hb :=
  match x with
  | (X0, X0) => (X6, X3) | (X0, X1) => (X7, XC) | (X0, X2) => (X7, X7) | (X0, X3) => (X7, XB) | (X0, X4) => (XF, X2) | (X0, X5) => (X6, XB) | (X0, X6) => (X6, XF) | (X0, X7) => (XC, X5) | (X0, X8) => (X3, X0) | (X0, X9) => (X0, X1) | (X0, XA) => (X6, X7) | (X0, XB) => (X2, XB) | (X0, XC) => (XF, XE) | (X0, XD) => (XD, X7) | (X0, XE) => (XA, XB) | (X0, XF) => (X7, X6)
  | (X1, X0) => (XC, XA) | (X1, X1) => (X8, X2) | (X1, X2) => (XC, X9) | (X1, X3) => (X7, XD) | (X1, X4) => (XF, XA) | (X1, X5) => (X5, X9) | (X1, X6) => (X4, X7) | (X1, X7) => (XF, X0) | (X1, X8) => (XA, XD) | (X1, X9) => (XD, X4) | (X1, XA) => (XA, X2) | (X1, XB) => (XA, XF) | (X1, XC) => (X9, XC) | (X1, XD) => (XA, X4) | (X1, XE) => (X7, X2) | (X1, XF) => (XC, X0)
  | (X2, X0) => (XB, X7) | (X2, X1) => (XF, XD) | (X2, X2) => (X9, X3) | (X2, X3) => (X2, X6) | (X2, X4) => (X3, X6) | (X2, X5) => (X3, XF) | (X2, X6) => (XF, X7) | (X2, X7) => (XC, XC) | (X2, X8) => (X3, X4) | (X2, X9) => (XA, X5) | (X2, XA) => (XE, X5) | (X2, XB) => (XF, X1) | (X2, XC) => (X7, X1) | (X2, XD) => (XD, X8) | (X2, XE) => (X3, X1) | (X2, XF) => (X1, X5)
  | (X3, X0) => (X0, X4) | (X3, X1) => (XC, X7) | (X3, X2) => (X2, X3) | (X3, X3) => (XC, X3) | (X3, X4) => (X1, X8) | (X3, X5) => (X9, X6) | (X3, X6) => (X0, X5) | (X3, X7) => (X9, XA) | (X3, X8) => (X0, X7) | (X3, X9) => (X1, X2) | (X3, XA) => (X8, X0) | (X3, XB) => (XE, X2) | (X3, XC) => (XE, XB) | (X3, XD) => (X2, X7) | (X3, XE) => (XB, X2) | (X3, XF) => (X7, X5)
  | (X4, X0) => (X0, X9) | (X4, X1) => (X8, X3) | (X4, X2) => (X2, XC) | (X4, X3) => (X1, XA) | (X4, X4) => (X1, XB) | (X4, X5) => (X6, XE) | (X4, X6) => (X5, XA) | (X4, X7) => (XA, X0) | (X4, X8) => (X5, X2) | (X4, X9) => (X3, XB) | (X4, XA) => (XD, X6) | (X4, XB) => (XB, X3) | (X4, XC) => (X2, X9) | (X4, XD) => (XE, X3) | (X4, XE) => (X2, XF) | (X4, XF) => (X8, X4)
  | (X5, X0) => (X5, X3) | (X5, X1) => (XD, X1) | (X5, X2) => (X0, X0) | (X5, X3) => (XE, XD) | (X5, X4) => (X2, X0) | (X5, X5) => (XF, XC) | (X5, X6) => (XB, X1) | (X5, X7) => (X5, XB) | (X5, X8) => (X6, XA) | (X5, X9) => (XC, XB) | (X5, XA) => (XB, XE) | (X5, XB) => (X3, X9) | (X5, XC) => (X4, XA) | (X5, XD) => (X4, XC) | (X5, XE) => (X5, X8) | (X5, XF) => (XC, XF)
  | (X6, X0) => (XD, X0) | (X6, X1) => (XE, XF) | (X6, X2) => (XA, XA) | (X6, X3) => (XF, XB) | (X6, X4) => (X4, X3) | (X6, X5) => (X4, XD) | (X6, X6) => (X3, X3) | (X6, X7) => (X8, X5) | (X6, X8) => (X4, X5) | (X6, X9) => (XF, X9) | (X6, XA) => (X0, X2) | (X6, XB) => (X7, XF) | (X6, XC) => (X5, X0) | (X6, XD) => (X3, XC) | (X6, XE) => (X9, XF) | (X6, XF) => (XA, X8)
  | (X7, X0) => (X5, X1) | (X7, X1) => (XA, X3) | (X7, X2) => (X4, X0) | (X7, X3) => (X8, XF) | (X7, X4) => (X9, X2) | (X7, X5) => (X9, XD) | (X7, X6) => (X3, X8) | (X7, X7) => (XF, X5) | (X7, X8) => (XB, XC) | (X7, X9) => (XB, X6) | (X7, XA) => (XD, XA) | (X7, XB) => (X2, X1) | (X7, XC) => (X1, X0) | (X7, XD) => (XF, XF) | (X7, XE) => (XF, X3) | (X7, XF) => (XD, X2)
  | (X8, X0) => (XC, XD) | (X8, X1) => (X0, XC) | (X8, X2) => (X1, X3) | (X8, X3) => (XE, XC) | (X8, X4) => (X5, XF) | (X8, X5) => (X9, X7) | (X8, X6) => (X4, X4) | (X8, X7) => (X1, X7) | (X8, X8) => (XC, X4) | (X8, X9) => (XA, X7) | (X8, XA) => (X7, XE) | (X8, XB) => (X3, XD) | (X8, XC) => (X6, X4) | (X8, XD) => (X5, XD) | (X8, XE) => (X1, X9) | (X8, XF) => (X7, X3)
  | (X9, X0) => (X6, X0) | (X9, X1) => (X8, X1) | (X9, X2) => (X4, XF) | (X9, X3) => (XD, XC) | (X9, X4) => (X2, X2) | (X9, X5) => (X2, XA) | (X9, X6) => (X9, X0) | (X9, X7) => (X8, X8) | (X9, X8) => (X4, X6) | (X9, X9) => (XE, XE) | (X9, XA) => (XB, X8) | (X9, XB) => (X1, X4) | (X9, XC) => (XD, XE) | (X9, XD) => (X5, XE) | (X9, XE) => (X0, XB) | (X9, XF) => (XD, XB)
  | (XA, X0) => (XE, X0) | (XA, X1) => (X3, X2) | (XA, X2) => (X3, XA) | (XA, X3) => (X0, XA) | (XA, X4) => (X4, X9) | (XA, X5) => (X0, X6) | (XA, X6) => (X2, X4) | (XA, X7) => (X5, XC) | (XA, X8) => (XC, X2) | (XA, X9) => (XD, X3) | (XA, XA) => (XA, XC) | (XA, XB) => (X6, X2) | (XA, XC) => (X9, X1) | (XA, XD) => (X9, X5) | (XA, XE) => (XE, X4) | (XA, XF) => (X7, X9)
  | (XB, X0) => (XE, X7) | (XB, X1) => (XC, X8) | (XB, X2) => (X3, X7) | (XB, X3) => (X6, XD) | (XB, X4) => (X8, XD) | (XB, X5) => (XD, X5) | (XB, X6) => (X4, XE) | (XB, X7) => (XA, X9) | (XB, X8) => (X6, XC) | (XB, X9) => (X5, X6) | (XB, XA) => (XF, X4) | (XB, XB) => (XE, XA) | (XB, XC) => (X6, X5) | (XB, XD) => (X7, XA) | (XB, XE) => (XA, XE) | (XB, XF) => (X0, X8)
  | (XC, X0) => (XB, XA) | (XC, X1) => (X7, X8) | (XC, X2) => (X2, X5) | (XC, X3) => (X2, XE) | (XC, X4) => (X1, XC) | (XC, X5) => (XA, X6) | (XC, X6) => (XB, X4) | (XC, X7) => (XC, X6) | (XC, X8) => (XE, X8) | (XC, X9) => (XD, XD) | (XC, XA) => (X7, X4) | (XC, XB) => (X1, XF) | (XC, XC) => (X4, XB) | (XC, XD) => (XB, XD) | (XC, XE) => (X8, XB) | (XC, XF) => (X8, XA)
  | (XD, X0) => (X7, X0) | (XD, X1) => (X3, XE) | (XD, X2) => (XB, X5) | (XD, X3) => (X6, X6) | (XD, X4) => (X4, X8) | (XD, X5) => (X0, X3) | (XD, X6) => (XF, X6) | (XD, X7) => (X0, XE) | (XD, X8) => (X6, X1) | (XD, X9) => (X3, X5) | (XD, XA) => (X5, X7) | (XD, XB) => (XB, X9) | (XD, XC) => (X8, X6) | (XD, XD) => (XC, X1) | (XD, XE) => (X1, XD) | (XD, XF) => (X9, XE)
  | (XE, X0) => (XE, X1) | (XE, X1) => (XF, X8) | (XE, X2) => (X9, X8) | (XE, X3) => (X1, X1) | (XE, X4) => (X6, X9) | (XE, X5) => (XD, X9) | (XE, X6) => (X8, XE) | (XE, X7) => (X9, X4) | (XE, X8) => (X9, XB) | (XE, X9) => (X1, XE) | (XE, XA) => (X8, X7) | (XE, XB) => (XE, X9) | (XE, XC) => (XC, XE) | (XE, XD) => (X5, X5) | (XE, XE) => (X2, X8) | (XE, XF) => (XD, XF)
  | (XF, X0) => (X8, XC) | (XF, X1) => (XA, X1) | (XF, X2) => (X8, X9) | (XF, X3) => (X0, XD) | (XF, X4) => (XB, XF) | (XF, X5) => (XE, X6) | (XF, X6) => (X4, X2) | (XF, X7) => (X6, X8) | (XF, X8) => (X4, X1) | (XF, X9) => (X9, X9) | (XF, XA) => (X2, XD) | (XF, XB) => (X0, XF) | (XF, XC) => (XB, X0) | (XF, XD) => (X5, X4) | (XF, XE) => (XB, XB) | (XF, XF) => (X1, X6)
  end.

Definition aes_isbox (x : hb) : hb :=
  match x with
  | (X0, X0) => (X5, X2) | (X0, X1) => (X0, X9) | (X0, X2) => (X6, XA) | (X0, X3) => (XD, X5) | (X0, X4) => (X3, X0) | (X0, X5) => (X3, X6) | (X0, X6) => (XA, X5) | (X0, X7) => (X3, X8) | (X0, X8) => (XB, XF) | (X0, X9) => (X4, X0) | (X0, XA) => (XA, X3) | (X0, XB) => (X9, XE) | (X0, XC) => (X8, X1) | (X0, XD) => (XF, X3) | (X0, XE) => (XD, X7) | (X0, XF) => (XF, XB)
  | (X1, X0) => (X7, XC) | (X1, X1) => (XE, X3) | (X1, X2) => (X3, X9) | (X1, X3) => (X8, X2) | (X1, X4) => (X9, XB) | (X1, X5) => (X2, XF) | (X1, X6) => (XF, XF) | (X1, X7) => (X8, X7) | (X1, X8) => (X3, X4) | (X1, X9) => (X8, XE) | (X1, XA) => (X4, X3) | (X1, XB) => (X4, X4) | (X1, XC) => (XC, X4) | (X1, XD) => (XD, XE) | (X1, XE) => (XE, X9) | (X1, XF) => (XC, XB)
  | (X2, X0) => (X5, X4) | (X2, X1) => (X7, XB) | (X2, X2) => (X9, X4) | (X2, X3) => (X3, X2) | (X2, X4) => (XA, X6) | (X2, X5) => (XC, X2) | (X2, X6) => (X2, X3) | (X2, X7) => (X3, XD) | (X2, X8) => (XE, XE) | (X2, X9) => (X4, XC) | (X2, XA) => (X9, X5) | (X2, XB) => (X0, XB) | (X2, XC) => (X4, X2) | (X2, XD) => (XF, XA) | (X2, XE) => (XC, X3) | (X2, XF) => (X4, XE)
  | (X3, X0) => (X0, X8) | (X3, X1) => (X2, XE) | (X3, X2) => (XA, X1) | (X3, X3) => (X6, X6) | (X3, X4) => (X2, X8) | (X3, X5) => (XD, X9) | (X3, X6) => (X2, X4) | (X3, X7) => (XB, X2) | (X3, X8) => (X7, X6) | (X3, X9) => (X5, XB) | (X3, XA) => (XA, X2) | (X3, XB) => (X4, X9) | (X3, XC) => (X6, XD) | (X3, XD) => (X8, XB) | (X3, XE) => (XD, X1) | (X3, XF) => (X2, X5)
  | (X4, X0) => (X7, X2) | (X4, X1) => (XF, X8) | (X4, X2) => (XF, X6) | (X4, X3) => (X6, X4) | (X4, X4) => (X8, X6) | (X4, X5) => (X6, X8) | (X4, X6) => (X9, X8) | (X4, X7) => (X1, X6) | (X4, X8) => (XD, X4) | (X4, X9) => (XA, X4) | (X4, XA) => (X5, XC) | (X4, XB) => (XC, XC) | (X4, XC) => (X5, XD) | (X4, XD) => (X6, X5) | (X4, XE) => (XB, X6) | (X4, XF) => (X9, X2)
  | (X5, X0) => (X6, XC) | (X5, X1) => (X7, X0) | (X5, X2) => (X4, X8) | (X5, X3) => (X5, X0) | (X5, X4) => (XF, XD) | (X5, X5) => (XE, XD) | (X5, X6) => (XB, X9) | (X5, X7) => (XD, XA) | (X5, X8) => (X5, XE) | (X5, X9) => (X1, X5) | (X5, XA) => (X4, X6) | (X5, XB) => (X5, X7) | (X5, XC) => (XA, X7) | (X5, XD) => (X8, XD) | (X5, XE) => (X9, XD) | (X5, XF) => (X8, X4)
  | (X6, X0) => (X9, X0) | (X6, X1) => (XD, X8) | (X6, X2) => (XA, XB) | (X6, X3) => (X0, X0) | (X6, X4) => (X8, XC) | (X6, X5) => (XB, XC) | (X6, X6) => (XD, X3) | (X6, X7) => (X0, XA) | (X6, X8) => (XF, X7) | (X6, X9) => (XE, X4) | (X6, XA) => (X5, X8) | (X6, XB) => (X0, X5) | (X6, XC) => (XB, X8) | (X6, XD) => (XB, X3) | (X6, XE) => (X4, X5) | (X6, XF) => (X0, X6)
  | (X7, X0) => (XD, X0) | (X7, X1) => (X2, XC) | (X7, X2) => (X1, XE) | (X7, X3) => (X8, XF) | (X7, X4) => (XC, XA) | (X7, X5) => (X3, XF) | (X7, X6) => (X0, XF) | (X7, X7) => (X0, X2) | (X7, X8) => (XC, X1) | (X7, X9) => (XA, XF) | (X7, XA) => (XB, XD) | (X7, XB) => (X0, X3) | (X7, XC) => (X0, X1) | (X7, XD) => (X1, X3) | (X7, XE) => (X8, XA) | (X7, XF) => (X6, XB)
  | (X8, X0) => (X3, XA) | (X8, X1) => (X9, X1) | (X8, X2) => (X1, X1) | (X8, X3) => (X4, X1) | (X8, X4) => (X4, XF) | (X8, X5) => (X6, X7) | (X8, X6) => (XD, XC) | (X8, X7) => (XE, XA) | (X8, X8) => (X9, X7) | (X8, X9) => (XF, X2) | (X8, XA) => (XC, XF) | (X8, XB) => (XC, XE) | (X8, XC) => (XF, X0) | (X8, XD) => (XB, X4) | (X8, XE) => (XE, X6) | (X8, XF) => (X7, X3)
  | (X9, X0) => (X9, X6) | (X9, X1) => (XA, XC) | (X9, X2) => (X7, X4) | (X9, X3) => (X2, X2) | (X9, X4) => (XE, X7) | (X9, X5) => (XA, XD) | (X9, X6) => (X3, X5) | (X9, X7) => (X8, X5) | (X9, X8) => (XE, X2) | (X9, X9) => (XF, X9) | (X9, XA) => (X3, X7) | (X9, XB) => (XE, X8) | (X9, XC) => (X1, XC) | (X9, XD) => (X7, X5) | (X9, XE) => (XD, XF) | (X9, XF) => (X6, XE)
  | (XA, X0) => (X4, X7) | (XA, X1) => (XF, X1) | (XA, X2) => (X1, XA) | (XA, X3) => (X7, X1) | (XA, X4) => (X1, XD) | (XA, X5) => (X2, X9) | (XA, X6) => (XC, X5) | (XA, X7) => (X8, X9) | (XA, X8) => (X6, XF) | (XA, X9) => (XB, X7) | (XA, XA) => (X6, X2) | (XA, XB) => (X0, XE) | (XA, XC) => (XA, XA) | (XA, XD) => (X1, X8) | (XA, XE) => (XB, XE) | (XA, XF) => (X1, XB)
  | (XB, X0) => (XF, XC) | (XB, X1) => (X5, X6) | (XB, X2) => (X3, XE) | (XB, X3) => (X4, XB) | (XB, X4) => (XC, X6) | (XB, X5) => (XD, X2) | (XB, X6) => (X7, X9) | (XB, X7) => (X2, X0) | (XB, X8) => (X9, XA) | (XB, X9) => (XD, XB) | (XB, XA) => (XC, X0) | (XB, XB) => (XF, XE) | (XB, XC) => (X7, X8) | (XB, XD) => (XC, XD) | (XB, XE) => (X5, XA) | (XB, XF) => (XF, X4)
  | (XC, X0) => (X1, XF) | (XC, X1) => (XD, XD) | (XC, X2) => (XA, X8) | (XC, X3) => (X3, X3) | (XC, X4) => (X8, X8) | (XC, X5) => (X0, X7) | (XC, X6) => (XC, X7) | (XC, X7) => (X3, X1) | (XC, X8) => (XB, X1) | (XC, X9) => (X1, X2) | (XC, XA) => (X1, X0) | (XC, XB) => (X5, X9) | (XC, XC) => (X2, X7) | (XC, XD) => (X8, X0) | (XC, XE) => (XE, XC) | (XC, XF) => (X5, XF)
  | (XD, X0) => (X6, X0) | (XD, X1) => (X5, X1) | (XD, X2) => (X7, XF) | (XD, X3) => (XA, X9) | (XD, X4) => (X1, X9) | (XD, X5) => (XB, X5) | (XD, X6) => (X4, XA) | (XD, X7) => (X0, XD) | (XD, X8) => (X2, XD) | (XD, X9) => (XE, X5) | (XD, XA) => (X7, XA) | (XD, XB) => (X9, XF) | (XD, XC) => (X9, X3) | (XD, XD) => (XC, X9) | (XD, XE) => (X9, XC) | (XD, XF) => (XE, XF)
  | (XE, X0) => (XA, X0) | (XE, X1) => (XE, X0) | (XE, X2) => (X3, XB) | (XE, X3) => (X4, XD) | (XE, X4) => (XA, XE) | (XE, X5) => (X2, XA) | (XE, X6) => (XF, X5) | (XE, X7) => (XB, X0) | (XE, X8) => (XC, X8) | (XE, X9) => (XE, XB) | (XE, XA) => (XB, XB) | (XE, XB) => (X3, XC) | (XE, XC) => (X8, X3) | (XE, XD) => (X5, X3) | (XE, XE) => (X9, X9) | (XE, XF) => (X6, X1)
  | (XF, X0) => (X1, X7) | (XF, X1) => (X2, XB) | (XF, X2) => (X0, X4) | (XF, X3) => (X7, XE) | (XF, X4) => (XB, XA) | (XF, X5) => (X7, X7) | (XF, X6) => (XD, X6) | (XF, X7) => (X2, X6) | (XF, X8) => (XE, X1) | (XF, X9) => (X6, X9) | (XF, XA) => (X1, X4) | (XF, XB) => (X6, X3) | (XF, XC) => (X5, X5) | (XF, XD) => (X2, X1) | (XF, XE) => (X0, XC) | (XF, XF) => (X7, XD)
  end.

(* multiplication by x in GF(2^8) modulo x^8 + x^4 + x^3 + x + 1 *)
Definition xtime (x : hb) : hb :=
  match x with
  | (X0, X0) => (X0, X0) | (X0, X1) => (X0, X2) | (X0, X2) => (X0, X4) | (X0, X3) => (X0, X6) | (X0, X4) => (X0, X8) | (X0, X5) => (X0, XA) | (X0, X6) => (X0, XC) | (X0, X7) => (X0, XE) | (X0, X8) => (X1, X0) | (X0, X9) => (X1, X2) | (X0, XA) => (X1, X4) | (X0, XB) => (X1, X6) | (X0, XC) => (X1, X8) | (X0, XD) => (X1, XA) | (X0, XE) => (X1, XC) | (X0, XF) => (X1, XE)
  | (X1, X0) => (X2, X0) | (X1, X1) => (X2, X2) | (X1, X2) => (X2, X4) | (X1, X3) => (X2, X6) | (X1, X4) => (X2, X8) | (X1, X5) => (X2, XA) | (X1, X6) => (X2, XC) | (X1, X7) => (X2, XE) | (X1, X8) => (X3, X0) | (X1, X9) => (X3, X2) | (X1, XA) => (X3, X4) | (X1, XB) => (X3, X6) | (X1, XC) => (X3, X8) | (X1, XD) => (X3, XA) | (X1, XE) => (X3, XC) | (X1, XF) => (X3, XE)
  | (X2, X0) => (X4, X0) | (X2, X1) => (X4, X2) | (X2, X2) => (X4, X4) | (X2, X3) => (X4, X6) | (X2, X4) => (X4, X8) | (X2, X5) => (X4, XA) | (X2, X6) => (X4, XC) | (X2, X7) => (X4, XE) | (X2, X8) => (X5, X0) | (X2, X9) => (X5, X2) | (X2, XA) => (X5, X4) | (X2, XB) => (X5, X6) | (X2, XC) => (X5, X8) | (X2, XD) => (X5, XA) | (X2, XE) => (X5, XC) | (X2, XF) => (X5, XE)
  | (X3, X0) => (X6, X0) | (X3, X1) => (X6, X2) | (X3, X2) => (X6, X4) | (X3, X3) => (X6, X6) | (X3, X4) => (X6, X8) | (X3, X5) => (X6, XA) | (X3, X6) => (X6, XC) | (X3, X7) => (X6, XE) | (X3, X8) => (X7, X0) | (X3, X9) => (X7, X2) | (X3, XA) => (X7, X4) | (X3, XB) => (X7, X6) | (X3, XC) => (X7, X8) | (X3, XD) => (X7, XA) | (X3, XE) => (X7, XC) | (X3, XF) => (X7, XE)
  | (X4, X0) => (X8, X0) | (X4, X1) => (X8, X2) | (X4, X2) => (X8, X4) | (X4, X3) => (X8, X6) | (X4, X4) => (X8, X8) | (X4, X5) => (X8, XA) | (X4, X6) => (X8, XC) | (X4, X7) => (X8, XE) | (X4, X8) => (X9, X0) | (X4, X9) => (X9, X2) | (X4, XA) => (X9, X4) | (X4, XB) => (X9, X6) | (X4, XC) => (X9, X8) | (X4, XD) => (X9, XA) | (X4, XE) => (X9, XC) | (X4, XF) => (X9, XE)
  | (X5, X0) => (XA, X0) | (X5, X1) => (XA, X2) | (X5, X2) => (XA, X4) | (X5, X3) => (XA, X6) | (X5, X4) => (XA, X8) | (X5, X5) => (XA, XA) | (X5, X6) => (XA, XC) | (X5, X7) => (XA, XE) | (X5, X8) => (XB, X0) | (X5, X9) => (XB, X2) | (X5, XA) => (XB, X4) | (X5, XB) => (XB, X6) | (X5, XC) => (XB, X8) | (X5, XD) => (XB, XA) | (X5, XE) => (XB, XC) | (X5, XF) => (XB, XE)
  | (X6, X0) => (XC, X0) | (X6, X1) => (XC, X2) | (X6, X2) => (XC, X4) | (X6, X3) => (XC, X6) | (X6, X4) => (XC, X8) | (X6, X5) => (XC, XA) | (X6, X6) => (XC, XC) | (X6, X7) => (XC, XE) | (X6, X8) => (XD, X0) | (X6, X9) => (XD, X2) | (X6, XA) => (XD, X4) | (X6, XB) => (XD, X6) | (X6, XC) => (XD, X8) | (X6, XD) => (XD, XA) | (X6, XE) => (XD, XC) | (X6, XF) => (XD, XE)
  | (X7, X0) => (XE, X0) | (X7, X1) => (XE, X2) | (X7, X2) => (XE, X4) | (X7, X3) => (XE, X6) | (X7, X4) => (XE, X8) | (X7, X5) => (XE, XA) | (X7, X6) => (XE, XC) | (X7, X7) => (XE, XE) | (X7, X8) => (XF, X0) | (X7, X9) => (XF, X2) | (X7, XA) => (XF, X4) | (X7, XB) => (XF, X6) | (X7, XC) => (XF, X8) | (X7, XD) => (XF, XA) | (X7, XE) => (XF, XC) | (X7, XF) => (XF, XE)
  | (X8, X0) => (X1, XB) | (X8, X1) => (X1, X9) | (X8, X2) => (X1, XF) | (X8, X3) => (X1, XD) | (X8, X4) => (X1, X3) | (X8, X5) => (X1, X1) | (X8, X6) => (X1, X7) | (X8, X7) => (X1, X5) | (X8, X8) => (X0, XB) | (X8, X9) => (X0, X9) | (X8, XA) => (X0, XF) | (X8, XB) => (X0, XD) | (X8, XC) => (X0, X3) | (X8, XD) => (X0, X1) | (X8, XE) => (X0, X7) | (X8, XF) => (X0, X5)
  | (X9, X0) => (X3, XB) | (X9, X1) => (X3, X9) | (X9, X2) => (X3, XF) | (X9, X3) => (X3, XD) | (X9, X4) => (X3, X3) | (X9, X5) => (X3, X1) | (X9, X6) => (X3, X7) | (X9, X7) => (X3, X5) | (X9, X8) => (X2, XB) | (X9, X9) => (X2, X9) | (X9, XA) => (X2, XF) | (X9, XB) => (X2, XD) | (X9, XC) => (X2, X3) | (X9, XD) => (X2, X1) | (X9, XE) => (X2, X7) | (X9, XF) => (X2, X5)
  | (XA, X0) => (X5, XB) | (XA, X1) => (X5, X9) | (XA, X2) => (X5, XF) | (XA, X3) => (X5, XD) | (XA, X4) => (X5, X3) | (XA, X5) => (X5, X1) | (XA, X6) => (X5, X7) | (XA, X7) => (X5, X5) | (XA, X8) => (X4, XB) | (XA, X9) => (X4, X9) | (XA, XA) => (X4, XF) | (XA, XB) => (X4, XD) | (XA, XC) => (X4, X3) | (XA, XD) => (X4, X1) | (XA, XE) => (X4, X7) | (XA, XF) => (X4, X5)
  | (XB, X0) => (X7, XB) | (XB, X1) => (X7, X9) | (XB, X2) => (X7, XF) | (XB, X3) => (X7, XD) | (XB, X4) => (X7, X3) | (XB, X5) => (X7, X1) | (XB, X6) => (X7, X7) | (XB, X7) => (X7, X5) | (XB, X8) => (X6, XB) | (XB, X9) => (X6, X9) | (XB, XA) => (X6, XF) | (XB, XB) => (X6, XD) | (XB, XC) => (X6, X3) | (XB, XD) => (X6, X1) | (XB, XE) => (X6, X7) | (XB, XF) => (X6, X5)
  | (XC, X0) => (X9, XB) | (XC, X1) => (X9, X9) | (XC, X2) => (X9, XF) | (XC, X3) => (X9, XD) | (XC, X4) => (X9, X3) | (XC, X5) => (X9, X1) | (XC, X6) => (X9, X7) | (XC, X7) => (X9, X5) | (XC, X8) => (X8, XB) | (XC, X9) => (X8, X9) | (XC, XA) => (X8, XF) | (XC, XB) => (X8, XD) | (XC, XC) => (X8, X3) | (XC, XD) => (X8, X1) | (XC, XE) => (X8, X7) | (XC, XF) => (X8, X5)
  | (XD, X0) => (XB, XB) | (XD, X1) => (XB, X9) | (XD, X2) => (XB, XF) | (XD, X3) => (XB, XD) | (XD, X4) => (XB, X3) | (XD, X5) => (XB, X1) | (XD, X6) => (XB, X7) | (XD, X7) => (XB, X5) | (XD, X8) => (XA, XB) | (XD, X9) => (XA, X9) | (XD, XA) => (XA, XF) | (XD, XB) => (XA, XD) | (XD, XC) => (XA, X3) | (XD, XD) => (XA, X1) | (XD, XE) => (XA, X7) | (XD, XF) => (XA, X5)
  | (XE, X0) => (XD, XB) | (XE, X1) => (XD, X9) | (XE, X2) => (XD, XF) | (XE, X3) => (XD, XD) | (XE, X4) => (XD, X3) | (XE, X5) => (XD, X1) | (XE, X6) => (XD, X7) | (XE, X7) => (XD, X5) | (XE, X8) => (XC, XB) | (XE, X9) => (XC, X9) | (XE, XA) => (XC, XF) | (XE, XB) => (XC, XD) | (XE, XC) => (XC, X3) | (XE, XD) => (XC, X1) | (XE, XE) => (XC, X7) | (XE, XF) => (XC, X5)
  | (XF, X0) => (XF, XB) | (XF, X1) => (XF, X9) | (XF, X2) => (XF, XF) | (XF, X3) => (XF, XD) | (XF, X4) => (XF, X3) | (XF, X5) => (XF, X1) | (XF, X6) => (XF, X7) | (XF, X7) => (XF, X5) | (XF, X8) => (XE, XB) | (XF, X9) => (XE, X9) | (XF, XA) => (XE, XF) | (XF, XB) => (XE, XD) | (XF, XC) => (XE, X3) | (XF, XD) => (XE, X1) | (XF, XE) => (XE, X7) | (XF, XF) => (XE, X5)
  end.

Definition gmul2 (b : hb) : hb := xtime b.
Definition gmul3 (b : hb) : hb := hb_xor (xtime b) b.
Definition gmul9 (b : hb) : hb := hb_xor (xtime (xtime (xtime b))) b.
Definition gmul11 (b : hb) : hb := hb_xor (xtime (xtime (xtime b))) (hb_xor (xtime b) b).
Definition gmul13 (b : hb) : hb := hb_xor (xtime (xtime (xtime b))) (hb_xor (xtime (xtime b)) b).
Definition gmul14 (b : hb) : hb := hb_xor (xtime (xtime (xtime b))) (hb_xor (xtime (xtime b)) (xtime b)).

Fixpoint xor_hbs (a b : list hb) : list hb :=
  match a, b with
  | x :: a', y :: b' => hb_xor x y :: xor_hbs a' b'
  | _, _ => []
  end.

(* byte strings at the interface *)
Fixpoint xor_bytes (a b : list N) : list N :=
  match a, b with
  | x :: a', y :: b' => N.lxor x y :: xor_bytes a' b'
  | _, _ => []
  end.

(* cut a byte string into 16-byte blocks (the last one may be short) *)
Fixpoint chunks16 (fuel : nat) (l : list N) : list (list N) :=
  match fuel with
  | O => []
  | S f => match l with
           | [] => []
           | _ => firstn 16 l :: chunks16 f (skipn 16 l)
           end
  end.

Definition sub_bytes (st : list hb) : list hb := map aes_sbox st.
Definition inv_sub_bytes (st : list hb) : list hb := map aes_isbox st.

Definition shift_rows (st : list hb) : list hb :=
  match st with
  | [s0; s1; s2; s3; s4; s5; s6; s7; s8; s9; s10; s11; s12; s13; s14; s15] =>
    [s0; s5; s10; s15; s4; s9; s14; s3; s8; s13; s2; s7; s12; s1; s6; s11]
  | _ => st
  end.
Definition inv_shift_rows (st : list hb) : list hb :=
  match st with
  | [s0; s1; s2; s3; s4; s5; s6; s7; s8; s9; s10; s11; s12; s13; s14; s15] =>
    [s0; s13; s10; s7; s4; s1; s14; s11; s8; s5; s2; s15; s12; s9; s6; s3]
  | _ => st
  end.

Definition mix_col (a0 a1 a2 a3 : hb) : list hb :=
  [hb_xor (gmul2 a0) (hb_xor (gmul3 a1) (hb_xor a2 a3));
   hb_xor a0 (hb_xor (gmul2 a1) (hb_xor (gmul3 a2) a3));
   hb_xor a0 (hb_xor a1 (hb_xor (gmul2 a2) (gmul3 a3)));
   hb_xor (gmul3 a0) (hb_xor a1 (hb_xor a2 (gmul2 a3)))].
Definition inv_mix_col (a0 a1 a2 a3 : hb) : list hb :=
  [hb_xor (gmul14 a0) (hb_xor (gmul11 a1) (hb_xor (gmul13 a2) (gmul9 a3)));
   hb_xor (gmul9 a0) (hb_xor (gmul14 a1) (hb_xor (gmul11 a2) (gmul13 a3)));
   hb_xor (gmul13 a0) (hb_xor (gmul9 a1) (hb_xor (gmul14 a2) (gmul11 a3)));
   hb_xor (gmul11 a0) (hb_xor (gmul13 a1) (hb_xor (gmul9 a2) (gmul14 a3)))].
Fixpoint mix_columns (st : list hb) : list hb :=
  match st with
  | a0 :: a1 :: a2 :: a3 :: t => mix_col a0 a1 a2 a3 ++ mix_columns t
  | _ => []
  end.
Fixpoint inv_mix_columns (st : list hb) : list hb :=
  match st with
  | a0 :: a1 :: a2 :: a3 :: t => inv_mix_col a0 a1 a2 a3 ++ inv_mix_columns t
  | _ => []
  end.

(* rounds after the initial AddRoundKey; the last round key is used without MixColumns *)
Fixpoint aes_rounds (rks : list (list hb)) (st : list hb) : list hb :=
  match rks with
  | [] => st
  | rk :: rest =>
      match rest with
      | [] => xor_hbs (shift_rows (sub_bytes st)) rk
      | _ => aes_rounds rest (xor_hbs (mix_columns (shift_rows (sub_bytes st))) rk)
      end
  end.
Definition aes_cipher_hb (rks : list (list hb)) (blk : list hb) : list hb :=
  match rks with
  | [] => blk
  | rk0 :: rest => aes_rounds rest (xor_hbs blk rk0)
  end.

(* the straightforward inverse cipher (FIPS-197 5.3), same round keys in the opposite order *)
Fixpoint aes_inv_rounds (rks : list (list hb)) (st : list hb) : list hb :=
  match rks with
  | [] => st
  | rk :: rest =>
      match rest with
      | [] => inv_sub_bytes (inv_shift_rows (xor_hbs st rk))
      | _ => inv_sub_bytes (inv_shift_rows (inv_mix_columns (xor_hbs (aes_inv_rounds rest st) rk)))
      end
  end.
Definition aes_inv_cipher_hb (rks : list (list hb)) (blk : list hb) : list hb :=
  match rks with
  | [] => blk
  | rk0 :: rest => xor_hbs (aes_inv_rounds rest blk) rk0
  end.

Definition aes_cipher (rks : list (list hb)) (blk : list N) : list N :=
  map N_of_hb (aes_cipher_hb rks (map hb_of_N blk)).
Definition aes_inv_cipher (rks : list (list hb)) (blk : list N) : list N :=
  map N_of_hb (aes_inv_cipher_hb rks (map hb_of_N blk)).

(* KeyExpansion: words are 4-byte lists; ws is the list of words so far, most recent first *)
Definition rot_word (w : list hb) : list hb :=
  match w with [a; b; c; d] => [b; c; d; a] | _ => w end.
Definition sub_word (w : list hb) : list hb := map aes_sbox w.
Definition hb_zero : hb := (X0, X0).

Fixpoint key_expand_loop (nk n i : nat) (rcon : hb) (ws : list (list hb)) : list (list hb) :=
  match n with
  | O => ws
  | S n' =>
      let temp := hd [] ws in
      let old := nth (nk - 1) ws [] in
      if Nat.eqb (Nat.modulo i nk) 0 then
        key_expand_loop nk n' (S i) (xtime rcon)
          (xor_hbs old (xor_hbs (sub_word (rot_word temp)) [rcon; hb_zero; hb_zero; hb_zero]) :: ws)
      else if Nat.ltb 6 nk && Nat.eqb (Nat.modulo i nk) 4 then
        key_expand_loop nk n' (S i) rcon (xor_hbs old (sub_word temp) :: ws)
      else
        key_expand_loop nk n' (S i) rcon (xor_hbs old temp :: ws)
  end.

Fixpoint chunk4 (l : list hb) : list (list hb) :=
  match l with
  | a :: b :: c :: d :: t => [a; b; c; d] :: chunk4 t
  | _ => []
  end.
Fixpoint group_round_keys (ws : list (list hb)) : list (list hb) :=
  match ws with
  | a :: b :: c :: d :: t => (a ++ b ++ c ++ d) :: group_round_keys t
  | _ => []
  end.

(* key: 16 or 32 bytes -> 11 or 15 round keys of 16 bytes *)
Definition aes_key_schedule (key : list N) : list (list hb) :=
  let nk := Nat.div (length key) 4 in
  let total := (4 * (nk + 7))%nat in
  group_round_keys (rev' (key_expand_loop nk (total - nk) nk (X0, X1) (rev' (chunk4 (map hb_of_N key))))).

Definition aes_encrypt_block (key blk : list N) : list N := aes_cipher (aes_key_schedule key) blk.
Definition aes_decrypt_block (key blk : list N) : list N := aes_inv_cipher (aes_key_schedule key) blk.

(* FIPS-197 Appendix C.1 and C.3 *)
Definition seq_bytes (n : nat) : list N := map N.of_nat (seq 0 n).
Definition fips_pt : list N := map (fun i => 17 * N.of_nat i) (seq 0 16).
Example aes128_fips_c1 :
  aes_encrypt_block (seq_bytes 16) fips_pt =
  [105;196;224;216;106;123;4;48;216;205;183;128;112;180;197;90].
Proof. vm_compute. reflexivity. Qed.
Example aes256_fips_c3 :
  aes_encrypt_block (seq_bytes 32) fips_pt =
  [142;162;183;202;81;103;69;191;234;252;73;144;75;73;96;137].
Proof. vm_compute. reflexivity. Qed.
Example aes128_fips_c1_inv :
  aes_decrypt_block (seq_bytes 16) [105;196;224;216;106;123;4;48;216;205;183;128;112;180;197;90] = fips_pt.
Proof. vm_compute. reflexivity. Qed.
Example aes256_fips_c3_inv :
  aes_decrypt_block (seq_bytes 32) [142;162;183;202;81;103;69;191;234;252;73;144;75;73;96;137] = fips_pt.
Proof. vm_compute. reflexivity. Qed.
(* FIPS-197 Appendix A.1: last round key of the 128-bit key 2b7e1516 28aed2a6 abf71588 09cf4f3c *)
Example aes128_keyexp_a1 :
  map N_of_hb (nth 10 (aes_key_schedule [43;126;21;22;40;174;210;166;171;247;21;136;9;207;79;60]) []) =
  [208;20;249;168;201;238;37;137;225;63;12;200;182;99;12;166].
Proof. vm_compute. reflexivity. Qed.
(* the S-box is the affine image of the inverse in GF(2^8): checked on three entries of figure 7 *)
Example aes_sbox_fig7 : (aes_sbox (X0, X0), aes_sbox (X5, X3), aes_sbox (XF, XF)) = ((X6, X3), (XE, XD), (X1, X6)).
Proof. reflexivity. Qed.
