// C15 driver: the real Pl_* pipelines from libqpdf.a, fed chunk by chunk.
#include "drv.hh"
#include <qpdf/Pipeline.hh>
#include <qpdf/Pl_ASCII85Decoder.hh>
#include <qpdf/Pl_ASCIIHexDecoder.hh>
#include <qpdf/Pl_Base64.hh>
#include <qpdf/Pl_LZWDecoder.hh>
#include <qpdf/Pl_PNGFilter.hh>
#include <qpdf/Pl_RC4.hh>
#include <qpdf/Pl_RunLength.hh>
#include <qpdf/Pl_TIFFPredictor.hh>
#include <memory>
#include <stdexcept>

namespace {
    class Sink: public Pipeline
    {
      public:
        Sink() : Pipeline("sink", nullptr) {}
        void write(unsigned char const* d, size_t n) override { out.append(reinterpret_cast<char const*>(d), n); }
        void finish() override { finished = true; }
        std::string out;
        bool finished{false};
    };

    std::vector<std::string> chunks_of(std::string const& s) {
        std::vector<std::string> r;
        if (s == "_") return r;   // no write call at all
        std::stringstream ss(s); std::string item;
        while (std::getline(ss, item, ',')) r.push_back(unhex(item));
        return r;
    }
}

// filt <name> <p1,p2,p3|-> <chunks>
static Reg r_filt("filt", [](std::vector<std::string> const& a) -> std::string {
    std::string name = a.at(0);
    auto ps = ints_of(a.at(1));
    auto chunks = chunks_of(a.at(2));
    Sink sink;
    std::unique_ptr<Pipeline> p;
    std::string errclass = "0";
    try {
        auto u32 = [&](size_t i) { return static_cast<uint32_t>(ps.at(i)); };
        if (name == "ahx") p = std::make_unique<Pl_ASCIIHexDecoder>("f", &sink);
        else if (name == "a85") p = std::make_unique<Pl_ASCII85Decoder>("f", &sink);
        else if (name == "rle") p = std::make_unique<Pl_RunLength>("f", &sink, Pl_RunLength::a_encode);
        else if (name == "rld") p = std::make_unique<Pl_RunLength>("f", &sink, Pl_RunLength::a_decode);
        else if (name == "pngd") p = std::make_unique<Pl_PNGFilter>("f", &sink, Pl_PNGFilter::a_decode, u32(0), u32(1), u32(2));
        else if (name == "pnge") p = std::make_unique<Pl_PNGFilter>("f", &sink, Pl_PNGFilter::a_encode, u32(0), u32(1), u32(2));
        else if (name == "tiffd") p = std::make_unique<Pl_TIFFPredictor>("f", &sink, Pl_TIFFPredictor::a_decode, u32(0), u32(1), u32(2));
        else if (name == "tiffe") p = std::make_unique<Pl_TIFFPredictor>("f", &sink, Pl_TIFFPredictor::a_encode, u32(0), u32(1), u32(2));
        else if (name == "b64d") p = std::make_unique<Pl_Base64>("f", &sink, Pl_Base64::a_decode);
        else if (name == "b64e") p = std::make_unique<Pl_Base64>("f", &sink, Pl_Base64::a_encode);
        else if (name == "lzw") p = std::make_unique<Pl_LZWDecoder>("f", &sink, ps.at(0) != 0);
        else return "?unknown-filter";
    } catch (std::logic_error const& e) {
        return "- ctor-logic";
    } catch (std::exception const& e) {
        return "- ctor";
    }
    try {
        for (auto const& c: chunks) p->write(reinterpret_cast<unsigned char const*>(c.data()), c.size());
        p->finish();
    } catch (std::logic_error const& e) {
        errclass = "logic";
    } catch (std::exception const& e) {
        errclass = "1";
    }
    return hex(sink.out) + " " + errclass;
});

// rc4 <keyhex> <datahex>
static Reg r_rc4("rc4", [](std::vector<std::string> const& a) -> std::string {
    std::string key = unhex(a.at(0));
    std::string data = unhex(a.at(1));
    Sink sink;
    Pl_RC4 p("rc4", &sink, key);
    p.write(reinterpret_cast<unsigned char const*>(data.data()), data.size());
    p.finish();
    return hex(sink.out);
});

// limit <rld|flate> <limit> <nchunks> <chunk hex> : the decoder with its protective memory limit switched on, fed <nchunks>
// copies of the chunk one write() at a time; reports at which write (1-based) the limit error was raised (0 = only in
// finish(), -1 = never) - C04: "with the library's protective limits switched on ... memory out of proportion"
#include <qpdf/Pl_Flate.hh>
static Reg r_limit("limit", [](std::vector<std::string> const& a) -> std::string {
    std::string name = a.at(0);
    unsigned long long limit = std::stoull(a.at(1));
    int n = std::stoi(a.at(2));
    std::string chunk = unhex(a.at(3));
    Sink sink;
    std::unique_ptr<Pipeline> p;
    unsigned long long old_flate = Pl_Flate::memory_limit();
    if (name == "rld") {
        Pl_RunLength::setMemoryLimit(limit);
        p = std::make_unique<Pl_RunLength>("f", &sink, Pl_RunLength::a_decode);
    } else if (name == "flate") {
        Pl_Flate::memory_limit(limit);
        p = std::make_unique<Pl_Flate>("f", &sink, Pl_Flate::a_inflate);
    } else {
        return "?unknown";
    }
    int raised_at = -1;
    std::string msg;
    try {
        for (int i = 1; i <= n; ++i) {
            try {
                p->write(reinterpret_cast<unsigned char const*>(chunk.data()), chunk.size());
            } catch (std::exception const& e) {
                raised_at = i;
                msg = e.what();
                break;
            }
        }
        if (raised_at < 0) {
            try {
                p->finish();
            } catch (std::exception const& e) {
                raised_at = 0;
                msg = e.what();
            }
        }
    } catch (...) {
        msg = "?";
    }
    Pl_RunLength::setMemoryLimit(0);
    Pl_Flate::memory_limit(old_flate);
    return std::to_string(raised_at) + " " + std::to_string(sink.out.size());
});
