(* C14 - proofs, part G: import of the text form. QPDFObjectHandle::newUnicodeString (String::utf16: PDFDocEncoding
   when every character has a code and the result cannot be mistaken for a byte-order mark, UTF-16BE otherwise) gives a
   string whose text - by the specification's text_of - is exactly the text that was imported. *)
From QV Require Import Base.Bytes Gen.PdfDoc Json.JsonSpec Json.JsonEmit Json.C14ProofsA Json.C14ProofsB Json.C14ProofsC Json.C14ProofsD Json.C14ProofsE Json.C14ProofsF.
Local Open Scope N_scope.

Ltac Zify.zify_post_hook ::= Z.to_euclidean_division_equations.

(* ------------------------------------------------------------------ QUtil::get_next_utf8_codepoint on well-formed input *)

Lemma lead_facts ch : ch < 256 ->
  (192 <= ch <= 223 -> jm_lead_bits 8 ch 64 0 128 = (1, 192) /\ N.land ch (255 - 192) = ch - 192) /\
  (224 <= ch <= 239 -> jm_lead_bits 8 ch 64 0 128 = (2, 224) /\ N.land ch (255 - 224) = ch - 224) /\
  (240 <= ch <= 247 -> jm_lead_bits 8 ch 64 0 128 = (3, 240) /\ N.land ch (255 - 240) = ch - 240) /\
  (128 <= ch <= 191 -> (N.land ch 192 =? 128) = true /\ N.land ch 63 = ch - 128).
Proof.
  intros Hc.
  assert (E : forallb (fun ch =>
     (if js_in_rng 192 223 ch then (let '(n, tc) := jm_lead_bits 8 ch 64 0 128 in (n =? 1) && (tc =? 192)) && (N.land ch (255 - 192) =? ch - 192) else true) &&
     (if js_in_rng 224 239 ch then (let '(n, tc) := jm_lead_bits 8 ch 64 0 128 in (n =? 2) && (tc =? 224)) && (N.land ch (255 - 224) =? ch - 224) else true) &&
     (if js_in_rng 240 247 ch then (let '(n, tc) := jm_lead_bits 8 ch 64 0 128 in (n =? 3) && (tc =? 240)) && (N.land ch (255 - 240) =? ch - 240) else true) &&
     (if js_in_rng 128 191 ch then (N.land ch 192 =? 128) && (N.land ch 63 =? ch - 128) else true)) all_bytes = true) by (vm_compute; reflexivity).
  pose proof (byte_sweep _ E ch Hc) as Hs. cbv beta in Hs.
  apply andb_true_iff in Hs. destruct Hs as [Hs H4]. apply andb_true_iff in Hs. destruct Hs as [Hs H3].
  apply andb_true_iff in Hs. destruct Hs as [H1 H2].
  repeat split.
  - replace (js_in_rng 192 223 ch) with true in H1 by (symmetry; apply in_rng_true; lia).
    destruct (jm_lead_bits 8 ch 64 0 128) as [n tc]. apply andb_true_iff in H1. destruct H1 as [H1 _]. apply andb_true_iff in H1.
    destruct H1 as [A B]. apply N.eqb_eq in A, B. subst. reflexivity.
  - replace (js_in_rng 192 223 ch) with true in H1 by (symmetry; apply in_rng_true; lia).
    apply andb_true_iff in H1. destruct H1 as [_ H1]. apply N.eqb_eq in H1. exact H1.
  - replace (js_in_rng 224 239 ch) with true in H2 by (symmetry; apply in_rng_true; lia).
    destruct (jm_lead_bits 8 ch 64 0 128) as [n tc]. apply andb_true_iff in H2. destruct H2 as [H2 _]. apply andb_true_iff in H2.
    destruct H2 as [A B]. apply N.eqb_eq in A, B. subst. reflexivity.
  - replace (js_in_rng 224 239 ch) with true in H2 by (symmetry; apply in_rng_true; lia).
    apply andb_true_iff in H2. destruct H2 as [_ H2]. apply N.eqb_eq in H2. exact H2.
  - replace (js_in_rng 240 247 ch) with true in H3 by (symmetry; apply in_rng_true; lia).
    destruct (jm_lead_bits 8 ch 64 0 128) as [n tc]. apply andb_true_iff in H3. destruct H3 as [H3 _]. apply andb_true_iff in H3.
    destruct H3 as [A B]. apply N.eqb_eq in A, B. subst. reflexivity.
  - replace (js_in_rng 240 247 ch) with true in H3 by (symmetry; apply in_rng_true; lia).
    apply andb_true_iff in H3. destruct H3 as [_ H3]. apply N.eqb_eq in H3. exact H3.
  - replace (js_in_rng 128 191 ch) with true in H4 by (symmetry; apply in_rng_true; lia).
    apply andb_true_iff in H4. tauto.
  - replace (js_in_rng 128 191 ch) with true in H4 by (symmetry; apply in_rng_true; lia).
    apply andb_true_iff in H4. destruct H4 as [_ H4]. apply N.eqb_eq in H4. exact H4.
Qed.

Lemma cont_step b t k cp : 128 <= b <= 191 ->
  jm_cont_bytes (S k) (b :: t) cp = jm_cont_bytes k t (cp * 64 + (b - 128)).
Proof.
  intros Hb. cbn [jm_cont_bytes]. destruct (lead_facts b ltac:(lia)) as (_ & _ & _ & F). destruct (F Hb) as [F1 F2].
  rewrite F1, F2. reflexivity.
Qed.

Lemma next_codepoint_enc c r : scalar_value c -> jm_next_codepoint (utf8_enc c ++ r) = (c, false, r).
Proof.
  intros Hs. unfold scalar_value in Hs. unfold utf8_enc.
  destruct (N.ltb_spec c 128).
  - cbn [app jm_next_codepoint]. replace (c <? 128) with true by (symmetry; apply N.ltb_lt; lia). reflexivity.
  - destruct (N.ltb_spec c 2048).
    + cbn [app jm_next_codepoint]. replace (192 + c / 64 <? 128) with false by (symmetry; apply N.ltb_ge; lia).
      destruct (lead_facts (192 + c / 64) ltac:(lia)) as (F & _). destruct (F ltac:(lia)) as [F1 F2]. rewrite F1, F2.
      cbn [length]. rewrite !Nat2N.inj_succ. decide_tests. cbn [orb].
      change (N.to_nat 1) with 1%nat. rewrite cont_step by lia. cbn [jm_cont_bytes].
      replace ((192 + c / 64 - 192) * 64 + (128 + c mod 64 - 128)) with c by lia.
      decide_tests. reflexivity.
    + destruct (N.ltb_spec c 65536).
      * cbn [app jm_next_codepoint]. replace (224 + c / 4096 <? 128) with false by (symmetry; apply N.ltb_ge; lia).
        destruct (lead_facts (224 + c / 4096) ltac:(lia)) as (_ & F & _). destruct (F ltac:(lia)) as [F1 F2]. rewrite F1, F2.
        cbn [length]. rewrite !Nat2N.inj_succ. decide_tests. cbn [orb].
        change (N.to_nat 2) with 2%nat. rewrite !cont_step by lia. cbn [jm_cont_bytes].
        replace (((224 + c / 4096 - 224) * 64 + (128 + (c / 64) mod 64 - 128)) * 64 + (128 + c mod 64 - 128)) with c by lia.
        decide_tests. reflexivity.
      * cbn [app jm_next_codepoint]. replace (240 + c / 262144 <? 128) with false by (symmetry; apply N.ltb_ge; lia).
        destruct (lead_facts (240 + c / 262144) ltac:(lia)) as (_ & _ & F & _). destruct (F ltac:(lia)) as [F1 F2]. rewrite F1, F2.
        cbn [length]. rewrite !Nat2N.inj_succ. decide_tests. cbn [orb].
        change (N.to_nat 3) with 3%nat. rewrite !cont_step by lia. cbn [jm_cont_bytes].
        replace ((((240 + c / 262144 - 240) * 64 + (128 + (c / 4096) mod 64 - 128)) * 64 + (128 + (c / 64) mod 64 - 128)) * 64 + (128 + c mod 64 - 128)) with c by lia.
        decide_tests. reflexivity.
Qed.

(* ------------------------------------------------------------------ the transcoding loops on well-formed input *)

Lemma utf8_enc_nonempty c : utf8_enc c <> [].
Proof. unfold utf8_enc. destruct (c <? 128), (c <? 2048), (c <? 65536); discriminate. Qed.

Lemma utf8_encode_length cps : (length cps <= length (utf8_encode cps))%nat.
Proof.
  induction cps as [|c cs IH]; [simpl; lia|]. change (utf8_encode (c :: cs)) with (utf8_enc c ++ utf8_encode cs).
  rewrite app_length. pose proof (utf8_enc_nonempty c). destruct (utf8_enc c); [congruence|]. simpl. lia.
Qed.

Lemma pdfdoc_loop_step f l acc okay : l <> [] ->
  jm_to_pdfdoc_loop (S f) l acc okay =
  let '(cp, err, rest) := jm_next_codepoint l in let '(b, ok) := jm_pdfdoc_step cp err in
  jm_to_pdfdoc_loop f rest (b :: acc) (okay && ok).
Proof. intros H. destruct l; [congruence|reflexivity]. Qed.

Lemma pdfdoc_loop_enc : forall cps fuel acc okay, Forall scalar_value cps -> (length cps <= fuel)%nat ->
  jm_to_pdfdoc_loop fuel (utf8_encode cps) acc okay =
  (okay && forallb (fun c => snd (jm_pdfdoc_step c false)) cps,
   rev' (rev (map (fun c => fst (jm_pdfdoc_step c false)) cps) ++ acc)).
Proof.
  induction cps as [|c cs IH]; intros fuel acc okay Hs Hf.
  - destruct fuel; simpl; rewrite andb_true_r; reflexivity.
  - inversion Hs; subst. destruct fuel; [simpl in Hf; lia|].
    change (utf8_encode (c :: cs)) with (utf8_enc c ++ utf8_encode cs).
    rewrite pdfdoc_loop_step by (pose proof (utf8_enc_nonempty c); destruct (utf8_enc c); [congruence|discriminate]).
    rewrite next_codepoint_enc by assumption.
    destruct (jm_pdfdoc_step c false) as [b ok] eqn:E.
    rewrite IH by (try assumption; simpl in Hf; lia).
    cbn [forallb map rev]. rewrite E. cbn [fst snd]. rewrite andb_assoc. rewrite <- app_assoc. reflexivity.
Qed.

Lemma utf16_loop_step f l acc : l <> [] ->
  jm_to_utf16_loop (S f) l acc =
  let '(cp, err, rest) := jm_next_codepoint l in
  jm_to_utf16_loop f rest (rev_append (if err then [255; 253] else jm_to_utf16 cp) acc).
Proof. intros H. destruct l; [congruence|reflexivity]. Qed.

Lemma utf16_loop_enc : forall cps fuel acc, Forall scalar_value cps -> (length cps <= fuel)%nat ->
  jm_to_utf16_loop fuel (utf8_encode cps) acc = rev' (rev (flat_map jm_to_utf16 cps) ++ acc).
Proof.
  induction cps as [|c cs IH]; intros fuel acc Hs Hf.
  - destruct fuel; reflexivity.
  - inversion Hs; subst. destruct fuel; [simpl in Hf; lia|].
    change (utf8_encode (c :: cs)) with (utf8_enc c ++ utf8_encode cs).
    rewrite utf16_loop_step by (pose proof (utf8_enc_nonempty c); destruct (utf8_enc c); [congruence|discriminate]).
    rewrite next_codepoint_enc by assumption. cbv iota beta.
    rewrite IH by (try assumption; simpl in Hf; lia).
    cbn [flat_map]. rewrite rev_append_rev, rev_app_distr, <- app_assoc. reflexivity.
Qed.

(* ------------------------------------------------------------------ PDFDocEncoding: what is written decodes (Annex D.2) to what was given *)

Definition pdfdoc_decode1 (b : N) : N := match pdfdoc_to_unicode_spec b with Some u => u | None => 65533 end.

Lemma jm_assoc_in k v l : jm_assoc k l = Some v -> In (k, v) l.
Proof.
  induction l as [|[a b] t IH]; [discriminate|]. simpl. destruct (N.eqb_spec a k).
  - intros H. injection H as <-. subst. left. reflexivity.
  - intros H. right. apply IH. assumption.
Qed.

Lemma rev_table_sound : Forall (fun p => snd p < 256 /\ snd p <> 0 /\ pdfdoc_decode1 (snd p) = fst p) pdfdoc_rev_table.
Proof.
  assert (E : forallb (fun p => (snd p <? 256) && negb (snd p =? 0) && (pdfdoc_decode1 (snd p) =? fst p)) pdfdoc_rev_table = true)
    by (vm_compute; reflexivity).
  apply Forall_forall. intros p Hp. rewrite forallb_forall in E. specialize (E p Hp).
  apply andb_true_iff in E. destruct E as [E E3]. apply andb_true_iff in E. destruct E as [E1 E2].
  apply N.ltb_lt in E1. apply negb_true_iff in E2. apply N.eqb_neq in E2. apply N.eqb_eq in E3. tauto.
Qed.

Lemma step_sound c : snd (jm_pdfdoc_step c false) = true ->
  fst (jm_pdfdoc_step c false) < 256 /\ pdfdoc_decode1 (fst (jm_pdfdoc_step c false)) = c.
Proof.
  unfold jm_pdfdoc_step.
  assert (Elow : forallb (fun b => if (b <? 128) && negb (((24 <=? b) && (b <=? 31)) || (b =? 127)) then pdfdoc_decode1 b =? b else true) all_bytes = true)
    by (vm_compute; reflexivity).
  assert (Ehigh : forallb (fun b => if (160 <? b) && negb (b =? 173) then pdfdoc_decode1 b =? b else true) all_bytes = true)
    by (vm_compute; reflexivity).
  destruct (N.ltb_spec c 128).
  - destruct (((24 <=? c) && (c <=? 31)) || (c =? 127)) eqn:E; [discriminate|]. intros _. cbn [fst]. split; [lia|].
    pose proof (byte_sweep _ Elow c ltac:(lia)) as Hs. cbv beta in Hs. rewrite E in Hs.
    replace (c <? 128) with true in Hs by (symmetry; apply N.ltb_lt; lia). apply N.eqb_eq in Hs. exact Hs.
  - destruct (N.eqb_spec c 173); [discriminate|].
    destruct ((160 <? c) && (c <? 256)) eqn:E.
    + intros _. apply andb_true_iff in E. destruct E as [E1 E2]. apply N.ltb_lt in E1, E2. cbn [fst]. split; [lia|].
      pose proof (byte_sweep _ Ehigh c E2) as Hs. cbv beta in Hs.
      replace (160 <? c) with true in Hs by (symmetry; apply N.ltb_lt; lia).
      replace (c =? 173) with false in Hs by (symmetry; apply N.eqb_neq; lia). apply N.eqb_eq in Hs. exact Hs.
    + unfold jm_encode_pdfdoc. destruct (jm_assoc c pdfdoc_rev_table) as [b|] eqn:A; [|discriminate].
      destruct (N.eqb_spec b 0); [discriminate|]. intros _. cbn [fst].
      apply jm_assoc_in in A. pose proof rev_table_sound as T. rewrite Forall_forall in T. specialize (T _ A). cbn [fst snd] in T. tauto.
Qed.

Lemma pdfdoc_decode_steps cps : forallb (fun c => snd (jm_pdfdoc_step c false)) cps = true ->
  pdfdoc_decode (map (fun c => fst (jm_pdfdoc_step c false)) cps) = cps.
Proof.
  induction cps as [|c cs IH]; [reflexivity|]. cbn [forallb map]. intros H. apply andb_true_iff in H. destruct H as [H1 H2].
  unfold pdfdoc_decode in *. cbn [map]. rewrite IH by assumption. f_equal. apply (step_sound c H1).
Qed.

(* ------------------------------------------------------------------ the result is never mistaken for a byte-order mark *)

Definition pdfdoc_guard (u : list N) : bool :=
  (4 <=? N.of_nat (length u)) &&
  (match u with
   | 195 :: t => jm_prefix [190; 195; 191] t || jm_prefix [191; 195; 190] t || jm_prefix [175; 194; 187; 194; 191] t
   | _ => false
   end).

Lemma utf8_to_pdf_doc_unfold u : jm_utf8_to_pdf_doc u =
  if pdfdoc_guard u then jm_to_pdfdoc_loop (length u) u [63] false else jm_to_pdfdoc_loop (length u) u [] true.
Proof. reflexivity. Qed.

Lemma step_fixed c b : snd (jm_pdfdoc_step c false) = true -> fst (jm_pdfdoc_step c false) = b ->
  In b [254; 255; 239; 187; 191] -> c = b.
Proof.
  intros Hok Hb Hin. destruct (step_sound c Hok) as [_ D]. rewrite Hb in D.
  simpl in Hin. destruct Hin as [<-|[<-|[<-|[<-|[<-|[]]]]]]; vm_compute in D; congruence.
Qed.

Lemma guard_true_on a b c rest :
  jm_prefix [190; 195; 191] (a :: b :: c :: rest) || jm_prefix [191; 195; 190] (a :: b :: c :: rest)
  || jm_prefix [175; 194; 187; 194; 191] (a :: b :: c :: rest) = true ->
  pdfdoc_guard (195 :: a :: b :: c :: rest) = true.
Proof.
  intros H. unfold pdfdoc_guard. cbn [length]. rewrite !Nat2N.inj_succ.
  replace (4 <=? N.succ (N.succ (N.succ (N.succ (N.of_nat (length rest)))))) with true by (symmetry; apply N.leb_le; lia).
  cbn [andb]. exact H.
Qed.

Lemma guard_excludes_bom cps : Forall scalar_value cps ->
  forallb (fun c => snd (jm_pdfdoc_step c false)) cps = true ->
  pdfdoc_guard (utf8_encode cps) = false ->
  announced_encoding (map (fun c => fst (jm_pdfdoc_step c false)) cps) = (AnnNone, map (fun c => fst (jm_pdfdoc_step c false)) cps).
Proof.
  intros Hs Hok Hg.
  set (f := fun c => fst (jm_pdfdoc_step c false)).
  destruct cps as [|c1 [|c2 cs]]; try reflexivity.
  cbn [forallb] in Hok. apply andb_true_iff in Hok. destruct Hok as [O1 Hok]. apply andb_true_iff in Hok. destruct Hok as [O2 Hok].
  cbn [map announced_encoding].
  destruct ((f c1 =? 254) && (f c2 =? 255)) eqn:B1.
  { exfalso. apply andb_true_iff in B1. destruct B1 as [E1 E2]. apply N.eqb_eq in E1, E2.
    pose proof (step_fixed c1 254 O1 E1 ltac:(simpl; tauto)). pose proof (step_fixed c2 255 O2 E2 ltac:(simpl; tauto)). subst c1 c2.
    change (utf8_encode (254 :: 255 :: cs)) with (195 :: 190 :: 195 :: 191 :: utf8_encode cs) in Hg.
    rewrite guard_true_on in Hg by reflexivity. discriminate. }
  destruct ((f c1 =? 255) && (f c2 =? 254)) eqn:B2.
  { exfalso. apply andb_true_iff in B2. destruct B2 as [E1 E2]. apply N.eqb_eq in E1, E2.
    pose proof (step_fixed c1 255 O1 E1 ltac:(simpl; tauto)). pose proof (step_fixed c2 254 O2 E2 ltac:(simpl; tauto)). subst c1 c2.
    change (utf8_encode (255 :: 254 :: cs)) with (195 :: 191 :: 195 :: 190 :: utf8_encode cs) in Hg.
    rewrite guard_true_on in Hg by reflexivity. discriminate. }
  destruct cs as [|c3 cs']; [reflexivity|]. cbn [map].
  destruct ((f c1 =? 239) && (f c2 =? 187) && (f c3 =? 191)) eqn:B3; [|reflexivity].
  exfalso. apply andb_true_iff in B3. destruct B3 as [B3 E3]. apply andb_true_iff in B3. destruct B3 as [E1 E2].
  apply N.eqb_eq in E1, E2, E3. cbn [forallb] in Hok. apply andb_true_iff in Hok. destruct Hok as [O3 _].
  pose proof (step_fixed c1 239 O1 E1 ltac:(simpl; tauto)). pose proof (step_fixed c2 187 O2 E2 ltac:(simpl; tauto)).
  pose proof (step_fixed c3 191 O3 E3 ltac:(simpl; tauto)). subst c1 c2 c3.
  change (utf8_encode (239 :: 187 :: 191 :: cs')) with (195 :: 175 :: 194 :: 187 :: 194 :: 191 :: utf8_encode cs') in Hg.
  rewrite guard_true_on in Hg by reflexivity. discriminate.
Qed.

(* ------------------------------------------------------------------ UTF-16BE fallback: RFC 2781 decoder inverts QUtil::toUTF16 *)

Lemma utf16_decode_to_utf16 c r : scalar_value c -> bytes_lt r ->
  utf16_decode true (jm_to_utf16 c ++ r) = option_map (cons c) (utf16_decode true r).
Proof.
  intros Hs Hr. unfold scalar_value in Hs. unfold jm_to_utf16.
  destruct ((55296 <=? c) && (c <=? 57343)) eqn:E.
  { apply andb_true_iff in E. rewrite !N.leb_le in E. lia. }
  destruct (N.leb_spec c 65535).
  - cbn [app]. rewrite utf16_decode_plain.
    + unfold u16_unit. replace (c / 256 * 256 + c mod 256) with c by lia. reflexivity.
    + unfold u16_unit. replace (c / 256 * 256 + c mod 256) with c by lia. apply in_rng_false. lia.
    + unfold u16_unit. replace (c / 256 * 256 + c mod 256) with c by lia. apply in_rng_false. lia.
  - destruct (N.leb_spec c 1114111); [|lia].
    cbv zeta. cbn [app].
    set (h := (c - 65536) / 1024 + 55296). set (l := (c - 65536) mod 1024 + 56320).
    assert (Hh : 55296 <= h <= 56319) by (unfold h; lia).
    assert (Hl : 56320 <= l <= 57343) by (unfold l; lia).
    rewrite utf16_decode_high by (unfold u16_unit; replace (h / 256 * 256 + h mod 256) with h by lia; apply in_rng_true; lia).
    cbv zeta. unfold u16_unit.
    replace (h / 256 * 256 + h mod 256) with h by lia. replace (l / 256 * 256 + l mod 256) with l by lia.
    replace (js_in_rng 56320 57343 l) with true by (symmetry; apply in_rng_true; lia).
    replace (65536 + (h - 55296) * 1024 + (l - 56320)) with c by (unfold h, l; lia). reflexivity.
Qed.

Lemma to_utf16_bytes c : scalar_value c -> bytes_lt (jm_to_utf16 c).
Proof.
  intros Hs. unfold scalar_value in Hs. unfold jm_to_utf16.
  destruct ((55296 <=? c) && (c <=? 57343)); [repeat constructor; lia|].
  destruct (N.leb_spec c 65535); [repeat constructor; lia|].
  destruct (N.leb_spec c 1114111); [|repeat constructor; lia].
  cbv zeta. repeat constructor; lia.
Qed.

Lemma utf16_decode_all cps : Forall scalar_value cps ->
  bytes_lt (flat_map jm_to_utf16 cps) /\ utf16_decode true (flat_map jm_to_utf16 cps) = Some cps.
Proof.
  induction 1 as [|c cs Hc Hcs [IHb IHd]]; [split; [constructor|reflexivity]|].
  cbn [flat_map]. split.
  - apply Forall_app. split; [apply to_utf16_bytes; assumption|assumption].
  - rewrite utf16_decode_to_utf16 by assumption. rewrite IHd. reflexivity.
Qed.

(* ------------------------------------------------------------------ the imported text string denotes the imported text *)

Lemma unicode_string_text_lemma : forall cps, Forall scalar_value cps ->
  text_of (jm_new_unicode_string (utf8_encode cps)) = Some cps.
Proof.
  intros cps Hs. unfold jm_new_unicode_string. rewrite utf8_to_pdf_doc_unfold.
  assert (Hutf16 : text_of (jm_utf8_to_utf16 (utf8_encode cps)) = Some cps).
  { unfold jm_utf8_to_utf16. rewrite utf16_loop_enc by (try assumption; apply utf8_encode_length).
    rewrite rev'_rev, rev_app_distr, rev_involutive. cbn [rev app].
    unfold text_of. cbn [announced_encoding]. change ((254 =? 254) && (255 =? 255)) with true. cbv iota.
    apply utf16_decode_all. assumption. }
  destruct (pdfdoc_guard (utf8_encode cps)) eqn:G.
  - rewrite pdfdoc_loop_enc by (try assumption; apply utf8_encode_length). cbn [andb]. exact Hutf16.
  - rewrite pdfdoc_loop_enc by (try assumption; apply utf8_encode_length). cbn [andb].
    destruct (forallb (fun c => snd (jm_pdfdoc_step c false)) cps) eqn:Ok; [|exact Hutf16].
    rewrite app_nil_r, rev'_rev, rev_involutive.
    unfold text_of. rewrite (guard_excludes_bom cps Hs Ok G). rewrite pdfdoc_decode_steps by assumption. reflexivity.
Qed.

(* Export followed by import of any string. Binary form: the same bytes. Text form: the string was well-formed
   in the encoding its byte-order mark announces, and the imported string denotes the same Unicode text
   (its byte encoding may have been normalised to PDFDocEncoding or UTF-16BE). *)
Lemma string_import_export_lemma : forall strict s, bytes_lt s ->
  exists s', jm_import_token strict (jm_string_json 2 s) = ImpString s' /\
    (s' = s \/ (well_formed_for_its_bom s = true /\ text_of s <> None /\ text_of s' = text_of s)).
Proof.
  intros strict s Hs.
  assert (Himp : forall cps, Forall scalar_value cps ->
      jm_import_token strict (jm_q ([117; 58] ++ jm_encode_string (utf8_encode cps))) = ImpString (jm_new_unicode_string (utf8_encode cps))).
  { intros cps Hc. unfold jm_import_token. rewrite parse_token_prefixed by exact prefix_u_plain.
    unfold jm_make_string_object. cbn [app jm_is_indirect jm_take_digits]. change (is_digit 117) with false. reflexivity. }
  destruct (jm_is_utf16 s) eqn:H16.
  - destruct (utf16_case s Hs H16) as [(W & cps & T & S & WF & E)|(W & H8)].
    + exists (jm_new_unicode_string (utf8_encode cps)). split.
      * unfold jm_string_json. change (2 =? 1) with false. cbv iota. rewrite H16, W. cbn [andb]. rewrite E. apply Himp. assumption.
      * right. rewrite T. repeat split; [assumption|discriminate|]. apply unicode_string_text_lemma. assumption.
    + exists s. split; [|left; reflexivity].
      unfold jm_string_json. change (2 =? 1) with false. cbv iota. rewrite H16, W, H8. cbn [andb negb]. rewrite !andb_false_r.
      apply string_binary_roundtrip_lemma. assumption.
  - destruct (jm_is_explicit_utf8 s) eqn:H8.
    + destruct (announced_utf8 s H8) as (_ & An).
      destruct (utf8_valid (skipn 3 s)) eqn:Ev.
      * destruct (utf8_valid_decodes _ Ev) as (cps & S & E & D).
        exists (jm_new_unicode_string (utf8_encode cps)). split.
        -- unfold jm_string_json. change (2 =? 1) with false. cbv iota. rewrite H16, H8. rewrite wf_utf8_is_utf8_valid_lemma, Ev.
           cbn [andb]. rewrite E. apply Himp. assumption.
        -- assert (Ht : text_of s = Some cps) by (unfold text_of; rewrite An; exact D).
           assert (Hw : well_formed_for_its_bom s = true) by (unfold well_formed_for_its_bom; rewrite An, Ht; reflexivity).
           right. rewrite Ht. repeat split; [assumption|discriminate|]. apply unicode_string_text_lemma. assumption.
      * exists s. split; [|left; reflexivity].
        unfold jm_string_json. change (2 =? 1) with false. cbv iota. rewrite H16, H8. rewrite wf_utf8_is_utf8_valid_lemma, Ev.
        cbn [andb negb]. rewrite !andb_false_r. apply string_binary_roundtrip_lemma. assumption.
    + exists s. split; [|left; reflexivity]. apply string_pdfdoc_text_roundtrip_lemma; assumption.
Qed.

(* D7 on the pinned tree: FE FF D8 00 00 41 is exported as "u:A" and comes back as the one-byte string "A" *)
Lemma string_import_export_refuted_lemma :
  exists s, bytes_lt s /\ well_formed_for_its_bom s = false /\
    jm_import_token true (jm_string_json_pinned 2 s) = ImpString [65].
Proof. exists [254; 255; 216; 0; 0; 65]. split; [repeat constructor|]. vm_compute. split; reflexivity. Qed.
