(* C19 - proofs. Part 6: the dashed spelling of --encrypt (--user-password= / --owner-password= / --bits=).  The command-line front
   end reads the words of Sys/JobSpecXD.v back as the job's denotation, for the jobs of Sys/JobSpecX.v (every option table); hence
   all three spellings of --encrypt agree with the job JSON. *)
From Coq Require Import String.
From Coq Require Import List NArith ZArith Bool Lia.
From QV Require Import Base.Bytes Sys.JobTypes Sys.JobTableSpec Gen.JobTables Sys.JobFront Sys.JobSpec Sys.JobPagesSpec Sys.JobSpecX Sys.JobSpecXD.
Require Import QV.Sys.C19ProofsB QV.Sys.C19ProofsD QV.Sys.C19ProofsE.
Import ListNotations.
Open Scope N_scope.

(* between two items: in the main table; unlike Sys/C19ProofsB.a_inv nothing is said about used_enc_password_args, which the dashed
   spelling sets for good (and which only the positional spelling reads) *)
Definition xd_inv (s : astate) (gi go pg : bool) : Prop :=
  a_table s = MAIN /\ a_gave_input s = gi /\ a_gave_output s = go /\ (pg = false -> xa_pgf s = (false, false)).

Definition xd_gio (s : astate) : bool * bool := (a_gave_input s, a_gave_output s).
Lemma xd_gio_emit : forall c s, xd_gio (a_emit c s) = xd_gio s.
Proof. intros c s. destruct s; reflexivity. Qed.
Lemma xd_gio_set_table : forall t s, xd_gio (a_set_table t s) = xd_gio s.
Proof. intros t s. destruct s; reflexivity. Qed.
Lemma xd_gio_set_acc : forall l s, xd_gio (a_set_acc l s) = xd_gio s.
Proof. intros l s. destruct s; reflexivity. Qed.
Lemma xd_gio_set_pw : forall u o b s, xd_gio (a_set_pw u o b s) = xd_gio s.
Proof. intros u o b s. destruct s; reflexivity. Qed.
Lemma xd_gio_emits : forall cs s, xd_gio (a_emits cs s) = xd_gio s.
Proof. induction cs as [|c cs IH]; intros s; [reflexivity|]. cbn [a_emits]. rewrite IH. apply xd_gio_emit. Qed.
Lemma xd_gio_frame : forall s s', xa_frame s' = xa_frame s -> xd_gio s' = xd_gio s.
Proof. intros s s' H. unfold xa_frame in H. unfold xd_gio. inversion H. reflexivity. Qed.

(* the parser's memory of the passwords of an earlier --encrypt *)
Definition xd_pw (s : astate) : bstr * bstr := (a_user s, a_owner s).
Lemma xd_pw_emit : forall c s, xd_pw (a_emit c s) = xd_pw s.
Proof. intros c s. destruct s; reflexivity. Qed.
Lemma xd_pw_set_table : forall t s, xd_pw (a_set_table t s) = xd_pw s.
Proof. intros t s. destruct s; reflexivity. Qed.
Lemma xd_pw_set_acc : forall l s, xd_pw (a_set_acc l s) = xd_pw s.
Proof. intros l s. destruct s; reflexivity. Qed.
Lemma xd_pw_emits : forall cs s, xd_pw (a_emits cs s) = xd_pw s.
Proof. induction cs as [|c cs IH]; intros s; [reflexivity|]. cbn [a_emits]. rewrite IH. apply xd_pw_emit. Qed.
Lemma xd_pw_frame : forall s s', xa_frame s' = xa_frame s -> xd_pw s' = xd_pw s.
Proof. intros s s' H. unfold xa_frame in H. unfold xd_pw. inversion H. reflexivity. Qed.

Lemma xd_inv_of : forall s s' gi go pg, xd_inv s gi go pg -> a_table s' = MAIN -> xd_gio s' = xd_gio s -> xa_pgf s' = xa_pgf s ->
  xd_inv s' gi go pg.
Proof.
  intros s s' gi go pg [Ht [Hgi [Hgo Hpg]]] Ht' Hg Hp. unfold xd_gio in Hg.
  assert (G1 : a_gave_input s' = a_gave_input s) by (exact (f_equal fst Hg)).
  assert (G2 : a_gave_output s' = a_gave_output s) by (exact (f_equal snd Hg)).
  split; [exact Ht'|]. split; [congruence|]. split; [congruence|]. intros H. rewrite Hp. exact (Hpg H).
Qed.

(* ------------------------------------------------------------------ an option word --flag=value of a hand-written handler *)
Lemma xd_step_param : forall files sole s flag v e,
  flag_ok flag = true -> a_lookup (a_table s) flag = Some e -> a_lookup B"help" flag = None ->
  a_step files sole (B"--" ++ flag ++ 61 :: v) s = inl (a_apply files e true v s).
Proof.
  intros files sole s flag v e Hf Hl Hh.
  destruct flag as [|c X]; [cbn in Hf; discriminate|].
  assert (Hnoeq : no_eq (c :: X) = true).
  { pose proof Hf as Hf2. unfold flag_ok in Hf2. repeat (apply andb_true_iff in Hf2; destruct Hf2 as [Hf2 ?]). assumption. }
  change (B"--" ++ (c :: X) ++ 61 :: v) with (45 :: 45 :: c :: (X ++ 61 :: v)).
  apply a_step_option with (flag := c :: X); [exact Hf|exact Hl|exact Hh|].
  change (c :: X ++ 61 :: v) with ((c :: X) ++ 61 :: v). rewrite (split_app c X v Hnoeq). reflexivity.
Qed.

Definition ENCT : bstr := B"encryption".
Definition E_ENC_USER := mk_aentry ENCT B"user-password" KParam [] (TManual B"argEncUserPassword").
Definition E_ENC_OWNER := mk_aentry ENCT B"owner-password" KParam [] (TManual B"argEncOwnerPassword").
Definition E_ENC_BITS := mk_aentry ENCT B"bits" KChoices [B"40"; B"128"; B"256"] (TManual B"argEncBits").

Lemma xd_enc_lookup :
  a_lookup ENCT B"user-password" = Some E_ENC_USER /\ a_lookup B"help" B"user-password" = None /\
  a_lookup ENCT B"owner-password" = Some E_ENC_OWNER /\ a_lookup B"help" B"owner-password" = None /\
  a_lookup ENCT B"bits" = Some E_ENC_BITS /\ a_lookup B"help" B"bits" = None.
Proof. vm_compute. repeat split; reflexivity. Qed.

(* the three dashed words after --encrypt, from the state --encrypt leaves (whatever was remembered from an earlier --encrypt) *)
Lemma xd_enc_head : forall files sole u o bits rest s0,
  valid_bits bits = true -> a_table s0 = ENCT -> a_acc s0 = [] ->
  exists s1, a_loop files sole ((B"--user-password=" ++ u) :: (B"--owner-password=" ++ o) :: (B"--bits=" ++ bits) :: rest) s0 =
             a_loop files sole rest s1 /\
             a_table s1 = enc_table bits /\ a_calls s1 = CCall C_MAIN B"encrypt" [bits; u; o] :: a_calls s0 /\
             xd_gio s1 = xd_gio s0 /\ xa_pgf s1 = xa_pgf s0.
Proof.
  intros files sole u o bits rest s0 Hb Ht Hacc.
  destruct xd_enc_lookup as [U1 [U2 [O1 [O2 [B1 B2]]]]].
  destruct s0 as [tb acc us ow pf pr rs used gi go calls]. cbn in Ht, Hacc. subst tb acc.
  set (sA := mk_astate ENCT [] u ow pf pr rs true gi go calls).
  set (sB := mk_astate ENCT [] u o pf pr rs true gi go calls).
  assert (W1 : a_step files sole (B"--user-password=" ++ u) (mk_astate ENCT [] us ow pf pr rs used gi go calls) = inl (AOk sA)).
  { change (B"--user-password=" ++ u) with (B"--" ++ B"user-password" ++ 61 :: u).
    rewrite (xd_step_param files sole (mk_astate ENCT [] us ow pf pr rs used gi go calls) B"user-password" u E_ENC_USER eq_refl U1 U2). reflexivity. }
  assert (W2 : a_step files sole (B"--owner-password=" ++ o) sA = inl (AOk sB)).
  { change (B"--owner-password=" ++ o) with (B"--" ++ B"owner-password" ++ 61 :: o).
    rewrite (xd_step_param files sole sA B"owner-password" o E_ENC_OWNER eq_refl O1 O2). reflexivity. }
  assert (W3 : a_step files sole (B"--bits=" ++ bits) sB = inl (a_apply files E_ENC_BITS true bits sB)).
  { change (B"--bits=" ++ bits) with (B"--" ++ B"bits" ++ 61 :: bits).
    exact (xd_step_param files sole sB B"bits" bits E_ENC_BITS eq_refl B1 B2). }
  cbn [a_loop]. rewrite W1. cbv beta iota. cbn [a_loop]. rewrite W2. cbv beta iota. cbn [a_loop]. rewrite W3.
  unfold valid_bits in Hb. apply orb_true_iff in Hb. destruct Hb as [Hb|Hb]; [apply orb_true_iff in Hb; destruct Hb as [Hb|Hb]|];
    apply bstr_eqb_eq in Hb; subst bits.
  - exists (a_emit (CCall C_MAIN B"encrypt" [B"40"; u; o]) (a_set_table B"40-bit-encryption" sB)). repeat split; reflexivity.
  - exists (a_emit (CCall C_MAIN B"encrypt" [B"128"; u; o]) (a_set_table B"128-bit-encryption" sB)). repeat split; reflexivity.
  - exists (a_emit (CCall C_MAIN B"encrypt" [B"256"; u; o]) (a_set_table B"256-bit-encryption" sB)). repeat split; reflexivity.
Qed.

(* --encrypt --user-password=u --owner-password=o --bits=B <options> -- *)
Lemma xd_enc_block : forall files sole u o bits l rest s gi go pg,
  wf_item argv_table (IEncrypt u o bits l) -> xd_inv s gi go pg ->
  exists k s', (snd (denote_item (IEncrypt u o bits l)) = true -> xd_inv s' gi go pg) /\
               a_calls s' = rev (argv_calls_item (IEncrypt u o bits l)) ++ a_calls s /\
               a_loop files sole (xd_enc_argv u o bits l ++ rest) s =
               if snd (denote_item (IEncrypt u o bits l)) then a_loop files sole rest s' else mk_fe_res (rev' (a_calls s')) (EFront k).
Proof.
  intros files sole u o bits l rest s gi go pg Hwf Hinv. pose proof Hinv as [Ht _].
  cbn [wf_item] in Hwf. destruct Hwf as [Hb [_ [_ Hl]]].
  assert (Hsubs : wf_subs (enc_table bits) l).
  { unfold wf_subs. eapply Forall_impl; [|exact Hl]. intros p [H1 [H2 _]]. auto. }
  set (s0 := a_set_table B"encryption" (a_set_acc [] (a_emit ENC0 s))).
  set (words := map (fun p : aentry * bstr => word_of (fst p) (snd p)) l).
  destruct (xd_enc_head files sole u o bits (words ++ B"--" :: rest) s0 Hb) as [s1 [Hhead [Ht1 [Hc1 [Hg1 Hp1]]]]];
    [unfold s0; destruct s; reflexivity|unfold s0; destruct s; reflexivity|].
  assert (Hc0 : a_calls s0 = ENC0 :: a_calls s) by (unfold s0; destruct s; reflexivity).
  assert (Hg0 : xd_gio s0 = xd_gio s) by (unfold s0; rewrite xd_gio_set_table, xd_gio_set_acc, xd_gio_emit; reflexivity).
  assert (Hp0 : xa_pgf s0 = xa_pgf s) by (unfold s0; rewrite xa_pgf_set_table, xa_pgf_set_acc, xa_pgf_emit; reflexivity).
  assert (Hfirst : a_loop files sole (xd_enc_argv u o bits l ++ rest) s = a_loop files sole (words ++ B"--" :: rest) s1).
  { unfold xd_enc_argv. cbn [app a_loop]. rewrite (a_step_encrypt files sole s Ht). fold s0. fold words.
    rewrite <- app_assoc. cbn [app]. exact Hhead. }
  destruct (a_loop_subs files sole (enc_table bits) l Hsubs (B"--" :: rest) s1 Ht1) as [k Hk]. fold words in Hk.
  cbn [denote_item argv_calls_item fst snd].
  destruct (denote_subs l) as [cs ok]. cbn [fst snd] in *.
  destruct ok.
  - exists 0, (a_set_table MAIN (a_emit (CCall C_ENC B"endEncrypt" []) (a_emits cs s1))).
    split.
    { intros _. apply (xd_inv_of s _ gi go pg Hinv); [apply xa_table_close| |].
      - rewrite xd_gio_set_table, xd_gio_emit, xd_gio_emits, Hg1. exact Hg0.
      - rewrite xa_pgf_set_table, xa_pgf_emit, xa_pgf_emits, Hp1. exact Hp0. }
    split.
    { rewrite xa_calls_close, a_emits_calls, Hc1, Hc0. cbn [rev]. rewrite !rev_app_distr. cbn [rev app].
      rewrite <- !app_assoc. reflexivity. }
    etransitivity; [exact Hfirst|]. etransitivity; [exact Hk|].
    cbn [a_loop]. rewrite (a_step_end_enc files sole bits (a_emits cs s1) Hb) by (rewrite xa_table_emits; exact Ht1). reflexivity.
  - exists k, (a_emits cs s1). split; [discriminate|].
    split; [|etransitivity; [exact Hfirst|exact Hk]].
    rewrite a_emits_calls, Hc1, Hc0. cbn [rev]. rewrite app_nil_r. cbn [rev app]. rewrite <- !app_assoc. reflexivity.
Qed.

(* ------------------------------------------------------------------ the other items of Sys/JobSpec.v, from any state of the
   encryption-password bookkeeping (as Sys/C19ProofsE.xa_loop_base) *)
Definition xd_is_enc (it : item) : bool := match it with IEncrypt _ _ _ _ => true | _ => false end.

Lemma xd_loop_base : forall files sole it rest s gi go pg,
  xd_is_enc it = false -> wf_item argv_table it -> xd_inv s gi go pg -> pos_ok it gi go = true ->
  exists k s', (snd (denote_item it) = true -> xd_inv s' (fst (pos_next it gi go)) (snd (pos_next it gi go)) pg) /\
               xd_pw s' = xd_pw s /\
               a_calls s' = rev (argv_calls_item it) ++ a_calls s /\
               a_loop files sole (argv_of_item it ++ rest) s =
               if snd (denote_item it) then a_loop files sole rest s' else mk_fe_res (rev' (a_calls s')) (EFront k).
Proof.
  intros files sole it rest s gi go pg Hne Hwf Hinv Hpos. pose proof Hinv as [Ht [Hgi [Hgo Hpg]]].
  destruct it as [e v|e vs|f|f| | |l|u o bits l]; cbn [argv_calls_item]; [| | | | | | |discriminate].
  - (* IOpt *)
    destruct (wf_item_main_opt (IOpt e v) e (or_introl (ex_intro _ v eq_refl)) Hwf) as [Hin [Hm Htb]].
    pose proof (entry_ok_of_wf e Hin Hm) as Hok. rewrite <- Htb in Ht.
    pose proof (a_loop_vals files sole e Hm Hok [v] rest s Ht) as H. cbn [map app] in H. cbn [argv_of_item app].
    rewrite H. cbn [denote_vals denote_item]. rewrite Htb in Ht. destruct (opt_denote e v) as [c|]; cbn.
    + exists 0, (a_emit c s). split; [|split; [apply xd_pw_emit|split; [destruct s; reflexivity|reflexivity]]].
      intros _. apply (xd_inv_of s _ gi go pg Hinv); [destruct s; exact Ht|apply xd_gio_emit|apply xa_pgf_emit].
    + exists (rej_kind e), s. split; [discriminate|]. split; [reflexivity|]. split; reflexivity.
  - (* IArr *)
    destruct (wf_item_main_opt (IArr e vs) e (or_intror (ex_intro _ vs eq_refl)) Hwf) as [Hin [Hm Htb]].
    pose proof (entry_ok_of_wf e Hin Hm) as Hok. rewrite <- Htb in Ht.
    cbn [argv_of_item denote_item]. rewrite (a_loop_vals files sole e Hm Hok vs rest s Ht).
    destruct (denote_vals e vs) as [cs ok]. cbn [fst snd pos_next]. rewrite Htb in Ht.
    exists (rej_kind e), (a_emits cs s). split; [|split; [apply xd_pw_emits|split; [apply a_emits_calls|destruct ok; reflexivity]]].
    intros _. apply (xd_inv_of s _ gi go pg Hinv); [rewrite xa_table_emits; exact Ht|apply xd_gio_emits|apply xa_pgf_emits].
  - (* IIn *)
    cbn [pos_ok] in Hpos. apply andb_true_iff in Hpos. destruct Hpos as [Hg Hp]. apply negb_true_iff in Hg.
    assert (Hgs : a_gave_input s = false) by congruence.
    cbn [argv_of_item app a_loop denote_item fst snd pos_next].
    rewrite (a_step_positional files sole f s Hp Ht). rewrite a_manual_positional. rewrite Hgs. cbn [negb].
    exists 0, (a_set_gave true (a_gave_output s) (a_emit (CCall C_MAIN B"inputFile" [f]) s)).
    split; [|split; [destruct s; reflexivity|split; [destruct s; reflexivity|reflexivity]]].
    intros _. destruct s; unfold xd_inv, xa_pgf in *; cbn in *. auto.
  - (* IOut *)
    cbn [pos_ok] in Hpos. apply andb_true_iff in Hpos. destruct Hpos as [Hg Hp]. apply andb_true_iff in Hg. destruct Hg as [Hg1 Hg2].
    apply negb_true_iff in Hg2.
    assert (Hgs1 : a_gave_input s = true) by congruence. assert (Hgs2 : a_gave_output s = false) by congruence.
    cbn [argv_of_item app a_loop denote_item fst snd pos_next].
    rewrite (a_step_positional files sole f s Hp Ht). rewrite a_manual_positional. rewrite Hgs1, Hgs2. cbn [negb].
    exists 0, (a_set_gave true true (a_emit (CCall C_MAIN B"outputFile" [f]) s)).
    split; [|split; [destruct s; reflexivity|split; [destruct s; reflexivity|reflexivity]]].
    intros _. destruct s; unfold xd_inv, xa_pgf in *; cbn in *. auto.
  - (* IEmpty *)
    cbn [argv_of_item app a_loop denote_item fst snd pos_next].
    rewrite (a_step_empty files sole s Ht).
    exists 0, (a_set_gave true (a_gave_output s) (a_emit (CCall C_MAIN B"emptyInput" []) s)).
    split; [|split; [destruct s; reflexivity|split; [destruct s; reflexivity|reflexivity]]].
    intros _. destruct s; unfold xd_inv, xa_pgf in *; cbn in *. auto.
  - (* IReplace *)
    cbn [argv_of_item app a_loop denote_item fst snd pos_next].
    rewrite (a_step_replace files sole s Ht).
    exists 0, (a_set_gave (a_gave_input s) true (a_emit (CCall C_MAIN B"replaceInput" []) s)).
    split; [|split; [destruct s; reflexivity|split; [destruct s; reflexivity|reflexivity]]].
    intros _. destruct s; unfold xd_inv, xa_pgf in *; cbn in *. auto.
  - (* IGlobal *)
    cbn [wf_item] in Hwf. fold (wf_subs B"global" l) in Hwf.
    cbn [argv_of_item app a_loop denote_item pos_next fst snd].
    rewrite (a_step_global files sole s Ht).
    set (s1 := a_set_table B"global" (a_set_acc [] (a_emit (CCall C_MAIN B"global" []) s))).
    assert (Ht1 : a_table s1 = B"global") by (destruct s; reflexivity).
    assert (Hp1 : xa_pgf s1 = xa_pgf s) by (unfold s1; rewrite xa_pgf_set_table, xa_pgf_set_acc, xa_pgf_emit; reflexivity).
    assert (Hg1 : xd_gio s1 = xd_gio s) by (unfold s1; rewrite xd_gio_set_table, xd_gio_set_acc, xd_gio_emit; reflexivity).
    assert (Hc1 : a_calls s1 = CCall C_MAIN B"global" [] :: a_calls s) by (unfold s1; destruct s; reflexivity).
    assert (Hw1 : xd_pw s1 = xd_pw s) by (unfold s1; rewrite xd_pw_set_table, xd_pw_set_acc, xd_pw_emit; reflexivity).
    rewrite <- app_assoc. cbn [app].
    destruct (a_loop_subs files sole B"global" l Hwf (B"--" :: rest) s1 Ht1) as [k Hk].
    destruct (denote_subs l) as [cs ok]. cbn [fst snd] in *.
    destruct ok.
    + exists 0, (a_set_table MAIN (a_emit (CCall C_GLOBAL B"endGlobal" []) (a_emits cs s1))).
      split.
      { intros _. apply (xd_inv_of s _ gi go pg Hinv); [apply xa_table_close| |].
        - rewrite xd_gio_set_table, xd_gio_emit, xd_gio_emits. exact Hg1.
        - rewrite xa_pgf_set_table, xa_pgf_emit, xa_pgf_emits. exact Hp1. }
      split; [rewrite xd_pw_set_table, xd_pw_emit, xd_pw_emits; exact Hw1|].
      split.
      { rewrite xa_calls_close, a_emits_calls, Hc1. cbn [rev]. rewrite rev_app_distr. cbn [rev app]. rewrite <- !app_assoc. reflexivity. }
      etransitivity; [exact Hk|]. cbn [a_loop].
      rewrite (a_step_end_global files sole (a_emits cs s1)) by (rewrite xa_table_emits; exact Ht1). reflexivity.
    + exists k, (a_emits cs s1). split; [discriminate|].
      split; [rewrite xd_pw_emits; exact Hw1|].
      split; [|exact Hk].
      rewrite a_emits_calls, Hc1. cbn [rev]. rewrite app_nil_r. rewrite <- !app_assoc. reflexivity.
Qed.

Lemma xd_pw_after_all : forall named l s, xd_pw (pg_after_all named l s) = xd_pw s.
Proof.
  intros named. induction l as [|p l IH]; intros s; [reflexivity|]. cbn [pg_after_all]. rewrite IH.
  destruct named; destruct p as [f [w|] [r|]]; destruct s; reflexivity.
Qed.

(* the page-selection block, as Sys/C19ProofsD.pg_block *)
Lemma xd_pg_block : forall files sole named l rest s gi go,
  xd_inv s gi go false -> pages_readable files named l = true ->
  exists s', xd_inv s' gi go true /\ xd_pw s' = xd_pw s /\ a_calls s' = rev (pages_denote l) ++ a_calls s /\
             a_loop files sole (pages_argv named l ++ rest) s = a_loop files sole rest s'.
Proof.
  intros files sole named l rest s gi go [Ht [Hgi [Hgo Hpg]]] Hok.
  specialize (Hpg eq_refl). unfold xa_pgf in Hpg.
  assert (Hpf : a_pages_file s = false) by (exact (f_equal fst Hpg)).
  assert (Hpr : a_pages_range s = false) by (exact (f_equal snd Hpg)).
  set (s0 := a_set_table PG (a_set_acc [] (a_emit (CCall C_MAIN B"pages" []) s))).
  assert (Ht0 : a_table s0 = PG) by (unfold s0; destruct s; reflexivity).
  assert (Hloop : exists sb, a_table sb = PG /\ sb = pg_after_all named l s0 /\
            a_loop files sole (flat_map (if named then pgs_words_named else pgs_words_positional) l ++ B"--" :: rest) s0 =
            a_loop files sole (B"--" :: rest) sb).
  { exists (pg_after_all named l s0). destruct named.
    - destruct (pg_specs_named files sole l (B"--" :: rest) s0 Ht0) as [E T]. auto.
    - cbn [pages_readable orb] in Hok.
      assert (Hinv0 : pg_inv true false s0).
      { unfold pg_inv. split; [exact Ht0|]. unfold s0. destruct s; cbn in *. auto. }
      destruct (pg_specs_positional files sole l (B"--" :: rest) s0 true false Hinv0 Hok) as [E T]. auto. }
  destruct Hloop as [sb [Htb [Hsb Hloop]]].
  exists (a_set_table MAIN (a_emit (CCall C_PAGES B"endPages" []) sb)).
  destruct (pg_after_all_fields named l s0) as [F1 [F2 [F3 F4]]]. rewrite <- Hsb in F1, F2, F3, F4.
  split.
  { destruct (close_table_fields MAIN (CCall C_PAGES B"endPages" []) sb) as [G1 [G2 [G3 [_ G5]]]].
    split; [exact G1|]. split; [rewrite G2, F1; unfold s0; destruct s; exact Hgi|].
    split; [rewrite G3, F2; unfold s0; destruct s; exact Hgo|discriminate]. }
  split.
  { rewrite xd_pw_set_table, xd_pw_emit, Hsb, xd_pw_after_all. unfold s0. rewrite xd_pw_set_table, xd_pw_set_acc, xd_pw_emit. reflexivity. }
  split.
  { destruct (close_table_fields MAIN (CCall C_PAGES B"endPages" []) sb) as [_ [_ [_ [G4 _]]]]. rewrite G4, F4.
    assert (Hc0 : a_calls s0 = CCall C_MAIN B"pages" [] :: a_calls s) by (unfold s0; destruct s; reflexivity).
    rewrite Hc0. unfold pages_denote. cbn [rev]. rewrite rev_app_distr. cbn [rev app].
    rewrite <- !app_assoc. reflexivity. }
  unfold pages_argv. cbn [app a_loop]. rewrite (pg_step_open files sole s Ht). fold s0.
  rewrite <- app_assoc. cbn [app]. etransitivity; [exact Hloop|]. cbn [a_loop]. rewrite (pg_step_close files sole sb Htb). reflexivity.
Qed.

Lemma xd_item_of_blocks : forall files sole d words rest s gi go pg,
  xd_inv s gi go pg -> xa_block_post files sole d words rest s ->
  exists k s', (snd d = true -> xd_inv s' gi go pg) /\ xd_pw s' = xd_pw s /\ a_calls s' = rev (fst d) ++ a_calls s /\
               a_loop files sole (words ++ rest) s =
               if snd d then a_loop files sole rest s' else mk_fe_res (rev' (a_calls s')) (EFront k).
Proof.
  intros files sole d words rest s gi go pg Hinv [k [s' [H1 [H2 [H3 H4]]]]].
  exists k, s'. split; [|split; [exact (xd_pw_frame s s' H2)|split; assumption]].
  intros Hok. exact (xd_inv_of s s' gi go pg Hinv (H1 Hok) (xd_gio_frame s s' H2) (xa_frame_pgf s s' H2)).
Qed.

Definition xj_is_enc (it : xj_item) : bool := match it with XjBase b => xd_is_enc b | _ => false end.

Lemma xd_loop_item : forall files sole named it rest s gi go pg,
  xj_wf_item argv_table files named it -> xd_inv s gi go pg -> xj_pos_ok it gi go pg = true ->
  exists k s', (snd (xj_denote_item it) = true -> xd_inv s' (xj_next_gi it gi go) (xj_next_go it gi go) (xj_next_pg it pg)) /\
               (xj_is_enc it = false -> xd_pw s' = xd_pw s) /\
               a_calls s' = rev (xj_argv_calls_item it) ++ a_calls s /\
               a_loop files sole (xd_argv_of_item named it ++ rest) s =
               if snd (xj_denote_item it) then a_loop files sole rest s' else mk_fe_res (rev' (a_calls s')) (EFront k).
Proof.
  intros files sole named it rest s gi go pg Hwf Hinv Hpos. pose proof Hinv as [Ht _].
  destruct it as [b|l|l|l|l|l|l].
  - (* base *)
    cbn [xj_wf_item xj_pos_ok xj_next_gi xj_next_go xj_next_pg xj_argv_calls_item xj_denote_item] in *.
    destruct (xd_is_enc b) eqn:He.
    + destruct b as [e v|e vs|f|f| | |l|u o bits l]; try discriminate.
      cbn [xd_argv_of_item pos_next fst snd].
      destruct (xd_enc_block files sole u o bits l rest s gi go pg Hwf Hinv) as [k [s' [H1 [H2 H3]]]].
      exists k, s'. split; [exact H1|]. split; [discriminate|]. split; assumption.
    + assert (Hr : xd_argv_of_item named (XjBase b) = argv_of_item b) by (destruct b; try reflexivity; discriminate).
      rewrite Hr. destruct (xd_loop_base files sole b rest s gi go pg He Hwf Hinv Hpos) as [k [s' [H1 [H2 H3]]]].
      exists k, s'. split; [exact H1|]. split; [intros _; exact H2|exact H3].
  - (* pages *)
    cbn [xj_wf_item xj_pos_ok xj_next_gi xj_next_go xj_next_pg xj_argv_calls_item xj_denote_item xd_argv_of_item xj_argv_of_item] in *.
    apply negb_true_iff in Hpos. subst pg.
    destruct (xd_pg_block files sole named l rest s gi go Hinv Hwf) as [s' [H1 [Hw [H2 H3]]]].
    exists 0, s'. cbn [fst snd]. split; [intros _; exact H1|]. split; [intros _; exact Hw|]. split; assumption.
  - destruct (xd_item_of_blocks files sole _ _ rest s gi go pg Hinv
             (xa_blocks_post _ files sole (xj_uo_denote B"overlay") (xj_uo_argv named B"overlay") (xj_wf_uo argv_table named)
                (fun x rest0 s0 Hx H0 => xa_block_uo files sole named true x rest0 s0 Hx H0) l Hwf rest s Ht)) as [k [s' [H1 [Hw [H2 H3]]]]].
    exists k, s'. split; [exact H1|]. split; [intros _; exact Hw|]. split; assumption.
  - destruct (xd_item_of_blocks files sole _ _ rest s gi go pg Hinv
             (xa_blocks_post _ files sole (xj_uo_denote B"underlay") (xj_uo_argv named B"underlay") (xj_wf_uo argv_table named)
                (fun x rest0 s0 Hx H0 => xa_block_uo files sole named false x rest0 s0 Hx H0) l Hwf rest s Ht)) as [k [s' [H1 [Hw [H2 H3]]]]].
    exists k, s'. split; [exact H1|]. split; [intros _; exact Hw|]. split; assumption.
  - destruct (xd_item_of_blocks files sole _ _ rest s gi go pg Hinv
             (xa_blocks_post _ files sole xj_att_denote (xj_block_argv B"add-attachment") (Forall (xj_wf_word argv_table ATT))
                (fun x rest0 s0 Hx H0 => xa_block_att files sole x rest0 s0 Hx H0) l Hwf rest s Ht)) as [k [s' [H1 [Hw [H2 H3]]]]].
    exists k, s'. split; [exact H1|]. split; [intros _; exact Hw|]. split; assumption.
  - destruct (xd_item_of_blocks files sole _ _ rest s gi go pg Hinv
             (xa_blocks_post _ files sole xj_copyatt_denote (xj_block_argv B"copy-attachments-from") (Forall (xj_wf_word argv_table CATT))
                (fun x rest0 s0 Hx H0 => xa_block_catt files sole x rest0 s0 Hx H0) l Hwf rest s Ht)) as [k [s' [H1 [Hw [H2 H3]]]]].
    exists k, s'. split; [exact H1|]. split; [intros _; exact Hw|]. split; assumption.
  - cbn [xj_wf_item xj_pos_ok xj_next_gi xj_next_go xj_next_pg xj_argv_calls_item xj_denote_item xd_argv_of_item xj_argv_of_item] in *.
    destruct (xa_block_spl files sole l rest s Hwf Ht) as [s' [H1 [H2 [H3 H4]]]].
    exists 0, s'. cbn [fst snd rev app].
    split; [intros _; exact (xd_inv_of s s' gi go pg Hinv H1 (xd_gio_frame s s' H2) (xa_frame_pgf s s' H2))|].
    split; [intros _; exact (xd_pw_frame s s' H2)|].
    split; [exact H3|]. rewrite <- H4. cbn [app]. rewrite <- app_assoc. reflexivity.
Qed.

Lemma xd_loop_job : forall files sole named j s gi go pg,
  Forall (xj_wf_item argv_table files named) j -> xj_wf_pos j gi go pg = true -> xd_inv s gi go pg ->
  res_is (a_loop files sole (xd_render_argv named j) s) (rev (a_calls s)) (xj_argv_calls j) (snd (xj_denote_items j)).
Proof.
  intros files sole named. induction j as [|it j IH]; intros s gi go pg Hwf Hpos Hinv.
  - unfold res_is. cbn [xd_render_argv flat_map xj_denote_items xj_seq xj_argv_calls fst snd a_loop].
    destruct Hinv as [Ht _]. rewrite Ht.
    rewrite bstr_eqb_refl. rewrite rev'_rev. cbn [rev app]. reflexivity.
  - pose proof (Forall_inv Hwf) as Hit. pose proof (Forall_inv_tail Hwf) as Hj.
    rewrite xj_wf_pos_cons in Hpos. apply andb_true_iff in Hpos. destruct Hpos as [Hp1 Hp2].
    cbn [xd_render_argv flat_map].
    destruct (xd_loop_item files sole named it (flat_map (xd_argv_of_item named) j) s gi go pg Hit Hinv Hp1) as [k [s' [Hinv' [_ [Hcalls Heq]]]]].
    rewrite Heq. unfold xj_denote_items. cbn [xj_seq xj_argv_calls]. fold (xj_denote_items j).
    destruct (xj_denote_item it) as [cs ok] eqn:Hd. cbn [fst snd] in *.
    destruct ok.
    + specialize (IH _ _ _ _ Hj Hp2 (Hinv' eq_refl)). fold (xd_render_argv named j).
      rewrite Hcalls in IH. rewrite rev_app_distr, rev_involutive in IH.
      unfold xj_denote_items in *. destruct (xj_seq xj_denote_item j) as [cs2 ok2]. cbn [fst snd] in *.
      unfold res_is in *. destruct ok2.
      * rewrite IH. rewrite <- !app_assoc. reflexivity.
      * destruct IH as [k2 IH]. exists k2. rewrite IH. rewrite <- !app_assoc. reflexivity.
    + unfold res_is. cbn [snd]. exists k. rewrite rev'_rev, Hcalls, rev_app_distr, rev_involutive. reflexivity.
Qed.

(* argv_refines_spec for the dashed spelling of --encrypt ( --encrypt --user-password=u --owner-password=o --bits=B ... -- ), over
   every option table: the same calls as for the positional spelling, i.e. those of the job's denotation preceded by
   encrypt(0,"","") - whatever an earlier --encrypt of the same command line left in the parser's user/owner password variables *)
Lemma argv_dashed_refines_spec_lemma : forall files named j, xj_wf_job argv_table files named j ->
  res_is (front_argv files (xd_render_argv named j)) [] (xj_argv_calls j) (snd (xj_denote_items j)).
Proof.
  intros files named j [Hwf Hpos]. unfold front_argv.
  generalize (match xd_render_argv named j with [_] => true | _ => false end). intros sole.
  apply (xd_loop_job files sole named j a_init false false false Hwf Hpos).
  split; [reflexivity|]. split; [reflexivity|]. split; [reflexivity|]. intros _. reflexivity.
Qed.

(* nested_equivalent for the dashed spelling: it agrees with the job JSON (same Config calls, the preliminary encrypt(0,"","") apart;
   rejected together), hence - with nested_equivalent - all three notations of an encryption request agree *)
Lemma nested_equivalent_dashed_lemma : forall files named j, xj_wf_job argv_table files named j ->
  strip_enc0 (r_calls (front_argv files (xd_render_argv named j))) = r_calls (front_json false (xj_render_json j)) /\
  r_calls (front_argv files (xd_render_argv named j)) = r_calls (front_argv files (xj_render_argv named j)) /\
  ((r_end (front_argv files (xd_render_argv named j)) = EFin /\ r_end (front_json false (xj_render_json j)) = EFin) \/
   (exists k1 k2, r_end (front_argv files (xd_render_argv named j)) = EFront k1 /\ r_end (front_json false (xj_render_json j)) = EFront k2)).
Proof.
  intros files named j Hwf.
  pose proof (argv_dashed_refines_spec_lemma files named j Hwf) as HD.
  pose proof (argv_refines_spec_lemma files named j Hwf) as HA.
  destruct Hwf as [Hwf _]. pose proof (json_refines_spec_lemma files named j Hwf) as HJ.
  pose proof (xj_strip_argv_calls files named j Hwf) as HS.
  unfold res_is in *. destruct (snd (xj_denote_items j)).
  - rewrite HD, HA, HJ. cbn [r_calls r_end app]. split; [rewrite strip_app, HS; reflexivity|]. split; [reflexivity|]. left. split; reflexivity.
  - destruct HD as [k1 HD]. destruct HA as [k0 HA]. destruct HJ as [k2 HJ]. rewrite HD, HA, HJ. cbn [r_calls r_end app].
    split; [exact HS|]. split; [reflexivity|]. right. exists k1, k2. split; reflexivity.
Qed.

(* ================================================================== the dashed spelling with password options left out *)
Lemma xo_step_user : forall files sole u s, a_table s = ENCT -> a_acc s = [] ->
  a_step files sole (B"--user-password=" ++ u) s = inl (AOk (a_set_pw u (a_owner s) true s)).
Proof.
  intros files sole u s Ht Hacc. destruct xd_enc_lookup as [U1 [U2 _]].
  change (B"--user-password=" ++ u) with (B"--" ++ B"user-password" ++ 61 :: u).
  rewrite (xd_step_param files sole s B"user-password" u E_ENC_USER eq_refl) by (first [rewrite Ht; exact U1 | exact U2]).
  destruct s; cbn in *; subst. reflexivity.
Qed.

Lemma xo_step_owner : forall files sole o s, a_table s = ENCT -> a_acc s = [] ->
  a_step files sole (B"--owner-password=" ++ o) s = inl (AOk (a_set_pw (a_user s) o true s)).
Proof.
  intros files sole o s Ht Hacc. destruct xd_enc_lookup as [_ [_ [O1 [O2 _]]]].
  change (B"--owner-password=" ++ o) with (B"--" ++ B"owner-password" ++ 61 :: o).
  rewrite (xd_step_param files sole s B"owner-password" o E_ENC_OWNER eq_refl) by (first [rewrite Ht; exact O1 | exact O2]).
  destruct s; cbn in *; subst. reflexivity.
Qed.

Lemma xo_step_bits : forall files sole bits s, valid_bits bits = true -> a_table s = ENCT -> a_acc s = [] ->
  a_step files sole (B"--bits=" ++ bits) s =
  inl (AOk (a_emit (CCall C_MAIN B"encrypt" [bits; a_user s; a_owner s]) (a_set_table (enc_table bits) s))).
Proof.
  intros files sole bits s Hb Ht Hacc. destruct xd_enc_lookup as [_ [_ [_ [_ [B1 B2]]]]].
  change (B"--bits=" ++ bits) with (B"--" ++ B"bits" ++ 61 :: bits).
  rewrite (xd_step_param files sole s B"bits" bits E_ENC_BITS eq_refl) by (first [rewrite Ht; exact B1 | exact B2]).
  destruct s; cbn in Ht, Hacc; subst.
  unfold valid_bits in Hb. apply orb_true_iff in Hb. destruct Hb as [Hb|Hb]; [apply orb_true_iff in Hb; destruct Hb as [Hb|Hb]|];
    apply bstr_eqb_eq in Hb; subst bits; reflexivity.
Qed.

(* a password option, given or left out, from a state that remembers the empty password *)
Lemma xo_pw_words : forall files sole u o rest s0, a_table s0 = ENCT -> a_acc s0 = [] -> xd_pw s0 = ([], []) ->
  exists sB, a_loop files sole (xd_pw_word B"user-password" u ++ xd_pw_word B"owner-password" o ++ rest) s0 = a_loop files sole rest sB /\
             a_table sB = ENCT /\ a_acc sB = [] /\ xd_pw sB = (u, o) /\ a_calls sB = a_calls s0 /\
             xd_gio sB = xd_gio s0 /\ xa_pgf sB = xa_pgf s0.
Proof.
  intros files sole u o rest s0 Ht Hacc Hpw.
  destruct s0 as [tb acc us ow pf pr rs used gi go calls]. cbn in Ht, Hacc. unfold xd_pw in Hpw. cbn in Hpw. inversion Hpw. subst tb acc us ow.
  assert (Hcases : forall flag v, (xd_pw_word flag v = [] /\ v = []) \/ xd_pw_word flag v = [B"--" ++ flag ++ 61 :: v]).
  { intros flag v. destruct v; [left; split; reflexivity|right; reflexivity]. }
  assert (WU : forall st, a_table st = ENCT -> a_acc st = [] ->
            a_step files sole (B"--" ++ B"user-password" ++ 61 :: u) st = inl (AOk (a_set_pw u (a_owner st) true st)))
    by (intros st H1 H2; exact (xo_step_user files sole u st H1 H2)).
  assert (WO : forall st, a_table st = ENCT -> a_acc st = [] ->
            a_step files sole (B"--" ++ B"owner-password" ++ 61 :: o) st = inl (AOk (a_set_pw (a_user st) o true st)))
    by (intros st H1 H2; exact (xo_step_owner files sole o st H1 H2)).
  set (wu := B"--" ++ B"user-password" ++ 61 :: u) in *. set (wo := B"--" ++ B"owner-password" ++ 61 :: o) in *.
  destruct (Hcases B"user-password" u) as [[E1 Eu]|E1]; destruct (Hcases B"owner-password" o) as [[E2 Eo]|E2]; rewrite E1, E2;
    fold wu; fold wo; cbn [app].
  - subst u o. eexists. split; [reflexivity|]. repeat split; reflexivity.
  - subst u. eexists. split; [cbn [a_loop]; rewrite WO by reflexivity; reflexivity|]. repeat split; reflexivity.
  - subst o. eexists. split; [cbn [a_loop]; rewrite WU by reflexivity; reflexivity|]. repeat split; reflexivity.
  - eexists. split; [cbn [a_loop]; rewrite WU by reflexivity; cbv beta iota; cbn [a_loop];
                     rewrite WO by reflexivity; reflexivity|]. repeat split; reflexivity.
Qed.

Lemma xo_enc_block : forall files sole u o bits l rest s gi go pg,
  wf_item argv_table (IEncrypt u o bits l) -> xd_inv s gi go pg -> xd_pw s = ([], []) ->
  exists k s', (snd (denote_item (IEncrypt u o bits l)) = true -> xd_inv s' gi go pg) /\
               a_calls s' = rev (argv_calls_item (IEncrypt u o bits l)) ++ a_calls s /\
               a_loop files sole (xo_enc_argv u o bits l ++ rest) s =
               if snd (denote_item (IEncrypt u o bits l)) then a_loop files sole rest s' else mk_fe_res (rev' (a_calls s')) (EFront k).
Proof.
  intros files sole u o bits l rest s gi go pg Hwf Hinv Hpw. pose proof Hinv as [Ht _].
  cbn [wf_item] in Hwf. destruct Hwf as [Hb [_ [_ Hl]]].
  assert (Hsubs : wf_subs (enc_table bits) l).
  { unfold wf_subs. eapply Forall_impl; [|exact Hl]. intros p [H1 [H2 _]]. auto. }
  set (s0 := a_set_table B"encryption" (a_set_acc [] (a_emit ENC0 s))).
  set (words := map (fun p : aentry * bstr => word_of (fst p) (snd p)) l).
  assert (Hc0 : a_calls s0 = ENC0 :: a_calls s) by (unfold s0; destruct s; reflexivity).
  assert (Hg0 : xd_gio s0 = xd_gio s) by (unfold s0; rewrite xd_gio_set_table, xd_gio_set_acc, xd_gio_emit; reflexivity).
  assert (Hp0 : xa_pgf s0 = xa_pgf s) by (unfold s0; rewrite xa_pgf_set_table, xa_pgf_set_acc, xa_pgf_emit; reflexivity).
  assert (Hw0 : xd_pw s0 = ([], [])) by (unfold s0; rewrite xd_pw_set_table, xd_pw_set_acc, xd_pw_emit; exact Hpw).
  destruct (xo_pw_words files sole u o ((B"--bits=" ++ bits) :: words ++ B"--" :: rest) s0) as [sB [HB [HtB [HaB [HwB [HcB [HgB HpB]]]]]]];
    [unfold s0; destruct s; reflexivity|unfold s0; destruct s; reflexivity|exact Hw0|].
  set (s1 := a_emit (CCall C_MAIN B"encrypt" [bits; a_user sB; a_owner sB]) (a_set_table (enc_table bits) sB)).
  assert (Hus : a_user sB = u) by (exact (f_equal fst HwB)). assert (Hos : a_owner sB = o) by (exact (f_equal snd HwB)).
  assert (Ht1 : a_table s1 = enc_table bits) by (unfold s1; destruct sB; reflexivity).
  assert (Hc1 : a_calls s1 = CCall C_MAIN B"encrypt" [bits; u; o] :: a_calls s0).
  { unfold s1. rewrite Hus, Hos. rewrite <- HcB. destruct sB; reflexivity. }
  assert (Hg1 : xd_gio s1 = xd_gio s0) by (unfold s1; rewrite xd_gio_emit, xd_gio_set_table; exact HgB).
  assert (Hp1 : xa_pgf s1 = xa_pgf s0) by (unfold s1; rewrite xa_pgf_emit, xa_pgf_set_table; exact HpB).
  assert (Hfirst : a_loop files sole (xo_enc_argv u o bits l ++ rest) s = a_loop files sole (words ++ B"--" :: rest) s1).
  { unfold xo_enc_argv. cbn [app a_loop]. rewrite (a_step_encrypt files sole s Ht). fold s0. fold words.
    rewrite <- !app_assoc. cbn [app]. rewrite <- app_assoc. cbn [app]. etransitivity; [exact HB|].
    cbn [a_loop]. rewrite (xo_step_bits files sole bits sB Hb HtB HaB). reflexivity. }
  destruct (a_loop_subs files sole (enc_table bits) l Hsubs (B"--" :: rest) s1 Ht1) as [k Hk]. fold words in Hk.
  cbn [denote_item argv_calls_item fst snd].
  destruct (denote_subs l) as [cs ok]. cbn [fst snd] in *.
  destruct ok.
  - exists 0, (a_set_table MAIN (a_emit (CCall C_ENC B"endEncrypt" []) (a_emits cs s1))).
    split.
    { intros _. apply (xd_inv_of s _ gi go pg Hinv); [apply xa_table_close| |].
      - rewrite xd_gio_set_table, xd_gio_emit, xd_gio_emits, Hg1. exact Hg0.
      - rewrite xa_pgf_set_table, xa_pgf_emit, xa_pgf_emits, Hp1. exact Hp0. }
    split.
    { rewrite xa_calls_close, a_emits_calls, Hc1, Hc0. cbn [rev]. rewrite !rev_app_distr. cbn [rev app].
      rewrite <- !app_assoc. reflexivity. }
    etransitivity; [exact Hfirst|]. etransitivity; [exact Hk|].
    cbn [a_loop]. rewrite (a_step_end_enc files sole bits (a_emits cs s1) Hb) by (rewrite xa_table_emits; exact Ht1). reflexivity.
  - exists k, (a_emits cs s1). split; [discriminate|].
    split; [|etransitivity; [exact Hfirst|exact Hk]].
    rewrite a_emits_calls, Hc1, Hc0. cbn [rev]. rewrite app_nil_r. cbn [rev app]. rewrite <- !app_assoc. reflexivity.
Qed.

Lemma xo_count_cons : forall it r, xo_count_enc (it :: r) = if xj_is_enc it then S (xo_count_enc r) else xo_count_enc r.
Proof. intros it r. destruct it as [b|l|l|l|l|l|l]; try reflexivity. destruct b; reflexivity. Qed.

Lemma xo_loop_job : forall files sole named j s gi go pg,
  Forall (xj_wf_item argv_table files named) j -> xj_wf_pos j gi go pg = true -> xd_inv s gi go pg ->
  (xo_count_enc j <= 1)%nat -> (xo_count_enc j = 1%nat -> xd_pw s = ([], [])) ->
  res_is (a_loop files sole (xo_render_argv named j) s) (rev (a_calls s)) (xj_argv_calls j) (snd (xj_denote_items j)).
Proof.
  intros files sole named. induction j as [|it j IH]; intros s gi go pg Hwf Hpos Hinv Hcnt Hclean.
  - unfold res_is. cbn [xo_render_argv flat_map xj_denote_items xj_seq xj_argv_calls fst snd a_loop].
    destruct Hinv as [Ht _]. rewrite Ht.
    rewrite bstr_eqb_refl. rewrite rev'_rev. cbn [rev app]. reflexivity.
  - pose proof (Forall_inv Hwf) as Hit. pose proof (Forall_inv_tail Hwf) as Hj.
    rewrite xj_wf_pos_cons in Hpos. apply andb_true_iff in Hpos. destruct Hpos as [Hp1 Hp2].
    rewrite xo_count_cons in Hcnt, Hclean.
    cbn [xo_render_argv flat_map].
    assert (Hitem : exists k s', (snd (xj_denote_item it) = true ->
                       xd_inv s' (xj_next_gi it gi go) (xj_next_go it gi go) (xj_next_pg it pg) /\
                       (xo_count_enc j <= 1)%nat /\ (xo_count_enc j = 1%nat -> xd_pw s' = ([], []))) /\
                     a_calls s' = rev (xj_argv_calls_item it) ++ a_calls s /\
                     a_loop files sole (xo_argv_of_item named it ++ flat_map (xo_argv_of_item named) j) s =
                     if snd (xj_denote_item it) then a_loop files sole (flat_map (xo_argv_of_item named) j) s'
                     else mk_fe_res (rev' (a_calls s')) (EFront k)).
    { destruct (xj_is_enc it) eqn:He.
      - destruct it as [b|l|l|l|l|l|l]; try discriminate. destruct b as [e v|e vs|f|f| | |l|u o bits l]; try discriminate.
        cbn [xj_wf_item xj_pos_ok xj_next_gi xj_next_go xj_next_pg xj_argv_calls_item xj_denote_item xo_argv_of_item pos_next fst snd] in *.
        assert (H0 : xo_count_enc j = O) by lia.
        destruct (xo_enc_block files sole u o bits l (flat_map (xo_argv_of_item named) j) s gi go pg Hit Hinv (Hclean (f_equal S H0)))
          as [k [s' [H1 [H2 H3]]]].
        exists k, s'. split; [|split; assumption].
        intros Hok. split; [exact (H1 Hok)|]. split; [lia|]. intros Hx. rewrite H0 in Hx. discriminate.
      - assert (Hr : xo_argv_of_item named it = xd_argv_of_item named it).
        { destruct it as [b|l|l|l|l|l|l]; try reflexivity. destruct b; try reflexivity. discriminate. }
        rewrite Hr.
        destruct (xd_loop_item files sole named it (flat_map (xo_argv_of_item named) j) s gi go pg Hit Hinv Hp1) as [k [s' [H1 [Hw [H2 H3]]]]].
        exists k, s'. split; [|split; assumption].
        intros Hok. split; [exact (H1 Hok)|]. split; [exact Hcnt|]. intros Hx. rewrite (Hw He). exact (Hclean Hx). }
    destruct Hitem as [k [s' [Hinv' [Hcalls Heq]]]].
    rewrite Heq. unfold xj_denote_items. cbn [xj_seq xj_argv_calls]. fold (xj_denote_items j).
    destruct (xj_denote_item it) as [cs ok] eqn:Hd. cbn [fst snd] in *.
    destruct ok.
    + destruct (Hinv' eq_refl) as [I1 [I2 I3]].
      specialize (IH _ _ _ _ Hj Hp2 I1 I2 I3). fold (xo_render_argv named j).
      rewrite Hcalls in IH. rewrite rev_app_distr, rev_involutive in IH.
      unfold xj_denote_items in *. destruct (xj_seq xj_denote_item j) as [cs2 ok2]. cbn [fst snd] in *.
      unfold res_is in *. destruct ok2.
      * rewrite IH. rewrite <- !app_assoc. reflexivity.
      * destruct IH as [k2 IH]. exists k2. rewrite IH. rewrite <- !app_assoc. reflexivity.
    + unfold res_is. cbn [snd]. exists k. rewrite rev'_rev, Hcalls, rev_app_distr, rev_involutive. reflexivity.
Qed.

(* argv_refines_spec for the dashed spelling with the optional password options left out when the password is empty
   ( --encrypt [--user-password=u] [--owner-password=o] --bits=B ... -- ), for jobs with at most one encryption request (job JSON has
   one key "encrypt"): the calls of the job's denotation, encrypt(B, u, o) with "" for a password whose option is left out *)
Lemma argv_dashed_optional_refines_spec_lemma : forall files named j,
  xj_wf_job argv_table files named j -> (xo_count_enc j <= 1)%nat ->
  res_is (front_argv files (xo_render_argv named j)) [] (xj_argv_calls j) (snd (xj_denote_items j)).
Proof.
  intros files named j [Hwf Hpos] Hcnt. unfold front_argv.
  generalize (match xo_render_argv named j with [_] => true | _ => false end). intros sole.
  apply (xo_loop_job files sole named j a_init false false false Hwf Hpos); [|exact Hcnt|intros _; reflexivity].
  split; [reflexivity|]. split; [reflexivity|]. split; [reflexivity|]. intros _. reflexivity.
Qed.

(* why "at most one": the parser keeps the passwords of an earlier --encrypt of the same command line, and a later --encrypt whose
   password options are left out is given THOSE passwords, not the empty ones (unchanged qpdf; job JSON cannot say two encryption
   requests, so no job denotes this command line and the equivalence is not concerned) *)
Lemma encrypt_password_memory_lemma :
  front_argv [] [B"A.pdf"; B"out.pdf"; B"--encrypt"; B"--user-password=u1"; B"--owner-password=o1"; B"--bits=256"; B"--";
                 B"--encrypt"; B"--bits=128"; B"--"] =
  mk_fe_res [CCall C_MAIN B"inputFile" [B"A.pdf"]; CCall C_MAIN B"outputFile" [B"out.pdf"];
             ENC0; CCall C_MAIN B"encrypt" [B"256"; B"u1"; B"o1"]; CCall C_ENC B"endEncrypt" [];
             ENC0; CCall C_MAIN B"encrypt" [B"128"; B"u1"; B"o1"]; CCall C_ENC B"endEncrypt" []; CHECK] EFin.
Proof. vm_compute. reflexivity. Qed.
