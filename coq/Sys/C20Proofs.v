(* C20 - proofs about the heap model (Sys/Heap.v). *)
From QV Require Import Base.Bytes Sys.Heap.
From QV Require Import Gen.Globals Sys.GlobalAudit.
Local Open Scope N_scope.

(* ================================================================== finding D6 (DESIGN section 6), fixed in /repo by b456e5d1.
   History: documents 1 and 2; document 1 parses `[ null 1 ]`, document 2 parses `<< /K [ null 2 ] >>`;
   document 1 makes ITS null indirect.  With the shared cell ([sh = true], the discipline BEFORE the fix) what a
   caller sees of document 2 and of a fresh parse changes; with [sh = false] (the code as it is) nothing does. *)
Definition d6_prefix : list (nat * iop) :=
  [(1%nat, OpNewDoc); (2%nat, OpNewDoc);
   (1%nat, OpParse 11%nat [ItAO; ItNull; ItInt 1; ItAC]);
   (2%nat, OpParse 21%nat [ItDO; ItName 75; ItAO; ItNull; ItInt 2; ItAC; ItDC])].
Definition d6_op : iop := OpMakeInd (ERoot 11%nat, [SIdx 0%nat]).
Definition d6_world (sh : bool) : world := snd (run_hist sh world0 d6_prefix).

(* ================================================================== ownership structure *)
Definition in_a (a : nat) (l : iloc) : Prop := match l with LDoc d _ => d = a | LStat _ => False end.

Definition kids (v : hval) : list iloc :=
  match v with
  | HArr els => els
  | HSparse _ els => map snd els
  | HDict items => map snd items
  | HRef t => [t]
  | _ => []
  end.

Definition closed_cell (a : nat) (c : hcell) : Prop := Forall (in_a a) (kids (c_val c)).

(* document d's arena only points into document d's arena; its object table and the handles obtained from it too *)
Definition wf_doc (d : nat) (dv : docv) : Prop :=
  Forall (closed_cell d) (dv_cells dv) /\
  Forall (fun e => in_a d (snd e)) (dv_cache dv) /\
  Forall (fun e => in_a d (snd e)) (dv_roots dv).

(* [disjoint_docs] of DESIGN section 5 *)
Definition wf (w : world) : Prop := forall d dv, nth_error (w_docs w) d = Some dv -> wf_doc d dv.

(* what an operation of document a may change: document a's own view *)
Definition same_others (a : nat) (w w' : world) : Prop :=
  w_stat w' = w_stat w /\ forall b, b <> a -> nth_error (w_docs w') b = nth_error (w_docs w) b.

Definition ok (a : nat) (w w' : world) : Prop := same_others a w w' /\ (wf w -> wf w').

Lemma ok_refl a w : ok a w w.
Proof. unfold ok, same_others. intuition. Qed.

Lemma ok_trans a w1 w2 w3 : ok a w1 w2 -> ok a w2 w3 -> ok a w1 w3.
Proof.
  intros [[S1 O1] W1] [[S2 O2] W2]. split; [split|].
  - congruence.
  - intros b Hb. rewrite O2, O1; auto.
  - auto.
Qed.

(* ------------------------------------------------------------------ list facts *)
Lemma nth_error_set_nth_eq {A} (l : list A) n x : (n < length l)%nat -> nth_error (set_nth l n x) n = Some x.
Proof. revert n. induction l; intros [|n] H; simpl in *; try lia; auto. apply IHl. lia. Qed.

Lemma nth_error_set_nth_ne {A} (l : list A) n m x : n <> m -> nth_error (set_nth l n x) m = nth_error l m.
Proof. revert n m. induction l; intros [|n] [|m] H; simpl; auto; try congruence. Qed.

Lemma nth_error_set_nth_out {A} (l : list A) n x : (length l <= n)%nat -> set_nth l n x = l.
Proof. revert n. induction l; intros [|n] H; simpl in *; auto; try lia. f_equal. apply IHl. lia. Qed.

Lemma Forall_set_nth {A} (P : A -> Prop) l n x : Forall P l -> P x -> Forall P (set_nth l n x).
Proof. intros H Hx. revert n. induction H; intros [|n]; simpl; auto. Qed.

Lemma Forall_remove_nth {A} (P : A -> Prop) l n : Forall P l -> Forall P (remove_nth l n).
Proof. intros H. revert n. induction H; intros [|n]; simpl; auto. Qed.

Lemma Forall_nth_error {A} (P : A -> Prop) l n x : Forall P l -> nth_error l n = Some x -> P x.
Proof. intros H E. apply nth_error_In in E. rewrite Forall_forall in H. auto. Qed.

Lemma nmap_get_in {A} (m : list (N * A)) k v : nmap_get m k = Some v -> In (k, v) m.
Proof.
  induction m as [|[k' v'] m IH]; simpl; [discriminate|].
  destruct (k' =? k) eqn:E; intros H.
  - apply N.eqb_eq in E. inversion H; subst. auto.
  - auto.
Qed.

Lemma imap_get_in {A} (m : list (nat * A)) k v : imap_get m k = Some v -> In (k, v) m.
Proof.
  induction m as [|[k' v'] m IH]; simpl; [discriminate|].
  destruct (Nat.eqb k' k) eqn:E; intros H.
  - apply Nat.eqb_eq in E. inversion H; subst. auto.
  - auto.
Qed.

Lemma Forall_nmap_set {A} (P : N * A -> Prop) m k v : Forall P m -> P (k, v) -> Forall P (nmap_set m k v).
Proof.
  intros H Hx. induction H as [|[k' v'] m Hh Ht IH]; simpl; auto.
  destruct (k <? k'); [auto|]. destruct (k' =? k); auto.
Qed.

Lemma Forall_nmap_del {A} (P : N * A -> Prop) m k : Forall P m -> Forall P (nmap_del m k).
Proof. intros H. induction H as [|[k' v'] m Hh Ht IH]; simpl; auto. destruct (k' =? k); auto. Qed.

Lemma Forall_imap_set {A} (P : nat * A -> Prop) m k v :
  (forall k1 k2 x, P (k1, x) -> P (k2, x)) -> Forall P m -> P (k, v) -> Forall P (imap_set m k v).
Proof.
  intros _ H Hx. induction H as [|[k' v'] m Hh Ht IH]; simpl; auto.
  destruct (Nat.ltb k k'); [auto|]. destruct (Nat.eqb k' k); auto.
Qed.

Lemma Forall_imap_erase_shift {A} (P : nat * A -> Prop) m n :
  (forall k1 k2 x, P (k1, x) -> P (k2, x)) -> Forall P m -> Forall P (imap_erase_shift m n).
Proof.
  intros Hk H. induction H as [|[k' v'] m Hh Ht IH]; simpl; auto.
  destruct (Nat.eqb k' n); [auto|]. destruct (Nat.ltb n k'); constructor; eauto.
Qed.

Lemma Forall_map_snd {A B} (P : B -> Prop) (m : list (A * B)) : Forall (fun e => P (snd e)) m <-> Forall P (map snd m).
Proof. rewrite Forall_map. reflexivity. Qed.

(* ------------------------------------------------------------------ reading *)
Lemma hget_closed a w l c : wf w -> in_a a l -> hget w l = Some c -> closed_cell a c.
Proof.
  intros W I H. destruct l as [i|d i]; simpl in *; [contradiction|]. subst d.
  destruct (nth_error (w_docs w) a) as [dv|] eqn:E; [|discriminate].
  destruct (W _ _ E) as [Hc _]. eapply Forall_nth_error; eauto.
Qed.

Lemma cval_kids a w l : wf w -> in_a a l -> Forall (in_a a) (kids (cval w l)).
Proof.
  intros W I. unfold cval. destruct (hget w l) eqn:E; [|constructor].
  eapply hget_closed; eauto.
Qed.

Lemma target_in a w l : wf w -> in_a a l -> in_a a (target w l).
Proof.
  intros W I. unfold target. pose proof (cval_kids a w l W I) as K.
  destruct (cval w l); auto. simpl in K. inversion K; auto.
Qed.

(* ------------------------------------------------------------------ writing *)
Lemma set_dv_same_others a w dv : same_others a w (set_dv w a dv).
Proof. split; [reflexivity|]. intros b Hb. simpl. apply nth_error_set_nth_ne. auto. Qed.

Lemma set_dv_wf a w dv : wf w -> wf_doc a dv -> wf (set_dv w a dv).
Proof.
  intros W Hd d dv' E. simpl in E. destruct (Nat.eq_dec a d) as [->|Hne].
  - destruct (Nat.lt_ge_cases d (length (w_docs w))) as [Hl|Hl].
    + rewrite nth_error_set_nth_eq in E by auto. inversion E; subst; auto.
    + rewrite nth_error_set_nth_out in E by auto. eauto.
  - rewrite nth_error_set_nth_ne in E by auto. eauto.
Qed.

Lemma set_dv_ok a w dv : (wf w -> wf_doc a dv) -> ok a w (set_dv w a dv).
Proof. intros H. split; [apply set_dv_same_others|]. intros W. apply set_dv_wf; auto. Qed.

Lemma hset_ok a w l c : in_a a l -> closed_cell a c -> ok a w (hset w l c).
Proof.
  intros I Hc. destruct l as [i|d i]; simpl in *; [contradiction|]. subst d.
  destruct (nth_error (w_docs w) a) as [dv|] eqn:E; [|apply ok_refl].
  apply set_dv_ok. intros W. destruct (W _ _ E) as (H1 & H2 & H3). repeat split; simpl; auto.
  apply Forall_set_nth; auto.
Qed.

Lemma halloc_ok a w c : closed_cell a c -> ok a w (fst (halloc w a c)) /\ in_a a (snd (halloc w a c)).
Proof.
  intros Hc. unfold halloc. destruct (nth_error (w_docs w) a) as [dv|] eqn:E; simpl; [|split; [apply ok_refl|reflexivity]].
  split; [|reflexivity]. apply set_dv_ok. intros W. destruct (W _ _ E) as (H1 & H2 & H3). repeat split; simpl; auto.
  apply Forall_app; auto.
Qed.

Lemma halloc_ok' a w c w1 l : closed_cell a c -> halloc w a c = (w1, l) -> ok a w w1 /\ in_a a l.
Proof. intros Hc E. pose proof (halloc_ok a w c Hc) as H. rewrite E in H. exact H. Qed.

Lemma closed_nokids a v q og : kids v = [] -> closed_cell a (mkCell v q og).
Proof. intros H. unfold closed_cell. simpl. rewrite H. constructor. Qed.

Lemma set_val_ok a w l v : in_a a l -> Forall (in_a a) (kids v) -> ok a w (set_val w l v).
Proof. intros I K. unfold set_val. destruct (hget w l); [|apply ok_refl]. apply hset_ok; auto. Qed.

Lemma set_cache_ok a w id l : in_a a l -> ok a w (set_cache w a id l).
Proof.
  intros I. unfold set_cache, dv_get. destruct (nth_error (w_docs w) a) as [dv|] eqn:E; [|apply ok_refl].
  apply set_dv_ok. intros W. destruct (W _ _ E) as (H1 & H2 & H3). repeat split; simpl; auto.
  apply Forall_nmap_set; auto.
Qed.

Lemma set_root_ok a w r l : in_a a l -> ok a w (set_root w a r l).
Proof.
  intros I. unfold set_root, dv_get. destruct (nth_error (w_docs w) a) as [dv|] eqn:E; [|apply ok_refl].
  apply set_dv_ok. intros W. destruct (W _ _ E) as (H1 & H2 & H3). repeat split; simpl; auto.
  apply Forall_imap_set; auto.
Qed.

Lemma ok_wf a w w' : ok a w w' -> wf w -> wf w'.
Proof. intros [_ H]; auto. Qed.

(* ------------------------------------------------------------------ navigation (the code as it is: sh = false) *)
Lemma nav1_ok a w l s w1 l1 :
  wf w -> in_a a l -> nav1 false a w l s = Some (w1, l1) -> ok a w w1 /\ in_a a l1.
Proof.
  intros W I H. pose proof (target_in a w l W I) as T.
  pose proof (cval_kids a w (target w l) W T) as K.
  unfold nav1 in H. destruct s as [n|n|k].
  - destruct (negb (Nat.ltb n (arr_size w l))); [discriminate|].
    destruct (cval w (target w l)) eqn:E; try discriminate; simpl in K.
    + destruct (nth_error els n) eqn:En; inversion H; subst. split; [apply ok_refl|]. eapply Forall_nth_error; eauto.
    + destruct (Nat.ltb n size); [|discriminate].
      destruct (imap_get els n) eqn:En.
      * inversion H; subst. split; [apply ok_refl|]. apply imap_get_in in En.
        rewrite Forall_forall in K. apply K. apply in_map_iff. exists (n, l1). auto.
      * inversion H as [H1]. eapply halloc_ok'; eauto. apply closed_nokids. reflexivity.
  - destruct (negb (Nat.ltb n (arr_size w l))); [discriminate|].
    destruct (cval w (target w l)) eqn:E; try discriminate; simpl in K.
    + destruct (nth_error els n) eqn:En; inversion H; subst. split; [apply ok_refl|]. eapply Forall_nth_error; eauto.
    + destruct (Nat.ltb n size); [|discriminate].
      destruct (imap_get els n) eqn:En.
      * inversion H; subst. split; [apply ok_refl|]. apply imap_get_in in En.
        rewrite Forall_forall in K. apply K. apply in_map_iff. exists (n, l1). auto.
      * inversion H as [H1]. unfold hole_null in H1. eapply halloc_ok'; eauto. apply closed_nokids. reflexivity.
  - destruct (cval w (target w l)) eqn:E; try discriminate; simpl in K.
    destruct (nmap_get items k) eqn:En.
    + inversion H; subst. split; [apply ok_refl|]. apply nmap_get_in in En.
      rewrite Forall_forall in K. apply K. apply in_map_iff. exists (k, l1). auto.
    + inversion H as [H1]. eapply halloc_ok'; eauto. apply closed_nokids. reflexivity.
Qed.

Lemma nav_ok a p : forall w l w1 l1,
  wf w -> in_a a l -> nav false a w l p = Some (w1, l1) -> ok a w w1 /\ in_a a l1.
Proof.
  induction p as [|s p IH]; simpl; intros w l w1 l1 W I H.
  - inversion H; subst. split; [apply ok_refl|auto].
  - destruct (nav1 false a w l s) as [[w2 l2]|] eqn:E; [|discriminate].
    destruct (nav1_ok _ _ _ _ _ _ W I E) as [O2 I2].
    destruct (IH _ _ _ _ (ok_wf _ _ _ O2 W) I2 H) as [O3 I3].
    split; [eapply ok_trans; eauto|auto].
Qed.

Lemma eval_head_ok a w h w1 l : wf w -> eval_head a w h = Some (w1, l) -> ok a w w1 /\ in_a a l.
Proof.
  intros W H. unfold eval_head, dv_get in H.
  destruct h; try (inversion H as [H1]; eapply halloc_ok'; eauto; apply closed_nokids; reflexivity).
  - destruct (nth_error (w_docs w) a) as [dv|] eqn:E; [|discriminate].
    destruct (imap_get (dv_roots dv) r) eqn:Er; inversion H; subst.
    split; [apply ok_refl|]. destruct (W _ _ E) as (_ & _ & H3).
    apply imap_get_in in Er. rewrite Forall_forall in H3. apply (H3 _ Er).
  - destruct (nth_error (w_docs w) a) as [dv|] eqn:E; [|discriminate].
    destruct (dv_alive dv && (3 <=? id) && (id <=? cache_max (dv_cache dv))); [|discriminate].
    destruct (nmap_get (dv_cache dv) id) eqn:Er.
    + inversion H; subst. split; [apply ok_refl|]. destruct (W _ _ E) as (_ & H2 & _).
      apply nmap_get_in in Er. rewrite Forall_forall in H2. apply (H2 _ Er).
    + inversion H as [H1]. eapply halloc_ok'; eauto. apply closed_nokids. reflexivity.
Qed.

Lemma eval_hx_ok a w e w1 l : wf w -> eval_hx false a w e = Some (w1, l) -> ok a w w1 /\ in_a a l.
Proof.
  intros W H. unfold eval_hx in H. destruct (dv_get w a); [|discriminate].
  destruct (eval_head a w (fst e)) as [[w2 l2]|] eqn:E; [|discriminate].
  destruct (eval_head_ok _ _ _ _ _ W E) as [O2 I2].
  destruct (nav_ok _ _ _ _ _ _ (ok_wf _ _ _ O2 W) I2 H) as [O3 I3].
  split; [eapply ok_trans; eauto|auto].
Qed.

Lemma eval_vx_ok a w e w1 l : wf w -> eval_vx false a w e = Some (w1, l) -> ok a w w1 /\ in_a a l.
Proof.
  intros W H. unfold eval_vx in H. destruct (eval_hx false a w e) as [[w2 l2]|] eqn:E; [|discriminate].
  destruct (eval_hx_ok _ _ _ _ _ W E) as [O2 I2].
  destruct (fst e); try (inversion H; subst; auto);
    destruct ((is_arr_h w2 l2 || is_dict_h w2 l2) && (cog w2 l2 =? 0)); inversion H; subst; auto.
Qed.

(* ------------------------------------------------------------------ the parser *)
Definition frame_in (a : nat) (f : pframe) : Prop :=
  Forall (in_a a) (f_olist f) /\ Forall (fun e => in_a a (snd e)) (f_dict f).

Lemma frame_add_in a f l f' : frame_in a f -> in_a a l -> frame_add f l = Some f' -> frame_in a f'.
Proof.
  intros [H1 H2] I H. unfold frame_add in H. destruct (f_kind f); inversion H; subst; split; simpl; auto.
  apply Forall_nmap_set; auto.
Qed.

Lemma frame_null_in a f : frame_in a f -> frame_in a (frame_null f).
Proof. intros [H1 H2]. split; simpl; auto. Qed.

Lemma sparse_of_in a w els i : Forall (in_a a) els -> Forall (in_a a) (map snd (sparse_of w els i)).
Proof.
  intros H. revert i. induction H; intros i; simpl; [constructor|].
  destruct (match cval w x with HNull => negb (cog w x =? 0) | _ => true end); simpl; auto.
Qed.

Lemma obj_for_parser_ok a w id w1 l : wf w -> obj_for_parser w a id = (w1, l) -> ok a w w1 /\ in_a a l.
Proof.
  intros W H. unfold obj_for_parser, dv_get in H.
  destruct (nth_error (w_docs w) a) as [dv|] eqn:E; [|inversion H; subst; split; [apply ok_refl|reflexivity]].
  destruct (nmap_get (dv_cache dv) id) eqn:Er.
  - inversion H; subst. split; [apply ok_refl|]. destruct (W _ _ E) as (_ & H2 & _).
    apply nmap_get_in in Er. rewrite Forall_forall in H2. apply (H2 _ Er).
  - destruct (halloc w a (mkCell HNull (Some a) id)) as [w2 l2] eqn:Ea. inversion H; subst.
    destruct (halloc_ok' a w _ _ _ (closed_nokids a HNull _ _ eq_refl) Ea) as [O2 I2].
    split; [|auto]. eapply ok_trans; eauto. apply set_cache_ok. auto.
Qed.

Lemma parse_toks_ok ctx a toks : forall w stack w1 l,
  wf w -> Forall (frame_in a) stack -> parse_toks false ctx a w stack toks = Some (w1, l) -> ok a w w1 /\ in_a a l.
Proof.
  induction toks as [|t rest IH]; intros w stack w1 l W S H; [discriminate|].
  assert (Hscalar : forall v, kids v = [] ->
            match stack with
            | [] => None
            | f :: st => let (w1, l) := halloc w a (mkCell v ctx 0) in
                         match frame_add f l with Some f' => parse_toks false ctx a w1 (f' :: st) rest | None => None end
            end = Some (w1, l) -> ok a w w1 /\ in_a a l).
  { intros v Hv H0. destruct stack as [|f st]; [discriminate|].
    destruct (halloc w a (mkCell v ctx 0)) as [w2 l2] eqn:Ea.
    destruct (halloc_ok' a w _ _ _ (closed_nokids a v _ _ Hv) Ea) as [O2 I2].
    destruct (frame_add f l2) as [f'|] eqn:Ef; [|discriminate].
    inversion S as [|? ? Hf Hst]; subst.
    destruct (IH _ _ _ _ (ok_wf _ _ _ O2 W) (Forall_cons _ (frame_add_in _ _ _ _ Hf I2 Ef) Hst) H0) as [O3 I3].
    split; [eapply ok_trans; eauto|auto]. }
  simpl in H. destruct t.
  - (* ItNull *)
    destruct stack as [|f st]; [discriminate|]. unfold parsed_null in H.
    destruct (halloc w a null_cell) as [w2 l2] eqn:Ea.
    destruct (halloc_ok' a w _ _ _ (closed_nokids a HNull _ _ eq_refl) Ea) as [O2 I2].
    destruct (frame_add f l2) as [f'|] eqn:Ef; [|discriminate].
    inversion S as [|? ? Hf Hst]; subst.
    destruct (IH _ _ _ _ (ok_wf _ _ _ O2 W)
                (Forall_cons _ (frame_null_in _ _ (frame_add_in _ _ _ _ Hf I2 Ef)) Hst) H) as [O3 I3].
    split; [eapply ok_trans; eauto|auto].
  - apply (Hscalar (HBool b)); auto.
  - apply (Hscalar (HInt z)); auto.
  - (* ItName *)
    destruct stack as [|f st]; [discriminate|].
    destruct (f_kind f) eqn:Ek; try (apply (Hscalar (HName k)); auto; fail).
    inversion S as [|? ? Hf Hst]; subst. eapply IH; [exact W| |exact H].
    constructor; auto; destruct Hf; split; auto.
  - (* ItRef *)
    destruct ctx; [|discriminate]. destruct stack as [|f st]; [discriminate|].
    destruct (obj_for_parser w a id) as [w2 l2] eqn:Eo.
    destruct (obj_for_parser_ok _ _ _ _ _ W Eo) as [O2 I2].
    destruct (frame_add f l2) as [f'|] eqn:Ef; [|discriminate].
    inversion S as [|? ? Hf Hst]; subst.
    destruct (IH _ _ _ _ (ok_wf _ _ _ O2 W) (Forall_cons _ (frame_add_in _ _ _ _ Hf I2 Ef) Hst) H) as [O3 I3].
    split; [eapply ok_trans; eauto|auto].
  - (* ItAO *) eapply IH; [exact W| |exact H]. constructor; auto; split; constructor.
  - (* ItAC *)
    destruct stack as [|f st]; [discriminate|]. destruct (f_kind f); try discriminate.
    inversion S as [|? ? [Ho Hd] S']; subst.
    assert (Hels : Forall (in_a a) (rev' (f_olist f))).
    { rewrite rev'_rev. apply Forall_rev. auto. }
    match type of H with context [halloc w a (mkCell ?v ctx 0)] => set (v0 := v) in * end.
    assert (Hv : Forall (in_a a) (kids v0)).
    { unfold v0. destruct (Nat.ltb 100 (f_nulls f)); simpl; auto. apply sparse_of_in. auto. }
    destruct (halloc w a (mkCell v0 ctx 0)) as [w2 l2] eqn:Ea.
    destruct (halloc_ok' a w (mkCell v0 ctx 0) _ _ Hv Ea) as [O2 I2].
    destruct st as [|f2 st2].
    + inversion H; subst. auto.
    + destruct (frame_add f2 l2) as [f'|] eqn:Ef; [|discriminate].
      inversion S' as [|? ? Hf Hst]; subst.
      destruct (IH _ _ _ _ (ok_wf _ _ _ O2 W) (Forall_cons _ (frame_add_in _ _ _ _ Hf I2 Ef) Hst) H) as [O3 I3].
      split; [eapply ok_trans; eauto|auto].
  - (* ItDO *) eapply IH; [exact W| |exact H]. constructor; auto; split; constructor.
  - (* ItDC *)
    destruct stack as [|f st]; [discriminate|]. destruct (f_kind f); try discriminate.
    inversion S as [|? ? [Ho Hd] S']; subst.
    assert (Hv : closed_cell a (mkCell (HDict (f_dict f)) ctx 0)).
    { unfold closed_cell. simpl. apply Forall_map_snd. auto. }
    destruct (halloc w a (mkCell (HDict (f_dict f)) ctx 0)) as [w2 l2] eqn:Ea.
    destruct (halloc_ok' a w _ _ _ Hv Ea) as [O2 I2].
    destruct st as [|f2 st2].
    + inversion H; subst. auto.
    + destruct (frame_add f2 l2) as [f'|] eqn:Ef; [|discriminate].
      inversion S' as [|? ? Hf Hst]; subst.
      destruct (IH _ _ _ _ (ok_wf _ _ _ O2 W) (Forall_cons _ (frame_add_in _ _ _ _ Hf I2 Ef) Hst) H) as [O3 I3].
      split; [eapply ok_trans; eauto|auto].
Qed.

Lemma parse_obj_ok ctx a w toks w1 l : wf w -> parse_obj false ctx a w toks = Some (w1, l) -> ok a w w1 /\ in_a a l.
Proof.
  intros W H. unfold parse_obj in H. destruct toks as [|t r]; [discriminate|].
  destruct t; try discriminate; eapply parse_toks_ok; eauto.
Qed.

(* ------------------------------------------------------------------ ~QPDF *)
Lemma fold_ok {A} a (f : world -> A -> world) (l : list A) (P : A -> Prop) :
  (forall w x, P x -> wf w -> ok a w (f w x)) -> Forall P l -> forall w, wf w -> ok a w (fold_left f l w).
Proof.
  intros Hf Hl. induction Hl; intros w W; simpl; [apply ok_refl|].
  pose proof (Hf w x H W) as O1. eapply ok_trans; [exact O1|]. apply IHHl. eapply ok_wf; eauto.
Qed.

Lemma disconnect_ok a fuel : forall od w l, wf w -> in_a a l -> ok a w (disconnect fuel od w l).
Proof.
  induction fuel as [|f IH]; intros od w l W I; simpl; [apply ok_refl|].
  destruct (hget w l) as [c|] eqn:E; [|apply ok_refl].
  destruct (od && negb (c_og c =? 0)); [apply ok_refl|].
  pose proof (hget_closed a w l c W I E) as K. unfold closed_cell in K.
  match goal with |- ok a w (match hget ?w1 l with _ => _ end) => set (wmid := w1) end.
  assert (O1 : ok a w wmid).
  { unfold wmid. destruct (c_val c) eqn:Ev; try apply ok_refl; simpl in K.
    - apply (fold_ok a (fun wa e => disconnect f true wa e) els (in_a a)); auto.
    - apply (fold_ok a (fun wa e => disconnect f true wa (snd e)) els (fun e => in_a a (snd e))); auto.
      apply Forall_map_snd. auto.
    - apply (fold_ok a (fun wa e => disconnect f true wa (snd e)) items (fun e => in_a a (snd e))); auto.
      apply Forall_map_snd. auto. }
  destruct (hget wmid l) as [c1|] eqn:E1; [|exact O1].
  eapply ok_trans; [exact O1|]. apply hset_ok; auto.
  apply (hget_closed a wmid l c1 (ok_wf _ _ _ O1 W) I E1).
Qed.

Lemma destroy_entry_ok a w l : wf w -> in_a a l -> ok a w (destroy_entry w l).
Proof.
  intros W I. unfold destroy_entry. pose proof (disconnect_ok a disc_fuel false w l W I) as O1.
  destruct (cval (disconnect disc_fuel false w l) l); try exact O1;
    (eapply ok_trans; [exact O1|]; apply set_val_ok; auto; constructor).
Qed.

(* ------------------------------------------------------------------ every operation *)
Lemma nth_error_app_other {A} (l : list A) x b : b <> length l -> nth_error (l ++ [x]) b = nth_error l b.
Proof.
  intros Hb. destruct (Nat.lt_ge_cases b (length l)).
  - apply nth_error_app1. auto.
  - rewrite (proj2 (nth_error_None l b)) by lia. apply nth_error_None. rewrite app_length. simpl. lia.
Qed.

Lemma new_docv_wf d : wf_doc d (new_docv d).
Proof.
  repeat split; simpl.
  - repeat constructor.
  - repeat constructor.
  - constructor.
Qed.

Lemma step_ok a w op : wf w -> ok a w (fst (step false a w op)).
Proof.
  intros W. destruct op; simpl.
  - (* OpNewDoc *)
    destruct (Nat.eqb a (length (w_docs w))) eqn:E; simpl; [|apply ok_refl].
    apply Nat.eqb_eq in E. split.
    + split; [reflexivity|]. intros b Hb. simpl. apply nth_error_app_other. congruence.
    + intros _ d dv Hd. simpl in Hd. destruct (Nat.eq_dec d (length (w_docs w))) as [->|Hne].
      * rewrite nth_error_app2 in Hd by lia. rewrite Nat.sub_diag in Hd. simpl in Hd.
        inversion Hd; subst. apply new_docv_wf.
      * rewrite nth_error_app_other in Hd by auto. eauto.
  - (* OpParse *)
    destruct (alive w a && root_ok a r); simpl; [|apply ok_refl].
    destruct (parse_obj false (Some a) a w toks) as [[w1 l]|] eqn:E; simpl; [|apply ok_refl].
    destruct (parse_obj_ok _ _ _ _ _ _ W E) as [O1 I1].
    eapply ok_trans; [exact O1|]. apply set_root_ok. auto.
  - (* OpHold *)
    destruct (root_ok a r); simpl; [|apply ok_refl].
    destruct (eval_hx false a w h) as [[w1 l]|] eqn:E; simpl; [|apply ok_refl].
    destruct (eval_hx_ok _ _ _ _ _ W E) as [O1 I1].
    eapply ok_trans; [exact O1|]. apply set_root_ok. auto.
  - (* OpMakeInd *)
    destruct (alive w a); simpl; [|apply ok_refl].
    destruct (eval_hx false a w h) as [[w1 l]|] eqn:E; simpl; [|apply ok_refl].
    destruct (eval_hx_ok _ _ _ _ _ W E) as [O1 I1].
    eapply ok_trans; [exact O1|].
    pose proof (set_cache_ok a w1 (objcount w1 a + 1) l I1) as O2.
    eapply ok_trans; [exact O2|].
    destruct (hget (set_cache w1 a (objcount w1 a + 1) l) l) as [c|] eqn:Ec; [|apply ok_refl].
    apply hset_ok; auto.
    apply (hget_closed a _ l c (ok_wf _ _ _ O2 (ok_wf _ _ _ O1 W)) I1 Ec).
  - (* OpReplaceKey *)
    destruct (eval_hx false a w h) as [[w1 lh]|] eqn:E; simpl; [|apply ok_refl].
    destruct (eval_hx_ok _ _ _ _ _ W E) as [O1 I1].
    destruct (is_dict_h w1 lh); simpl; [|apply ok_refl].
    destruct (eval_vx false a w1 v) as [[w2 lv]|] eqn:Ev; simpl; [|apply ok_refl].
    destruct (eval_vx_ok _ _ _ _ _ (ok_wf _ _ _ O1 W) Ev) as [O2 I2].
    assert (O12 : ok a w w2) by (eapply ok_trans; eauto).
    pose proof (ok_wf _ _ _ O12 W) as W2.
    destruct (own_clash w2 lh lv); simpl; [exact O12|].
    pose proof (target_in a w2 lh W2 I1) as T.
    pose proof (cval_kids a w2 _ W2 T) as K.
    destruct (cval w2 (target w2 lh)) eqn:Ec; simpl; try exact O12. simpl in K.
    destruct (is_null_h w2 lv && (cog w2 lv =? 0)); simpl;
      (eapply ok_trans; [exact O12|]; apply set_val_ok; auto; simpl; apply Forall_map_snd).
    + apply Forall_nmap_del. apply Forall_map_snd. auto.
    + apply Forall_nmap_set; auto. apply Forall_map_snd. auto.
  - (* OpRemoveKey *)
    destruct (eval_hx false a w h) as [[w1 lh]|] eqn:E; simpl; [|apply ok_refl].
    destruct (eval_hx_ok _ _ _ _ _ W E) as [O1 I1].
    pose proof (ok_wf _ _ _ O1 W) as W1.
    destruct (is_dict_h w1 lh); simpl; [|apply ok_refl].
    pose proof (target_in a w1 lh W1 I1) as T.
    pose proof (cval_kids a w1 _ W1 T) as K.
    destruct (cval w1 (target w1 lh)) eqn:Ec; simpl; try exact O1. simpl in K.
    eapply ok_trans; [exact O1|]. apply set_val_ok; auto. simpl. apply Forall_map_snd.
    apply Forall_nmap_del. apply Forall_map_snd. auto.
  - (* OpAppend *)
    destruct (eval_hx false a w h) as [[w1 lh]|] eqn:E; simpl; [|apply ok_refl].
    destruct (eval_hx_ok _ _ _ _ _ W E) as [O1 I1].
    destruct (is_arr_h w1 lh); simpl; [|apply ok_refl].
    destruct (eval_vx false a w1 v) as [[w2 lv]|] eqn:Ev; simpl; [|apply ok_refl].
    destruct (eval_vx_ok _ _ _ _ _ (ok_wf _ _ _ O1 W) Ev) as [O2 I2].
    assert (O12 : ok a w w2) by (eapply ok_trans; eauto).
    pose proof (ok_wf _ _ _ O12 W) as W2.
    destruct (own_clash w2 lh lv); simpl; [exact O12|].
    pose proof (target_in a w2 lh W2 I1) as T.
    pose proof (cval_kids a w2 _ W2 T) as K.
    destruct (cval w2 (target w2 lh)) eqn:Ec; simpl; try exact O12; simpl in K;
      (eapply ok_trans; [exact O12|]; apply set_val_ok; auto; simpl).
    + apply Forall_app; auto.
    + apply Forall_map_snd. apply Forall_imap_set; auto. apply Forall_map_snd. auto.
  - (* OpSetItem *)
    destruct (eval_hx false a w h) as [[w1 lh]|] eqn:E; simpl; [|apply ok_refl].
    destruct (eval_hx_ok _ _ _ _ _ W E) as [O1 I1].
    destruct (is_arr_h w1 lh && Nat.ltb n (arr_size w1 lh)); simpl; [|apply ok_refl].
    destruct (eval_vx false a w1 v) as [[w2 lv]|] eqn:Ev; simpl; [|apply ok_refl].
    destruct (eval_vx_ok _ _ _ _ _ (ok_wf _ _ _ O1 W) Ev) as [O2 I2].
    assert (O12 : ok a w w2) by (eapply ok_trans; eauto).
    pose proof (ok_wf _ _ _ O12 W) as W2.
    destruct (own_clash w2 lh lv); simpl; [exact O12|].
    pose proof (target_in a w2 lh W2 I1) as T.
    pose proof (cval_kids a w2 _ W2 T) as K.
    destruct (cval w2 (target w2 lh)) eqn:Ec; simpl; try exact O12; simpl in K;
      (eapply ok_trans; [exact O12|]; apply set_val_ok; auto; simpl).
    + apply Forall_set_nth; auto.
    + apply Forall_map_snd. apply Forall_imap_set; auto. apply Forall_map_snd. auto.
  - (* OpErase *)
    destruct (eval_hx false a w h) as [[w1 lh]|] eqn:E; simpl; [|apply ok_refl].
    destruct (eval_hx_ok _ _ _ _ _ W E) as [O1 I1].
    pose proof (ok_wf _ _ _ O1 W) as W1.
    destruct (is_arr_h w1 lh && Nat.ltb n (arr_size w1 lh)); simpl; [|apply ok_refl].
    pose proof (target_in a w1 lh W1 I1) as T.
    pose proof (cval_kids a w1 _ W1 T) as K.
    destruct (cval w1 (target w1 lh)) eqn:Ec; simpl; try exact O1; simpl in K;
      (eapply ok_trans; [exact O1|]; apply set_val_ok; auto; simpl).
    + apply Forall_remove_nth. auto.
    + apply Forall_map_snd. apply Forall_imap_erase_shift; auto. apply Forall_map_snd. auto.
  - (* OpReplaceObj *)
    destruct (alive w a && (3 <=? id) && (id <=? objcount w a)); simpl; [|apply ok_refl].
    destruct (eval_hx false a w v) as [[w1 lv]|] eqn:E; simpl; [|apply ok_refl].
    destruct (eval_hx_ok _ _ _ _ _ W E) as [O1 I1].
    pose proof (ok_wf _ _ _ O1 W) as W1.
    destruct (negb (cog w1 lv =? 0)); simpl; [apply ok_refl|].
    match goal with |- ok a w (fst (match dv_get ?w2 a with _ => _ end)) => set (wmid := w2) end.
    assert (O2 : ok a w wmid).
    { unfold wmid. destruct (hget w1 lv) as [c|] eqn:Ec; [|exact O1].
      eapply ok_trans; [exact O1|]. apply hset_ok; auto. apply (hget_closed a w1 lv c W1 I1 Ec). }
    pose proof (ok_wf _ _ _ O2 W) as W2.
    unfold dv_get. destruct (nth_error (w_docs wmid) a) as [dv|] eqn:Ed; simpl; [|exact O2].
    destruct (nmap_get (dv_cache dv) id) as [lc|] eqn:Eg; simpl.
    + assert (Ic : in_a a lc).
      { destruct (W2 _ _ Ed) as (_ & H2 & _). apply nmap_get_in in Eg. rewrite Forall_forall in H2. apply (H2 _ Eg). }
      eapply ok_trans; [exact O2|].
      eapply ok_trans; [apply (hset_ok a wmid lc (mkCell (cval wmid lv) (Some a) id) Ic)|].
      * unfold closed_cell. simpl. apply cval_kids; auto.
      * apply set_val_ok; auto. simpl. constructor; auto.
    + eapply ok_trans; [exact O2|]. apply set_cache_ok. auto.
  - (* OpDestroy *)
    unfold dv_get. destruct (nth_error (w_docs w) a) as [dv|] eqn:Ed; simpl; [|apply ok_refl].
    destruct (dv_alive dv); simpl; [|apply ok_refl].
    match goal with |- ok a w (fst (match nth_error (w_docs ?w1) a with _ => _ end)) => set (wmid := w1) end.
    assert (O1 : ok a w wmid).
    { unfold wmid. apply (fold_ok a (fun wa e => destroy_entry wa (snd e)) (dv_cache dv) (fun e => in_a a (snd e))); auto.
      - intros. apply destroy_entry_ok; auto.
      - destruct (W _ _ Ed) as (_ & H2 & _). exact H2. }
    destruct (nth_error (w_docs wmid) a) as [dv1|] eqn:Ed1; simpl; [|exact O1].
    eapply ok_trans; [exact O1|]. apply set_dv_ok. intros W1.
    destruct (W1 _ _ Ed1) as (H1 & H2 & H3). repeat split; simpl; auto.
  - (* OpObserve *)
    destruct (alive w a); simpl; apply ok_refl.
  - (* OpJson *)
    unfold dv_get. destruct (nth_error (w_docs w) a) as [dv|] eqn:Ed; simpl; [|apply ok_refl].
    destruct (dv_alive dv); simpl; [|apply ok_refl].
    apply (fold_ok a _ (dv_cache dv) (fun e => in_a a (snd e))).
    + intros w0 x Hx W0. destruct (hget w0 (snd x)) as [c|] eqn:Ec; [|apply ok_refl].
      apply hset_ok; auto. apply (hget_closed a w0 _ c W0 Hx Ec).
    + destruct (W _ _ Ed) as (_ & H2 & _). exact H2.
    + exact W.
Qed.

(* ================================================================== observation depends on the document's own view only *)
Definition view_eq (b : nat) (w w' : world) : Prop := nth_error (w_docs w') b = nth_error (w_docs w) b.

Lemma view_hget b w w' l : view_eq b w w' -> in_a b l -> hget w' l = hget w l.
Proof. intros V I. destruct l as [i|d i]; simpl in *; [contradiction|]. subst d. unfold view_eq in V. rewrite V. reflexivity. Qed.

Lemma view_cval b w w' l : view_eq b w w' -> in_a b l -> cval w' l = cval w l.
Proof. intros V I. unfold cval. rewrite (view_hget b w w' l V I). reflexivity. Qed.

Lemma view_cog b w w' l : view_eq b w w' -> in_a b l -> cog w' l = cog w l.
Proof. intros V I. unfold cog. rewrite (view_hget b w w' l V I). reflexivity. Qed.

Lemma view_is_null b w w' l : view_eq b w w' -> wf w -> in_a b l -> is_null_h w' l = is_null_h w l.
Proof.
  intros V W I. unfold is_null_h, target. rewrite (view_cval b w w' l V I).
  pose proof (target_in b w l W I) as T. unfold target in T.
  destruct (cval w l) eqn:E; rewrite ?(view_cval b w w' _ V I), ?E; auto.
  rewrite (view_cval b w w' _ V T). reflexivity.
Qed.

Lemma map_ext_Forall {A B} (P : A -> Prop) (f g : A -> B) l : Forall P l -> (forall x, P x -> f x = g x) -> map f l = map g l.
Proof. intros H E. induction H; simpl; auto. rewrite E, IHForall; auto. Qed.

Lemma sparse_parts_ext (p q : iloc -> option (list N)) (P : iloc -> Prop) els :
  Forall (fun e => P (snd e)) els -> (forall x, P x -> p x = q x) ->
  forall next size, sparse_parts p els next size = sparse_parts q els next size.
Proof.
  intros H E. induction H as [|[k e] t Hh Ht IH]; intros; simpl; auto. rewrite (E e Hh), IH. reflexivity.
Qed.

Lemma unparse_res_view b w w' : view_eq b w w' -> wf w -> forall fuel l, in_a b l -> unparse_res fuel w' l = unparse_res fuel w l.
Proof.
  intros V W. induction fuel as [|f IH]; intros l I; simpl; [reflexivity|].
  rewrite (view_cval b w w' l V I), (view_cog b w w' l V I).
  pose proof (cval_kids b w l W I) as K.
  assert (Hitem : forall e, in_a b e ->
            (if cog w' e =? 0 then unparse_res f w' e else Some (s_ref (cog w' e))) =
            (if cog w e =? 0 then unparse_res f w e else Some (s_ref (cog w e)))).
  { intros e Ie. rewrite (view_cog b w w' e V Ie), (IH e Ie). reflexivity. }
  destruct (cval w l) eqn:E; auto; simpl in K.
  - erewrite (map_ext_Forall (in_a b)); [reflexivity|exact K|]. intros x Hx. simpl. rewrite (Hitem x Hx). reflexivity.
  - erewrite (sparse_parts_ext _ _ (in_a b)); [reflexivity| |exact Hitem]. apply Forall_map_snd. exact K.
  - erewrite (map_ext_Forall (fun kv => in_a b (snd kv))); [reflexivity| |].
    + apply Forall_map_snd. exact K.
    + intros [k x] Hx. simpl in *. rewrite (view_is_null b w w' x V W Hx), (Hitem x Hx). reflexivity.
Qed.

Lemma obs_doc_view b w w' : view_eq b w w' -> wf w -> obs_doc w' b = obs_doc w b.
Proof.
  intros V0 W. assert (V := V0). unfold obs_doc, obs_objects, obs_roots, dv_get. unfold view_eq in V. rewrite V. clear V. rename V0 into V.
  destruct (nth_error (w_docs w) b) as [dv|] eqn:E; [|reflexivity].
  destruct (W _ _ E) as (_ & H2 & H3). f_equal.
  - destruct (dv_alive dv); [|reflexivity]. apply map_ext. intros id.
    destruct (nmap_get (dv_cache dv) id) eqn:Eg; [|reflexivity].
    apply nmap_get_in in Eg. rewrite Forall_forall in H2. pose proof (H2 _ Eg) as I. simpl in I.
    rewrite (unparse_res_view b w w' V W _ _ I). reflexivity.
  - apply (map_ext_Forall (fun e => in_a b (snd e))); [exact H3|].
    intros [r l] I. simpl in I. cbn [fst snd]. unfold unparse_h.
    rewrite (view_cog b w w' l V I), (unparse_res_view b w w' V W _ _ I). reflexivity.
Qed.

(* ================================================================== fresh parses (context-free, scratch arena 0) *)
(* a context-free parse under the repaired discipline depends on the scratch arena only *)
Lemma halloc_view a w w' c : view_eq a w w' ->
  view_eq a (fst (halloc w a c)) (fst (halloc w' a c)) /\ snd (halloc w' a c) = snd (halloc w a c).
Proof.
  intros V. unfold view_eq in *. unfold halloc. rewrite V.
  destruct (nth_error (w_docs w) a) as [dv|] eqn:E; simpl; [|split; [congruence|reflexivity]].
  assert (La : (a < length (w_docs w))%nat) by (apply nth_error_Some; congruence).
  assert (La' : (a < length (w_docs w'))%nat) by (apply nth_error_Some; congruence).
  rewrite !nth_error_set_nth_eq by auto. auto.
Qed.

Lemma sparse_of_view a w w' els i : view_eq a w w' -> Forall (in_a a) els -> sparse_of w' els i = sparse_of w els i.
Proof.
  intros V H. revert i. induction H; intros i; simpl; [reflexivity|].
  rewrite (view_cval a w w' x V H), (view_cog a w w' x V H), !IHForall. reflexivity.
Qed.

Lemma parse_toks_view a toks : forall w w' stack,
  view_eq a w w' -> wf w -> Forall (frame_in a) stack ->
  match parse_toks false None a w stack toks, parse_toks false None a w' stack toks with
  | Some (w1, l1), Some (w1', l1') => l1' = l1 /\ view_eq a w1 w1'
  | None, None => True
  | _, _ => False
  end.
Proof.
  induction toks as [|t rest IH]; intros w w' stack V W S; simpl; [exact I|].
  assert (Hscalar : forall v, kids v = [] ->
     match
       match stack with
       | [] => None
       | f :: st => let (w1, l) := halloc w a (mkCell v None 0) in
                    match frame_add f l with Some f' => parse_toks false None a w1 (f' :: st) rest | None => None end
       end,
       match stack with
       | [] => None
       | f :: st => let (w1, l) := halloc w' a (mkCell v None 0) in
                    match frame_add f l with Some f' => parse_toks false None a w1 (f' :: st) rest | None => None end
       end
     with
     | Some (w1, l1), Some (w1', l1') => l1' = l1 /\ view_eq a w1 w1'
     | None, None => True
     | _, _ => False
     end).
  { intros v Hv. destruct stack as [|f st]; [exact I|].
    destruct (halloc_view a w w' (mkCell v None 0) V) as [V2 El].
    destruct (halloc w a (mkCell v None 0)) as [w2 l2] eqn:Ea.
    destruct (halloc w' a (mkCell v None 0)) as [w2' l2'] eqn:Ea'. simpl in V2, El. subst l2'.
    destruct (halloc_ok' a w _ _ _ (closed_nokids a v _ _ Hv) Ea) as [O2 I2].
    destruct (frame_add f l2) as [f'|] eqn:Ef; [|exact I].
    inversion S as [|? ? Hf Hst]; subst. apply IH; [exact V2|eapply ok_wf; eauto|constructor; auto; eapply frame_add_in; eauto]. }
  destruct t.
  - destruct stack as [|f st]; [exact I|]. unfold parsed_null.
    destruct (halloc_view a w w' null_cell V) as [V2 El].
    destruct (halloc w a null_cell) as [w2 l2] eqn:Ea.
    destruct (halloc w' a null_cell) as [w2' l2'] eqn:Ea'. simpl in V2, El. subst l2'.
    destruct (halloc_ok' a w _ _ _ (closed_nokids a HNull _ _ eq_refl) Ea) as [O2 I2].
    destruct (frame_add f l2) as [f'|] eqn:Ef; [|exact I].
    inversion S as [|? ? Hf Hst]; subst. apply IH; [exact V2|eapply ok_wf; eauto|constructor; auto; apply frame_null_in; eapply frame_add_in; eauto].
  - apply (Hscalar (HBool b)); auto.
  - apply (Hscalar (HInt z)); auto.
  - destruct stack as [|f st]; [exact I|].
    destruct (f_kind f) eqn:Ek; try (apply (Hscalar (HName k)); auto; fail).
    inversion S as [|? ? Hf Hst]; subst. apply IH; [exact V|exact W|constructor; auto; destruct Hf; split; auto].
  - exact I.
  - apply IH; [exact V|exact W|constructor; auto; split; constructor].
  - destruct stack as [|f st]; [exact I|]. destruct (f_kind f); try exact I.
    inversion S as [|? ? [Ho Hd] S']; subst.
    assert (Hels : Forall (in_a a) (rev' (f_olist f))).
    { rewrite rev'_rev. apply Forall_rev. auto. }
    rewrite (sparse_of_view a w w' _ _ V Hels).
    match goal with |- context [halloc w a (mkCell ?v None 0)] => set (v0 := v) in * end.
    assert (Hv : Forall (in_a a) (kids v0)).
    { unfold v0. destruct (Nat.ltb 100 (f_nulls f)); simpl; auto. apply sparse_of_in. auto. }
    destruct (halloc_view a w w' (mkCell v0 None 0) V) as [V2 El].
    destruct (halloc w a (mkCell v0 None 0)) as [w2 l2] eqn:Ea.
    destruct (halloc w' a (mkCell v0 None 0)) as [w2' l2'] eqn:Ea'. simpl in V2, El. subst l2'.
    destruct (halloc_ok' a w (mkCell v0 None 0) _ _ Hv Ea) as [O2 I2].
    destruct st as [|f2 st2]; [auto|].
    destruct (frame_add f2 l2) as [f'|] eqn:Ef; [|exact I].
    inversion S' as [|? ? Hf Hst]; subst. apply IH; [exact V2|eapply ok_wf; eauto|constructor; auto; eapply frame_add_in; eauto].
  - apply IH; [exact V|exact W|constructor; auto; split; constructor].
  - destruct stack as [|f st]; [exact I|]. destruct (f_kind f); try exact I.
    inversion S as [|? ? [Ho Hd] S']; subst.
    assert (Hv : closed_cell a (mkCell (HDict (f_dict f)) None 0)).
    { unfold closed_cell. simpl. apply Forall_map_snd. auto. }
    destruct (halloc_view a w w' (mkCell (HDict (f_dict f)) None 0) V) as [V2 El].
    destruct (halloc w a (mkCell (HDict (f_dict f)) None 0)) as [w2 l2] eqn:Ea.
    destruct (halloc w' a (mkCell (HDict (f_dict f)) None 0)) as [w2' l2'] eqn:Ea'. simpl in V2, El. subst l2'.
    destruct (halloc_ok' a w _ _ _ Hv Ea) as [O2 I2].
    destruct st as [|f2 st2]; [auto|].
    destruct (frame_add f2 l2) as [f'|] eqn:Ef; [|exact I].
    inversion S' as [|? ? Hf Hst]; subst. apply IH; [exact V2|eapply ok_wf; eauto|constructor; auto; eapply frame_add_in; eauto].
Qed.

Lemma parse_fresh_view w w' toks : view_eq O w w' -> wf w -> parse_fresh false w' toks = parse_fresh false w toks.
Proof.
  intros V W. unfold parse_fresh, probe_world, parse_obj.
  destruct toks as [|t r]; [reflexivity|].
  destruct t; try reflexivity.
  - pose proof (parse_toks_view O (ItAO :: r) w w' [] V W (Forall_nil _)) as H.
    destruct (parse_toks false None 0 w [] (ItAO :: r)) as [[w1 l1]|] eqn:E1;
      destruct (parse_toks false None 0 w' [] (ItAO :: r)) as [[w1' l1']|] eqn:E2; try contradiction; auto.
    destruct H as [-> V1].
    destruct (parse_toks_ok None O (ItAO :: r) w [] w1 l1 W (Forall_nil _) E1) as [O1 I1].
    unfold unparse_h. rewrite (view_cog O w1 w1' l1 V1 I1), (unparse_res_view O w1 w1' V1 (ok_wf _ _ _ O1 W) _ _ I1). reflexivity.
  - pose proof (parse_toks_view O (ItDO :: r) w w' [] V W (Forall_nil _)) as H.
    destruct (parse_toks false None 0 w [] (ItDO :: r)) as [[w1 l1]|] eqn:E1;
      destruct (parse_toks false None 0 w' [] (ItDO :: r)) as [[w1' l1']|] eqn:E2; try contradiction; auto.
    destruct H as [-> V1].
    destruct (parse_toks_ok None O (ItDO :: r) w [] w1 l1 W (Forall_nil _) E1) as [O1 I1].
    unfold unparse_h. rewrite (view_cog O w1 w1' l1 V1 I1), (unparse_res_view O w1 w1' V1 (ok_wf _ _ _ O1 W) _ _ I1). reflexivity.
Qed.

(* ================================================================== the theorems *)

(* DESIGN section 5, frame_other_docs (the model of the code as it is, [step false]): an operation of document a
   leaves what a caller sees of every other document unchanged, and the result of every later context-free parse
   too (documents are numbered from 1; arena 0 is the scratch arena of context-free parses). *)
Lemma frame_other_docs_lemma : forall (w : world) (a b : nat) (op : iop),
  wf w -> a <> b -> a <> O ->
  obs_doc (fst (step false a w op)) b = obs_doc w b /\
  forall toks, parse_fresh false (fst (step false a w op)) toks = parse_fresh false w toks.
Proof.
  intros w a b op W Hab Ha. destruct (step_ok a w op W) as [[Hs Ho] Hw]. split.
  - apply obs_doc_view; auto. unfold view_eq. apply Ho. auto.
  - intros toks. apply parse_fresh_view; auto. unfold view_eq. apply Ho. auto.
Qed.

(* HISTORICAL (finding D6, tree before fix b456e5d1): under the discipline with the process-wide shared null
   ([sh = true]) the frame statement is false - computed witness.  Kept because it is what the repair removed and
   what the check recognises if the repair is reverted. *)
Lemma shared_null_discipline_breaks_frame_lemma :
  exists (w : world) (a b : nat) (op : iop),
    a <> b /\ a <> O /\ w = d6_world true /\
    obs_doc (fst (step true a w op)) b <> obs_doc w b /\
    parse_fresh true (fst (step true a w op)) probe1_toks <> parse_fresh true w probe1_toks.
Proof.
  exists (d6_world true), 1%nat, 2%nat, d6_op.
  split; [discriminate|]. split; [discriminate|]. split; [reflexivity|].
  split; vm_compute; discriminate.
Qed.

(* the same history on the model of the code as it is: nothing changes for document 2, and document 2 is not empty
   (non-vacuity of frame_other_docs) *)
Lemma frame_d6_history_lemma :
  obs_doc (fst (step false 1 (d6_world false) d6_op)) 2 = obs_doc (d6_world false) 2 /\
  obs_doc (d6_world false) 2 <> ([], []).
Proof. split; vm_compute; [reflexivity|discriminate]. Qed.

(* DESIGN: reachable_disjoint_preserved *)
Lemma reachable_disjoint_preserved_lemma : forall (w : world) (a : nat) (op : iop),
  wf w -> wf (fst (step false a w op)).
Proof. intros w a op W. exact (ok_wf _ _ _ (step_ok a w op W) W). Qed.

Lemma wf_world0 : wf world0.
Proof.
  intros d dv H. destruct d as [|d]; simpl in H.
  - inversion H; subst. repeat split; constructor.
  - destruct d; discriminate.
Qed.

Lemma run_hist_snd sh w h : snd (run_hist sh w h) = fold_left (fun wa aop => fst (step sh (fst aop) wa (snd aop))) h w.
Proof.
  unfold run_hist.
  assert (G : forall acc, snd (fold_left (fun acc aop => let (w1, r) := step sh (fst aop) (snd acc) (snd aop) in
                                                        (fst acc ++ [(r, dump_world sh w1)], w1)) h acc)
                     = fold_left (fun wa aop => fst (step sh (fst aop) wa (snd aop))) h (snd acc)).
  { induction h as [|x h IH]; intros acc; simpl; [reflexivity|]. rewrite IH.
    destruct (step sh (fst x) (snd acc) (snd x)); reflexivity. }
  apply (G ([], w)).
Qed.

(* every world reached by a history from the initial world has disjoint documents *)
Lemma histories_disjoint_lemma : forall h : list (nat * iop), wf (snd (run_hist false world0 h)).
Proof.
  intros h. rewrite run_hist_snd. generalize wf_world0. generalize world0.
  induction h as [|x h IH]; intros w W; simpl; [exact W|]. apply IH. apply reachable_disjoint_preserved_lemma. exact W.
Qed.

(* ================================================================== process-wide state: the generated inventory is audited *)

(* every writable static of the libqpdf.a built from /repo has an entry in the audit table *)
Lemma globals_all_audited_lemma : forallb audited inventory = true.
Proof. vm_compute. reflexivity. Qed.

(* ... none of them is a shared-and-mutable object any more, and the statics of finding D6 are gone *)
Lemma globals_none_shared_mutable_lemma :
  filter is_shared_mutable inventory = [] /\
  forallb (fun g => negb (existsb (String.eqb g) inventory)) d6_statics = true.
Proof. vm_compute. split; reflexivity. Qed.

(* the explicitly modelled process-wide cells are in the inventory of the built library *)
Lemma globals_modelled_cells_present_lemma : forallb (fun g => existsb (String.eqb g) inventory && audited g) modelled_cells = true.
Proof. vm_compute. reflexivity. Qed.

(* ================================================================== the default logger (Sys/LogModel.v) *)
From QV Require Import Sys.LogModel.

Lemma lg_get_del_ne m a b : a <> b -> lg_get (lg_del m a) b = lg_get m b.
Proof.
  intros H. induction m as [|[d s] m IH]; simpl; auto.
  destruct (Nat.eqb d a) eqn:E; simpl.
  - apply Nat.eqb_eq in E. subst. rewrite IH. destruct (Nat.eqb a b) eqn:E2; auto. apply Nat.eqb_eq in E2. contradiction.
  - rewrite IH. reflexivity.
Qed.

Lemma lg_get_set_ne m a b s : a <> b -> lg_get (lg_set m a s) b = lg_get m b.
Proof.
  intros H. unfold lg_set. simpl. destruct (Nat.eqb a b) eqn:E.
  - apply Nat.eqb_eq in E. contradiction.
  - apply lg_get_del_ne. auto.
Qed.

Local Arguments lg_set : simpl never.
Local Arguments lg_del : simpl never.

(* no operation of document a - creation, redirection of its output (setOutputStreams / setLogger), emission,
   destruction - changes where another document's output goes, and none writes the process-wide default logger *)
Lemma logger_frame_lemma : forall (w : lworld) (a b : nat) (op : lop),
  a <> b ->
  sink_of (fst (lstep false a w op)) b = sink_of w b /\ lg_default (fst (lstep false a w op)) = lg_default w.
Proof.
  intros w a b op H. unfold sink_of, lstep. destruct op.
  - cbn [fst lg_docs lg_default]. rewrite lg_get_set_ne by auto. auto.
  - destruct (lg_get (lg_docs w) a); cbn [fst lg_docs lg_default]; auto. rewrite lg_get_set_ne by auto. auto.
  - cbn [fst]. auto.
  - cbn [fst lg_docs lg_default]. rewrite lg_get_del_ne by auto. auto.
Qed.

(* what the rule excludes: if redirection reconfigured the logger the document already uses (the shared default
   one), document 1's output would follow document 2's redirection - and stay there after document 2 is gone *)
Lemma logger_redirect_through_default_breaks_frame_lemma :
  log_run true [(1%nat, LCreate); (2%nat, LCreate); (1%nat, LEmit); (2%nat, LRedirect 2); (1%nat, LEmit); (2%nat, LDestroy); (1%nat, LEmit)]
    = [None; None; Some 0%nat; None; Some 2%nat; None; Some 2%nat] /\
  log_run false [(1%nat, LCreate); (2%nat, LCreate); (1%nat, LEmit); (2%nat, LRedirect 2); (1%nat, LEmit); (2%nat, LDestroy); (1%nat, LEmit)]
    = [None; None; Some 0%nat; None; Some 0%nat; None; Some 0%nat].
Proof. split; reflexivity. Qed.
