(* C15 extension, layer 1 of lzw_decode_encode: on CODES, the model of Pl_LZWDecoder::handleCode inverts the
   reference encoder of ISO 32000-1 7.4.4 (LzwSpec.ref_lzw_codes), for every byte string - including inputs that
   fill the table and make the encoder emit a clear-table code - and every code is written with the width the
   decoder reads it with (both EarlyChange values).  Classical invariant: the encoder's table is the decoder's
   table plus one pending entry (previous code, first byte of the current match); the KwKwK case is the one
   where the emitted code IS that pending entry. *)
From QV Require Import Base.Bytes Filters.Filters Filters.FilterSpec Filters.LzwSpec Filters.LzwCodes.
From Coq Require Import Lia.
From QV Require Import Filters.C15ProofsB.
Local Open Scope N_scope.

(* ---------- codes and strings ---------- *)
Definition lzi_valid (k w : N) : Prop := w < 256 \/ (258 <= w < 258 + k).

(* the encoder's association list against the list of strings S (entry i = string of code 258 + i) *)
Inductive lzi_tab_rel : lz_tab -> list (list N) -> Prop :=
| lzi_tr_nil : lzi_tab_rel [] []
| lzi_tr_cons : forall tab S w c,
    lzi_tab_rel tab S -> lzi_valid (lenNb S) w ->
    lzi_tab_rel ((w, c, 258 + lenNb S) :: tab) (S ++ [lzi_str S w ++ [c]]).

Lemma lzi_valid_mono : forall k k' w, k <= k' -> lzi_valid k w -> lzi_valid k' w.
Proof. unfold lzi_valid. intros. lia. Qed.

Lemma lzi_str_snoc_old : forall S x w, lzi_valid (lenNb S) w -> lzi_str (S ++ [x]) w = lzi_str S w.
Proof.
  intros S x w Hv. unfold lzi_str. destruct (N.ltb_spec w 256) as [E|E]; [reflexivity|].
  unfold lzi_valid, lenNb in Hv. rewrite app_nth1 by lia. reflexivity.
Qed.

Lemma lzi_str_snoc_new : forall S x, lzi_str (S ++ [x]) (258 + lenNb S) = x.
Proof.
  intros S x. unfold lzi_str, lenNb. destruct (N.ltb_spec (258 + N.of_nat (length S)) 256) as [E|E]; [lia|].
  replace (N.to_nat (258 + N.of_nat (length S) - 258)) with (length S) by lia.
  rewrite app_nth2 by lia. rewrite Nat.sub_diag. reflexivity.
Qed.

Lemma lzi_tab_nonempty : forall tab S, lzi_tab_rel tab S -> Forall (fun e => e <> []) S.
Proof.
  induction 1 as [|tab S w c Hrel IH Hv]; [constructor|].
  apply Forall_app. split; [exact IH|]. constructor; [|constructor].
  destruct (lzi_str S w); discriminate.
Qed.

Lemma lzi_str_nonempty : forall tab S w, lzi_tab_rel tab S -> lzi_valid (lenNb S) w -> lzi_str S w <> [].
Proof.
  intros tab S w Hrel Hv. unfold lzi_str. destruct (N.ltb_spec w 256) as [E|E]; [discriminate|].
  pose proof (lzi_tab_nonempty _ _ Hrel) as Hall. rewrite Forall_forall in Hall.
  apply Hall. apply nth_In. unfold lzi_valid, lenNb in Hv. lia.
Qed.

(* what a successful table lookup of the encoder means *)
Lemma lzi_tab_find_sound : forall tab S, lzi_tab_rel tab S -> forall w c code,
  tab_find tab w c = Some code ->
  lzi_valid (lenNb S) w /\ 258 <= code < 258 + lenNb S /\ lzi_str S code = lzi_str S w ++ [c].
Proof.
  induction 1 as [|tab S w0 c0 Hrel IH Hv]; intros w c code Hf; [discriminate|].
  cbn [tab_find] in Hf. rewrite lenNb_snoc.
  destruct ((w0 =? w) && (c0 =? c)) eqn:E.
  - apply andb_true_iff in E. destruct E as [E1 E2]. apply N.eqb_eq in E1, E2. subst w0 c0.
    assert (Hc : code = 258 + lenNb S) by congruence. clear Hf. subst code.
    split; [apply (lzi_valid_mono (lenNb S)); [lia|exact Hv]|]. split; [lia|].
    rewrite lzi_str_snoc_new, lzi_str_snoc_old by exact Hv. reflexivity.
  - destruct (IH w c code Hf) as (Hv1 & Hc & Hs).
    split; [apply (lzi_valid_mono (lenNb S)); [lia|exact Hv1]|]. split; [lia|].
    rewrite !lzi_str_snoc_old; [exact Hs | exact Hv1 | right; lia].
Qed.

(* decoder-side lookups agree with lzi_str on valid codes *)
Lemma lzi_entry_str : forall T w, lzi_valid (lenNb T) w -> lzw_entry T w = Some (lzi_str T w).
Proof.
  intros T w Hv. unfold lzw_entry, lzi_str. destruct (N.ltb_spec w 256) as [E|E]; [reflexivity|].
  unfold lzi_valid, lenNb in Hv. replace (w <=? 257) with false by (symmetry; apply N.leb_gt; lia).
  apply nth_error_nth'. lia.
Qed.

Lemma lzi_first_char_str : forall T w, lzi_valid (lenNb T) w -> lzi_str T w <> [] ->
  lzw_first_char T w = Some (hd 0 (lzi_str T w)).
Proof.
  intros T w Hv Hne. unfold lzw_first_char, lzi_str in *. destruct (N.ltb_spec w 256) as [E|E]; [reflexivity|].
  unfold lzi_valid, lenNb in Hv. replace (w <=? 257) with false by (symmetry; apply N.leb_gt; lia).
  rewrite (nth_error_nth' T []) by lia.
  destruct (nth (N.to_nat (w - 258)) T []); [contradiction|reflexivity].
Qed.

(* the code-width schedule of the encoder moves exactly as the decoder's *)
Lemma lzi_width_succ : forall early k,
  lz_width early (k + 1)
  = (let change := 258 + (k - 1) + (if early then 1 else 0) in
     if (change =? 511) || (change =? 1023) || (change =? 2047) then lz_width early k + 1 else lz_width early k)
  \/ k = 0.
Proof.
  intros early k. destruct (N.eq_dec k 0) as [E|E]; [right; exact E|left].
  unfold lz_width. cbv zeta.
  destruct early;
  repeat (match goal with |- context [?a =? ?b] => destruct (N.eqb_spec a b) end; try lia);
  repeat (match goal with |- context [?a <=? ?b] => destruct (N.leb_spec a b) end; try lia); cbn [orb]; lia.
Qed.

Lemma lzi_width_range : forall early k, k <= 3838 -> 9 <= lz_width early k <= 12.
Proof.
  intros early k Hk. unfold lz_width.
  repeat match goal with |- context [?a <=? ?b] => destruct (N.leb_spec a b) end; lia.
Qed.

(* ---------- the invariant between the encoder's state and the decoder's state ---------- *)
(* S: the strings of the encoder's k table entries; the decoder knows all but the last one, and the last one
   is (string of the previous code) ++ [first byte of the current match wc] *)
Definition lzi_dec_rel (S : list (list N)) (k wc : N) (s : lzw_st) : Prop :=
  (k = 0 /\ lz_table s = [] /\ lz_last_code s = 256) \/
  (exists T e, S = T ++ [e] /\ lz_table s = T /\ lzi_valid (lenNb T) (lz_last_code s) /\
               e = lzi_str T (lz_last_code s) ++ [hd 0 (lzi_str S wc)]).

Record lzi_inv (early : bool) (tab : lz_tab) (S : list (list N)) (k wc : N) (s : lzw_st) : Prop := {
  lzi_iv_tab : lzi_tab_rel tab S;
  lzi_iv_k : lenNb S = k;
  lzi_iv_kmax : k <= 3837;
  lzi_iv_wc : lzi_valid k wc;
  lzi_iv_eod : lz_eod s = false;
  lzi_iv_cs : lz_code_size s = lz_width early k;
  lzi_iv_dec : lzi_dec_rel S k wc s }.

Lemma lzi_tab_rel_snoc_inv : forall tab T e, lzi_tab_rel tab (T ++ [e]) ->
  exists tab' w c, tab = (w, c, 258 + lenNb T) :: tab' /\ lzi_tab_rel tab' T /\ lzi_valid (lenNb T) w /\ e = lzi_str T w ++ [c].
Proof.
  intros tab T e H. inversion H as [E1 E2|tab' S w c Hrel Hv E1 E2].
  - destruct T; discriminate.
  - apply app_inj_tail in E2. destruct E2 as [E2 E3]. subst S e.
    exists tab', w, c. repeat split; assumption.
Qed.

(* handleCode on the code the encoder emits: it outputs the string of that code and completes its table *)
Lemma lzi_handle_step : forall early tab S k wc s, lzi_inv early tab S k wc s ->
  exists s', lzw_handle early s wc = (s', lzi_str S wc, false) /\
    lz_table s' = S /\ lz_last_code s' = wc /\ lz_eod s' = false /\ lz_code_size s' = lz_width early (k + 1).
Proof.
  intros early tab S k wc s [Htab Hk Hkmax Hwc Heod Hcs Hdec].
  assert (Hn256 : (wc =? 256) = false) by (apply N.eqb_neq; destruct Hwc; lia).
  assert (Hn257 : (wc =? 257) = false) by (apply N.eqb_neq; destruct Hwc; lia).
  unfold lzw_handle. rewrite Heod, Hn256, Hn257.
  destruct Hdec as [(Ek & Et & El)|(T & e & ES & Et & Hvl & Ee)].
  - (* first code after a clear: nothing is added *)
    rewrite Ek in *. assert (ES : S = []) by (destruct S; [reflexivity|unfold lenNb in Hk; cbn [length] in Hk; lia]).
    subst S. rewrite El. change (256 =? 256) with true. cbv iota.
    assert (Hlt : wc < 256) by (destruct Hwc; lia).
    rewrite Et. unfold lzw_entry, lzi_str. replace (wc <? 256) with true by (symmetry; apply N.ltb_lt; exact Hlt).
    eexists. split; [reflexivity|]. cbn [lz_table lz_last_code lz_eod lz_code_size].
    repeat split; try reflexivity. rewrite Hcs. destruct early; reflexivity.
  - (* general case: complete the pending entry, then output *)
    destruct (lzi_tab_rel_snoc_inv _ _ _ ltac:(rewrite <- ES; exact Htab)) as (tab' & w0 & c0 & _ & HrelT & _ & _).
    assert (HkT : k = lenNb T + 1) by (rewrite <- Hk, ES; apply lenNb_snoc).
    assert (Hl256 : (lz_last_code s =? 256) = false) by (apply N.eqb_neq; destruct Hvl; lia).
    rewrite Hl256, Et.
    assert (HneL : lzi_str T (lz_last_code s) <> []) by (eapply lzi_str_nonempty; eassumption).
    assert (Hnc : (if wc <? 256 then Some wc
                   else if lenNb T <? wc - 258 then None
                   else if wc - 258 =? lenNb T then lzw_first_char T (lz_last_code s) else lzw_first_char T wc)
                  = Some (hd 0 (lzi_str S wc))).
    { destruct (N.ltb_spec wc 256) as [E|E].
      - unfold lzi_str. replace (wc <? 256) with true by (symmetry; apply N.ltb_lt; exact E). reflexivity.
      - assert (Hr : 258 <= wc < 258 + k) by (destruct Hwc; lia).
        replace (lenNb T <? wc - 258) with false by (symmetry; apply N.ltb_ge; lia).
        destruct (N.eqb_spec (wc - 258) (lenNb T)) as [E2|E2].
        + rewrite lzi_first_char_str by assumption.
          replace wc with (258 + lenNb T) at 1 by lia. rewrite ES at 1. rewrite lzi_str_snoc_new.
          rewrite Ee at 1. destruct (lzi_str T (lz_last_code s)); [contradiction|reflexivity].
        + assert (Hvw : lzi_valid (lenNb T) wc) by (right; lia).
          rewrite lzi_first_char_str; [|exact Hvw|eapply lzi_str_nonempty; eassumption].
          rewrite ES. rewrite lzi_str_snoc_old by exact Hvw. reflexivity. }
    rewrite Hnc.
    replace (258 + lenNb T =? 4096) with false by (symmetry; apply N.eqb_neq; lia).
    rewrite (lzi_entry_str T _ Hvl). rewrite <- Ee, <- ES.
    rewrite (lzi_entry_str S wc) by (rewrite Hk; exact Hwc).
    eexists. split; [reflexivity|]. cbn [lz_table lz_last_code lz_eod lz_code_size].
    repeat split; try reflexivity.
    destruct (lzi_width_succ early k) as [Hw|Hw]; [|lia].
    rewrite Hw, Hcs. cbv zeta. replace (258 + (k - 1)) with (258 + lenNb T) by lia. reflexivity.
Qed.

(* ---------- the encoder's accumulator ---------- *)
Lemma lzi_codes_acc : forall early d w tab next k acc,
  ref_lzw_codes early d w tab next k acc = ref_lzw_codes early d w tab next k [] ++ acc.
Proof.
  induction d as [|c t IH]; intros w tab next k acc.
  - cbn [ref_lzw_codes]. destruct w; reflexivity.
  - cbn [ref_lzw_codes]. destruct w as [wc|]; [|apply IH].
    destruct (tab_find tab wc c); [apply IH|].
    destruct (3838 <=? k + 1).
    + rewrite IH. rewrite (IH _ _ _ _ [_; _]). rewrite <- app_assoc. reflexivity.
    + rewrite IH. rewrite (IH _ _ _ _ [_]). rewrite <- app_assoc. reflexivity.
Qed.

Lemma lzi_code_fits : forall early k, k <= 3838 -> 257 + k < 2 ^ lz_width early k.
Proof.
  intros early k Hk. unfold lz_width.
  destruct early;
  repeat match goal with |- context [?a <=? ?b] => destruct (N.leb_spec a b) end;
  match goal with |- _ < 2 ^ ?e => let v := eval vm_compute in (2 ^ e) in change (2 ^ e) with v end; lia.
Qed.

Lemma lzi_valid_fits : forall early k wc, k <= 3837 -> lzi_valid k wc -> wc < 2 ^ lz_width early k.
Proof.
  intros early k wc Hk Hv. pose proof (lzi_code_fits early k ltac:(lia)). destruct Hv; lia.
Qed.

Lemma lzi_hd_app : forall (l : list N) x, l <> [] -> hd 0 (l ++ x) = hd 0 l.
Proof. intros [|a l] x H; [contradiction|reflexivity]. Qed.

(* ---------- layer 1: the decoder on the encoder's codes ---------- *)
Lemma lzi_main : forall early rest tab S k wc s, lzi_inv early tab S k wc s -> bytes_ok rest ->
  lzi_widths_ok early s (rev (ref_lzw_codes early rest (Some wc) tab (258 + k) k [])) /\
  exists s', lzi_hrun early s (rev (ref_lzw_codes early rest (Some wc) tab (258 + k) k [])) = (s', lzi_str S wc ++ rest, false)
             /\ lz_eod s' = true.
Proof.
  induction rest as [|c t IH]; intros tab S k wc s Hinv Hok.
  - (* end of data: the pending code, then EOD *)
    destruct (lzi_handle_step _ _ _ _ _ _ Hinv) as (s1 & Hh & Ht1 & Hl1 & He1 & Hc1).
    destruct Hinv as [Htab Hk Hkmax Hwc Heod Hcs Hdec].
    cbn [ref_lzw_codes rev app]. split.
    + cbn [lzi_widths_ok]. rewrite Hh. cbn [fst snd].
      split; [symmetry; exact Hcs|]. split; [apply lzi_valid_fits; assumption|]. intros _.
      split; [symmetry; exact Hc1|]. split; [pose proof (lzi_code_fits early (k + 1) ltac:(lia)); lia|].
      intros _. exact I.
    + cbn [lzi_hrun]. rewrite Hh. unfold lzw_handle at 1. rewrite He1.
      change (257 =? 256) with false. change (257 =? 257) with true. cbv iota.
      eexists. rewrite !app_nil_r. split; reflexivity.
  - apply bytes_ok_cons_inv in Hok. destruct Hok as [Hc Hok].
    cbn [ref_lzw_codes]. destruct (tab_find tab wc c) as [code|] eqn:Ef.
    + (* the match grows: nothing is emitted *)
      destruct Hinv as [Htab Hk Hkmax Hwc Heod Hcs Hdec].
      destruct (lzi_tab_find_sound _ _ Htab _ _ _ Ef) as (Hv1 & Hcode & Hstr).
      assert (Hne : lzi_str S wc <> []) by (eapply lzi_str_nonempty; eassumption).
      assert (Hinv' : lzi_inv early tab S k code s).
      { constructor; try assumption.
        - right. rewrite <- Hk. exact Hcode.
        - destruct Hdec as [Hd|(T & e & ES & Et & Hvl & Ee)]; [left; exact Hd|right].
          exists T, e. repeat split; try assumption.
          rewrite Hstr, lzi_hd_app by exact Hne. exact Ee. }
      destruct (IH tab S k code s Hinv' Hok) as [Hw (s' & Hr & Hee)].
      split; [exact Hw|]. exists s'. rewrite Hr, Hstr, <- app_assoc. split; [reflexivity|exact Hee].
    + (* no match: emit wc *)
      destruct (lzi_handle_step _ _ _ _ _ _ Hinv) as (s1 & Hh & Ht1 & Hl1 & He1 & Hc1).
      destruct Hinv as [Htab Hk Hkmax Hwc Heod Hcs Hdec].
      destruct (N.leb_spec 3838 (k + 1)) as [Efull|Efull].
      * (* table full: clear code, start over *)
        rewrite lzi_codes_acc. rewrite rev_app_distr. cbn [rev app].
        set (s2 := {| lz_buf := lz_buf s1; lz_code_size := 9; lz_next_char := lz_next_char s1;
                      lz_byte_pos := lz_byte_pos s1; lz_bit_pos := lz_bit_pos s1; lz_bits_avail := lz_bits_avail s1;
                      lz_eod := false; lz_table := []; lz_last_code := 256 |}).
        assert (Hh2 : lzw_handle early s1 256 = (s2, [], false)).
        { unfold lzw_handle. rewrite He1. reflexivity. }
        assert (Hinv2 : lzi_inv early [] [] 0 c s2).
        { constructor; try reflexivity.
          - constructor.
          - lia.
          - left. exact Hc.
          - destruct early; reflexivity.
          - left. repeat split. }
        destruct (IH [] [] 0 c s2 Hinv2 Hok) as [Hw (s' & Hr & Hee)].
        change (258 + 0) with 258 in Hw, Hr. split.
        -- cbn [lzi_widths_ok]. rewrite Hh. cbn [fst snd].
           split; [symmetry; exact Hcs|]. split; [apply lzi_valid_fits; assumption|]. intros _.
           rewrite Hh2. cbn [fst snd].
           split; [symmetry; exact Hc1|]. split; [pose proof (lzi_code_fits early (k + 1) ltac:(lia)); lia|].
           intros _. exact Hw.
        -- cbn [lzi_hrun]. rewrite Hh, Hh2, Hr. exists s'.
           unfold lzi_str at 2. replace (c <? 256) with true by (symmetry; apply N.ltb_lt; exact Hc).
           cbn [app]. split; [reflexivity|exact Hee].
      * (* add the entry (wc, c) *)
        rewrite lzi_codes_acc. rewrite rev_app_distr. cbn [rev app].
        assert (Hinv2 : lzi_inv early ((wc, c, 258 + k) :: tab) (S ++ [lzi_str S wc ++ [c]]) (k + 1) c s1).
        { constructor.
          - rewrite <- Hk. constructor; [exact Htab|rewrite Hk; exact Hwc].
          - rewrite lenNb_snoc, Hk. reflexivity.
          - lia.
          - left. exact Hc.
          - exact He1.
          - exact Hc1.
          - right. exists S, (lzi_str S wc ++ [c]). rewrite Ht1, Hl1, Hk. repeat split; try assumption.
            unfold lzi_str at 3. replace (c <? 256) with true by (symmetry; apply N.ltb_lt; exact Hc). reflexivity. }
        destruct (IH _ _ _ _ _ Hinv2 Hok) as [Hw (s' & Hr & Hee)].
        replace (258 + (k + 1)) with (258 + k + 1) in Hw, Hr by lia. split.
        -- cbn [lzi_widths_ok]. rewrite Hh. cbn [fst snd].
           split; [symmetry; exact Hcs|]. split; [apply lzi_valid_fits; assumption|]. intros _. exact Hw.
        -- cbn [lzi_hrun]. rewrite Hh, Hr. exists s'.
           unfold lzi_str at 2. replace (c <? 256) with true by (symmetry; apply N.ltb_lt; exact Hc).
           cbn [app]. split; [reflexivity|exact Hee].
Qed.

(* Layer 1 (codes): handleCode run over the codes of the reference encoder returns the data, for every byte
   string and both EarlyChange values, with no exception, and every code has the width the decoder expects.
   Covers inputs that fill the table (the encoder then emits a clear-table code after 3838 codes, one
   before the decoder would throw "table full") and the KwKwK case. *)
Lemma lzw_codes_decode_encode_lemma : forall early d, bytes_ok d ->
  lzi_widths_ok early lzw_init (lzi_ref_codes early d) /\
  exists s', lzi_hrun early lzw_init (lzi_ref_codes early d) = (s', d, false) /\ lz_eod s' = true.
Proof.
  intros early d Hok. unfold lzi_ref_codes. rewrite rev'_rev.
  set (s0 := {| lz_buf := lz_buf lzw_init; lz_code_size := 9; lz_next_char := lz_next_char lzw_init;
                lz_byte_pos := lz_byte_pos lzw_init; lz_bit_pos := lz_bit_pos lzw_init; lz_bits_avail := lz_bits_avail lzw_init;
                lz_eod := false; lz_table := []; lz_last_code := 256 |}).
  assert (Hh0 : lzw_handle early lzw_init 256 = (s0, [], false)) by reflexivity.
  destruct d as [|c t].
  - cbn [ref_lzw_codes rev app]. split.
    + cbn [lzi_widths_ok]. rewrite Hh0. cbn [fst snd lz_code_size lzw_init].
      split; [reflexivity|]. split; [reflexivity|]. intros _.
      split; [destruct early; reflexivity|]. split; [destruct early; reflexivity|]. intros _. exact I.
    + cbn [lzi_hrun]. rewrite Hh0. eexists. split; reflexivity.
  - apply bytes_ok_cons_inv in Hok. destruct Hok as [Hc Hok].
    cbn [ref_lzw_codes].
    assert (Hinv : lzi_inv early [] [] 0 c s0).
    { constructor; try reflexivity.
      - constructor.
      - lia.
      - left. exact Hc.
      - destruct early; reflexivity.
      - left. repeat split. }
    destruct (lzi_main early t [] [] 0 c s0 Hinv Hok) as [Hw (s' & Hr & Hee)].
    change (258 + 0) with 258 in Hw, Hr. split.
    + cbn [lzi_widths_ok]. rewrite Hh0. cbn [fst snd lz_code_size lzw_init].
      split; [reflexivity|]. split; [reflexivity|]. intros _. exact Hw.
    + cbn [lzi_hrun]. rewrite Hh0, Hr. exists s'.
      unfold lzi_str. replace (c <? 256) with true by (symmetry; apply N.ltb_lt; exact Hc). split; [reflexivity|exact Hee].
Qed.
