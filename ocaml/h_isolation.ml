(* handlers: Sys/Heap model (C20). History syntax: see harness/drv_isolation.cc / harness/c20.py. I/O only. *)
open Qvmodel
open Runner

let key_of (s : string) : n = n_of_int (Char.code s.[0])
let tail s = String.sub s 1 (String.length s - 1)

let toks_of (s : string) : itok list =
  List.concat_map (fun t ->
    if t = "" then [] else
    match t.[0] with
    | 'n' -> [ItNull] | 't' -> [ItBool true] | 'f' -> [ItBool false]
    | 'i' -> [ItInt (z_of_int (int_of_string (tail t)))]
    | 'N' -> [ItName (key_of (tail t))]
    | 'r' -> [ItRef (n_of_int (int_of_string (tail t)))]
    | '[' -> [ItAO] | ']' -> [ItAC] | '<' -> [ItDO] | '>' -> [ItDC]
    | 'z' -> List.init (int_of_string (tail t)) (fun _ -> ItNull)
    | _ -> failwith ("token " ^ t)) (String.split_on_char '.' s)

let hx_of (s : string) : hexpr =
  match String.split_on_char '/' s with
  | [] -> failwith "hx"
  | h :: steps ->
    let head = match h.[0] with
      | 'r' -> ERoot (nat_of_int (int_of_string (tail h)))
      | 'o' -> EObj (n_of_int (int_of_string (tail h)))
      | 'I' -> ENewInt (z_of_int (int_of_string (tail h)))
      | 'U' -> ENewNull
      | 'Y' -> ENewName (key_of (tail h))
      | 'B' -> ENewArr
      | 'G' -> ENewDict
      | _ -> failwith "hx head" in
    (head, List.map (fun st -> match st.[0] with
      | 'i' -> SIdx (nat_of_int (int_of_string (tail st)))
      | 'v' -> SVec (nat_of_int (int_of_string (tail st)))
      | 'k' -> SKey (key_of (tail st))
      | _ -> failwith "hx step") steps)

let op_of (s : string) : nat * iop =
  match String.split_on_char ',' s with
  | "D" :: d :: _ -> (nat_of_int (int_of_string d), OpNewDoc)
  | ["P"; d; r; toks] -> (nat_of_int (int_of_string d), OpParse (nat_of_int (int_of_string r), toks_of toks))
  | ["H"; d; r; hx] -> (nat_of_int (int_of_string d), OpHold (nat_of_int (int_of_string r), hx_of hx))
  | ["M"; d; hx] -> (nat_of_int (int_of_string d), OpMakeInd (hx_of hx))
  | ["K"; d; hx; k; vx] -> (nat_of_int (int_of_string d), OpReplaceKey (hx_of hx, key_of k, hx_of vx))
  | ["R"; d; hx; k] -> (nat_of_int (int_of_string d), OpRemoveKey (hx_of hx, key_of k))
  | ["A"; d; hx; vx] -> (nat_of_int (int_of_string d), OpAppend (hx_of hx, hx_of vx))
  | ["S"; d; hx; n; vx] -> (nat_of_int (int_of_string d), OpSetItem (hx_of hx, nat_of_int (int_of_string n), hx_of vx))
  | ["E"; d; hx; n] -> (nat_of_int (int_of_string d), OpErase (hx_of hx, nat_of_int (int_of_string n)))
  | ["O"; d; id; vx] -> (nat_of_int (int_of_string d), OpReplaceObj (n_of_int (int_of_string id), hx_of vx))
  | "X" :: d :: _ -> (nat_of_int (int_of_string d), OpDestroy)
  | "W" :: d :: _ -> (nat_of_int (int_of_string d), OpObserve)
  | "J" :: d :: _ -> (nat_of_int (int_of_string d), OpJson)
  | _ -> failwith ("op " ^ s)

let res_str = function IrOk -> "ok" | IrSkip -> "skip" | IrLogic -> "!L"

let iso_handler sh = fun args ->
  let hist = match args with [] -> "" | h :: _ -> h in
  let ops = List.filter (fun s -> s <> "") (String.split_on_char ';' hist) in
  let (init, steps) = iso_run sh (List.map op_of ops) in
  "init|" ^ string_of_bytes init ^
  String.concat "" (List.map (fun (r, d) -> "#" ^ res_str r ^ "|" ^ string_of_bytes d) steps)

let () =
  register "iso" (iso_handler false);         (* the code as it is: a fresh null per parsed null / per hole *)
  register "iso_old" (iso_handler true)       (* historical: the shared static nulls of the tree before fix b456e5d1 *)

(* isolog: where each document's output goes (Sys/LogModel.v).  Same history syntax as the driver. *)
let () =
  register "isolog" (fun args ->
    let hist = match args with [] -> "" | h :: _ -> h in
    let ops = List.filter (fun s -> s <> "") (String.split_on_char ';' hist) in
    let parse s =
      let n = String.length s in
      let i = ref 1 in
      while !i < n && s.[!i] >= '0' && s.[!i] <= '9' do incr i done;
      let d = int_of_string (String.sub s 1 (!i - 1)) in
      let sub = if !i < n then s.[!i] else ' ' in
      (s.[0], d, sub) in
    let evs = List.map (fun s -> let (k, d, _) = parse s in
      (nat_of_int d, (match k with 'c' -> LCreate | 'r' -> LRedirect (nat_of_int d) | 'e' -> LEmit | _ -> LDestroy))) ops in
    let res = log_run false evs in
    (* the model answers which sink; "ok"/"skip" bookkeeping for non-emitting steps is the document table's *)
    let alive = Hashtbl.create 8 in
    String.concat "#" (List.map2 (fun s r ->
      let (k, d, sub) = parse s in
      let out = match k, r with
        | 'c', _ -> Hashtbl.replace alive d (); "ok"
        | 'x', _ -> if Hashtbl.mem alive d then (Hashtbl.remove alive d; "ok") else "skip"
        | 'r', _ -> if Hashtbl.mem alive d then "ok" else "skip"
        | _, None -> "skip"
        | _, Some sk -> let i = int_of_nat sk in if i = 0 then (if sub = 'i' then "cout" else "cerr") else "o" ^ string_of_int i in
      s ^ "=" ^ out) ops res))
